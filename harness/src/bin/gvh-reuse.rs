//! C20 driver, DIE side: entry buffers (`EntriesRaw::read_entry` into a reused
//! `DebuggingInformationEntry`), cursors and their clones, `EntriesTree::root`
//! after partial traversals, and `AbbreviationsCache` strategies.
//!
//! Cases come from MCReuse.tla (sections encoded by the spec).  No
//! expectations live here: the driver performs the scripted uses on reused and
//! on fresh state and prints what gimli reported.
use gimli::{
    AbbreviationsCacheStrategy, AttributeValue, DebugAbbrev, DebugAbbrevOffset, DebugInfo, DebuggingInformationEntry,
    Dwarf, EndianSlice, EntriesTreeNode, LittleEndian, SectionId,
};
use gvh::*;
use serde_json::{json, Value};

type R<'a> = EndianSlice<'a, LittleEndian>;

fn entry_json(e: &DebuggingInformationEntry<R<'_>>) -> Value {
    let attrs: Vec<Value> = e
        .attrs()
        .iter()
        .map(|a| {
            let v = match a.raw_value() {
                AttributeValue::Data1(v) => json!({"f":"d1","v":v}),
                AttributeValue::Data2(v) => json!({"f":"d2","v":v}),
                AttributeValue::Udata(v) => json!({"f":"u","v":v}),
                AttributeValue::Flag(true) => json!({"f":"fp"}),
                other => json!({"f":"other","dbg":format!("{:?}", other)}),
            };
            json!([a.name().0, v])
        })
        .collect();
    json!({"off": e.offset().0, "depth": e.depth(), "tag": e.tag().0, "ch": e.has_children(), "attrs": attrs})
}

fn table_json(r: gimli::Result<std::sync::Arc<gimli::Abbreviations>>, codes: &[u64]) -> Value {
    match r {
        Err(e) => json!({"ok":false,"err":err_name(&e)}),
        Ok(t) => {
            let get: Vec<Value> = codes
                .iter()
                .map(|c| match t.get(*c) {
                    None => json!({"none":true}),
                    Some(a) => {
                        let attrs: Vec<Value> = a.attributes().iter().map(|s| json!([s.name().0, s.form().0])).collect();
                        json!({"tag":a.tag().0,"ch":a.has_children(),"attrs":attrs})
                    }
                })
                .collect();
            json!({"ok":true,"get":get})
        }
    }
}

fn cache_case(case: &Value) -> Value {
    let abbrev = bytes_of(&case["abbrev"]);
    let info = bytes_of(&case["info"]);
    let codes: Vec<u64> = case["codes"].as_array().map(|a| a.iter().map(|x| x.as_u64().unwrap_or(0)).collect()).unwrap_or_default();
    let probe: Vec<usize> = case["probe"].as_array().map(|a| a.iter().map(|x| x.as_u64().unwrap_or(0) as usize).collect()).unwrap_or_default();
    let load = |id: SectionId| -> Result<R<'_>, gimli::Error> {
        Ok(EndianSlice::new(
            match id {
                SectionId::DebugAbbrev => &abbrev[..],
                SectionId::DebugInfo => &info[..],
                _ => &[],
            },
            LittleEndian,
        ))
    };
    let mut dwarf = Dwarf::load(load).unwrap();
    match case["strat"].as_str() {
        Some("dup") => dwarf.populate_abbreviations_cache(AbbreviationsCacheStrategy::Duplicates),
        Some("all") => dwarf.populate_abbreviations_cache(AbbreviationsCacheStrategy::All),
        _ => {}
    }
    let mut units = Vec::new();
    let mut direct_units = Vec::new();
    let mut it = dwarf.units();
    loop {
        match it.next() {
            Ok(Some(h)) => {
                units.push(table_json(dwarf.abbreviations(&h), &codes));
                direct_units.push(table_json(h.abbreviations(&dwarf.debug_abbrev).map(std::sync::Arc::new), &codes));
            }
            Ok(None) => break,
            Err(e) => {
                units.push(json!({"unit_err":err_name(&e)}));
                break;
            }
        }
    }
    let gets: Vec<Value> = probe
        .iter()
        .map(|o| table_json(dwarf.abbreviations_cache.get(&dwarf.debug_abbrev, DebugAbbrevOffset(*o)), &codes))
        .collect();
    let direct: Vec<Value> = probe
        .iter()
        .map(|o| table_json(dwarf.debug_abbrev.abbreviations(DebugAbbrevOffset(*o)).map(std::sync::Arc::new), &codes))
        .collect();
    // asking twice must not change anything
    let gets2: Vec<Value> = probe
        .iter()
        .map(|o| table_json(dwarf.abbreviations_cache.get(&dwarf.debug_abbrev, DebugAbbrevOffset(*o)), &codes))
        .collect();
    json!({"units":units,"direct_units":direct_units,"gets":gets,"gets2":gets2,"direct":direct})
}

/// One AbbreviationsCache used for several `.debug_abbrev` sections in turn: optional
/// `set`, then `populate` calls (each with its own section and units), then `get` for
/// every unit of the last populate and for the probe offsets, against the last section.
/// Done twice: through `Dwarf` (pub fields swapped between populate calls) and on a bare
/// `AbbreviationsCache`.
fn repop_case(case: &Value) -> Value {
    let sec_a = bytes_of(&case["secs"]["A"]);
    let sec_b = bytes_of(&case["secs"]["B"]);
    let codes: Vec<u64> = case["codes"].as_array().map(|a| a.iter().map(|x| x.as_u64().unwrap_or(0)).collect()).unwrap_or_default();
    let probe: Vec<usize> = case["probe"].as_array().map(|a| a.iter().map(|x| x.as_u64().unwrap_or(0) as usize).collect()).unwrap_or_default();
    let steps = case["steps"].as_array().cloned().unwrap_or_default();
    let infos: Vec<Vec<u8>> = steps.iter().map(|s| bytes_of(&s["info"])).collect();
    let sec_of = |n: &Value| -> &[u8] { if n.as_str() == Some("A") { &sec_a[..] } else { &sec_b[..] } };
    let empty: [u8; 0] = [];
    let mut dwarf: Dwarf<R<'_>> = Dwarf::load(|_id| -> Result<R<'_>, gimli::Error> { Ok(EndianSlice::new(&empty[..], LittleEndian)) }).unwrap();
    let mut bare = gimli::AbbreviationsCache::new();
    let mut bare_abbrev = DebugAbbrev::new(&empty[..], LittleEndian);
    let mut bare_info = DebugInfo::new(&empty[..], LittleEndian);
    for (k, st) in steps.iter().enumerate() {
        match st["op"].as_str() {
            Some("set") => {
                let from = DebugAbbrev::new(sec_of(&st["from"]), LittleEndian);
                let at = DebugAbbrevOffset(st["at"].as_u64().unwrap_or(0) as usize);
                if let Ok(t) = from.abbreviations(DebugAbbrevOffset(st["off"].as_u64().unwrap_or(0) as usize)) {
                    let t = std::sync::Arc::new(t);
                    dwarf.abbreviations_cache.set::<R<'_>>(at, t.clone());
                    bare.set::<R<'_>>(at, t);
                }
            }
            Some("populate") => {
                let strat = if st["strat"].as_str() == Some("dup") { AbbreviationsCacheStrategy::Duplicates } else { AbbreviationsCacheStrategy::All };
                dwarf.debug_abbrev = DebugAbbrev::new(sec_of(&st["sec"]), LittleEndian);
                dwarf.debug_info = DebugInfo::new(&infos[k][..], LittleEndian);
                dwarf.populate_abbreviations_cache(strat);
                bare_abbrev = DebugAbbrev::new(sec_of(&st["sec"]), LittleEndian);
                bare_info = DebugInfo::new(&infos[k][..], LittleEndian);
                bare.populate(strat, &bare_abbrev, bare_info.units());
            }
            _ => {}
        }
    }
    let mut units = Vec::new();
    let mut bare_units = Vec::new();
    let mut it = dwarf.units();
    while let Ok(Some(h)) = it.next() {
        units.push(table_json(dwarf.abbreviations(&h), &codes));
        bare_units.push(table_json(bare.get(&bare_abbrev, h.debug_abbrev_offset()), &codes));
    }
    let _ = &bare_info;
    let gets: Vec<Value> = probe.iter().map(|o| table_json(dwarf.abbreviations_cache.get(&dwarf.debug_abbrev, DebugAbbrevOffset(*o)), &codes)).collect();
    let bare_gets: Vec<Value> = probe.iter().map(|o| table_json(bare.get(&bare_abbrev, DebugAbbrevOffset(*o)), &codes)).collect();
    let direct: Vec<Value> = probe.iter().map(|o| table_json(dwarf.debug_abbrev.abbreviations(DebugAbbrevOffset(*o)).map(std::sync::Arc::new), &codes)).collect();
    json!({"units":units,"bare_units":bare_units,"gets":gets,"bare_gets":bare_gets,"direct":direct})
}

fn cur_json(c: &gimli::EntriesCursor<'_, R<'_>>) -> Value {
    match c.current() {
        Some(e) => entry_json(e),
        None => json!({"null":true,"off":c.offset().0,"depth":c.depth()}),
    }
}

#[derive(Clone, Copy)]
enum Op {
    Entry,
    Dfs,
    Sib,
}

fn drive(c: &mut gimli::EntriesCursor<'_, R<'_>>, op: Op, fuel: usize) -> Value {
    let mut out = Vec::new();
    for _ in 0..fuel {
        let res = match op {
            Op::Entry => c.next_entry().map(|b| b),
            Op::Dfs => c.next_dfs().map(|e| e.is_some()),
            Op::Sib => c.next_sibling().map(|e| e.is_some()),
        };
        match res {
            // next_sibling / next_dfs report Some(entry) or None; next_entry reports true for a null entry too.
            // "true" in the model means: the call moved the cursor and may be repeated.
            Ok(moved) => {
                let cont = match op {
                    Op::Entry => moved,
                    // a sibling step that lands on the terminating null returns None but did move
                    Op::Sib | Op::Dfs => moved,
                };
                out.push(json!({"res": if cont {"true"} else {"false"}, "cur": cur_json(c)}));
                if !cont {
                    break;
                }
            }
            Err(e) => {
                out.push(json!({"res":err_name(&e),"cur":cur_json(c)}));
                break;
            }
        }
    }
    Value::Array(out)
}

fn visit(node: EntriesTreeNode<'_, '_, R<'_>>, out: &mut Vec<Value>, left: &mut usize) -> gimli::Result<bool> {
    if *left == 0 {
        return Ok(false);
    }
    out.push(entry_json(node.entry()));
    *left -= 1;
    let mut ch = node.children();
    while let Some(c) = ch.next()? {
        if !visit(c, out, left)? {
            return Ok(false);
        }
    }
    Ok(true)
}

fn traverse(tree: &mut gimli::EntriesTree<'_, R<'_>>, budget: usize) -> Value {
    let mut out = Vec::new();
    let mut left = budget;
    let st = match tree.root() {
        Err(e) => err_name(&e),
        Ok(root) => match visit(root, &mut out, &mut left) {
            Ok(true) => "ok".to_string(),
            Ok(false) => "stop".to_string(),
            Err(e) => err_name(&e),
        },
    };
    json!({"out":out,"st":st})
}

fn die_case(case: &Value) -> Value {
    let abbrev = bytes_of(&case["abbrev"]);
    let info = bytes_of(&case["info"]);
    let fuel = case["fuel"].as_u64().unwrap_or(14) as usize;
    let n = case["ntok"].as_u64().unwrap_or(0) as usize + 1;
    let debug_abbrev = DebugAbbrev::new(&abbrev, LittleEndian);
    let debug_info = DebugInfo::new(&info, LittleEndian);
    let header = match debug_info.units().next() {
        Ok(Some(h)) => h,
        other => return json!({"unit": format!("{:?}", other.map(|x| x.is_some()))}),
    };
    let abbrevs = match header.abbreviations(&debug_abbrev) {
        Ok(a) => a,
        Err(e) => return json!({"abbrev_err": err_name(&e)}),
    };
    // raw reads: one reused buffer vs a new buffer for every read (two independent readers)
    let mut reused = Vec::new();
    let mut fresh = Vec::new();
    {
        let mut raw1 = header.entries_raw(&abbrevs, None).unwrap();
        let mut raw2 = header.entries_raw(&abbrevs, None).unwrap();
        let mut buf = DebuggingInformationEntry::null();
        for _ in 0..fuel {
            if raw1.is_empty() {
                break;
            }
            let r1 = raw1.read_entry(&mut buf);
            let mut nb = DebuggingInformationEntry::null();
            let r2 = raw2.read_entry(&mut nb);
            let name = |r: &gimli::Result<bool>| match r {
                Ok(true) => "true".to_string(),
                Ok(false) => "false".to_string(),
                Err(e) => err_name(e),
            };
            reused.push(json!({"res":name(&r1),"e":entry_json(&buf)}));
            fresh.push(json!({"res":name(&r2),"e":entry_json(&nb)}));
            if let Err(e) = &r1 {
                let k = err_name(e);
                if k == "UnexpectedEof" || k == "BadUnsignedLeb128" {
                    break;
                }
            }
        }
    }
    let entries = drive(&mut header.entries(&abbrevs), Op::Entry, fuel);
    let dfs = drive(&mut header.entries(&abbrevs), Op::Dfs, fuel);
    // clones: advance k entries, clone; run the original to the end first, then the clone (and the other way round)
    let mut clones = Vec::new();
    let mut clones_rev = Vec::new();
    for k in 0..=n {
        let mut c = header.entries(&abbrevs);
        for _ in 0..k {
            let _ = c.next_entry();
        }
        let mut d = c.clone();
        let first = drive(&mut c, Op::Dfs, fuel);
        let second = drive(&mut d, Op::Dfs, fuel);
        clones.push(second);
        clones_rev.push(first);
    }
    let mut s = header.entries(&abbrevs);
    let _ = s.next_entry();
    let _ = s.next_entry();
    let sib = drive(&mut s, Op::Sib, fuel);
    // tree: new tree; and per budget j: partial traversal, then root() again and a full one
    let tree_fresh = traverse(&mut header.entries_tree(&abbrevs, None).unwrap(), 100);
    let mut partial = Vec::new();
    let mut reroot = Vec::new();
    for j in 0..=n {
        let mut t = header.entries_tree(&abbrevs, None).unwrap();
        partial.push(traverse(&mut t, j));
        reroot.push(traverse(&mut t, 100));
    }
    // a cloned tree continues independently of the original
    let mut t1 = header.entries_tree(&abbrevs, None).unwrap();
    let _ = traverse(&mut t1, 1);
    let mut t2 = t1.clone();
    let _ = traverse(&mut t1, 100);
    let tree_clone = traverse(&mut t2, 100);
    json!({"raw_reused":reused,"raw_fresh":fresh,"entries":entries,"dfs":dfs,"clones":clones,"clones_rev":clones_rev,
           "sib":sib,"tree":tree_fresh,"partial":partial,"reroot":reroot,"tree_clone":tree_clone})
}

fn replay(case: &Value) -> Value {
    match case["sys"].as_str() {
        Some("cache") => cache_case(case),
        Some("die") => die_case(case),
        Some("repop") => repop_case(case),
        _ => json!({"outcome":"bad-sys"}),
    }
}

fn record(out: &str, _a: &Args) {
    write_lines(out, &[]);
}

fn main() {
    main_with(replay, record);
}
