//! C14 driver: performs `gimli::write::FrameTable` builder calls from a script,
//! writes the table as `.debug_frame` and as `.eh_frame` with `EndianVec`, reads
//! both back with `gimli::read` (entries, CIE parameters, FDE ranges,
//! personality / LSDA, unwind state at the probe offsets through
//! `unwind_info_for_address`) and reports everything plus the raw bytes.
//! No expectations and no DWARF knowledge live here.
use gimli::write::{self, Address, EndianVec, Writer};
use gimli::{
    BaseAddresses, CfaRule, CieOrFde, CommonInformationEntry, DebugFrame, EhFrame, EndianSlice,
    Pointer, Register, RegisterRule, RunTimeEndian, UnwindContext, UnwindOffset,
    UnwindSection, Vendor,
};
use gvh::*;
use serde_json::{json, Value};

type R<'a> = EndianSlice<'a, RunTimeEndian>;

fn endian(le: bool) -> RunTimeEndian {
    if le {
        RunTimeEndian::Little
    } else {
        RunTimeEndian::Big
    }
}

fn errv<E: std::fmt::Debug>(e: &E) -> Value {
    let s = format!("{:?}", e);
    let name = s.split(|c: char| c == '(' || c == ' ' || c == '{').next().unwrap_or("").to_string();
    json!({"ok":false,"err":name})
}

fn reg(v: &Value) -> Register {
    Register(v.as_u64().unwrap_or(0) as u16)
}

fn ins_of(v: &Value) -> write::CallFrameInstruction {
    use write::CallFrameInstruction as I;
    let r = reg(&v["r"]);
    let r2 = reg(&v["r2"]);
    let o = v["o"].as_i64().unwrap_or(0) as i32;
    let n = v["n"].as_u64().unwrap_or(0) as u32;
    let e = || write::Expression::raw(bytes_of(&v["e"]));
    match v["op"].as_str().unwrap_or("") {
        "cfa" => I::Cfa(r, o),
        "cfa_register" => I::CfaRegister(r),
        "cfa_offset" => I::CfaOffset(o),
        "cfa_expr" => I::CfaExpression(e()),
        "restore" => I::Restore(r),
        "undefined" => I::Undefined(r),
        "same_value" => I::SameValue(r),
        "offset" => I::Offset(r, o),
        "val_offset" => I::ValOffset(r, o),
        "register" => I::Register(r, r2),
        "expr" => I::Expression(r, e()),
        "val_expr" => I::ValExpression(r, e()),
        "remember" => I::RememberState,
        "restore_state" => I::RestoreState,
        "args_size" => I::ArgsSize(n),
        "negate_ra" => I::NegateRaState,
        other => panic!("harness: unknown instruction {}", other),
    }
}

fn cie_of(v: &Value) -> write::CommonInformationEntry {
    let enc = gimli::Encoding {
        format: if v["fmt"] == 64 { gimli::Format::Dwarf64 } else { gimli::Format::Dwarf32 },
        version: v["ver"].as_u64().unwrap_or(1) as u16,
        address_size: v["asz"].as_u64().unwrap_or(8) as u8,
    };
    let mut c = write::CommonInformationEntry::new(
        enc,
        v["caf"].as_u64().unwrap_or(1) as u8,
        v["daf"].as_i64().unwrap_or(1) as i8,
        reg(&v["ra"]),
    );
    if v["pers"]["some"] == true {
        c.personality = Some((
            gimli::DwEhPe(v["pers"]["enc"].as_u64().unwrap_or(0) as u8),
            Address::Constant(unbv(&v["pers"]["addr"])),
        ));
    }
    let lenc = v["lenc"].as_i64().unwrap_or(-1);
    if lenc >= 0 {
        c.lsda_encoding = Some(gimli::DwEhPe(lenc as u8));
    }
    c.fde_address_encoding = gimli::DwEhPe(v["fenc"].as_u64().unwrap_or(0) as u8);
    c.signal_trampoline = v["sig"] == true;
    for i in v["ins"].as_array().cloned().unwrap_or_default() {
        c.add_instruction(ins_of(&i));
    }
    c
}

fn ptr_kv(p: Pointer) -> (&'static str, u64) {
    match p {
        Pointer::Direct(v) => ("direct", v),
        Pointer::Indirect(v) => ("indirect", v),
    }
}

fn cie_json(c: &CommonInformationEntry<R>) -> Value {
    let aug = match c.augmentation() {
        None => json!({"some":false}),
        Some(_) => {
            let pers = match c.personality_with_encoding() {
                None => json!({"some":false}),
                Some((e, p)) => {
                    let (k, v) = ptr_kv(p);
                    json!({"some":true,"enc":e.0,"k":k,"v":bv(v,8)})
                }
            };
            json!({"some":true,
                   "lsda": c.lsda_encoding().map(|e| e.0 as i64).unwrap_or(-1),
                   "pers": pers,
                   "fenc": c.fde_address_encoding().map(|e| e.0 as i64).unwrap_or(-1),
                   "sig": c.is_signal_trampoline()})
        }
    };
    let enc = c.encoding();
    json!({"t":"cie","off":c.offset(),"len":c.entry_len(),
           "fmt": if enc.format == gimli::Format::Dwarf64 {64} else {32},
           "ver":c.version(),"asz":c.address_size(),
           "caf":bv(c.code_alignment_factor(),8),"daf":bv(c.data_alignment_factor() as u64,8),
           "ra":c.return_address_register().0,"aug":aug})
}

fn state_json<'a, S>(row: &gimli::UnwindTableRow<usize>, sec: &S) -> Value
where
    S: UnwindSection<R<'a>>,
{
    let eb = |e: &gimli::UnwindExpression<usize>| match e.get(sec) {
        Ok(x) => bytes_json(x.0.slice()),
        Err(er) => json!(["err", format!("{:?}", er)]),
    };
    let cfa = match row.cfa() {
        CfaRule::RegisterAndOffset { register, offset } => json!({"k":"ro","r":register.0,"o":offset}),
        CfaRule::Expression(e) => json!({"k":"expr","b":eb(e)}),
    };
    let mut rules = Vec::new();
    for (r, rule) in row.registers() {
        let mut j = match rule {
            RegisterRule::Undefined => json!({"k":"undef"}),
            RegisterRule::SameValue => json!({"k":"same"}),
            RegisterRule::Offset(o) => json!({"k":"off","o":o}),
            RegisterRule::ValOffset(o) => json!({"k":"valoff","o":o}),
            RegisterRule::Register(s) => json!({"k":"reg","s":s.0}),
            RegisterRule::Expression(e) => json!({"k":"expr","b":eb(e)}),
            RegisterRule::ValExpression(e) => json!({"k":"valexpr","b":eb(e)}),
            RegisterRule::Architectural => json!({"k":"arch"}),
            RegisterRule::Constant(v) => json!({"k":"const","v":v}),
        };
        j["r"] = json!(r.0);
        rules.push(j);
    }
    json!({"cfa":cfa,"rules":rules,"args":row.saved_args_size()})
}

fn read_back<'a, S>(sec: &S, bases: &BaseAddresses, probes: &Value) -> Value
where
    S: UnwindSection<R<'a>>,
    S::Offset: UnwindOffset<usize>,
{
    let mut out = Vec::new();
    let mut it = sec.entries(bases);
    let mut nfde = 0usize;
    let end;
    loop {
        match it.next() {
            Ok(None) => {
                end = json!({"ok":true});
                break;
            }
            Err(e) => {
                end = errv(&e);
                break;
            }
            Ok(Some(CieOrFde::Cie(c))) => out.push(cie_json(&c)),
            Ok(Some(CieOrFde::Fde(p))) => {
                let k = nfde;
                nfde += 1;
                let mut j = json!({"t":"fde","off":p.offset(),"len":p.entry_len(),
                                   "cie_off":UnwindOffset::into(p.cie_offset()),"k":k + 1});
                match p.parse(S::cie_from_offset) {
                    Err(e) => j["parse"] = errv(&e),
                    Ok(f) => {
                        j["cie"] = cie_json(f.cie());
                        j["start"] = bv(f.initial_address(), 8);
                        j["rng"] = bv(f.len(), 8);
                        j["lsda"] = match f.lsda() {
                            None => json!({"some":false}),
                            Some(p) => {
                                let (kk, v) = ptr_kv(p);
                                json!({"some":true,"k":kk,"v":bv(v,8)})
                            }
                        };
                        let mut states = Vec::new();
                        for x in probes[k].as_array().cloned().unwrap_or_default() {
                            let xo = x.as_u64().unwrap_or(0);
                            let a = f.initial_address().wrapping_add(xo);
                            let mut ctx = UnwindContext::new();
                            let st = match f.unwind_info_for_address(sec, bases, &mut ctx, a) {
                                Ok(row) => state_json(row, sec),
                                Err(e) => errv(&e),
                            };
                            states.push(json!({"x":xo,"st":st}));
                        }
                        j["states"] = Value::Array(states);
                    }
                }
                out.push(j);
            }
        }
    }
    json!({"ents":out,"end":end})
}

fn replay(case: &Value) -> Value {
    let le = case["le"].as_bool().unwrap_or(true);
    let asz = case["asz"].as_u64().unwrap_or(8) as u8;
    let vendor = if case["vendor"] == "aarch64" { Vendor::AArch64 } else { Vendor::Default };
    // ---- builder calls
    let mut ft = write::FrameTable::default();
    let mut ids = Vec::new();
    let mut distinct: Vec<write::CieId> = Vec::new();
    let mut idx = Vec::new();
    let mut counts = Vec::new();
    for c in case["adds"].as_array().cloned().unwrap_or_default() {
        let id = ft.add_cie(cie_of(&c));
        let pos = match distinct.iter().position(|d| *d == id) {
            Some(p) => p,
            None => {
                distinct.push(id);
                distinct.len() - 1
            }
        };
        idx.push(pos + 1);
        ids.push(id);
        counts.push(ft.cie_count());
    }
    for f in case["fdes"].as_array().cloned().unwrap_or_default() {
        let call = f["cie"].as_u64().unwrap_or(1) as usize - 1;
        let mut fde = write::FrameDescriptionEntry::new(
            Address::Constant(unbv(&f["addr"])),
            f["len"].as_u64().unwrap_or(0) as u32,
        );
        if f["lsda"]["some"] == true {
            fde.lsda = Some(Address::Constant(unbv(&f["lsda"]["addr"])));
        }
        for oi in f["ins"].as_array().cloned().unwrap_or_default() {
            fde.add_instruction(oi[0].as_u64().unwrap_or(0) as u32, ins_of(&oi[1]));
        }
        ft.add_fde(ids[call], fde);
    }
    let mut out = json!({"ids":idx,"counts":counts,"ncies":ft.cie_count(),"nfdes":ft.fde_count()});
    // read with the section base 0: the writer makes pc-relative pointers relative to section offsets
    let bases = BaseAddresses::default().set_eh_frame(0);
    // ---- .debug_frame
    let mut w = write::DebugFrame(EndianVec::new(endian(le)));
    // bytes that are already in the section before the table is written
    w.0.write(&bytes_of(&case["pre"]["debug"])).expect("prefix");
    out["debug"] = match ft.write_debug_frame(&mut w) {
        Err(e) => errv(&e),
        Ok(()) => {
            let b = w.0.into_vec();
            let mut s = DebugFrame::new(&b, endian(le));
            s.set_address_size(asz);
            s.set_vendor(vendor);
            json!({"ok":true,"bytes":bytes_json(&b),"read":read_back(&s, &bases, &case["probes"])})
        }
    };
    // ---- .eh_frame
    let mut w = write::EhFrame(EndianVec::new(endian(le)));
    w.0.write(&bytes_of(&case["pre"]["eh"])).expect("prefix");
    out["eh"] = match ft.write_eh_frame(&mut w) {
        Err(e) => errv(&e),
        Ok(()) => {
            let b = w.0.into_vec();
            let mut s = EhFrame::new(&b, endian(le));
            s.set_address_size(asz);
            s.set_vendor(vendor);
            json!({"ok":true,"bytes":bytes_json(&b),"read":read_back(&s, &bases, &case["probes"])})
        }
    };
    out
}

fn record(out: &str, _a: &Args) {
    write_lines(out, &[]);
}

fn main() {
    main_with(replay, record);
}
