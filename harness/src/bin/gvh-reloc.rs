//! C18 driver.  No expectations live here.
//!
//! replay, read side: parse `main` through
//!   RelocateReader<TracingReader, MapReloc(relmap)>        (d1, primitive log, Relocate calls)
//! and `applied` (the section with the relocations pre-applied by the model) through a
//! plain TracingReader (d2).  The dumps are what gimli's public API reports.
//! replay, write side: run a script of Writer calls on a `write::RelocateWriter` over
//! EndianVec (recording relocations) and the model-resolved script on a plain EndianVec.
//! record: gimli's own writers (unit, line program, range/location lists, frame table)
//! written once through the recording writer with symbolic addresses and once directly
//! with the symbols resolved; plus the relocatable-primitive offsets seen when reading
//! the direct sections back.
use gimli::write::{self as w, Address, EndianVec, RelocateWriter, Relocation, RelocationTarget, Writer};
use gimli::{
    AttributeValue as AV, BaseAddresses, DebugAbbrev, DebugFrame, DebugInfo, DebugLine, DebugLineOffset,
    DebugRanges, DebugRngLists, Encoding, Format, LittleEndian, RangeLists, RangeListsOffset, Reader, Relocate,
    RelocateReader, RunTimeEndian, SectionId, UnwindSection,
};
use gvh::interpose::TracingReader;
use gvh::*;
use serde_json::{json, Value};
use std::cell::RefCell;
use std::collections::HashMap;
use std::rc::Rc;

// ------------------------------------------------------------- Relocate impl
#[derive(Debug, Clone, Default)]
struct MapReloc {
    map: Rc<HashMap<usize, (u64, u8)>>,
    calls: Rc<RefCell<Vec<Value>>>,
}
impl MapReloc {
    fn apply(&self, kind: &str, offset: usize, value: u64) -> u64 {
        match self.map.get(&offset) {
            Some((add, wd)) => {
                let mask = if *wd >= 8 { !0u64 } else { (1u64 << (8 * *wd as u32)) - 1 };
                let out = value.wrapping_add(*add) & mask;
                self.calls.borrow_mut().push(json!([kind, offset, bv(value, 8), bv(out, 8)]));
                out
            }
            None => value,
        }
    }
}
impl Relocate<usize> for MapReloc {
    fn relocate_address(&self, offset: usize, value: u64) -> gimli::Result<u64> {
        Ok(self.apply("address", offset, value))
    }
    fn relocate_offset(&self, offset: usize, value: usize) -> gimli::Result<usize> {
        Ok(self.apply("offset", offset, value as u64) as usize)
    }
}

fn vname<T: std::fmt::Debug>(x: &T) -> String {
    let s = format!("{:?}", x);
    s.split(|c: char| c == '(' || c == ' ' || c == '{').next().unwrap_or("").to_string()
}

// ------------------------------------------------------------------- dumps
fn attr_dump<R: Reader<Offset = usize>>(v: &AV<R>, enc: Encoding) -> gimli::Result<Value> {
    Ok(match v {
        AV::Exprloc(x) => {
            let mut ops = x.clone().operations(enc);
            let mut out = Vec::new();
            while let Some(op) = ops.next()? {
                out.push(match op {
                    gimli::Operation::Address { address } => json!(["Address", bv(address, 8)]),
                    // operands that are offsets / indices (no reader inside): print them in full
                    op @ (gimli::Operation::Call { .. }
                    | gimli::Operation::ImplicitPointer { .. }
                    | gimli::Operation::VariableValue { .. }
                    | gimli::Operation::AddressIndex { .. }) => json!([format!("{:?}", op)]),
                    other => json!([vname(&other)]),
                });
            }
            json!(["exprloc", out])
        }
        AV::Block(r) => json!(["block", bytes_json(&r.to_slice()?)]),
        AV::String(r) => json!(["string", bytes_json(&r.to_slice()?)]),
        other => json!(format!("{:?}", other)),
    })
}

fn dump_unit<R: Reader<Offset = usize>>(main: R, abbrev: R) -> gimli::Result<Vec<Value>> {
    let mut d = Vec::new();
    let di = DebugInfo::from(main);
    let da = DebugAbbrev::from(abbrev);
    let mut units = di.units();
    while let Some(h) = units.next()? {
        d.push(json!(["unit", h.version(), h.address_size(), h.format().word_size(), h.unit_length(), h.debug_abbrev_offset().0,
                      format!("{:?}", h.type_())]));
        let abbrevs = h.abbreviations(&da)?;
        let mut cur = h.entries(&abbrevs);
        while let Some(e) = cur.next_dfs()? {
            let mut attrs = Vec::new();
            for a in e.attrs() {
                attrs.push(json!([a.name().0, attr_dump(&a.value(), h.encoding())?]));
            }
            d.push(json!(["die", e.offset().0, e.depth(), e.tag().0, attrs]));
        }
    }
    Ok(d)
}

fn dump_line<R: Reader<Offset = usize>>(main: R, asz: u8) -> gimli::Result<Vec<Value>> {
    let mut d = Vec::new();
    let dl = DebugLine::from(main);
    let prog = dl.program(DebugLineOffset(0), asz, None, None)?;
    let enc = prog.header().encoding();
    {
        let h = prog.header();
        d.push(json!(["header", h.version(), h.address_size(), h.header_length(), h.unit_length()]));
        for x in h.include_directories() {
            d.push(json!(["dir", attr_dump(x, enc)?]));
        }
        for f in h.file_names() {
            d.push(json!(["file", attr_dump(&f.path_name(), enc)?, f.directory_index()]));
        }
    }
    let mut rows = prog.rows();
    while let Some((_, row)) = rows.next_row()? {
        d.push(json!(["row", bv(row.address(), 8), row.line().map(|l| l.get()).unwrap_or(0), row.file_index(),
                      row.end_sequence()]));
    }
    Ok(d)
}

fn dump_ranges<R: Reader<Offset = usize>>(ranges: R, rnglists: R, ver: u16, asz: u8) -> gimli::Result<Vec<Value>> {
    let mut d = Vec::new();
    let rl = RangeLists::new(DebugRanges::from(ranges), DebugRngLists::from(rnglists));
    let enc = Encoding { version: ver, address_size: asz, format: Format::Dwarf32 };
    let off = if ver >= 5 { 12 } else { 0 };
    let mut it = rl.raw_ranges(RangeListsOffset(off), enc)?;
    while let Some(e) = it.next()? {
        d.push(json!(format!("{:?}", e)));
    }
    Ok(d)
}

fn dump_frame<R: Reader<Offset = usize>>(main: R, asz: u8) -> gimli::Result<Vec<Value>> {
    let mut d = Vec::new();
    let mut df = DebugFrame::from(main);
    df.set_address_size(asz);
    let bases = BaseAddresses::default();
    let mut entries = df.entries(&bases);
    while let Some(e) = entries.next()? {
        match e {
            gimli::CieOrFde::Cie(c) => {
                d.push(json!(["cie", c.offset(), c.version(), c.return_address_register().0,
                              c.code_alignment_factor(), c.data_alignment_factor()]));
            }
            gimli::CieOrFde::Fde(p) => {
                let fde = p.parse(DebugFrame::cie_from_offset)?;
                let mut ins = Vec::new();
                let mut it = fde.instructions(&df, &bases);
                while let Some(i) = it.next()? {
                    ins.push(vname(&i));
                }
                d.push(json!(["fde", fde.offset(), fde.cie().offset(), fde.cie().return_address_register().0,
                              bv(fde.initial_address(), 8), bv(fde.len(), 8), ins]));
            }
        }
    }
    Ok(d)
}

fn eh_bases() -> BaseAddresses {
    BaseAddresses::default().set_eh_frame(0x1000).set_eh_frame_hdr(0x2000)
}

fn dump_eh_frame<R: Reader<Offset = usize>>(main: R, asz: u8) -> gimli::Result<Vec<Value>> {
    let mut d = Vec::new();
    let mut ef = gimli::EhFrame::from(main);
    ef.set_address_size(asz);
    let bases = eh_bases();
    let mut entries = ef.entries(&bases);
    while let Some(e) = entries.next()? {
        match e {
            gimli::CieOrFde::Cie(c) => {
                d.push(json!(["cie", c.offset(), c.version(), format!("{:?}", c.personality()),
                              format!("{:?}", c.lsda_encoding()), format!("{:?}", c.fde_address_encoding())]));
            }
            gimli::CieOrFde::Fde(p) => {
                let fde = p.parse(gimli::EhFrame::cie_from_offset)?;
                let mut ins = Vec::new();
                let mut it = fde.instructions(&ef, &bases);
                while let Some(i) = it.next()? {
                    ins.push(format!("{:?}", i));
                }
                d.push(json!(["fde", fde.offset(), fde.cie().offset(), bv(fde.initial_address(), 8), bv(fde.len(), 8),
                              format!("{:?}", fde.lsda()), format!("{:?}", fde.personality()), ins]));
            }
        }
    }
    Ok(d)
}

fn dump_eh_hdr<R: Reader<Offset = usize>>(main: R, asz: u8) -> gimli::Result<Vec<Value>> {
    let mut d = Vec::new();
    let bases = eh_bases();
    let hdr = gimli::EhFrameHdr::from(main).parse(&bases, asz)?;
    d.push(json!(["eh_frame_ptr", format!("{:?}", hdr.eh_frame_ptr())]));
    if let Some(t) = hdr.table() {
        let mut it = t.iter(&bases);
        while let Some((a, b)) = it.next()? {
            d.push(json!(["entry", format!("{:?}", a), format!("{:?}", b)]));
        }
    }
    Ok(d)
}

fn run_dump<R: Reader<Offset = usize>>(kind: &str, ver: u16, asz: u8, main: R, aux: &dyn Fn(&str) -> R) -> Value {
    let r = match kind {
        "unit" | "unit64" | "expr" => dump_unit(main, aux("abbrev")),
        "line4" | "line5" => dump_line(main, asz),
        "ranges" => dump_ranges(main, aux("none"), ver, asz),
        "rnglists" => dump_ranges(aux("none"), main, ver, asz),
        "frame" => dump_frame(main, asz),
        "ehframe" => dump_eh_frame(main, asz),
        "ehhdr" => dump_eh_hdr(main, asz),
        _ => Ok(vec![json!("bad-kind")]),
    };
    match r {
        Ok(d) => json!({"ok": true, "dump": d}),
        Err(e) => json!({"ok": false, "err": err_name(&e)}),
    }
}

fn read_side(case: &Value) -> Value {
    let kind = case["kind"].as_str().unwrap_or("");
    let ver = case["ver"].as_u64().unwrap_or(4) as u16;
    let asz = case["asz"].as_u64().unwrap_or(8) as u8;
    let main = bytes_of(&case["main"]);
    let applied = bytes_of(&case["applied"]);
    let mut auxd: HashMap<String, Vec<u8>> = HashMap::new();
    if let Some(m) = case["aux"].as_object() {
        for (k, v) in m {
            auxd.insert(k.clone(), bytes_of(v));
        }
    }
    let empty: Vec<u8> = Vec::new();
    let mut map = HashMap::new();
    for r in case["relmap"].as_array().cloned().unwrap_or_default() {
        map.insert(r["off"].as_u64().unwrap() as usize, (unbv(&r["add"]), r["w"].as_u64().unwrap() as u8));
    }
    let en = RunTimeEndian::Little;
    // (1) relocating reader over the unrelocated section
    let rel = MapReloc { map: Rc::new(map), calls: Rc::new(RefCell::new(Vec::new())) };
    let norel = MapReloc::default();
    let tr = TracingReader::new(&main, en, None, true);
    let log = tr.log.clone();
    let d1 = {
        let auxf = |name: &str| {
            RelocateReader::new(TracingReader::new(auxd.get(name).unwrap_or(&empty), en, None, false), norel.clone())
        };
        run_dump(kind, ver, asz, RelocateReader::new(tr, rel.clone()), &auxf)
    };
    // (2) plain reader over the pre-applied section
    let d2 = {
        let auxf = |name: &str| TracingReader::new(auxd.get(name).unwrap_or(&empty), en, None, false);
        run_dump(kind, ver, asz, TracingReader::new(&applied, en, None, false), &auxf)
    };
    let evs: Vec<Value> = log.borrow().events.iter().map(|e| json!([e.prim, e.off, e.n, e.ok])).collect();
    let calls = rel.calls.borrow().clone();
    json!({"d1": d1, "d2": d2, "log": evs, "calls": calls})
}

// ------------------------------------------------------------- write side
struct Section {
    writer: EndianVec<LittleEndian>,
    relocations: Vec<Relocation>,
}
impl Section {
    fn new() -> Self {
        Section { writer: EndianVec::new(LittleEndian), relocations: Vec::new() }
    }
}
impl RelocateWriter for Section {
    type Writer = EndianVec<LittleEndian>;
    fn writer(&self) -> &Self::Writer {
        &self.writer
    }
    fn writer_mut(&mut self) -> &mut Self::Writer {
        &mut self.writer
    }
    fn relocate(&mut self, relocation: Relocation) {
        self.relocations.push(relocation);
    }
}

const SECS: [SectionId; 3] = [SectionId::DebugInfo, SectionId::DebugAbbrev, SectionId::DebugStr];

fn sec_index(id: SectionId) -> i64 {
    SECS.iter().position(|s| *s == id).map(|x| x as i64).unwrap_or(-1)
}

fn rel_json(r: &Relocation) -> Value {
    let (tk, t) = match r.target {
        RelocationTarget::Symbol(s) => ("sym", s as i64),
        RelocationTarget::Section(id) => ("sec", sec_index(id)),
    };
    json!({"off": r.offset, "size": r.size, "tk": tk, "t": t, "add": bv(r.addend as u64, 8),
           "pe": r.eh_pe.map(|p| p.0 as i64).unwrap_or(-1)})
}

fn run_calls<W: Writer>(wr: &mut W, calls: &[Value]) -> bool {
    for c in calls {
        let v = unbv(&c["v"]);
        let size = c["size"].as_u64().unwrap_or(0) as u8;
        let t = c["t"].as_u64().unwrap_or(0) as usize;
        let pe = gimli::DwEhPe(c["pe"].as_i64().unwrap_or(0).max(0) as u8);
        let at = c["at"].as_u64().unwrap_or(0) as usize;
        let r = match c["c"].as_str().unwrap_or("") {
            "udata" => wr.write_udata(v, size),
            "addr_const" => wr.write_address(Address::Constant(v), size),
            "addr_sym" => wr.write_address(Address::Symbol { symbol: t, addend: v as i64 }, size),
            "offset" => wr.write_offset(v as usize, SECS[t % SECS.len()], size),
            "offset_at" => wr.write_offset_at(at, v as usize, SECS[t % SECS.len()], size),
            "eh_const" => wr.write_eh_pointer(Address::Constant(v), pe, size),
            "eh_sym" => wr.write_eh_pointer(Address::Symbol { symbol: t, addend: v as i64 }, pe, size),
            _ => Err(w::Error::InvalidAddress),
        };
        if r.is_err() {
            return false;
        }
    }
    true
}

fn write_side(case: &Value) -> Value {
    let empty = Vec::new();
    let calls = case["calls"].as_array().unwrap_or(&empty);
    let dcalls = case["dcalls"].as_array().unwrap_or(&empty);
    let mut s = Section::new();
    let ok = run_calls(&mut s, calls);
    let rec = json!({"ok": ok, "bytes": bytes_json(s.writer.slice()),
                     "rels": s.relocations.iter().map(rel_json).collect::<Vec<_>>()});
    let mut dwr = EndianVec::new(LittleEndian);
    let dok = run_calls(&mut dwr, dcalls);
    let dir = json!({"ok": dok, "bytes": bytes_json(dwr.slice()), "rels": []});
    json!({"rec": rec, "dir": dir})
}

fn replay(case: &Value) -> Value {
    match case["side"].as_str() {
        Some("read") => read_side(case),
        Some("write") => write_side(case),
        _ => json!({"outcome":"bad-side"}),
    }
}

// ------------------------------------------------------------------ record
const SYMVAL: [u64; 2] = [0x40_1000, 0x7f00_0000_2000];

fn addr(symbolic: bool, sym: usize, off: u64) -> Address {
    if symbolic {
        Address::Symbol { symbol: sym, addend: off as i64 }
    } else {
        Address::Constant(SYMVAL[sym].wrapping_add(off))
    }
}

/// One generated input (unit + line program + range/location lists + frame table),
/// built either with symbolic or with resolved addresses, from the same seed.
fn build(seed: u64, version: u16, variant: u64, symbolic: bool) -> (w::Dwarf, w::FrameTable) {
    let mut rng = Rng::new(seed);
    let enc = Encoding { version, address_size: 8, format: Format::Dwarf32 };
    let a = |s: usize, o: u64| addr(symbolic, s, o);
    let mut dwarf = w::Dwarf::new();
    let wd = w::LineString::new(&b"/work"[..], enc, &mut dwarf.line_strings);
    let sf = w::LineString::new(&b"main.c"[..], enc, &mut dwarf.line_strings);
    let mut lp = w::LineProgram::new(enc, gimli::LineEncoding::default(), wd, None, sf, None);
    lp.begin_sequence(Some(a(0, 0)));
    for i in 0..rng.range(1, 5) {
        lp.row().address_offset = i * 8;
        lp.row().line = 1 + rng.below(40);
        lp.generate_row();
    }
    lp.end_sequence(0x40);
    lp.begin_sequence(Some(a(1, 0x10)));
    lp.row().line = 7;
    lp.generate_row();
    lp.end_sequence(4);
    let uid = dwarf.units.add(w::Unit::new(enc, lp));
    let name = dwarf.strings.add(&b"a name"[..]);
    let unit = dwarf.units.get_mut(uid);
    // variant 0: lists that carry their own addresses / base entry, no root low_pc;
    // variant 1: root DW_AT_low_pc (symbolic in the recorded build) is the base address and the
    //            lists consist of offset pairs only
    let mut ex = w::Expression::new();
    ex.op_addr(a(1, 0x30));
    let (ranges, locs) = if variant == 0 {
        (
            unit.ranges.add(w::RangeList(vec![
                w::Range::StartEnd { begin: a(0, 0x10), end: a(0, 0x20) },
                w::Range::StartLength { begin: a(1, 0x100), length: 0x10 },
                w::Range::BaseAddress { address: a(1, 0) },
                w::Range::OffsetPair { begin: 4, end: 8 },
            ])),
            unit.locations.add(w::LocationList(vec![
                w::Location::StartEnd { begin: a(0, 0x10), end: a(0, 0x18), data: ex.clone() },
                w::Location::BaseAddress { address: a(0, 0x40) },
                w::Location::OffsetPair { begin: 1, end: 2, data: w::Expression::new() },
            ])),
        )
    } else {
        (
            unit.ranges.add(w::RangeList(vec![
                w::Range::OffsetPair { begin: 4, end: 8 },
                w::Range::OffsetPair { begin: 0x10, end: 0x20 + rng.below(8) },
            ])),
            unit.locations.add(w::LocationList(vec![
                w::Location::OffsetPair { begin: 1, end: 2, data: ex.clone() },
                w::Location::OffsetPair { begin: 8, end: 0x10, data: w::Expression::new() },
            ])),
        )
    };
    // second lists, so that list references with NON-ZERO section offsets exist
    let (ranges2, locs2) = if variant == 0 {
        (
            unit.ranges.add(w::RangeList(vec![w::Range::StartEnd { begin: a(0, 0x40), end: a(0, 0x48) }])),
            unit.locations.add(w::LocationList(vec![w::Location::StartEnd {
                begin: a(1, 0x40),
                end: a(1, 0x48),
                data: w::Expression::new(),
            }])),
        )
    } else {
        (
            unit.ranges.add(w::RangeList(vec![w::Range::OffsetPair { begin: 0x40, end: 0x48 }])),
            unit.locations.add(w::LocationList(vec![w::Location::OffsetPair {
                begin: 0x40,
                end: 0x48,
                data: w::Expression::new(),
            }])),
        )
    };
    let root = unit.root();
    {
        let r = unit.get_mut(root);
        r.set(gimli::DW_AT_name, w::AttributeValue::StringRef(name));
        if variant == 1 {
            r.set(gimli::DW_AT_low_pc, w::AttributeValue::Address(a(0, 0)));
        }
        r.set(gimli::DW_AT_ranges, w::AttributeValue::RangeListRef(ranges));
    }
    let ty = unit.add(root, gimli::DW_TAG_base_type);
    unit.get_mut(ty).set(gimli::DW_AT_byte_size, w::AttributeValue::Udata(4));
    let n = rng.range(1, 4);
    for i in 0..n {
        let v = unit.add(root, gimli::DW_TAG_variable);
        let e = unit.get_mut(v);
        e.set(gimli::DW_AT_type, w::AttributeValue::DebugInfoRef(w::DebugInfoRef::Entry(uid, ty)));
        let mut ex = w::Expression::new();
        ex.op_addr(a((i % 2) as usize, 8 * i));
        e.set(gimli::DW_AT_location, w::AttributeValue::Exprloc(ex));
        e.set(gimli::DW_AT_decl_line, w::AttributeValue::Udata(rng.below(500)));
    }
    let f = unit.add(root, gimli::DW_TAG_subprogram);
    {
        let e = unit.get_mut(f);
        e.set(gimli::DW_AT_low_pc, w::AttributeValue::Address(a(0, 0x10)));
        e.set(gimli::DW_AT_high_pc, w::AttributeValue::Udata(0x10));
        e.set(gimli::DW_AT_frame_base, w::AttributeValue::LocationListRef(locs));
        e.set(gimli::DW_AT_ranges, w::AttributeValue::RangeListRef(ranges2));
        e.set(gimli::DW_AT_return_addr, w::AttributeValue::LocationListRef(locs2));
        e.set(gimli::DW_AT_name, w::AttributeValue::String(b"f".to_vec()));
    }
    // frame table: two CIEs, FDEs on both
    let mut frames = w::FrameTable::default();
    let cenc = Encoding { version: 4, address_size: 8, format: Format::Dwarf32 };
    let mut c1 = w::CommonInformationEntry::new(cenc, 1, -8, gimli::Register(16));
    c1.add_instruction(w::CallFrameInstruction::Cfa(gimli::Register(7), 8));
    let mut c2 = w::CommonInformationEntry::new(cenc, 4, -4, gimli::Register(14));
    c2.add_instruction(w::CallFrameInstruction::Cfa(gimli::Register(13), 0));
    let id1 = frames.add_cie(c1);
    let id2 = frames.add_cie(c2);
    let mut f1 = w::FrameDescriptionEntry::new(a(0, 0x10), 0x10);
    f1.add_instruction(4, w::CallFrameInstruction::CfaOffset(16));
    frames.add_fde(id1, f1);
    let f2 = w::FrameDescriptionEntry::new(a(1, 0x100), 0x20);
    frames.add_fde(id2, f2);
    let mut f3 = w::FrameDescriptionEntry::new(a(1, 0x200), 0x8);
    f3.add_instruction(4, w::CallFrameInstruction::CfaOffset(8));
    frames.add_fde(id2, f3);
    (dwarf, frames)
}

impl Clone for Section {
    fn clone(&self) -> Self {
        Section { writer: self.writer.clone(), relocations: self.relocations.clone() }
    }
}

fn rel_json_sec(r: &Relocation) -> Value {
    let (tk, t) = match r.target {
        RelocationTarget::Symbol(s) => ("sym", s as i64 + 1),
        RelocationTarget::Section(_) => ("sec", 0),
    };
    // `ts`: name of the section the relocation is against ("" for a symbol)
    let ts = match r.target {
        RelocationTarget::Section(id) => id.name(),
        RelocationTarget::Symbol(_) => "",
    };
    json!({"off": r.offset, "size": r.size, "tk": tk, "t": t, "ts": ts, "add": bv(r.addend as u64, 8),
           "pe": r.eh_pe.map(|p| p.0 as i64).unwrap_or(-1)})
}

/// Offsets (and sizes) at which the parsers used a relocatable primitive while
/// traversing everything reachable in the directly written sections.
fn read_back(secs: &HashMap<SectionId, Vec<u8>>) -> HashMap<SectionId, Vec<(usize, usize)>> {
    let en = RunTimeEndian::Little;
    let empty: Vec<u8> = Vec::new();
    let mut logs: Vec<(SectionId, Rc<RefCell<gvh::interpose::Log>>)> = Vec::new();
    let mk = |id: SectionId, logs: &mut Vec<(SectionId, Rc<RefCell<gvh::interpose::Log>>)>| {
        let r = TracingReader::new(secs.get(&id).unwrap_or(&empty), en, None, true);
        logs.push((id, r.log.clone()));
        r
    };
    let dwarf = gimli::Dwarf::load(|id| -> Result<TracingReader<'_>, gimli::Error> { Ok(mk(id, &mut logs)) }).unwrap();
    let _ = (|| -> gimli::Result<()> {
        let mut units = dwarf.units();
        while let Some(h) = units.next()? {
            let unit = dwarf.unit(h)?;
            let mut cur = unit.entries();
            while let Some(e) = cur.next_dfs()? {
                for at in e.attrs() {
                    let v = at.value();
                    if let AV::Exprloc(x) = &v {
                        let mut ops = x.clone().operations(unit.encoding());
                        while ops.next()?.is_some() {}
                    }
                    if let Some(off) = dwarf.attr_ranges_offset(&unit, v.clone())? {
                        let mut it = dwarf.raw_ranges(&unit, off)?;
                        while it.next()?.is_some() {}
                    }
                    if let Some(off) = dwarf.attr_locations_offset(&unit, v.clone())? {
                        let mut it = dwarf.raw_locations(&unit, off)?;
                        while let Some(l) = it.next()? {
                            let data = match l {
                                gimli::RawLocListEntry::AddressOrOffsetPair { data, .. }
                                | gimli::RawLocListEntry::OffsetPair { data, .. }
                                | gimli::RawLocListEntry::StartEnd { data, .. }
                                | gimli::RawLocListEntry::StartLength { data, .. }
                                | gimli::RawLocListEntry::DefaultLocation { data }
                                | gimli::RawLocListEntry::StartxEndx { data, .. }
                                | gimli::RawLocListEntry::StartxLength { data, .. } => Some(data),
                                _ => None,
                            };
                            if let Some(d) = data {
                                let mut ops = d.operations(unit.encoding());
                                while ops.next()?.is_some() {}
                            }
                        }
                    }
                    let _ = dwarf.attr_string(&unit, v);
                }
            }
            if let Some(lp) = unit.line_program.clone() {
                let mut rows = lp.rows();
                while rows.next_row()?.is_some() {}
            }
        }
        Ok(())
    })();
    {
        let mut df = DebugFrame::from(mk(SectionId::DebugFrame, &mut logs));
        df.set_address_size(8);
        let bases = BaseAddresses::default();
        let mut entries = df.entries(&bases);
        while let Ok(Some(e)) = entries.next() {
            if let gimli::CieOrFde::Fde(p) = e {
                if let Ok(fde) = p.parse(DebugFrame::cie_from_offset) {
                    let mut it = fde.instructions(&df, &bases);
                    while let Ok(Some(_)) = it.next() {}
                }
            }
        }
    }
    let mut out: HashMap<SectionId, Vec<(usize, usize)>> = HashMap::new();
    for (id, log) in logs {
        let v = out.entry(id).or_default();
        for e in log.borrow().events.iter() {
            if matches!(e.prim, "read_address" | "read_offset" | "read_sized_offset") && e.ok {
                v.push((e.off, e.n));
            }
        }
    }
    for v in out.values_mut() {
        v.sort();
        v.dedup();
    }
    out
}

fn record(out: &str, a: &Args) {
    let r = guarded(|| {
        record_inner(out, a);
        Value::Null
    });
    if !r.is_null() {
        eprintln!("record: {}", r);
        std::process::exit(3);
    }
}

fn record_inner(out: &str, a: &Args) {
    let seed = a.num("--seed", 1);
    let n = a.num("--n", 10);
    let mut evs: Vec<Value> = Vec::new();
    for i in 0..n {
        let version = [4u16, 5, 3, 2][(i % 4) as usize];
        let variant = (i / 4) % 2;
        // recorded: symbolic addresses through the RelocateWriter
        let (mut d1, f1) = build(seed + i, version, variant, true);
        let mut s1 = w::Sections::new(Section::new());
        let r1 = d1.write(&mut s1);
        let mut df1 = w::DebugFrame::from(Section::new());
        f1.write_debug_frame(&mut df1).expect("write recorded frame");
        // direct: resolved addresses through a plain EndianVec
        let (mut d2, f2) = build(seed + i, version, variant, false);
        let mut s2 = w::Sections::new(EndianVec::new(LittleEndian));
        let r2 = d2.write(&mut s2);
        let mut df2 = w::DebugFrame::from(EndianVec::new(LittleEndian));
        f2.write_debug_frame(&mut df2).expect("write direct frame");
        let oc = |r: &w::Result<()>| match r {
            Ok(()) => "ok".to_string(),
            Err(e) => vname(e),
        };
        evs.push(json!({"ev":"WOutcome","ver":version,"variant":variant,"rec":oc(&r1),"dir":oc(&r2)}));
        if r1.is_err() || r2.is_err() {
            continue;
        }
        let mut direct: HashMap<SectionId, Vec<u8>> = HashMap::new();
        s2.for_each(|id, d| -> Result<(), ()> {
            direct.insert(id, d.slice().to_vec());
            Ok(())
        })
        .unwrap();
        direct.insert(SectionId::DebugFrame, df2.slice().to_vec());
        let mut recorded: Vec<(SectionId, Vec<u8>, Vec<Relocation>)> = Vec::new();
        s1.for_each(|id, d| -> Result<(), ()> {
            if id != SectionId::DebugFrame {
                recorded.push((id, d.writer.slice().to_vec(), d.relocations.clone()));
            }
            Ok(())
        })
        .unwrap();
        // the frame table does not depend on the seed: once, as the last events of the file
        if i + 1 == n {
            recorded.push((SectionId::DebugFrame, df1.writer.slice().to_vec(), df1.relocations.clone()));
        }
        let prims = read_back(&direct);
        for (id, bytes, rels) in recorded {
            if bytes.is_empty() && direct.get(&id).map(|d| d.is_empty()).unwrap_or(true) {
                continue;
            }
            evs.push(json!({"ev":"WSection","sec":id.name(),"ver":version,"rec":bytes_json(&bytes),
                "rels": rels.iter().map(rel_json_sec).collect::<Vec<_>>(),
                "dir": bytes_json(direct.get(&id).map(|d| &d[..]).unwrap_or(&[])),
                "lens": direct.iter().map(|(k, v)| json!([k.name(), v.len()])).collect::<Vec<_>>(),
                "sym": [bv(SYMVAL[0], 8), bv(SYMVAL[1], 8)]}));
            let mut wrel: Vec<(usize, usize)> = rels.iter().map(|r| (r.offset, r.size as usize)).collect();
            wrel.sort();
            wrel.dedup();
            let rp = prims.get(&id).cloned().unwrap_or_default();
            evs.push(json!({"ev":"RSchema","sec":id.name(),"ver":version,
                "wrel": wrel.iter().map(|x| json!([x.0, x.1])).collect::<Vec<_>>(),
                "rprims": rp.iter().map(|x| json!([x.0, x.1])).collect::<Vec<_>>()}));
        }
    }
    write_lines(out, &evs);
}

fn main() {
    main_with(replay, record);
}
