//! C06 / C20 driver for gimli's unwind-table machinery (`UnwindContext`,
//! `UnwindTable`, `CallFrameInstructionIter`).
//!
//! replay: a case carries a complete `.debug_frame` section (encoded by the
//! TLA+ spec), the FDE offset and settings; the section is evaluated on every
//! storage the case names and the rows / final result are printed.  A case
//! with `"history"` evaluates several FDEs one after the other on ONE context
//! per storage (C20) next to fresh contexts.
//!
//! record: random instruction streams (64-bit operands, address sizes 4/8)
//! and the FDEs of /repo/fixtures/self/eh_frame are evaluated; one event per
//! public call is logged, the instruction lists of gimli's `instructions()`
//! iterators are logged as hints.
//!
//! No expectations live here.
use gimli::{
    BaseAddresses, CallFrameInstruction as I, CfaRule, DebugFrame, EhFrame, EndianSlice, ReaderOffset,
    Register, RegisterRule, RunTimeEndian, UnwindContext, UnwindContextStorage, UnwindSection, UnwindTableRow,
    Vendor,
};
use gvh::*;
use serde_json::{json, Map, Value};

type R<'a> = EndianSlice<'a, RunTimeEndian>;

// ---- storages -------------------------------------------------------------
struct S22;
impl<T: ReaderOffset> UnwindContextStorage<T> for S22 {
    type Rules = [(Register, RegisterRule<T>); 2];
    type Stack = [UnwindTableRow<T, Self>; 2];
}
struct S31;
impl<T: ReaderOffset> UnwindContextStorage<T> for S31 {
    type Rules = [(Register, RegisterRule<T>); 1];
    type Stack = [UnwindTableRow<T, Self>; 3];
}
struct SVec;
impl<T: ReaderOffset> UnwindContextStorage<T> for SVec {
    type Rules = Vec<(Register, RegisterRule<T>)>;
    type Stack = Vec<UnwindTableRow<T, Self>>;
}

// ---- projections ------------------------------------------------------------
fn i64bv(v: i64) -> Value {
    bv(v as u64, 8)
}

fn rule_json(r: &RegisterRule<usize>) -> Value {
    match r {
        RegisterRule::Undefined => json!({"k":"undefined"}),
        RegisterRule::SameValue => json!({"k":"same_value"}),
        RegisterRule::Offset(v) => json!({"k":"offset","v":i64bv(*v)}),
        RegisterRule::ValOffset(v) => json!({"k":"val_offset","v":i64bv(*v)}),
        RegisterRule::Register(r) => json!({"k":"register","r":r.0}),
        RegisterRule::Expression(e) => json!({"k":"expression","eo":e.offset,"el":e.length}),
        RegisterRule::ValExpression(e) => json!({"k":"val_expression","eo":e.offset,"el":e.length}),
        RegisterRule::Architectural => json!({"k":"architectural"}),
        RegisterRule::Constant(v) => json!({"k":"constant","v":bv(*v,8)}),
    }
}

fn row_json<S: UnwindContextStorage<usize>>(row: &UnwindTableRow<usize, S>, probe: &[u16]) -> Value {
    let cfa = match row.cfa() {
        CfaRule::RegisterAndOffset { register, offset } => json!({"k":"reg","r":register.0,"off":i64bv(*offset)}),
        CfaRule::Expression(e) => json!({"k":"expr","eo":e.offset,"el":e.length}),
    };
    let mut rules: Vec<(u16, Value)> = row.registers().map(|(r, rule)| (r.0, rule_json(rule))).collect();
    rules.sort_by_key(|x| x.0);
    let rules: Vec<Value> = rules.into_iter().map(|(r, v)| json!([r, v])).collect();
    let get: Vec<Value> = probe
        .iter()
        .map(|r| match row.register(Register(*r)) {
            Some(rule) => rule_json(&rule),
            None => json!({"k":"default"}),
        })
        .collect();
    json!({"start":bv(row.start_address(),8),"end":bv(row.end_address(),8),"args":bv(row.saved_args_size(),8),
           "cfa":cfa,"rules":rules,"get":get})
}

fn ins_json(i: &I<usize>) -> Value {
    match i {
        I::SetLoc { address } => json!({"op":"SetLoc","a":bv(*address,8)}),
        I::AdvanceLoc { delta } => json!({"op":"AdvanceLoc","d":bv(*delta as u64,8)}),
        I::DefCfa { register, offset } => json!({"op":"DefCfa","r":register.0,"o":bv(*offset,8)}),
        I::DefCfaSf { register, factored_offset } => json!({"op":"DefCfaSf","r":register.0,"f":i64bv(*factored_offset)}),
        I::DefCfaRegister { register } => json!({"op":"DefCfaRegister","r":register.0}),
        I::DefCfaOffset { offset } => json!({"op":"DefCfaOffset","o":bv(*offset,8)}),
        I::DefCfaOffsetSf { factored_offset } => json!({"op":"DefCfaOffsetSf","f":i64bv(*factored_offset)}),
        I::DefCfaExpression { expression } => json!({"op":"DefCfaExpression","eo":expression.offset,"el":expression.length}),
        I::Undefined { register } => json!({"op":"Undefined","r":register.0}),
        I::SameValue { register } => json!({"op":"SameValue","r":register.0}),
        I::Offset { register, factored_offset } => json!({"op":"Offset","r":register.0,"f":bv(*factored_offset,8)}),
        I::OffsetExtendedSf { register, factored_offset } => json!({"op":"OffsetExtendedSf","r":register.0,"f":i64bv(*factored_offset)}),
        I::ValOffset { register, factored_offset } => json!({"op":"ValOffset","r":register.0,"f":bv(*factored_offset,8)}),
        I::ValOffsetSf { register, factored_offset } => json!({"op":"ValOffsetSf","r":register.0,"f":i64bv(*factored_offset)}),
        I::Register { dest_register, src_register } => json!({"op":"Register","r":dest_register.0,"s":src_register.0}),
        I::Expression { register, expression } => json!({"op":"Expression","r":register.0,"eo":expression.offset,"el":expression.length}),
        I::ValExpression { register, expression } => json!({"op":"ValExpression","r":register.0,"eo":expression.offset,"el":expression.length}),
        I::Restore { register } => json!({"op":"Restore","r":register.0}),
        I::RememberState => json!({"op":"RememberState"}),
        I::RestoreState => json!({"op":"RestoreState"}),
        I::ArgsSize { size } => json!({"op":"ArgsSize","s":bv(*size,8)}),
        I::NegateRaState => json!({"op":"NegateRaState"}),
        I::Nop => json!({"op":"Nop"}),
    }
}

fn hints<'a>(mut it: gimli::CallFrameInstructionIter<'a, R<'a>>) -> Value {
    let mut v = Vec::new();
    loop {
        match it.next() {
            Ok(Some(i)) => v.push(ins_json(&i)),
            Ok(None) => break,
            Err(e) => {
                v.push(json!({"op":"Bad","err":err_name(&e)}));
                // the iterator is exhausted after an error; ask once more to confirm
                match it.next() {
                    Ok(None) => {}
                    other => v.push(json!({"op":"NotFused","res":format!("{:?}", other.map(|x| x.is_some()))})),
                }
                break;
            }
        }
    }
    Value::Array(v)
}

// ---- evaluation ---------------------------------------------------------------
struct Sec<'a> {
    frame: DebugFrame<R<'a>>,
    /// set for `.eh_frame` cases: the same bytes as an EhFrame (then `frame` is unused)
    eh: Option<EhFrame<R<'a>>>,
    bases: BaseAddresses,
}

/// `.eh_frame` section with the base addresses the case names (empty array = not set)
fn eh_section<'a>(bytes: &'a [u8], asz: u8, le: bool, vendor: &str, bases: &Value) -> Sec<'a> {
    let mut s = section(bytes, asz, le, vendor);
    let endian = if le { RunTimeEndian::Little } else { RunTimeEndian::Big };
    let mut eh = EhFrame::new(bytes, endian);
    eh.set_address_size(asz);
    eh.set_vendor(if vendor == "aarch64" { Vendor::AArch64 } else { Vendor::Default });
    let mut b = BaseAddresses::default();
    let has = |k: &str| bases[k].as_array().map(|a| !a.is_empty()).unwrap_or(false);
    if has("section") {
        b = b.set_eh_frame(unbv(&bases["section"]));
    }
    if has("text") {
        b = b.set_text(unbv(&bases["text"]));
    }
    if has("data") {
        b = b.set_got(unbv(&bases["data"]));
    }
    s.eh = Some(eh);
    s.bases = b;
    s
}

fn section<'a>(bytes: &'a [u8], asz: u8, le: bool, vendor: &str) -> Sec<'a> {
    let endian = if le { RunTimeEndian::Little } else { RunTimeEndian::Big };
    let mut frame = DebugFrame::new(bytes, endian);
    frame.set_address_size(asz);
    frame.set_vendor(if vendor == "aarch64" { Vendor::AArch64 } else { Vendor::Default });
    Sec { frame, eh: None, bases: BaseAddresses::default() }
}

/// fde.rows(ctx) then next_row until None / Err; afterwards next_row twice more
/// (must stay None).  Returns {"rows":[..],"fin":"end"|"<Error>"}.
fn run_on<S: UnwindContextStorage<usize>>(
    ctx: &mut UnwindContext<usize, S>,
    sec: &Sec<'_>,
    fdeoff: usize,
    probe: &[u16],
) -> Value {
    match &sec.eh {
        Some(eh) => run_in(ctx, eh, &sec.bases, fdeoff, probe),
        None => run_in(ctx, &sec.frame, &sec.bases, fdeoff, probe),
    }
}

fn run_in<'a, S: UnwindContextStorage<usize>, Sect: UnwindSection<R<'a>>>(
    ctx: &mut UnwindContext<usize, S>,
    sect: &Sect,
    bases: &BaseAddresses,
    fdeoff: usize,
    probe: &[u16],
) -> Value {
    let fde = match sect.fde_from_offset(bases, Sect::Offset::from(fdeoff), |s: &Sect, b: &BaseAddresses, o| s.cie_from_offset(b, o)) {
        Ok(f) => f,
        Err(e) => return json!({"rows":[],"fin":format!("parse:{}", err_name(&e))}),
    };
    let mut rows = Vec::new();
    let mut table = match fde.rows(sect, bases, ctx) {
        Ok(t) => t,
        Err(e) => return json!({"rows":[],"fin":err_name(&e)}),
    };
    loop {
        match table.next_row() {
            Ok(Some(row)) => rows.push(row_json(row, probe)),
            Ok(None) => {
                for _ in 0..2 {
                    match table.next_row() {
                        Ok(None) => {}
                        Ok(Some(_)) => return json!({"rows":rows,"fin":"row-after-end"}),
                        Err(e) => return json!({"rows":rows,"fin":format!("err-after-end:{}", err_name(&e))}),
                    }
                }
                return json!({"rows":rows,"fin":"end"});
            }
            Err(e) => return json!({"rows":rows,"fin":err_name(&e)}),
        }
    }
}

enum AnyCtx {
    S22(Box<UnwindContext<usize, S22>>),
    S31(Box<UnwindContext<usize, S31>>),
    Heap(Box<UnwindContext<usize>>),
    Vec(Box<UnwindContext<usize, SVec>>),
}

impl AnyCtx {
    fn new(name: &str) -> Option<AnyCtx> {
        Some(match name {
            "s22" => AnyCtx::S22(Box::new(UnwindContext::new_in())),
            "s31" => AnyCtx::S31(Box::new(UnwindContext::new_in())),
            "heap" => AnyCtx::Heap(Box::new(UnwindContext::new())),
            "vec" => AnyCtx::Vec(Box::new(UnwindContext::new_in())),
            _ => return None,
        })
    }
    fn run(&mut self, sec: &Sec<'_>, fdeoff: usize, probe: &[u16]) -> Value {
        match self {
            AnyCtx::S22(c) => run_on(c, sec, fdeoff, probe),
            AnyCtx::S31(c) => run_on(c, sec, fdeoff, probe),
            AnyCtx::Heap(c) => run_on(c, sec, fdeoff, probe),
            AnyCtx::Vec(c) => run_on(c, sec, fdeoff, probe),
        }
    }
    /// the other public entry point that drives the same machinery
    fn info_for(&mut self, sec: &Sec<'_>, fdeoff: usize, addr: u64, probe: &[u16]) -> Value {
        let fde = match sec
            .frame
            .fde_from_offset(&sec.bases, gimli::DebugFrameOffset(fdeoff), DebugFrame::cie_from_offset)
        {
            Ok(f) => f,
            Err(e) => return json!({"fin":format!("parse:{}", err_name(&e))}),
        };
        macro_rules! go {
            ($c:expr) => {
                match fde.unwind_info_for_address(&sec.frame, &sec.bases, $c, addr) {
                    Ok(row) => json!({"fin":"row","row":row_json(row, probe)}),
                    Err(e) => json!({"fin":err_name(&e)}),
                }
            };
        }
        match self {
            AnyCtx::S22(c) => go!(c),
            AnyCtx::S31(c) => go!(c),
            AnyCtx::Heap(c) => go!(c),
            AnyCtx::Vec(c) => go!(c),
        }
    }
}

fn probe_of(case: &Value) -> Vec<u16> {
    case["probe"]
        .as_array()
        .map(|a| a.iter().map(|x| x.as_u64().unwrap_or(0) as u16).collect())
        .unwrap_or_default()
}

/// rows of `o` shortened to a count if they are a prefix of `base`'s rows
fn shorten(o: Value, base: &Value) -> Value {
    let (Some(r), Some(b)) = (o["rows"].as_array(), base["rows"].as_array()) else { return o };
    if r.len() <= b.len() && r.iter().zip(b.iter()).all(|(x, y)| x == y) {
        json!({"n": r.len(), "fin": o["fin"]})
    } else {
        o
    }
}

fn replay_single(case: &Value) -> Value {
    let bytes = bytes_of(&case["sec"]);
    let asz = case["asz"].as_u64().unwrap_or(8) as u8;
    let le = case["le"].as_bool().unwrap_or(true);
    let fdeoff = case["fdeoff"].as_u64().unwrap_or(0) as usize;
    let probe = probe_of(case);
    let is_eh = case["eh"].as_bool().unwrap_or(false);
    let sec = if is_eh { eh_section(&bytes, asz, le, "aarch64", &case["bases"]) } else { section(&bytes, asz, le, "aarch64") };
    let mut out = Map::new();
    let names: Vec<String> = case["exp"].as_object().map(|m| m.keys().cloned().collect()).unwrap_or_default();
    let base = match AnyCtx::new("vec") {
        Some(mut c) => c.run(&sec, fdeoff, &probe),
        None => Value::Null,
    };
    for n in names.iter().filter(|n| n.as_str() != "vec") {
        if let Some(mut c) = AnyCtx::new(n) {
            out.insert(n.clone(), shorten(c.run(&sec, fdeoff, &probe), &base));
        }
    }
    if !case["expdef"].is_null() {
        let secd = section(&bytes, asz, le, "default");
        let mut c = AnyCtx::new("heap").unwrap();
        out.insert("def".into(), shorten(c.run(&secd, fdeoff, &probe), &base));
    }
    // unwind_info_for_address at the addresses the case asks for (fresh heap context each)
    if let Some(addrs) = case["addrs"].as_array() {
        let mut v = Vec::new();
        for a in addrs {
            let mut c = AnyCtx::new("heap").unwrap();
            v.push(c.info_for(&sec, fdeoff, unbv(a), &probe));
        }
        out.insert("info".into(), Value::Array(v));
    }
    out.insert("vec".into(), base);
    Value::Object(out)
}

/// C20: `history` = list of FDE offsets into one section; per storage the FDEs are
/// evaluated in order on one context ("reused") and each on a new context ("fresh").
fn replay_history(case: &Value) -> Value {
    let bytes = bytes_of(&case["sec"]);
    let asz = case["asz"].as_u64().unwrap_or(8) as u8;
    let le = case["le"].as_bool().unwrap_or(true);
    let probe = probe_of(case);
    let sec = section(&bytes, asz, le, "aarch64");
    let hist: Vec<usize> = case["history"].as_array().map(|a| a.iter().map(|x| x.as_u64().unwrap_or(0) as usize).collect()).unwrap_or_default();
    let via: Vec<String> = case["via"].as_array().map(|a| a.iter().map(|x| x.as_str().unwrap_or("rows").to_string()).collect()).unwrap_or_default();
    let mut out = Map::new();
    for n in case["storages"].as_array().cloned().unwrap_or_default() {
        let n = n.as_str().unwrap_or("").to_string();
        let Some(mut reused) = AnyCtx::new(&n) else { continue };
        let mut r = Vec::new();
        let mut f = Vec::new();
        for (k, off) in hist.iter().enumerate() {
            let how = via.get(k).map(|s| s.as_str()).unwrap_or("rows");
            if let Some(a) = how.strip_prefix("info:") {
                // unwind_info_for_address stops early and leaves the context mid-table
                let addr: u64 = a.parse().unwrap_or(0);
                r.push(reused.info_for(&sec, *off, addr, &probe));
                f.push(AnyCtx::new(&n).unwrap().info_for(&sec, *off, addr, &probe));
            } else {
                r.push(reused.run(&sec, *off, &probe));
                f.push(AnyCtx::new(&n).unwrap().run(&sec, *off, &probe));
            }
        }
        out.insert(n, json!({"reused": r, "fresh": f}));
    }
    Value::Object(out)
}

fn replay(case: &Value) -> Value {
    if case["history"].is_array() {
        replay_history(case)
    } else {
        replay_single(case)
    }
}

// ---- record ---------------------------------------------------------------------
fn uleb(out: &mut Vec<u8>, mut v: u64) {
    loop {
        let b = (v & 0x7f) as u8;
        v >>= 7;
        if v == 0 {
            out.push(b);
            break;
        }
        out.push(b | 0x80);
    }
}
fn sleb(out: &mut Vec<u8>, mut v: i64) {
    loop {
        let b = (v & 0x7f) as u8;
        v >>= 7;
        if (v == 0 && b & 0x40 == 0) || (v == -1 && b & 0x40 != 0) {
            out.push(b);
            break;
        }
        out.push(b | 0x80);
    }
}

struct Gen {
    rng: Rng,
    regs: Vec<u64>,
    depth: i64,
    loc: u64,
    asz: u8,
}

impl Gen {
    fn reg(&mut self) -> u64 {
        if self.rng.chance(1, 40) {
            self.rng.pick(&[63u64, 64, 127, 128, 65535, 65536, 34])
                .clone()
        } else {
            *self.rng.pick(&self.regs.clone())
        }
    }
    fn val(&mut self) -> u64 {
        if self.rng.chance(1, 2) {
            self.rng.below(64)
        } else {
            self.rng.boundary64()
        }
    }
    fn fixed(&mut self, out: &mut Vec<u8>, v: u64, n: usize, le: bool) {
        let b = v.to_le_bytes();
        if le {
            out.extend_from_slice(&b[..n]);
        } else {
            out.extend(b[..n].iter().rev());
        }
    }
    /// one instruction; `wild` allows anything, otherwise mostly valid continuations
    fn ins(&mut self, out: &mut Vec<u8>, in_cie: bool, le: bool, wild: bool) {
        let k = self.rng.below(if in_cie { 24 } else { 30 });
        match k {
            0 => {
                let r = self.reg();
                out.push(0x0c);
                uleb(out, r);
                let v = self.val();
                uleb(out, v)
            }
            1 => {
                let r = self.reg();
                out.push(0x12);
                uleb(out, r);
                let v = self.val();
                sleb(out, v as i64)
            }
            2 => {
                let r = self.reg();
                out.push(0x0d);
                uleb(out, r)
            }
            3 => {
                out.push(0x0e);
                let v = self.val();
                uleb(out, v)
            }
            4 => {
                out.push(0x13);
                let v = self.val();
                sleb(out, v as i64)
            }
            5 => {
                if wild || self.rng.chance(1, 6) {
                    out.push(0x0f);
                    let n = self.rng.below(4);
                    uleb(out, n);
                    for _ in 0..n {
                        out.push(0x96)
                    }
                } else {
                    out.push(0)
                }
            }
            6 => {
                let r = self.reg();
                out.push(0x07);
                uleb(out, r)
            }
            7 => {
                let r = self.reg();
                out.push(0x08);
                uleb(out, r)
            }
            8 | 9 => {
                let r = self.reg();
                if r < 64 && self.rng.chance(2, 3) {
                    out.push(0x80 | r as u8)
                } else {
                    out.push(0x05);
                    uleb(out, r)
                }
                let v = self.val();
                uleb(out, v)
            }
            10 => {
                let r = self.reg();
                out.push(0x11);
                uleb(out, r);
                let v = self.val();
                sleb(out, v as i64)
            }
            11 => {
                let r = self.reg();
                out.push(0x14);
                uleb(out, r);
                let v = self.val();
                uleb(out, v)
            }
            12 => {
                let r = self.reg();
                out.push(0x15);
                uleb(out, r);
                let v = self.val();
                sleb(out, v as i64)
            }
            13 => {
                let r = self.reg();
                let s = self.reg();
                out.push(0x09);
                uleb(out, r);
                uleb(out, s)
            }
            14 => {
                let r = self.reg();
                out.push(if self.rng.chance(1, 2) { 0x10 } else { 0x16 });
                uleb(out, r);
                let n = self.rng.below(3);
                uleb(out, n);
                for _ in 0..n {
                    out.push(0x96)
                }
            }
            15 => {
                out.push(0x2e);
                let v = self.val();
                uleb(out, v)
            }
            16 => out.push(0x2d),
            17 | 18 => {
                if self.depth < 3 || wild || self.rng.chance(1, 10) {
                    out.push(0x0a);
                    self.depth += 1
                } else {
                    out.push(0)
                }
            }
            19 | 20 => {
                if self.depth > 0 || wild || self.rng.chance(1, 30) {
                    out.push(0x0b);
                    self.depth -= 1
                } else {
                    out.push(0)
                }
            }
            21 => out.push(0),
            22 | 23 => {
                // restore (invalid in a CIE): rare there unless wild
                if !in_cie || wild || self.rng.chance(1, 30) {
                    let r = self.reg();
                    if r < 64 && self.rng.chance(2, 3) {
                        out.push(0xc0 | r as u8)
                    } else {
                        out.push(0x06);
                        uleb(out, r)
                    }
                } else {
                    out.push(0)
                }
            }
            24 | 25 | 26 => {
                let d = self.rng.below(64);
                out.push(0x40 | d as u8)
            }
            27 => match self.rng.below(3) {
                0 => {
                    out.push(2);
                    let d = self.rng.below(256);
                    out.push(d as u8)
                }
                1 => {
                    out.push(3);
                    let d = self.rng.below(65536);
                    self.fixed(out, d, 2, le)
                }
                _ => {
                    out.push(4);
                    let d = if self.rng.chance(1, 20) { self.rng.next() & 0xffff_ffff } else { self.rng.below(100000) };
                    self.fixed(out, d, 4, le)
                }
            },
            28 => {
                // set_loc: usually forward of a rough location estimate
                self.loc = self.loc.wrapping_add(self.rng.below(4096));
                let a = if wild || self.rng.chance(1, 25) { self.rng.boundary64() } else { self.loc };
                out.push(1);
                let n = self.asz as usize;
                self.fixed(out, a, n, le)
            }
            _ => {
                if wild || self.rng.chance(1, 60) {
                    out.push(*self.rng.pick(&[0x17u8, 0x1c, 0x2f, 0x3f, 0x1d]))
                } else {
                    out.push(0)
                }
            }
        }
    }
}

/// a `.debug_frame` with one version-4 CIE and one FDE around the given instruction bytes
fn wrap(asz: u8, le: bool, caf: u64, daf: i64, start: u64, range: u64, cie: &[u8], fde: &[u8]) -> (Vec<u8>, usize, usize, usize) {
    let put32 = |out: &mut Vec<u8>, v: u32| {
        if le {
            out.extend_from_slice(&v.to_le_bytes())
        } else {
            out.extend_from_slice(&v.to_be_bytes())
        }
    };
    let putn = |out: &mut Vec<u8>, v: u64, n: usize| {
        let b = v.to_le_bytes();
        if le {
            out.extend_from_slice(&b[..n])
        } else {
            out.extend(b[..n].iter().rev())
        }
    };
    let mut body = Vec::new();
    put32(&mut body, 0xffff_ffff);
    body.push(4);
    body.push(0);
    body.push(asz);
    body.push(0);
    uleb(&mut body, caf);
    sleb(&mut body, daf);
    uleb(&mut body, 16);
    let cieins = 4 + body.len();
    body.extend_from_slice(cie);
    let mut sec = Vec::new();
    put32(&mut sec, body.len() as u32);
    sec.extend(body);
    let fdeoff = sec.len();
    let mut fb = Vec::new();
    put32(&mut fb, 0);
    putn(&mut fb, start, asz as usize);
    putn(&mut fb, range, asz as usize);
    let fdeins = fdeoff + 4 + fb.len();
    fb.extend_from_slice(fde);
    put32(&mut sec, fb.len() as u32);
    sec.extend(fb);
    (sec, fdeoff, cieins, fdeins)
}

fn cap_of(name: &str) -> (u64, u64) {
    match name {
        "s22" => (2, 2),
        "s31" => (3, 1),
        "heap" => (4, 192),
        _ => (1_000_000, 1_000_000),
    }
}

/// log one use of a context: Rows event (with hints), then one NextRow event per call
fn record_use<S: UnwindContextStorage<usize>, Sect: UnwindSection<R<'static>>>(
    evs: &mut Vec<Value>,
    ctx: &mut UnwindContext<usize, S>,
    sect: &Sect,
    bases: &BaseAddresses,
    fde: &gimli::FrameDescriptionEntry<R<'static>>,
    head: Value,
) where
    Sect::Offset: gimli::UnwindOffset<usize>,
{
    let mut h = head;
    let m = h.as_object_mut().unwrap();
    m.insert("cie".into(), hints(fde.cie().instructions(sect, bases)));
    m.insert("fde".into(), hints(fde.instructions(sect, bases)));
    let mut table = match fde.rows(sect, bases, ctx) {
        Ok(t) => {
            m.insert("init".into(), json!("ok"));
            evs.push(h);
            t
        }
        Err(e) => {
            m.insert("init".into(), json!(err_name(&e)));
            evs.push(h);
            return;
        }
    };
    let probe: [u16; 0] = [];
    let mut after_end = 0;
    loop {
        match table.next_row() {
            Ok(Some(row)) => evs.push(json!({"ev":"NextRow","res":"row","row":row_json(row, &probe)})),
            Ok(None) => {
                evs.push(json!({"ev":"NextRow","res":"none"}));
                after_end += 1;
                if after_end == 2 {
                    break;
                }
            }
            Err(e) => {
                evs.push(json!({"ev":"NextRow","res":"err","err":err_name(&e)}));
                break;
            }
        }
    }
}

fn record(out: &str, a: &Args) {
    let seed = a.num("--seed", 1);
    let n = a.num("--n", 200);
    let corpus = a.num("--corpus", 0);
    let maxlen = a.num("--maxlen", 120);
    let mut rng = Rng::new(seed);
    let mut evs: Vec<Value> = Vec::new();
    // contexts that live for the whole recording: every program is evaluated on a
    // long-lived context (history dependence would show up as a rejected row)
    let mut c22: UnwindContext<usize, S22> = UnwindContext::new_in();
    let mut c31: UnwindContext<usize, S31> = UnwindContext::new_in();
    let mut cheap: UnwindContext<usize> = UnwindContext::new();
    let mut cvec: UnwindContext<usize, SVec> = UnwindContext::new_in();
    for st in ["s22", "s31", "heap", "vec"] {
        let (r, u) = cap_of(st);
        evs.push(json!({"ev":"NewCtx","storage":st,"maxrows":r,"maxrules":u}));
    }
    for _ in 0..n {
        let asz: u8 = *rng.pick(&[4u8, 8, 8, 8, 2, 1]);
        let le = rng.chance(3, 4);
        let vendor = if rng.chance(2, 3) { "aarch64" } else { "default" };
        let caf = match rng.below(6) {
            0 => 0,
            1 => 1,
            2 => 4,
            3 => 255,
            4 => rng.boundary64(),
            _ => 1,
        };
        let daf = match rng.below(6) {
            0 => -8i64,
            1 => 1,
            2 => -4,
            3 => 0,
            4 => rng.boundary64() as i64,
            _ => -8,
        };
        let mask = if asz == 8 { u64::MAX } else { (1u64 << (8 * asz)) - 1 };
        let start = match rng.below(4) {
            0 => 0x1000 & mask,
            1 => rng.boundary64() & mask,
            2 => mask - rng.below(300).min(mask),
            _ => rng.below(1 << 20) & mask,
        };
        let range = match rng.below(3) {
            0 => rng.below(4096) & mask,
            1 => rng.boundary64() & mask,
            _ => 0x100 & mask,
        };
        let nregs = 1 + rng.below(6) as usize;
        let mut g = Gen { rng: Rng::new(rng.next()), regs: (0..nregs as u64).map(|i| i * 7 % 33).collect(), depth: 0, loc: start, asz };
        if rng.chance(1, 8) {
            g.regs = (0..(150 + rng.below(60))).collect();
        }
        let wild = rng.chance(1, 6);
        let mut cie = Vec::new();
        for _ in 0..rng.below(8) {
            g.ins(&mut cie, true, le, wild);
        }
        let mut fde = Vec::new();
        let len = if rng.chance(1, 3) { rng.below(maxlen) } else { rng.below(20) };
        for _ in 0..len {
            g.ins(&mut fde, false, le, wild);
        }
        if rng.chance(1, 12) && !fde.is_empty() {
            let cut = rng.below(fde.len() as u64) as usize;
            fde.truncate(cut); // may cut an operand
        }
        let (secb, fdeoff, cieins, fdeins) = wrap(asz, le, caf, daf, start, range, &cie, &fde);
        let secb: &'static [u8] = Box::leak(secb.into_boxed_slice());
        let endian = if le { RunTimeEndian::Little } else { RunTimeEndian::Big };
        let mut frame = DebugFrame::new(secb, endian);
        frame.set_address_size(asz);
        frame.set_vendor(if vendor == "aarch64" { Vendor::AArch64 } else { Vendor::Default });
        let bases = BaseAddresses::default();
        let f = match frame.fde_from_offset(&bases, gimli::DebugFrameOffset(fdeoff), DebugFrame::cie_from_offset) {
            Ok(f) => f,
            Err(_) => continue,
        };
        let st = *rng.pick(&["heap", "heap", "vec", "s22", "s31"]);
        let head = json!({"ev":"Rows","storage":st,"check":true,
            "cfg":{"asz":asz,"caf":bv(caf,8),"daf":bv(daf as u64,8),"le":le,"vendor":vendor,
                   "start":bv(f.initial_address(),8),"range":bv(f.len(),8)},
            "cieb":bytes_json(&cie),"fdeb":bytes_json(&fde),"cieoff":cieins,"fdeoff":fdeins});
        match st {
            "s22" => record_use(&mut evs, &mut c22, &frame, &bases, &f, head),
            "s31" => record_use(&mut evs, &mut c31, &frame, &bases, &f, head),
            "heap" => record_use(&mut evs, &mut cheap, &frame, &bases, &f, head),
            _ => record_use(&mut evs, &mut cvec, &frame, &bases, &f, head),
        }
    }
    // corpus: the FDEs of gimli's own .eh_frame fixture (hints trusted: pointer
    // encodings of set_loc are not re-decoded by the spec)
    if corpus > 0 {
        let path = a.opt("--eh-frame").unwrap_or("/repo/fixtures/self/eh_frame").to_string();
        if let Ok(data) = std::fs::read(&path) {
            let data: &'static [u8] = Box::leak(data.into_boxed_slice());
            let mut eh = EhFrame::new(data, RunTimeEndian::Little);
            eh.set_address_size(8);
            let bases = BaseAddresses::default().set_eh_frame(0).set_text(0);
            let mut entries = eh.entries(&bases);
            let mut k = 0u64;
            let mut taken = 0u64;
            while let Ok(Some(e)) = entries.next() {
                if let gimli::CieOrFde::Fde(p) = e {
                    k += 1;
                    // a seeded subset spread over the section
                    if !(rng.below(1000) < corpus) {
                        continue;
                    }
                    let Ok(f) = p.parse(EhFrame::cie_from_offset) else { continue };
                    taken += 1;
                    let c = f.cie();
                    let st = if taken % 3 == 0 { "vec" } else { "heap" };
                    let head = json!({"ev":"Rows","storage":st,"check":false,"fdeindex":k,
                        "cfg":{"asz":c.address_size(),"caf":bv(c.code_alignment_factor(),8),
                               "daf":bv(c.data_alignment_factor() as u64,8),"le":true,"vendor":"default",
                               "start":bv(f.initial_address(),8),"range":bv(f.len(),8)}});
                    if st == "vec" {
                        record_use(&mut evs, &mut cvec, &eh, &bases, &f, head)
                    } else {
                        record_use(&mut evs, &mut cheap, &eh, &bases, &f, head)
                    }
                }
            }
        } else {
            evs.push(json!({"ev":"NoCorpus","path":path}));
        }
    }
    write_lines(out, &evs);
}

fn main() {
    main_with(replay, record);
}
