//! Structural JSON dump of a decoded `read::Operation` (shared by the expression
//! reader and writer drivers).  Field names follow spec/OpCodec.tla.
use crate::bv;
use gimli::{DieReference, EndianSlice, Operation, RunTimeEndian};
use serde_json::{json, Value as J};

type R<'a> = EndianSlice<'a, RunTimeEndian>;

pub fn op_json(op: &Operation<R<'_>>) -> J {
    // Debug form is stable enough for a structural dump; operands are re-projected below.
    macro_rules! u {
        ($x:expr) => {
            bv($x as u64, 8)
        };
    }
    match op {
        Operation::Deref { base_type, size, space } => json!({"k":"deref","size":size,"space":space,"base":u!(base_type.0)}),
        Operation::Drop => json!({"k":"drop"}),
        Operation::Pick { index } => json!({"k":"pick","index":index}),
        Operation::Swap => json!({"k":"swap"}),
        Operation::Rot => json!({"k":"rot"}),
        Operation::Abs => json!({"k":"un","name":"abs"}),
        Operation::Neg => json!({"k":"un","name":"neg"}),
        Operation::Not => json!({"k":"un","name":"not"}),
        Operation::And => json!({"k":"bin","name":"and"}),
        Operation::Div => json!({"k":"bin","name":"div"}),
        Operation::Minus => json!({"k":"bin","name":"minus"}),
        Operation::Mod => json!({"k":"bin","name":"mod"}),
        Operation::Mul => json!({"k":"bin","name":"mul"}),
        Operation::Or => json!({"k":"bin","name":"or"}),
        Operation::Plus => json!({"k":"bin","name":"plus"}),
        Operation::Shl => json!({"k":"bin","name":"shl"}),
        Operation::Shr => json!({"k":"bin","name":"shr"}),
        Operation::Shra => json!({"k":"bin","name":"shra"}),
        Operation::Xor => json!({"k":"bin","name":"xor"}),
        Operation::Eq => json!({"k":"bin","name":"eq"}),
        Operation::Ge => json!({"k":"bin","name":"ge"}),
        Operation::Gt => json!({"k":"bin","name":"gt"}),
        Operation::Le => json!({"k":"bin","name":"le"}),
        Operation::Lt => json!({"k":"bin","name":"lt"}),
        Operation::Ne => json!({"k":"bin","name":"ne"}),
        Operation::PlusConstant { value } => json!({"k":"plus_uconst","v":u!(*value)}),
        Operation::Bra { target } => json!({"k":"bra","target":target}),
        Operation::Skip { target } => json!({"k":"skip","target":target}),
        Operation::UnsignedConstant { value } => json!({"k":"const","v":u!(*value)}),
        Operation::SignedConstant { value } => json!({"k":"const","v":u!(*value)}),
        Operation::Register { register } => json!({"k":"reg","reg":register.0}),
        Operation::RegisterOffset { register, offset, base_type } => {
            json!({"k":"breg","reg":register.0,"off":u!(*offset),"base":u!(base_type.0)})
        }
        Operation::FrameOffset { offset } => json!({"k":"fbreg","off":u!(*offset)}),
        Operation::Nop => json!({"k":"nop"}),
        Operation::PushObjectAddress => json!({"k":"push_obj"}),
        Operation::Call { offset } => match offset {
            DieReference::UnitRef(o) => json!({"k":"call","ref":"unit","off":u!(o.0)}),
            DieReference::DebugInfoRef(o) => json!({"k":"call","ref":"info","off":u!(o.0)}),
        },
        Operation::TLS => json!({"k":"tls"}),
        Operation::CallFrameCFA => json!({"k":"cfa"}),
        Operation::Piece { size_in_bits, bit_offset } => json!({"k":"piece","bits":u!(*size_in_bits),
            "hasoff":bit_offset.is_some(),"bitoff":u!(bit_offset.unwrap_or(0))}),
        Operation::ImplicitValue { data } => json!({"k":"implicit_value","data":crate::bytes_json(data.slice())}),
        Operation::StackValue => json!({"k":"stack_value"}),
        Operation::ImplicitPointer { value, byte_offset } => {
            json!({"k":"implicit_pointer","value":u!(value.0),"byte_offset":u!(*byte_offset)})
        }
        Operation::EntryValue { expression } => json!({"k":"entry_value","data":crate::bytes_json(expression.slice())}),
        Operation::ParameterRef { offset } => json!({"k":"param_ref","off":u!(offset.0)}),
        Operation::Address { address } => json!({"k":"addr","v":u!(*address)}),
        Operation::AddressIndex { index } => json!({"k":"addrx","index":u!(index.0)}),
        Operation::ConstantIndex { index } => json!({"k":"constx","index":u!(index.0)}),
        Operation::TypedLiteral { base_type, value } => {
            json!({"k":"typed_literal","base":u!(base_type.0),"data":crate::bytes_json(value.slice())})
        }
        Operation::Convert { base_type } => json!({"k":"convert","base":u!(base_type.0)}),
        Operation::Reinterpret { base_type } => json!({"k":"reinterpret","base":u!(base_type.0)}),
        Operation::WasmLocal { index } => json!({"k":"wasm","which":"local","index":bv(*index as u64,4)}),
        Operation::WasmGlobal { index } => json!({"k":"wasm","which":"global","index":bv(*index as u64,4)}),
        Operation::WasmStack { index } => json!({"k":"wasm","which":"stack","index":bv(*index as u64,4)}),
        Operation::VariableValue { offset } => json!({"k":"variable_value","off":u!(offset.0)}),
        Operation::Uninitialized => json!({"k":"unsupported"}),
    }
}

