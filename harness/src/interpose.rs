//! `TracingReader`: a `gimli::Reader` over a borrowed slice that logs every
//! primitive operation (kind, section offset, length) and can be told to fail
//! the k-th fallible operation with `Error::Io`.
//!
//! gimli's I/O boundary is the `Reader` trait, so this is the "log at the
//! linearization point" of a sequential library, obtained without touching
//! gimli's source.
use gimli::{EndianSlice, Error, Format, Reader, ReaderOffsetId, Result, RunTimeEndian};
use std::borrow::Cow;
use std::cell::RefCell;
use std::rc::Rc;

#[derive(Clone, Debug, PartialEq, Eq)]
pub struct Ev {
    /// primitive name
    pub prim: &'static str,
    /// offset from the start of the section the reader was created on
    pub off: usize,
    /// number of bytes requested / argument
    pub n: usize,
    pub ok: bool,
}

#[derive(Default, Debug)]
pub struct Log {
    pub events: Vec<Ev>,
    pub ops: usize,
    pub fail_at: Option<usize>,
    pub keep: bool,
}

#[derive(Clone, Debug)]
pub struct TracingReader<'a> {
    pub base: *const u8,
    pub r: EndianSlice<'a, RunTimeEndian>,
    pub log: Rc<RefCell<Log>>,
}

impl<'a> TracingReader<'a> {
    pub fn new(data: &'a [u8], endian: RunTimeEndian, fail_at: Option<usize>, keep: bool) -> Self {
        TracingReader {
            base: data.as_ptr(),
            r: EndianSlice::new(data, endian),
            log: Rc::new(RefCell::new(Log {
                events: Vec::new(),
                ops: 0,
                fail_at,
                keep,
            })),
        }
    }
    fn off(&self) -> usize {
        (self.r.slice().as_ptr() as usize).wrapping_sub(self.base as usize)
    }
    /// Count one fallible operation; `Err(Io)` if this is the one to fail.
    fn op(&self, prim: &'static str, n: usize) -> Result<()> {
        let mut l = self.log.borrow_mut();
        let k = l.ops;
        l.ops += 1;
        let fail = l.fail_at == Some(k);
        if l.keep {
            let off = self.off();
            l.events.push(Ev {
                prim,
                off,
                n,
                ok: !fail,
            });
        }
        if fail {
            Err(Error::Io)
        } else {
            Ok(())
        }
    }
    fn mark_failed(&self) {
        let mut l = self.log.borrow_mut();
        if l.keep {
            if let Some(e) = l.events.last_mut() {
                e.ok = false;
            }
        }
    }
    fn wrap<T>(&self, r: Result<T>) -> Result<T> {
        if r.is_err() {
            self.mark_failed();
        }
        r
    }
}

impl<'a> Reader for TracingReader<'a> {
    type Endian = RunTimeEndian;
    type Offset = usize;

    fn endian(&self) -> RunTimeEndian {
        self.r.endian()
    }
    fn len(&self) -> usize {
        self.r.len()
    }
    fn empty(&mut self) {
        self.r.empty()
    }
    fn truncate(&mut self, len: usize) -> Result<()> {
        self.op("truncate", len)?;
        let r = self.r.truncate(len);
        self.wrap(r)
    }
    fn offset_from(&self, base: &Self) -> usize {
        Reader::offset_from(&self.r, &base.r)
    }
    fn offset_id(&self) -> ReaderOffsetId {
        self.r.offset_id()
    }
    fn lookup_offset_id(&self, id: ReaderOffsetId) -> Option<usize> {
        self.r.lookup_offset_id(id)
    }
    fn find(&self, byte: u8) -> Result<usize> {
        self.op("find", byte as usize)?;
        let r = Reader::find(&self.r, byte);
        self.wrap(r)
    }
    fn skip(&mut self, len: usize) -> Result<()> {
        self.op("skip", len)?;
        let r = self.r.skip(len);
        self.wrap(r)
    }
    fn split(&mut self, len: usize) -> Result<Self> {
        self.op("split", len)?;
        let r = self.r.split(len);
        let r = self.wrap(r);
        r.map(|r| TracingReader {
            base: self.base,
            r,
            log: self.log.clone(),
        })
    }
    fn to_slice(&self) -> Result<Cow<'_, [u8]>> {
        Reader::to_slice(&self.r)
    }
    fn to_string(&self) -> Result<Cow<'_, str>> {
        Reader::to_string(&self.r)
    }
    fn to_string_lossy(&self) -> Result<Cow<'_, str>> {
        Reader::to_string_lossy(&self.r)
    }
    fn read_slice(&mut self, buf: &mut [u8]) -> Result<()> {
        self.op("read", buf.len())?;
        let r = self.r.read_slice(buf);
        self.wrap(r)
    }
    fn read_address(&mut self, address_size: u8) -> Result<u64> {
        self.op("read_address", address_size as usize)?;
        let r = self.r.read_address(address_size);
        self.wrap(r)
    }
    fn read_offset(&mut self, format: Format) -> Result<usize> {
        self.op("read_offset", format.word_size() as usize)?;
        let r = self.r.read_offset(format);
        self.wrap(r)
    }
    fn read_sized_offset(&mut self, size: u8) -> Result<usize> {
        self.op("read_sized_offset", size as usize)?;
        let r = self.r.read_sized_offset(size);
        self.wrap(r)
    }
}
