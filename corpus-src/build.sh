#!/bin/sh
# Builds an input corpus of real DWARF sections with the local compilers (optional:
# silently produces nothing if a tool is missing).  Output: /verif/corpus/<variant>/<section>
# The corpus is only ever used as INPUT to gimli; no tool output is used as an oracle.
src=/verif/corpus-src/prog.c
out=/verif/corpus
rm -rf "$out"; mkdir -p "$out"
tmp=$(mktemp -d)
secs=".debug_abbrev .debug_info .debug_types .debug_line .debug_line_str .debug_str .debug_str_offsets .debug_addr .debug_ranges .debug_rnglists .debug_loc .debug_loclists .debug_aranges .debug_pubnames .debug_pubtypes .debug_names .debug_frame .eh_frame .eh_frame_hdr .debug_macro .debug_macinfo .debug_cu_index .debug_tu_index .debug_abbrev.dwo .debug_info.dwo .debug_types.dwo .debug_line.dwo .debug_str.dwo .debug_str_offsets.dwo .debug_loclists.dwo .debug_rnglists.dwo .debug_loc.dwo .debug_macro.dwo"
dump() { # file variant
  mkdir -p "$out/$2"
  for s in $secs; do
    rm -f "$tmp/sec"
    objcopy --dump-section "$s=$tmp/sec" "$1" "$tmp/ignored.out" 2>/dev/null || continue
    [ -s "$tmp/sec" ] && cp "$tmp/sec" "$out/$2/$(echo "$s" | sed 's/^\.//')"
  done
  readelf -S -W "$1" 2>/dev/null | awk '$2==".eh_frame"||$2==".eh_frame_hdr"||$2==".text"{print $2, $4}' > "$out/$2/bases.txt"
}
cc1() { # variant compiler flags...
  v=$1; shift; c=$1; shift
  command -v "$c" >/dev/null 2>&1 || return 0
  "$c" "$@" "$src" -o "$tmp/$v.out" 2>/dev/null && dump "$tmp/$v.out" "$v"
}
cc1 gcc2 gcc -O1 -g -gdwarf-2 -gstrict-dwarf
cc1 gcc3 gcc -O2 -g -gdwarf-3
cc1 gcc4 gcc -O2 -g3 -gdwarf-4 -fdebug-types-section -gpubnames
cc1 gcc5 gcc -O2 -g3 -gdwarf-5 -gpubnames
cc1 gcc4_types gcc -O2 -g -gdwarf-4 -fdebug-types-section
cc1 clang4 clang -O2 -g -gdwarf-4 -gpubnames
cc1 clang5 clang -O2 -g -gdwarf-5 -gpubnames -fdebug-macro
cc1 gcc5_64 gcc -O2 -g -gdwarf-5 -gdwarf64
# split DWARF: skeleton + dwo, and a package
if command -v gcc >/dev/null 2>&1; then
  ( cd "$tmp" && gcc -O2 -g -gdwarf-5 -gsplit-dwarf -c "$src" -o split5.o 2>/dev/null && dump split5.o split5_skel && [ -f split5.dwo ] && dump split5.dwo split5_dwo
    [ -f split5.dwo ] && command -v llvm-dwp >/dev/null 2>&1 && llvm-dwp split5.dwo -o split5.dwp 2>/dev/null && dump split5.dwp split5_dwp
    gcc -O2 -g -gdwarf-4 -gsplit-dwarf -fdebug-types-section -c "$src" -o split4.o 2>/dev/null && [ -f split4.dwo ] && dump split4.dwo split4_dwo
    [ -f split4.dwo ] && command -v dwp >/dev/null 2>&1 && dwp -o split4.dwp split4.dwo 2>/dev/null && dump split4.dwp split4_dwp )
fi
rm -rf "$tmp"
find "$out" -type f | wc -l
