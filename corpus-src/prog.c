/* Small program used only as an *input* corpus for the reader checks. */
#include <stddef.h>
struct point { int x, y; };
struct node { struct node *next; struct point p; char name[8]; unsigned flags : 3; };
union u { long l; double d; char c[8]; };
enum color { RED, GREEN = 5, BLUE };
typedef int (*cb_t)(struct node *, int);
volatile int sink;
static int helper(struct node *n, int k) {
    int acc = 0;
    for (int i = 0; i < k; i++) {
        int sq = i * i;
        if (n && (sq & 1)) { acc += n->p.x; n = n->next; }
        else { long t = (long)sq << 3; acc -= (int)t; }
    }
    return acc;
}
static inline int inl(int a, int b) { int c = a * 31 + b; sink = c; return c ^ (c >> 3); }
int visit(struct node *head, cb_t cb, enum color col) {
    int total = 0; union u tmp; tmp.l = 0;
    for (struct node *n = head; n; n = n->next) {
        int v = cb ? cb(n, (int)col) : helper(n, 7);
        total += inl(v, n->p.y);
        { char buf[16]; buf[0] = (char)v; sink = buf[0]; tmp.c[1] = buf[0]; }
    }
    return total + (int)tmp.l;
}
int main(int argc, char **argv) {
    struct node a = {0, {1, 2}, "a", 1}, b = {&a, {3, 4}, "b", 2};
    (void)argv;
    return visit(&b, argc > 3 ? helper : (cb_t)0, argc > 1 ? GREEN : BLUE) & 0x7f;
}
