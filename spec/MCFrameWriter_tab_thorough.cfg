INIT Init
NEXT Next
INVARIANT Inv
CHECK_DEADLOCK FALSE
CONSTANTS
  Fam = "tab"
  MaxCies = 3
  MaxFdes = 2
  Slim = FALSE
