INIT Init
NEXT Next
INVARIANT Inv
CHECK_DEADLOCK FALSE
CONSTANTS
  Mode = "files"
  MaxS = 0
  MaxM = 0
  MaxUnits = 2
  Salt = 0
  EmitMod = 1
  AllPlacements = FALSE
