---------------------------- MODULE LineSMTrace ----------------------------
(* Trace validation for the line-number machine (C04, binding V).          *)
(* gvh-linesm single-steps gimli over random / arbitrary-byte / fixture    *)
(* programs at address sizes 2, 4, 8 with 64-bit operands and logs:        *)
(*   Header  what gimli parsed (parameters, tables, entry formats) and the *)
(*           raw header bytes: the hints are re-encoded with               *)
(*           EncHeaderBody and must reproduce the bytes;                   *)
(*   Ins     raw bytes of one instruction, the instruction gimli decoded,  *)
(*           the registers after LineRow::execute, the "row" flag:         *)
(*           checked against Dec and Exec (the tombstone flag is private   *)
(*           in gimli and is carried by the spec state);                   *)
(*   InsErr / ExecErr  the instruction that failed to decode / execute;    *)
(*   End     what rows(), sequences() and resume_from() report for the     *)
(*           same bytes: must equal the rows accumulated by the spec (with *)
(*           tombstone rows swallowed), its sequence slicing and resumed   *)
(*           runs; the any-input clause (monotone, in-range addresses) is  *)
(*           evaluated on the observed rows themselves.                    *)
(* Alongside, the DWARF 6.2 machine (W) tracks whether the unit is still   *)
(* well formed.  An event the as-coded model does not explain is a         *)
(* rejection (VIOLATION) only while the unit is well formed; in an         *)
(* ill-formed unit the property fixes nothing but the any-input clause, so *)
(* the unit is switched to mode "skip" (reported as DRIFT) and only that   *)
(* clause and the sequence clause (as self-consistency of the observed     *)
(* rows / sequences / resumed rows) are checked at its End.                *)
EXTENDS LineSM, Json, IOUtils
VARIABLES l, H, S, L, W, mode
Rec == ndJsonDeserialize(IOEnv.TRACE)

IsEv(e) == l <= Len(Rec) /\ Rec[l].ev = e /\ l' = l + 1

Z(x) == ZExt(x, 8)
(* tables from the hints *)
NameOf(a) == a[2]
TabV4Of(r) == [dirs |-> [k \in 1..Len(r.dirs) |-> NameOf(r.dirs[k])],
               files |-> [k \in 1..Len(r.files) |->
                            <<NameOf(r.files[k][1]), Z(r.files[k][2]), Z(r.files[k][3]), Z(r.files[k][4])>>]]
(* the value (in the form's domain) that a reported attribute stands for *)
ValOfAttr(form, a) == IF form \in {F_string, F_block, F_block1, F_block2, F_block4, F_data16} THEN a[2] ELSE Z(a[2])
FileVal(fe, f) ==      \* fe = <<content type, form>>, f = reported file entry
    CASE fe[1] = Nat8(LNCT_path) -> ValOfAttr(fe[2], f[1])
      [] fe[1] = Nat8(LNCT_dir) -> Z(f[2])
      [] fe[1] = Nat8(LNCT_time) -> Z(f[3])
      [] fe[1] = Nat8(LNCT_size) -> Z(f[4])
      [] fe[1] = Nat8(LNCT_md5) -> f[5]
      [] fe[1] = Nat8(LNCT_source) -> ValOfAttr(fe[2], f[6])
TabV5Of(r) == [dfmt |-> r.dfmt, dirs |-> [k \in 1..Len(r.dirs) |-> [j \in 1..Len(r.dfmt) |-> ValOfAttr(r.dfmt[j][2], r.dirs[k])]],
               ffmt |-> r.ffmt, files |-> [k \in 1..Len(r.files) |-> [j \in 1..Len(r.ffmt) |-> FileVal(r.ffmt[j], r.files[k])]]]
HOf(r) == [ver |-> r.ver, fmt |-> r.fmt, asz |-> r.asz, le |-> r.le, mil |-> r.mil, maxops |-> r.maxops,
           dis |-> r.dis, lbase |-> r.lbase, lrange |-> r.lrange, obase |-> r.obase, oplens |-> r.oplens]

(* state predicates are wrapped as `P = TRUE` so that TLC evaluates them as  *)
(* expressions (a disjunction at the level of an action is split into       *)
(* separate successor computations)                                        *)
HeaderOk(r, h) ==
    /\ h.ver \in 2..5 /\ h.asz \in {1, 2, 4, 8} /\ h.mil > 0 /\ h.maxops > 0 /\ h.lrange > 0 /\ h.obase > 0
    /\ Len(h.oplens) = h.obase - 1 /\ (h.ver < 4 => h.maxops = 1)
    /\ LET il == IF h.fmt = 64 THEN 12 ELSE 4
           T  == IF h.ver <= 4 THEN TabV4Of(r) ELSE TabV5Of(r) IN
       SubSeq(r.raw, il + 1, Len(r.raw)) = EncHeaderBody(h, T)
Header == IsEv("Header") /\ LET r == Rec[l] IN \E h \in {HOf(r)} :
    /\ HeaderOk(r, h) = TRUE
    /\ H' = h /\ S' = InitRun(h) /\ L' = <<>> /\ W' = [r |-> InitRegs(h), wf |-> TRUE] /\ mode' = "check"

Pub(r) == [addr |-> r.addr, opi |-> r.opi, file |-> r.file, line |-> r.line, col |-> r.col, stmt |-> r.stmt,
           bb |-> r.bb, es |-> r.es, pe |-> r.pe, eb |-> r.eb, isa |-> r.isa, disc |-> r.disc]

StdNext(w, ins) == IF ~w.wf THEN w
                   ELSE LET e == StdExec(H, w.r, ins) IN
                        [r |-> IF e.emit THEN StdAfterRow(H, e.r) ELSE e.r, wf |-> e.wf]
InsOk(r) == /\ Dec(H, r.bytes, 1) = DecOk(r.ins, Len(r.bytes))
            /\ \E e \in {Exec(H, S.r, r.ins)} : e.ok /\ e.emit = r.emit /\ Pub(e.r) = r.regs
Skip == mode' = "skip" /\ PrintT(<<"DRIFT", l>>) /\ UNCHANGED <<H, S, L>>

Ins == IsEv("Ins") /\ mode = "check" /\ S.end = "run" /\ LET r == Rec[l] IN
    \E ok \in {InsOk(r) = TRUE} : \E w2 \in {StdNext(W, r.ins)} :
    /\ W' = w2
    /\ IF ok THEN /\ S' = Apply(H, S, r.ins, Len(r.bytes))
                  /\ L' = Append(L, [ins |-> r.ins, n |-> Len(r.bytes)])
                  /\ UNCHANGED <<H, mode>>
       ELSE ~w2.wf /\ Skip
InsErr == IsEv("InsErr") /\ mode = "check" /\ S.end = "run" /\ LET r == Rec[l] IN
    /\ W' = [W EXCEPT !.wf = FALSE]
    /\ IF ~Dec(H, r.bytes, 1).ok THEN S' = [S EXCEPT !.end = "err"] /\ UNCHANGED <<H, L, mode>>
       ELSE Skip            \* an undecodable tail is ill formed whatever the model says
ExecErr == IsEv("ExecErr") /\ mode = "check" /\ S.end = "run" /\ LET r == Rec[l] IN
    \E ok \in {(Dec(H, r.bytes, 1) = DecOk(r.ins, Len(r.bytes)) /\ ~Exec(H, S.r, r.ins).ok) = TRUE} :
    \E w2 \in {StdNext(W, r.ins)} :
    /\ W' = w2
    /\ IF ok THEN S' = [S EXCEPT !.end = "err"] /\ UNCHANGED <<H, L, mode>>
       ELSE ~w2.wf /\ Skip
(* skip mode: the remaining events of an ill-formed unit are not compared *)
SkipEv == mode = "skip" /\ l <= Len(Rec) /\ Rec[l].ev \in {"Ins", "InsErr", "ExecErr"} /\ l' = l + 1
          /\ UNCHANGED <<H, S, L, W, mode>>
(* the sequence clause on the observation alone: resumed rows = straight    *)
(* rows up to the last end_sequence row, bounds = first / end addresses    *)
RECURSIVE ObsConcat(_, _)
ObsConcat(list, k) == IF k > Len(list) THEN <<>> ELSE list[k].rows \o ObsConcat(list, k + 1)
ObsConsistent(r) ==
    (r.end = "done" /\ r.seqs.ok) =>
      /\ ObsConcat(r.seqs.list, 1) = SubSeq(r.rows, 1, LastEs(r.rows, Len(r.rows)))
      /\ \A k \in 1..Len(r.seqs.list) :
           LET q == r.seqs.list[k] IN
           /\ q.rend = "done" /\ Len(q.rows) >= 1
           /\ RowEs(q.rows[Len(q.rows)]) /\ q.rows[Len(q.rows)][1] = q.end
           /\ \A j \in 1..Len(q.rows) - 1 : ~RowEs(q.rows[j])
           /\ (Len(q.rows) >= 2 => q.start = q.rows[1][1])
SkipEnd == mode = "skip" /\ IsEv("End") /\ LET r == Rec[l] IN
    /\ (InRange(r.rows, H.asz) /\ Monotone(r.rows) /\ ObsConsistent(r)) = TRUE
    /\ UNCHANGED <<H, S, L, W, mode>>

EndOk(r, F, RR) ==
    /\ r.end = F.end /\ r.rows = F.rows
    \* any-input clause on the observation
    /\ InRange(r.rows, H.asz) /\ Monotone(r.rows)
    /\ SequencesConsistent(F, RR)
    /\ IF F.end = "done"
       THEN /\ r.seqs.ok /\ Len(r.seqs.list) = Len(F.seqs)
            /\ \A k \in 1..Len(F.seqs) :
                 /\ r.seqs.list[k].start = F.seqs[k].start /\ r.seqs.list[k].end = F.seqs[k].end
                 /\ r.seqs.list[k].rows = RR[k].rows /\ r.seqs.list[k].rend = "done"
                 /\ InRange(r.seqs.list[k].rows, H.asz)
                 /\ Monotone(r.seqs.list[k].rows)
       ELSE ~r.seqs.ok
End == IsEv("End") /\ mode = "check" /\ LET r == Rec[l] IN
    \E F \in {IF S.end = "run" THEN [S EXCEPT !.end = "done"] ELSE S} :
    \E RR \in {ResumedRuns(H, [list |-> L, ok |-> TRUE], F)} :
    /\ IF EndOk(r, F, RR) = TRUE THEN S' = F /\ UNCHANGED <<H, L, W, mode>>
       ELSE /\ ~W.wf /\ (InRange(r.rows, H.asz) /\ Monotone(r.rows) /\ ObsConsistent(r)) = TRUE
            /\ Skip /\ UNCHANGED W

BadHeader == IsEv("BadHeader") /\ UNCHANGED <<H, S, L, W, mode>>

Init == l = 1 /\ H = <<>> /\ S = <<>> /\ L = <<>> /\ W = <<>> /\ mode = "check"
Next == Header \/ Ins \/ InsErr \/ ExecErr \/ End \/ BadHeader \/ SkipEv \/ SkipEnd
Accepted == LET d == TLCGet("stats").diameter IN
            IF d - 1 = Len(Rec) THEN TRUE
            ELSE Print(<<"UNMATCHED", d, ToJson(Rec[d])>>, FALSE)
=============================================================================
