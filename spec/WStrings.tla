------------------------------ MODULE WStrings ------------------------------
(***************************************************************************)
(* Extension beyond the listed properties: the write-side string tables    *)
(* and the section container of gimli::write                               *)
(*   src/write/str.rs         StringTable / LineStringTable (one macro)    *)
(*   src/write/endian_vec.rs  EndianVec, the byte sink behind every section*)
(*   src/write/section.rs     Sections: get / get_mut / for_each(_mut)     *)
(*   src/write/dwarf.rs       Dwarf::write (units, then the two tables)    *)
(*   src/write/unit.rs        DW_AT_name as StringRef / LineStringRef /    *)
(*                            String: form selection and the value written *)
(*                                                                         *)
(* Written in the shape of the code: one operator per public call, taking  *)
(* the builder state and returning [new state, what the call reports].     *)
(* The mathematical meaning (a table is the list of DISTINCT NUL-free      *)
(* strings in order of first insertion; the section is their NUL-terminated*)
(* concatenation; an offset is the sum of the earlier lengths + 1 each) is *)
(* stated separately (`M*` operators, `TableMeaning`) and MCWStrings checks*)
(* "as coded = meaning" on every explored script.                          *)
(*                                                                         *)
(* Deliberate gimli behaviours modelled as coded (not idealised):          *)
(*  - `add` PANICS (assert!) on a string containing NUL, before touching   *)
(*    the table; it is not a Result.                                       *)
(*  - no tail merging: a string that is a suffix of another one gets its   *)
(*    own bytes in the section.                                            *)
(*  - offsets are fixed at `add` time and are relative to the start of the *)
(*    TABLE, while `write` APPENDS to whatever the section already holds:  *)
(*    `offset(id)` is a section offset only if the section was empty.      *)
(*  - `Dwarf::write` called again on the same `Sections` skips the units   *)
(*    already written but appends both string tables a second time.        *)
(*  - the form of a string attribute depends only on the value's variant   *)
(*    (StringRef -> DW_FORM_strp, LineStringRef -> DW_FORM_line_strp,      *)
(*    String -> DW_FORM_string), never on the unit's version: a version    *)
(*    2..4 unit gets DW_FORM_line_strp too (read::Dwarf accepts it).       *)
(*  - ids carry a debug-only table identity (BaseId): `get` with an id of  *)
(*    another table panics in debug builds, and in release builds only if  *)
(*    the index is out of range.                                           *)
(*                                                                         *)
(* A byte string is a sequence of 0..255.  Ids are 0-based (`id.index`),   *)
(* TLA+ sequences 1-based: id k is position k + 1.                         *)
(***************************************************************************)
EXTENDS Naturals, Sequences, FiniteSets

RECURSIVE Flat(_)
Flat(ss) == IF ss = <<>> THEN <<>> ELSE Head(ss) \o Flat(Tail(ss))
Front(s) == SubSeq(s, 1, Len(s) - 1)
IsPrefix(a, b) == Len(a) <= Len(b) /\ SubSeq(b, 1, Len(a)) = a
Panic == [panic |-> TRUE]
Done == [ok |-> TRUE]

(*---------------------------- the table as coded -------------------------*)
(* struct $name { base_id, strings: IndexSet<Vec<u8>>, offsets: Vec<_>, len } *)
Empty == [strs |-> <<>>, offs |-> <<>>, len |-> 0]
HasNul(b) == \E i \in DOMAIN b : b[i] = 0
(* IndexSet::insert_full: position of an equal element, 0 if absent *)
Find(t, b) == IF \E i \in DOMAIN t.strs : t.strs[i] = b
              THEN CHOOSE i \in DOMAIN t.strs : t.strs[i] = b ELSE 0

(* fn add(&mut self, bytes) -> Id *)
Add(t, b) ==
    IF HasNul(b) THEN [t |-> t, res |-> Panic]                      \* assert!(!bytes.contains(&0))
    ELSE LET i == Find(t, b) IN
         IF i # 0 THEN [t |-> t, res |-> [id |-> i - 1]]            \* duplicate: existing id
         ELSE [t |-> [strs |-> Append(t.strs, b),
                      offs |-> Append(t.offs, t.len),               \* offsets.push(self.len)
                      len |-> t.len + Len(b) + 1],                  \* self.len += len + 1
               res |-> [id |-> Len(t.strs)]]
Count(t) == Len(t.strs)
(* fn get(&self, id) -> &[u8]: get_index(id.index).unwrap() *)
Get(t, id) == IF id < Len(t.strs) THEN [s |-> t.strs[id + 1]] ELSE Panic
(* fn offset(&self, id): self.offsets[id.index] *)
Offset(t, id) == IF id < Len(t.offs) THEN [off |-> t.offs[id + 1]] ELSE Panic
(* fn write(&self, w): for bytes in strings { w.write(bytes); w.write_u8(0) } *)
Emit(t) == Flat([i \in DOMAIN t.strs |-> t.strs[i] \o <<0>>])
WriteTo(t, sec) == sec \o Emit(t)

(*------------------- read::DebugStr::get_str as coded --------------------*)
(* input.skip(offset)?; input.read_null_terminated_slice()                 *)
RECURSIVE NulAt(_, _)
NulAt(b, i) == IF i > Len(b) THEN 0 ELSE IF b[i] = 0 THEN i ELSE NulAt(b, i + 1)
GetStr(sec, off) ==
    IF off > Len(sec) THEN [err |-> "UnexpectedEof"]
    ELSE LET z == NulAt(sec, off + 1) IN
         IF z = 0 THEN [err |-> "UnexpectedEof"] ELSE [s |-> SubSeq(sec, off + 1, z - 1)]

(*------------------------------- meaning ---------------------------------*)
(* h: every byte string ever passed to `add`, in call order.               *)
RECURSIVE Distinct(_)
Distinct(h) == IF h = <<>> THEN <<>>
               ELSE LET d == Distinct(Front(h))
                        x == h[Len(h)] IN
                    IF \E i \in DOMAIN d : d[i] = x THEN d ELSE Append(d, x)
MStrings(h) == Distinct(SelectSeq(h, LAMBDA b : ~HasNul(b)))
(* offset of the i-th (1-based) distinct string; i = Len + 1 gives the section length *)
RECURSIVE MOffset(_, _)
MOffset(d, i) == IF i <= 1 THEN 0 ELSE MOffset(d, i - 1) + Len(d[i - 1]) + 1
MSection(d) == Flat([i \in DOMAIN d |-> d[i] \o <<0>>])
MId(d, b) == CHOOSE k \in 0..(Len(d) - 1) : d[k + 1] = b

NoDup(s) == \A i, j \in DOMAIN s : s[i] = s[j] => i = j
(* The properties of a table that has seen the adds h.                     *)
TableMeaning(t, h) ==
    LET d == MStrings(h) IN
    /\ t.strs = d                                             \* dedup, order of first insertion, NUL strings absent
    /\ NoDup(t.strs)
    /\ Len(t.offs) = Len(t.strs)                              \* ids dense: 0..count-1 all have an offset
    /\ \A i \in DOMAIN d : t.offs[i] = MOffset(d, i)
    /\ \A i \in 1..(Len(d) - 1) : t.offs[i + 1] = t.offs[i] + Len(d[i]) + 1   \* strictly increasing by len + 1
    /\ t.len = MOffset(d, Len(d) + 1)
    /\ Emit(t) = MSection(d) /\ Len(Emit(t)) = t.len
    /\ \A i \in DOMAIN d : GetStr(Emit(t), t.offs[i]) = [s |-> d[i]]          \* read-back = added
    /\ \A i \in DOMAIN h : ~HasNul(h[i]) => Get(t, MId(d, h[i])) = [s |-> h[i]]
(* ids are stable: a later table extends an earlier one *)
Extends(t1, t2) == IsPrefix(t1.strs, t2.strs) /\ IsPrefix(t1.offs, t2.offs) /\ t1.len <= t2.len

(*--------------------------- EndianVec as coded --------------------------*)
(* the sink is the byte sequence v *)
VWrite(v, b) == [v |-> v \o b, res |-> Done]                       \* vec.extend(bytes)
VWriteAt(v, off, b) ==
    IF off > Len(v) THEN [v |-> v, res |-> [err |-> "OffsetOutOfBounds"]]
    ELSE IF Len(b) > Len(v) - off THEN [v |-> v, res |-> [err |-> "LengthOutOfBounds"]]
    ELSE [v |-> SubSeq(v, 1, off) \o b \o SubSeq(v, off + Len(b) + 1, Len(v)), res |-> Done]
VLen(v) == Len(v)
VTake(v) == [v |-> <<>>, res |-> [taken |-> v]]                    \* mem::swap with an empty Vec
(* meaning of write_at ("must not extend past the current section length") *)
VWriteAtMeaning(v, off, b) ==
    LET r == VWriteAt(v, off, b) IN
    /\ (r.res = Done) <=> (off + Len(b) <= Len(v))
    /\ Len(r.v) = Len(v)
    /\ r.res # Done => r.v = v
    /\ r.res = Done => \A i \in DOMAIN v : r.v[i] = (IF i > off /\ i <= off + Len(b) THEN b[i - off] ELSE v[i])

(*---------------------------- Sections as coded --------------------------*)
(* struct field order *)
DeclOrder == <<"DebugAbbrev", "DebugInfo", "DebugLine", "DebugLineStr", "DebugRanges", "DebugRngLists",
               "DebugLoc", "DebugLocLists", "DebugStr", "DebugFrame", "EhFrame">>
(* for_each / for_each_mut call order *)
VisitOrder == <<"DebugAbbrev", "DebugStr", "DebugLineStr", "DebugLine", "DebugRanges", "DebugRngLists",
                "DebugLoc", "DebugLocLists", "DebugInfo", "DebugFrame", "EhFrame">>
(* every SectionId variant, with SectionId::name() *)
ElfName == [DebugAbbrev |-> ".debug_abbrev", DebugAddr |-> ".debug_addr", DebugAranges |-> ".debug_aranges",
            DebugCuIndex |-> ".debug_cu_index", DebugFrame |-> ".debug_frame", EhFrame |-> ".eh_frame",
            EhFrameHdr |-> ".eh_frame_hdr", DebugInfo |-> ".debug_info", DebugLine |-> ".debug_line",
            DebugLineStr |-> ".debug_line_str", DebugLoc |-> ".debug_loc", DebugLocLists |-> ".debug_loclists",
            DebugMacinfo |-> ".debug_macinfo", DebugMacro |-> ".debug_macro", DebugNames |-> ".debug_names",
            DebugPubNames |-> ".debug_pubnames", DebugPubTypes |-> ".debug_pubtypes", DebugRanges |-> ".debug_ranges",
            DebugRngLists |-> ".debug_rnglists", DebugStr |-> ".debug_str", DebugStrOffsets |-> ".debug_str_offsets",
            DebugTuIndex |-> ".debug_tu_index", DebugTypes |-> ".debug_types"]
AllIds == <<"DebugAbbrev", "DebugAddr", "DebugAranges", "DebugCuIndex", "DebugFrame", "EhFrame", "EhFrameHdr",
            "DebugInfo", "DebugLine", "DebugLineStr", "DebugLoc", "DebugLocLists", "DebugMacinfo", "DebugMacro",
            "DebugNames", "DebugPubNames", "DebugPubTypes", "DebugRanges", "DebugRngLists", "DebugStr",
            "DebugStrOffsets", "DebugTuIndex", "DebugTypes">>
Range(s) == {s[i] : i \in DOMAIN s}
PosIn(s, x) == CHOOSE i \in DOMAIN s : s[i] = x
(* <<a, b>>: section a holds offsets into section b (what the writer emits) *)
Refs == {<<"DebugInfo", "DebugAbbrev">>, <<"DebugInfo", "DebugStr">>, <<"DebugInfo", "DebugLineStr">>,
         <<"DebugInfo", "DebugLine">>, <<"DebugInfo", "DebugRanges">>, <<"DebugInfo", "DebugRngLists">>,
         <<"DebugInfo", "DebugLoc">>, <<"DebugInfo", "DebugLocLists">>,
         <<"DebugLine", "DebugStr">>, <<"DebugLine", "DebugLineStr">>}
(* "For each section, call f once"; "Ordered so that earlier sections do not reference later sections" *)
VisitMeaning ==
    /\ Len(VisitOrder) = Len(DeclOrder) /\ Range(VisitOrder) = Range(DeclOrder) /\ NoDup(VisitOrder)
    /\ \A r \in Refs : PosIn(VisitOrder, r[2]) < PosIn(VisitOrder, r[1])
    /\ Range(DeclOrder) \subseteq DOMAIN ElfName /\ Range(AllIds) = DOMAIN ElfName

(* contents: [id -> bytes] over Range(DeclOrder).                          *)
(* for_each with a closure failing at its k-th call (k = 0: never):        *)
(* the ids visited with the bytes seen, and the result.                    *)
ForEach(contents, k) ==
    LET n == IF k = 0 \/ k > Len(VisitOrder) THEN Len(VisitOrder) ELSE k IN
    [visits |-> [i \in 1..n |-> [id |-> VisitOrder[i], b |-> contents[VisitOrder[i]]]],
     res |-> IF k = 0 \/ k > Len(VisitOrder) THEN "ok" ELSE "err"]
(* for_each_mut whose closure appends stamp(i) at its i-th call before returning *)
ForEachMutContents(contents, k, stamp(_)) ==
    LET n == IF k = 0 \/ k > Len(VisitOrder) THEN Len(VisitOrder) ELSE k IN
    [id \in DOMAIN contents |->
        IF PosIn(VisitOrder, id) <= n THEN contents[id] \o <<stamp(PosIn(VisitOrder, id))>> ELSE contents[id]]
(* Sections::get(id) *)
SecGet(contents, id) == IF id \in DOMAIN contents THEN [some |-> contents[id]] ELSE [none |-> TRUE]

(*------------------------ Dwarf::write with string names ------------------*)
(* items: a sequence of                                                     *)
(*   [k |-> "strp" | "line_strp" | "string", s |-> bytes]  a DIE with       *)
(*       DW_AT_name = StringRef(strings.add(s)) / LineStringRef(            *)
(*       line_strings.add(s)) / String(s): the first one of a unit names    *)
(*       the root, the others name new children of the root;                *)
(*   [k |-> "unref_str" | "unref_line", s |-> bytes]  an add to the table   *)
(*       without any DIE.                                                   *)
(* units: sequence of [ver, fmt (4|8), items].                              *)
FormOf(k) == CASE k = "strp" -> "DW_FORM_strp" [] k = "line_strp" -> "DW_FORM_line_strp" [] k = "string" -> "DW_FORM_string"
IsDie(it) == it.k \in {"strp", "line_strp", "string"}
AllItems(units) == Flat([u \in DOMAIN units |-> units[u].items])
RECURSIVE TableOf(_, _)
(* the table after the adds of kinds ks among items *)
TableOf(items, ks) == IF items = <<>> THEN Empty
                      ELSE LET t == TableOf(Front(items), ks)
                               it == items[Len(items)] IN
                           IF it.k \in ks THEN Add(t, it.s).t ELSE t
StrT(units) == TableOf(AllItems(units), {"strp", "unref_str"})
LineT(units) == TableOf(AllItems(units), {"line_strp", "unref_line"})
(* what is written for one name attribute: the form and, for references, the value of write_offset *)
NameOf(it, st, lt) ==
    CASE it.k = "strp" -> [form |-> FormOf(it.k), off |-> Offset(st, Add(st, it.s).res.id).off, s |-> it.s]
      [] it.k = "line_strp" -> [form |-> FormOf(it.k), off |-> Offset(lt, Add(lt, it.s).res.id).off, s |-> it.s]
      [] it.k = "string" -> [form |-> FormOf(it.k), s |-> it.s]
(* the sections after `times` calls of Dwarf::write on fresh Sections, and what a reader must find *)
DwarfWrite(units, times) ==
    LET st == StrT(units)
        lt == LineT(units)
        rep(b) == IF times = 2 THEN b \o b ELSE b IN
    [units |-> [u \in DOMAIN units |->
                  LET dies == SelectSeq(units[u].items, IsDie) IN
                  [version |-> units[u].ver, format |-> units[u].fmt,
                   names |-> [i \in DOMAIN dies |-> NameOf(dies[i], st, lt)]]],
     debug_str |-> rep(Emit(st)), debug_line_str |-> rep(Emit(lt))]
(* meaning: every reference written resolves, in the section written, to the string that was added *)
DwarfMeaningOf(w) ==
    \A u \in DOMAIN w.units : \A i \in DOMAIN w.units[u].names :
        LET n == w.units[u].names[i] IN
        /\ n.form = "DW_FORM_strp" => GetStr(w.debug_str, n.off) = [s |-> n.s]
        /\ n.form = "DW_FORM_line_strp" => GetStr(w.debug_line_str, n.off) = [s |-> n.s]
DwarfMeaning(units, times) == DwarfMeaningOf(DwarfWrite(units, times))
=============================================================================
