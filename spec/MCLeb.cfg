INIT Init
NEXT Next
INVARIANT Inv
CHECK_DEADLOCK FALSE
CONSTANTS
  FullLen = 2
  SlimLen = 4
  FrontLen = 10
