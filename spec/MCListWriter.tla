---------------------------- MODULE MCListWriter ----------------------------
(***************************************************************************)
(* Bounded exploration for C16: units with range / location lists built    *)
(* through write::RangeListTable / LocationListTable.                      *)
(*                                                                         *)
(* One state per (version class, address size, root low_pc, lists):        *)
(*  - single mode: one list of up to MaxLen entries over the boundary      *)
(*    alphabet (full alphabet up to FullLen entries, core alphabet beyond) *)
(*  - multi mode: 2..MaxLists lists drawn from a pool, duplicates included *)
(* Inside TLC: whenever the emission as coded succeeds on a list the       *)
(* property regards as representable, the reader model (Lists) must read   *)
(* the emitted bytes back as the list's Meaning; duplicates share an id    *)
(* and one emitted copy.  Each state prints a replay case with what the    *)
(* property allows and what the code as modelled is predicted to do.       *)
(***************************************************************************)
EXTENDS ListWriter, TLC, Json
CONSTANTS MaxLen, FullLen, MidLen, MaxLists
VARIABLE c

U64M1 == Ones(8)
Val(asz, s) ==
    LET M == OnesSized(asz) IN
    CASE s = "0" -> Z8 [] s = "1" -> N8(1) [] s = "2" -> N8(2) [] s = "16" -> N8(16) [] s = "32" -> N8(32)
      [] s = "4096" -> N8(4096) [] s = "4112" -> N8(4112)
      [] s = "T2" -> Sub(M, N8(2)) [] s = "T1" -> Sub(M, N8(1)) [] s = "M" -> M
      [] s = "P1" -> Add(M, N8(1)) [] s = "U1" -> U64M1
      [] s = "3" -> N8(3) [] s = "255" -> N8(255) [] s = "256" -> N8(256) [] s = "F00" -> Sub(M, N8(255))     \* F00 = 0x..ff00

DataAt(n) == <<80 + n>>
(* entry whose expression ends with a reference to DIE tgt (0 root, i the i-th child, 99 the last child) *)
RefEnt(k, a, b, d, op, tgt) == [k |-> k, a |-> a, b |-> b, d |-> d, r |-> [op |-> op, tgt |-> tgt]]
Alpha(asz, fam, n, lvl) ==
    LET V(x) == Val(asz, x)
        d == IF fam = "loc" THEN DataAt(n) ELSE <<>>
        full == lvl = "full"
        mid  == lvl = "mid"
        B == IF full THEN {"0", "4096", "M", "P1"} ELSE {"0", "4096"}
        OP == IF full THEN {<<"0", "0">>, <<"0", "16">>, <<"16", "16">>, <<"16", "32">>, <<"M", "32">>, <<"32", "M">>,
                            <<"16", "P1">>, <<"32", "16">>, <<"U1", "16">>}
              ELSE IF mid THEN {<<"16", "32">>, <<"16", "16">>, <<"M", "32">>, <<"0", "16">>, <<"16", "P1">>}
              ELSE {<<"16", "32">>, <<"16", "16">>, <<"M", "32">>}
        SE == IF full THEN {<<"0", "0">>, <<"4096", "4112">>, <<"4096", "4096">>, <<"M", "16">>, <<"16", "M">>, <<"T1", "M">>,
                            <<"0", "16">>, <<"T2", "T1">>}
              ELSE IF mid THEN {<<"4096", "4112">>, <<"M", "16">>, <<"0", "0">>, <<"T1", "M">>}
              ELSE {<<"4096", "4112">>, <<"M", "16">>}
        \* start/length: just fitting (end = M-1, M), leaving the address space by 0 and 1 (end = M+1,
        \* M+2: past 2^32 at size 4, past 2^64 at size 8), leaving u64 at either size (length 2^64-1)
        SL == IF full THEN {<<"4096", "0">>, <<"4096", "16">>, <<"M", "1">>, <<"T2", "1">>, <<"0", "16">>, <<"T1", "2">>, <<"0", "0">>,
                            <<"16", "U1">>, <<"T1", "1">>, <<"F00", "255">>, <<"F00", "256">>, <<"T2", "3">>, <<"F00", "U1">>}
              ELSE IF mid THEN {<<"4096", "16">>, <<"4096", "0">>, <<"M", "1">>, <<"T1", "2">>, <<"F00", "256">>}
              ELSE {<<"4096", "16">>}
    IN {Ent("base", V(a), Z8, <<>>) : a \in B}
       \cup {Ent("opair", V(x[1]), V(x[2]), d) : x \in OP}
       \cup {Ent("se", V(x[1]), V(x[2]), d) : x \in SE}
       \cup {Ent("slen", V(x[1]), V(x[2]), d) : x \in SL}
       \cup (IF fam = "loc" THEN {Ent("defloc", Z8, Z8, d)} ELSE {})
       \cup (IF fam = "loc" /\ full THEN {Ent("se", V("4096"), V("4112"), <<>>), Ent("opair", V("16"), V("32"), <<145, 127>>)} ELSE {})
       \cup (IF fam = "loc" /\ (full \/ mid)
             THEN {RefEnt("se", V("4096"), V("4112"), d, "call4", 1), RefEnt("opair", V("16"), V("32"), <<>>, "call_ref", 0)}
                  \cup (IF full THEN {RefEnt("se", V("4096"), V("4112"), d, "call_ref", 1), RefEnt("slen", V("4096"), V("16"), d, "call4", 0),
                                      RefEnt("defloc", Z8, Z8, d, "call4", 1)} ELSE {})
             ELSE {})
(* alphabet level for a list that is to reach length m *)
Lvl(m) == IF m <= FullLen THEN "full" ELSE IF m <= MidLen THEN "mid" ELSE "core"

(* pool for units with several lists *)
Pool(asz) ==
    LET V(x) == Val(asz, x) IN
    << [fam |-> "rng", L |-> <<Ent("se", V("4096"), V("4112"), <<>>)>>],
       [fam |-> "rng", L |-> <<Ent("base", V("4096"), Z8, <<>>), Ent("opair", V("16"), V("32"), <<>>)>>],
       [fam |-> "rng", L |-> <<Ent("se", V("0"), V("0"), <<>>)>>],
       [fam |-> "rng", L |-> <<>>],
       [fam |-> "loc", L |-> <<Ent("se", V("4096"), V("4112"), <<81>>)>>],
       [fam |-> "loc", L |-> <<Ent("se", V("4096"), V("4112"), <<82>>)>>],
       [fam |-> "loc", L |-> <<Ent("base", V("4096"), Z8, <<>>), Ent("opair", V("16"), V("32"), <<83, 84>>)>>],
       [fam |-> "loc", L |-> <<Ent("defloc", Z8, Z8, <<85>>)>>],
       [fam |-> "loc", L |-> <<RefEnt("se", V("4096"), V("4112"), <<86>>, "call4", 99)>>],
       [fam |-> "loc", L |-> <<RefEnt("se", V("4096"), V("4112"), <<86>>, "call_ref", 1)>>] >>
(* (an empty range list, an invalid one, a based one, a plain one; location lists that differ only in the expression) *)

Lps == {"none", "zero", "nz", "tomb"}
LpOf(asz, s) == CASE s = "none" -> [some |-> FALSE, v |-> Z8] [] s = "zero" -> [some |-> TRUE, v |-> Z8]
                  [] s = "nz" -> [some |-> TRUE, v |-> N8(8192)] [] s = "tomb" -> [some |-> TRUE, v |-> Sub(OnesSized(asz), N8(1))]

Init == c = [stage |-> 0]
Next ==
    \/ /\ c.stage = 0
       /\ \E vc \in {4, 5} : \E asz \in {4, 8} : \E lp \in Lps :
            \/ \E fam \in {"rng", "loc"} : c' = [stage |-> 1, vc |-> vc, asz |-> asz, lp |-> lp, ls |-> <<[fam |-> fam, L |-> <<>>]>>]
            \/ lp # "tomb" /\ \E i \in DOMAIN Pool(asz) :
                  c' = [stage |-> 2, vc |-> vc, asz |-> asz, lp |-> lp, ls |-> <<Pool(asz)[i]>>]
    \/ /\ c.stage = 1
       /\ LET l == c.ls[1]
              n == Len(l.L) IN
          /\ n < MaxLen
          /\ (c.lp = "tomb" => n < 1)
          /\ \E e \in Alpha(c.asz, l.fam, n + 1, Lvl(n + 1)) :
               /\ \A i \in 1..n : l.L[i] \in Alpha(c.asz, l.fam, i, Lvl(n + 1))
               /\ c' = [c EXCEPT !.ls = <<[fam |-> l.fam, L |-> Append(l.L, e)]>>]
    \/ /\ c.stage = 2
       /\ Len(c.ls) < MaxLists
       /\ \E i \in DOMAIN Pool(c.asz) : c' = [c EXCEPT !.ls = Append(c.ls, Pool(c.asz)[i])]

(* the builder machine run over the script: tables and ids *)
RECURSIVE Build(_, _, _, _, _)
Build(ls, i, rt, lt, ids) ==
    IF i > Len(ls) THEN [rt |-> rt, lt |-> lt, ids |-> ids]
    ELSE IF ls[i].fam = "rng"
         THEN LET a == TabAdd(rt, ls[i].L) IN Build(ls, i + 1, a.tab, lt, Append(ids, a.id))
         ELSE LET a == TabAdd(lt, ls[i].L) IN Build(ls, i + 1, rt, a.tab, Append(ids, a.id))

Cv(v) == IF SmallNat(v) THEN ToNat(v) ELSE v
JEnt(e) == IF HasRef(e) THEN [k |-> e.k, a |-> Cv(e.a), b |-> Cv(e.b), d |-> e.d, r |-> e.r]
           ELSE [k |-> e.k, a |-> Cv(e.a), b |-> Cv(e.b), d |-> e.d]
JRes(r) == IF r.t = "some" THEN [t |-> "some", begin |-> Cv(r.begin), end |-> Cv(r.end), d |-> r.d] ELSE r
JItems(s) == [i \in DOMAIN s |-> JRes(s[i])]

(* why a list must be rejected (first applicable reason), for signatures *)
RECURSIVE NamedWhy(_, _, _, _)
NamedWhy(L, i, hb, enc) ==
    IF enc.ver >= 5 \/ i > Len(L) THEN "none"
    ELSE LET e == L[i] IN
         IF e.k = "defloc" THEN "default-location-before-v5"
         ELSE IF (e.k \in {"opair", "se"} /\ e.a = e.b) \/ (e.k = "slen" /\ IsZero(e.b)) THEN "empty-range"
         ELSE IF e.k = "opair" /\ ~hb THEN "offset-pair-needs-base-address"
         ELSE IF e.k \in {"se", "slen"} /\ hb THEN "address-pair-conflicts-with-base-address"
         ELSE NamedWhy(L, i + 1, hb \/ e.k = "base", enc)
Why(L, enc, lp) ==
    IF NamedReject(L, 1, HaveBase(lp), enc) THEN NamedWhy(L, 1, HaveBase(lp), enc)
    ELSE IF \E i \in DOMAIN L : L[i].k \in {"opair", "se", "slen"} /\ enc.ver <= 4 /\ L[i].a = OnesSized(enc.asz) THEN "all-ones-begin"
    ELSE IF \E i \in DOMAIN L : L[i].k = "slen" /\ enc.ver <= 4 /\ FitsBytes(L[i].a, enc.asz)
                                 /\ (AddOverflows(L[i].a, L[i].b) \/ ~FitsBytes(Add(L[i].a, L[i].b), enc.asz))
         THEN "start-length-end-outside-address-space"
    ELSE IF \E i \in DOMAIN L : ~CanCarry(L[i], enc) THEN "does-not-fit"
    ELSE "none"

Inv ==
    c.stage \in {1, 2} =>
    LET encOf(fmt) == [ver |-> c.vc, asz |-> c.asz, fmt |-> fmt, le |-> TRUE]
        enc == encOf(32)
        lp  == LpOf(c.asz, c.lp)
        nl  == Len(c.ls)
        \* the script with "last child" references resolved
        Res(L) == [j \in DOMAIN L |-> IF HasRef(L[j]) /\ L[j].r.tgt = 99 THEN [L[j] EXCEPT !.r.tgt = nl] ELSE L[j]]
        ls  == [i \in DOMAIN c.ls |-> [fam |-> c.ls[i].fam, L |-> Res(c.ls[i].L)]]
        bd  == Build(ls, 1, <<>>, <<>>, <<>>)
        XL(L, fmt) == Expand(L, encOf(fmt), ModelOffs(encOf(fmt), lp, nl))
        rej == \E i \in DOMAIN ls : MustReject(XL(ls[i].L, 32), enc, lp)
        whys == {Why(ls[i].L, enc, lp) : i \in DOMAIN ls} \ {"none"}
        MeanOf(fmt) == [i \in DOMAIN ls |-> Meaning(XL(ls[i].L, fmt), encOf(fmt), lp, ls[i].fam)]
        anyRef == \E i \in DOMAIN ls : \E j \in DOMAIN ls[i].L : HasRef(ls[i].L[j])
        PredOf(fmt) ==
            LET e == encOf(fmt)
                w == WriteUnit([i \in DOMAIN bd.rt |-> XL(bd.rt[i], fmt)], [i \in DOMAIN bd.lt |-> XL(bd.lt[i], fmt)], e, lp) IN
            IF ~w.ok THEN [fmt |-> fmt, ok |-> FALSE, err |-> w.err, mean |-> MeanOf(fmt)]
            ELSE [fmt |-> fmt, ok |-> TRUE, rsec |-> w.rsec, lsec |-> w.lsec, mean |-> MeanOf(fmt),
                  offs |-> [i \in DOMAIN ls |-> IF ls[i].fam = "rng" THEN w.roffs[bd.ids[i]] ELSE w.loffs[bd.ids[i]]],
                  back |-> [i \in DOMAIN ls |->
                              LET isr == ls[i].fam = "rng"
                                  rb == ReadBack(IF isr THEN w.rsec ELSE w.lsec,
                                                 IF isr THEN w.roffs[bd.ids[i]] ELSE w.loffs[bd.ids[i]], e, lp, ls[i].fam) IN
                              IF rb.open THEN rb.items ELSE <<[t |-> "err", err |-> "UnexpectedEof"]>>]]
        p32 == PredOf(32)
        \* the pair format does not depend on the offset size, unless an expression holds a DIE offset
        p64 == IF c.vc <= 4 /\ ~anyRef THEN [p32 EXCEPT !.fmt = 64] ELSE PredOf(64)
        faithful(p) == p.ok /\ \A i \in DOMAIN ls : p.back[i] = p.mean[i]
        predOk(p) == IF rej THEN ~p.ok ELSE faithful(p)
        JPred(p) == [fmt |-> p.fmt, ok |-> p.ok, err |-> IF p.ok THEN "" ELSE p.err,
                     rlen |-> IF p.ok THEN Len(p.rsec) ELSE 0, llen |-> IF p.ok THEN Len(p.lsec) ELSE 0,
                     rsec |-> IF p.ok THEN p.rsec ELSE <<>>, lsec |-> IF p.ok THEN p.lsec ELSE <<>>,
                     offs |-> IF p.ok THEN p.offs ELSE <<>>,
                     dieoffs |-> ModelOffs(encOf(p.fmt), lp, nl),
                     meaning |-> [i \in DOMAIN ls |-> JItems(p.mean[i])]]
    IN
    \* design-level theorem: on lists the property regards as representable, the
    \* emission as coded is accepted and the reader model reads back the Meaning
    /\ (~rej => faithful(p32) /\ faithful(p64))
    \* equal lists share one id; distinct lists get distinct ids
    /\ \A i, j \in DOMAIN ls : (ls[i] = ls[j]) = (ls[i].fam = ls[j].fam /\ bd.ids[i] = bd.ids[j])
    /\ PrintT(<<"CASE", ToJson([sys |-> "listw", vc |-> c.vc, vers |-> IF c.vc = 4 THEN {2, 3, 4} ELSE {5}, asz |-> c.asz,
                                lp |-> IF lp.some THEN <<Cv(lp.v)>> ELSE <<>>,
                                lists |-> [i \in DOMAIN ls |-> [fam |-> ls[i].fam, L |-> [j \in DOMAIN ls[i].L |-> JEnt(ls[i].L[j])]]],
                                ids |-> bd.ids, reject |-> rej, why |-> whys, refs |-> anyRef,
                                named |-> (\E i \in DOMAIN ls : NamedReject(ls[i].L, 1, HaveBase(lp), enc)),
                                pred |-> <<JPred(p32), JPred(p64)>>,
                                predok |-> predOk(p32) /\ predOk(p64)])>>)
=============================================================================
