----------------------------- MODULE MCWStrings -----------------------------
(* Bounded model of the write-side string tables, the byte sink, the       *)
(* section container and Dwarf::write with string names (extension; not    *)
(* one of the listed properties).  One TLC run, four sub-models selected   *)
(* by c.mode (merged to pay the JVM warm-up once):                         *)
(*  "tbl"   every call script of length <= MaxTbl over add(s) for s in a   *)
(*          4-string alphabet (empty, "a", "ba" with suffix "a", "ab" with *)
(*          prefix "a") + one string containing NUL, get(id) for every     *)
(*          live id, count, write, get with a foreign id.  THEOREM (Inv):  *)
(*          the table as coded has the meaning of its add history          *)
(*          (TableMeaning: dense ids, dedup, offsets increasing by len+1,  *)
(*          section = NUL-terminated concatenation, read-back = added) and *)
(*          every step extends the previous table (ids stable).            *)
(*  "vec"   every script of length <= MaxVec over EndianVec write /        *)
(*          write_at (offsets around the ends) / len / take; THEOREM:      *)
(*          write_at as coded = "overwrite in place iff it fits".          *)
(*  "dwarf" every list of <= MaxDies items (DW_AT_name as strp / line_strp *)
(*          / string over 3 strings, two unreferenced adds) x versions     *)
(*          2..5 x formats 32/64 x one unit, two units of different version  *)
(*          and format (all 8 pairings if TwoFull, else 4), and Dwarf::    *)
(*          write called twice;                                            *)
(*          THEOREM: every reference written resolves to the string added. *)
(*  "secs"  for_each / for_each_mut with the closure failing at call k,    *)
(*          get / get_mut for every SectionId, Section::id / name.         *)
(* One CASE line per explored script (tbl, vec, secs) / per (item list,    *)
(* configuration) (dwarf).                                                 *)
EXTENDS WStrings, TLC, Json
CONSTANTS MaxTbl, MaxVec, MaxDies, TwoFull
VARIABLE c

E  == <<>>
A  == <<97>>
BA == <<98, 97>>
AB == <<97, 98>>
Z  == <<97, 0>>             \* contains NUL: add must panic
AddAlphabet == {E, A, BA, AB, Z}

(*------------------------------- tbl -------------------------------------*)
TblOps(t) == {[op |-> "add", b |-> b] : b \in AddAlphabet}
             \cup {[op |-> "get", id |-> k] : k \in 0..(Count(t) - 1)}
             \cup {[op |-> "count"], [op |-> "write"]}
             \cup {[op |-> "getf", k |-> k] : k \in {Count(t)} \cup (IF Count(t) > 0 THEN {0} ELSE {})}
Adds(ops) == LET a == SelectSeq(ops, LAMBDA o : o.op = "add") IN [i \in DOMAIN a |-> a[i].b]
(* ids the caller holds: one per successful add, in call order *)
Held(t, ops) == LET g == SelectSeq(Adds(ops), LAMBDA b : ~HasNul(b)) IN [i \in DOMAIN g |-> Find(t, g[i]) - 1]
Back(t, ops, sec) == LET hd == Held(t, ops) IN
                     [i \in DOMAIN hd |-> [id |-> hd[i], off |-> Offset(t, hd[i]).off, r |-> GetStr(sec, Offset(t, hd[i]).off)]]
(* one call: [t, cum, exp] *)
TblStep(s, o) ==
    CASE o.op = "add" -> LET r == Add(s.t, o.b) IN [t |-> r.t, cum |-> s.cum, exp |-> r.res]
      [] o.op = "get" -> [t |-> s.t, cum |-> s.cum, exp |-> [s |-> Get(s.t, o.id).s, off |-> Offset(s.t, o.id).off]]
      [] o.op = "count" -> [t |-> s.t, cum |-> s.cum, exp |-> [n |-> Count(s.t)]]
      [] o.op = "write" -> LET cum2 == WriteTo(s.t, s.cum) IN
            [t |-> s.t, cum |-> cum2,
             exp |-> [len |-> Len(cum2), sec |-> Emit(s.t),
                      back |-> Back(s.t, s.ops, Emit(s.t)),        \* read back from a fresh section
                      cback |-> Back(s.t, s.ops, cum2)]]           \* and from the section all writes went to
      [] o.op = "getf" -> [t |-> s.t, cum |-> s.cum,
                           exp |-> [allowed |-> IF o.k < Count(s.t) THEN <<Panic, Get(s.t, o.k)>> ELSE <<Panic>>]]

(*------------------------------- vec -------------------------------------*)
WBytes == {<<>>, <<1>>, <<2, 3>>}
ABytes == {<<>>, <<9>>, <<8, 7>>}
Offs(v) == {o \in {0, 1, Len(v) - 1, Len(v), Len(v) + 1} : o >= 0}     \* TLC: 0 - 1 = -1, filtered
VecOps(v) == {[op |-> "write", b |-> b] : b \in WBytes}
             \cup {[op |-> "write_at", off |-> o, b |-> b] : o \in Offs(v), b \in ABytes}
             \cup {[op |-> "len"], [op |-> "take"]}
VecStep(v, o) ==
    CASE o.op = "write" -> VWrite(v, o.b)
      [] o.op = "write_at" -> VWriteAt(v, o.off, o.b)
      [] o.op = "len" -> [v |-> v, res |-> [n |-> VLen(v)]]
      [] o.op = "take" -> VTake(v)

(*------------------------------ dwarf ------------------------------------*)
DieMenu == {[k |-> k, s |-> s] : k \in {"strp", "line_strp", "string"}, s \in {E, A, BA}}
           \cup {[k |-> "unref_str", s |-> BA], [k |-> "unref_line", s |-> A]}
Cfgs == {[ver |-> v, fmt |-> f] : v \in 2..5, f \in {4, 8}}
OneUnit(items, g) == <<[ver |-> g.ver, fmt |-> g.fmt, items |-> items]>>
TwoUnits(items, g) == LET k == (Len(items) + 1) \div 2 IN
    <<[ver |-> g.ver, fmt |-> g.fmt, items |-> SubSeq(items, 1, k)],
      [ver |-> 7 - g.ver, fmt |-> 12 - g.fmt, items |-> SubSeq(items, k + 1, Len(items))]>>
DwarfCase(units, times, le, w) == [sys |-> "dwarf", units |-> units, times |-> times, le |-> le, exp |-> w]
(* meaning checked and the case emitted from one evaluation of DwarfWrite *)
DwarfCheck(units, times, le) == LET w == DwarfWrite(units, times) IN
                                DwarfMeaningOf(w) /\ PrintT(<<"CASE", ToJson(DwarfCase(units, times, le, w))>>)

(* AttributeValue::String is documented "Must not include null bytes" but is  *)
(* not checked (unlike StringTable::add).  No expectation follows from a      *)
(* violated precondition; the case is replayed to RECORD what gimli does.     *)
NulStringCases == {[sys |-> "dwarf_nul", times |-> 1, le |-> TRUE,
                    units |-> <<[ver |-> v, fmt |-> 4, items |-> <<[k |-> "string", s |-> Z \o A], [k |-> "strp", s |-> BA]>>]>>,
                    exp |-> [precondition |-> "AttributeValue::String must not include null bytes"]] : v \in {4, 5}}

(*------------------------------- secs ------------------------------------*)
SecContents(prefill) == [id \in Range(DeclOrder) |-> prefill \o <<PosIn(DeclOrder, id)>>]
Stamp(i) == 100 + i
SecsCase(m, k, prefill) ==
    LET before == SecContents(prefill)
        after == IF m THEN ForEachMutContents(before, k, Stamp) ELSE before IN
    [sys |-> "secs", mut |-> m, fail |-> k, prefill |-> prefill,
     marks |-> [i \in DOMAIN DeclOrder |-> [id |-> DeclOrder[i], mark |-> i]],
     probe |-> AllIds, refs |-> Refs,
     exp |-> [first |-> (IF m THEN ForEach(after, k) ELSE ForEach(before, k)),  \* a mutable visit sees the bytes after its own stamp
              second |-> (IF m THEN ForEach(after, 0) ELSE ForEach(before, k)), \* same order each call
              fields |-> after,
              get |-> [i \in DOMAIN AllIds |-> SecGet(after, AllIds[i])],
              names |-> [i \in DOMAIN DeclOrder |-> [id |-> DeclOrder[i], name |-> ElfName[DeclOrder[i]]]]]]

(*----------------------------- exploration --------------------------------*)
Init == c = [mode |-> "init"]
Next ==
    CASE c.mode = "init" ->
           \/ c' = [mode |-> "tbl", ops |-> <<>>, t |-> Empty, pt |-> Empty, cum |-> <<>>, exp |-> <<>>]
           \/ c' = [mode |-> "vec", ops |-> <<>>, v |-> <<>>, pv |-> <<>>, exp |-> <<>>]
           \/ c' = [mode |-> "dwarf", items |-> <<>>]
           \/ \E m \in BOOLEAN, k \in 0..12, p \in {<<>>, <<7>>} : c' = [mode |-> "secs", mut |-> m, fail |-> k, prefill |-> p]
      [] c.mode = "tbl" ->
           /\ Len(c.ops) < MaxTbl
           /\ \E o \in TblOps(c.t) : LET r == TblStep(c, o) IN
                c' = [mode |-> "tbl", ops |-> Append(c.ops, o), t |-> r.t, pt |-> c.t, cum |-> r.cum, exp |-> Append(c.exp, r.exp)]
      [] c.mode = "vec" ->
           /\ Len(c.ops) < MaxVec
           /\ \E o \in VecOps(c.v) : LET r == VecStep(c.v, o) IN
                c' = [mode |-> "vec", ops |-> Append(c.ops, o), v |-> r.v, pv |-> c.v,
                      exp |-> Append(c.exp, [r |-> r.res, v |-> r.v])]
      [] c.mode = "dwarf" ->
           /\ Len(c.items) < MaxDies
           /\ \E it \in DieMenu : c' = [mode |-> "dwarf", items |-> Append(c.items, it)]
      [] c.mode = "secs" -> FALSE

Emit1(x) == PrintT(<<"CASE", ToJson(x)>>)
Inv ==
    CASE c.mode = "init" -> VisitMeaning /\ \A x \in NulStringCases : Emit1(x)
      [] c.mode = "tbl" ->
           /\ TableMeaning(c.t, Adds(c.ops))                        \* as coded = meaning of the add history
           /\ Extends(c.pt, c.t)                                    \* ids and offsets are stable
           /\ Len(c.cum) >= 0
           /\ Emit1([sys |-> "tbl", ops |-> c.ops, exp |-> c.exp])
      [] c.mode = "vec" ->
           /\ (c.ops # <<>> /\ c.ops[Len(c.ops)].op = "write_at" =>
                 LET o == c.ops[Len(c.ops)] IN VWriteAtMeaning(c.pv, o.off, o.b))
           /\ (c.ops # <<>> /\ c.ops[Len(c.ops)].op = "write" => c.v = c.pv \o c.ops[Len(c.ops)].b)
           /\ Emit1([sys |-> "vec", ops |-> c.ops, exp |-> c.exp])
      [] c.mode = "dwarf" ->
           /\ \A g \in Cfgs :
                LET le == (g.ver + Len(c.items) + g.fmt \div 4) % 2 = 0 IN
                /\ DwarfCheck(OneUnit(c.items, g), 1, le)
                /\ (TwoFull \/ (g.ver + g.fmt \div 4) % 2 = 0 => DwarfCheck(TwoUnits(c.items, g), 1, ~le))
           /\ DwarfCheck(OneUnit(c.items, [ver |-> 4, fmt |-> 4]), 2, TRUE)
      [] c.mode = "secs" -> Emit1(SecsCase(c.mut, c.fail, c.prefill))
=============================================================================
