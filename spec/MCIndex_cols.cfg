INIT Init
NEXT Next
INVARIANT Inv
CHECK_DEADLOCK FALSE
CONSTANTS
  Mode = "cols"
  Big = FALSE
  RawBig = TRUE
  ColsFull = TRUE
