------------------------------ MODULE CfiCodec ------------------------------
(***************************************************************************)
(* Byte-level encoders and the meaning of call-frame-information entries   *)
(* (C05): DW_EH_PE_* pointer encodings, CIEs and FDEs of .debug_frame      *)
(* (versions 1/3/4, 32/64-bit, v4 address/segment size) and of .eh_frame   *)
(* (augmentation strings over z,L,P,R,S, relative CIE pointers), and the   *)
(* .eh_frame_hdr header.                                                   *)
(*                                                                         *)
(* All byte-level knowledge is in the `Enc*` operators; `*Meaning` gives   *)
(* what a reader must report for an abstract entry placed at a given       *)
(* section offset under given base addresses.  Values that may exceed      *)
(* 2^31 are BV tuples of width 8 (little-endian u64).                      *)
(*                                                                         *)
(* Abstract pointer = (encoding byte e, raw value `raw` : BV8).  `raw` is  *)
(* the number stored in the section (before any base is added); only its   *)
(* low bytes are stored for the fixed-size formats.                        *)
(***************************************************************************)
EXTENDS Leb

None == <<>>                 \* absent optional BV (bases, func base)

(*------------------- fast width-8 arithmetic ------------------------------*)
(* BV's generic operators are recursive; these unrolled width-8 versions    *)
(* are what the CFI modules use (an order of magnitude fewer evaluation     *)
(* steps in TLC).  MCCfiSection (family "lem") checks them against BV.      *)
N8(v) == <<v % 256, (v \div 256) % 256, (v \div 65536) % 256, (v \div 16777216) % 256, 0, 0, 0, 0>>  \* 0 <= v < 2^31
Add8(a, b) ==
    LET s1 == a[1] + b[1]
        s2 == a[2] + b[2] + (s1 \div 256)
        s3 == a[3] + b[3] + (s2 \div 256)
        s4 == a[4] + b[4] + (s3 \div 256)
        s5 == a[5] + b[5] + (s4 \div 256)
        s6 == a[6] + b[6] + (s5 \div 256)
        s7 == a[7] + b[7] + (s6 \div 256)
        s8 == a[8] + b[8] + (s7 \div 256)
    IN <<s1 % 256, s2 % 256, s3 % 256, s4 % 256, s5 % 256, s6 % 256, s7 % 256, s8 % 256>>
Sub8(a, b) ==                                  \* a + ~b + 1
    LET s1 == a[1] + 255 - b[1] + 1
        s2 == a[2] + 255 - b[2] + (s1 \div 256)
        s3 == a[3] + 255 - b[3] + (s2 \div 256)
        s4 == a[4] + 255 - b[4] + (s3 \div 256)
        s5 == a[5] + 255 - b[5] + (s4 \div 256)
        s6 == a[6] + 255 - b[6] + (s5 \div 256)
        s7 == a[7] + 255 - b[7] + (s6 \div 256)
        s8 == a[8] + 255 - b[8] + (s7 \div 256)
    IN <<s1 % 256, s2 % 256, s3 % 256, s4 % 256, s5 % 256, s6 % 256, s7 % 256, s8 % 256>>
ULt8(a, b) ==
    IF a[8] # b[8] THEN a[8] < b[8] ELSE IF a[7] # b[7] THEN a[7] < b[7]
    ELSE IF a[6] # b[6] THEN a[6] < b[6] ELSE IF a[5] # b[5] THEN a[5] < b[5]
    ELSE IF a[4] # b[4] THEN a[4] < b[4] ELSE IF a[3] # b[3] THEN a[3] < b[3]
    ELSE IF a[2] # b[2] THEN a[2] < b[2] ELSE a[1] < b[1]
ULe8(a, b) == ~ULt8(b, a)
Conc8(a) == <<a[1], a[2], a[3], a[4], a[5], a[6], a[7], a[8]>>     \* force a lazily built function into a tuple
(* TLC keeps [i \in S |-> e] as a closure and re-evaluates e at every        *)
(* application; Tup forces a sequence built that way into a tuple once.      *)
Tup(s) == SubSeq(s, 1, Len(s))
(* LEB128 of a 64-bit value.  Leb!EncU / Leb!EncS build nested lazy         *)
(* functions in TLC (cost exponential in the number of output bytes), so    *)
(* the shift by 7 is done byte-wise here; "lem" checks the results against  *)
(* Leb's mathematical meaning (AllowedU / AllowedS).                        *)
Shr7(v) == <<(v[1] \div 128) + (v[2] % 128) * 2, (v[2] \div 128) + (v[3] % 128) * 2,
             (v[3] \div 128) + (v[4] % 128) * 2, (v[4] \div 128) + (v[5] % 128) * 2,
             (v[5] \div 128) + (v[6] % 128) * 2, (v[6] \div 128) + (v[7] % 128) * 2,
             (v[7] \div 128) + (v[8] % 128) * 2, v[8] \div 128>>
Sar7(v) == [Shr7(v) EXCEPT ![8] = @ + (IF v[8] >= 128 THEN 254 ELSE 0)]
RECURSIVE EncU8(_)
EncU8(v) == LET lo == v[1] % 128
                r  == Shr7(v)
            IN IF r = <<0, 0, 0, 0, 0, 0, 0, 0>> THEN <<lo>> ELSE <<lo + 128>> \o EncU8(r)
RECURSIVE EncS8(_)
EncS8(v) == LET lo   == v[1] % 128
                r    == Sar7(v)
                done == (r = <<0, 0, 0, 0, 0, 0, 0, 0>> /\ lo < 64)
                        \/ (r = <<255, 255, 255, 255, 255, 255, 255, 255>> /\ lo >= 64)
            IN IF done THEN <<lo>> ELSE <<lo + 128>> \o EncS8(r)

(*----------------------------- DW_EH_PE_* ---------------------------------*)
PeFormat(e)   == e % 16                        \* e & 0x0f
PeApp(e)      == ((e \div 16) % 8) * 16        \* e & 0x70
PeIndirect(e) == e >= 128                      \* e & 0x80
PeOmit        == 255
PeAbsptr == 0   PeUleb == 1   PeUdata2 == 2   PeUdata4 == 3   PeUdata8 == 4
PeSleb == 9     PeSdata2 == 10  PeSdata4 == 11  PeSdata8 == 12
PePcrel == 16   PeTextrel == 32  PeDatarel == 48  PeFuncrel == 64  PeAligned == 80
PeFormats == {0, 1, 2, 3, 4, 9, 10, 11, 12}
PeApps    == {0, 16, 32, 48, 64, 80}
(* constants::DwEhPe::is_valid_encoding *)
IsValidEncoding(e) == e = PeOmit \/ (PeFormat(e) \in PeFormats /\ PeApp(e) \in PeApps)

Fld(v, n, le) == IF le THEN Trunc(v, n) ELSE Reverse(Trunc(v, n))
MaskA(v, asz) == ZExt(Trunc(v, asz), 8)        \* v mod 2^(8 asz) as u64

(* bytes of the value `raw` in format f (nothing for an invalid format: the *)
(* reader must reject at the encoding byte)                                 *)
EncVal(f, raw, asz, le) ==
    CASE f = 0         -> Fld(raw, asz, le)
      [] f = 1         -> EncU8(raw)
      [] f = 9         -> EncS8(raw)
      [] f \in {2, 10} -> Fld(raw, 2, le)
      [] f \in {3, 11} -> Fld(raw, 4, le)
      [] f \in {4, 12} -> Fld(raw, 8, le)
      [] OTHER         -> <<>>

(* the 64-bit number an encoded value denotes: unsigned formats zero-       *)
(* extend, signed formats sign-extend (to be added to a base modulo 2^W)    *)
ValMeaning(f, raw, asz) ==
    CASE f = 0  -> ZExt(Trunc(raw, asz), 8)
      [] f = 1  -> raw
      [] f = 9  -> raw
      [] f = 2  -> ZExt(Trunc(raw, 2), 8)
      [] f = 3  -> ZExt(Trunc(raw, 4), 8)
      [] f = 4  -> raw
      [] f = 10 -> SExt(Trunc(raw, 2), 8)
      [] f = 11 -> SExt(Trunc(raw, 4), 8)
      [] f = 12 -> raw
      [] OTHER  -> Zero(8)

PErr(name) == [ok |-> FALSE, err |-> name]
POk(e, v)  == [ok |-> TRUE, k |-> IF PeIndirect(e) THEN "indirect" ELSE "direct", v |-> v]

(* Meaning of an encoded pointer stored at section offset `pos` (BV8).      *)
(* B = [section, text, data] (each a BV8 or None), func = BV8 or None.      *)
(* pcrel is relative to the address of the encoded value itself.            *)
PtrMeaning(e, raw, asz, B, pos, func) ==
    IF ~IsValidEncoding(e) THEN PErr("UnknownPointerEncoding")
    ELSE IF e = PeOmit THEN PErr("CannotParseOmitPointerEncoding")
    ELSE LET app == PeApp(e) IN
         IF app = PePcrel /\ B.section = None THEN PErr("PcRelativePointerButSectionBaseIsUndefined")
         ELSE IF app = PeTextrel /\ B.text = None THEN PErr("TextRelativePointerButTextBaseIsUndefined")
         ELSE IF app = PeDatarel /\ B.data = None THEN PErr("DataRelativePointerButDataBaseIsUndefined")
         ELSE IF app = PeFuncrel /\ func = None THEN PErr("FuncRelativePointerInBadContext")
         ELSE IF app = PeAligned THEN PErr("UnsupportedPointerEncoding")
         ELSE LET base == CASE app = 0         -> Zero(8)
                            [] app = PePcrel   -> Add8(B.section, pos)
                            [] app = PeTextrel -> B.text
                            [] app = PeDatarel -> B.data
                            [] app = PeFuncrel -> func
              IN POk(e, MaskA(Add8(base, ValMeaning(PeFormat(e), raw, asz)), asz))

(* the base an application adds, None if unavailable (used by encoders that *)
(* start from the target address)                                           *)
PtrBase(e, B, pos, func) ==
    LET app == PeApp(e) IN
    CASE app = 0         -> Zero(8)
      [] app = PePcrel   -> IF B.section = None THEN None ELSE Add8(B.section, pos)
      [] app = PeTextrel -> B.text
      [] app = PeDatarel -> B.data
      [] app = PeFuncrel -> func
      [] OTHER           -> None
(* raw value that makes the pointer denote `target` (when representable)    *)
RawFor(e, target, B, pos, func) == Sub8(target, PtrBase(e, B, pos, func))
Representable(e, target, asz, B, pos, func) ==
    /\ PtrBase(e, B, pos, func) # None
    /\ LET m == PtrMeaning(e, RawFor(e, target, B, pos, func), asz, B, pos, func)
       IN m.ok /\ m.v = target

(*------------------------------ entries -----------------------------------*)
ChZ == 122   ChL == 76   ChP == 80   ChR == 82   ChS == 83

HasZ(aug) == Len(aug) > 0 /\ aug[1] = ChZ
HasCh(aug, ch) == \E i \in DOMAIN aug : aug[i] = ch
PosOf(aug, ch) == CHOOSE i \in DOMAIN aug : aug[i] = ch /\ \A j \in 1..(i - 1) : aug[j] # ch

(* LEB128 of small integers (|n| < 2^31) by integer arithmetic; MCCfiSection *)
(* checks them against Leb!EncU / Leb!EncS                                 *)
RECURSIVE UlebNat(_)
UlebNat(n) == IF n < 128 THEN <<n>> ELSE <<(n % 128) + 128>> \o UlebNat(n \div 128)
RECURSIVE SlebInt(_)
SlebInt(v) == LET lo   == v % 128                      \* TLA+ % is non-negative
                  r    == (v - lo) \div 128             \* arithmetic shift right by 7
                  done == (r = 0 /\ lo < 64) \/ (r = -1 /\ lo >= 64)
              IN IF done THEN <<lo>> ELSE <<lo + 128>> \o SlebInt(r)

LenSize(fmt) == IF fmt = 32 THEN 4 ELSE 12
LenBytes(fmt, n, le) == IF fmt = 32 THEN Fld(N8(n), 4, le)
                        ELSE Ones(4) \o Fld(N8(n), 8, le)

(* instruction tokens used by this module: 0 = DW_CFA_nop, d \in 1..63 =    *)
(* DW_CFA_advance_loc d                                                     *)
InsBytes(ins)   == Tup([i \in 1..Len(ins) |-> IF ins[i] = 0 THEN 0 ELSE 64 + ins[i]])
InsMeaning(ins) == Tup([i \in 1..Len(ins) |-> IF ins[i] = 0 THEN <<"nop">> ELSE <<"adv", ins[i]>>])
(* optional field insx: already encoded instruction bytes appended after ins (FrameWriter) *)
InsX(e) == IF "insx" \in DOMAIN e THEN e.insx ELSE <<>>

(* A CIE is [fmt, ver, aug, asz, seg, caf, daf, ra, lenc, penc, praw, renc, *)
(* augx, ins] (caf a natural number, daf an integer, both < 2^31 in        *)
(* magnitude; wide LEB128 values are C09's subject).  Its address size is  *)
(* the section default except for version 4 in .debug_frame.               *)
CieAsz(kind, c, secAsz) == IF kind = "debug" /\ c.ver = 4 THEN c.asz ELSE secAsz
(* the return address register is one byte in version 1 and ULEB128 later;  *)
(* optional field rau = TRUE forces ULEB128 (what write::cfi emits for      *)
(* version 1 in .eh_frame)                                                  *)
RaUleb(c) == IF "rau" \in DOMAIN c THEN c.rau ELSE FALSE
CieIdBytes(kind, fmt) == IF kind = "eh" THEN Zero(4) ELSE IF fmt = 32 THEN Ones(4) ELSE Ones(8)
CieHead(kind, c) ==
    <<c.ver>> \o c.aug \o <<0>>
    \o (IF kind = "debug" /\ c.ver = 4 THEN <<c.asz, c.seg>> ELSE <<>>)
    \o UlebNat(c.caf) \o SlebInt(c.daf)
    \o (IF c.ver = 1 /\ ~RaUleb(c) THEN <<c.ra % 256>> ELSE UlebNat(c.ra))

(* augmentation data contributed by the characters lo..hi of the string *)
RECURSIVE AugDataRange(_, _, _, _, _)
AugDataRange(c, lo, hi, asz, le) ==
    IF lo > hi THEN <<>>
    ELSE (CASE c.aug[lo] = ChL -> <<c.lenc>>
            [] c.aug[lo] = ChP -> <<c.penc>> \o EncVal(PeFormat(c.penc), c.praw, asz, le)
            [] c.aug[lo] = ChR -> <<c.renc>>
            [] OTHER -> <<>>)
         \o AugDataRange(c, lo + 1, hi, asz, le)
AugData(c, asz, le) == AugDataRange(c, 1, Len(c.aug), asz, le)
AugLenBytes(n) == UlebNat(n)

CieBody(kind, c, secAsz, le) ==
    LET asz == CieAsz(kind, c, secAsz)
        ad  == AugData(c, asz, le)
    IN CieIdBytes(kind, c.fmt) \o CieHead(kind, c)
       \o (IF HasZ(c.aug) THEN AugLenBytes(Len(ad) + Len(c.augx)) \o ad \o c.augx ELSE <<>>)
       \o InsBytes(c.ins) \o InsX(c)
EncCie(kind, c, secAsz, le) ==
    LET b == CieBody(kind, c, secAsz, le) IN LenBytes(c.fmt, Len(b), le) \o b

NoAug == [some |-> FALSE]
AugAcc0 == [some |-> TRUE, lsda |-> -1, pers |-> [some |-> FALSE], fenc |-> -1, sig |-> FALSE]

(* Augmentation::parse, character by character; dstart = section offset of *)
(* the augmentation data                                                    *)
RECURSIVE AugWalk(_, _, _, _, _, _)
AugWalk(c, i, asz, B, dstart, acc) ==
    IF i > Len(c.aug) THEN [ok |-> TRUE, a |-> acc]
    ELSE LET ch == c.aug[i] IN
      IF ch = ChZ THEN
          IF i = 1 THEN AugWalk(c, i + 1, asz, B, dstart, acc) ELSE PErr("UnknownAugmentation")
      ELSE IF ch = ChL THEN
          IF ~HasZ(c.aug) THEN PErr("UnknownAugmentation")
          ELSE IF ~IsValidEncoding(c.lenc) THEN PErr("UnknownPointerEncoding")
          ELSE AugWalk(c, i + 1, asz, B, dstart, [acc EXCEPT !.lsda = c.lenc])
      ELSE IF ch = ChP THEN
          IF ~HasZ(c.aug) THEN PErr("UnknownAugmentation")
          ELSE LET pos == dstart + Len(AugDataRange(c, 1, i - 1, asz, TRUE)) + 1
                   p   == PtrMeaning(c.penc, c.praw, asz, B, N8(pos), None)
               IN IF ~p.ok THEN p
                  ELSE AugWalk(c, i + 1, asz, B, dstart,
                               [acc EXCEPT !.pers = [some |-> TRUE, enc |-> c.penc, k |-> p.k, v |-> p.v]])
      ELSE IF ch = ChR THEN
          IF ~HasZ(c.aug) THEN PErr("UnknownAugmentation")
          ELSE IF ~IsValidEncoding(c.renc) THEN PErr("UnknownPointerEncoding")
          ELSE AugWalk(c, i + 1, asz, B, dstart, [acc EXCEPT !.fenc = c.renc])
      ELSE IF ch = ChS THEN AugWalk(c, i + 1, asz, B, dstart, [acc EXCEPT !.sig = TRUE])
      ELSE PErr("UnknownAugmentation")

(* what a reader reports for CIE c placed at section offset off; B are the  *)
(* .eh_frame base addresses                                                 *)
CieMeaning(kind, c, off, secAsz, B) ==
    LET asz  == CieAsz(kind, c, secAsz)
        body == CieBody(kind, c, secAsz, TRUE)
        dst  == off + LenSize(c.fmt) + Len(CieIdBytes(kind, c.fmt)) + Len(CieHead(kind, c))
                + Len(AugLenBytes(Len(AugData(c, asz, TRUE)) + Len(c.augx)))
    IN IF c.ver \notin {1, 3, 4} THEN PErr("UnknownVersion")
       ELSE IF kind = "debug" /\ c.ver = 4 /\ c.asz \notin {1, 2, 4, 8} THEN PErr("UnsupportedAddressSize")
       ELSE IF kind = "debug" /\ c.ver = 4 /\ c.seg # 0 THEN PErr("UnsupportedSegmentSize")
       ELSE IF c.ver # 1 /\ c.ra >= 65536 THEN PErr("UnsupportedRegister")
       ELSE LET w == IF c.aug = <<>> THEN [ok |-> TRUE, a |-> NoAug]
                     ELSE AugWalk(c, 1, asz, B, dst, AugAcc0)
            IN IF ~w.ok THEN w
               ELSE [ok |-> TRUE,
                     rec |-> [t |-> "cie", off |-> off, len |-> Len(body), fmt |-> c.fmt, ver |-> c.ver,
                              asz |-> asz, caf |-> N8(c.caf), daf |-> FromInt(c.daf, 8),
                              ra |-> IF c.ver = 1 THEN c.ra % 256 ELSE c.ra,
                              aug |-> w.a, ins |-> InsMeaning(c.ins)]]

(* An FDE is [fmt, cie (index of its CIE in the entry list), iraw, rraw,    *)
(* lraw, augx, ins].                                                        *)
CiePtrLen(kind, fmt) == IF kind = "eh" THEN 4 ELSE IF fmt = 32 THEN 4 ELSE 8
FdeUsesR(c) == HasZ(c.aug) /\ HasCh(c.aug, ChR)
FdeUsesL(c) == HasZ(c.aug) /\ HasCh(c.aug, ChL)
FdeAddrBytes(f, c, asz, le) ==
    IF FdeUsesR(c) THEN EncVal(PeFormat(c.renc), f.iraw, asz, le) \o EncVal(PeFormat(c.renc), f.rraw, asz, le)
    ELSE Fld(f.iraw, asz, le) \o Fld(f.rraw, asz, le)
FdeAugData(f, c, asz, le) == IF FdeUsesL(c) THEN EncVal(PeFormat(c.lenc), f.lraw, asz, le) ELSE <<>>
FdeBody(kind, f, c, fdeOff, cieOff, secAsz, le) ==
    LET asz    == CieAsz(kind, c, secAsz)
        ptrpos == fdeOff + LenSize(f.fmt)
        cp     == IF kind = "eh" THEN Fld(N8(ptrpos - cieOff), 4, le)
                  ELSE Fld(N8(cieOff), CiePtrLen(kind, f.fmt), le)
        ad     == FdeAugData(f, c, asz, le)
    IN cp \o FdeAddrBytes(f, c, asz, le)
       \o (IF c.aug # <<>> THEN AugLenBytes(Len(ad) + Len(f.augx)) \o ad \o f.augx ELSE <<>>)
       \o InsBytes(f.ins) \o InsX(f)
EncFde(kind, f, c, fdeOff, cieOff, secAsz, le) ==
    LET b == FdeBody(kind, f, c, fdeOff, cieOff, secAsz, le) IN LenBytes(f.fmt, Len(b), le) \o b

(* what a reader reports for the FDE (partial part and fully parsed part)   *)
FdeMeaning(kind, f, c, cm, fdeOff, cieOff, secAsz, B) ==
    LET asz  == CieAsz(kind, c, secAsz)
        body == FdeBody(kind, f, c, fdeOff, cieOff, secAsz, TRUE)
        apos == fdeOff + LenSize(f.fmt) + CiePtrLen(kind, f.fmt)
        useR == cm.ok /\ cm.rec.aug.some /\ cm.rec.aug.fenc >= 0
        i0   == IF useR THEN PtrMeaning(c.renc, f.iraw, asz, B, N8(apos), None)
                ELSE POk(0, MaskA(f.iraw, asz))
        rng  == IF useR THEN ValMeaning(PeFormat(c.renc), f.rraw, asz) ELSE MaskA(f.rraw, asz)
        alen == Len(FdeAddrBytes(f, c, asz, TRUE))
        ad   == FdeAugData(f, c, asz, TRUE)
        lpos == apos + alen + Len(AugLenBytes(Len(ad) + Len(f.augx)))
        useL == cm.ok /\ cm.rec.aug.some /\ cm.rec.aug.lsda >= 0
        ls   == IF useL /\ i0.ok THEN PtrMeaning(c.lenc, f.lraw, asz, B, N8(lpos), i0.v)
                ELSE POk(0, Zero(8))
        p    == IF ~cm.ok THEN PErr(cm.err)
                ELSE IF ~i0.ok THEN i0
                ELSE IF ~ls.ok THEN ls
                ELSE [ok |-> TRUE, cie |-> cm.rec, start |-> i0.v, rng |-> rng,
                      end |-> MaskA(Add8(i0.v, rng), asz),
                      lsda |-> IF useL THEN [some |-> TRUE, k |-> ls.k, v |-> ls.v] ELSE [some |-> FALSE],
                      ins |-> InsMeaning(f.ins)]
    IN [t |-> "fde", off |-> fdeOff, len |-> Len(body), cie_off |-> cieOff, p |-> p]

(*---------------------------- .eh_frame_hdr -------------------------------*)
(* h = [ver, penc, praw, cenc, count (BV8), tenc, rows : Seq([l, p])]       *)
HdrCountPresent(h) == h.cenc # PeOmit /\ h.tenc # PeOmit
HdrHead(h, asz, le) ==
    <<h.ver, h.penc, h.cenc, h.tenc>>
    \o EncVal(PeFormat(h.penc), h.praw, asz, le)
    \o (IF HdrCountPresent(h) THEN EncVal(PeFormat(h.cenc), h.count, asz, le) ELSE <<>>)
HdrRowBytes(h, r, asz, le) == EncVal(PeFormat(h.tenc), r.l, asz, le) \o EncVal(PeFormat(h.tenc), r.p, asz, le)
RECURSIVE HdrRowsFrom(_, _, _, _)
HdrRowsFrom(h, i, asz, le) ==
    IF i > Len(h.rows) THEN <<>> ELSE HdrRowBytes(h, h.rows[i], asz, le) \o HdrRowsFrom(h, i + 1, asz, le)
EncHdr(h, asz, le) == HdrHead(h, asz, le) \o HdrRowsFrom(h, 1, asz, le)

(* EhFrameHdr::parse; HB = .eh_frame_hdr base addresses *)
HdrMeaning(h, asz, HB) ==
    IF h.ver # 1 THEN PErr("UnknownVersion")
    ELSE IF ~IsValidEncoding(h.penc) \/ ~IsValidEncoding(h.cenc) \/ ~IsValidEncoding(h.tenc)
         THEN PErr("UnknownPointerEncoding")
    ELSE LET pm == PtrMeaning(h.penc, h.praw, asz, HB, N8(4), None) IN
         IF ~pm.ok THEN pm
         ELSE IF HdrCountPresent(h) /\ h.cenc # PeFormat(h.cenc) THEN PErr("UnsupportedPointerEncoding")
         ELSE [ok |-> TRUE, ptr |-> [k |-> pm.k, v |-> pm.v],
               count |-> IF HdrCountPresent(h) THEN ValMeaning(PeFormat(h.cenc), h.count, asz) ELSE Zero(8),
               t0 |-> Len(HdrHead(h, asz, TRUE))]

(* fixed entry size that EhHdrTable::lookup / nth support, 0 = unsupported *)
TabSize(tenc) == CASE PeFormat(tenc) \in {2, 10} -> 2
                   [] PeFormat(tenc) \in {3, 11} -> 4
                   [] PeFormat(tenc) \in {4, 12} -> 8
                   [] OTHER -> 0

(* meaning of the table rows as (initial location, FDE address) pointers *)
RECURSIVE HdrRowMeaningsFrom(_, _, _, _, _, _)
HdrRowMeaningsFrom(h, i, pos, asz, HB, acc) ==
    IF i > Len(h.rows) THEN acc
    ELSE LET r  == h.rows[i]
             n1 == Len(EncVal(PeFormat(h.tenc), r.l, asz, TRUE))
             n2 == Len(EncVal(PeFormat(h.tenc), r.p, asz, TRUE))
         IN HdrRowMeaningsFrom(h, i + 1, pos + n1 + n2, asz, HB,
                Append(acc, [l |-> PtrMeaning(h.tenc, r.l, asz, HB, N8(pos), None),
                             p |-> PtrMeaning(h.tenc, r.p, asz, HB, N8(pos + n1), None)]))
HdrRowMeanings(h, asz, HB) == HdrRowMeaningsFrom(h, 1, Len(HdrHead(h, asz, TRUE)), asz, HB, <<>>)
=============================================================================
