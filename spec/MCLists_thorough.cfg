INIT InitL
NEXT NextL
INVARIANT InvL
INVARIANT InvL0
CHECK_DEADLOCK FALSE
CONSTANTS
  MaxLen = 4
  FlavLen = 2
  CoreFrom = 4
  Bases = {"0", "1", "T2", "T1"}
  DieLen = 2
  DieSlimLen = 4
  DieCoreFrom = 4
