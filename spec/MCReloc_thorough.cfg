INIT Init
NEXT Next
INVARIANT Inv
CHECK_DEADLOCK FALSE
CONSTANTS
  MaxRel = 3
  MaxCalls = 2
  FullScripts = TRUE
