------------------------------ MODULE Abbrev ------------------------------
(***************************************************************************)
(* Abbreviation tables (C02, C20): the encoder of a .debug_abbrev table    *)
(* with an arbitrary code assignment, and the `Abbreviations` store of     *)
(* src/read/abbrev.rs as coded (dense vec for the codes 1..k that arrive   *)
(* in order, btree map for everything else, duplicate detection in both).  *)
(*                                                                         *)
(* An abbreviation code is a canonical base-128 digit list (least          *)
(* significant digit first, last digit non-zero), so that codes >= 2^32    *)
(* and >= 2^63 are representable with TLC's 32-bit integers and the ULEB   *)
(* encoding is the digit list with continuation bits.                      *)
(*                                                                         *)
(* A declaration is [code, tag, hc, attrs]; attrs is a sequence of         *)
(* [name, form] or [name, form, ic] (ic = SLEB bytes of an implicit const).*)
(***************************************************************************)
EXTENDS Leb, FiniteSets

(* ---- codes ----------------------------------------------------------- *)
IsCode(c) == /\ Len(c) >= 1 /\ Len(c) <= 10 /\ c[Len(c)] # 0
             /\ \A i \in DOMAIN c : c[i] \in 0..127
             /\ (Len(c) = 10 => c[10] = 1)                  \* < 2^64
(* ULEB128 bytes of a digit list (also used for tags, names, forms) *)
UlebOfDigits(c) == [i \in 1..Len(c) |-> IF i < Len(c) THEN c[i] + 128 ELSE c[i]]
RECURSIVE DigitsOfNat(_)
DigitsOfNat(v) == IF v < 128 THEN <<v>> ELSE <<v % 128>> \o DigitsOfNat(v \div 128)
UlebNat(v) == UlebOfDigits(DigitsOfNat(v))
(* codes with at most 4 digits (< 2^28) have an integer value in TLC *)
CodeSmall(c) == Len(c) <= 4
RECURSIVE CodeVal(_)
CodeVal(c) == IF c = <<>> THEN 0 ELSE Head(c) + 128 * CodeVal(Tail(c))

C2p40   == <<0, 0, 0, 0, 0, 32>>                        \* 2^40
C2p32   == <<0, 0, 0, 0, 16>>                           \* 2^32
C2p63   == <<0, 0, 0, 0, 0, 0, 0, 0, 0, 1>>             \* 2^63
CMax    == <<127, 127, 127, 127, 127, 127, 127, 127, 127, 1>>   \* 2^64 - 1

(* ---- encoder ---------------------------------------------------------- *)
EncAttrSpec(a) == UlebNat(a.name) \o UlebNat(a.form) \o
                  (IF "ic" \in DOMAIN a THEN a.ic ELSE <<>>)
RECURSIVE EncAttrSpecRange(_, _, _)
EncAttrSpecRange(as, lo, hi) ==                       \* by halves: O(n log n) copying for long lists
    IF lo > hi THEN <<>> ELSE IF lo = hi THEN EncAttrSpec(as[lo])
    ELSE LET mid == (lo + hi) \div 2 IN EncAttrSpecRange(as, lo, mid) \o EncAttrSpecRange(as, mid + 1, hi)
EncAttrSpecs(as) == EncAttrSpecRange(as, 1, Len(as)) \o <<0, 0>>
EncDecl(d) == UlebOfDigits(d.code) \o UlebNat(d.tag) \o <<IF d.hc THEN 1 ELSE 0>> \o EncAttrSpecs(d.attrs)
RECURSIVE EncDecls(_)
EncDecls(ds) == IF ds = <<>> THEN <<>> ELSE EncDecl(Head(ds)) \o EncDecls(Tail(ds))
(* a table is a sequence of declarations followed by a null code *)
EncAbbrevTable(ds) == EncDecls(ds) \o <<0>>

(* ---- the store as coded ----------------------------------------------- *)
(* Abbreviations { vec: Vec<Abbreviation>, map: BTreeMap<u64, Abbreviation> } *)
(* The target is assumed to be 64-bit: `code as usize as u64 == code`       *)
(* holds for every code.                                                    *)
AEmpty == [vec |-> <<>>, map |-> {}]
MapHas(st, c) == \E d \in st.map : d.code = c
MapGet(st, c) == CHOOSE d \in st.map : d.code = c

(* Abbreviations::insert : [ok, st] *)
AInsert(st, d) ==
    LET c == d.code
        small == CodeSmall(c)
        v == IF small THEN CodeVal(c) ELSE 0 IN
    IF small /\ v - 1 < Len(st.vec) THEN [ok |-> FALSE, st |-> st]
    ELSE IF small /\ v - 1 = Len(st.vec) THEN
         IF st.map # {} /\ MapHas(st, c) THEN [ok |-> FALSE, st |-> st]
         ELSE [ok |-> TRUE, st |-> [st EXCEPT !.vec = Append(@, d)]]
    ELSE IF MapHas(st, c) THEN [ok |-> FALSE, st |-> st]
         ELSE [ok |-> TRUE, st |-> [st EXCEPT !.map = @ \cup {d}]]

None == [none |-> TRUE]
(* Abbreviations::get; code 0 is the empty digit list *)
AGet(st, c) ==
    IF c = <<>> THEN None
    ELSE IF CodeSmall(c) /\ CodeVal(c) - 1 < Len(st.vec) THEN st.vec[CodeVal(c)]
    ELSE IF MapHas(st, c) THEN MapGet(st, c) ELSE None

(* Abbreviations::parse over an already split declaration list:            *)
(* [ok |-> TRUE, st] or [ok |-> FALSE, at |-> index of the rejected one]   *)
RECURSIVE AParseFrom(_, _, _)
AParseFrom(st, ds, i) ==
    IF i > Len(ds) THEN [ok |-> TRUE, st |-> st]
    ELSE LET r == AInsert(st, ds[i]) IN
         IF r.ok THEN AParseFrom(r.st, ds, i + 1) ELSE [ok |-> FALSE, at |-> i]
AParse(ds) == AParseFrom(AEmpty, ds, 1)

(* ---- what the property demands ---------------------------------------- *)
(* the first position whose code already occurred, 0 if none *)
FirstDup(ds) == LET D == {j \in DOMAIN ds : \E i \in 1..(j - 1) : ds[i].code = ds[j].code}
                IN IF D = {} THEN 0 ELSE CHOOSE j \in D : \A k \in D : j <= k
(* the declaration carrying code c, None if there is none *)
Lookup(ds, c) == IF \E i \in DOMAIN ds : ds[i].code = c
                 THEN ds[CHOOSE i \in DOMAIN ds : ds[i].code = c] ELSE None

(* refinement: the store as coded implements the lookup function and       *)
(* rejects exactly at the first duplicate                                  *)
StoreRefines(ds, universe) ==
    LET r == AParse(ds)
        k == FirstDup(ds) IN
    IF k # 0 THEN ~r.ok /\ r.at = k
    ELSE /\ r.ok
         /\ \A c \in universe \cup {<<>>} : AGet(r.st, c) = Lookup(ds, c)
         (* structural invariant of the split: vec holds codes 1..Len(vec) *)
         /\ \A i \in DOMAIN r.st.vec : CodeSmall(r.st.vec[i].code) /\ CodeVal(r.st.vec[i].code) = i
         /\ \A d \in r.st.map : ~(CodeSmall(d.code) /\ CodeVal(d.code) <= Len(r.st.vec))
=============================================================================
