----------------------------- MODULE DiesTrace -----------------------------
(***************************************************************************)
(* Trace validation for C02: traversals of large units recorded from       *)
(* gimli (random forests produced by gimli's own writer, the repository's  *)
(* self fixture) are replayed on the navigation machines of Dies.tla.      *)
(*                                                                         *)
(* Each unit starts with a `Unit` event carrying the token stream that     *)
(* EntriesRaw::read_entry reported for the whole unit.  It is a hint: the  *)
(* action checks that it is internally consistent (depths follow from      *)
(* nulls / has_children, offsets increase, every unit-reference            *)
(* DW_AT_sibling points just past the entry's subtree, and - for units     *)
(* built by the harness through gimli::write - the entries are the built   *)
(* forest in preorder with the built depths and tags).  Every later event  *)
(* (one per API call, in random interleavings of next_entry / next_dfs /   *)
(* next_sibling / clone, tree walks with early ascents and re-rooting,     *)
(* positioned starts, entry(offset)) must be exactly what the machine as   *)
(* coded does on that token table.                                         *)
(***************************************************************************)
EXTENDS Dies, Json, IOUtils
VARIABLES l, u, api, m
Rec == ndJsonDeserialize(IOEnv.TRACE)
IsEv(e) == l <= Len(Rec) /\ Rec[l].ev = e /\ l' = l + 1
T == Rec[u].toks
E == Rec[u].end

(* ---- hint consistency -------------------------------------------------- *)
RECURSIVE OffsIncr(_, _)
OffsIncr(X, i) == IF i >= Len(X) THEN TRUE ELSE X[i].off < X[i + 1].off /\ OffsIncr(X, i + 1)
RECURSIVE FirstNullAt(_, _, _)
FirstNullAt(X, j, d) == IF j > Len(X) THEN Len(X) + 1
                        ELSE IF X[j].k = "n" /\ X[j].d = d THEN j ELSE FirstNullAt(X, j + 1, d)
AfterSubD(X, i) == IF X[i].hc THEN FirstNullAt(X, i + 1, X[i].d + 1) + 1 ELSE i + 1
OffOf(X, end, j) == IF j <= Len(X) THEN X[j].off ELSE end
HintOk(r) ==
    LET X == r.toks IN
    /\ Len(X) >= 1 /\ X[1].off = r.root /\ X[Len(X)].off < r.end
    /\ DepthsOk(X, 1, 0) /\ OffsIncr(X, 1)
    /\ \A i \in DOMAIN X : (X[i].k = "n" => ~X[i].hc /\ X[i].sib = 0 /\ X[i].tag = 0)
    /\ \A i \in DOMAIN X : X[i].k = "e" /\ X[i].sib # 0 =>
          /\ AfterSubD(X, i) <= Len(X) + 1
          /\ X[i].sib = OffOf(X, r.end, AfterSubD(X, i))
    /\ (r.hasbuilt =>
          LET ents == SelectSeq(X, LAMBDA t : t.k = "e") IN
          /\ Len(ents) = Len(r.built)
          /\ \A j \in DOMAIN ents : ents[j].tag = r.built[j].tag /\ ents[j].d = r.built[j].d /\ ents[j].hc = r.built[j].hc
          /\ DAfter(X, Len(X)) = 0)

(* ---- observations ------------------------------------------------------ *)
EntOk(o, ent) == /\ o.off = ent.off /\ o.depth = ent.depth /\ o.tag = T[ent.i].tag /\ o.hc = T[ent.i].hc
                 /\ o.nattrs = T[ent.i].na
CurOk(o, c, ret) ==
    /\ o.ret = ret
    /\ o.curnull = c.cur.null
    /\ (~c.cur.null => EntOk(o.cur, c.cur))
    /\ o.noff = RNextOff(T, E, c.r) /\ o.ndepth = c.r.depth
    (* offset()/depth() are unspecified once the end of the unit was reported *)
    /\ (c.r.p > Len(T) /\ c.cur.null) \/ (o.off = c.cur.off /\ o.depth = c.cur.depth)

Unit == /\ IsEv("Unit") /\ HintOk(Rec[l]) /\ u' = l /\ api' = "none" /\ m' = 0
Open == /\ IsEv("Open") /\ UNCHANGED u
        /\ LET r == Rec[l]
               p == IF r.start = 0 THEN 1 ELSE r.start IN
           /\ p \in DOMAIN T /\ T[p].k = "e"
           /\ api' = r.api
           /\ m' = CASE r.api = "cursor" -> CInit(p) [] r.api = "tree" -> TInit(p) [] r.api = "raw" -> [p |-> p, depth |-> 0]
C == /\ IsEv("C") /\ api = "cursor" /\ UNCHANGED <<u, api>>
     /\ LET r == Rec[l] IN
        CASE r.op = "e" -> LET x == CNextEntry(T, m) IN m' = x.c /\ CurOk(r.obs, x.c, IF x.ret THEN "true" ELSE "false")
          [] r.op = "d" -> LET x == CNextDfs(T, m) IN m' = x.c /\ CurOk(r.obs, x.c, IF x.ret THEN "entry" ELSE "none")
          [] r.op = "s" -> LET x == CNextSibling(T, E, m) IN m' = x.c /\ CurOk(r.obs, x.c, IF x.ret THEN "entry" ELSE "none")
          [] r.op = "k" -> m' = m /\ CurOk(r.obs, m, "-")
TreeObsOk(o, t, ret) == IF ret THEN o.ret = "entry" /\ EntOk(o.ent, t.ent) ELSE o.ret = "none"
Tr == /\ IsEv("T") /\ api = "tree" /\ UNCHANGED <<u, api>>
      /\ LET r == Rec[l] IN
         CASE r.op = "R" -> LET x == TRoot(T, m) IN m' = x.t /\ TreeObsOk(r.obs, x.t, x.ok)
           [] r.op = "N" -> m.its # <<>> /\ LET x == TNextChild(T, E, m) IN m' = x.t /\ TreeObsOk(r.obs, x.t, x.ret)
           [] r.op = "D" -> m.live /\ m' = TDescend(m) /\ r.obs.ret = "-"
           [] r.op = "A" -> m.its # <<>> /\ m' = TAscend(m) /\ r.obs.ret = "-"
Rd == /\ IsEv("R") /\ api = "raw" /\ UNCHANGED <<u, api>>
      /\ m.p <= Len(T)
      /\ LET x == RRead(T, m)
             o == Rec[l].obs IN
         /\ m' = x.r
         /\ o.ret = (IF x.ent.null THEN "null" ELSE "entry")
         /\ o.off = x.ent.off /\ o.depth = x.ent.depth
         /\ o.entnull = x.ent.null
         /\ (~x.ent.null => EntOk(o.ent, x.ent))
         /\ o.noff = RNextOff(T, E, x.r) /\ o.ndepth = x.r.depth
(* UnitHeader::entry(offset) = entries_raw(Some(offset)) + read_entry; a null is NoEntryAtGivenOffset *)
Ent == /\ IsEv("E") /\ UNCHANGED <<u, api, m>>
       /\ LET r == Rec[l] IN
          /\ r.tok \in DOMAIN T
          /\ IF T[r.tok].k = "e"
             THEN r.obs.ret = "entry" /\ EntOk(r.obs.ent, [null |-> FALSE, off |-> T[r.tok].off, depth |-> 0, i |-> r.tok])
             ELSE r.obs.ret = "err"

Init == l = 1 /\ u = 0 /\ api = "none" /\ m = 0
Next == Unit \/ Open \/ C \/ Tr \/ Rd \/ Ent
Accepted == LET d == TLCGet("stats").diameter IN
            IF d - 1 = Len(Rec) THEN TRUE
            ELSE Print(<<"UNMATCHED", d, ToJson(IF Rec[d].ev = "Unit"
                                                   THEN [ev |-> "Unit", src |-> Rec[d].src, ntoks |-> Len(Rec[d].toks)]
                                                   ELSE Rec[d])>>, FALSE)
=============================================================================
