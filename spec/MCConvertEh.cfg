INIT Init
NEXT Next
INVARIANT Theorem
INVARIANT Emit
CHECK_DEADLOCK FALSE
CONSTANTS
  Modes = {"lsda", "pr", "combo"}
