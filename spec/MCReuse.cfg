INIT Init
NEXT Next
INVARIANT Inv
CHECK_DEADLOCK FALSE
CONSTANTS
  MaxUnits = 3
  MaxTok = 4
