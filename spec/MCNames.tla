------------------------------ MODULE MCNames ------------------------------
(* Bounded models of the DWARF 5 name index (.debug_names), C17.             *)
(*                                                                          *)
(* Mode "hash": bucket_count 0/1/2/3 x every bucket-sorted hash sequence of  *)
(*   up to MaxNames names over a hash universe with equal hashes, hashes      *)
(*   colliding modulo the bucket count, and a hash >= 2^31.  THEOREM: the     *)
(*   bucket walk and find_by_hash AS CODED equal the exhaustive scans of the  *)
(*   hash array (chains end at a foreign bucket or at the table end).         *)
(* Mode "raw": arbitrary bucket arrays over unsorted hashes (ill-formed):     *)
(*   the walk terminates; expectations are the walk as coded, and the scan    *)
(*   is emitted for the soundness comparison.                                 *)
(* Mode "pool": abbreviations with every supported form and DW_IDX kind,      *)
(*   entry series assembled from a menu of entries (<= MaxEntries in total),  *)
(*   parent references forming chains and cycles, CU / local TU / foreign TU  *)
(*   index resolution at and beyond the list ends, both offset formats and    *)
(*   byte orders.                                                             *)
(* Mode "abbr": abbreviation code assignment as an independent dimension:      *)
(*   every sequence of <= 3 codes (permutations of 1..n, sparse, 2-byte ULEB,   *)
(*   >= 2^32, duplicates) over abbreviations that differ in tag, attribute list *)
(*   and size; entries with every declared code and with the small codes 1..4.  *)
(* Mode "misc": hand-written descriptions (augmentation padding, several      *)
(*   indexes in one section, bad version, bad abbreviations, missing          *)
(*   terminators, explicit entry offsets).                                    *)
(* Mode "djb": the case-folding DJB hash on ASCII strings.                    *)
EXTENDS Lookup, TLC, Json
LOCAL SX == INSTANCE SequencesExt
CONSTANTS Mode, MaxNames, MaxEntries, DjbLen, PoolNames, RawLen, AbbrBig
VARIABLE c

H(n) == FromNat(n, 4)
HBig == <<3, 0, 0, 128>>
HU == {H(1), H(2), H(3), H(4), H(7), HBig}
HProbes == SX!SetToSeq(HU \cup {H(0), H(5)})

C(n) == FromNat(n, 8)                                  \* abbreviation codes are BV8
SimpleAbbrevs == << [code |-> C(1), tag |-> 46, attrs |-> <<[idx |-> 3, form |-> F_ref4]>>] >>
BaseNx == [fmt |-> 32, ver |-> 5, aug |-> <<>>, cus |-> <<11>>, ltus |-> <<>>, ftus |-> <<>>,
           bcount |-> 0, buckets |-> <<>>, hashes |-> <<>>, names |-> <<>>, abbrevs |-> SimpleAbbrevs,
           term |-> TRUE, abbrev_pad |-> <<>>, eoffs |-> <<>>]
P(n) == [v |-> FromNat(n, 8), to |-> <<0, 0>>]
SimpleName(i) == [stroff |-> 10 * i, series |-> << [code |-> C(1), vals |-> <<P(32 + i)>>] >>]

HashNx(B, hs, buckets, fmt) ==
    [BaseNx EXCEPT !.fmt = fmt, !.bcount = B, !.buckets = buckets, !.hashes = hs,
                   !.names = [i \in DOMAIN hs |-> SimpleName(i)]]

Case(nxs, le, tag, extra) ==
    [sys |-> "names", mode |-> tag, le |-> le, bytes |-> Flat([k \in DOMAIN nxs |-> EncNames(nxs[k], le)]),
     hash_probes |-> HProbes, exp |-> [k \in DOMAIN nxs |-> NamesExp(nxs[k], HProbes)], extra |-> extra]

(*------------------------------- hash -----------------------------------*)
HashInit == c \in {[m |-> "hash", B |-> B, hs |-> <<>>] : B \in 0..3}
HashNext == /\ Len(c.hs) < MaxNames
            /\ \E h \in (IF c.B = 0 THEN {H(1), H(2)} ELSE HU) :
                 /\ (c.B > 0 => SortedByBucket(Append(c.hs, h), c.B))
                 /\ c' = [c EXCEPT !.hs = Append(c.hs, h)]
HashTheorem(nx) ==
    /\ \A k \in DOMAIN HProbes :
         HashCoded(nx, HProbes[k]) = (IF nx.bcount = 0 THEN ErrAny ELSE [items |-> HashScan(nx, HProbes[k])])
    /\ \A b \in 0..(nx.bcount - 1) :
         LET r == BucketCoded(nx, b)
             sc == BucketScan(nx, b) IN
         IF sc = <<>> THEN r = [none |-> TRUE]
         ELSE r = [items |-> [k \in DOMAIN sc |-> [i |-> sc[k], h |-> nx.hashes[sc[k] + 1]]]]
HashInv == c.m = "hash" =>
    LET v  == (Len(c.hs) + c.B) % 4
        nx == HashNx(c.B, c.hs, BuildBuckets(c.hs, c.B), IF v < 2 THEN 32 ELSE 64) IN
    /\ HashTheorem(nx)
    /\ LET h == [fmt |-> nx.fmt, cus |-> nx.cus, bcount |-> nx.bcount, buckets |-> nx.buckets, hashes |-> nx.hashes,
                 stroffs |-> [i \in DOMAIN nx.names |-> nx.names[i].stroff],
                 dies |-> [i \in DOMAIN nx.names |-> FromNat(32 + i, 4)]] IN
       UniformNx(h) = nx /\ EncNamesUniform(h, v % 2 = 1) = EncNames(nx, v % 2 = 1)   \* the linear-time layout used by LookupTrace
    /\ PrintT(<<"CASE", ToJson(Case(<<nx>>, v % 2 = 0, "hash", [wf |-> TRUE]))>>)

(*-------------------------------- raw -----------------------------------*)
RawInit == c \in {[m |-> "raw", B |-> B, hs |-> <<>>, bk |-> <<>>] : B \in 1..2}
RawNext == \/ /\ c.bk = <<>> /\ Len(c.hs) < RawLen
              /\ \E h \in {H(1), H(2), H(3)} : c' = [c EXCEPT !.hs = Append(c.hs, h)]
           \/ /\ Len(c.bk) < c.B /\ Len(c.hs) > 0
              /\ \E s \in 0..(Len(c.hs) + 2) : c' = [c EXCEPT !.bk = Append(c.bk, s)]
RawScan(nx) == [k \in DOMAIN HProbes |-> HashScan(nx, HProbes[k])]
RawInv == (c.m = "raw" /\ Len(c.bk) = c.B) =>
    LET nx == HashNx(c.B, c.hs, c.bk, 32) IN
    PrintT(<<"CASE", ToJson(Case(<<nx>>, TRUE, "raw", [wf |-> FALSE, scan |-> RawScan(nx)]))>>)

(*-------------------------------- pool ----------------------------------*)
(* declared out of order (3, 130, 1, 5, 2, 6, 4, 1): an entry must be decoded with the abbreviation *)
(* that carries its code, not with the one at position code-1                                     *)
PoolAbbrevs == <<
  [code |-> C(3), tag |-> 22, attrs |-> <<[idx |-> 2, form |-> F_udata], [idx |-> 3, form |-> F_ref2], [idx |-> 5, form |-> F_data8]>>],
  [code |-> C(130), tag |-> 16649, attrs |-> <<[idx |-> 3, form |-> F_ref4], [idx |-> 4, form |-> F_ref1]>>],
  [code |-> C(1), tag |-> 46, attrs |-> <<[idx |-> 3, form |-> F_ref4], [idx |-> 4, form |-> F_ref4]>>],
  [code |-> C(5), tag |-> 57, attrs |-> <<[idx |-> 3, form |-> F_data4], [idx |-> 4, form |-> F_data1], [idx |-> 1, form |-> F_flag_present], [idx |-> 8192, form |-> F_ref8]>>],
  [code |-> C(2), tag |-> 19, attrs |-> <<[idx |-> 1, form |-> F_data1], [idx |-> 3, form |-> F_ref_udata], [idx |-> 4, form |-> F_flag_present]>>],
  [code |-> C(6), tag |-> 52, attrs |-> <<[idx |-> 3, form |-> 8]>>],
  [code |-> C(4), tag |-> 36, attrs |-> <<[idx |-> 1, form |-> F_data8], [idx |-> 2, form |-> F_data2], [idx |-> 3, form |-> F_ref1], [idx |-> 4, form |-> F_flag]>>],
  [code |-> C(1), tag |-> 99, attrs |-> <<>>] >>
N8(n) == FromNat(n, 8)
(* menu of entries; parent targets are symbolic: "prev" / "first" / "self" resolved by position *)
M(n) == [v |-> FromNat(n, 8), sym |-> ""]
MB(b) == [v |-> b, sym |-> ""]
MS(s) == [v |-> Zero(8), sym |-> s]
Menu == {
  [code |-> C(1), vals |-> <<M(48), MS("prev")>>],
  [code |-> C(1), vals |-> <<M(49), MS("first")>>],
  [code |-> C(2), vals |-> <<M(0), M(200), M(0)>>],
  [code |-> C(2), vals |-> <<M(2), M(3), M(0)>>],
  [code |-> C(3), vals |-> <<M(0), M(513), MB(<<1, 2, 3, 4, 5, 6, 7, 200>>)>>],
  [code |-> C(3), vals |-> <<M(1), M(7), M(9)>>],
  [code |-> C(3), vals |-> <<M(3), M(7), M(9)>>],
  [code |-> C(4), vals |-> <<MB(<<1, 0, 0, 0, 1, 0, 0, 0>>), M(2), M(255), M(0)>>],
  [code |-> C(4), vals |-> <<M(1), M(0), M(4), M(1)>>],
  [code |-> C(5), vals |-> <<M(77), M(1), M(0), M(5)>>],
  [code |-> C(6), vals |-> <<M(1)>>],
  [code |-> C(130), vals |-> <<M(66), MS("self")>>],
  [code |-> C(9), vals |-> <<>>] }
PoolNx(names, fmt) ==
    [BaseNx EXCEPT !.fmt = fmt, !.cus = <<11, 523>>, !.ltus = <<77>>, !.ftus = <<<<9, 8, 7, 6, 5, 4, 3, 200>>, <<1, 1, 1, 1, 1, 1, 1, 1>> >>,
                   !.names = names, !.abbrevs = PoolAbbrevs]
(* positions of all entries in pool order *)
Positions(names) == {p \in (1..MaxNames) \X (1..MaxEntries) : p[1] <= Len(names) /\ p[2] <= Len(names[p[1]].series)}
Before(p, q) == p[1] < q[1] \/ (p[1] = q[1] /\ p[2] < q[2])
PrevOf(names, p) == LET S == {q \in Positions(names) : Before(q, p)} IN
                    IF S = {} THEN p ELSE CHOOSE q \in S : \A r \in S : r = q \/ Before(r, q)
FirstOf(names) == CHOOSE q \in Positions(names) : \A r \in Positions(names) : r = q \/ Before(q, r)
ResolveSym(names) ==
    [i \in DOMAIN names |-> [names[i] EXCEPT !.series = [j \in DOMAIN names[i].series |->
        [names[i].series[j] EXCEPT !.vals = [k \in DOMAIN names[i].series[j].vals |->
            LET x == names[i].series[j].vals[k] IN
            [v |-> x.v,
             to |-> IF x.sym = "prev" THEN PrevOf(names, <<i, j>>)
                    ELSE IF x.sym = "first" THEN FirstOf(names)
                    ELSE IF x.sym = "self" THEN <<i, j>> ELSE <<0, 0>>]]]]]]
NEntries(names) == SumSeq([i \in DOMAIN names |-> Len(names[i].series)])
PoolInit == c = [m |-> "pool", names |-> <<>>]
PoolNext ==
    \/ /\ Len(c.names) < PoolNames
       /\ (c.names # <<>> => c.names[Len(c.names)].series # <<>> \/ Len(c.names) = 1)
       /\ c' = [c EXCEPT !.names = Append(c.names, [stroff |-> 5 * Len(c.names) + 1, series |-> <<>>])]
    \/ /\ c.names # <<>> /\ NEntries(c.names) < MaxEntries
       /\ \E e \in Menu : c' = [c EXCEPT !.names[Len(c.names)].series = Append(@, e)]
CodeSum(names) == SumSeq([i \in DOMAIN names |-> SumSeq([j \in DOMAIN names[i].series |-> names[i].series[j].code[1]])])
PoolInv == (c.m = "pool" /\ c.names # <<>>) =>
    LET v == (CodeSum(c.names) + Len(c.names)) % 4
        nx == PoolNx(ResolveSym(c.names), IF v < 2 THEN 32 ELSE 64) IN
    PrintT(<<"CASE", ToJson(Case(<<nx>>, v % 2 = 0, "pool", [wf |-> TRUE]))>>)

(*-------------------------------- abbr ----------------------------------*)
(* Abbreviation code assignment as an independent dimension: the k-th declared *)
(* abbreviation has shape k (shapes differ in tag, attribute list and size) and *)
(* ANY code of the universe: permutations of 1..n, sparse small codes, 2-byte   *)
(* ULEB codes, codes >= 2^32, duplicates.  Every declared code and the small    *)
(* codes 1..4 (declared or not) are used by an entry; each is followed by an    *)
(* entry with the first declared code, so a mis-sized decode is visible too.    *)
Shapes == << [tag |-> 46, attrs |-> <<[idx |-> 3, form |-> F_ref4]>>],
             [tag |-> 19, attrs |-> <<[idx |-> 1, form |-> F_data1], [idx |-> 3, form |-> F_ref2]>>],
             [tag |-> 22, attrs |-> <<[idx |-> 3, form |-> F_ref_udata], [idx |-> 5, form |-> F_data8], [idx |-> 4, form |-> F_flag_present]>>] >>
CodeU == IF AbbrBig THEN {C(1), C(2), C(3), C(4), C(128), C(300), <<1, 0, 0, 0, 1, 0, 0, 0>>, <<255, 255, 255, 255, 255, 255, 255, 255>>}
         ELSE {C(1), C(2), C(3), C(128), <<1, 0, 0, 0, 1, 0, 0, 0>>}
AbbrTable(codes) == [k \in DOMAIN codes |-> [code |-> codes[k], tag |-> Shapes[k].tag, attrs |-> Shapes[k].attrs]]
AbbrInit == c = [m |-> "abbr", codes |-> <<>>]
AbbrNext == Len(c.codes) < 3 /\ \E x \in CodeU : c' = [c EXCEPT !.codes = Append(c.codes, x)]
AbbrNx(codes) ==
    LET tbl == AbbrTable(codes)
        nx0 == [BaseNx EXCEPT !.cus = <<11, 523>>, !.abbrevs = tbl]
        probes == SX!SetToSeq(Range(codes) \cup {C(1), C(2), C(3), C(4)})
        EntryFor(code) == LET a == AbbrevOf(nx0, code) IN
            [code |-> code, vals |-> IF IsZero(a.code) THEN <<>> ELSE [k \in DOMAIN a.attrs |-> P(16 * k + 1)]] IN
    [nx0 EXCEPT !.names = [i \in DOMAIN probes |->
        [stroff |-> 7 * i, series |-> <<EntryFor(probes[i]), EntryFor(codes[1])>>]]]
(* design-level: an entry is decoded with the tag of the first abbreviation declared with its code *)
AbbrTheorem(codes) ==
    LET nx == AbbrNx(codes) IN
    \A i \in DOMAIN nx.names :
        LET e == nx.names[i].series[1]
            S == {k \in DOMAIN codes : codes[k] = e.code}
            o == EntryObs(nx, e, EntryOff(nx, i, 1)) IN
        IF S = {} THEN "err" \in DOMAIN o
        ELSE o.tag = Shapes[CHOOSE k \in S : \A j \in S : k <= j].tag
AbbrInv == (c.m = "abbr" /\ c.codes # <<>>) =>
    /\ AbbrTheorem(c.codes)
    /\ LET v == (Len(c.codes) + c.codes[1][1]) % 4 IN
       PrintT(<<"CASE", ToJson(Case(<<[AbbrNx(c.codes) EXCEPT !.fmt = IF v < 2 THEN 32 ELSE 64]>>, v % 2 = 0, "abbr", [wf |-> TRUE]))>>)

(*-------------------------------- misc ----------------------------------*)
TwoNames == <<SimpleName(1), [stroff |-> 3, series |-> << [code |-> C(1), vals |-> <<P(5)>>], [code |-> C(1), vals |-> <<P(6)>>] >>] >>
Hashed == [BaseNx EXCEPT !.bcount = 2, !.hashes = <<H(2), H(1)>>, !.buckets = <<1, 2>>, !.names = TwoNames]
AugOf(n) == [i \in 1..n |-> 64 + i]
BadAbbrev(tag, idx, form) == << [code |-> C(1), tag |-> tag, attrs |-> <<[idx |-> idx, form |-> form]>>] >>
MiscSet ==
    {<< [Hashed EXCEPT !.aug = AugOf(n), !.fmt = f] >> : n \in 0..5, f \in {32, 64}}
    \cup {<< [Hashed EXCEPT !.aug = AugOf(3)], [Hashed EXCEPT !.fmt = 64, !.cus = <<1, 2, 3>>], Hashed >>}    \* three indexes in a section
    \cup {<< Hashed, [Hashed EXCEPT !.ver = v], Hashed >> : v \in {4, 6}}                                     \* bad version ends the iteration
    \cup {<< [Hashed EXCEPT !.abbrevs = BadAbbrev(0, 3, F_ref4)] >>, << [Hashed EXCEPT !.abbrevs = BadAbbrev(46, 0, F_ref4)] >>,
          << [Hashed EXCEPT !.abbrevs = BadAbbrev(46, 3, 0)] >>}
    \cup {<< [Hashed EXCEPT !.term = FALSE, !.fmt = f] >> : f \in {32, 64}}                                    \* no final terminators
    \cup {<< [Hashed EXCEPT !.abbrev_pad = <<0, 0, 0>>] >>, << [Hashed EXCEPT !.abbrev_pad = <<7, 7>>] >>}        \* padding after the abbreviation terminator
    \cup {<< [Hashed EXCEPT !.eoffs = e] >> : e \in {<<5, 0>>, <<6, 11>>, <<11, 16>>, <<16, 17>>, <<0, 18>>}}       \* explicit entry offsets
    \cup {<< [BaseNx EXCEPT !.cus = <<>>] >>, << [BaseNx EXCEPT !.bcount = 2, !.buckets = <<0, 0>>] >>}         \* empty tables
MiscInit == c = [m |-> "misc", stage |-> 0]
MiscNext == c.stage = 0 /\ \E d \in MiscSet : \E le \in BOOLEAN : c' = [m |-> "misc", stage |-> 1, d |-> d, le |-> le]
MiscInv == (c.m = "misc" /\ c.stage = 1) => PrintT(<<"CASE", ToJson(Case(c.d, c.le, "misc", [wf |-> TRUE]))>>)

(*-------------------------------- djb -----------------------------------*)
Alpha == {65, 97, 90, 122, 64, 91, 48, 127, 32}
DjbInit == c = [m |-> "djb", s |-> <<>>]
DjbNext == Len(c.s) < DjbLen /\ \E b \in Alpha : c' = [c EXCEPT !.s = Append(c.s, b)]
Lower(s) == [i \in DOMAIN s |-> FoldAscii(s[i])]
RECURSIVE DjbNat(_, _, _)
DjbNat(s, i, h) == IF i > Len(s) THEN h ELSE DjbNat(s, i + 1, h * 33 + FoldAscii(s[i]))
DjbInv == c.m = "djb" =>
    /\ Djb(c.s) = Djb(Lower(c.s))
    /\ (Len(c.s) <= 3 => ToNat(Djb(c.s)) = DjbNat(c.s, 1, 5381))          \* no wrap for <= 3 characters
    /\ PrintT(<<"CASE", ToJson([sys |-> "djb", s |-> c.s, exp |-> Djb(c.s)])>>)

Modes == IF Mode = "all" THEN {"hash", "raw", "pool", "abbr", "misc", "djb"} ELSE {Mode}
Init == \/ "hash" \in Modes /\ HashInit
        \/ "raw"  \in Modes /\ RawInit
        \/ "pool" \in Modes /\ PoolInit
        \/ "abbr" \in Modes /\ AbbrInit
        \/ "misc" \in Modes /\ MiscInit
        \/ "djb"  \in Modes /\ DjbInit
Next == \/ c.m = "hash" /\ HashNext
        \/ c.m = "raw"  /\ RawNext
        \/ c.m = "pool" /\ PoolNext
        \/ c.m = "abbr" /\ AbbrNext
        \/ c.m = "misc" /\ MiscNext
        \/ c.m = "djb"  /\ DjbNext
Inv == HashInv /\ RawInv /\ PoolInv /\ AbbrInv /\ MiscInv /\ DjbInv
=============================================================================
