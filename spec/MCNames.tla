------------------------------ MODULE MCNames ------------------------------
(* Bounded models of the DWARF 5 name index (.debug_names), C17.             *)
(*                                                                          *)
(* Mode "hash": bucket_count 0/1/2/3 x every bucket-sorted hash sequence of  *)
(*   up to MaxNames names over a hash universe with equal hashes, hashes      *)
(*   colliding modulo the bucket count, and a hash >= 2^31.  THEOREM: the     *)
(*   bucket walk and find_by_hash AS CODED equal the exhaustive scans of the  *)
(*   hash array (chains end at a foreign bucket or at the table end).         *)
(* Mode "raw": arbitrary bucket arrays over unsorted hashes (ill-formed):     *)
(*   the walk terminates; expectations are the walk as coded, and the scan    *)
(*   is emitted for the soundness comparison.                                 *)
(* Mode "pool": abbreviations with every supported form and DW_IDX kind,      *)
(*   entry series assembled from a menu of entries (<= MaxEntries in total),  *)
(*   parent references forming chains and cycles, CU / local TU / foreign TU  *)
(*   index resolution at and beyond the list ends, both offset formats and    *)
(*   byte orders.                                                             *)
(* Mode "misc": hand-written descriptions (augmentation padding, several      *)
(*   indexes in one section, bad version, bad abbreviations, missing          *)
(*   terminators, explicit entry offsets).                                    *)
(* Mode "djb": the case-folding DJB hash on ASCII strings.                    *)
EXTENDS Lookup, TLC, Json
LOCAL SX == INSTANCE SequencesExt
CONSTANTS Mode, MaxNames, MaxEntries, DjbLen, PoolNames, RawLen
VARIABLE c

H(n) == FromNat(n, 4)
HBig == <<3, 0, 0, 128>>
HU == {H(1), H(2), H(3), H(4), H(7), HBig}
HProbes == SX!SetToSeq(HU \cup {H(0), H(5)})

SimpleAbbrevs == << [code |-> 1, tag |-> 46, attrs |-> <<[idx |-> 3, form |-> F_ref4]>>] >>
BaseNx == [fmt |-> 32, ver |-> 5, aug |-> <<>>, cus |-> <<11>>, ltus |-> <<>>, ftus |-> <<>>,
           bcount |-> 0, buckets |-> <<>>, hashes |-> <<>>, names |-> <<>>, abbrevs |-> SimpleAbbrevs,
           term |-> TRUE, abbrev_pad |-> <<>>, eoffs |-> <<>>]
P(n) == [v |-> FromNat(n, 8), to |-> <<0, 0>>]
SimpleName(i) == [stroff |-> 10 * i, series |-> << [code |-> 1, vals |-> <<P(32 + i)>>] >>]

HashNx(B, hs, buckets, fmt) ==
    [BaseNx EXCEPT !.fmt = fmt, !.bcount = B, !.buckets = buckets, !.hashes = hs,
                   !.names = [i \in DOMAIN hs |-> SimpleName(i)]]

Case(nxs, le, tag, extra) ==
    [sys |-> "names", mode |-> tag, le |-> le, bytes |-> Flat([k \in DOMAIN nxs |-> EncNames(nxs[k], le)]),
     hash_probes |-> HProbes, exp |-> [k \in DOMAIN nxs |-> NamesExp(nxs[k], HProbes)], extra |-> extra]

(*------------------------------- hash -----------------------------------*)
HashInit == c \in {[m |-> "hash", B |-> B, hs |-> <<>>] : B \in 0..3}
HashNext == /\ Len(c.hs) < MaxNames
            /\ \E h \in (IF c.B = 0 THEN {H(1), H(2)} ELSE HU) :
                 /\ (c.B > 0 => SortedByBucket(Append(c.hs, h), c.B))
                 /\ c' = [c EXCEPT !.hs = Append(c.hs, h)]
HashTheorem(nx) ==
    /\ \A k \in DOMAIN HProbes :
         HashCoded(nx, HProbes[k]) = (IF nx.bcount = 0 THEN ErrAny ELSE [items |-> HashScan(nx, HProbes[k])])
    /\ \A b \in 0..(nx.bcount - 1) :
         LET r == BucketCoded(nx, b)
             sc == BucketScan(nx, b) IN
         IF sc = <<>> THEN r = [none |-> TRUE]
         ELSE r = [items |-> [k \in DOMAIN sc |-> [i |-> sc[k], h |-> nx.hashes[sc[k] + 1]]]]
HashInv == c.m = "hash" =>
    LET v  == (Len(c.hs) + c.B) % 4
        nx == HashNx(c.B, c.hs, BuildBuckets(c.hs, c.B), IF v < 2 THEN 32 ELSE 64) IN
    /\ HashTheorem(nx)
    /\ LET h == [fmt |-> nx.fmt, cus |-> nx.cus, bcount |-> nx.bcount, buckets |-> nx.buckets, hashes |-> nx.hashes,
                 stroffs |-> [i \in DOMAIN nx.names |-> nx.names[i].stroff],
                 dies |-> [i \in DOMAIN nx.names |-> FromNat(32 + i, 4)]] IN
       UniformNx(h) = nx /\ EncNamesUniform(h, v % 2 = 1) = EncNames(nx, v % 2 = 1)   \* the linear-time layout used by LookupTrace
    /\ PrintT(<<"CASE", ToJson(Case(<<nx>>, v % 2 = 0, "hash", [wf |-> TRUE]))>>)

(*-------------------------------- raw -----------------------------------*)
RawInit == c \in {[m |-> "raw", B |-> B, hs |-> <<>>, bk |-> <<>>] : B \in 1..2}
RawNext == \/ /\ c.bk = <<>> /\ Len(c.hs) < RawLen
              /\ \E h \in {H(1), H(2), H(3)} : c' = [c EXCEPT !.hs = Append(c.hs, h)]
           \/ /\ Len(c.bk) < c.B /\ Len(c.hs) > 0
              /\ \E s \in 0..(Len(c.hs) + 2) : c' = [c EXCEPT !.bk = Append(c.bk, s)]
RawScan(nx) == [k \in DOMAIN HProbes |-> HashScan(nx, HProbes[k])]
RawInv == (c.m = "raw" /\ Len(c.bk) = c.B) =>
    LET nx == HashNx(c.B, c.hs, c.bk, 32) IN
    PrintT(<<"CASE", ToJson(Case(<<nx>>, TRUE, "raw", [wf |-> FALSE, scan |-> RawScan(nx)]))>>)

(*-------------------------------- pool ----------------------------------*)
PoolAbbrevs == <<
  [code |-> 1, tag |-> 46, attrs |-> <<[idx |-> 3, form |-> F_ref4], [idx |-> 4, form |-> F_ref4]>>],
  [code |-> 2, tag |-> 19, attrs |-> <<[idx |-> 1, form |-> F_data1], [idx |-> 3, form |-> F_ref_udata], [idx |-> 4, form |-> F_flag_present]>>],
  [code |-> 3, tag |-> 22, attrs |-> <<[idx |-> 2, form |-> F_udata], [idx |-> 3, form |-> F_ref2], [idx |-> 5, form |-> F_data8]>>],
  [code |-> 4, tag |-> 36, attrs |-> <<[idx |-> 1, form |-> F_data8], [idx |-> 2, form |-> F_data2], [idx |-> 3, form |-> F_ref1], [idx |-> 4, form |-> F_flag]>>],
  [code |-> 5, tag |-> 57, attrs |-> <<[idx |-> 3, form |-> F_data4], [idx |-> 4, form |-> F_data1], [idx |-> 1, form |-> F_flag_present], [idx |-> 8192, form |-> F_ref8]>>],
  [code |-> 6, tag |-> 52, attrs |-> <<[idx |-> 3, form |-> 8]>>],
  [code |-> 130, tag |-> 16649, attrs |-> <<[idx |-> 3, form |-> F_ref4], [idx |-> 4, form |-> F_ref1]>>],
  [code |-> 1, tag |-> 99, attrs |-> <<>>] >>
N8(n) == FromNat(n, 8)
(* menu of entries; parent targets are symbolic: "prev" / "first" / "self" resolved by position *)
M(n) == [v |-> FromNat(n, 8), sym |-> ""]
MB(b) == [v |-> b, sym |-> ""]
MS(s) == [v |-> Zero(8), sym |-> s]
Menu == {
  [code |-> 1, vals |-> <<M(48), MS("prev")>>],
  [code |-> 1, vals |-> <<M(49), MS("first")>>],
  [code |-> 2, vals |-> <<M(0), M(200), M(0)>>],
  [code |-> 2, vals |-> <<M(2), M(3), M(0)>>],
  [code |-> 3, vals |-> <<M(0), M(513), MB(<<1, 2, 3, 4, 5, 6, 7, 200>>)>>],
  [code |-> 3, vals |-> <<M(1), M(7), M(9)>>],
  [code |-> 3, vals |-> <<M(3), M(7), M(9)>>],
  [code |-> 4, vals |-> <<MB(<<1, 0, 0, 0, 1, 0, 0, 0>>), M(2), M(255), M(0)>>],
  [code |-> 4, vals |-> <<M(1), M(0), M(4), M(1)>>],
  [code |-> 5, vals |-> <<M(77), M(1), M(0), M(5)>>],
  [code |-> 6, vals |-> <<M(1)>>],
  [code |-> 130, vals |-> <<M(66), MS("self")>>],
  [code |-> 9, vals |-> <<>>] }
PoolNx(names, fmt) ==
    [BaseNx EXCEPT !.fmt = fmt, !.cus = <<11, 523>>, !.ltus = <<77>>, !.ftus = <<<<9, 8, 7, 6, 5, 4, 3, 200>>, <<1, 1, 1, 1, 1, 1, 1, 1>> >>,
                   !.names = names, !.abbrevs = PoolAbbrevs]
(* positions of all entries in pool order *)
Positions(names) == {p \in (1..MaxNames) \X (1..MaxEntries) : p[1] <= Len(names) /\ p[2] <= Len(names[p[1]].series)}
Before(p, q) == p[1] < q[1] \/ (p[1] = q[1] /\ p[2] < q[2])
PrevOf(names, p) == LET S == {q \in Positions(names) : Before(q, p)} IN
                    IF S = {} THEN p ELSE CHOOSE q \in S : \A r \in S : r = q \/ Before(r, q)
FirstOf(names) == CHOOSE q \in Positions(names) : \A r \in Positions(names) : r = q \/ Before(q, r)
ResolveSym(names) ==
    [i \in DOMAIN names |-> [names[i] EXCEPT !.series = [j \in DOMAIN names[i].series |->
        [names[i].series[j] EXCEPT !.vals = [k \in DOMAIN names[i].series[j].vals |->
            LET x == names[i].series[j].vals[k] IN
            [v |-> x.v,
             to |-> IF x.sym = "prev" THEN PrevOf(names, <<i, j>>)
                    ELSE IF x.sym = "first" THEN FirstOf(names)
                    ELSE IF x.sym = "self" THEN <<i, j>> ELSE <<0, 0>>]]]]]]
NEntries(names) == SumSeq([i \in DOMAIN names |-> Len(names[i].series)])
PoolInit == c = [m |-> "pool", names |-> <<>>]
PoolNext ==
    \/ /\ Len(c.names) < PoolNames
       /\ (c.names # <<>> => c.names[Len(c.names)].series # <<>> \/ Len(c.names) = 1)
       /\ c' = [c EXCEPT !.names = Append(c.names, [stroff |-> 5 * Len(c.names) + 1, series |-> <<>>])]
    \/ /\ c.names # <<>> /\ NEntries(c.names) < MaxEntries
       /\ \E e \in Menu : c' = [c EXCEPT !.names[Len(c.names)].series = Append(@, e)]
CodeSum(names) == SumSeq([i \in DOMAIN names |-> SumSeq([j \in DOMAIN names[i].series |-> names[i].series[j].code])])
PoolInv == (c.m = "pool" /\ c.names # <<>>) =>
    LET v == (CodeSum(c.names) + Len(c.names)) % 4
        nx == PoolNx(ResolveSym(c.names), IF v < 2 THEN 32 ELSE 64) IN
    PrintT(<<"CASE", ToJson(Case(<<nx>>, v % 2 = 0, "pool", [wf |-> TRUE]))>>)

(*-------------------------------- misc ----------------------------------*)
TwoNames == <<SimpleName(1), [stroff |-> 3, series |-> << [code |-> 1, vals |-> <<P(5)>>], [code |-> 1, vals |-> <<P(6)>>] >>] >>
Hashed == [BaseNx EXCEPT !.bcount = 2, !.hashes = <<H(2), H(1)>>, !.buckets = <<1, 2>>, !.names = TwoNames]
AugOf(n) == [i \in 1..n |-> 64 + i]
BadAbbrev(tag, idx, form) == << [code |-> 1, tag |-> tag, attrs |-> <<[idx |-> idx, form |-> form]>>] >>
MiscSet ==
    {<< [Hashed EXCEPT !.aug = AugOf(n), !.fmt = f] >> : n \in 0..5, f \in {32, 64}}
    \cup {<< [Hashed EXCEPT !.aug = AugOf(3)], [Hashed EXCEPT !.fmt = 64, !.cus = <<1, 2, 3>>], Hashed >>}    \* three indexes in a section
    \cup {<< Hashed, [Hashed EXCEPT !.ver = v], Hashed >> : v \in {4, 6}}                                     \* bad version ends the iteration
    \cup {<< [Hashed EXCEPT !.abbrevs = BadAbbrev(0, 3, F_ref4)] >>, << [Hashed EXCEPT !.abbrevs = BadAbbrev(46, 0, F_ref4)] >>,
          << [Hashed EXCEPT !.abbrevs = BadAbbrev(46, 3, 0)] >>}
    \cup {<< [Hashed EXCEPT !.term = FALSE, !.fmt = f] >> : f \in {32, 64}}                                    \* no final terminators
    \cup {<< [Hashed EXCEPT !.abbrev_pad = <<0, 0, 0>>] >>, << [Hashed EXCEPT !.abbrev_pad = <<7, 7>>] >>}        \* padding after the abbreviation terminator
    \cup {<< [Hashed EXCEPT !.eoffs = e] >> : e \in {<<5, 0>>, <<6, 11>>, <<11, 16>>, <<16, 17>>, <<0, 18>>}}       \* explicit entry offsets
    \cup {<< [BaseNx EXCEPT !.cus = <<>>] >>, << [BaseNx EXCEPT !.bcount = 2, !.buckets = <<0, 0>>] >>}         \* empty tables
MiscInit == c = [m |-> "misc", stage |-> 0]
MiscNext == c.stage = 0 /\ \E d \in MiscSet : \E le \in BOOLEAN : c' = [m |-> "misc", stage |-> 1, d |-> d, le |-> le]
MiscInv == (c.m = "misc" /\ c.stage = 1) => PrintT(<<"CASE", ToJson(Case(c.d, c.le, "misc", [wf |-> TRUE]))>>)

(*-------------------------------- djb -----------------------------------*)
Alpha == {65, 97, 90, 122, 64, 91, 48, 127, 32}
DjbInit == c = [m |-> "djb", s |-> <<>>]
DjbNext == Len(c.s) < DjbLen /\ \E b \in Alpha : c' = [c EXCEPT !.s = Append(c.s, b)]
Lower(s) == [i \in DOMAIN s |-> FoldAscii(s[i])]
RECURSIVE DjbNat(_, _, _)
DjbNat(s, i, h) == IF i > Len(s) THEN h ELSE DjbNat(s, i + 1, h * 33 + FoldAscii(s[i]))
DjbInv == c.m = "djb" =>
    /\ Djb(c.s) = Djb(Lower(c.s))
    /\ (Len(c.s) <= 3 => ToNat(Djb(c.s)) = DjbNat(c.s, 1, 5381))          \* no wrap for <= 3 characters
    /\ PrintT(<<"CASE", ToJson([sys |-> "djb", s |-> c.s, exp |-> Djb(c.s)])>>)

Modes == IF Mode = "all" THEN {"hash", "raw", "pool", "misc", "djb"} ELSE {Mode}
Init == \/ "hash" \in Modes /\ HashInit
        \/ "raw"  \in Modes /\ RawInit
        \/ "pool" \in Modes /\ PoolInit
        \/ "misc" \in Modes /\ MiscInit
        \/ "djb"  \in Modes /\ DjbInit
Next == \/ c.m = "hash" /\ HashNext
        \/ c.m = "raw"  /\ RawNext
        \/ c.m = "pool" /\ PoolNext
        \/ c.m = "misc" /\ MiscNext
        \/ c.m = "djb"  /\ DjbNext
Inv == HashInv /\ RawInv /\ PoolInv /\ MiscInv /\ DjbInv
=============================================================================
