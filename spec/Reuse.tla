------------------------------- MODULE Reuse -------------------------------
(***************************************************************************)
(* C20, DIE side: entry buffers, cursors, trees and the abbreviation cache *)
(* behave like fresh ones.  Minimal, self-contained encodings (DWARF 4,    *)
(* 32-bit, little endian; forms data1 / data2 / udata / flag_present; no   *)
(* DW_AT_sibling) - the full DIE model is Dies.tla (C02).                  *)
(*                                                                         *)
(* Machines as coded (src/read/unit.rs, src/read/abbrev.rs):               *)
(*  Abbreviations::parse  (empty input = end, tag 0, children byte, name / *)
(*     form zero, duplicate codes)                                         *)
(*  AbbreviationsCache::populate / get  (Duplicates keeps offsets used at  *)
(*     least twice, All keeps all; parse errors are cached too)            *)
(*  EntriesRaw::read_entry into a caller-owned buffer: depth and offset    *)
(*     are written first; an unknown code leaves tag / has_children /      *)
(*     attrs as they were; `attrs.clear()` precedes attribute parsing; a   *)
(*     null entry `set_null()`s                                            *)
(*  EntriesCursor::next_entry / next_dfs / next_sibling (cached_current,   *)
(*     input emptied and entry nulled on error)                            *)
(*  EntriesTree::root / next(depth) driven through children().next()      *)
(* Property: whatever a buffer / cursor / tree / cache was used for        *)
(* before, a successful read gives what fresh state gives.                 *)
(***************************************************************************)
EXTENDS CfiExec

(*------------------------- byte helpers ---------------------------------*)
Num(u) == ToNat(u.v)                       \* small LEB results
Uleb(b, p) == LET u == LebU(b, p) IN
              IF ~u.ok THEN u
              ELSE IF ~FitsNat(u.v) THEN [ok |-> FALSE, err |-> "BadUnsignedLeb128"]
              ELSE [ok |-> TRUE, n |-> ToNat(u.v), p |-> u.p]
U16LE(n) == <<n % 256, n \div 256>>
U32LE(n) == Trunc(Nat8(n), 4)

(*------------------------- abbreviations --------------------------------*)
FD1 == 11    \* DW_FORM_data1
FD2 == 5     \* DW_FORM_data2
FU  == 15    \* DW_FORM_udata
FFP == 25    \* DW_FORM_flag_present
Decl(code, tag, ch, attrs) == [code |-> code, tag |-> tag, ch |-> ch, attrs |-> attrs]
RECURSIVE EncAttrSpecs(_)
EncAttrSpecs(a) == IF a = <<>> THEN <<0, 0>> ELSE <<a[1][1], a[1][2]>> \o EncAttrSpecs(Tail(a))
EncDecl(d) == <<d.code, d.tag, IF d.ch THEN 1 ELSE 0>> \o EncAttrSpecs(d.attrs)
RECURSIVE EncTable(_)
EncTable(t) == IF t = <<>> THEN <<0>> ELSE EncDecl(Head(t)) \o EncTable(Tail(t))

(* AttributeSpecification::parse loop: [ok, attrs, p] *)
RECURSIVE ParseSpecs(_, _, _)
ParseSpecs(b, p, acc) ==
    LET n == Uleb(b, p) IN
    IF ~n.ok THEN n
    ELSE LET f == Uleb(b, n.p) IN
         IF ~f.ok THEN f
         ELSE IF n.n > 65535 \/ f.n > 65535 THEN [ok |-> FALSE, err |-> "BadUnsignedLeb128"]
         ELSE IF n.n = 0 /\ f.n = 0 THEN [ok |-> TRUE, attrs |-> acc, p |-> f.p]
         ELSE IF n.n = 0 THEN [ok |-> FALSE, err |-> "AttributeNameZero"]
         ELSE IF f.n = 0 THEN [ok |-> FALSE, err |-> "AttributeFormZero"]
         ELSE IF f.n = 33 THEN [ok |-> FALSE, err |-> "model:implicit_const"]     \* never generated
         ELSE ParseSpecs(b, f.p, Append(acc, <<n.n, f.n>>))
(* Abbreviations::parse from 1-based index p: [ok, decls] *)
RECURSIVE ParseTable(_, _, _)
ParseTable(b, p, acc) ==
    IF p > Len(b) THEN [ok |-> TRUE, decls |-> acc]                \* "recover from missing null terminator"
    ELSE LET c == Uleb(b, p) IN
         IF ~c.ok THEN c
         ELSE IF c.n = 0 THEN [ok |-> TRUE, decls |-> acc]
         ELSE LET t == Uleb(b, c.p) IN
              IF ~t.ok THEN t
              ELSE IF t.n > 65535 THEN [ok |-> FALSE, err |-> "BadUnsignedLeb128"]
              ELSE IF t.n = 0 THEN [ok |-> FALSE, err |-> "AbbreviationTagZero"]
              ELSE IF t.p > Len(b) THEN [ok |-> FALSE, err |-> "UnexpectedEof"]
              ELSE IF b[t.p] \notin {0, 1} THEN [ok |-> FALSE, err |-> "InvalidAbbreviationChildren"]
              ELSE LET a == ParseSpecs(b, t.p + 1, <<>>) IN
                   IF ~a.ok THEN a
                   ELSE IF \E j \in DOMAIN acc : acc[j].code = c.n THEN [ok |-> FALSE, err |-> "DuplicateAbbreviationCode"]
                   ELSE ParseTable(b, a.p, Append(acc, Decl(c.n, t.n, b[t.p] = 1, a.attrs)))
(* DebugAbbrev::abbreviations(offset): skip(offset) then parse *)
AbbrevsAt(sec, off) == IF off > Len(sec) THEN [ok |-> FALSE, err |-> "UnexpectedEof"] ELSE ParseTable(sec, off + 1, <<>>)
Lookup(decls, code) == IF \E j \in DOMAIN decls : decls[j].code = code
                       THEN [some |-> TRUE, d |-> decls[CHOOSE j \in DOMAIN decls : decls[j].code = code]]
                       ELSE [some |-> FALSE]
(* observable projection of a parse result through Abbreviations::get on probe codes *)
TableObs(r, probes) == IF ~r.ok THEN [ok |-> FALSE, err |-> r.err]
                       ELSE [ok |-> TRUE, get |-> [j \in DOMAIN probes |->
                                 LET l == Lookup(r.decls, probes[j]) IN
                                 IF l.some THEN [tag |-> l.d.tag, ch |-> l.d.ch, attrs |-> l.d.attrs] ELSE [none |-> TRUE]]]

(* AbbreviationsCache as coded: offsets of the units in section order *)
RECURSIVE CountOf(_, _)
CountOf(offs, o) == IF offs = <<>> THEN 0 ELSE (IF Head(offs) = o THEN 1 ELSE 0) + CountOf(Tail(offs), o)
CachedOffsets(strategy, offs) ==
    CASE strategy = "none" -> {}
      [] strategy = "dup"  -> {offs[j] : j \in {k \in DOMAIN offs : CountOf(offs, offs[k]) >= 2}}
      [] strategy = "all"  -> {offs[j] : j \in DOMAIN offs}
Populate(strategy, sec, offs) == [o \in CachedOffsets(strategy, offs) |-> AbbrevsAt(sec, o)]
CacheGet(cache, sec, o) == IF o \in DOMAIN cache THEN cache[o] ELSE AbbrevsAt(sec, o)
(* The cache object persists between calls.  As coded, `populate` assigns a *)
(* freshly collected map ("any existing cache entries are discarded"): what *)
(* an earlier populate / set left - possibly parsed from another            *)
(* .debug_abbrev - never survives.  `set` inserts Ok(table) at one offset.   *)
EmptyCache == <<>>
PopulateOn(cache, strategy, sec, offs) == Populate(strategy, sec, offs)
CacheSet(cache, o, decls) == [x \in DOMAIN cache \cup {o} |-> IF x = o THEN [ok |-> TRUE, decls |-> decls] ELSE cache[x]]

(*------------------------- units and entries ----------------------------*)
HeaderLen == 11
UnitBytes(abbrevoff, dies) == U32LE(7 + Len(dies)) \o U16LE(4) \o U32LE(abbrevoff) \o <<4>> \o dies

NullEntry == [tag |-> 0, ch |-> FALSE, attrs |-> <<>>, off |-> 0, depth |-> 0]
SetNull(e) == [e EXCEPT !.tag = 0, !.ch = FALSE, !.attrs = <<>>]

(* parse_attribute for the modelled forms at 1-based index p of the DIE bytes *)
ParseAttr(b, p, form) ==
    CASE form = FD1 -> IF p > Len(b) THEN [ok |-> FALSE, err |-> "UnexpectedEof"]
                       ELSE [ok |-> TRUE, v |-> [f |-> "d1", v |-> b[p]], p |-> p + 1]
      [] form = FD2 -> IF p + 1 > Len(b) THEN [ok |-> FALSE, err |-> "UnexpectedEof"]
                       ELSE [ok |-> TRUE, v |-> [f |-> "d2", v |-> b[p] + 256 * b[p + 1]], p |-> p + 2]
      [] form = FU  -> LET u == Uleb(b, p) IN
                       IF ~u.ok THEN u ELSE [ok |-> TRUE, v |-> [f |-> "u", v |-> u.n], p |-> u.p]
      [] form = FFP -> [ok |-> TRUE, v |-> [f |-> "fp"], p |-> p]
      [] OTHER -> [ok |-> FALSE, err |-> "model:form"]
(* read_attributes: attrs.clear() first; on error the vector holds what was pushed *)
RECURSIVE ReadAttrs(_, _, _, _)
ReadAttrs(b, p, specs, acc) ==
    IF specs = <<>> THEN [ok |-> TRUE, attrs |-> acc, p |-> p]
    ELSE LET a == ParseAttr(b, p, specs[1][2]) IN
         IF ~a.ok THEN [ok |-> FALSE, err |-> a.err, attrs |-> acc]
         ELSE ReadAttrs(b, a.p, Tail(specs), Append(acc, <<specs[1][1], a.v>>))

(* EntriesRaw: [pos (1-based index of the next byte), depth]; b = DIE bytes of the unit; *)
(* unit offset of index p is HeaderLen + p - 1.                                          *)
(* read_entry(raw, buf): [raw, buf, res] with res \in {"true", "false"} or an error name *)
RawRead(b, decls, raw, buf) ==
    LET b1 == [buf EXCEPT !.depth = raw.depth, !.off = HeaderLen + raw.pos - 1]
        c  == Uleb(b, raw.pos) IN
    IF ~c.ok THEN [raw |-> [raw EXCEPT !.pos = Len(b) + 1], buf |-> b1, res |-> c.err]     \* ran into the end
    ELSE IF c.n = 0 THEN [raw |-> [pos |-> c.p, depth |-> raw.depth - 1], buf |-> SetNull(b1), res |-> "false"]
    ELSE LET l == Lookup(decls, c.n) IN
         IF ~l.some THEN [raw |-> [raw EXCEPT !.pos = c.p], buf |-> b1, res |-> "InvalidAbbreviationCode"]
         ELSE LET r2 == [pos |-> c.p, depth |-> raw.depth + (IF l.d.ch THEN 1 ELSE 0)]
                  b2 == [b1 EXCEPT !.tag = l.d.tag, !.ch = l.d.ch]
                  a  == ReadAttrs(b, c.p, l.d.attrs, <<>>) IN
              IF a.ok THEN [raw |-> [r2 EXCEPT !.pos = a.p], buf |-> [b2 EXCEPT !.attrs = a.attrs], res |-> "true"]
              ELSE [raw |-> [r2 EXCEPT !.pos = Len(b) + 1], buf |-> [b2 EXCEPT !.attrs = a.attrs], res |-> a.err]
IsErr(res) == res \notin {"true", "false"}
RawEmpty(b, raw) == raw.pos > Len(b)

(* reading a whole stream into ONE buffer; each element [res, e] where e is the buffer after the call *)
RECURSIVE RawAll(_, _, _, _, _)
RawAll(b, decls, raw, buf, fuel) ==
    IF fuel = 0 \/ RawEmpty(b, raw) THEN <<>>
    ELSE LET r == RawRead(b, decls, raw, buf) IN
         <<[res |-> r.res, e |-> r.buf, fresh |-> RawRead(b, decls, raw, NullEntry).buf]>>
         \o (IF r.res \in {"UnexpectedEof", "BadUnsignedLeb128"} THEN <<>> ELSE RawAll(b, decls, r.raw, r.buf, fuel - 1))
(* the property for buffers: a successful read leaves exactly what a fresh buffer holds *)
BufferOk(seq) == \A j \in DOMAIN seq : ~IsErr(seq[j].res) => seq[j].e = seq[j].fresh

(* EntriesCursor: [raw, cur] *)
NewCursor == [raw |-> [pos |-> 1, depth |-> 0], cur |-> NullEntry]
NextEntry(b, decls, cu) ==
    IF RawEmpty(b, cu.raw) THEN [cu |-> [cu EXCEPT !.cur = SetNull(@)], res |-> "false"]
    ELSE LET r == RawRead(b, decls, cu.raw, cu.cur) IN
         IF IsErr(r.res) THEN [cu |-> [raw |-> [r.raw EXCEPT !.pos = Len(b) + 1], cur |-> SetNull(r.buf)], res |-> r.res]
         ELSE [cu |-> [raw |-> r.raw, cur |-> r.buf], res |-> "true"]
CurObs(cu) == IF cu.cur.tag = 0 THEN [null |-> TRUE, off |-> cu.cur.off, depth |-> cu.cur.depth] ELSE cu.cur
RECURSIVE NextDfs(_, _, _)
NextDfs(b, decls, cu) == LET n == NextEntry(b, decls, cu) IN
                         IF n.res = "true" /\ n.cu.cur.tag = 0 THEN NextDfs(b, decls, n.cu) ELSE n
RECURSIVE SibLoop(_, _, _, _)
SibLoop(b, decls, cu, d0) == LET n == NextEntry(b, decls, cu) IN
                             IF n.res # "true" THEN n
                             ELSE IF n.cu.cur.depth = d0 THEN n ELSE SibLoop(b, decls, n.cu, d0)
NextSibling(b, decls, cu) == IF cu.cur.tag = 0 THEN [cu |-> cu, res |-> "false"] ELSE SibLoop(b, decls, cu, cu.cur.depth)

(* drive a cursor operation to the end: list of [res, cur] *)
RECURSIVE Drive(_, _, _, _, _)
Drive(b, decls, cu, op, fuel) ==
    IF fuel = 0 THEN <<>>
    ELSE LET n == CASE op = "entry" -> NextEntry(b, decls, cu)
                    [] op = "dfs" -> NextDfs(b, decls, cu)
                    [] op = "sib" -> NextSibling(b, decls, cu)
             (* next_sibling returns `self.current()`: None when it stopped on the terminating null *)
             api == IF op = "sib" /\ n.res = "true" /\ n.cu.cur.tag = 0 THEN "false" ELSE n.res IN
         <<[res |-> api, cur |-> CurObs(n.cu)]>>
         \o (IF api = "true" THEN Drive(b, decls, n.cu, op, fuel - 1) ELSE <<>>)
RECURSIVE Advance(_, _, _, _)
Advance(b, decls, cu, k) == IF k = 0 THEN cu
                            ELSE LET n == NextEntry(b, decls, cu) IN Advance(b, decls, n.cu, k - 1)

(* EntriesTree: [raw, e]; the root input is the whole DIE stream *)
NewTree == [raw |-> [pos |-> 1, depth |-> 0], e |-> NullEntry]
TreeRoot(b, decls, t) ==
    LET r == RawRead(b, decls, [pos |-> 1, depth |-> 0], t.e) IN
    IF IsErr(r.res) THEN [t |-> [raw |-> r.raw, e |-> r.buf], res |-> r.res]
    ELSE IF r.res = "false" THEN [t |-> [raw |-> r.raw, e |-> r.buf], res |-> "NoEntryAtGivenOffset"]
    ELSE [t |-> [raw |-> r.raw, e |-> r.buf], res |-> "true"]
TreeFail(b, r) == [t |-> [raw |-> [r.raw EXCEPT !.pos = Len(b) + 1], e |-> SetNull(r.buf)], res |-> r.res]
RECURSIVE TreeScan(_, _, _, _)
TreeScan(b, decls, t, depth) ==
    IF RawEmpty(b, t.raw) THEN [t |-> [t EXCEPT !.e = SetNull(@)], res |-> "false"]
    ELSE LET r == RawRead(b, decls, t.raw, t.e) IN
         IF IsErr(r.res) THEN TreeFail(b, r)
         ELSE IF r.buf.depth = depth THEN [t |-> [raw |-> r.raw, e |-> r.buf], res |-> r.res]
         ELSE TreeScan(b, decls, [raw |-> r.raw, e |-> r.buf], depth)
(* EntriesTree::next(depth) (no DW_AT_sibling in this model) *)
TreeNext(b, decls, t, depth) ==
    IF t.e.depth < depth THEN
        IF ~t.e.ch THEN [t |-> t, res |-> "false"]
        ELSE IF RawEmpty(b, t.raw) THEN [t |-> [t EXCEPT !.e = SetNull(@)], res |-> "false"]
        ELSE LET r == RawRead(b, decls, t.raw, t.e) IN
             IF IsErr(r.res) THEN TreeFail(b, r) ELSE [t |-> [raw |-> r.raw, e |-> r.buf], res |-> r.res]
    ELSE TreeScan(b, decls, t, depth)

(* the recursive traversal every user writes: visit node, then its children; `budget` = *)
(* number of nodes after which the traversal is abandoned (partial traversal)           *)
RECURSIVE Visit(_, _, _, _, _, _)
RECURSIVE Kids(_, _, _, _, _, _)
(* result [t, out, left, st] with st \in {"ok", "stop"} or an error name *)
Visit(b, decls, t, depth, out, left) ==
    IF left = 0 THEN [t |-> t, out |-> out, left |-> 0, st |-> "stop"]
    ELSE Kids(b, decls, t, depth, Append(out, t.e), left - 1)
Kids(b, decls, t, depth, out, left) ==
    LET n == TreeNext(b, decls, t, depth) IN
    IF n.res = "false" THEN [t |-> n.t, out |-> out, left |-> left, st |-> "ok"]
    ELSE IF n.res # "true" THEN [t |-> n.t, out |-> out, left |-> left, st |-> n.res]
    ELSE LET v == Visit(b, decls, n.t, depth + 1, out, left) IN
         IF v.st # "ok" THEN v ELSE Kids(b, decls, v.t, depth, v.out, v.left)
Traverse(b, decls, t, budget) ==
    LET r == TreeRoot(b, decls, t) IN
    IF r.res # "true" THEN [t |-> r.t, out |-> <<>>, left |-> budget, st |-> r.res]
    ELSE Visit(b, decls, r.t, 1, <<>>, budget)
=============================================================================
