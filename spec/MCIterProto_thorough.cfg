SPECIFICATION Spec
INVARIANT TypeOK
INVARIANT Fused
INVARIANT Bounded
PROPERTY FusedAct
PROPERTY Refines
PROPERTY Terminates
CHECK_DEADLOCK FALSE
CONSTANTS
  Fams = {"bytes", "cooked", "count", "chain"}
  MaxN = 7
  MaxM = 8
  MaxF = 1
  LemmaRuns = 3
  LemmaV = 4
