INIT Init
NEXT Next
INVARIANT Inv
CHECK_DEADLOCK FALSE
CONSTANTS
  MaxLen = 4
  FullLen = 2
  MidLen = 3
  MaxLists = 3
