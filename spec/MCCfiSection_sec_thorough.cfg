INIT Init
NEXT Next
INVARIANT Inv
CHECK_DEADLOCK FALSE
CONSTANTS
  Fam = "sec"
  MaxTab = 6
  FullTab = 6
  AgreeTab = 6
  MaxLen = 4
  Dups = FALSE
  Slim = FALSE
