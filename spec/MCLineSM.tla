----------------------------- MODULE MCLineSM -----------------------------
(* Bounded models of the line-number machine (C04), address size 1 so that *)
(* every address is enumerable (0..255, tombstones at 0xfe/0xff):          *)
(*  prog : every program of length <= FullLen over the full instruction    *)
(*         alphabet and <= CoreLen over the core alphabet, per header      *)
(*         tuple;                                                          *)
(*  opc  : every opcode byte 0..255 as the first instruction, followed by  *)
(*         fixed operand tails, after fixed prefixes, per header tuple;    *)
(*  hdr  : header tables (v2-4 NUL-terminated; v5 entry formats of length  *)
(*         <= FmtLen over all valid content-type/form pairs);              *)
(*  wide : address sizes 2/4/8 around the top of the address space;        *)
(*  seq  : directed multi-sequence programs: every concatenation of up to  *)
(*         3 sequence templates (live rows / live rows then a tombstone or *)
(*         lower address / a sequence entirely at a tombstone address / a  *)
(*         bare end_sequence), the last one optionally without its         *)
(*         end_sequence, for header tuples 1, 3, 5 (these programs are     *)
(*         longer than the exhaustive length bound of `prog`).             *)
(* One state = one program; the invariant checks the design-level lemmas   *)
(* (Dec o Enc = id, as coded = DWARF machine on well-formed programs,      *)
(* monotone / in-range addresses for every program, sequences consistent)  *)
(* and prints one replay case with the expected observation.               *)
EXTENDS LineSM, Json
CONSTANTS FullLen, CoreLen, OpcLen, FmtLen, WideLen, Tuples, Modes
VARIABLES m, h, p

Str(s) == s     \* byte strings are written as tuples of bytes
U64Max == Ones(8)
I64Max == <<255, 255, 255, 255, 255, 255, 255, 127>>

HT == <<
 [ver |-> 4, fmt |-> 32, asz |-> 1, le |-> TRUE,  mil |-> 1,   maxops |-> 1,   dis |-> TRUE,
  lbase |-> 0 - 3,   lrange |-> 12,  obase |-> 13,  oplens |-> StdLens],
 [ver |-> 4, fmt |-> 32, asz |-> 1, le |-> FALSE, mil |-> 4,   maxops |-> 4,   dis |-> FALSE,
  lbase |-> 0 - 128, lrange |-> 255, obase |-> 10,  oplens |-> SubSeq(StdLens, 1, 9)],
 [ver |-> 5, fmt |-> 32, asz |-> 1, le |-> TRUE,  mil |-> 2,   maxops |-> 4,   dis |-> TRUE,
  lbase |-> 0,       lrange |-> 1,   obase |-> 20,  oplens |-> StdLens \o <<0, 1, 2, 3, 0, 1, 5>>],
 [ver |-> 2, fmt |-> 32, asz |-> 1, le |-> TRUE,  mil |-> 255, maxops |-> 1,   dis |-> FALSE,
  lbase |-> 127,     lrange |-> 12,  obase |-> 1,   oplens |-> <<>>],
 [ver |-> 3, fmt |-> 64, asz |-> 1, le |-> TRUE,  mil |-> 1,   maxops |-> 1,   dis |-> TRUE,
  lbase |-> 0 - 5,   lrange |-> 14,  obase |-> 40,  oplens |-> StdLens \o [k \in 1..27 |-> k % 4]],
 [ver |-> 5, fmt |-> 64, asz |-> 1, le |-> FALSE, mil |-> 3,   maxops |-> 255, dis |-> FALSE,
  lbase |-> 0 - 1,   lrange |-> 4,   obase |-> 13,  oplens |-> StdLens],
 (* 7: only used by the opcode sweep: every opcode but 255 is a standard opcode *)
 [ver |-> 4, fmt |-> 32, asz |-> 1, le |-> TRUE,  mil |-> 1,   maxops |-> 2,   dis |-> TRUE,
  lbase |-> 0 - 5,   lrange |-> 14,  obase |-> 255, oplens |-> StdLens \o [k \in 1..242 |-> k % 4]]
>>

(* fixed small tables for the program models *)
TabV4 == [dirs |-> <<<<100>>>>, files |-> <<<<<<97>>, Nat8(1), Nat8(2), Nat8(3)>>, <<<<98, 99>>, Z8, Z8, Z8>>>>]
TabV5 == [dfmt |-> <<<<Nat8(LNCT_path), F_string>>>>, dirs |-> <<<<<<100>>>>, <<<<101>>>>>>,
          ffmt |-> <<<<Nat8(LNCT_path), F_string>>, <<Nat8(LNCT_dir), F_udata>>>>,
          files |-> <<<<<<97>>, Z8>>, <<<<98, 99>>, Nat8(1)>>>>]
Tab(H) == IF H.ver <= 4 THEN TabV4 ELSE TabV5

(*------------------------------------------------------------------------*)
(* Instruction alphabet: [ins, pad]                                        *)
Sym(ins) == [ins |-> ins, pad |-> <<>>]
SymP(ins, pad) == [ins |-> ins, pad |-> pad]
Min(a, b) == IF a < b THEN a ELSE b

CoreSyms(H) == {
    Sym(I0("copy")),
    Sym(ISpecial(Min(255, H.obase + H.lrange))),          \* operation advance 1 (or clipped)
    Sym(IV("advance_pc", Nat8(1))),
    Sym(IV("advance_line", FromInt(0 - 1, 8))),
    Sym(I0("const_add_pc")),
    Sym(IV("fixed_advance_pc", Nat8(3))),
    Sym(I0("end_sequence")),
    Sym(IV("set_address", Nat8(16))),
    Sym(IV("set_address", Nat8(8))),
    Sym(IV("set_address", Nat8(254))),
    Sym(I0("negate_stmt")),
    Sym(IV("set_discriminator", Nat8(9))) }

FullSyms(H) == CoreSyms(H) \cup {
    Sym(ISpecial(H.obase)), Sym(ISpecial(255)), Sym(ISpecial(Min(255, H.obase + 2 * H.lrange + 1))),
    Sym(IV("advance_pc", U64Max)), Sym(IV("advance_pc", Nat8(100))),
    Sym(IV("advance_line", I64Max)), Sym(IV("advance_line", FromInt(300, 8))),
    Sym(IV("set_file", U64Max)), Sym(IV("set_column", Nat8(5))),
    Sym(I0("set_basic_block")), Sym(IV("fixed_advance_pc", Nat8(65535))),
    Sym(I0("set_prologue_end")), Sym(I0("set_epilogue_begin")), Sym(IV("set_isa", Nat8(7))),
    SymP(I0("end_sequence"), <<7>>), SymP(IV("set_address", Nat8(253)), <<1, 2>>),
    Sym(IV("set_address", Nat8(255))), Sym(IV("set_address", Z8)),
    Sym(IDefFile(<<120>>, Nat8(1), U64Max, Nat8(128))),
    Sym(IUnkExt(128, <<1, 2>>)), Sym(IUnkExt(3, <<5>>)),
    Sym(IUnkStd0(13)), Sym(IUnkStd1(14, Nat8(200))), Sym(IUnkStdN(15, <<129, 0, 2>>)),
    Sym(IUnkStdN(19, <<1, 2, 3, 4, 255, 127>>)),
    Sym(IUnkStd1(13, U64Max)), Sym(IUnkStdN(38, <<0, 0>>)), Sym(IUnkStd0(16)) }

(* a symbol together with its encoding under H (computed once) *)
WithBytes(H, s) == [ins |-> s.ins, pad |-> s.pad, bytes |-> Enc(H, s.ins, s.pad)]
Core(H) == {WithBytes(H, s) : s \in {t \in CoreSyms(H) : Encodable(H, t.ins)}}
Full(H) == {WithBytes(H, s) : s \in {t \in FullSyms(H) : Encodable(H, t.ins)}}
(* evaluated once (constant level): the alphabets, headers and table       *)
(* meanings per header tuple                                               *)
CoreT == TLCEval([k \in 1..Len(HT) |-> Core(HT[k])])
FullT == TLCEval([k \in 1..Len(HT) |-> Full(HT[k])])
HdrT == TLCEval([k \in 1..Len(HT) |-> EncHeaderBody(HT[k], Tab(HT[k]))])

ProgBytes(q) == Flatten([k \in 1..Len(q) |-> q[k].bytes])

(*------------------------------------------------------------------------*)
(* Expected observation of a section made of one unit.  L = DecodeAll(H,b), *)
(* S = Run(H, L), D = StdRun(H, L), RR = ResumedRuns(H, L, S) are computed  *)
(* once per case; TM = TabMeaning(H, T) once per header.                    *)
TabMeaning(H, T) ==
    [hdr |-> [ver |-> H.ver, fmt |-> H.fmt, asz |-> H.asz, mil |-> H.mil, maxops |-> H.maxops, dis |-> H.dis,
              lbase |-> H.lbase, lrange |-> H.lrange, obase |-> H.obase, oplens |-> H.oplens],
     dirs |-> DirMeanings(H, T), files |-> FileMeanings(H, T)]
TabT == TLCEval([k \in 1..Len(HT) |-> TabMeaning(HT[k], Tab(HT[k]))])

Exp(TM, S, D, RR) ==
    [hdr |-> TM.hdr, wf |-> D.wf, end |-> S.end, rows |-> S.rows, dirs |-> TM.dirs, files0 |-> TM.files,
     files |-> TM.files \o [k \in 1..Len(S.files) |-> FileMeaningDef(S.files[k])],
     seqs |-> [k \in 1..Len(RR) |-> [start |-> S.seqs[k].start, end |-> S.seqs[k].end, rows |-> RR[k].rows]]]

(* design-level lemmas on one program *)
Lemmas(H, S, D, RR) ==
    /\ AsCodedEqualsStd(S, D)
    /\ Monotone(S.rows) /\ InRange(S.rows, H.asz)
    /\ (\A k \in 1..Len(RR) : Monotone(RR[k].rows) /\ InRange(RR[k].rows, H.asz))
    /\ SequencesConsistent(S, RR)

(* hdr = EncHeaderBody(H, T), TM = TabMeaning(H, T), b = program bytes *)
Check(kind, H, hdr, TM, b) ==
    \E L \in {DecodeAll(H, b)} : \E S \in {Run(H, L)} : \E D \in {StdRun(H, L)} :
    \E RR \in {ResumedRuns(H, L, S)} :
       /\ Lemmas(H, S, D, RR)
       /\ PrintT(<<"CASE", ToJson([sys |-> kind, le |-> H.le, asz |-> H.asz, sect |-> EncUnit(H, hdr, b),
                                   prog |-> b, exp |-> Exp(TM, S, D, RR)])>>)

(*------------------------------------------------------------------------*)
(* prog *)
InitProg == h \in Tuples /\ p = <<>>
NextProg ==
    /\ UNCHANGED <<m, h>>
    /\ \/ Len(p) < FullLen /\ \E s \in FullT[h] : p' = Append(p, s)
       \/ Len(p) >= FullLen /\ Len(p) < CoreLen /\ (\A k \in DOMAIN p : p[k] \in CoreT[h])
          /\ \E s \in CoreT[h] : p' = Append(p, s)
(* Dec o Enc = identity on every symbol; checked when the symbol is appended *)
RoundTrip(H, s) == Dec(H, s.bytes, 1) = DecOk(s.ins, Len(s.bytes))
InvProg == \E H \in {HT[h]} : \E b \in {ProgBytes(p)} :
           /\ (p # <<>> => RoundTrip(H, p[Len(p)]))
           /\ Check("prog", H, HdrT[h], TabT[h], b)

(*------------------------------------------------------------------------*)
(* opc: p = <<prefix index, opcode byte, tail index>>; OpcLen (1..3) =       *)
(* number of prefixes used; all tails when OpcLen >= 2                     *)
Prefixes(H) == << <<>>, Enc(H, IV("set_address", Nat8(32)), <<>>) \o Enc(H, IV("set_discriminator", Nat8(3)), <<>>),
                  Enc(H, IV("set_address", Nat8(255)), <<>>) >>
Tails == << <<>>, <<131, 1, 5, 129, 0, 2, 1, 1>>, <<255, 255, 255, 255, 255, 255, 255, 255, 255, 1, 1>>,
            <<128>>, <<2, 1, 0, 1, 1>> >>
PrefixT == TLCEval([k \in 1..Len(HT) |-> Prefixes(HT[k])])
InitOpc == h \in Tuples \cup {7} /\ p = <<>>
NextOpc == /\ UNCHANGED <<m, h>> /\ p = <<>>
           /\ \E i \in 1..OpcLen : \E o \in 0..255 :
              \E t \in (IF OpcLen >= 2 THEN 1..Len(Tails) ELSE {2, 3, 4}) : p' = <<i, o, t>>
InvOpc == p # <<>> =>
           \E H \in {HT[h]} : \E b \in {PrefixT[h][p[1]] \o <<p[2]>> \o Tails[p[3]]} :
           Check("opc", H, HdrT[h], TabT[h], b)

(*------------------------------------------------------------------------*)
(* wide: address sizes 2, 4, 8 *)
WideH(asz, ver, le, fmt) == [ver |-> ver, fmt |-> fmt, asz |-> asz, le |-> le, mil |-> 1, maxops |-> 1, dis |-> TRUE,
                             lbase |-> 0 - 5, lrange |-> 14, obase |-> 13, oplens |-> StdLens]
WideHT == <<WideH(2, 4, TRUE, 32), WideH(4, 3, FALSE, 32), WideH(8, 5, TRUE, 64), WideH(8, 4, FALSE, 32),
            [WideH(4, 5, TRUE, 32) EXCEPT !.maxops = 3, !.mil = 2], WideH(2, 5, FALSE, 64)>>
Top(asz, d) == ZExt(Sub(Zero(asz), FromNat(d, asz)), 8)      \* 2^(8 asz) - d
WideSyms(H) == {
    Sym(I0("copy")), Sym(ISpecial(255)), Sym(I0("const_add_pc")), Sym(I0("end_sequence")),
    Sym(IV("set_address", Top(H.asz, 1))), Sym(IV("set_address", Top(H.asz, 2))),
    Sym(IV("set_address", Top(H.asz, 3))), Sym(IV("set_address", Top(H.asz, 20))),
    Sym(IV("set_address", ZExt(<<1>> \o Zero(H.asz - 2) \o <<128>>, 8))),
    Sym(IV("advance_pc", Nat8(17))), Sym(IV("advance_pc", Top(H.asz, 20))), Sym(IV("advance_pc", U64Max)),
    Sym(IV("fixed_advance_pc", Nat8(65535))), Sym(IV("fixed_advance_pc", Nat8(17))) }
InitWide == h \in 1..Len(WideHT) /\ p = <<>>
WideT == TLCEval([k \in 1..Len(WideHT) |-> {WithBytes(WideHT[k], s) : s \in WideSyms(WideHT[k])}])
WideHdrT == TLCEval([k \in 1..Len(WideHT) |-> EncHeaderBody(WideHT[k], Tab(WideHT[k]))])
WideTabT == TLCEval([k \in 1..Len(WideHT) |-> TabMeaning(WideHT[k], Tab(WideHT[k]))])
NextWide == UNCHANGED <<m, h>> /\ Len(p) < WideLen /\ \E s \in WideT[h] : p' = Append(p, s)
InvWide == \E H \in {WideHT[h]} : \E b \in {ProgBytes(p)} :
           /\ (p # <<>> => RoundTrip(H, p[Len(p)]))
           /\ Check("wide", H, WideHdrT[h], WideTabT[h], b)

(*------------------------------------------------------------------------*)
(* hdr: p = <<>> | [T |-> tables]; a fixed short program follows.          *)
HdrH(ver, fmt, le) == [ver |-> ver, fmt |-> fmt, asz |-> 1, le |-> le, mil |-> 1, maxops |-> 1, dis |-> TRUE,
                       lbase |-> 0 - 5, lrange |-> 14, obase |-> 13, oplens |-> StdLens]
HdrHT == <<HdrH(2, 32, TRUE), HdrH(3, 64, FALSE), HdrH(4, 32, FALSE), HdrH(5, 32, TRUE), HdrH(5, 64, FALSE)>>
HdrProg(H) == Enc(H, IV("set_file", Nat8(2)), <<>>) \o Enc(H, I0("copy"), <<>>) \o Enc(H, I0("end_sequence"), <<>>)

Names == {<<97>>, <<98, 99, 47, 100>>}
Nums == {Z8, Nat8(1), Nat8(128), U64Max}
V4Dirs == {<<>>, <<<<100>>>>, <<<<100>>, <<101, 47>>>>}
V4Files == {<<>>} \cup {<<<<n, d, t, s>>>> : n \in Names, d \in {Z8, Nat8(2)}, t \in Nums, s \in Nums}
           \cup {<<<<<<97>>, Nat8(1), Z8, Nat8(5)>>, <<<<97>>, U64Max, Nat8(127), Z8>>>>}

(* v5: the pool of (content type, form) pairs that DWARF 5 section 6.2.4.1  *)
(* allows, plus vendor / unknown content types which a reader must skip    *)
CT(hi, lo) == Add(Nat8(hi), Nat8(lo))
PathForms == {F_string, F_line_strp, F_strp, F_strp_sup, F_strx, F_strx1, F_strx2, F_strx3, F_strx4}
Pool == {<<Nat8(LNCT_path), f>> : f \in PathForms}
        \cup {<<Nat8(LNCT_dir), f>> : f \in {F_data1, F_data2, F_udata}}
        \cup {<<Nat8(LNCT_time), f>> : f \in {F_udata, F_data4, F_data8, F_block}}
        \cup {<<Nat8(LNCT_size), f>> : f \in {F_udata, F_data1, F_data2, F_data4, F_data8}}
        \cup {<<Nat8(LNCT_md5), F_data16>>}
        \cup {<<Nat8(LNCT_source), f>> : f \in {F_string, F_line_strp}}
        \* unknown content types: the field is parsed by its form and ignored.  Small unknown codes
        \* (6, 7), the vendor range 0x2000 (lo_user) / 0x3fff (hi_user), and codes >= 0x10000 -- also
        \* above 2^32 -- whose low 16 bits alias every known code (path 1, directory_index 2,
        \* timestamp 3, size 4, MD5 5, LLVM_source 0x2001): they must NOT be mistaken for those
        \cup {<<Nat8(6), F_flag>>, <<Nat8(7), F_block2>>, <<Nat8(8192), F_sdata>>, <<Nat8(16383), F_sec_offset>>,
              <<CT(65536, 0), F_block1>>, <<CT(65536, 1), F_string>>, <<CT(65536, 2), F_udata>>,
              <<CT(65536, 3), F_data4>>, <<CT(65536, 4), F_data1>>, <<CT(65536, 5), F_data16>>,
              <<CT(65536, 8193), F_string>>,
              <<<<2, 0, 0, 0, 1, 0, 0, 0>>, F_udata>>,              \* 2^32 + 2
              <<<<1, 0, 0, 0, 0, 1, 0, 0>>, F_block4>>}            \* 2^40 + 1
IsPath(e) == e[1] = Nat8(LNCT_path)
Formats == {f \in UNION {[1..n -> Pool] : n \in 1..FmtLen} :
              Cardinality({k \in DOMAIN f : IsPath(f[k])}) = 1}
(* sample value number v (1 or 2) for a form *)
Val(form, v) ==
    CASE form = F_string -> IF v = 1 THEN <<97, 47, 98>> ELSE <<>>
      [] form \in OffsetForms -> IF v = 1 THEN Nat8(17) ELSE <<239, 190, 173, 222, 1, 2, 3, 4>>
      [] form \in {F_udata, F_strx} -> IF v = 1 THEN Nat8(3) ELSE U64Max
      [] form = F_sdata -> IF v = 1 THEN Nat8(5) ELSE FromInt(0 - 2, 8)
      [] form \in {F_data1, F_strx1, F_flag} -> IF v = 1 THEN Nat8(1) ELSE Nat8(255)
      [] form \in {F_data2, F_strx2} -> IF v = 1 THEN Nat8(2) ELSE Nat8(65535)
      [] form = F_strx3 -> IF v = 1 THEN Nat8(2) ELSE <<1, 2, 255, 0, 0, 0, 0, 0>>
      [] form \in {F_data4, F_strx4} -> IF v = 1 THEN Nat8(4) ELSE <<0, 0, 0, 128, 0, 0, 0, 0>>
      [] form = F_data8 -> IF v = 1 THEN Nat8(8) ELSE U64Max
      [] form = F_data16 -> IF v = 1 THEN [i \in 1..16 |-> i] ELSE [i \in 1..16 |-> 255]
      [] form \in {F_block, F_block1, F_block2, F_block4} -> IF v = 1 THEN <<1, 2, 3>> ELSE <<>>
Entry(fmt, v) == [k \in 1..Len(fmt) |-> Val(fmt[k][2], v)]
SimpleFmt == <<<<Nat8(LNCT_path), F_string>>>>

InitHdr == h \in 1..Len(HdrHT) /\ p = <<>>
NextHdr ==
    /\ UNCHANGED <<m, h>> /\ p = <<>>
    /\ IF HdrHT[h].ver <= 4
       THEN \E d \in V4Dirs : \E f \in V4Files : p' = [T |-> [dirs |-> d, files |-> f]]
       ELSE \/ \E f \in Formats : \E n \in 0..2 :       \* file entry formats
                 p' = [T |-> [dfmt |-> SimpleFmt, dirs |-> <<<<<<100>>>>>>, ffmt |-> f,
                              files |-> [k \in 1..n |-> Entry(f, k)]]]
            \/ \E f \in Formats : \E n \in 1..2 :       \* directory entry formats
                 p' = [T |-> [dfmt |-> f, dirs |-> [k \in 1..n |-> Entry(f, k)], ffmt |-> SimpleFmt,
                              files |-> <<<<<<97>>>>>>]]
InvHdr == p # <<>> =>
           \E H \in {HdrHT[h]} : \E b \in {HdrProg(HdrHT[h])} :
           /\ (H.ver >= 5 => FormatOk(p.T.dfmt) /\ FormatOk(p.T.ffmt))
           /\ \E hdr \in {EncHeaderBody(H, p.T)} : \E TM \in {TabMeaning(H, p.T)} : Check("hdr", H, hdr, TM, b)

(*------------------------------------------------------------------------*)
(* seq: p = sequence of template ids; ids 1..NT are closed by end_sequence, *)
(* ids NT+1..2NT are the same templates without it (only as last element). *)
SA(a) == IV("set_address", Nat8(a))
CP == I0("copy")
AP == IV("advance_pc", Nat8(1))
ES == I0("end_sequence")
SeqTemplates == <<
    <<SA(0), CP>>,                                   \* live at 0
    <<SA(16), CP, AP, CP>>,                          \* live, two rows
    <<SA(200), CP>>,
    <<SA(16), CP, SA(8), CP>>,                       \* live, then a lower address (tombstone mode), a swallowed row
    <<SA(16), CP, AP, CP, SA(255)>>,                 \* live, then -1
    <<SA(200), CP, SA(254), CP>>,                    \* live, then -2
    <<SA(0), CP, SA(255), CP>>,
    <<SA(255), CP, AP, CP>>,                         \* entirely at a tombstone address
    <<SA(254), CP, AP, CP>>,
    <<>> >>                                          \* nothing: a bare end_sequence (two in a row)
NT == Len(SeqTemplates)
SeqTuples == {1, 3, 5}
TemplateBytes(H, k) ==
    LET t == SeqTemplates[IF k > NT THEN k - NT ELSE k]
        q == IF k > NT THEN t ELSE Append(t, ES) IN
    Flatten([j \in 1..Len(q) |-> Enc(H, q[j], <<>>)])
SeqT == TLCEval([k \in 1..Len(HT) |-> IF k \in SeqTuples THEN [j \in 1..2 * NT |-> TemplateBytes(HT[k], j)] ELSE <<>>])
InitSeq == h \in (Tuples \cap SeqTuples) /\ p = <<>>
NextSeq == /\ UNCHANGED <<m, h>> /\ Len(p) < 3 /\ (IF p = <<>> THEN TRUE ELSE p[Len(p)] <= NT)
           /\ \E k \in 1..2 * NT :
                /\ (k > NT => k # 2 * NT /\ (Len(p) + 1 <= 2 \/ CoreLen >= 4))    \* open variants: short, or thorough
                /\ p' = Append(p, k)
InvSeq == p # <<>> =>
          \E H \in {HT[h]} : \E b \in {Flatten([j \in 1..Len(p) |-> SeqT[h][p[j]]])} :
          Check("seq", H, HdrT[h], TabT[h], b)

(*------------------------------------------------------------------------*)
(* all models in one run: m selects the model *)
Init == \E md \in Modes : m = md /\ CASE md = "prog" -> InitProg [] md = "opc" -> InitOpc
                                          [] md = "wide" -> InitWide [] md = "hdr" -> InitHdr
                                          [] md = "seq" -> InitSeq
Next == CASE m = "prog" -> NextProg [] m = "opc" -> NextOpc [] m = "wide" -> NextWide [] m = "hdr" -> NextHdr
          [] m = "seq" -> NextSeq
Inv == CASE m = "prog" -> InvProg [] m = "opc" -> InvOpc [] m = "wide" -> InvWide [] m = "hdr" -> InvHdr
         [] m = "seq" -> InvSeq
=============================================================================
