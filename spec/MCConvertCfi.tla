---------------------------- MODULE MCConvertCfi ----------------------------
(***************************************************************************)
(* Bounded exploration of CFI conversion (C12): every FDE instruction      *)
(* sequence of at most MaxLen instructions over the alphabet of `Slice`,   *)
(* for every CIE parameter tuple in `Cafs` x `Dafs` x `Vers` x `Lens`.     *)
(* For each sequence TLC checks ConvertCfi!MeaningPreserved (the           *)
(* conversion as coded either fails or keeps the unwind function) and      *)
(* emits a replay case: the encoded CIE/FDE fields, whether conversion /   *)
(* writing must fail as coded, and the unwind meaning of the input.        *)
(*                                                                         *)
(* Slices                                                                  *)
(*  "code": advance_loc in every width at the width and u32 boundaries,    *)
(*          next to a few state-changing instructions; exercises           *)
(*          delta * code_alignment_factor accumulation into u32            *)
(*  "data": every offset-carrying instruction with boundary operands       *)
(*          (0, 8, 2^31-1, 2^31, 2^32+8, factored offsets whose product    *)
(*          leaves i32 / i64, args_size 2^32), register rules, remember /  *)
(*          restore, expressions, set_loc, nop                             *)
(*  "regs": offset / restore / rule instructions on registers 0, 62..65,   *)
(*          the boundary of the one-byte opcode forms                      *)
(* Factors are given in the cfg as naturals: Cafs \subseteq 0..65535; the   *)
(* cfg syntax has no negative numbers, so Dafs holds daf + 1000.           *)
(***************************************************************************)
EXTENDS ConvertCfi, Json
CONSTANTS MaxLen, Slice, Cafs, Dafs, Vers, Lens
VARIABLES cs, cf, done

P31m1  == <<255, 255, 255, 127, 0, 0, 0, 0>>      \*  2^31 - 1
P31    == <<0, 0, 0, 128, 0, 0, 0, 0>>            \*  2^31
P32m1  == <<255, 255, 255, 255, 0, 0, 0, 0>>      \*  2^32 - 1
P32    == <<0, 0, 0, 0, 1, 0, 0, 0>>              \*  2^32
P32p8  == <<8, 0, 0, 0, 1, 0, 0, 0>>              \*  2^32 + 8
P60    == <<0, 0, 0, 0, 0, 0, 0, 16>>             \*  2^60
P63    == <<0, 0, 0, 0, 0, 0, 0, 128>>            \*  2^63 (as u64)
M31    == I32Min                                  \* -2^31
M31m1  == <<255, 255, 255, 127, 255, 255, 255, 255>>  \* -2^31 - 1

E1 == [bytes |-> <<119, 8>>,                      \* DW_OP_breg7 8
       ops |-> <<[k |-> "breg", reg |-> 7, off |-> B(8), base |-> [unit |-> -2, idx |-> -2]]>>]
E2 == [bytes |-> <<146, 70, 120, 6>>,             \* DW_OP_bregx 70 -8; DW_OP_deref
       ops |-> <<[k |-> "breg", reg |-> 70, off |-> I(-8), base |-> [unit |-> -2, idx |-> -2]],
                 [k |-> "deref", size |-> 8, space |-> FALSE, base |-> [unit |-> -2, idx |-> -2]]>>]

Adv(w, d) == [op |-> "advance", w |-> w, d |-> d]
Code == {
  Adv(0, B(0)), Adv(0, B(1)), Adv(0, B(63)), Adv(1, B(64)), Adv(1, B(255)), Adv(2, B(256)), Adv(2, B(65535)),
  Adv(4, B(65536)), Adv(4, P31), Adv(4, P32m1),
  [op |-> "def_cfa_offset", v |-> B(16)], [op |-> "offset", r |-> 3, v |-> B(2)],
  [op |-> "remember_state"], [op |-> "restore_state"], [op |-> "nop"],
  [op |-> "set_loc", a |-> <<0, 32, 0, 0, 0, 0, 0, 0>>] }

Data == {
  Adv(0, B(4)),
  [op |-> "def_cfa", r |-> 7, v |-> B(0)], [op |-> "def_cfa", r |-> 6, v |-> B(8)], [op |-> "def_cfa", r |-> 7, v |-> P31m1],
  [op |-> "def_cfa", r |-> 7, v |-> P31], [op |-> "def_cfa", r |-> 7, v |-> P32p8],
  [op |-> "def_cfa_sf", r |-> 7, v |-> I(-1)], [op |-> "def_cfa_sf", r |-> 70, v |-> B(2)], [op |-> "def_cfa_sf", r |-> 7, v |-> P31m1],
  [op |-> "def_cfa_sf", r |-> 7, v |-> M31], [op |-> "def_cfa_sf", r |-> 7, v |-> P31], [op |-> "def_cfa_sf", r |-> 7, v |-> P60],
  [op |-> "def_cfa_register", r |-> 6],
  [op |-> "def_cfa_offset", v |-> B(24)], [op |-> "def_cfa_offset", v |-> P31], [op |-> "def_cfa_offset", v |-> P32p8],
  [op |-> "def_cfa_offset_sf", v |-> I(-2)], [op |-> "def_cfa_offset_sf", v |-> P31m1], [op |-> "def_cfa_offset_sf", v |-> M31m1],
  [op |-> "def_cfa_expression", x |-> E1],
  [op |-> "offset", r |-> 3, v |-> B(2)], [op |-> "offset", r |-> 16, v |-> B(0)], [op |-> "offset", r |-> 3, v |-> P31m1],
  [op |-> "offset", r |-> 3, v |-> P32p8], [op |-> "offset", r |-> 3, v |-> P63],
  [op |-> "offset_extended", r |-> 70, v |-> B(3)],
  [op |-> "offset_extended_sf", r |-> 3, v |-> I(-1)], [op |-> "offset_extended_sf", r |-> 70, v |-> M31], [op |-> "offset_extended_sf", r |-> 3, v |-> P60],
  [op |-> "val_offset", r |-> 3, v |-> B(2)], [op |-> "val_offset", r |-> 3, v |-> P31],
  [op |-> "val_offset_sf", r |-> 3, v |-> I(-3)], [op |-> "val_offset_sf", r |-> 3, v |-> P31m1],
  [op |-> "restore", r |-> 16], [op |-> "restore", r |-> 3], [op |-> "restore_extended", r |-> 70],
  [op |-> "undefined", r |-> 16], [op |-> "same_value", r |-> 3], [op |-> "register", r |-> 3, s |-> 70],
  [op |-> "expression", r |-> 3, x |-> E1], [op |-> "val_expression", r |-> 70, x |-> E2],
  [op |-> "remember_state"], [op |-> "restore_state"],
  [op |-> "args_size", v |-> B(16)], [op |-> "args_size", v |-> P32m1], [op |-> "args_size", v |-> P32],
  [op |-> "set_loc", a |-> <<0, 32, 0, 0, 0, 0, 0, 0>>], [op |-> "nop"] }

(* register numbers at the boundary of the one-byte forms (DW_CFA_offset /     *)
(* DW_CFA_restore hold registers 0..63 in the opcode): the writer has to pick  *)
(* the extended form from 64 on.  Input short forms only exist for r < 64.     *)
Regs == {
  Adv(0, B(2)),
  [op |-> "offset", r |-> 0, v |-> B(3)], [op |-> "offset", r |-> 62, v |-> B(2)], [op |-> "offset", r |-> 63, v |-> B(2)],
  [op |-> "offset_extended", r |-> 63, v |-> B(4)], [op |-> "offset_extended", r |-> 64, v |-> B(2)],
  [op |-> "offset_extended", r |-> 65, v |-> B(2)], [op |-> "offset_extended_sf", r |-> 64, v |-> I(-1)],
  [op |-> "restore", r |-> 0], [op |-> "restore", r |-> 63],
  [op |-> "restore_extended", r |-> 0], [op |-> "restore_extended", r |-> 63], [op |-> "restore_extended", r |-> 64],
  [op |-> "restore_extended", r |-> 65],
  [op |-> "val_offset", r |-> 64, v |-> B(2)], [op |-> "undefined", r |-> 64], [op |-> "same_value", r |-> 63],
  [op |-> "register", r |-> 64, s |-> 63] }

Alphabet == CASE Slice = "code" -> Code [] Slice = "regs" -> Regs [] OTHER -> Data

(* the CIE establishes CFA = r7 + 8 and the return address rule *)
CieIns == <<[op |-> "def_cfa", r |-> 7, v |-> B(8)], [op |-> "offset", r |-> 16, v |-> B(1)]>>

Cfg(caf, daf, ver, len) ==
    [caf |-> B(caf), cafn |-> caf, daf |-> I(daf - 1000), dafn |-> daf - 1000, ver |-> ver, ra |-> 16,
     start |-> <<0, 16, 0, 0, 0, 0, 0, 0>>,                       \* 0x1000
     len |-> IF len = "u32max" THEN P32m1 ELSE IF len = "2^32" THEN P32 ELSE B(256)]

Init == /\ cs = <<>> /\ done = FALSE
        /\ cf \in {Cfg(a, d, v, n) : a \in Cafs, d \in Dafs, v \in Vers, n \in Lens}
Next == /\ ~done
        /\ \/ /\ Len(cs) < MaxLen
              /\ \E k \in Alphabet : cs' = Append(cs, k)
              /\ UNCHANGED <<cf, done>>
           \/ /\ done' = TRUE /\ UNCHANGED <<cs, cf>>

WF == WellFormed(cf, CieIns, cs)

Theorem == (done /\ WF) => MeaningPreserved(cf, CieIns, cs)

Desc(i) == i.op

(* The fast operators against BV.tla / Leb.tla on every operand that occurs *)
(* in the alphabets and configurations (evaluated once, in the `done` state   *)
(* of the empty sequence: run with MaxLen = 0).                              *)
Operands == {P31m1, P31, P32m1, P32, P32p8, P60, P63, M31, M31m1, Z8, B(1), B(8), B(63), B(64), B(127), B(128),
             B(255), B(256), B(65535), B(65536), I(-1), I(-2), I(-3), I(-8), I(-64), I(-65), I(-128), I(-129),
             <<255, 255, 255, 255, 255, 255, 255, 127>>, <<0, 0, 0, 0, 0, 0, 0, 128>>, <<1, 2, 3, 4, 5, 6, 7, 8>>}
Factors == {0, 1, 2, 4, 8, 127, 128, 129, 255, 256, 65535}
Lemma == done =>
    /\ \A v \in Operands : ULeb64(v) = EncU(v) /\ SLeb64(v) = EncS(v)
    /\ \A v, w \in Operands : /\ Add64(v, w) = Add(v, w) /\ Sub64(v, w) = Sub(v, w)
                               /\ ULt64(v, w) = ULt(v, w) /\ (Add64c(v, w, 0).c = 1) = AddOverflows(v, w)
    /\ \A v \in Operands : Neg64(v) = Neg(v)
    /\ \A v \in Operands, k \in Factors :
          /\ MulK(v, k) = Trunc(Mul(ZExt(v, 16), FromNat(k, 16)), 11)
          /\ ((k # 0 /\ v \in {P32p8, P63, M31m1, B(65535)}) => ModSmall(v, k) = ToNat(UMod(v, FromNat(k, 8))))
          /\ \A sg \in {1, -1} : (k <= 32767) =>
                LET c == [cafn |-> k, dafn |-> sg * k]
                    p == Mul(SExt(v, 16), FromInt(sg * k, 16)) IN
                /\ MulS(v, c) = [ok |-> p = SExt(Trunc(p, 8), 16), v |-> Trunc(p, 8)]
                /\ WMulDaf(v, c) = Trunc(p, 8)

Emit == (done /\ WF) =>
    LET conv == ConvOk(cf, CieIns, cs)
        wd == conv /\ WriteOk(cf, CieIns, cs, FALSE)
        we == conv /\ WriteOk(cf, CieIns, cs, TRUE)
    IN PrintT(<<"CASE", ToJson(
        [sys |-> "convert", what |-> "frame", base |-> "cfi", ver |-> cf.ver,
         caf |-> ULeb64(cf.caf), daf |-> SLeb64(cf.daf),
         ra |-> IF cf.ver = 1 THEN <<cf.ra>> ELSE ULeb64(B(cf.ra)),
         cie_ins |-> EncProg(CieIns), start |-> cf.start, len |-> cf.len, fde_ins |-> EncProg(cs),
         desc |-> [j \in DOMAIN cs |-> Desc(cs[j])],
         exp |-> [convert_fails |-> ~conv, debug_fails |-> ~wd, eh_fails |-> ~we,
                  unwind |-> RefUnwind(cf, CieIns, cs)]])>>)
=============================================================================
