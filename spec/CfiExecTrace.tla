--------------------------- MODULE CfiExecTrace ---------------------------
(***************************************************************************)
(* Trace validation for CfiExec (C06, C20): every event recorded from      *)
(* gimli's UnwindContext / UnwindTable must be a step of the machine as    *)
(* coded, and every completed table must equal the reference semantics.    *)
(*                                                                         *)
(*  NewCtx  storage, maxrows, maxrules      UnwindContext::new_in()        *)
(*  Rows    storage, cfg, cie, fde (+bytes) fde.rows(.., ctx) on the       *)
(*          *existing* context of that storage: the model context carries  *)
(*          whatever earlier evaluations left in it and only `reset()`s    *)
(*          inside initialize, exactly as the code (history independence,  *)
(*          C20, is therefore validated on every recorded history)         *)
(*  NextRow res = row | none | err          table.next_row()               *)
(*                                                                         *)
(* The instruction lists are hints taken from gimli's public               *)
(* `instructions()` iterators.  With `check` they are validated against    *)
(* the TLA+ decoder on the recorded bytes (DecodeAll(bytes) = hints); for  *)
(* the corpus (.eh_frame with pointer encodings) they are trusted.         *)
(***************************************************************************)
EXTENDS CfiExec, Json, IOUtils
VARIABLES l, ctxs, cur
Rec == ndJsonDeserialize(IOEnv.TRACE)

IsEv(e) == l <= Len(Rec) /\ Rec[l].ev = e /\ l' = l + 1

(* error kinds the property fixes must match exactly; the others only as "an error" *)
FixedErr == {"StackFull", "TooManyRegisterRules", "CfiInstructionInInvalidContext"}
ErrMatch(exp, got) == exp = got \/ (exp \notin FixedErr /\ got \notin FixedErr /\ got \notin {"ok", "end", "none", "row"})

NewCtxEv == IsEv("NewCtx") /\ LET r == Rec[l] IN
    /\ ctxs' = [ctxs EXCEPT ![r.storage] = NewCtx(r.maxrows, r.maxrules)]
    /\ UNCHANGED cur

RowsEv == IsEv("Rows") /\ LET r == Rec[l]
                              t == TableNew(ctxs[r.storage], r.cfg, r.cie, r.fde) IN
    /\ r.check => /\ DecodeAll(r.cieb, r.cieoff, r.cfg.asz, r.cfg.le, r.cfg.vendor) = r.cie
                  /\ DecodeAll(r.fdeb, r.fdeoff, r.cfg.asz, r.cfg.le, r.cfg.vendor) = r.fde
    /\ IF t.st = "err" THEN ErrMatch(t.err, r.init) ELSE r.init = "ok"
    (* the machine on this (possibly dirty, possibly small) context against the reference *)
    /\ LET full == IF t.st = "err" THEN t ELSE Drain(t)
           ref  == RRun(r.cfg, r.cie, r.fde) IN
       /\ Refines(full, [ref EXCEPT !.st = IF @ = "none" THEN "none" ELSE @])
       /\ ~HitLimit(full) => Obs(full) = RObs(ref)
    /\ ctxs' = [ctxs EXCEPT ![r.storage] = t]
    /\ cur' = r.storage

RowMatches(row, j) ==
    /\ j.start = row.start /\ j.end = row.end /\ j.args = row.args /\ j.cfa = row.cfa
    /\ Len(j.rules) = Len(row.rules)
    /\ {<<j.rules[i][1], j.rules[i][2]>> : i \in DOMAIN j.rules} = RuleSet(row.rules)

NextRowEv == IsEv("NextRow") /\ LET r == Rec[l]
                                    n == NextRow(ctxs[cur]) IN
    /\ CASE r.res = "row"  -> n.st = "row" /\ RowMatches(Top(n), r.row)
         [] r.res = "none" -> n.st = "none"
         [] r.res = "err"  -> n.st = "err" /\ ErrMatch(n.err, r.err)
    /\ ctxs' = [ctxs EXCEPT ![cur] = n]
    /\ UNCHANGED cur

Init == l = 1 /\ ctxs = [s \in {"s22", "s31", "heap", "vec"} |-> NewCtx(1, 1)] /\ cur = "heap"
Next == NewCtxEv \/ RowsEv \/ NextRowEv
Accepted == LET d == TLCGet("stats").diameter IN
            IF d - 1 = Len(Rec) THEN TRUE
            ELSE Print(<<"UNMATCHED", d, ToJson(Rec[d])>>, FALSE)
=============================================================================
