INIT Init
NEXT Next
INVARIANT Inv
CHECK_DEADLOCK FALSE
CONSTANTS
  Mode = "all"
  Big = FALSE
  RawBig = FALSE
  ColsFull = FALSE
