------------------------------- MODULE Forms -------------------------------
(***************************************************************************)
(* Attribute forms (C03): an independent transcription of DWARF 2-5        *)
(* section 7.5 (form -> class, size, value) plus the GNU extension forms,  *)
(* the attribute encoder, the machine of `skip_attributes` as coded in     *)
(* src/read/unit.rs (fixed sizes are accumulated and flushed at the next   *)
(* variable-length form; block data is skipped at once - since the fix     *)
(* d5f8a0a; before it the block length was deferred into the accumulator   *)
(* and could overflow), and the payload/class preservation demanded of     *)
(* Attribute::value().                                                     *)
(*                                                                         *)
(* enc = [ver, fmt, asz, le].  Numbers are little-endian byte tuples (BV). *)
(* An attribute to encode is a = [name, form, p] with payload p:           *)
(*   fixed forms   p = [val |-> BV of the form's size]                     *)
(*   ULEB forms    p = [val |-> BV8, pad |-> extra (non-canonical) bytes]  *)
(*   sdata         p = [val |-> BV8]                                       *)
(*   blocks        p = [data |-> bytes]  or  [data |-> bytes, claim |-> BV8] *)
(*                 (claim: length field larger than the data that follows) *)
(*   string        p = [data |-> non-zero bytes]                           *)
(*   indirect      p = [form |-> actual form, p |-> its payload]           *)
(*   implicit_const p = [val |-> BV8]  (lives in the abbreviation)         *)
(***************************************************************************)
EXTENDS Dies

W(enc) == IF enc.fmt = 64 THEN 8 ELSE 4

(* ---- the form table (DWARF 5 Table 7.6, DWARF 2-4 Figure 21, GNU) ------ *)
(* sz: "0".."16" fixed bytes, "asz", "word" (4/8 by format), "refaddr"     *)
(* (address-sized in DWARF 2, offset-sized from DWARF 3), or a variable    *)
(* kind.  kind: the AttributeValue variant expressing the DWARF class.     *)
FormTable == {
  [c |-> 1,  nm |-> "addr",        sz |-> "asz",      kind |-> "Addr"],
  [c |-> 3,  nm |-> "block2",      sz |-> "block2",   kind |-> "Block"],
  [c |-> 4,  nm |-> "block4",      sz |-> "block4",   kind |-> "Block"],
  [c |-> 5,  nm |-> "data2",       sz |-> "2",        kind |-> "Data2"],
  [c |-> 6,  nm |-> "data4",       sz |-> "4",        kind |-> "Data4"],
  [c |-> 7,  nm |-> "data8",       sz |-> "8",        kind |-> "Data8"],
  [c |-> 8,  nm |-> "string",      sz |-> "string",   kind |-> "String"],
  [c |-> 9,  nm |-> "block",       sz |-> "blockleb", kind |-> "Block"],
  [c |-> 10, nm |-> "block1",      sz |-> "block1",   kind |-> "Block"],
  [c |-> 11, nm |-> "data1",       sz |-> "1",        kind |-> "Data1"],
  [c |-> 12, nm |-> "flag",        sz |-> "1",        kind |-> "Flag"],
  [c |-> 13, nm |-> "sdata",       sz |-> "sleb",     kind |-> "Sdata"],
  [c |-> 14, nm |-> "strp",        sz |-> "word",     kind |-> "DebugStrRef"],
  [c |-> 15, nm |-> "udata",       sz |-> "uleb",     kind |-> "Udata"],
  [c |-> 16, nm |-> "ref_addr",    sz |-> "refaddr",  kind |-> "DebugInfoRef"],
  [c |-> 17, nm |-> "ref1",        sz |-> "1",        kind |-> "UnitRef"],
  [c |-> 18, nm |-> "ref2",        sz |-> "2",        kind |-> "UnitRef"],
  [c |-> 19, nm |-> "ref4",        sz |-> "4",        kind |-> "UnitRef"],
  [c |-> 20, nm |-> "ref8",        sz |-> "8",        kind |-> "UnitRef"],
  [c |-> 21, nm |-> "ref_udata",   sz |-> "uleb",     kind |-> "UnitRef"],
  [c |-> 22, nm |-> "indirect",    sz |-> "indirect", kind |-> "-"],
  [c |-> 23, nm |-> "sec_offset",  sz |-> "word",     kind |-> "SecOffset"],
  [c |-> 24, nm |-> "exprloc",     sz |-> "blockleb", kind |-> "Exprloc"],
  [c |-> 25, nm |-> "flag_present", sz |-> "0",       kind |-> "Flag"],
  [c |-> 26, nm |-> "strx",        sz |-> "uleb",     kind |-> "DebugStrOffsetsIndex"],
  [c |-> 27, nm |-> "addrx",       sz |-> "uleb",     kind |-> "DebugAddrIndex"],
  [c |-> 28, nm |-> "ref_sup4",    sz |-> "4",        kind |-> "DebugInfoRefSup"],
  [c |-> 29, nm |-> "strp_sup",    sz |-> "word",     kind |-> "DebugStrRefSup"],
  [c |-> 30, nm |-> "data16",      sz |-> "16",       kind |-> "Data16"],
  [c |-> 31, nm |-> "line_strp",   sz |-> "word",     kind |-> "DebugLineStrRef"],
  [c |-> 32, nm |-> "ref_sig8",    sz |-> "8",        kind |-> "DebugTypesRef"],
  [c |-> 33, nm |-> "implicit_const", sz |-> "0",     kind |-> "Sdata"],
  [c |-> 34, nm |-> "loclistx",    sz |-> "uleb",     kind |-> "DebugLocListsIndex"],
  [c |-> 35, nm |-> "rnglistx",    sz |-> "uleb",     kind |-> "DebugRngListsIndex"],
  [c |-> 36, nm |-> "ref_sup8",    sz |-> "8",        kind |-> "DebugInfoRefSup"],
  [c |-> 37, nm |-> "strx1",       sz |-> "1",        kind |-> "DebugStrOffsetsIndex"],
  [c |-> 38, nm |-> "strx2",       sz |-> "2",        kind |-> "DebugStrOffsetsIndex"],
  [c |-> 39, nm |-> "strx3",       sz |-> "3",        kind |-> "DebugStrOffsetsIndex"],
  [c |-> 40, nm |-> "strx4",       sz |-> "4",        kind |-> "DebugStrOffsetsIndex"],
  [c |-> 41, nm |-> "addrx1",      sz |-> "1",        kind |-> "DebugAddrIndex"],
  [c |-> 42, nm |-> "addrx2",      sz |-> "2",        kind |-> "DebugAddrIndex"],
  [c |-> 43, nm |-> "addrx3",      sz |-> "3",        kind |-> "DebugAddrIndex"],
  [c |-> 44, nm |-> "addrx4",      sz |-> "4",        kind |-> "DebugAddrIndex"],
  [c |-> 7937, nm |-> "GNU_addr_index", sz |-> "uleb", kind |-> "DebugAddrIndex"],        \* 0x1f01
  [c |-> 7938, nm |-> "GNU_str_index",  sz |-> "uleb", kind |-> "DebugStrOffsetsIndex"],  \* 0x1f02
  [c |-> 7968, nm |-> "GNU_ref_alt",    sz |-> "word", kind |-> "DebugInfoRefSup"],       \* 0x1f20
  [c |-> 7969, nm |-> "GNU_strp_alt",   sz |-> "word", kind |-> "DebugStrRefSup"],        \* 0x1f21
  (* a code no DWARF version or known vendor assigns: cannot be decoded or skipped *)
  [c |-> 48,   nm |-> "unassigned48",   sz |-> "unknown", kind |-> "-"] }
FormCodes == {f.c : f \in FormTable}
FormOf(c) == CHOOSE f \in FormTable : f.c = c
FormNamed(nm) == (CHOOSE f \in FormTable : f.nm = nm).c
IsFixed(sz) == sz \in {"0", "1", "2", "3", "4", "8", "16", "asz", "word", "refaddr"}
(* advertised size of a fixed form, -1 = variable *)
FixedSize(c, enc) ==
    LET sz == FormOf(c).sz IN
    CASE sz = "0" -> 0 [] sz = "1" -> 1 [] sz = "2" -> 2 [] sz = "3" -> 3 [] sz = "4" -> 4 [] sz = "8" -> 8
      [] sz = "16" -> 16 [] sz = "asz" -> enc.asz [] sz = "word" -> W(enc)
      [] sz = "refaddr" -> (IF enc.ver = 2 THEN enc.asz ELSE W(enc))
      [] OTHER -> -1

(* ---- attribute names whose DW_FORM_data4/data8 were section offsets ---- *)
(* DWARF 3 Figure 20: the attributes with a lineptr / loclistptr / macptr / *)
(* rangelistptr class.  (DW_AT_start_scope is class constant in DWARF 2-3   *)
(* and gained rangelistptr only together with DW_FORM_sec_offset.)          *)
LegacyPtrNames == {2 (*location*), 16 (*stmt_list*), 25 (*string_length*), 42 (*return_addr*), 56 (*data_member_location*),
                   64 (*frame_base*), 67 (*macro_info*), 70 (*segment*), 72 (*static_link*), 74 (*use_location*),
                   77 (*vtable_elem_location*), 85 (*ranges*)}
(* names for which class constant is (also) allowed, so data4/data8 stay meaningful from DWARF 4 on *)
ConstantAlsoNames == {56 (*data_member_location*), 44 (*start_scope*)}
(* names gimli treats as legacy section offsets although DWARF never lists them so, or that do not *)
(* exist in the legacy versions: no meaning assigned -> either reading is tolerated                  *)
Matches(c, enc) == (FormOf(c).nm = "data4" /\ enc.fmt = 32) \/ (FormOf(c).nm = "data8" /\ enc.fmt = 64)
(* the set of raw kinds the property allows for a data4/data8 attribute *)
DataKinds(c, name, enc) ==
    LET plain == FormOf(c).kind IN
    IF ~Matches(c, enc) THEN {plain}
    ELSE IF enc.ver <= 3 THEN
         (IF name \in LegacyPtrNames THEN {"SecOffset"}
          ELSE IF name = 121 (*DW_AT_macros: not a DWARF 2/3 attribute*) THEN {plain, "SecOffset"}
          (* DWARF 3 is inconsistent about DW_AT_start_scope: Figure 20 says constant, the text of   *)
          (* section 2.? also describes a range-list form; either reading is tolerated in version 3. *)
          ELSE IF name = 44 /\ enc.ver = 3 THEN {plain, "SecOffset"}
          ELSE {plain})
    ELSE (* DWARF 4/5: data4/data8 are class constant only *)
         IF name \in (LegacyPtrNames \cup {121}) \ ConstantAlsoNames THEN {plain, "SecOffset"}   \* attribute cannot be a constant: ill-formed
         ELSE {plain}

(* ---- encoder ----------------------------------------------------------- *)
(* ULEB128 of a BV8 with `pad` redundant continuation bytes *)
UlebPadded(v, pad) == LET b == EncU(v) IN
                      IF pad = 0 THEN b
                      ELSE [i \in 1..(Len(b) + pad) |-> IF i < Len(b) THEN b[i] ELSE IF i = Len(b) THEN b[i] + 128
                                                           ELSE IF i < Len(b) + pad THEN 128 ELSE 0]
Uleb16(c) == UlebNat(c)
RECURSIVE EncPayload(_, _, _)
EncPayload(c, p, enc) ==
    LET sz == FormOf(c).sz IN
    CASE IsFixed(sz) /\ FormOf(c).nm # "implicit_const" -> Lay(p.val, enc.le)
      [] FormOf(c).nm = "implicit_const" -> <<>>
      [] sz = "unknown" -> <<>>
      [] sz = "uleb" -> UlebPadded(p.val, p.pad)
      [] sz = "sleb" -> EncS(p.val)
      [] sz = "string" -> p.data \o <<0>>
      [] sz = "block1" -> Lay(IF "claim" \in DOMAIN p THEN Trunc(p.claim, 1) ELSE FromNat(Len(p.data), 1), enc.le) \o p.data
      [] sz = "block2" -> Lay(IF "claim" \in DOMAIN p THEN Trunc(p.claim, 2) ELSE FromNat(Len(p.data), 2), enc.le) \o p.data
      [] sz = "block4" -> Lay(IF "claim" \in DOMAIN p THEN Trunc(p.claim, 4) ELSE FromNat(Len(p.data), 4), enc.le) \o p.data
      [] sz = "blockleb" -> EncU(IF "claim" \in DOMAIN p THEN p.claim ELSE FromNat(Len(p.data), 8)) \o p.data
      [] sz = "indirect" -> Uleb16(p.form) \o EncPayload(p.form, p.p, enc)
EncAttr(a, enc) == EncPayload(a.form, a.p, enc)
(* concatenation by halves: O(n log n) copying also for lists of thousands of attributes *)
RECURSIVE EncAttrRange(_, _, _, _)
EncAttrRange(as, lo, hi, enc) ==
    IF lo > hi THEN <<>> ELSE IF lo = hi THEN EncAttr(as[lo], enc)
    ELSE LET mid == (lo + hi) \div 2 IN EncAttrRange(as, lo, mid, enc) \o EncAttrRange(as, mid + 1, hi, enc)
EncAttrs(as, enc) == EncAttrRange(as, 1, Len(as), enc)
(* the abbreviation's view of an attribute *)
SpecOf(a) == IF FormOf(a.form).nm = "implicit_const"
             THEN [name |-> a.name, form |-> a.form, ic |-> EncS(a.p.val)]
             ELSE [name |-> a.name, form |-> a.form]

(* ---- the value DWARF assigns ------------------------------------------- *)
(* innermost form and payload of a (possibly nested) indirect attribute *)
RECURSIVE Inner(_, _)
Inner(c, p) == IF FormOf(c).sz = "indirect" THEN Inner(p.form, p.p) ELSE [form |-> c, p |-> p]
Truncated(c, p) == "claim" \in DOMAIN p
(* DW_FORM_implicit_const has no place for its value below DW_FORM_indirect *)
IllFormed(a) == LET x == Inner(a.form, a.p) IN
                \/ Truncated(x.form, x.p)
                \/ FormOf(x.form).sz = "unknown"
                \/ (FormOf(a.form).sz = "indirect" /\ FormOf(x.form).nm = "implicit_const")
NumV(c, p) == LET f == FormOf(c) IN
              CASE f.nm = "flag" -> FromNat(IF IsZero(p.val) THEN 0 ELSE 1, 8)
                [] f.nm = "flag_present" -> FromNat(1, 8)
                [] f.nm = "data16" -> p.val
                [] f.sz \in {"blockleb", "block1", "block2", "block4", "string"} -> p.data
                [] OTHER -> ZExt(p.val, 8)
(* allowed raw values: a set of [kind, v] *)
ExpRaw(a, enc) ==
    LET x == Inner(a.form, a.p)
        f == FormOf(x.form)
        kinds == IF f.nm \in {"data4", "data8"} THEN DataKinds(x.form, a.name, enc) ELSE {f.kind} IN
    {[kind |-> k, v |-> NumV(x.form, x.p)] : k \in kinds}

(* Allowed outcomes of skipping a list whose first ill-formed attribute is `a` (after well-formed *)
(* ones of total length n0).  Data that is not there cannot have been skipped: a truncated block  *)
(* or an undecodable form must fail.  DW_FORM_implicit_const below DW_FORM_indirect has no value  *)
(* bytes at all; skipping past the form code(s) is tolerated.                                      *)
ImplicitUnderIndirect(a) == FormOf(a.form).sz = "indirect" /\ FormOf(Inner(a.form, a.p).form).nm = "implicit_const"

(* ---- Attribute::value(): what each attribute name makes of a value ------ *)
(* Per attribute name, the classes DWARF assigns (DWARF 5 Table 7.5, DWARF 2-4 *)
(* Figure 20, the GNU split-DWARF / macro / locview extensions) decide what a  *)
(* raw value *means*:                                                          *)
(*  - a section offset on the name refers to one particular section            *)
(*    (PtrTarget: lineptr / loclist / rnglist / macptr / addrptr /             *)
(*    stroffsetsptr / rnglistsptr / loclistsptr);                              *)
(*  - a constant on the name is a code of one enumeration (EnumTarget), a      *)
(*    file index, a dwo id, or a plain unsigned number (UnsignedNames);        *)
(*  - a block on a name of class exprloc is a DWARF expression.                *)
(* Normalisation must keep the payload and may only move the value to the      *)
(* variant of *that* meaning - never to another section / enumeration.         *)
ConstKinds == {"Data1", "Data2", "Data4", "Data8", "Udata", "Sdata"}
LoclistNames == {2 (*location*), 25 (*string_length*), 42 (*return_addr*), 56 (*data_member_location*), 64 (*frame_base*),
                 70 (*segment*), 72 (*static_link*), 74 (*use_location*), 77 (*vtable_elem_location*)}
PtrTarget(name) ==
    CASE name \in LoclistNames -> "LocationListsRef"
      [] name = 16 (*stmt_list*) -> "DebugLineRef"
      [] name \in {44 (*start_scope*), 85 (*ranges*)} -> "RangeListsRef"
      [] name = 67 (*macro_info*) -> "DebugMacinfoRef"
      [] name = 121 (*macros*) -> "DebugMacroRef"
      [] name = 114 (*str_offsets_base*) -> "DebugStrOffsetsBase"
      [] name \in {115 (*addr_base*), 8499 (*GNU_addr_base 0x2133*)} -> "DebugAddrBase"
      [] name \in {116 (*rnglists_base*), 8498 (*GNU_ranges_base 0x2132*)} -> "DebugRngListsBase"
      [] name = 140 (*loclists_base*) -> "DebugLocListsBase"
      [] OTHER -> "-"
(* vendor attributes of a pointer class that a reader may leave as a plain section offset *)
VendorPtrTarget(name) ==
    CASE name = 8473 (*GNU_macros 0x2119*) -> "DebugMacroRef"
      [] name = 8503 (*GNU_locviews 0x2137*) -> "LocationListsRef"
      [] OTHER -> "-"
(* enumeration-valued attributes: [kind, bytes of the code] *)
EnumTarget(name) ==
    CASE name = 9 -> [kind |-> "Ordering", w |-> 1]
      [] name = 19 -> [kind |-> "Language", w |-> 2]
      [] name = 23 -> [kind |-> "Visibility", w |-> 1]
      [] name = 32 -> [kind |-> "Inline", w |-> 1]
      [] name = 50 -> [kind |-> "Accessibility", w |-> 1]
      [] name = 51 -> [kind |-> "AddressClass", w |-> 8]
      [] name = 54 -> [kind |-> "CallingConvention", w |-> 1]
      [] name = 62 -> [kind |-> "Encoding", w |-> 1]
      [] name = 66 -> [kind |-> "IdentifierCase", w |-> 1]
      [] name = 76 -> [kind |-> "Virtuality", w |-> 1]
      [] name = 94 -> [kind |-> "DecimalSign", w |-> 1]
      [] name = 101 -> [kind |-> "Endianity", w |-> 1]
      [] name \in {58 (*decl_file*), 88 (*call_file*)} -> [kind |-> "FileIndex", w |-> 8]
      [] name = 8497 (*GNU_dwo_id 0x2131*) -> [kind |-> "DwoId", w |-> 8]
      [] OTHER -> [kind |-> "-", w |-> 0]
(* attributes whose constant is an unsigned size / offset / line / column *)
UnsignedNames == {11 (*byte_size*), 12 (*bit_offset*), 13 (*bit_size*), 18 (*high_pc*), 46 (*bit_stride*), 56 (*data_member_location*),
                  57 (*decl_column*), 59 (*decl_line*), 81 (*byte_stride*), 87 (*call_column*), 89 (*call_line*)}
(* attributes of class constant whose signedness depends on a type / context: a reader may  *)
(* leave them raw or present them as an unsigned or signed number                            *)
ContextConstNames == {22 (*discr_value*), 28 (*const_value*), 30 (*default_value*), 34 (*lower_bound*), 44 (*start_scope*),
                      47 (*upper_bound*), 55 (*count*), 78 (*allocated*), 79 (*associated*), 82 (*entry_pc*), 91 (*binary_scale*),
                      92 (*decimal_scale*), 95 (*digit_count*), 107 (*data_bit_offset*), 111 (*string_length_bit_size*),
                      112 (*string_length_byte_size*), 113 (*rank*), 136 (*alignment*), 139 (*defaulted*)}
(* attributes of class exprloc (DWARF 2/3: a location / expression given as a block) *)
ExprlocNames == LoclistNames \cup {11, 12, 13, 34, 46, 47, 55, 78, 79, 80 (*data_location*), 81, 113 (*rank*),
                                   126 (*call_value*), 131 (*call_target*), 132 (*call_target_clobbered*),
                                   133 (*call_data_location*), 134 (*call_data_value*)}
(* a block here is tolerated either way: DW_AT_call_origin is of class reference (a block is ill-formed); vendor expressions *)
ExprlocEitherNames == {127 (*call_origin*)} \cup {n \in 8209..8212 : TRUE (*GNU_call_site_value .. target_clobbered 0x2111-0x2114*)}
IsVendorName(name) == name >= 8192

(* the numeric conversions of a raw value are defined below (UdataOf, Narrow) *)
NormKinds(name, raw) ==
    LET u == IF raw.kind \in {"Data1", "Data2", "Data4", "Data8", "Udata"} THEN raw.v
             ELSE IF raw.kind = "Sdata" /\ ~IsNeg(raw.v) THEN raw.v ELSE <<>>
        fits(w) == u # <<>> /\ \A i \in DOMAIN u : i > w => u[i] = 0 IN
    CASE raw.kind \in ConstKinds ->
           (IF EnumTarget(name).kind # "-" THEN (IF fits(EnumTarget(name).w) THEN {EnumTarget(name).kind} ELSE {raw.kind})
            ELSE IF name \in UnsignedNames THEN (IF u # <<>> THEN {"Udata"} ELSE {raw.kind})
            ELSE IF name \in ContextConstNames \/ (IsVendorName(name) /\ name # 8497) THEN {raw.kind, "Udata", "Sdata"}
            ELSE {raw.kind})
      [] raw.kind = "SecOffset" ->
           (IF PtrTarget(name) # "-" THEN {PtrTarget(name)}
            ELSE IF VendorPtrTarget(name) # "-" THEN {"SecOffset", VendorPtrTarget(name)}
            ELSE {"SecOffset"})
      [] raw.kind = "Block" ->
           (IF name \in ExprlocNames THEN {"Exprloc"}
            ELSE IF name \in ExprlocEitherNames THEN {"Block", "Exprloc"}
            ELSE {"Block"})
      [] OTHER -> {raw.kind}
NormOk(name, raw, norm) == norm.v = raw.v /\ norm.kind \in NormKinds(name, raw)

(* the numeric conversions of a raw value (<<>> = no conversion):          *)
(* unsigned: zero extension of the data forms, a non-negative sdata;        *)
(* signed: sign extension at the width of the form, a udata below 2^63;     *)
(* offset: section offsets only; u8/u16: the unsigned value if it fits.     *)
UdataOf(raw) == CASE raw.kind \in {"Data1", "Data2", "Data4", "Data8", "Udata"} -> raw.v
                  [] raw.kind = "Sdata" -> (IF IsNeg(raw.v) THEN <<>> ELSE raw.v)
                  [] OTHER -> <<>>
SdataOf(raw) == CASE raw.kind = "Data1" -> SExt(Trunc(raw.v, 1), 8)
                  [] raw.kind = "Data2" -> SExt(Trunc(raw.v, 2), 8)
                  [] raw.kind = "Data4" -> SExt(Trunc(raw.v, 4), 8)
                  [] raw.kind \in {"Data8", "Sdata"} -> raw.v
                  [] raw.kind = "Udata" -> (IF IsNeg(raw.v) THEN <<>> ELSE raw.v)
                  [] OTHER -> <<>>
Narrow(u, n) == IF u = <<>> THEN <<>> ELSE IF \A i \in DOMAIN u : i > n => u[i] = 0 THEN u ELSE <<>>
ConvOk(raw, c) == /\ c.ud = UdataOf(raw) /\ c.sd = SdataOf(raw)
                  /\ c.off = (IF raw.kind = "SecOffset" THEN raw.v ELSE <<>>)
                  /\ c.u8 = Narrow(UdataOf(raw), 1) /\ c.u16 = Narrow(UdataOf(raw), 2)

(* ---- skip_attributes as coded ------------------------------------------ *)
(* state [pos (1-based index of the next byte), acc (BV8 = usize), st]      *)
Remaining(bytes, pos) == Len(bytes) - pos + 1
LeNat(n, k) == FitsNat(n) /\ ToNat(n) <= k             \* BV8 n <= small natural k
SkipN(bytes, s, n) == IF LeNat(n, Remaining(bytes, s.pos)) THEN [s EXCEPT !.pos = s.pos + ToNat(n)]
                      ELSE [s EXCEPT !.st = "err"]
Flush(bytes, s) == IF IsZero(s.acc) THEN s ELSE [SkipN(bytes, s, s.acc) EXCEPT !.acc = Zero(8)]
ReadFixedAt(bytes, pos, n, le) == IF Remaining(bytes, pos) < n THEN [ok |-> FALSE]
                                  ELSE [ok |-> TRUE, v |-> ZExt(FieldVal(SubSeq(bytes, pos, pos + n - 1), le), 8), n |-> n]
UlebAt(bytes, pos) == LET m == Fin(RunU(MInit, SubSeq(bytes, pos, Len(bytes)), 1)) IN
                      IF m.st = "ok" THEN [ok |-> TRUE, v |-> m.res, n |-> m.n] ELSE [ok |-> FALSE]
Uleb16At(bytes, pos) == LET m == Fin(Run16(MInit, SubSeq(bytes, pos, Len(bytes)), 1)) IN
                        IF m.st = "ok" THEN [ok |-> TRUE, v |-> ToNat(Trunc(m.res, 2)), n |-> m.n] ELSE [ok |-> FALSE]
SkipLebAt(bytes, pos) == LET k == FirstTerm(SubSeq(bytes, pos, Len(bytes))) IN
                         IF k = 0 THEN [ok |-> FALSE] ELSE [ok |-> TRUE, n |-> k]
NulAt(bytes, pos) == LET S == {i \in pos..Len(bytes) : bytes[i] = 0} IN
                     IF S = {} THEN [ok |-> FALSE] ELSE [ok |-> TRUE, n |-> SetMin(S) - pos + 1]
KnownForm(c) == c \in FormCodes /\ FormOf(c).sz # "unknown"
(* one attribute; `ovf` records that the accumulator addition overflowed usize *)
RECURSIVE SkipOne(_, _, _, _)
SkipOne(bytes, s, c, enc) ==
    IF s.st # "run" THEN s
    ELSE IF KnownForm(c) /\ FixedSize(c, enc) >= 0 THEN
         LET k == FromNat(FixedSize(c, enc), 8) IN
         [s EXCEPT !.acc = Add(s.acc, k), !.ovf = s.ovf \/ AddOverflows(s.acc, k)]
    ELSE LET s1 == Flush(bytes, s) IN
         IF s1.st # "run" THEN s1
         ELSE IF ~KnownForm(c) THEN [s1 EXCEPT !.st = "err"]
         ELSE LET sz == FormOf(c).sz IN
              CASE sz = "indirect" ->
                     LET r == Uleb16At(bytes, s1.pos) IN
                     IF ~r.ok THEN [s1 EXCEPT !.st = "err"] ELSE SkipOne(bytes, [s1 EXCEPT !.pos = s1.pos + r.n], r.v, enc)
                [] sz \in {"block1", "block2", "block4"} ->
                     LET n == CASE sz = "block1" -> 1 [] sz = "block2" -> 2 [] sz = "block4" -> 4
                         r == ReadFixedAt(bytes, s1.pos, n, enc.le) IN
                     IF ~r.ok THEN [s1 EXCEPT !.st = "err"] ELSE SkipN(bytes, [s1 EXCEPT !.pos = s1.pos + n], r.v)
                [] sz = "blockleb" ->
                     LET r == UlebAt(bytes, s1.pos) IN
                     IF ~r.ok THEN [s1 EXCEPT !.st = "err"] ELSE SkipN(bytes, [s1 EXCEPT !.pos = s1.pos + r.n], r.v)
                [] sz = "string" ->
                     LET r == NulAt(bytes, s1.pos) IN
                     IF ~r.ok THEN [s1 EXCEPT !.st = "err"] ELSE [s1 EXCEPT !.pos = s1.pos + r.n]
                [] sz \in {"uleb", "sleb"} ->
                     LET r == SkipLebAt(bytes, s1.pos) IN
                     IF ~r.ok THEN [s1 EXCEPT !.st = "err"] ELSE [s1 EXCEPT !.pos = s1.pos + r.n]
(* the loop over the specs: the state is threaded left to right through forms[lo..hi]; the range is   *)
(* split by halves only to keep TLC's evaluation depth logarithmic (a linear recursion over thousands *)
(* of attributes costs quadratic time in TLC's context chain)                                          *)
RECURSIVE SkipRange(_, _, _, _, _, _)
SkipRange(bytes, s, forms, lo, hi, enc) ==
    IF lo > hi THEN s
    ELSE IF lo = hi THEN SkipOne(bytes, s, forms[lo], enc)
    ELSE LET mid == (lo + hi) \div 2 IN
         SkipRange(bytes, SkipRange(bytes, s, forms, lo, mid, enc), forms, mid + 1, hi, enc)
SkipAll(bytes, s0, forms, enc) ==
    LET s == SkipRange(bytes, s0, forms, 1, Len(forms), enc) IN
    IF s.st = "run" THEN [Flush(bytes, s) EXCEPT !.st = IF @ = "run" THEN "ok" ELSE @] ELSE s
(* skip_attributes(specs) on `bytes` starting at index pos0: [st, pos, ovf] *)
SkipCoded(bytes, pos0, forms, enc) ==
    SkipAll(bytes, [pos |-> pos0, acc |-> Zero(8), st |-> "run", ovf |-> FALSE], forms, enc)
=============================================================================
