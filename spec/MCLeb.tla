------------------------------ MODULE MCLeb ------------------------------
(* Exhaustive exploration of LEB128 byte strings: every string up to      *)
(* FullLen over all 256 byte values, longer strings and the 9-11 byte     *)
(* frontier over a class alphabet.  Each distinct string is one state;    *)
(* the invariant checks the coded machines against the mathematical       *)
(* meaning and emits one replay case.                                     *)
EXTENDS Leb, TLC, Json
CONSTANTS FullLen, SlimLen, FrontLen
VARIABLE s

Cls == {0, 1, 2, 3, 4, 63, 64, 65, 126, 127, 128, 129, 130, 131, 132, 191, 192, 193, 254, 255}
Rep(b, n) == [i \in 1..n |-> b]
Frontier == {Rep(128, 7), Rep(255, 7), <<129>> \o Rep(128, 6), Rep(255, 6) \o <<128>>, <<170, 213, 170, 213, 170, 213, 170>>}
TailBytes == <<131, 1>>

Slim(t) == \A i \in DOMAIN t : t[i] \in Cls
IsFront(t) == Len(t) >= 7 /\ SubSeq(t, 1, 7) \in Frontier
AllCont(t) == \A i \in DOMAIN t : Cont(t[i])

Init == s = <<>> \/ s \in Frontier
Next == /\ AllCont(s)
        /\ \/ Len(s) < FullLen /\ \E b \in 0..255 : s' = Append(s, b)
           \/ Len(s) >= FullLen /\ ~IsFront(s) /\ Len(s) < SlimLen /\ Slim(s) /\ \E b \in Cls : s' = Append(s, b)
           \/ IsFront(s) /\ Len(s) < FrontLen /\ \E b \in Cls : s' = Append(s, b)

Exp(t) == [u64  |-> AllowedU(t, 8, 10), u32 |-> AllowedU(t, 4, 5), u16 |-> AllowedU(t, 2, 3),
           i64  |-> AllowedS(t), skip |-> AllowedSkip(t)]

(* design-level: the machines as coded compute an allowed outcome *)
MachinesOk(t) ==
    /\ MOutcome(Fin(RunU(MInit, t, 1)), 8) \in AllowedU(t, 8, 10)
    /\ MOutcome(Fin(RunS(MInit, t, 1)), 8) \in AllowedS(t)
    /\ MOutcome(Fin(Run16(MInit, t, 1)), 2) \in AllowedU(t, 2, 3)

Inv == /\ MachinesOk(s) /\ MachinesOk(s \o TailBytes)
       /\ PrintT(<<"CASE", ToJson([sys |-> "leb", bytes |-> s, tail |-> TailBytes,
                                   exp |-> Exp(s), expt |-> Exp(s \o TailBytes)])>>)
=============================================================================
