------------------------- MODULE ReaderWindowInd -------------------------
(* Unbounded version of the window-safety invariant of Reader.tla (C10):   *)
(* for a buffer of ANY length N and any sequence of window operations with *)
(* ANY arguments, every live handle satisfies 0 <= start <= end <= N.      *)
(* Stated as an inductive invariant and discharged with Apalache:          *)
(*   Init => IndInv   and   IndInv /\ Next => IndInv'                      *)
EXTENDS Integers

CONSTANT
    \* @type: Int;
    N

VARIABLES
    \* @type: Int -> Int;
    start,
    \* @type: Int -> Int;
    end,
    \* @type: Set(Int);
    live

H == 0..3

ConstInit == N \in Nat

Init == /\ start = [h \in H |-> 0]
        /\ end = [h \in H |-> N]
        /\ live = {0}

Len(h) == end[h] - start[h]

(* skip / read_slice / read_* : consume n bytes or fail leaving the window unchanged *)
Skip(h, n) == /\ h \in live
              /\ IF n >= 0 /\ n <= Len(h) THEN start' = [start EXCEPT ![h] = @ + n] ELSE start' = start
              /\ UNCHANGED <<end, live>>
Truncate(h, n) == /\ h \in live
                  /\ IF n >= 0 /\ n <= Len(h) THEN end' = [end EXCEPT ![h] = start[h] + n] ELSE end' = end
                  /\ UNCHANGED <<start, live>>
Empty(h) == /\ h \in live /\ end' = [end EXCEPT ![h] = start[h]] /\ UNCHANGED <<start, live>>
Split(h, g, n) == /\ h \in live /\ g \in H \ live
                  /\ IF n >= 0 /\ n <= Len(h)
                     THEN /\ start' = [start EXCEPT ![g] = start[h], ![h] = @ + n]
                          /\ end' = [end EXCEPT ![g] = start[h] + n]
                          /\ live' = live \union {g}
                     ELSE UNCHANGED <<start, end, live>>
Clone(h, g) == /\ h \in live /\ g \in H \ live
               /\ start' = [start EXCEPT ![g] = start[h]]
               /\ end' = [end EXCEPT ![g] = end[h]]
               /\ live' = live \union {g}
Drop(h) == /\ h \in live /\ h # 0 /\ live' = live \ {h} /\ UNCHANGED <<start, end>>

Next == \E h \in H : \E g \in H : \E n \in Int :
            \/ Skip(h, n) \/ Truncate(h, n) \/ Empty(h) \/ Split(h, g, n) \/ Clone(h, g) \/ Drop(h)

IndInv == /\ live \subseteq H
          /\ start \in [H -> Int] /\ end \in [H -> Int]
          /\ \A h \in live : 0 <= start[h] /\ start[h] <= end[h] /\ end[h] <= N

(* the inductive step starts from any state satisfying the invariant *)
IndInit == /\ TRUE
           /\ start \in [H -> Int] /\ end \in [H -> Int] /\ live \in SUBSET H
           /\ IndInv
=============================================================================
