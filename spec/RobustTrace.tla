---------------------------- MODULE RobustTrace ----------------------------
(* Trace validation for C01: the outcome alphabet of every public reading, *)
(* lookup, unwinding, evaluation and conversion entry point, and the       *)
(* iterator protocol of IterProto.tla for every pumped iterator instance.  *)
(*                                                                         *)
(* Events (one JSON object per line):                                      *)
(*  Case     {"ev":"Case","id":..}          a batch of replayed recipes     *)
(*  Calls    {"ev":"Calls","api":a,"ok":n,"err":m}                          *)
(*           n+m calls of entry point `a` returned normally (a value or an *)
(*           error) - the only outcomes the specification has;             *)
(*  Iter     {"ev":"Iter","it":name,"fused":b,"bound":v,"slack":f,          *)
(*            "runs":[[res,count],...]}                                     *)
(*           the run-length-encoded results of pumping one iterator        *)
(*           instance whose input has `bound` bytes (or elements) with a   *)
(*           reader that can fail `slack` times; accepted iff it is a      *)
(*           behaviour of the IterProto machine and reached None;          *)
(*  Abnormal {"ev":"Abnormal","outcome":"panic"|"abort"|"timeout",...}      *)
(*           has NO action: a trace containing one cannot be explained,    *)
(*           TLC stops in front of it and the postcondition reports it.    *)
EXTENDS IterProto, TLC, Json, IOUtils
VARIABLE l
Rec == ndJsonDeserialize(IOEnv.TRACE)

IsEv(e) == l <= Len(Rec) /\ Rec[l].ev = e /\ l' = l + 1

WellFormedRuns(runs) == \A i \in DOMAIN runs : runs[i][1] \in Results /\ runs[i][2] \in Nat

CallsOK(r) == r.ok \in Nat /\ r.err \in Nat
IterShape(r) == /\ r.fused \in BOOLEAN /\ r.bound \in Nat /\ r.slack \in Nat
                /\ WellFormedRuns(r.runs)
IterOK(r) == IterShape(r) /\ Accept(r.fused, r.bound, r.slack, r.runs)

Case  == IsEv("Case")
Calls == IsEv("Calls") /\ CallsOK(Rec[l])
Iter  == IsEv("Iter") /\ IterOK(Rec[l])

Init == l = 1
Next == Case \/ Calls \/ Iter

(* Diagnostics only (printed when the trace is rejected): which events of  *)
(* the file have no matching action, and why.                              *)
Matches(r) == \/ r.ev = "Case"
              \/ r.ev = "Calls" /\ CallsOK(r)
              \/ r.ev = "Iter" /\ IterOK(r)

Why(r) == IF r.ev = "Abnormal" THEN "abnormal"
          ELSE IF r.ev # "Iter" THEN "unknown-event"
          ELSE IF ~IterShape(r) THEN "malformed"
          ELSE IF Fold(r.fused, Live(r.bound, r.slack), r.runs).rej
               THEN (IF r.fused /\ ~Fold(FALSE, Live(r.bound, r.slack), r.runs).rej
                     THEN "not-fused" ELSE "unbounded")
          ELSE "no-none"

Accepted == LET d == TLCGet("stats").diameter IN
            IF d - 1 = Len(Rec) THEN TRUE
            ELSE /\ \A i \in {j \in 1..Len(Rec) : ~Matches(Rec[j])} :
                       PrintT(<<"UNMATCHED", i, ToJson([why |-> Why(Rec[i]), ev |-> Rec[i]])>>)
                 /\ PrintT(<<"STOPPED", d>>)
                 /\ FALSE
=============================================================================
