INIT Init
NEXT Next
CHECK_DEADLOCK FALSE
CONSTANTS
  Modes = {"single", "legacy", "indirect", "lists", "norm", "line", "runs"}
  FullEnc = FALSE
  MaxList = 3
  BigList = FALSE
