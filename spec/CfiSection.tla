----------------------------- MODULE CfiSection -----------------------------
(***************************************************************************)
(* Sections of CIEs/FDEs and the lookup machines of src/read/cfi.rs (C05). *)
(*                                                                         *)
(*  - section layout: a section is a sequence of abstract entries          *)
(*    (t = "cie" | "fde" | "zero" | "zero64"); FDEs name their CIE by its  *)
(*    index in the sequence; offsets are computed from the encoded sizes.  *)
(*  - CfiEntriesIter as coded: zero-length entries are skipped in          *)
(*    .debug_frame and terminate .eh_frame; an error ends the iteration.   *)
(*  - fde_for_address = first FDE in iteration order that contains the     *)
(*    address; unwind_info_for_address = the row of that FDE's table.      *)
(*  - EhHdrTable::lookup as coded (len / head / tail window updates),      *)
(*    pointer_to_offset, EhHdrTable::fde_for_address.                      *)
(*  - the specification-level answer: Covering(a), Greatest(locs, a).      *)
(***************************************************************************)
EXTENDS CfiCodec

(*------------------------------- layout -----------------------------------*)
EntryBytes(kind, es, i, offs, secAsz, le) ==
    LET e == es[i] IN
    CASE e.t = "cie"    -> EncCie(kind, e, secAsz, le)
      [] e.t = "fde"    -> EncFde(kind, e, es[e.cie], offs[i], offs[e.cie], secAsz, le)
      [] e.t = "zero"   -> Zero(4)
      [] e.t = "zero64" -> Ones(4) \o Zero(8)

(* sizes do not depend on the offsets (all offset fields are fixed-width) *)
EntrySize(kind, es, i, secAsz) ==
    Len(EntryBytes(kind, es, i, Tup([j \in 1..Len(es) |-> IF j = i THEN 4096 ELSE 0]), secAsz, TRUE))

RECURSIVE OffsAcc(_, _, _, _, _)
OffsAcc(kind, es, secAsz, i, acc) ==
    IF i > Len(es) THEN acc
    ELSE OffsAcc(kind, es, secAsz, i + 1, Append(acc, acc[i] + EntrySize(kind, es, i, secAsz)))
(* offs[i] = section offset of entry i; offs[Len(es)+1] = section size *)
Offsets(kind, es, secAsz) == OffsAcc(kind, es, secAsz, 1, <<0>>)

RECURSIVE SecFrom(_, _, _, _, _, _)
SecFrom(kind, es, offs, secAsz, le, i) ==
    IF i > Len(es) THEN <<>>
    ELSE EntryBytes(kind, es, i, offs, secAsz, le) \o SecFrom(kind, es, offs, secAsz, le, i + 1)
EncSection(kind, es, secAsz, le) == SecFrom(kind, es, Offsets(kind, es, secAsz), secAsz, le, 1)

(* .eh_frame CIE pointers are distances back from the pointer field; a     *)
(* forward reference is not encodable                                      *)
WellFormedRefs(kind, es) ==
    \A i \in DOMAIN es : es[i].t = "fde" =>
        /\ es[i].cie \in DOMAIN es /\ es[es[i].cie].t = "cie"
        /\ (kind = "eh" => es[i].cie < i)

(*----------------------- CfiEntriesIter as coded --------------------------*)
(* meaning of every entry at its offset (computed once per section):       *)
(* CIEs first, then the FDEs bound to the meaning of the CIE they name     *)
Meanings(kind, es, offs, secAsz, B) ==
    LET cms == Tup([i \in DOMAIN es |-> IF es[i].t = "cie" THEN CieMeaning(kind, es[i], offs[i], secAsz, B)
                                        ELSE [ok |-> FALSE, err |-> "-"]])
    IN Tup([i \in DOMAIN es |->
          IF es[i].t = "cie" THEN cms[i]
          ELSE IF es[i].t = "fde" THEN
               [ok |-> TRUE, rec |-> FdeMeaning(kind, es[i], es[es[i].cie], cms[es[i].cie],
                                                offs[i], offs[es[i].cie], secAsz, B)]
          ELSE [ok |-> TRUE, rec |-> [t |-> es[i].t]]])

RECURSIVE IterFrom(_, _, _, _, _)
IterFrom(kind, es, ems, i, acc) ==
    IF i > Len(es) THEN [ents |-> acc, end |-> [ok |-> TRUE]]
    ELSE IF es[i].t \in {"zero", "zero64"} THEN
        IF kind = "eh" THEN [ents |-> acc, end |-> [ok |-> TRUE]]             \* terminator
        ELSE IterFrom(kind, es, ems, i + 1, acc)                               \* skipped
    ELSE IF ems[i].ok THEN IterFrom(kind, es, ems, i + 1, Append(acc, ems[i].rec))
         ELSE [ents |-> acc, end |-> ems[i]]                                   \* error, then fused
Iterate(kind, es, secAsz, B) ==
    LET offs == Offsets(kind, es, secAsz) IN IterFrom(kind, es, Meanings(kind, es, offs, secAsz, B), 1, <<>>)

(*----------------------------- lookups ------------------------------------*)
Contains(p, a) == ULe8(p.start, a) /\ ULt8(a, p.end)      \* FrameDescriptionEntry::contains

(* UnwindSection::fde_for_address as coded, over the iteration result *)
RECURSIVE ScanFrom(_, _, _)
ScanFrom(it, a, i) ==
    IF i > Len(it.ents) THEN
        IF it.end.ok THEN PErr("NoUnwindInfoForAddress") ELSE PErr(it.end.err)
    ELSE LET r == it.ents[i] IN
         IF r.t # "fde" THEN ScanFrom(it, a, i + 1)
         ELSE IF ~r.p.ok THEN PErr(r.p.err)
         ELSE IF Contains(r.p, a) THEN [ok |-> TRUE, i |-> i]
         ELSE ScanFrom(it, a, i + 1)
Scan(it, a) == ScanFrom(it, a, 1)

(* specification level: the FDEs (indices into it.ents) that cover a *)
Covering(it, a) == {i \in DOMAIN it.ents : it.ents[i].t = "fde" /\ it.ents[i].p.ok /\ Contains(it.ents[i].p, a)}
Clean(it) == it.end.ok /\ \A i \in DOMAIN it.ents : it.ents[i].t = "fde" => it.ents[i].p.ok

(* the row of the FDE's unwind table that contains a, for instruction       *)
(* streams of nop / advance_loc; rows are [cur, cur + d * caf)              *)
RECURSIVE RowFrom(_, _, _, _, _)
RowFrom(p, a, i, cur, asz) ==
    IF i > Len(p.ins) THEN
        IF ULe8(cur, a) /\ ULt8(a, p.end) THEN [ok |-> TRUE, row |-> <<cur, p.end>>]
        ELSE PErr("NoUnwindInfoForAddress")
    ELSE IF p.ins[i][1] = "nop" THEN RowFrom(p, a, i + 1, cur, asz)
    ELSE LET d   == Mul(N8(p.ins[i][2]), p.cie.caf)
             nxt == Add8(cur, d) IN
         IF ULt8(nxt, cur) \/ MaskA(nxt, asz) # nxt THEN PErr("AddressOverflow")     \* add_sized
         ELSE IF ULe8(cur, a) /\ ULt8(a, nxt) THEN [ok |-> TRUE, row |-> <<cur, nxt>>]
         ELSE RowFrom(p, a, i + 1, nxt, asz)
RowOf(p, a) == RowFrom(p, a, 1, p.start, p.cie.asz)

(* EhHdrTable::lookup as coded.  The reader window is the rows              *)
(* lo+1 .. lo+len (1-based); returns the index of the row whose second      *)
(* field is finally read.                                                   *)
RECURSIVE BsRun(_, _, _, _)
BsRun(locs, a, len, lo) ==
    IF len <= 1 THEN lo + 1
    ELSE LET half  == len \div 2                 \* head = first half rows, tail = the rest
             pivot == locs[lo + half + 1]         \* first row of tail
         IN IF pivot = a THEN lo + half + 1                            \* Equal: reader = tail; break
            ELSE IF ULt8(pivot, a) THEN BsRun(locs, a, len - half, lo + half)   \* Less: tail
            ELSE BsRun(locs, a, half, lo)                              \* Greater: head
Lookup(locs, a) == BsRun(locs, a, Len(locs), 0)

(* the reader operations lookup performs: <<prim, section offset, n>> *)
RECURSIVE BsSteps(_, _, _, _, _, _)
BsSteps(locs, a, len, lo, t0, size) ==
    IF len <= 1 THEN << <<"skip", t0 + lo * 2 * size, size>>, <<"read", t0 + lo * 2 * size + size, size>> >>
    ELSE LET half  == len \div 2
             pivot == locs[lo + half + 1]
             here  == << <<"split", t0 + lo * 2 * size, half * 2 * size>>,
                         <<"read", t0 + (lo + half) * 2 * size, size>> >>
         IN IF pivot = a THEN here \o BsSteps(locs, a, 1, lo + half, t0, size)
            ELSE IF ULt8(pivot, a) THEN here \o BsSteps(locs, a, len - half, lo + half, t0, size)
            ELSE here \o BsSteps(locs, a, half, lo, t0, size)

(* specification level: index of the greatest location <= a, or 1 *)
Greatest(locs, a) ==
    LET S == {i \in DOMAIN locs : ULe8(locs[i], a)} IN
    IF S = {} THEN 1 ELSE CHOOSE i \in S : \A j \in S : ULe8(locs[j], locs[i]) /\ (locs[j] = locs[i] => j <= i)
Sorted(locs)   == \A i \in 1..(Len(locs) - 1) : ULe8(locs[i], locs[i + 1])
StrictSorted(locs) == \A i \in 1..(Len(locs) - 1) : ULt8(locs[i], locs[i + 1])

(* EhHdrTable::lookup on an encoded table: result pointer or error.         *)
(* rm = HdrRowMeanings                                                      *)
HdrLookup(h, rm, a) ==
    IF TabSize(h.tenc) = 0 THEN PErr("UnsupportedPointerEncoding")
    ELSE IF ~rm[1].l.ok THEN PErr(rm[1].l.err)
    ELSE IF Len(rm) > 1 /\ PeIndirect(h.tenc) THEN PErr("UnsupportedIndirectPointer")
    ELSE LET i == Lookup(Tup([j \in DOMAIN rm |-> rm[j].l.v]), a)
         IN [ok |-> TRUE, i |-> i, k |-> rm[i].p.k, v |-> rm[i].p.v]

(* EhHdrTable::fde_for_address: lookup, pointer_to_offset, fde_from_offset, *)
(* contains.  ALL entries of the section are reachable by offset (also the  *)
(* ones behind a terminator).                                               *)
HdrFde(es, ems, offs, hm, h, rm, a) ==
    LET lk == HdrLookup(h, rm, a) IN
    IF ~lk.ok THEN lk
    ELSE IF lk.k # "direct" \/ hm.ptr.k # "direct" THEN PErr("UnsupportedIndirectPointer")
    ELSE IF ULt8(lk.v, hm.ptr.v) THEN PErr("OffsetOutOfBounds")            \* checked_sub in pointer_to_offset
    ELSE LET d == Sub8(lk.v, hm.ptr.v)
             J == {j \in DOMAIN es : FitsNat(d) /\ offs[j] = ToNat(d)} IN
         IF J = {} THEN [ok |-> FALSE, err |-> "?:not-an-entry"]
         ELSE LET j == CHOOSE j \in J : TRUE IN
              IF es[j].t = "cie" THEN PErr("NotCiePointer")
              ELSE IF es[j].t # "fde" THEN PErr("NoEntryAtGivenOffset")
              ELSE LET r == ems[j].rec IN
                   IF ~r.p.ok THEN PErr(r.p.err)
                   ELSE IF Contains(r.p, a) THEN [ok |-> TRUE, rec |-> r]
                   ELSE PErr("NoUnwindInfoForAddress")
=============================================================================
