INIT Init
NEXT Next
INVARIANT Inv
CHECK_DEADLOCK FALSE
CONSTANTS
  MaxLen = 3
  FullLen = 1
  MidLen = 2
  MaxLists = 3
