INIT Init
NEXT Next
INVARIANT Inv
CHECK_DEADLOCK FALSE
CONSTANTS
  MaxLen = 3
  FullLen = 2
  MaxLists = 3
