------------------------------ MODULE Convert ------------------------------
(***************************************************************************)
(* Read-to-write conversion (C12): what "meaning" is, and the relation a   *)
(* conversion has to satisfy.                                              *)
(*                                                                         *)
(*   Convert(x) \in {Err} \cup {y : Meaning(y) = Meaning(x)}               *)
(*   Meaning(Convert(Convert(x))) = Meaning(Convert(x))                    *)
(*                                                                         *)
(* A DWARF object is not compared byte by byte: the writer legitimately    *)
(* chooses other forms, abbreviation codes, offsets, string placement,     *)
(* list encodings, line-program opcodes and call-frame instructions.  This *)
(* module defines the PROJECTIONS that are meaning.  Their arguments are   *)
(* mechanical dumps of a DWARF object made with gimli's reader (complete:  *)
(* every attribute, every unwind row; references already resolved to the   *)
(* identity (unit index, preorder index) of their target, lists and file   *)
(* indices resolved by the reader's own resolution functions).  What is    *)
(* dropped from a dump, and how unwind rows become a function of the       *)
(* address, is decided HERE.                                               *)
(*                                                                         *)
(* Dump shapes (JSON -> TLA+ values):                                      *)
(*  unit   [present, ver, fmt, asz, utype, nentries]                       *)
(*  entry  [present, depth, tag, attrs: Seq([name, form, v])]              *)
(*         v is a record tagged by v.k, see AttrMeaning                    *)
(*  line   header [present, dirs, files], sequence [present, rows]         *)
(*  fde    [present, start, len, cie: [...], lsda, rows, fin]              *)
(*  row    [start, end, cfa, rules: Seq([reg, rule]) sorted by reg, args]  *)
(* 64-bit quantities are little-endian byte tuples (BV.tla).               *)
(***************************************************************************)
EXTENDS BV, Sequences, Naturals, Integers, FiniteSets, TLC

Range(s) == {s[i] : i \in DOMAIN s}

(*------------------------------------------------------------------------*)
(* 0. 64-bit arithmetic on byte tuples, non-recursive                      *)
(*------------------------------------------------------------------------*)
(* BV.tla's operators are recursive and slow in TLC; trace validation runs *)
(* these on every unwind row.  MCConvertCfi's `Lemma` checks each of them  *)
(* against BV.tla on a boundary grid.                                      *)
L16(a, j) == a[2 * j - 1] + 256 * a[2 * j]                  \* 16-bit limb j \in 1..4
Pack4(l1, l2, l3, l4) == <<l1 % 256, l1 \div 256, l2 % 256, l2 \div 256, l3 % 256, l3 \div 256, l4 % 256, l4 \div 256>>
Add64c(a, b, cin) ==
    LET s1 == L16(a, 1) + L16(b, 1) + cin
        s2 == L16(a, 2) + L16(b, 2) + s1 \div 65536
        s3 == L16(a, 3) + L16(b, 3) + s2 \div 65536
        s4 == L16(a, 4) + L16(b, 4) + s3 \div 65536
    IN [v |-> Pack4(s1 % 65536, s2 % 65536, s3 % 65536, s4 % 65536), c |-> s4 \div 65536]
Not64(a) == <<255 - a[1], 255 - a[2], 255 - a[3], 255 - a[4], 255 - a[5], 255 - a[6], 255 - a[7], 255 - a[8]>>
Zero64 == <<0, 0, 0, 0, 0, 0, 0, 0>>
Add64(a, b) == Add64c(a, b, 0).v
Sub64(a, b) == Add64c(a, Not64(b), 1).v
Neg64(a)    == Add64c(Not64(a), Zero64, 1).v
ULt64(a, b) ==
    LET ah == a[8] * 65536 + a[7] * 256 + a[6]
        bh == b[8] * 65536 + b[7] * 256 + b[6]
        am == a[5] * 65536 + a[4] * 256 + a[3]
        bm == b[5] * 65536 + b[4] * 256 + b[3]
        al == a[2] * 256 + a[1]
        bl == b[2] * 256 + b[1]
    IN ah < bh \/ (ah = bh /\ (am < bm \/ (am = bm /\ al < bl)))

(*------------------------------------------------------------------------*)
(* 1. Entries and attributes                                               *)
(*------------------------------------------------------------------------*)
(* Attributes the writer regenerates or re-encodes; their value is layout, *)
(* not meaning:                                                            *)
(*   DW_AT_sibling 0x01, DW_AT_stmt_list 0x10 (numeric offset; the line    *)
(*   program itself is compared by LineMeaning), DW_AT_str_offsets_base    *)
(*   0x72, DW_AT_addr_base 0x73, DW_AT_rnglists_base 0x74,                 *)
(*   DW_AT_loclists_base 0x8c, DW_AT_GNU_ranges_base 0x2132,               *)
(*   DW_AT_GNU_addr_base 0x2133.                                           *)
LayoutAttrs == {1, 16, 114, 115, 116, 140, 8498, 8499}

(* The value of an attribute as meaning: the tagged record of the dump     *)
(* without the fields that are encoding (form, raw offsets, index used).   *)
(*   addr v | const cls w v | flag b | string v | block v | ref unit idx   *)
(*   expr ops | ranges list err | locs list err | file found dir name      *)
(*   enum v | sig v | secoff sec v | sup v | lineptr | base                *)
Drop(r, fields) == [f \in (DOMAIN r) \ fields |-> r[f]]
ValMeaning(v) == Drop(v, {"off", "raw", "form", "index"})
AttrMeaning(a) == [name |-> a.name, v |-> ValMeaning(a.v)]

(* Attribute order is not meaning; an entry's attributes are the set of    *)
(* (name, value meaning) pairs outside LayoutAttrs.                        *)
EntryMeaning(e) ==
    [present |-> e.present, depth |-> e.depth, tag |-> e.tag,
     attrs |-> {AttrMeaning(e.attrs[i]) : i \in {j \in DOMAIN e.attrs : e.attrs[j].name \notin LayoutAttrs}}]

(* Unit header: encoding.  Abbreviation offset, unit length and the header *)
(* kind byte (the writer emits DW_UT_compile/partial from the root tag)    *)
(* are layout.                                                             *)
UnitMeaning(u) == [present |-> u.present, ver |-> u.ver, fmt |-> u.fmt, asz |-> u.asz, nentries |-> u.nentries]

(* A file-index attribute (DW_AT_decl_file, DW_AT_call_file, ..., any form) *)
(* means the file entry it resolves to: [k = "file", found, dir, name,      *)
(* unresolved].  An index that names no entry (no line program, or out of   *)
(* the table) keeps its NUMBER in `unresolved`: it must be carried over or  *)
(* refused, it is not "no file" (index 0 of DWARF <= 4).                    *)

(* Re-targeted conversion: the stepwise API lets the caller re-encode a unit *)
(* and its line program for another DWARF version (Unit::set_encoding,       *)
(* read_line_program(Some(encoding), ..)).  The version changes on purpose;  *)
(* file and directory tables are renumbered (indices are 1-based up to       *)
(* version 4, 0-based from 5) and gain or lose the index-0 entries and the   *)
(* fields only one version can hold.  What has to be preserved (or refused): *)
(* every row keeps its resolved file (path and directory) and all its other  *)
(* registers, every file-index attribute keeps the file it resolves to.      *)
RetargetUnitMeaning(u) == [present |-> u.present, fmt |-> u.fmt, asz |-> u.asz, nentries |-> u.nentries]
FileAttrs(e) == {j \in DOMAIN e.attrs : e.attrs[j].v.k = "file"}
RetargetEntryMeaning(e) ==
    [present |-> e.present, depth |-> e.depth, tag |-> e.tag,
     files |-> {AttrMeaning(e.attrs[j]) : j \in FileAttrs(e)}]

(*------------------------------------------------------------------------*)
(* 2. Line programs                                                        *)
(*------------------------------------------------------------------------*)
(* Rows are compared one by one (a sequence is the list of its rows up to  *)
(* and including end_sequence); the file of a row is the resolved path,    *)
(* not the index.  File and directory tables are compared by content: the  *)
(* writer may renumber and de-duplicate entries.                           *)
(* A sequence that consists of its end_sequence row alone maps no address  *)
(* to any line: it has no meaning (conversion rewrites the address of such *)
(* a row because it emits no set_address for a sequence without rows).     *)
(* The end_sequence row only gives the address one past the sequence: its   *)
(* other registers describe no instruction (the writer does not reproduce  *)
(* them: write::LineProgram::end_sequence uses the address offset and       *)
(* op_index only).                                                          *)
RowMeaning(r) == IF r.end THEN [addr |-> r.addr, op_index |-> r.op_index, end |-> TRUE]
                 ELSE Drop(r, {"file_index"})
EmptySeq(s) == Len(s.rows) = 1 /\ s.rows[1].end
SeqMeaning(s) == [present |-> s.present, err |-> s.err,
                  rows |-> IF EmptySeq(s) THEN <<>> ELSE [i \in DOMAIN s.rows |-> RowMeaning(s.rows[i])]]
LineHeaderMeaning(h) == [present |-> h.present, dirs |-> Range(h.dirs), files |-> Range(h.files)]

(*------------------------------------------------------------------------*)
(* 3. Frame tables: the unwind meaning of an FDE                           *)
(*------------------------------------------------------------------------*)
(* The meaning of an FDE's instructions is the partial function            *)
(*     address in [start, start+len)  |->  (CFA rule, register rules, args)*)
(* represented as the list of maximal intervals (as offsets from start)    *)
(* with equal rules.  Conversion legitimately merges instructions at equal *)
(* offsets, drops nops and empty rows and re-chooses advance_loc forms, so *)
(* row lists are NOT compared.                                             *)
RowBody(r) == [cfa |-> r.cfa, rules |-> r.rules, args |-> r.args]

(* offset of address a from the FDE start, modulo 2^64 *)
Off(a, start) == Sub64(a, start)

(* clip one row to [0, len): <<lo, hi>> or <<>> when nothing remains *)
Clip(r, start, len) ==
    LET lo == Off(r.start, start)
        hi == Off(r.end, start) IN
    IF ~ULt64(lo, len) \/ ~ULt64(lo, hi) THEN <<>>
    ELSE <<[lo |-> lo, hi |-> IF ULt64(len, hi) THEN len ELSE hi, body |-> RowBody(r)]>>

RECURSIVE MergeInto(_, _)
MergeInto(acc, rest) ==
    IF rest = <<>> THEN acc
    ELSE LET x == Head(rest) IN
         IF acc # <<>> /\ acc[Len(acc)].hi = x.lo /\ acc[Len(acc)].body = x.body
         THEN MergeInto([acc EXCEPT ![Len(acc)].hi = x.hi], Tail(rest))
         ELSE MergeInto(Append(acc, x), Tail(rest))

RECURSIVE ClipAll(_, _, _)
ClipAll(rows, start, len) ==
    IF rows = <<>> THEN <<>> ELSE Clip(Head(rows), start, len) \o ClipAll(Tail(rows), start, len)

Unwind(rows, start, len) == MergeInto(<<>>, ClipAll(rows, start, len))

(* CIE parameters that are meaning: return address register, personality   *)
(* (pointer, its encoding, direct/indirect), LSDA encoding, signal frame.  *)
(* Code and data alignment factors matter only through the unwind meaning; *)
(* CIE version, address size and the FDE pointer encoding are layout.      *)
FdeMeaning(f) ==
    [present |-> f.present, start |-> f.start, len |-> f.len,
     ra |-> f.cie.ra, pers_enc |-> f.cie.pers_enc, pers |-> f.cie.pers, lsda_enc |-> f.cie.lsda_enc,
     signal |-> f.cie.signal, lsda |-> f.lsda,
     unwind |-> Unwind(f.rows, f.start, f.len), fin |-> f.fin]

(*------------------------------------------------------------------------*)
(* 4. The relation                                                         *)
(*------------------------------------------------------------------------*)
(* `M` is one of the meaning projections above; min/mout/mout2 are the     *)
(* dumps of the input, of the written conversion, and of the written       *)
(* conversion of that output.                                              *)
Preserved(M(_), min, mout)      == M(mout) = M(min)
Reproduced(M(_), mout, mout2)   == M(mout2) = M(mout)
ConvertOk(M(_), min, mout, mout2) == Preserved(M, min, mout) /\ Reproduced(M, mout, mout2)
=============================================================================
