---------------------------- MODULE MCOpDecode ----------------------------
(* Every opcode byte 0x00..0xff x operand patterns x truncations x         *)
(* encodings: the operands Operation::parse must report (C07, decoding).   *)
EXTENDS OpCodec, TLC, Json
VARIABLE c

Rep(b, n) == [i \in 1..n |-> b]
Tails == { <<1, 2, 3, 4, 5, 6, 7, 8, 9, 10, 11, 12>>,
           Rep(255, 12),
           <<129, 127, 128, 1, 2, 170, 187, 204, 221, 238, 255, 0>>,
           Rep(0, 12),
           <<3, 133, 1, 0, 0, 9, 9, 9, 9, 9, 9, 9>>,
           <<2, 255, 255, 255, 255, 15, 7, 7, 7, 7, 7, 7>>,
           <<0, 255, 255, 255, 255, 31, 7, 7, 7, 7, 7, 7>>,
           Rep(128, 8) \o <<32, 1, 2, 3>>,
           Rep(128, 8) \o <<31, 1, 2, 3>>,
           <<4, 1, 2, 3, 4, 5, 6, 7, 8, 9, 10, 11>>,
           <<200, 1, 126, 5, 4, 3, 2, 1, 0, 0, 0, 0>>,
           <<255, 255, 3, 126, 5, 4, 3, 2, 1, 0, 0, 0>>,
           <<255, 255, 4, 126, 5, 4, 3, 2, 1, 0, 0, 0>> }
Encs == { [asz |-> 1, fmt |-> 4, ver |-> 4, le |-> TRUE], [asz |-> 2, fmt |-> 4, ver |-> 2, le |-> FALSE],
          [asz |-> 4, fmt |-> 4, ver |-> 2, le |-> TRUE], [asz |-> 8, fmt |-> 8, ver |-> 5, le |-> TRUE],
          [asz |-> 8, fmt |-> 4, ver |-> 4, le |-> FALSE], [asz |-> 4, fmt |-> 8, ver |-> 5, le |-> FALSE] }

Init == c \in [o : 0..255, stage : {0}]
Next == /\ c.stage = 0
        /\ \E t \in Tails : \E l \in {0, 1, 2, 3, 5, 9, 12} : \E e \in Encs :
             c' = [o |-> c.o, stage |-> 1, enc |-> e, code |-> <<c.o>> \o SubSeq(t, 1, l)]
Inv == c.stage = 1 =>
         LET d == DecodeAt(c.code, 0, c.enc) IN
         /\ (~IsDE(d) => d.len >= 1 /\ d.len <= Len(c.code))
         /\ PrintT(<<"CASE", ToJson([sys |-> "opdecode", code |-> c.code, asz |-> c.enc.asz, fmt |-> c.enc.fmt,
                                     ver |-> c.enc.ver, le |-> c.enc.le, exp |-> d])>>)
=============================================================================
