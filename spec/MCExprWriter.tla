---------------------------- MODULE MCExprWriter ----------------------------
(* Bounded exploration of the expression builder (C15): every sequence of   *)
(* at most MaxLen builder calls over the alphabet `Calls` x encodings x     *)
(* contexts.  For each sequence TLC checks, on the specification's own      *)
(* emission, that decoding yields the meaning of every call, that branches  *)
(* land on the intended operation and that the predicted size equals the    *)
(* emitted length; it then emits a replay case with the expected decoded    *)
(* operations (entry references as names) and the expected evaluation.      *)
EXTENDS ExprWriter, Expr, TLC, Json
CONSTANTS MaxLen, Slice, Ctxs, Encs
VARIABLES cs, cf, done

B8(n) == FromNat(n, 8)
M1 == Ones(8)
Names == {"B1", "T1", "T2", "X1", "X2"}
(* example offsets for the design-level check: one-byte, two-byte ULEB and large *)
NumF == [n \in Names |-> CASE n = "B1" -> B8(11) [] n = "T1" -> B8(300) [] n = "T2" -> B8(70000)
                           [] n = "X1" -> <<120, 86, 52, 18, 0, 0, 0, 0>> [] OTHER -> B8(21)]
NumRes == [unit |-> NumF, info |-> NumF]
SymF   == [n \in Names |-> n]
SymRes == [unit |-> SymF, info |-> SymF]

Core == {
  [c |-> "op", code |-> 34], [c |-> "op", code |-> 159], [c |-> "op", code |-> 150], [c |-> "op", code |-> 19],
  [c |-> "constu", v |-> B8(0)], [c |-> "constu", v |-> B8(31)], [c |-> "constu", v |-> B8(32)], [c |-> "constu", v |-> B8(127)],
  [c |-> "constu", v |-> B8(128)], [c |-> "constu", v |-> <<0, 0, 0, 0, 1, 0, 0, 0>>], [c |-> "constu", v |-> M1],
  [c |-> "consts", v |-> B8(0)], [c |-> "consts", v |-> M1], [c |-> "consts", v |-> B8(63)], [c |-> "consts", v |-> B8(64)],
  [c |-> "consts", v |-> FromInt(-64, 8)], [c |-> "consts", v |-> FromInt(-65, 8)], [c |-> "consts", v |-> <<0, 0, 0, 0, 0, 0, 0, 128>>],
  [c |-> "consts", v |-> FromInt(-8192, 8)], [c |-> "consts", v |-> FromInt(-8193, 8)], [c |-> "consts", v |-> FromInt(8191, 8)],
  [c |-> "consts", v |-> FromInt(8192, 8)], [c |-> "consts", v |-> FromInt(-1048576, 8)], [c |-> "consts", v |-> FromInt(1048575, 8)],
  [c |-> "fbreg", off |-> FromInt(-8192, 8)], [c |-> "breg", reg |-> 3, off |-> FromInt(-1048576, 8)],
  [c |-> "constu", v |-> B8(16383)], [c |-> "constu", v |-> B8(16384)], [c |-> "plus_uconst", v |-> B8(2097152)],
  [c |-> "fbreg", off |-> B8(0)], [c |-> "fbreg", off |-> M1], [c |-> "fbreg", off |-> B8(64)],
  [c |-> "breg", reg |-> 0, off |-> B8(0)], [c |-> "breg", reg |-> 31, off |-> M1], [c |-> "breg", reg |-> 32, off |-> B8(1)],
  [c |-> "breg", reg |-> 65535, off |-> B8(64)],
  [c |-> "pick", index |-> 0], [c |-> "pick", index |-> 1], [c |-> "pick", index |-> 2], [c |-> "pick", index |-> 255],
  [c |-> "deref", space |-> FALSE], [c |-> "deref", space |-> TRUE],
  [c |-> "deref_size", space |-> FALSE, size |-> 1], [c |-> "deref_size", space |-> TRUE, size |-> 4],
  [c |-> "plus_uconst", v |-> B8(0)], [c |-> "plus_uconst", v |-> B8(128)],
  [c |-> "reg", reg |-> 0], [c |-> "reg", reg |-> 31], [c |-> "reg", reg |-> 32], [c |-> "reg", reg |-> 1000],
  [c |-> "reg", reg |-> 256], [c |-> "reg", reg |-> 287], [c |-> "reg", reg |-> 288], [c |-> "reg", reg |-> 4101],
  [c |-> "breg", reg |-> 256, off |-> B8(0)], [c |-> "breg", reg |-> 543, off |-> M1],
  [c |-> "implicit_value", data |-> <<>>], [c |-> "implicit_value", data |-> <<1, 2, 3>>],
  [c |-> "piece", n |-> B8(0)], [c |-> "piece", n |-> B8(1)], [c |-> "piece", n |-> B8(128)],
  [c |-> "bit_piece", bits |-> B8(1), bitoff |-> B8(0)], [c |-> "bit_piece", bits |-> B8(128), bitoff |-> B8(300)],
  [c |-> "wasm", which |-> "local", index |-> <<0, 0, 0, 0>>], [c |-> "wasm", which |-> "global", index |-> <<128, 0, 0, 0>>],
  [c |-> "wasm", which |-> "stack", index |-> <<255, 255, 255, 255>>],
  [c |-> "addr", v |-> B8(0)], [c |-> "addr", v |-> <<0, 16, 0, 0, 0, 0, 0, 0>>] }
Branches == {[c |-> k, target |-> t] : k \in {"skip", "bra"}, t \in 0..MaxLen}
Refs == {
  [c |-> "const_type", base |-> "B1", data |-> <<1>>], [c |-> "const_type", base |-> "B1", data |-> <<1, 2, 3, 4, 5, 6, 7, 8>>],
  [c |-> "const_type", base |-> "B1", data |-> [i \in 1..256 |-> i % 256]],
  [c |-> "regval_type", reg |-> 5, base |-> "B1"], [c |-> "regval_type", reg |-> 40, base |-> "B1"],
  [c |-> "deref_type", space |-> FALSE, size |-> 4, base |-> "B1"], [c |-> "deref_type", space |-> TRUE, size |-> 2, base |-> "B1"],
  [c |-> "convert", base |-> "B1"], [c |-> "convert", base |-> "none"],
  [c |-> "reinterpret", base |-> "B1"], [c |-> "reinterpret", base |-> "none"],
  [c |-> "call", ent |-> "T1"], [c |-> "call", ent |-> "T2"],
  [c |-> "call_ref", ent |-> "T1"], [c |-> "call_ref", ent |-> "T2"], [c |-> "call_ref", ent |-> "X1"], [c |-> "call_ref", ent |-> "X2"],
  [c |-> "variable_value", ent |-> "T1"],
  [c |-> "implicit_pointer", ent |-> "T1", off |-> B8(0)], [c |-> "implicit_pointer", ent |-> "X2", off |-> M1],
  [c |-> "parameter_ref", ent |-> "T1"], [c |-> "parameter_ref", ent |-> "T2"],
  [c |-> "entry_value", sub |-> <<[c |-> "reg", reg |-> 0]>>],
  [c |-> "entry_value", sub |-> <<[c |-> "constu", v |-> B8(5)], [c |-> "fbreg", off |-> B8(3)]>>],
  [c |-> "entry_value", sub |-> <<[c |-> "regval_type", reg |-> 1, base |-> "B1"]>>] }
Arith == {
  [c |-> "constu", v |-> B8(1)], [c |-> "constu", v |-> B8(40)], [c |-> "consts", v |-> M1],
  [c |-> "pick", index |-> 0], [c |-> "pick", index |-> 1], [c |-> "op", code |-> 34], [c |-> "op", code |-> 36],
  [c |-> "op", code |-> 19], [c |-> "op", code |-> 159], [c |-> "plus_uconst", v |-> B8(3)], [c |-> "piece", n |-> B8(2)] }

(* directed sequences around the 16-bit branch displacement limit *)
Blob(n) == [c |-> "implicit_value", data |-> [i \in 1..n |-> i % 251]]
Far == { <<[c |-> "skip", target |-> 2], Blob(32763), [c |-> "constu", v |-> B8(1)]>>,      \* +32767: fits
         <<[c |-> "skip", target |-> 2], Blob(32764), [c |-> "constu", v |-> B8(1)]>>,      \* +32768: too far
         <<[c |-> "bra", target |-> 3], Blob(40000), [c |-> "op", code |-> 150]>>,
         <<[c |-> "constu", v |-> B8(1)], Blob(32760), [c |-> "bra", target |-> 0]>>,       \* -32768: fits
         <<[c |-> "constu", v |-> B8(1)], Blob(32761), [c |-> "skip", target |-> 0]>>,      \* -32769: too far
         <<[c |-> "constu", v |-> B8(1)], Blob(32761), [c |-> "skip", target |-> 1]>>,      \* -32768 from op 1: fits
         <<Blob(65531)>>,                                 \* 1 + 3 + 65531 = 65535 bytes: fits a 2-byte length
         <<Blob(65532)>>,                                 \* 65536 bytes: too long for a pre-v5 location list entry
         <<Blob(40000), Blob(40000)>> }

Calls == CASE Slice = "core" -> Core \cup Branches
           [] Slice = "refs" -> Refs \cup {[c |-> "constu", v |-> B8(32)], [c |-> "skip", target |-> 0], [c |-> "bra", target |-> 2]}
           [] OTHER -> Arith \cup Branches

(* an encoding is written asz*100 + fmt*10 + ver in the cfg file, e.g. 845 *)
EncOf(e) == [asz |-> e \div 100, fmt |-> (e \div 10) % 10, ver |-> e % 10, le |-> TRUE]

Init == /\ cs = <<>> /\ done = FALSE
        /\ cf \in {[enc |-> EncOf(e), ctx |-> x] : e \in Encs, x \in Ctxs}
Next == /\ ~done
        /\ \/ /\ Slice = "far" /\ cs = <<>> /\ \E q \in Far : cs' = q
              /\ UNCHANGED <<cf, done>>
           \/ /\ Slice # "far" /\ Len(cs) < MaxLen
              /\ \E k \in Calls : cs' = Append(cs, k)
              /\ UNCHANGED <<cf, done>>
           \/ /\ cs # <<>> /\ done' = TRUE /\ UNCHANGED <<cs, cf>>

(* a finished sequence is well-formed when every branch target is an index <= Len and not itself *)
WellFormed == \A i \in DOMAIN cs : cs[i].c \in {"skip", "bra"} => cs[i].target <= Len(cs) /\ cs[i].target # i - 1

MustFail == TooLong(cs, cf.enc) \/ BranchTooFar(cs, cf.enc, NumRes) \/ TooBigForLocList(cs, cf.enc, NumRes, cf.ctx) \/ (cf.ctx = "cfi" /\ HasRef(cs))
MayFail  == Forward(cs)

RECURSIVE MeanSeq(_, _, _)
MeanSeq(s, enc, res) == [i \in DOMAIN s |->
    IF s[i].c = "entry_value" THEN [k |-> "entry_value", sub |-> MeanSeq(s[i].sub, enc, res)]
    ELSE Mean(s[i], enc, res)]

(* design-level theorem on the specification's own emission *)
Theorem == (done /\ WellFormed /\ ~TooLong(cs, cf.enc) /\ ~BranchTooFar(cs, cf.enc, NumRes)) =>
    LET b == EmitSeq(cs, cf.enc, NumRes, 0) IN
    /\ Matches(cs, b, cf.enc, NumRes)
    /\ PredictedSize(cs, cf.enc, NumRes) = Len(b)

EvalCfg == [asz |-> cf.enc.asz, fmt |-> cf.enc.fmt, ver |-> cf.enc.ver, le |-> TRUE, maxiter |-> 20, obj |-> <<>>,
            cap |-> 0, ecap |-> 0, pcap |-> 0]
EvalExp == IF HasRef(cs) THEN [o |-> "skipped"]
           ELSE LET st == Run(Start(EvalCfg, EmitSeq(cs, cf.enc, NumRes, 0), <<>>), EvalCfg) IN
                CASE st.mode = "complete" -> [o |-> "complete", pieces |-> Len(st.pieces),
                                              value |-> IF st.vres.t = "generic" THEN st.vres.v ELSE <<>>]
                  [] st.mode = "error" -> [o |-> "error", kind |-> st.err]
                  [] st.mode = "wait" -> [o |-> "requires"]
                  [] OTHER -> [o |-> "opaque"]

Emit == (done /\ WellFormed) =>
    PrintT(<<"CASE", ToJson([sys |-> "exprw", ctx |-> cf.ctx, asz |-> cf.enc.asz, fmt |-> cf.enc.fmt, ver |-> cf.enc.ver,
                             calls |-> cs,
                             exp |-> [mustfail |-> MustFail, mayfail |-> MayFail,
                                      ops |-> MeanSeq(cs, cf.enc, SymRes),
                                      eval |-> IF Slice = "arith" THEN EvalExp ELSE [o |-> "skipped"]]])>>)
=============================================================================
