---------------------------- MODULE ConvertTrace ----------------------------
(***************************************************************************)
(* Trace validation of read->write conversion (C12).  Every event carries  *)
(* three dumps made with gimli's reader: `min` of the input, `mout` of the *)
(* written conversion, `mout2` of the written conversion of that output.   *)
(* An event is accepted iff the meaning projection of Convert.tla is       *)
(* preserved (mout vs min) and reproduced (mout2 vs mout).  One event per  *)
(* unit / entry / line header / line sequence / FDE, so that a rejection   *)
(* names the smallest part that differs.                                   *)
(*                                                                         *)
(*   ConvUnit, ConvEntry, ConvLineHeader, ConvLineSeq, ConvFde             *)
(*   ConvDone       counts of parts on the three sides must agree          *)
(*   ConvertFailed  conversion or writing returned an error: allowed       *)
(*   InputRejected  gimli's reader does not accept the input: not covered  *)
(*   Abnormal       panic / abort / unreadable output: no action           *)
(*                                                                         *)
(* Events with a field `exp` come from MCConvertCfi: `exp.unwind` is the   *)
(* unwind meaning the specification computed for the generated input; the  *)
(* output (and gimli's reading of the input) must have exactly it.         *)
(***************************************************************************)
EXTENDS Convert, Json, IOUtils
VARIABLE l
Rec == ndJsonDeserialize(IOEnv.TRACE)
IsEv(e) == l <= Len(Rec) /\ Rec[l].ev = e /\ l' = l + 1

(* the second conversion must succeed whenever the first did *)
Again(r) == r.again.ok

(* Convert!ConvertOk(M, min, mout, mout2) with every projection evaluated once *)
Ok3(M(_), r) == LET a == M(r.min)
                    b == M(r.mout)
                    c == M(r.mout2) IN b = a /\ c = b

ConvUnit == IsEv("ConvUnit") /\ LET r == Rec[l] IN Again(r) /\ Ok3(UnitMeaning, r)
ConvEntry == IsEv("ConvEntry") /\ LET r == Rec[l] IN Again(r) /\ Ok3(EntryMeaning, r)
ConvLineHeader == IsEv("ConvLineHeader") /\ LET r == Rec[l] IN Again(r) /\ Ok3(LineHeaderMeaning, r)
ConvLineSeq == IsEv("ConvLineSeq") /\ LET r == Rec[l] IN Again(r) /\ Ok3(SeqMeaning, r)
ConvFde == IsEv("ConvFde") /\ LET r == Rec[l]
                                  a == FdeMeaning(r.min)
                                  b == FdeMeaning(r.mout)
                                  c == FdeMeaning(r.mout2) IN
    /\ Again(r)
    /\ b = a /\ c = b
    /\ ("exp" \in DOMAIN r) => (b.unwind = r.exp.unwind /\ b.fin = "end")
ConvDone == IsEv("ConvDone") /\ LET r == Rec[l] IN
    Again(r) /\ r.nout = r.nin /\ r.nout2 = r.nout
ConvertFailed == IsEv("ConvertFailed")
InputRejected == IsEv("InputRejected")

Init == l = 1
Next == ConvUnit \/ ConvEntry \/ ConvLineHeader \/ ConvLineSeq \/ ConvFde \/ ConvDone
        \/ ConvertFailed \/ InputRejected
Accepted == LET d == TLCGet("stats").diameter IN
            IF d - 1 = Len(Rec) THEN TRUE
            ELSE Print(<<"UNMATCHED", d, "x">>, FALSE)
=============================================================================
