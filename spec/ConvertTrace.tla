---------------------------- MODULE ConvertTrace ----------------------------
(***************************************************************************)
(* Trace validation of read->write conversion (C12).  Every event carries  *)
(* three dumps made with gimli's reader: `min` of the input, `mout` of the *)
(* written conversion, `mout2` of the written conversion of that output.   *)
(* An event is accepted iff the meaning projection of Convert.tla is       *)
(* preserved (mout vs min) and reproduced (mout2 vs mout).  One event per  *)
(* unit / entry / line header / line sequence / FDE, so that a rejection   *)
(* names the smallest part that differs.                                   *)
(*                                                                         *)
(*   ConvUnit, ConvEntry, ConvLineHeader, ConvLineSeq, ConvFde             *)
(*   ConvDone       counts of parts on the three sides must agree          *)
(*   ConvertFailed  conversion or writing returned an error: allowed       *)
(*   InputRejected  gimli's reader does not accept the input: not covered  *)
(*   Abnormal       panic / abort / unreadable output: no action           *)
(*                                                                         *)
(* Events with a field `exp` come from MCConvertCfi: `exp.unwind` is the   *)
(* unwind meaning the specification computed for the generated input; the  *)
(* output (and gimli's reading of the input) must have exactly it.         *)
(***************************************************************************)
EXTENDS Convert, Json, IOUtils
VARIABLE l
Rec == ndJsonDeserialize(IOEnv.TRACE)
IsEv(e) == l <= Len(Rec) /\ Rec[l].ev = e /\ l' = l + 1

(* the second conversion must succeed whenever the first did *)
Again(r) == r.again.ok

ConvUnit == IsEv("ConvUnit") /\ LET r == Rec[l] IN
    Again(r) /\ ConvertOk(UnitMeaning, r.min, r.mout, r.mout2)
ConvEntry == IsEv("ConvEntry") /\ LET r == Rec[l] IN
    Again(r) /\ ConvertOk(EntryMeaning, r.min, r.mout, r.mout2)
ConvLineHeader == IsEv("ConvLineHeader") /\ LET r == Rec[l] IN
    Again(r) /\ ConvertOk(LineHeaderMeaning, r.min, r.mout, r.mout2)
ConvLineSeq == IsEv("ConvLineSeq") /\ LET r == Rec[l] IN
    Again(r) /\ ConvertOk(SeqMeaning, r.min, r.mout, r.mout2)
ConvFde == IsEv("ConvFde") /\ LET r == Rec[l] IN
    /\ Again(r)
    /\ ConvertOk(FdeMeaning, r.min, r.mout, r.mout2)
    /\ ("exp" \in DOMAIN r) => /\ FdeMeaning(r.mout).unwind = r.exp.unwind
                               /\ FdeMeaning(r.mout).fin = "end"
ConvDone == IsEv("ConvDone") /\ LET r == Rec[l] IN
    Again(r) /\ r.nout = r.nin /\ r.nout2 = r.nout
ConvertFailed == IsEv("ConvertFailed")
InputRejected == IsEv("InputRejected")

Init == l = 1
Next == ConvUnit \/ ConvEntry \/ ConvLineHeader \/ ConvLineSeq \/ ConvFde \/ ConvDone
        \/ ConvertFailed \/ InputRejected
Accepted == LET d == TLCGet("stats").diameter IN
            IF d - 1 = Len(Rec) THEN TRUE
            ELSE Print(<<"UNMATCHED", d, "x">>, FALSE)
=============================================================================
