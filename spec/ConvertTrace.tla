---------------------------- MODULE ConvertTrace ----------------------------
(***************************************************************************)
(* Trace validation of read->write conversion (C12).  Every event carries  *)
(* three dumps made with gimli's reader: `min` of the input, `mout` of the *)
(* written conversion, `mout2` of the written conversion of that output.   *)
(* An event is accepted iff the meaning projection of Convert.tla is       *)
(* preserved (mout vs min) and reproduced (mout2 vs mout).  One event per  *)
(* unit / entry / line header / line sequence / FDE, so that a rejection   *)
(* names the smallest part that differs.                                   *)
(*                                                                         *)
(*   ConvUnit, ConvEntry, ConvLineHeader, ConvLineSeq, ConvFde             *)
(*   ConvRetargetUnit / Entry / Seq  stepwise conversion that re-encodes   *)
(*                  for another DWARF version (Convert.tla section 1)      *)
(*   ConvDone       counts of parts on the three sides must agree          *)
(*   ConvertFailed  conversion or writing returned an error: allowed       *)
(*   InputRejected  gimli's reader does not accept the input: not covered  *)
(*   Abnormal       panic / abort / unreadable output: never explained     *)
(*                                                                         *)
(* Events with a field `exp` come from MCConvertCfi: `exp.unwind` is the   *)
(* unwind meaning the specification computed for the generated input; the  *)
(* output (and gimli's reading of the input) must have exactly it.         *)
(***************************************************************************)
EXTENDS Convert, Json, IOUtils
VARIABLE l
Rec == ndJsonDeserialize(IOEnv.TRACE)
IsEv(e) == l <= Len(Rec) /\ Rec[l].ev = e /\ l' = l + 1

(* the second conversion must succeed whenever the first did *)
Again(r) == r.again.ok

(* Convert!ConvertOk(M, min, mout, mout2) with every projection evaluated once *)
Ok3(M(_), r) == LET a == M(r.min)
                    b == M(r.mout)
                    c == M(r.mout2) IN b = a /\ c = b

ConvUnit(r)       == Again(r) /\ Ok3(UnitMeaning, r)
ConvEntry(r)      == Again(r) /\ Ok3(EntryMeaning, r)
ConvLineHeader(r) == Again(r) /\ Ok3(LineHeaderMeaning, r)
ConvLineSeq(r)    == Again(r) /\ Ok3(SeqMeaning, r)
ConvFde(r) == LET a == FdeMeaning(r.min)
                  b == FdeMeaning(r.mout)
                  c == FdeMeaning(r.mout2) IN
    /\ Again(r)
    /\ b = a /\ c = b
    /\ ("exp" \in DOMAIN r) => (b.unwind = r.exp.unwind /\ b.fin = "end")
    (* cases of MCConvertEh also say what the augmentation pointers mean *)
    /\ ("exp" \in DOMAIN r /\ "pers" \in DOMAIN r.exp) =>
          /\ b.start = r.exp.start /\ b.len = r.exp.len
          /\ b.pers = r.exp.pers /\ b.pers_enc = r.exp.pers_enc
          /\ b.lsda_enc = r.exp.lsda_enc /\ b.lsda = r.exp.lsda
          /\ b.signal = r.exp.signal
(* re-targeted conversion (r.tv = target version); the second conversion of  *)
(* the output is an ordinary one                                             *)
ConvRetargetUnit(r)  == Again(r) /\ Ok3(RetargetUnitMeaning, r)
                        /\ (r.mout.present => r.mout.ver = r.tv) /\ r.mout2.ver = r.mout.ver
ConvRetargetEntry(r) == Again(r) /\ Ok3(RetargetEntryMeaning, r) /\ EntryMeaning(r.mout2) = EntryMeaning(r.mout)
ConvRetargetSeq(r)   == Again(r) /\ Ok3(SeqMeaning, r)
ConvDone(r) == Again(r) /\ r.nout = r.nin /\ r.nout2 = r.nout

(* An event is explained iff the relation of Convert.tla holds for it.  Failing *)
(* is allowed; an abnormal end (panic, abort, unreadable output) or an unknown  *)
(* event kind is never explained.                                               *)
Explained(r) ==
    CASE r.ev = "ConvUnit"       -> ConvUnit(r)
      [] r.ev = "ConvEntry"      -> ConvEntry(r)
      [] r.ev = "ConvLineHeader" -> ConvLineHeader(r)
      [] r.ev = "ConvLineSeq"    -> ConvLineSeq(r)
      [] r.ev = "ConvFde"        -> ConvFde(r)
      [] r.ev = "ConvRetargetUnit"  -> ConvRetargetUnit(r)
      [] r.ev = "ConvRetargetEntry" -> ConvRetargetEntry(r)
      [] r.ev = "ConvRetargetSeq"   -> ConvRetargetSeq(r)
      [] r.ev = "ConvDone"       -> ConvDone(r)
      [] r.ev = "ConvertFailed"  -> TRUE
      [] r.ev = "InputRejected"  -> TRUE
      [] OTHER                   -> FALSE

(* One step per event.  An unexplained event is REJECTED: TLC prints its index  *)
(* and goes on, so that one run names every rejected event of the trace (the    *)
(* driver turns each into a violation); the trace is accepted iff nothing was   *)
(* printed.                                                                     *)
Init == l = 1
Next == /\ l <= Len(Rec)
        /\ l' = l + 1
        /\ (Explained(Rec[l]) \/ PrintT(<<"REJECTED", l>>))
Accepted == LET d == TLCGet("stats").diameter IN
            IF d - 1 = Len(Rec) THEN TRUE
            ELSE Print(<<"UNMATCHED", d, "x">>, FALSE)
=============================================================================
