----------------------------- MODULE MCCfiExec -----------------------------
(***************************************************************************)
(* Bounded models of CfiExec (C06).                                        *)
(*                                                                         *)
(* Mode "prog" (Init/Next/Inv): programs grow one instruction at a time,   *)
(* CIE initial instructions first, then `EndCie` (= rest of initialize:    *)
(* final CIE row, save_initial_rules, new_for_fde), then FDE instructions. *)
(* Each step feeds the appended instruction to                             *)
(*   - the machine as coded on every storage of `Storages` (tiny custom    *)
(*     storages, StoreOnHeap's 4 rows / 192 rules, Vec-backed unbounded),  *)
(*   - the machine under the Default vendor (negate_ra_state unknown),     *)
(*   - the reference semantics,                                            *)
(* so one TLC state = one (CIE program, FDE program) pair, and TLC checks  *)
(* in every state that each machine refines the reference (or reports the  *)
(* justified storage-limit error after a prefix of the reference's rows).  *)
(* Every complete state prints one replay case: the encoded .debug_frame   *)
(* section and, per storage, the rows and the final result.                *)
(*                                                                         *)
(* Mode "bytes" (InitB/NextB/InvB): FDE instruction *bytes* grow one byte  *)
(* at a time over a class alphabet; expectations come from DecodeAll + the *)
(* machine; this covers the decoder (unknown opcodes, truncation, extended *)
(* encodings, vendor-specific 0x2d).                                       *)
(*                                                                         *)
(* Mode "grid" (InitG/NextG/InvG): single instructions / pairs with 64-bit *)
(* boundary operands under every alignment-factor / address-size choice.   *)
(*                                                                         *)
(* Mode "deep" (InitD/NextD/InvD): directed programs that reach a storage  *)
(* limit exactly and exceed it by one (N distinct register rules, N nested *)
(* remember_state) followed by one probe instruction.                      *)
(***************************************************************************)
EXTENDS CfiExec, Json
CONSTANTS Plan, MaxBytes, Quick
VARIABLES c, m, md, rf, need, stopped
vars == <<c, m, md, rf, need, stopped>>

Storages == {"s22", "s31", "heap", "vec"}
Cap(s) == CASE s = "s22" -> [rows |-> 2, rules |-> 2]
            [] s = "s31" -> [rows |-> 3, rules |-> 1]
            [] s = "heap" -> [rows |-> 4, rules |-> 192]
            [] s = "vec" -> [rows |-> Unbounded, rules |-> Unbounded]
Fresh(s) == NewCtx(Cap(s).rows, Cap(s).rules)

(* core configuration: 8-bit target, code alignment 2, data alignment -8;  *)
(* the FDE covers [251, 253): two advances reach its end, a third          *)
(* overflows the address size                                              *)
Cfg == [asz |-> 1, caf |-> Nat8(2), daf |-> Int8(-8), ver |-> 4, le |-> TRUE, ra |-> 1,
        start |-> Nat8(251), range |-> Nat8(2)]
Probe == <<0, 1, 2, 34>>

OpNop == 150                                    \* DW_OP_nop, a one-byte expression
T(op) == [op |-> op]
Core == { [op |-> "AdvanceLoc", d |-> Nat8(1)],
          [op |-> "SetLoc", a |-> Nat8(254)],
          [op |-> "DefCfa", r |-> 1, o |-> Nat8(1)],
          [op |-> "DefCfaRegister", r |-> 1],
          [op |-> "DefCfaOffsetSf", f |-> Int8(-1)],
          [op |-> "DefCfaExpression", x |-> <<OpNop>>],
          [op |-> "Offset", r |-> 0, f |-> Nat8(1)],
          [op |-> "ValOffsetSf", r |-> 1, f |-> Int8(-1)],
          [op |-> "Undefined", r |-> 0],
          [op |-> "Register", r |-> 1, s |-> 0],
          [op |-> "Restore", r |-> 0],
          [op |-> "Restore", r |-> 1],
          T("RememberState"), T("RestoreState"),
          [op |-> "ArgsSize", s |-> Nat8(1)],
          T("NegateRaState") }
Extra == { [op |-> "DefCfaSf", r |-> 0, f |-> Int8(-1)],
           [op |-> "DefCfaOffset", o |-> Nat8(1)],
           [op |-> "SameValue", r |-> 1],
           [op |-> "Expression", r |-> 0, x |-> <<OpNop>>],
           [op |-> "ValExpression", r |-> 1, x |-> <<>>],
           [op |-> "OffsetExtendedSf", r |-> 1, f |-> Int8(-1)],
           [op |-> "ValOffset", r |-> 0, f |-> Nat8(1)],
           T("Nop") }
(* the instructions that matter for the stack / initial-rule machinery     *)
Slim == { [op |-> "AdvanceLoc", d |-> Nat8(1)],
          [op |-> "DefCfaExpression", x |-> <<OpNop>>],
          [op |-> "DefCfaOffsetSf", f |-> Int8(-1)],
          [op |-> "Offset", r |-> 0, f |-> Nat8(1)],
          [op |-> "ValOffsetSf", r |-> 1, f |-> Int8(-1)],
          [op |-> "Restore", r |-> 0],
          [op |-> "Restore", r |-> 1],
          T("RememberState"), T("RestoreState"),
          T("NegateRaState") }
AlphabetOf(a) == CASE a = "core" -> Core
                   [] a = "wide" -> Core \cup Extra
                   [] a = "slim" -> Slim
                   [] a = "ini"  -> Slim      \* FDE over Slim after a CIE that only sets initial rules
IsLoc(t) == t.op \in {"AdvanceLoc", "SetLoc"}
(* what one TLC run explores: a set of (alphabet, bounds) plans, one initial state each *)
P(a, mc, mf, mt) == [alpha |-> a, maxcie |-> mc, maxfde |-> mf, maxtotal |-> mt]
Plans == CASE Plan = "tiny"     -> {P("core", 1, 1, 2)}
           [] Plan = "quick"    -> {P("core", 2, 3, 3), P("slim", 2, 3, 4), P("ini", 2, 3, 5)}
           [] Plan = "thorough" -> {P("core", 2, 3, 4), P("slim", 2, 4, 5), P("ini", 2, 4, 6), P("wide", 1, 3, 3)}
(* in the quick tier the CIE draws from the instructions that shape what   *)
(* the FDE starts from: 0 / 1 / 2 / 3 initial rules, register or expression*)
(* CFA, remembered rows, args size, and the invalid restore                *)
CieQuick == { [op |-> "DefCfa", r |-> 1, o |-> Nat8(1)],
              [op |-> "DefCfaExpression", x |-> <<OpNop>>],
              [op |-> "Offset", r |-> 0, f |-> Nat8(1)],
              [op |-> "ValOffsetSf", r |-> 1, f |-> Int8(-1)],
              [op |-> "Undefined", r |-> 0],
              [op |-> "Restore", r |-> 0],
              T("RememberState"), T("RestoreState"),
              [op |-> "ArgsSize", s |-> Nat8(1)],
              T("NegateRaState") }
(* initial rules that differ from every rule the Slim FDE alphabet can set *)
CieIni == { [op |-> "Undefined", r |-> 0], [op |-> "Register", r |-> 1, s |-> 0] }
CieAlphabetOf(a) == IF Quick /\ a = "core" THEN CieQuick
                    ELSE IF a = "ini" THEN CieIni ELSE {t \in AlphabetOf(a) : ~IsLoc(t)}

(* the decoded instruction under a vendor *)
DecodedV(t, off, vendor) == IF t.op = "NegateRaState" /\ vendor = "default"
                            THEN Bad("UnknownCallFrameInstruction") ELSE Decoded(t, off)

(* constant-level caches (evaluated once by TLC) *)
AllT == Core \cup Extra \cup Slim
TEnc == [t \in AllT |-> EncIns(t, Cfg.asz, Cfg.le)]
Head0 == CieBody(Cfg)
CieOff0 == 4 + Len(Head0)

Feed(mm, i) == Consume([mm EXCEPT !.ins = <<i>>])
Mark(old, new, k) == IF old = 0 /\ new.st = "err" THEN k ELSE old
Needs(s) == <<RowsNeeded(s), RulesNeeded(s)>>

(* c: templates chosen, their bytes, and the decoded lists per vendor *)
Init == /\ \E pl \in Plans :
           c = [phase |-> "cie", cie |-> <<>>, fde |-> <<>>, cieb |-> <<>>, fdeb |-> <<>>,
                ci |-> <<>>, fi |-> <<>>, cid |-> <<>>, fid |-> <<>>, plan |-> pl]
        /\ m = [s \in Storages |-> InitBegin(Fresh(s), Cfg, <<>>)]
        /\ md = InitBegin(Fresh("heap"), Cfg, <<>>)
        /\ rf = RInit(Cfg)
        /\ need = <<>>
        /\ stopped = [s \in Storages |-> 0]

Step(i, idef) ==
    /\ m' = [s \in Storages |-> Feed(m[s], i)]
    /\ md' = Feed(md, idef)
    /\ rf' = RStep(rf, i)
    /\ need' = Append(need, Needs(rf'))
    /\ stopped' = [s \in Storages |-> Mark(stopped[s], m'[s], Len(need) + 1)]

AppendCie(t) ==
    /\ c.phase = "cie" /\ rf.st = "run" /\ Len(c.cie) < c.plan.maxcie
    /\ LET off == CieOff0 + Len(c.cieb)
           i   == Decoded(t, off)
           id  == DecodedV(t, off, "default") IN
       /\ Step(i, id)
       /\ c' = [c EXCEPT !.cie = Append(@, t), !.cieb = @ \o TEnc[t], !.ci = Append(@, i), !.cid = Append(@, id)]

EndInit(mm) == LET e == InitEnd(mm) IN
               IF e.st = "err" THEN [e EXCEPT !.out = <<>>] ELSE Begin(TableForFde(e, Cfg, <<>>))
EndCie ==
    /\ c.phase = "cie" /\ rf.st = "run"
    /\ m' = [s \in Storages |-> EndInit(m[s])]
    /\ md' = EndInit(md)
    /\ rf' = REndCie(rf)
    /\ need' = Append(need, Needs(rf'))
    /\ stopped' = [s \in Storages |-> Mark(stopped[s], m'[s], Len(need) + 1)]
    /\ c' = [c EXCEPT !.phase = "fde"]

AppendFde(t) ==
    /\ c.phase = "fde" /\ rf.st = "run" /\ Len(c.fde) < c.plan.maxfde /\ Len(c.cie) + Len(c.fde) < c.plan.maxtotal
    /\ LET off == FdeInsOffWith(Head0, Cfg, c.cieb) + Len(c.fdeb)
           i   == Decoded(t, off)
           id  == DecodedV(t, off, "default") IN
       /\ Step(i, id)
       /\ c' = [c EXCEPT !.fde = Append(@, t), !.fdeb = @ \o TEnc[t], !.fi = Append(@, i), !.fid = Append(@, id)]

Next == \/ \E t \in CieAlphabetOf(c.plan.alpha) : AppendCie(t)
        \/ EndCie
        \/ \E t \in AlphabetOf(c.plan.alpha) : AppendFde(t)

(*--------------------------- what TLC checks -----------------------------*)
Complete == c.phase = "fde" \/ rf.st = "err"
Final(mm) == IF c.phase = "fde" THEN Finish(mm) ELSE [mm EXCEPT !.out = <<>>]   \* fde.rows() failed: no rows
RFinal == IF c.phase = "fde" THEN REndFde(rf) ELSE [rf EXCEPT !.out = <<>>]

(* a limit error is reported exactly when the reference state needs more   *)
(* rows / rules than the storage has                                       *)
LimitExact(s) ==
    \A k \in 1..Len(need) :
        IF stopped[s] = 0 \/ k < stopped[s]
        THEN need[k][1] <= Cap(s).rows /\ need[k][2] <= Cap(s).rules
        ELSE k = stopped[s] =>
             /\ m[s].err = "StackFull" <=> need[k][1] > Cap(s).rows
             /\ m[s].err = "TooManyRegisterRules" <=> need[k][2] > Cap(s).rules

DesignOk ==
    /\ \A s \in Storages : Refines(m[s], rf) /\ Refines(Final(m[s]), RFinal) /\ LimitExact(s)
    /\ ~HitLimit(m["vec"])
    (* the vendor only matters at negate_ra_state *)
    /\ IsPrefix(Final(md).out, RFinal.out)
    (* next_row call by call (as the public API is driven) = incremental feeding *)
    /\ Complete => /\ Obs(RunOn(Fresh("heap"), Cfg, c.ci, c.fi)) = Obs(Final(m["heap"]))
                   /\ (~Quick => Obs(RunOn(Fresh("s22"), Cfg, c.ci, c.fi)) = Obs(Final(m["s22"])))
                   /\ (~Quick => Obs(RunOn(Fresh("heap"), Cfg, c.cid, c.fid)) = Obs(Final(md)))
                   /\ RObs(RRun(Cfg, c.ci, c.fi)) = RObs(RFinal)
                   /\ RowsWellFormed(RObs(RFinal), Cfg)

Get(row) == [j \in DOMAIN Probe |->
               IF \E p \in row.rules : p[1] = Probe[j] THEN (CHOOSE p \in row.rules : p[1] = Probe[j])[2]
               ELSE [k |-> "default"]]
RowOut(row) == [start |-> row.start, end |-> row.end, args |-> row.args, cfa |-> row.cfa,
                rules |-> SortPairs(row.rules), get |-> Get(row)]
Short(mm) == [n |-> Len(mm.out), fin |-> IF mm.st = "err" THEN mm.err ELSE "end"]

Inv == /\ DesignOk
       /\ Complete => PrintT(<<"CASE", ToJson(
            [sys |-> "cfiexec", sec |-> SectionWith(Head0, Cfg, c.cieb, c.fdeb), fdeoff |-> FdeOffWith(Head0, c.cieb),
             asz |-> Cfg.asz, le |-> Cfg.le, probe |-> Probe,
             rows |-> [j \in DOMAIN RFinal.out |-> RowOut(RFinal.out[j])],
             exp |-> [s \in Storages |-> Short(Final(m[s]))], expdef |-> Short(Final(md)),
             ncie |-> Len(c.cie), nfde |-> Len(c.fde), mode |-> "prog-" \o c.plan.alpha])>>)

(***************************************************************************)
(* The auxiliary modes below share one TLC run (InitX / NextX / InvX); the *)
(* mode is a field of `c`, the machine variables idle.                     *)
(***************************************************************************)
(***************************************************************************)
(* Mode "lemma": the fast LEB128 coders of CfiExec agree with Leb.tla's    *)
(* coders as coded; encoder and decoder agree on every template, also when *)
(* placed after other instructions.                                        *)
(***************************************************************************)
Rep(x, n) == [i \in 1..n |-> x]
LVals == {Nat8(0), Nat8(1), Nat8(63), Nat8(64), Nat8(127), Nat8(128), Nat8(255), Nat8(256), Nat8(16383), Nat8(16384),
          Int8(-1), Int8(-2), Int8(-63), Int8(-64), Int8(-65), Int8(-128), Int8(-129), Int8(-8192), Int8(-8193),
          <<255,255,255,255,0,0,0,0>>, <<0,0,0,0,1,0,0,0>>, <<255,255,255,255,255,255,255,127>>,
          <<0,0,0,0,0,0,0,128>>, <<1,0,0,0,0,0,0,128>>, Ones(8), <<0,0,0,0,0,0,0,64>>, <<0,0,0,0,0,0,0,192>>,
          <<255,255,255,255,255,255,255,63>>, <<255,255,255,255,255,255,255,191>>, <<0,0,0,0,0,0,128,255>>,
          <<7,6,5,4,3,2,1,0>>, <<0,1,2,3,4,5,6,7>>}
LStrs == {<<>>, <<0>>, <<1>>, <<63>>, <<64>>, <<127>>, <<128>>, <<128, 0>>, <<255, 127>>, <<255, 0>>, <<192, 0>>, <<191, 127>>,
          <<128,128>>, <<129, 1, 77>>, Rep(255, 9) \o <<1>>, Rep(255, 9) \o <<0>>, Rep(255, 9) \o <<2>>, Rep(255, 9) \o <<127>>,
          Rep(128, 9) \o <<127>>, Rep(128, 9) \o <<126>>, Rep(128, 9) \o <<128, 0>>, Rep(255, 10) \o <<0>>, Rep(128, 8) \o <<64>>,
          Rep(128, 8) \o <<63>>, Rep(128, 8) \o <<127>>, Rep(255, 8) \o <<127>>, Rep(255, 8), Rep(128, 9),
          <<7>> \o Rep(201, 8) \o <<1>>, <<7>> \o Rep(201, 8) \o <<0, 9>>, Rep(170, 9) \o <<127, 3>>, <<200, 201, 202, 3>>,
          Rep(213, 7) \o <<85>>, Rep(213, 7) \o <<42>>}
Idle == m = 0 /\ md = 0 /\ rf = 0 /\ need = 0 /\ stopped = 0
Stay == UNCHANGED <<m, md, rf, need, stopped>>
MVals == IF Quick THEN {Nat8(0), Nat8(1), Nat8(255), Int8(-1), Int8(-8), Int8(-129), Ones(8), <<0,0,0,0,0,0,0,128>>,
                         <<255,255,255,255,0,0,0,0>>, <<7,6,5,4,3,2,1,0>>} ELSE LVals
InitL == c = [mode |-> "lemma", stage |-> 0] /\ Idle
NextL == c.mode = "lemma" /\ c.stage = 0 /\ c' = [mode |-> "lemma", stage |-> 1] /\ Stay
InvL == (c.mode = "lemma" /\ c.stage = 1) =>
    /\ \A v \in LVals : ULeb(v) = EncU(v) /\ SLeb(v) = EncS(v) /\ Neg8(v) = Neg(v)
    /\ \A v \in LVals : \A w \in MVals : Mul8(v, w) = Mul(v, w) /\ Mul8(w, v) = Mul(w, v) /\ Add8(v, w) = Add(v, w)
                                          /\ (AddL(v, w, 0).c # 0) = AddOverflows(v, w)
    /\ \A n \in {0, 1, 255, 256, 65535, 65536, 16777215, 16777216, 2147483647} : Nat8(n) = FromNat(n, 8)
    /\ \A n \in {0, 1, -1, -2, -128, -129, -255, -256, -257, -65536, -65537, -16777217, -2147483647} : Int8(n) = FromInt(n, 8)
    /\ \A s \in LStrs : \A p \in 1..2 : LebU(s, p) = LebUSlow(s, p) /\ LebS(s, p) = LebSSlow(s, p)
    /\ \A t \in AllT : \A pre \in {<<>>, <<[op |-> "Nop"]>>, <<[op |-> "Expression", r |-> 1, x |-> <<OpNop, OpNop>>]>>} :
         \A asz \in {1, 8} :
           DecodeAll(EncProg(pre \o <<t>>, asz, TRUE), 40, asz, TRUE, "aarch64") = DecodedProg(pre \o <<t>>, 40, asz, TRUE)
    /\ EncSection(Cfg, <<>>, <<>>) = SectionWith(Head0, Cfg, <<>>, <<>>)

(***************************************************************************)
(* Mode "bytes": the FDE's instruction bytes, one byte at a time.          *)
(***************************************************************************)
(* (the other modes keep their state in `c`; the machine variables idle)  *)
ByteCls == {0, 1, 2, 3, 4, 5, 6, 7, 9, 10, 11, 12, 13, 14, 15, 16, 17, 18, 19, 20, 21, 22, 23, 28, 45, 46, 47, 63,
            65, 127, 128, 129, 192, 193, 255}
BCfg == [asz |-> 2, caf |-> Nat8(1), daf |-> Int8(-4), ver |-> 3, le |-> FALSE, ra |-> 0,
         start |-> Nat8(16), range |-> Nat8(512)]
BCie == << [op |-> "Offset", r |-> 1, f |-> Nat8(2)] >>

InitB == c = [mode |-> "bytes", b |-> <<>>] /\ Idle
NextB == c.mode = "bytes" /\ Len(c.b) < MaxBytes /\ (\E x \in ByteCls : c' = [c EXCEPT !.b = Append(@, x)]) /\ Stay
BCieIns(vendor) == DecodeAll(EncProg(BCie, BCfg.asz, BCfg.le), CieInsOff(BCfg), BCfg.asz, BCfg.le, vendor)
BCieA == BCieIns("aarch64")
BCieD == BCieIns("default")
BFdeOff == FdeInsOff(BCfg, BCie)

BRun(s, vendor) ==
    LET cie == IF vendor = "aarch64" THEN BCieA ELSE BCieD
        fde == DecodeAll(c.b, BFdeOff, BCfg.asz, BCfg.le, vendor) IN
    [mach |-> RunOn(Fresh(s), BCfg, cie, fde), ref |-> RRun(BCfg, cie, fde)]
ShortM(mm) == [n |-> Len(mm.out), fin |-> IF mm.st = "err" THEN mm.err ELSE "end"]
InvB == c.mode = "bytes" =>
        LET a == BRun("vec", "aarch64")
            h == BRun("heap", "aarch64")
            s == BRun("s22", "aarch64")
            t == BRun("s31", "aarch64")
            d == BRun("heap", "default") IN
        /\ Obs(a.mach) = RObs(a.ref)
        /\ Refines(h.mach, h.ref) /\ Refines(s.mach, s.ref) /\ Refines(t.mach, t.ref)
        /\ IsPrefix(d.mach.out, a.mach.out)
        /\ PrintT(<<"CASE", ToJson(
             [sys |-> "cfiexec", sec |-> EncSection(BCfg, BCie, <<[op |-> "Raw", x |-> c.b]>>),
              fdeoff |-> FdeOff(BCfg, BCie), asz |-> BCfg.asz, le |-> BCfg.le, probe |-> Probe,
              rows |-> [j \in DOMAIN a.mach.out |-> RowOut(a.mach.out[j])],
              exp |-> [vec |-> ShortM(a.mach), heap |-> ShortM(h.mach), s22 |-> ShortM(s.mach), s31 |-> ShortM(t.mach)],
              expdef |-> ShortM(d.mach), ncie |-> 1, nfde |-> Len(c.b), mode |-> "bytes"])>>)

(***************************************************************************)
(* Mode "grid": alignment factors x address sizes x boundary operands.     *)
(***************************************************************************)
Two63 == <<0, 0, 0, 0, 0, 0, 0, 128>>
Cafs == {Nat8(0), Nat8(1), Nat8(4), Nat8(255), Two63}
Dafs == {Nat8(0), Nat8(1), Int8(-8), Nat8(255), Int8(-129), Two63}
GVals == {Nat8(0), Nat8(1), Nat8(63), Nat8(64), Nat8(127), Nat8(128), <<255, 255, 255, 127, 0, 0, 0, 0>>,
          <<0, 0, 0, 128, 0, 0, 0, 0>>, <<255, 255, 255, 255, 0, 0, 0, 0>>, <<0, 0, 0, 0, 1, 0, 0, 0>>,
          <<255, 255, 255, 255, 255, 255, 255, 127>>, Two63, Ones(8), Int8(-2), Int8(-64), Int8(-65)}
GDeltas == { [d |-> Nat8(0), e |-> ""], [d |-> Nat8(63), e |-> ""], [d |-> Nat8(255), e |-> "loc1"],
             [d |-> Nat8(65535), e |-> "loc2"], [d |-> <<255, 255, 255, 255, 0, 0, 0, 0>>, e |-> "loc4"],
             [d |-> Nat8(1), e |-> "loc4"], [d |-> Nat8(256), e |-> "loc2"] }
GRegs == {0, 63, 64, 65535}
(* start addresses per address size: low, just below the top *)
GStarts(asz) == {Nat8(0), ZExt(Trunc(Int8(-3), asz), 8), ZExt(Trunc(Two63, asz), 8)}
GRanges(asz) == {Nat8(0), Nat8(2), ZExt(Trunc(Ones(8), asz), 8)}

InitG == c = [mode |-> "grid", stage |-> 0] /\ Idle
GIns ==
    {[op |-> "AdvanceLoc", d |-> x.d, e |-> x.e] : x \in GDeltas}
    \cup {[op |-> "DefCfa", r |-> 7, o |-> v] : v \in GVals}
    \cup {[op |-> "DefCfaSf", r |-> 7, f |-> v] : v \in GVals}
    \cup {[op |-> "DefCfaOffset", o |-> v] : v \in GVals}
    \cup {[op |-> "DefCfaOffsetSf", f |-> v] : v \in GVals}
    \cup {[op |-> "Offset", r |-> 3, f |-> v] : v \in GVals}
    \cup {[op |-> "Offset", r |-> 64, f |-> v, e |-> "ext"] : v \in GVals}
    \cup {[op |-> "OffsetExtendedSf", r |-> 3, f |-> v] : v \in GVals}
    \cup {[op |-> "ValOffset", r |-> 3, f |-> v] : v \in GVals}
    \cup {[op |-> "ValOffsetSf", r |-> 3, f |-> v] : v \in GVals}
    \cup {[op |-> "ArgsSize", s |-> v] : v \in GVals}
    \cup {[op |-> "Register", r |-> x, s |-> y] : x \in GRegs, y \in GRegs}
    \cup {[op |-> "Undefined", r |-> x] : x \in GRegs} \cup {[op |-> "SameValue", r |-> x] : x \in GRegs}
    \cup {[op |-> "Restore", r |-> x, e |-> "ext"] : x \in GRegs} \cup {[op |-> "Restore", r |-> 63]}
    \cup {[op |-> "DefCfaRegister", r |-> x] : x \in GRegs}
NextG ==
    /\ c.mode = "grid" /\ Stay
    /\ \/ /\ c.stage = 0         \* first choose the factors (spreads the work over TLC's workers)
          /\ \E asz \in {1, 2, 4, 8}, caf \in Cafs, daf \in Dafs :
                c' = [mode |-> "grid", stage |-> 2, asz |-> asz, caf |-> caf, daf |-> daf]
       \/ /\ c.stage = 2
          /\ LET asz == c.asz
                 caf == c.caf
                 daf == c.daf IN
             \E ver \in {1, 3, 4}, le \in BOOLEAN : \E st \in GStarts(asz), rg \in GRanges(asz) :
             LET cfg == [asz |-> asz, caf |-> caf, daf |-> daf, ver |-> ver, le |-> le, ra |-> 16, start |-> st, range |-> rg] IN
             \/ (* every instruction once, in the FDE, followed by an advance *)
                /\ caf \in {Nat8(1), Nat8(4)} /\ ver = 4 /\ le /\ rg = Nat8(2) /\ st = Nat8(0)
                /\ (Quick => caf = Nat8(4) /\ asz \in {4, 8} /\ daf \in {Int8(-8), Nat8(255), Two63})
                /\ \E t \in GIns : ~(t.op = "AdvanceLoc") /\
                      c' = [mode |-> "grid", stage |-> 1, cfg |-> cfg, cie |-> <<>>, fde |-> <<t, [op |-> "AdvanceLoc", d |-> Nat8(1)]>>]
             \/ (* advances and set_loc: every factor, size, start, range, layout *)
                /\ daf = Nat8(1) /\ (Quick => le /\ ver = 4 /\ asz \in {1, 4, 8})
                /\ \E t \in {x \in GIns : x.op = "AdvanceLoc"} \cup {[op |-> "SetLoc", a |-> ZExt(Trunc(v, asz), 8)] : v \in GVals} :
                      c' = [mode |-> "grid", stage |-> 1, cfg |-> cfg, cie |-> <<>>, fde |-> <<t>>]
             \/ (* the same instruction in the CIE, restored to in the FDE *)
                /\ caf = Nat8(1) /\ ver \in {1, 3} /\ rg = Nat8(2) /\ st = Nat8(0) /\ asz \in {4, 8}
                /\ (Quick => asz = 4 /\ daf \in {Int8(-129), Two63} /\ (le <=> ver = 1))
                /\ \E t \in {x \in GIns : x.op \in {"Offset", "ValOffsetSf", "DefCfaSf"}} :
                      c' = [mode |-> "grid", stage |-> 1, cfg |-> cfg, cie |-> <<t>>,
                            fde |-> <<[op |-> "Undefined", r |-> 3], [op |-> "Restore", r |-> 3]>>]

GRun(s) == LET cie == DecodedProg(c.cie, CieInsOff(c.cfg), c.cfg.asz, c.cfg.le)
               fde == DecodedProg(c.fde, FdeInsOff(c.cfg, c.cie), c.cfg.asz, c.cfg.le) IN
           [mach |-> RunOn(Fresh(s), c.cfg, cie, fde), ref |-> RRun(c.cfg, cie, fde),
            dec |-> /\ cie = DecodeAll(EncProg(c.cie, c.cfg.asz, c.cfg.le), CieInsOff(c.cfg), c.cfg.asz, c.cfg.le, "default")
                    /\ fde = DecodeAll(EncProg(c.fde, c.cfg.asz, c.cfg.le), FdeInsOff(c.cfg, c.cie), c.cfg.asz, c.cfg.le, "default")]
InvG == (c.mode = "grid" /\ c.stage = 1) =>
        LET a == GRun("vec")
            h == GRun("heap") IN
        /\ Obs(a.mach) = RObs(a.ref) /\ Obs(h.mach) = RObs(h.ref) /\ a.dec
        /\ RowsWellFormed(RObs(a.ref), c.cfg)
        /\ PrintT(<<"CASE", ToJson(
             [sys |-> "cfiexec", sec |-> EncSection(c.cfg, c.cie, c.fde), fdeoff |-> FdeOff(c.cfg, c.cie),
              asz |-> c.cfg.asz, le |-> c.cfg.le, probe |-> <<3, 7, 64, 65535>>,
              rows |-> [j \in DOMAIN a.mach.out |-> [RowOut(a.mach.out[j]) EXCEPT !.get = <<>>]],
              exp |-> [vec |-> ShortM(a.mach), heap |-> ShortM(h.mach)],
              ncie |-> Len(c.cie), nfde |-> Len(c.fde), noget |-> TRUE, mode |-> "grid"])>>)

(***************************************************************************)
(* Mode "deep": reach a limit exactly / exceed it by one.                  *)
(***************************************************************************)
DCfg == [asz |-> 8, caf |-> Nat8(1), daf |-> Int8(-8), ver |-> 4, le |-> TRUE, ra |-> 16,
         start |-> <<0, 16, 0, 0, 0, 0, 0, 0>>, range |-> Nat8(256)]
(* N rules for registers base .. base+N-1 *)
ManyRules(base, n) == [j \in 1..n |-> [op |-> "Offset", r |-> base + j - 1, f |-> Nat8(j), e |-> "ext"]]
Remembers(n) == [j \in 1..n |-> T("RememberState")]
DProbes == { <<>>,
             << [op |-> "Offset", r |-> 1000, f |-> Nat8(1), e |-> "ext"] >>,
             << [op |-> "Offset", r |-> 100, f |-> Nat8(9), e |-> "ext"] >>,       \* existing register: no new slot
             << [op |-> "Restore", r |-> 100, e |-> "ext"] >>,
             << [op |-> "Undefined", r |-> 100], [op |-> "Restore", r |-> 100, e |-> "ext"] >>,
             << T("RememberState") >>,
             << T("RememberState"), T("RestoreState") >>,
             << T("RestoreState") >>,
             << T("RememberState"), T("RememberState") >>,
             << T("RememberState"), T("RememberState"), T("RememberState") >>,
             << T("RememberState"), T("RememberState"), T("RememberState"), T("RememberState") >>,
             << T("RestoreState"), [op |-> "Offset", r |-> 1000, f |-> Nat8(1), e |-> "ext"] >>,
             << [op |-> "Restore", r |-> 101, e |-> "ext"], [op |-> "Offset", r |-> 1000, f |-> Nat8(1), e |-> "ext"] >>,
             << [op |-> "AdvanceLoc", d |-> Nat8(4)], [op |-> "Offset", r |-> 1000, f |-> Nat8(1), e |-> "ext"],
                [op |-> "AdvanceLoc", d |-> Nat8(4)] >> }
QProbes == { <<>>,
             << [op |-> "Offset", r |-> 1000, f |-> Nat8(1), e |-> "ext"] >>,
             << [op |-> "Offset", r |-> 100, f |-> Nat8(9), e |-> "ext"] >>,
             << [op |-> "Undefined", r |-> 100], [op |-> "Restore", r |-> 100, e |-> "ext"] >>,
             << [op |-> "Restore", r |-> 101, e |-> "ext"], [op |-> "Offset", r |-> 1000, f |-> Nat8(1), e |-> "ext"] >>,
             << T("RememberState") >> }
InitD == c = [mode |-> "deep", stage |-> 0] /\ Idle
NextD ==
    /\ c.mode = "deep" /\ Stay
    /\ \/ /\ c.stage = 0         \* first the long prefix (spreads the work over TLC's workers) ...
          /\ \/ \E ncie \in {0, 1, 2, 191, 192, 193}, nfde \in {0, 1, 190, 191, 192, 193} :
                  /\ ncie + nfde \in {0, 1, 2, 3, 191, 192, 193, 194}
                  /\ Quick => <<ncie, nfde>> \in {<<0, 192>>, <<2, 190>>, <<192, 0>>, <<193, 0>>, <<2, 1>>}
                  /\ c' = [mode |-> "deep", stage |-> 2, fam |-> 1, cie |-> ManyRules(100, ncie), fde |-> ManyRules(100 + ncie, nfde)]
             \/ \E ncie \in {0, 1, 2, 3}, kc \in 0..4, kf \in 0..4 :
                  /\ kc + kf <= 5 /\ (Quick => ncie \in {0, 2} /\ kc + kf \in {1, 2, 3, 4} /\ kc <= 2)
                  /\ c' = [mode |-> "deep", stage |-> 2, fam |-> 2, cie |-> ManyRules(100, ncie) \o Remembers(kc), fde |-> Remembers(kf)]
       \/ /\ c.stage = 2         \* ... then the probe
          /\ \E p \in DProbes :
                /\ Quick => IF c.fam = 1 THEN p \in QProbes ELSE Len(p) <= 2
                /\ c' = [mode |-> "deep", stage |-> 1, cie |-> c.cie, fde |-> c.fde \o p]
DRun(s) == LET cie == DecodedProg(c.cie, CieInsOff(DCfg), DCfg.asz, DCfg.le)
               fde == DecodedProg(c.fde, FdeInsOff(DCfg, c.cie), DCfg.asz, DCfg.le) IN
           [mach |-> RunOn(Fresh(s), DCfg, cie, fde), ref |-> RRun(DCfg, cie, fde)]
InvD == (c.mode = "deep" /\ c.stage = 1) =>
        LET a == DRun("vec")
            h == DRun("heap")
            s == DRun("s22")
            t == DRun("s31") IN
        /\ Obs(a.mach) = RObs(a.ref)
        /\ Refines(h.mach, h.ref) /\ Refines(s.mach, s.ref) /\ Refines(t.mach, t.ref)
        /\ PrintT(<<"CASE", ToJson(
             [sys |-> "cfiexec", sec |-> EncSection(DCfg, c.cie, c.fde), fdeoff |-> FdeOff(DCfg, c.cie),
              asz |-> DCfg.asz, le |-> DCfg.le, probe |-> <<100, 101, 1000>>,
              rows |-> [j \in DOMAIN a.mach.out |-> [RowOut(a.mach.out[j]) EXCEPT !.get = <<>>]],
              exp |-> [vec |-> ShortM(a.mach), heap |-> ShortM(h.mach), s22 |-> ShortM(s.mach), s31 |-> ShortM(t.mach)],
              ncie |-> Len(c.cie), nfde |-> Len(c.fde), noget |-> TRUE, mode |-> "deep"])>>)

(***************************************************************************)
(* Mode "eh": .eh_frame, CIE augmentation "zR".  The FDE pointer encoding  *)
(* byte ranges over format x application x indirect (valid and invalid     *)
(* ones, DW_EH_PE_omit), with all / no base addresses; the FDE's initial   *)
(* location, range and the DW_CFA_set_loc operand are written in that      *)
(* encoding.  Expected: the row addresses (base + value, wrapped at the    *)
(* address size), or the error of the first failing step - CIE / FDE       *)
(* header parse ("parse:<kind>") or the set_loc instruction (missing base, *)
(* aligned, UnsupportedIndirectPointer: an indirect operand would have to  *)
(* be read from target memory and must never become a row address).        *)
(***************************************************************************)
EhFormats == IF Quick THEN {0, 1, 2, 3, 4, 9, 11, 12, 5} ELSE {0, 1, 2, 3, 4, 9, 10, 11, 12, 5, 15}
EhApps == IF Quick THEN {0, 1, 2, 3, 4, 5} ELSE {0, 1, 2, 3, 4, 5, 6, 7}
EhEncs == {f + 16 * a + i : f \in EhFormats, a \in EhApps, i \in {0, 128}} \cup {255}
EhBases == { [section |-> SomeBase(Nat8(4096)), text |-> SomeBase(Nat8(8192)), data |-> SomeBase(Int8(-256))],
             [section |-> NoBase, text |-> NoBase, data |-> NoBase] }
ECfg(asz, le) == [asz |-> asz, caf |-> Nat8(1), daf |-> Int8(-8), ver |-> 1, le |-> le, ra |-> 16]
ECie == << [op |-> "DefCfa", r |-> 7, o |-> Nat8(8)] >>
(* raw operand values of set_loc: forward, backward, negative *)
EhLocs == {Nat8(4112), Nat8(2048), Int8(-8)}
InitE == c = [mode |-> "eh", stage |-> 0] /\ Idle
NextE ==
    /\ c.mode = "eh" /\ Stay
    /\ IF c.stage = 0
       THEN \E enc \in EhEncs, asz \in (IF Quick THEN {8} ELSE {4, 8}) : c' = [mode |-> "eh", stage |-> 2, enc |-> enc, asz |-> asz]
       ELSE /\ c.stage = 2
            /\ \E bs \in EhBases, loc \in EhLocs, le \in (IF Quick THEN {TRUE} ELSE BOOLEAN), shape \in {1, 2} :
                 c' = [mode |-> "eh", stage |-> 1, enc |-> c.enc, asz |-> c.asz, bases |-> bs, loc |-> loc, le |-> le, shape |-> shape]
ERun(s) ==
    LET cfg0 == ECfg(c.asz, c.le)
        fmt  == EhFormat(c.enc)
        setl == <<1>> \o EncRaw(fmt, c.loc, c.asz, c.le)
        fdeb == IF c.shape = 1 THEN setl \o <<14, 16>>                       \* set_loc; def_cfa_offset 16
                ELSE <<65>> \o setl \o <<14, 16, 66>>                        \* advance 1; set_loc; def_cfa_offset; advance 2
        cieb == EncProg(ECie, c.asz, c.le)
        e    == [enc |-> c.enc, init |-> Nat8(4096), range |-> Nat8(256)]
        sec  == EhSection(cfg0, e, cieb, fdeb)
        fo   == EhFdeOff(cfg0, e, cieb)
        pe   == [on |-> TRUE, enc |-> c.enc, section |-> c.bases.section, text |-> c.bases.text, data |-> c.bases.data]
        h    == EhFdeHeader(sec, fo, pe, c.asz, c.le) IN
    IF ~h.ok THEN [sec |-> sec, fdeoff |-> fo, parse |-> h.err]
    ELSE LET cfg == cfg0 @@ [start |-> h.start, range |-> h.range]
             cie == DecodeAll(cieb, EhCieInsOff(cfg0, c.enc), c.asz, c.le, "default")
             fde == DecodeFromX(sec, h.ins, 0, c.asz, c.le, "default", pe) IN
         [sec |-> sec, fdeoff |-> fo, parse |-> "", cfg |-> cfg,
          mach |-> RunOn(Fresh(s), cfg, cie, fde), ref |-> RRun(cfg, cie, fde)]
InvE == (c.mode = "eh" /\ c.stage = 1) =>
        LET a == ERun("vec")
            h == ERun("heap")
            perr == [n |-> 0, fin |-> "parse:" \o a.parse] IN
        /\ a.parse = "" => /\ Obs(a.mach) = RObs(a.ref) /\ Obs(h.mach) = RObs(h.ref)
                           /\ RowsWellFormed(RObs(a.ref), a.cfg)
                           (* an indirect encoding never yields a row from set_loc *)
                           /\ EhIndirect(c.enc) => a.mach.st = "err"
        /\ PrintT(<<"CASE", ToJson(
             [sys |-> "cfiexec", eh |-> TRUE, sec |-> a.sec, fdeoff |-> a.fdeoff, asz |-> c.asz, le |-> c.le,
              bases |-> [section |-> IF c.bases.section.some THEN c.bases.section.v ELSE <<>>,
                         text |-> IF c.bases.text.some THEN c.bases.text.v ELSE <<>>,
                         data |-> IF c.bases.data.some THEN c.bases.data.v ELSE <<>>],
              probe |-> <<7, 16>>, enc |-> c.enc,
              rows |-> IF a.parse = "" THEN [j \in DOMAIN a.mach.out |-> [RowOut(a.mach.out[j]) EXCEPT !.get = <<>>]] ELSE <<>>,
              exp |-> IF a.parse = "" THEN [vec |-> ShortM(a.mach), heap |-> ShortM(h.mach)] ELSE [vec |-> perr, heap |-> perr],
              ncie |-> 1, nfde |-> 2, noget |-> TRUE, mode |-> "eh"])>>)

(***************************************************************************)
(* all auxiliary modes in one run                                          *)
(***************************************************************************)
InitX == InitL \/ InitB \/ InitG \/ InitD \/ InitE
NextX == NextL \/ NextB \/ NextG \/ NextD \/ NextE
InvX == InvL /\ InvB /\ InvG /\ InvD /\ InvE
=============================================================================
