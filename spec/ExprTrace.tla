----------------------------- MODULE ExprTrace -----------------------------
(* Trace validation for the expression evaluator (C07).  Each recorded      *)
(* program starts with a Reset event; the spec runs the machine of Expr.tla *)
(* to its next stop and every Requires* payload and the final result must   *)
(* be what the machine produces.  Silent machine steps are composed inside  *)
(* one action by the recursive operator Run.                                *)
EXTENDS Expr, TLC, Json, IOUtils
VARIABLES l, st, cf
Rec == ndJsonDeserialize(IOEnv.TRACE)

IsEv(e) == l <= Len(Rec) /\ Rec[l].ev = e /\ l' = l + 1

CfgOf(r) == [asz |-> r.asz, fmt |-> r.fmt, ver |-> r.ver, le |-> r.le, maxiter |-> r.maxiter, obj |-> r.obj,
             cap |-> IF r.store = "small" THEN 2 ELSE 0, ecap |-> IF r.store = "small" THEN 1 ELSE 0,
             pcap |-> IF r.store = "small" THEN 2 ELSE 0]

Reset == /\ IsEv("Reset")
         /\ cf' = CfgOf(Rec[l])
         /\ st' = Run(Start(CfgOf(Rec[l]), Rec[l].code, Rec[l].init), CfgOf(Rec[l]))

Requires == /\ IsEv("Requires")
            /\ \/ /\ st.mode = "wait"
                  /\ st.req = Rec[l].req
                  /\ Rec[l].ans.a = AnsKind(st.wk)
                  /\ st' = Run(Resume(st, cf, Rec[l].ans), cf)
               \/ /\ st.mode = "opaque" /\ st' = st
            /\ UNCHANGED cf

Final == /\ IsEv("Final")
         /\ LET f == Rec[l].final IN
            \/ st.mode = "opaque"
            \/ st.mode = "complete" /\ f = Outcome(st)
            \/ /\ st.mode = "error" /\ f.o = "error"
               /\ (st.err = "TooManyIterations") = (f.kind = "TooManyIterations")
         /\ UNCHANGED <<st, cf>>

Init == l = 1 /\ st = [mode |-> "idle"] /\ cf = [asz |-> 0]
Next == Reset \/ Requires \/ Final

Accepted == LET d == TLCGet("stats").diameter IN
            IF d - 1 = Len(Rec) THEN TRUE
            ELSE Print(<<"UNMATCHED", d, ToJson(Rec[d])>>, FALSE)
=============================================================================
