---------------------------- MODULE MCCfiSection ----------------------------
(***************************************************************************)
(* Bounded models for C05.  One module, several families (constant Fam):   *)
(*  "bs"  every sorted .eh_frame_hdr table of <= MaxTab entries over the   *)
(*        addresses 0..12 with every probe 0..13: design-level theorems    *)
(*        (lookup as coded = greatest entry <= probe; for non-overlapping  *)
(*        FDEs the hdr path = the scan = the covering FDE) + replay cases; *)
(*  "sec" every sequence of <= MaxLen entries over an alphabet of CIEs,    *)
(*        FDEs (naming the 1st/2nd CIE of the section), zero-length        *)
(*        entries, for .debug_frame and .eh_frame;                         *)
(*  "ptr" the pointer-encoding matrix: all 256 encoding bytes in the       *)
(*        personality / LSDA / FDE-address positions x base-address sets   *)
(*        x boundary raw values x address sizes;                           *)
(*  "aug" every augmentation string: z followed by every arrangement of    *)
(*        every subset of L,P,R,S, plus strings the reader must reject;    *)
(*  "hdr" all 256 bytes in each of the three .eh_frame_hdr encoding        *)
(*        positions x hdr base-address sets.                               *)
(* Each explored state prints one replay case: the encoded section(s), the *)
(* probes and the set of allowed observations.                             *)
(***************************************************************************)
EXTENDS CfiSection, TLC, Json, FiniteSets
LOCAL SE == INSTANCE SequencesExt
CONSTANTS Fam, MaxTab, FullTab, AgreeTab, MaxLen, Dups, Slim
VARIABLE c

B8(n) == N8(n)
NoBases == [section |-> None, text |-> None, data |-> None]
Bases(s, t, d) == [section |-> s, text |-> t, data |-> d]
NoHdr == [none |-> TRUE]

MkCie(fmt, ver, aug, asz, caf, daf, ra) ==
    [t |-> "cie", fmt |-> fmt, ver |-> ver, aug |-> aug, asz |-> asz, seg |-> 0, caf |-> caf,
     daf |-> daf, ra |-> ra, lenc |-> 0, penc |-> 0, praw |-> Zero(8), renc |-> 0,
     augx |-> <<>>, ins |-> <<>>]
(* FDE given by its target addresses; Concretize computes the raw values *)
MkFde(fmt, cie, start, len, ins) ==
    [t |-> "fde", fmt |-> fmt, cie |-> cie, start |-> start, len |-> len, lsda |-> Zero(8),
     augx |-> <<>>, ins |-> ins, iraw |-> Zero(8), rraw |-> len, lraw |-> Zero(8)]

Concretize(kind, es, secAsz, B) ==
    LET offs == Offsets(kind, es, secAsz) IN
    Tup([i \in DOMAIN es |->
        IF es[i].t # "fde" THEN es[i]
        ELSE LET f    == es[i]
                 cc   == es[f.cie]
                 asz  == CieAsz(kind, cc, secAsz)
                 apos == offs[i] + LenSize(f.fmt) + CiePtrLen(kind, f.fmt)
                 iraw == IF FdeUsesR(cc) THEN RawFor(cc.renc, f.start, B, B8(apos), None) ELSE f.start
                 lpos == apos + Len(FdeAddrBytes(f, cc, asz, TRUE)) + 1
                 lraw == IF FdeUsesL(cc) THEN RawFor(cc.lenc, f.lsda, B, B8(lpos), f.start) ELSE Zero(8)
             IN [f EXCEPT !.iraw = iraw, !.lraw = lraw]])

(*--------------------------- expectations ---------------------------------*)
Inc(a) == Add8(a, One(8))
Dec(a) == Sub8(a, One(8))
ProbeSet(it) ==
    UNION {LET p == it.ents[i].p IN {Dec(p.start), p.start, Inc(p.start), Dec(p.end), p.end, Inc(p.end)}
           : i \in {j \in DOMAIN it.ents : it.ents[j].t = "fde" /\ it.ents[j].p.ok}}
    \cup {Zero(8)}

OkOff(r) == [ok |-> TRUE, off |-> r.off]
Fail == [ok |-> FALSE]
ScanAllowed(it, a) ==
    IF Clean(it) THEN
        IF Covering(it, a) = {} THEN {Fail} ELSE {OkOff(it.ents[i]) : i \in Covering(it, a)}
    ELSE LET s == Scan(it, a) IN {IF s.ok THEN OkOff(it.ents[s.i]) ELSE Fail}
RowRes(p, a) == LET r == RowOf(p, a) IN IF r.ok THEN [ok |-> TRUE, row |-> r.row] ELSE Fail
UwAllowed(it, a) ==
    IF Clean(it) THEN
        IF Covering(it, a) = {} THEN {Fail} ELSE {RowRes(it.ents[i].p, a) : i \in Covering(it, a)}
    ELSE LET s == Scan(it, a) IN {IF s.ok THEN RowRes(it.ents[s.i].p, a) ELSE Fail}
ScanFirst(it, a) == LET s == Scan(it, a) IN IF s.ok THEN OkOff(it.ents[s.i]) ELSE [ok |-> FALSE, err |-> s.err]

HdrLookOnly(h, rm, a) ==
    LET lk == HdrLookup(h, rm, a)
    IN IF lk.ok THEN [ok |-> TRUE, k |-> lk.k, v |-> lk.v] ELSE [ok |-> FALSE, err |-> lk.err]
HdrLookExp(es, ems, offs, hm, h, rm, a) ==
    LET hf == HdrFde(es, ems, offs, hm, h, rm, a)
    IN [hl |-> HdrLookOnly(h, rm, a),
        hf |-> IF hf.ok THEN [ok |-> TRUE, off |-> hf.rec.off] ELSE [ok |-> FALSE, err |-> hf.err],
        hu |-> IF hf.ok THEN RowRes(hf.rec.p, a) ELSE Fail]

PtrJ(m) == [k |-> m.k, v |-> m.v]
IterExp(rm) ==
    IF Len(rm) > 0 /\ (~rm[1].l.ok \/ ~rm[1].p.ok) THEN <<Fail>>
    ELSE [i \in 1..Len(rm) |-> [ok |-> TRUE, some |-> TRUE, l |-> PtrJ(rm[i].l), p |-> PtrJ(rm[i].p)]]
         \o <<[ok |-> TRUE, some |-> FALSE]>>
NthExp(h, rm, k) ==
    IF TabSize(h.tenc) = 0 THEN Fail
    ELSE IF k >= Len(rm) THEN [ok |-> TRUE, some |-> FALSE]
    ELSE IF ~rm[1].l.ok \/ ~rm[1].p.ok THEN Fail
    ELSE [ok |-> TRUE, some |-> TRUE, l |-> PtrJ(rm[k + 1].l), p |-> PtrJ(rm[k + 1].p)]

(* one replay case *)
Case(fam, kind, asz, le, es, EB, HB, h, probes, nosec) ==
    LET offs  == Offsets(kind, es, asz)
        sec   == SecFrom(kind, es, offs, asz, le, 1)
        ems   == Meanings(kind, es, offs, asz, EB)
        it    == IterFrom(kind, es, ems, 1, <<>>)
        hashd == "none" \notin DOMAIN h
        hm    == IF hashd THEN HdrMeaning(h, asz, HB) ELSE Fail
        tab   == hashd /\ hm.ok /\ ~IsZero(hm.count)
        rm    == IF tab THEN HdrRowMeanings(h, asz, HB) ELSE <<>>
        ps    == IF probes = {} THEN ProbeSet(it) ELSE probes
        pseq  == SE!SetToSeq(ps)
        nth   == IF tab THEN <<0, Len(rm) - 1, Len(rm)>> ELSE <<>>
        look  == [i \in 1..Len(pseq) |->
                    LET a == pseq[i] IN
                    [a |-> a]
                    @@ (IF nosec THEN [nosec |-> TRUE]
                        ELSE [scan |-> ScanAllowed(it, a), uw |-> UwAllowed(it, a), first |-> ScanFirst(it, a)])
                    @@ (IF tab THEN (IF nosec
                                     THEN [hl |-> HdrLookOnly(h, rm, a)]
                                     ELSE HdrLookExp(es, ems, offs, hm, h, rm, a))
                        ELSE [notab |-> TRUE])]
        hexp  == IF ~hashd THEN [none |-> TRUE]
                 ELSE IF ~hm.ok THEN [ok |-> FALSE, err |-> hm.err]
                 ELSE [ok |-> TRUE, ptr |-> hm.ptr, table |-> tab]
                      @@ (IF tab THEN [iter |-> IterExp(rm), nth |-> [j \in 1..3 |-> NthExp(h, rm, nth[j])]]
                          ELSE [notab |-> TRUE])
    IN [fam |-> fam, kind |-> kind, asz |-> asz, le |-> le, sec |-> sec,
        hdr |-> IF hashd THEN EncHdr(h, asz, le) ELSE <<>>,
        eb |-> EB, hb |-> HB, probes |-> pseq, nth |-> nth, nosec |-> nosec,
        clean |-> Clean(it),
        exp |-> [it |-> it, look |-> look, hdr |-> hexp]]

Emit(x) == PrintT(<<"CASE", ToJson(x)>>)

(*=============================== "bs" =====================================*)
(* tables over 0..12; c.locs strictly increasing (or non-decreasing when Dups) *)
BsLocs(l) == Tup([i \in DOMAIN l |-> B8(l[i])])
BsInit == c = [locs |-> <<>>]
BsNext == /\ Len(c.locs) < MaxTab
          /\ \E x \in 0..12 :
               /\ (IF c.locs = <<>> THEN TRUE
                   ELSE IF Dups THEN x >= c.locs[Len(c.locs)] ELSE x > c.locs[Len(c.locs)])
               /\ c' = [locs |-> Append(c.locs, x)]

(* design-level theorem 1: lookup as coded returns the greatest entry <= probe *)
BsTheorem(l) ==
    LET L == BsLocs(l) IN
    \A a \in 0..13 :
        LET i == Lookup(L, B8(a)) g == Greatest(L, B8(a)) IN
        /\ i \in DOMAIN L
        /\ L[i] = L[g]                       \* the same location value
        /\ (StrictSorted(L) => i = g)        \* and the same row when locations are distinct

(* FDE length patterns for a strictly increasing table *)
BsLen(l, i, pat) ==
    LET gap == IF i < Len(l) THEN l[i + 1] - l[i] ELSE 1 IN
    CASE pat = 1 -> 1
      [] pat = 2 -> gap
      [] pat = 3 -> IF i % 2 = 1 THEN gap ELSE 1
(* section order of the FDEs: ascending, descending, rotated *)
BsOrder(n, pat) == Tup([k \in 1..n |-> CASE pat = 1 -> k [] pat = 2 -> n + 1 - k [] pat = 3 -> (k % n) + 1])
BsTenc(n, pat) == <<3, 59, 27, 2, 12, 28>>[((n + 2 * pat) % 6) + 1]   \* udata4, datarel|sdata4, pcrel|sdata4, udata2, sdata8, pcrel|sdata8
BsEB == Bases(B8(4096), None, None)
BsHB == Bases(B8(8192), None, B8(8192))

BsEntries(l, pat) ==
    LET n   == Len(l)
        ord == BsOrder(n, pat)
        cie == [MkCie(32, 1, <<>>, 4, 1, -4, 8) EXCEPT !.ins = <<0, 0>>]
    IN <<cie>> \o Tup([k \in 1..n |-> MkFde(32, 1, B8(l[ord[k]]), B8(BsLen(l, ord[k], pat)), <<>>)])
(* header whose table is sorted by address and points at the FDEs *)
BsHdr(l, pat, offs, tenc) ==
    LET n    == Len(l)
        ord  == BsOrder(n, pat)
        inv  == Tup([j \in 1..n |-> CHOOSE k \in 1..n : ord[k] = j])     \* section index of the j-th address
        size == TabSize(tenc)
        t0   == 4 + 4 + 4
        rows == Tup([j \in 1..n |->
                   [l |-> RawFor(tenc, B8(l[j]), BsHB, B8(t0 + (j - 1) * 2 * size), None),
                    p |-> RawFor(tenc, Add8(BsEB.section, B8(offs[inv[j] + 1])), BsHB,
                                 B8(t0 + (j - 1) * 2 * size + size), None)]])
    IN [ver |-> 1, penc |-> 27, praw |-> RawFor(27, BsEB.section, BsHB, B8(4), None),
        cenc |-> 3, count |-> B8(n), tenc |-> tenc, rows |-> rows]

(* design-level theorem 2: for non-overlapping FDEs every path gives the covering FDE *)
BsAgree(l, pat) ==
    LET es   == Concretize("eh", BsEntries(l, pat), 4, BsEB)
        offs == Offsets("eh", es, 4)
        ems  == Meanings("eh", es, offs, 4, BsEB)
        it   == IterFrom("eh", es, ems, 1, <<>>)
        h    == BsHdr(l, pat, offs, BsTenc(Len(l), pat))
        hm   == HdrMeaning(h, 4, BsHB)
        rm   == HdrRowMeanings(h, 4, BsHB)
    IN /\ Clean(it) /\ hm.ok
       /\ \A a \in 0..13 :
            LET A  == B8(a)
                s  == Scan(it, A)
                hf == HdrFde(es, ems, offs, hm, h, rm, A)
                cv == Covering(it, A)
            IN /\ s.ok = (cv # {})
               /\ (s.ok => cv = {s.i})
               /\ hf.ok = s.ok
               /\ (s.ok => hf.rec.off = it.ents[s.i].off)

BsCase(l, pat, full) ==
    LET es   == Concretize("eh", BsEntries(l, pat), 4, BsEB)
        offs == Offsets("eh", es, 4)
        h    == BsHdr(l, pat, offs, BsTenc(Len(l), pat))
    IN Case("bs", "eh", 4, (Len(l) + pat) % 4 # 0, IF full THEN es ELSE <<>>, BsEB, BsHB, h,
            {B8(a) : a \in 0..13}, ~full)

BsInv ==
    c.locs # <<>> =>
        /\ BsTheorem(c.locs)
        /\ (~Dups =>
              /\ (Len(c.locs) <= AgreeTab => \A pat \in 1..3 : BsAgree(c.locs, pat))
              /\ (IF Len(c.locs) <= FullTab
                  THEN \A pat \in 1..3 : Emit(BsCase(c.locs, pat, TRUE))
                  ELSE Emit(BsCase(c.locs, (Len(c.locs) % 3) + 1, FALSE))))

(*=============================== "sec" ====================================*)
(* CIE alphabets *)
DebugCies == << MkCie(32, 1, <<>>, 4, 1, -8, 16),
                MkCie(64, 3, <<>>, 4, 2, -4, 300),
                [MkCie(32, 4, <<ChZ, ChR>>, 8, 1, 8, 7) EXCEPT !.ins = <<0>>, !.renc = 0] >>   \* zR, absptr: FDE addresses at the CIE's size
EhCies == << MkCie(32, 1, <<>>, 4, 1, -8, 16),
             [MkCie(32, 1, <<ChZ, ChR>>, 4, 2, -4, 16) EXCEPT !.renc = 27],
             [MkCie(64, 3, <<ChZ, ChP, ChL, ChR>>, 4, 1, -8, 300)
                 EXCEPT !.renc = 27, !.lenc = 27, !.penc = 155, !.praw = FromInt(-64, 8), !.ins = <<0, 0, 0>>] >>
(* FDE ranges: A, B adjacent, C overlapping both, E empty *)
Ranges == << [s |-> 32, n |-> 8, ins |-> <<1, 2>>, fmt |-> 32],
             [s |-> 40, n |-> 8, ins |-> <<>>, fmt |-> 64],
             [s |-> 36, n |-> 8, ins |-> <<0, 1>>, fmt |-> 32],
             [s |-> 48, n |-> 0, ins |-> <<>>, fmt |-> 32] >>
SecEB == Bases(B8(4096), B8(8192), B8(12288))
(* abstract symbols: <<"C", v>>, <<"F", k, r>> (k-th CIE of the section), <<"Z">>, <<"Z64">> *)
Syms == {<<"C", v>> : v \in 1..3} \cup {<<"F", k, r>> : k \in 1..2, r \in 1..4} \cup {<<"Z">>, <<"Z64">>}
SortedPositions(w) == LET S == {i \in DOMAIN w : w[i][1] = "C"} IN
    Tup([k \in 1..Cardinality(S) |-> CHOOSE i \in S : Cardinality({j \in S : j < i}) = k - 1])
SecWF(kind, w) ==
    LET cp == SortedPositions(w) IN
    /\ Len(cp) \in 1..2
    /\ \E i \in DOMAIN w : w[i][1] = "F"
    /\ \A i \in DOMAIN w : w[i][1] = "F" => /\ w[i][2] <= Len(cp)
                                            /\ (kind = "eh" => cp[w[i][2]] < i)
SecEntries(kind, w) ==
    LET cp == SortedPositions(w) IN
    Tup([i \in DOMAIN w |->
        CASE w[i][1] = "C" -> IF kind = "eh" THEN EhCies[w[i][2]] ELSE DebugCies[w[i][2]]
          [] w[i][1] = "F" -> LET r == Ranges[w[i][3]] IN
                              [MkFde(r.fmt, cp[w[i][2]], B8(r.s), B8(r.n), r.ins) EXCEPT !.lsda = B8(r.s + 1000)]
          [] w[i][1] = "Z" -> [t |-> "zero"]
          [] w[i][1] = "Z64" -> [t |-> "zero64"]])
SecInit == c \in [kind : {"eh", "debug"}, w : {<<>>}]
SecNext == /\ Len(c.w) < MaxLen
           /\ \E s \in Syms :
                /\ (s[1] = "C" => Cardinality({i \in DOMAIN c.w : c.w[i][1] = "C"}) < 2)
                /\ c' = [c EXCEPT !.w = Append(c.w, s)]
SecInv == SecWF(c.kind, c.w) =>
    LET es == Concretize(c.kind, SecEntries(c.kind, c.w), 4, SecEB)
    IN Emit(Case("sec", c.kind, 4, Len(c.w) % 3 # 0, es, SecEB, NoBases, NoHdr, {}, FALSE))

(*=============================== "ptr" ====================================*)
(* base-address sets for an address size: absent, zero, ordinary, near wrap *)
TopMinus(asz, n) == MaskA(Sub8(Zero(8), B8(n)), asz)
BaseSets(asz) == << NoBases,
                    Bases(Zero(8), Zero(8), Zero(8)),
                    Bases(B8(4096), B8(8192), B8(12288)),
                    Bases(TopMinus(asz, 16), TopMinus(asz, 1), TopMinus(asz, 32)) >>
(* boundary raw values per format *)
P2(k) == Conc8(Shl(One(8), k))
RawVals(f) ==
    CASE f = 0 -> {Zero(8), B8(1), P2(31), Ones(8)}
      [] f = 1 -> {Zero(8), B8(127), B8(128), P2(32), Ones(8)}
      [] f = 9 -> {Zero(8), B8(63), B8(64), FromInt(-64, 8), FromInt(-65, 8), P2(63)}
      [] f \in {2, 10} -> {Zero(8), B8(1), B8(32767), B8(32768), B8(65535)}
      [] f \in {3, 11} -> {Zero(8), B8(1), Dec(P2(31)), P2(31), Dec(P2(32))}
      [] f \in {4, 12} -> {Zero(8), B8(1), Dec(P2(63)), P2(63), Ones(8)}
      [] OTHER -> {B8(1)}
RawValsSlim(f) ==
    CASE f = 0 -> {B8(1), Ones(8)}
      [] f = 1 -> {B8(128), Ones(8)}
      [] f = 9 -> {B8(64), FromInt(-65, 8), P2(63)}
      [] f \in {2, 10} -> {B8(1), B8(32768), B8(65535)}
      [] f \in {3, 11} -> {B8(1), P2(31), Dec(P2(32))}
      [] f \in {4, 12} -> {B8(1), P2(63), Ones(8)}
      [] OTHER -> {B8(1)}
PtrCtx == {"P", "L", "R"}
(* the section: a plain leading CIE (so that the entry under test is not at *)
(* offset 0), the CIE under test, one FDE of it                             *)
PtrEntries(ctx, e, raw) ==
    LET lead == MkCie(32, 1, <<>>, 4, 1, -8, 16)
        cie  == CASE ctx = "P" -> [MkCie(32, 1, <<ChZ, ChP>>, 4, 1, -8, 16) EXCEPT !.penc = e, !.praw = raw]
                  [] ctx = "L" -> [MkCie(32, 1, <<ChZ, ChL>>, 4, 1, -8, 16) EXCEPT !.lenc = e]
                  [] ctx = "R" -> [MkCie(32, 1, <<ChZ, ChR>>, 4, 1, -8, 16) EXCEPT !.renc = e]
        fde  == [MkFde(32, 2, B8(64), B8(16), <<1>>)
                    EXCEPT !.iraw = IF ctx = "R" THEN raw ELSE B8(64),
                           !.rraw = IF ctx = "R" THEN (IF PeFormat(e) \in {9, 10, 11, 12} THEN B8(5) ELSE raw) ELSE B8(16),
                           !.lraw = raw]
    IN <<lead, cie, fde>>
PtrInit == c = [stage |-> 0]
PtrNext ==
    \/ /\ c.stage = 0 /\ \E e \in 0..255 : c' = [stage |-> 1, e |-> e]      \* fan out over the workers
    \/ /\ c.stage = 1
       /\ \E ctx \in PtrCtx :
            IF IsValidEncoding(c.e) /\ c.e # PeOmit /\ PeApp(c.e) # PeAligned
            THEN \E asz \in (IF Slim THEN {4, 8} ELSE {2, 4, 8}) : \E bi \in (IF Slim THEN {1, 3, 4} ELSE 1..4) :
                 \E raw \in (IF Slim THEN RawValsSlim(PeFormat(c.e)) ELSE RawVals(PeFormat(c.e))) : \E le \in BOOLEAN :
                   /\ (~le => bi = 3 /\ asz = 4 /\ ~Slim)
                   /\ (asz = 2 => bi \in {3, 4})
                   /\ c' = [stage |-> 2, e |-> c.e, ctx |-> ctx, asz |-> asz, bi |-> bi, raw |-> raw, le |-> le]
            ELSE c' = [stage |-> 2, e |-> c.e, ctx |-> ctx, asz |-> 8, bi |-> 3, raw |-> B8(1), le |-> TRUE]
PtrInv == c.stage = 2 =>
    Emit(Case("ptr", "eh", c.asz, c.le, PtrEntries(c.ctx, c.e, c.raw), BaseSets(c.asz)[c.bi], NoBases, NoHdr, {}, FALSE)
         @@ [e |-> c.e, ctx |-> c.ctx, soft |-> c.e = PeOmit \/ (IsValidEncoding(c.e) /\ PeApp(c.e) = PeAligned)])

(*=============================== "aug" ====================================*)
AugLetters == {ChL, ChP, ChR, ChS}
RejectAugs == { <<ChL>>, <<ChP>>, <<ChR>>, <<ChZ, ChZ>>, <<ChZ, ChL, ChZ>>, <<101, 104>>, <<ChZ, 88>>,
                <<ChS, ChZ>>, <<ChS, ChL>>, <<ChZ, ChR, 66>> }
AugCie(kind, a, fmt, ver) ==
    [MkCie(fmt, ver, a, 4, 1, -8, 16)
        EXCEPT !.lenc = 27, !.penc = 0, !.praw = B8(305419896), !.renc = 27, !.augx = IF Len(a) % 2 = 0 THEN <<>> ELSE <<7, 7>>]
AugInit == c = [a |-> <<>>, kind |-> "eh", rej |-> FALSE]
(* "v4" states (same run): .debug_frame version-4 CIEs whose address_size field is       *)
(* independent of the section's default address size, with augmentations (the reader     *)
(* accepts them in .debug_frame) and address-sized / fixed-size pointer encodings: the    *)
(* FDE's initial location, range and LSDA and the personality are decoded with the CIE's  *)
(* own address size.                                                                      *)
V4Augs == {<<>>, <<ChZ>>, <<ChZ, ChR>>, <<ChZ, ChL>>, <<ChZ, ChL, ChR>>, <<ChZ, ChP, ChL, ChR>>, <<ChZ, ChR, ChP>>}
V4Encs == {0, 16, 3, 27, 4, 128}           \* absptr, pcrel|absptr, udata4, pcrel|sdata4, udata8, indirect|absptr
V4Sizes == IF Slim THEN {<<4, 4>>, <<4, 8>>, <<8, 4>>, <<8, 8>>, <<2, 8>>, <<8, 2>>}
           ELSE {<<sa, ca>> : sa \in {2, 4, 8}, ca \in {2, 4, 8}}
IsV4(st) == "x" \in DOMAIN st
AugNext ==
    \/ /\ ~IsV4(c) /\ ~c.rej /\ c.a = <<>> /\ c.kind = "eh"
       /\ \/ c' = [a |-> <<ChZ>>, kind |-> "eh", rej |-> FALSE]
          \/ c' = [a |-> <<>>, kind |-> "debug", rej |-> FALSE]
          \/ \E r \in RejectAugs : \E k \in {"eh", "debug"} : c' = [a |-> r, kind |-> k, rej |-> TRUE]
          \/ \E sz \in V4Sizes : c' = [a |-> <<>>, kind |-> "debug", rej |-> FALSE, x |-> [st |-> 1, sa |-> sz[1], ca |-> sz[2]]]
    \/ /\ ~IsV4(c) /\ ~c.rej /\ c.a = <<>> /\ c.kind = "debug"
       /\ c' = [a |-> <<ChZ>>, kind |-> "debug", rej |-> FALSE]
    \/ /\ ~IsV4(c) /\ ~c.rej /\ c.a # <<>>
       /\ \E ch \in AugLetters : ~HasCh(c.a, ch) /\ c' = [c EXCEPT !.a = Append(c.a, ch)]
    \/ /\ IsV4(c) /\ c.x.st = 1
       /\ \E a \in V4Augs : \E e \in V4Encs :
            c' = [c EXCEPT !.a = a, !.x = [st |-> 2, sa |-> c.x.sa, ca |-> c.x.ca, enc |-> e]]
AugInv ==
    IF IsV4(c) THEN
        c.x.st = 2 =>
            LET fmt == IF c.x.enc \in {4, 27} THEN 64 ELSE 32
                cie == [MkCie(fmt, 4, c.a, c.x.ca, 1, -8, 16)
                           EXCEPT !.lenc = c.x.enc, !.penc = c.x.enc, !.praw = B8(4660), !.renc = c.x.enc]
                es0 == << cie, [MkFde(32, 1, B8(4096 + 64), B8(32), <<2, 0>>) EXCEPT !.lsda = B8(5000)] >>
                es  == Concretize("debug", es0, c.x.sa, SecEB)
            IN Emit(Case("v4", "debug", c.x.sa, (c.x.sa + c.x.enc) % 3 # 0, es, SecEB, NoBases, NoHdr, {}, FALSE)
                    @@ [aug |-> c.a, casz |-> c.x.ca, enc |-> c.x.enc])
    ELSE
    \A fv \in {<<32, 1>>, <<64, 3>>, <<32, 4>>} :
        LET cie == AugCie(c.kind, c.a, fv[1], fv[2])
            es0 == << cie, [MkFde(32, 1, B8(4096 + 64), B8(32), <<2, 0>>) EXCEPT !.lsda = B8(77777), !.augx = <<9>>] >>
            es  == IF c.rej THEN es0 ELSE Concretize(c.kind, es0, 4, SecEB)
        IN Emit(Case("aug", c.kind, 4, TRUE, es, SecEB, NoBases, NoHdr, {}, FALSE) @@ [aug |-> c.a])

(*=============================== "hdr" ====================================*)
HdrBaseSets == << NoBases, Bases(B8(8192), B8(100), B8(8192)), Bases(B8(8192), None, None), Bases(None, B8(100), B8(300)) >>
HdrEntries == LET cie == MkCie(32, 1, <<>>, 8, 1, -8, 16) IN
    << cie, MkFde(32, 1, B8(4096 + 32), B8(16), <<>>), MkFde(32, 1, B8(4096), B8(16), <<4>>), MkFde(32, 1, B8(4096 + 16), B8(16), <<>>) >>
HdrOrder == <<3, 4, 2>>          \* entry indices by ascending address
HdrFor(penc, cenc, tenc, HB, offs) ==
    LET size == IF TabSize(tenc) = 0 THEN 8 ELSE TabSize(tenc)
        t0   == 4 + Len(EncVal(PeFormat(penc), Zero(8), 8, TRUE)) + Len(EncVal(PeFormat(cenc), B8(3), 8, TRUE))
        ok(e, pos) == IsValidEncoding(e) /\ e # PeOmit /\ PtrBase(e, HB, pos, None) # None
        raw(e, tgt, pos) == IF ok(e, pos) THEN RawFor(e, tgt, HB, pos, None) ELSE tgt
        fixed == PeFormat(tenc) \notin {1, 9}
        rows == Tup([j \in 1..3 |->
                   LET p1 == B8(t0 + (j - 1) * 2 * size) p2 == B8(t0 + (j - 1) * 2 * size + size) IN
                   [l |-> IF fixed THEN raw(tenc, B8(4096 + 16 * (j - 1)), p1) ELSE B8(4096 + 16 * (j - 1)),
                    p |-> IF fixed THEN raw(tenc, B8(20480 + offs[HdrOrder[j]]), p2) ELSE B8(20480 + offs[HdrOrder[j]])]])
    IN [ver |-> 1, penc |-> penc, praw |-> raw(penc, B8(20480), B8(4)), cenc |-> cenc, count |-> B8(3),
        tenc |-> tenc, rows |-> rows]
HdrInit == c = [stage |-> 0]
HdrNext ==
    \/ /\ c.stage = 0 /\ \E e \in 0..255 : c' = [stage |-> 1, e |-> e]      \* fan out over the workers
    \/ /\ c.stage = 1
       /\ \E pos \in {"p", "c", "t", "v"} : \E bi \in (IF Slim THEN 1..2 ELSE 1..4) :
            /\ (pos = "v" => c.e \in {0, 1, 2} /\ bi = 2)
            /\ ((~IsValidEncoding(c.e) \/ pos = "c") => bi = 2)
            /\ c' = [stage |-> 2, pos |-> pos, e |-> c.e, bi |-> bi]
HdrInv == c.stage = 2 =>
    LET HB   == HdrBaseSets[c.bi]
        EB   == Bases(B8(20480), None, None)
        es   == HdrEntries
        offs == Offsets("eh", es, 8)
        h0   == HdrFor(IF c.pos = "p" THEN c.e ELSE 27, IF c.pos = "c" THEN c.e ELSE 3,
                       IF c.pos = "t" THEN c.e ELSE 59, HB, offs)
        h    == IF c.pos = "v" THEN [h0 EXCEPT !.ver = c.e] ELSE h0
    IN Emit(Case("hdr", "eh", 8, c.e % 5 # 0, es, EB, HB, h,
                 {B8(4095), B8(4096), B8(4096 + 15), B8(4096 + 16), B8(4096 + 40), B8(4096 + 47), B8(4096 + 48)}, FALSE)
            @@ [e |-> c.e, pos |-> c.pos])

(*=============================== "lem" ====================================*)
(* the unrolled width-8 operators and the small-integer LEB128 encoders     *)
(* agree with BV / Leb on a boundary grid                                   *)
LemVals == {Conc8(Zero(8)), Conc8(One(8)), Conc8(Ones(8)), N8(63), N8(64), N8(127), N8(128), N8(255), N8(256),
            N8(65535), N8(65536), N8(2147483647),
            P2(31), P2(32), P2(62), P2(63), Sub8(P2(63), N8(1)), Sub8(P2(62), N8(1)),
            Sub8(N8(0), N8(16)), Sub8(N8(0), N8(64)), Sub8(N8(0), N8(65)), Sub8(N8(0), P2(62)), Sub8(Sub8(N8(0), P2(62)), N8(1)),
            <<255, 0, 255, 0, 255, 0, 255, 0>>, <<1, 2, 3, 4, 5, 6, 7, 8>>}
LemNats == {0, 1, 63, 64, 127, 128, 255, 256, 16383, 16384, 65535, 65536, 305419896, 2147483647}
LemInv ==
    /\ \A a \in LemVals : \A b \in LemVals :
          /\ Add8(a, b) = Add(a, b) /\ Sub8(a, b) = Sub(a, b)
          /\ ULt8(a, b) = ULt(a, b) /\ ULe8(a, b) = ULe(a, b)
    /\ \A a \in LemVals : /\ AllowedU(EncU8(a), 8, 10) = {Ok(a, Len(EncU8(a)))}
                           /\ AllowedS(EncS8(a)) = {Ok(a, Len(EncS8(a)))}
                           /\ Len(EncU8(a)) <= 10 /\ Len(EncS8(a)) <= 10
    /\ \A n \in LemNats : /\ N8(n) = FromNat(n, 8)
                           /\ UlebNat(n) = EncU(FromNat(n, 8))
                           /\ SlebInt(n) = EncS(FromNat(n, 8))
                           /\ SlebInt(-n) = EncS(FromInt(-n, 8))
                           /\ SlebInt(-n - 1) = EncS(FromInt(-n - 1, 8))

(*==========================================================================*)
Init == CASE Fam = "bs" -> BsInit [] Fam = "sec" -> SecInit [] Fam = "ptr" -> PtrInit
          [] Fam = "aug" -> AugInit [] Fam = "hdr" -> HdrInit [] Fam = "lem" -> c = 0
Next == CASE Fam = "bs" -> BsNext [] Fam = "sec" -> SecNext [] Fam = "ptr" -> PtrNext
          [] Fam = "aug" -> AugNext [] Fam = "hdr" -> HdrNext [] Fam = "lem" -> UNCHANGED c
Inv  == CASE Fam = "bs" -> BsInv [] Fam = "sec" -> SecInv [] Fam = "ptr" -> PtrInv
          [] Fam = "aug" -> AugInv [] Fam = "hdr" -> HdrInv [] Fam = "lem" -> LemInv
=============================================================================
