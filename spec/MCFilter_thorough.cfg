INIT Init
NEXT Next
INVARIANT Inv
CHECK_DEADLOCK FALSE
CONSTANTS
  MaxN = 4
  MaxUnits = 2
  MaxEdges = 3
  MaxEdgesBig = 2
  Salt = 0
  EmitMod = 7
  CheckSplit = FALSE
  KindN = 2
  FewSubsets = FALSE
  RootN = 2
