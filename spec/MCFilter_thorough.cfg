INIT Init
NEXT Next
INVARIANT Inv
CHECK_DEADLOCK FALSE
CONSTANTS
  MaxN = 4
  MaxUnits = 2
  MaxEdges = 3
  MaxEdgesBig = 1
  Salt = 1
  EmitMod = 3
  CheckSplit = TRUE
  KindN = 3
  FewSubsets = FALSE
  RootN = 3
