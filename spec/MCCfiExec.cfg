INIT Init
NEXT Next
INVARIANT Inv
CHECK_DEADLOCK FALSE
CONSTANTS
  Plan = "quick"
  MaxBytes = 2
  Quick = TRUE
