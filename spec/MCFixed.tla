----------------------------- MODULE MCFixed -----------------------------
(* Fixed-width integers, sized address/offset fields and initial lengths   *)
(* (C09): every size argument 0..255, both byte orders, truncation around  *)
(* the field size.  One state per (op, arg, byte order, pattern, length).  *)
EXTENDS Leb, TLC, Json
VARIABLE c

Pat == { [i \in 1..17 |-> i],
         [i \in 1..17 |-> 255],
         [i \in 1..17 |-> IF i = 1 THEN 128 ELSE 0],
         [i \in 1..17 |-> IF i % 2 = 0 THEN 127 + i ELSE 255 - i] }
(* initial-length words, as values; laid out in the chosen byte order *)
ILWords == { <<0,0,0,0>>, <<1,0,0,0>>, <<239,255,255,255>>, <<240,255,255,255>>, <<241,255,255,255>>,
             <<254,255,255,255>>, <<255,255,255,255>>, <<255,255,255,127>>, <<0,0,0,128>> }
IL64 == { <<1,2,3,4,5,6,7,8>>, <<255,255,255,255,255,255,255,255>>, <<0,0,0,0,1,0,0,0>>, <<0,0,0,0,0,0,0,0>> }

SimpleOps == { <<"read_u8", 1>>, <<"read_u16", 2>>, <<"read_u32", 4>>, <<"read_u64", 8>>,
               <<"read_i8", 1>>, <<"read_i16", 2>>, <<"read_i32", 4>>, <<"read_i64", 8>> }
OpNames == {o[1] : o \in SimpleOps} \cup {"read_uint", "read_address", "read_sized_offset", "read_offset",
            "read_word", "read_length", "read_u128", "read_initial_length", "read_address_size"}

Lens(n) == {l \in {0, n - 1, n, n + 1, 17} : l >= 0 /\ l <= 17}

Init == c \in [op : OpNames, stage : {0}]
Lay(v, le) == IF le THEN v ELSE Reverse(v)
Next ==
  /\ c.stage = 0
  /\ \E le \in BOOLEAN :
     \/ /\ c.op \in {o[1] : o \in SimpleOps}
        /\ \E p \in Pat : \E o \in SimpleOps : o[1] = c.op /\ \E l \in Lens(o[2]) :
             c' = [op |-> c.op, stage |-> 1, arg |-> o[2], le |-> le, bytes |-> SubSeq(p, 1, l),
                   exp |-> ReadUint(SubSeq(p, 1, l), o[2], le)]
     \/ /\ c.op = "read_uint"
        /\ \E p \in Pat : \E n \in 0..8 : \E l \in Lens(n) :
             c' = [op |-> c.op, stage |-> 1, arg |-> n, le |-> le, bytes |-> SubSeq(p, 1, l),
                   exp |-> ReadUint(SubSeq(p, 1, l), n, le)]
     \/ /\ c.op \in {"read_address", "read_sized_offset"}
        /\ \E p \in Pat : \E n \in 0..255 : \E l \in Lens(IF n <= 16 THEN n ELSE 8) :
             c' = [op |-> c.op, stage |-> 1, arg |-> n, le |-> le, bytes |-> SubSeq(p, 1, l),
                   exp |-> ReadSized(SubSeq(p, 1, l), n, le)]
     \/ /\ c.op \in {"read_offset", "read_word", "read_length"}
        /\ \E p \in Pat : \E n \in {4, 8} : \E l \in Lens(n) :
             c' = [op |-> c.op, stage |-> 1, arg |-> n, le |-> le, bytes |-> SubSeq(p, 1, l),
                   exp |-> ReadUint(SubSeq(p, 1, l), n, le)]
     \/ /\ c.op = "read_u128"
        /\ \E p \in Pat : \E l \in Lens(16) :
             c' = [op |-> c.op, stage |-> 1, arg |-> 16, le |-> le, bytes |-> SubSeq(p, 1, l),
                   exp |-> IF l < 16 THEN Err ELSE Ok(FieldVal(SubSeq(p, 1, 16), le), 16)]
     \/ /\ c.op = "read_initial_length"
        /\ \E w \in ILWords : \E x \in IL64 : \E l \in {0, 3, 4, 5, 11, 12, 13} :
             LET b == SubSeq(Lay(w, le) \o Lay(x, le) \o <<9>>, 1, l) IN
             c' = [op |-> c.op, stage |-> 1, arg |-> 0, le |-> le, bytes |-> b,
                   exp |-> ReadInitialLength(b, le)]
     \/ /\ c.op = "read_address_size"
        /\ \E b \in 0..255 : \E l \in {0, 1, 2} :
             c' = [op |-> c.op, stage |-> 1, arg |-> 0, le |-> le, bytes |-> SubSeq(<<b, 7>>, 1, l),
                   exp |-> IF l >= 1 /\ b \in {1, 2, 4, 8} THEN Ok(FromNat(b, 8), 1) ELSE Err]

Inv == c.stage = 1 =>
         PrintT(<<"CASE", ToJson([sys |-> "fixed", op |-> c.op, arg |-> c.arg, le |-> c.le,
                                  bytes |-> c.bytes, exp |-> {c.exp}])>>)
=============================================================================
