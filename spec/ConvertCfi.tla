----------------------------- MODULE ConvertCfi -----------------------------
(***************************************************************************)
(* Conversion of call frame information (C12), as coded in                 *)
(* src/write/cfi.rs:                                                       *)
(*   CommonInformationEntry::from   alignment factors narrowed to u8 / i8  *)
(*   FrameDescriptionEntry::from    address range narrowed to u32          *)
(*   CallFrameInstruction::from     advance_loc accumulates                *)
(*       delta * code_alignment_factor into a u32 offset; factored offsets *)
(*       are multiplied by the data alignment factor and narrowed to i32;  *)
(*       unfactored offsets are narrowed to i32, args_size to u32; every   *)
(*       narrowing that loses a bit is Error::ValueTooLarge; set_loc is    *)
(*       UnsupportedCfiInstruction; nop is dropped                         *)
(* composed with the writer's re-factoring (CallFrameInstruction::write,   *)
(* write_advance_loc): exact division by the narrowed factors or an error. *)
(*                                                                         *)
(* Next to it stands the reference meaning of the INPUT instructions (DWARF*)
(* 6.4.2 with gimli's reader conventions: factored products modulo 2^64,   *)
(* remember/restore_state save the whole row).  Both are run by one        *)
(* engine that produces unwind rows; Convert!Unwind turns rows into the    *)
(* function address |-> rules.  The theorem checked by TLC on every        *)
(* enumerated input (MCConvertCfi):                                        *)
(*     conversion and writing succeed  =>                                  *)
(*         Unwind(rows of converted instructions) = Unwind(rows of input)  *)
(*                                                                         *)
(* Values are 64-bit little-endian byte tuples; registers are naturals.    *)
(***************************************************************************)
EXTENDS Leb, Convert

(* constants without recursion (TLC re-evaluates recursive "constants") *)
B(n) == <<n % 256, (n \div 256) % 256, (n \div 65536) % 256, (n \div 16777216) % 256, 0, 0, 0, 0>>   \* 0 <= n < 2^31
I(n) == IF n >= 0 THEN B(n)                                                                          \* |n| < 2^31
        ELSE LET k == -(n + 1) IN
             <<255 - (k % 256), 255 - ((k \div 256) % 256), 255 - ((k \div 65536) % 256),
               255 - ((k \div 16777216) % 256), 255, 255, 255, 255>>
Z8 == Zero64
I32Min == <<0, 0, 0, 128, 255, 255, 255, 255>>
Neg8(v) == v[8] >= 128
Abs64(v) == IF Neg8(v) THEN Neg64(v) ELSE v

(*------------------------------------------------------------------------*)
(* checked integer conversions and arithmetic of the Rust code             *)
(*------------------------------------------------------------------------*)
(* The alignment factors of a CIE configuration `c` are carried both as    *)
(* 64-bit tuples (c.caf, c.daf: what the reader returns) and as TLC        *)
(* integers (c.cafn \in 0..65535, c.dafn \in -32768..32767) so that         *)
(* products can be formed limb-wise without recursion.                     *)
FitsU8(v)   == \A i \in 2..8 : v[i] = 0                 \* u8::try_from(u64)
FitsI8(v)   == \A i \in 2..8 : v[i] = (IF v[1] >= 128 THEN 255 ELSE 0)          \* i8::try_from(i64)
FitsU32(v)  == \A i \in 5..8 : v[i] = 0                 \* u32::try_from(u64)
FitsI32(v)  == \A i \in 5..8 : v[i] = (IF v[4] >= 128 THEN 255 ELSE 0)          \* i32::try_from(i64)
FitsI32U(v) == FitsU32(v) /\ v[4] < 128                 \* i32::try_from(u64)
FitsI64U(v) == v[8] < 128                               \* i64::try_from(u64)

(* exact product of an unsigned 64-bit tuple and 0 <= k <= 65535: 11 bytes *)
MulK(a, k) ==
    LET p1 == a[1] * k
        p2 == a[2] * k + p1 \div 256
        p3 == a[3] * k + p2 \div 256
        p4 == a[4] * k + p3 \div 256
        p5 == a[5] * k + p4 \div 256
        p6 == a[6] * k + p5 \div 256
        p7 == a[7] * k + p6 \div 256
        p8 == a[8] * k + p7 \div 256
        t  == p8 \div 256
    IN <<p1 % 256, p2 % 256, p3 % 256, p4 % 256, p5 % 256, p6 % 256, p7 % 256, p8 % 256,
         t % 256, (t \div 256) % 256, t \div 65536>>
Low8(p) == <<p[1], p[2], p[3], p[4], p[5], p[6], p[7], p[8]>>
High0(p) == p[9] = 0 /\ p[10] = 0 /\ p[11] = 0
AbsN(n) == IF n < 0 THEN -n ELSE n

(* u64 checked_mul by the code alignment factor, u64 checked_add *)
MulU(d, c) == LET p == MulK(d, c.cafn) IN [ok |-> High0(p), v |-> Low8(p)]
AddU(a, b) == LET s == Add64c(a, b, 0) IN [ok |-> s.c = 0, v |-> s.v]
(* i64 checked_mul by the data alignment factor: sign and magnitude *)
MulS(f, c) ==
    LET p   == MulK(Abs64(f), AbsN(c.dafn))
        m   == Low8(p)
        neg == Neg8(f) # (c.dafn < 0) /\ ~(\A i \in 1..11 : p[i] = 0)
        fits == High0(p) /\ (m[8] < 128 \/ (neg /\ m = <<0, 0, 0, 0, 0, 0, 0, 128>>))
    IN [ok |-> fits, v |-> IF neg THEN Neg64(m) ELSE m]
(* wrapping products (what the reader computes) *)
WMulCaf(d, c) == Low8(MulK(d, c.cafn))
WMulDaf(f, c) == LET m == Low8(MulK(f, AbsN(c.dafn))) IN IF c.dafn < 0 THEN Neg64(m) ELSE m

(* v mod k for a natural 1 <= k <= 65535, most significant byte first *)
ModSmall(v, k) ==
    LET r8 == v[8] % k
        r7 == (r8 * 256 + v[7]) % k
        r6 == (r7 * 256 + v[6]) % k
        r5 == (r6 * 256 + v[5]) % k
        r4 == (r5 * 256 + v[4]) % k
        r3 == (r4 * 256 + v[3]) % k
        r2 == (r3 * 256 + v[2]) % k
    IN (r2 * 256 + v[1]) % k

(* LEB128 encoders on 64-bit tuples without bit lists; `Lemma` in          *)
(* MCConvertCfi checks them against Leb!EncU / Leb!EncS (the writers as    *)
(* coded) on every operand of the alphabets.  D7(v, k) = bits 7k..7k+6.    *)
D7(v, k) == LET o == 7 * k
                i == (o \div 8) + 1
                w == v[i] + (IF i < 8 THEN 256 * v[i + 1] ELSE 0)
            IN (w \div (2 ^ (o % 8))) % 128
ULeb64(v) ==
    LET hi == IF \E k \in 0..9 : D7(v, k) # 0
              THEN CHOOSE k \in 0..9 : D7(v, k) # 0 /\ \A j \in (k + 1)..9 : D7(v, j) = 0
              ELSE 0
    IN SubSeq([k \in 1..(hi + 1) |-> D7(v, k - 1) + (IF k <= hi THEN 128 ELSE 0)], 1, hi + 1)
SLeb64(v) ==
    LET sg == IF Neg8(v) THEN 1 ELSE 0
        D(k) == IF k = 9 THEN (v[8] \div 128) + 126 * sg ELSE D7(v, k)
        done(k) == (\A j \in (k + 1)..9 : D(j) = 127 * sg) /\ (D(k) \div 64) = sg
        hi == CHOOSE k \in 0..9 : done(k) /\ \A j \in 0..(k - 1) : ~done(j)
    IN SubSeq([k \in 1..(hi + 1) |-> D(k - 1) + (IF k <= hi THEN 128 ELSE 0)], 1, hi + 1)

(*------------------------------------------------------------------------*)
(* input instructions (abstract) and their byte encoding                   *)
(*------------------------------------------------------------------------*)
(* [op |-> name, ...]: w = operand width selector of advance_loc (0 = in   *)
(* the opcode, 1, 2, 4), d = delta, r/s = registers, v = u64 or i64        *)
(* operand, a = address, x = expression (record [bytes, ops])              *)
RegB(r) == ULeb64(B(r))
Blk(x) == ULeb64(B(Len(x.bytes))) \o x.bytes
Enc(i) ==
    CASE i.op = "advance" ->
           (CASE i.w = 0 -> <<64 + i.d[1]>>
              [] i.w = 1 -> <<2, i.d[1]>>
              [] i.w = 2 -> <<3, i.d[1], i.d[2]>>
              [] OTHER   -> <<4, i.d[1], i.d[2], i.d[3], i.d[4]>>)
      [] i.op = "set_loc"             -> <<1>> \o i.a
      [] i.op = "def_cfa"             -> <<12>> \o RegB(i.r) \o ULeb64(i.v)
      [] i.op = "def_cfa_sf"          -> <<18>> \o RegB(i.r) \o SLeb64(i.v)
      [] i.op = "def_cfa_register"    -> <<13>> \o RegB(i.r)
      [] i.op = "def_cfa_offset"      -> <<14>> \o ULeb64(i.v)
      [] i.op = "def_cfa_offset_sf"   -> <<19>> \o SLeb64(i.v)
      [] i.op = "def_cfa_expression"  -> <<15>> \o Blk(i.x)
      [] i.op = "offset"              -> <<128 + i.r>> \o ULeb64(i.v)
      [] i.op = "offset_extended"     -> <<5>> \o RegB(i.r) \o ULeb64(i.v)
      [] i.op = "offset_extended_sf"  -> <<17>> \o RegB(i.r) \o SLeb64(i.v)
      [] i.op = "val_offset"          -> <<20>> \o RegB(i.r) \o ULeb64(i.v)
      [] i.op = "val_offset_sf"       -> <<21>> \o RegB(i.r) \o SLeb64(i.v)
      [] i.op = "restore"             -> <<192 + i.r>>
      [] i.op = "restore_extended"    -> <<6>> \o RegB(i.r)
      [] i.op = "undefined"           -> <<7>> \o RegB(i.r)
      [] i.op = "same_value"          -> <<8>> \o RegB(i.r)
      [] i.op = "register"            -> <<9>> \o RegB(i.r) \o RegB(i.s)
      [] i.op = "expression"          -> <<16>> \o RegB(i.r) \o Blk(i.x)
      [] i.op = "val_expression"      -> <<22>> \o RegB(i.r) \o Blk(i.x)
      [] i.op = "remember_state"      -> <<10>>
      [] i.op = "restore_state"       -> <<11>>
      [] i.op = "args_size"           -> <<46>> \o ULeb64(i.v)
      [] OTHER (* nop *)              -> <<0>>
RECURSIVE EncProg(_)
EncProg(p) == IF p = <<>> THEN <<>> ELSE Enc(Head(p)) \o EncProg(Tail(p))

(*------------------------------------------------------------------------*)
(* the engine: semantic actions -> unwind rows                             *)
(*------------------------------------------------------------------------*)
(* actions: [a |-> "adv", d] advance by d; [a |-> "to", off] advance to an *)
(* absolute offset (no row if equal); "setloc" to an address; "cfa" r off; *)
(* "cfa_reg" r; "cfa_off" off; "cfa_expr" ops; "rule" r rule; "restore" r; *)
(* "remember"; "restore_state"; "args" v                                   *)
CfaReg(r, off) == [k |-> "reg", r |-> r, off |-> off]
Without(rs, reg) == SelectSeq(rs, LAMBDA x : x.reg # reg)
SetRule(rs, reg, rule) ==
    LET o == Without(rs, reg) IN
    SelectSeq(o, LAMBDA x : x.reg < reg) \o <<[reg |-> reg, rule |-> rule]>> \o SelectSeq(o, LAMBDA x : x.reg > reg)
Lookup(rs, reg) == SelectSeq(rs, LAMBDA x : x.reg = reg)

S0 == [loc |-> Z8, cfa |-> CfaReg(0, Z8), rules |-> <<>>, args |-> Z8, stack |-> <<>>, rows |-> <<>>,
       init |-> <<>>, bad |-> FALSE]
RowTo(s, to, start) == [start |-> Add64(start, s.loc), end |-> Add64(start, to), cfa |-> s.cfa, rules |-> s.rules, args |-> s.args]
Advance(s, to, start) == [s EXCEPT !.rows = Append(@, RowTo(s, to, start)), !.loc = to]

Act(s, a, start) ==
    CASE a.a = "adv"     -> Advance(s, Add64(s.loc, a.d), start)
      [] a.a = "to"      -> IF a.off = s.loc THEN s ELSE Advance(s, a.off, start)
      [] a.a = "setloc"  -> Advance(s, Sub64(a.to, start), start)
      [] a.a = "cfa"     -> [s EXCEPT !.cfa = CfaReg(a.r, a.off)]
      [] a.a = "cfa_reg" -> IF s.cfa.k = "reg" THEN [s EXCEPT !.cfa.r = a.r] ELSE [s EXCEPT !.bad = TRUE]
      [] a.a = "cfa_off" -> IF s.cfa.k = "reg" THEN [s EXCEPT !.cfa.off = a.off] ELSE [s EXCEPT !.bad = TRUE]
      [] a.a = "cfa_expr" -> [s EXCEPT !.cfa = [k |-> "expr", ops |-> a.ops]]
      [] a.a = "rule"    -> [s EXCEPT !.rules = SetRule(@, a.r, a.rule)]
      [] a.a = "restore" -> LET i == Lookup(s.init, a.r) IN
                            IF i = <<>> THEN [s EXCEPT !.rules = Without(@, a.r)]
                            ELSE [s EXCEPT !.rules = SetRule(@, a.r, i[1].rule)]
      [] a.a = "remember" -> [s EXCEPT !.stack = Append(@, [cfa |-> s.cfa, rules |-> s.rules, args |-> s.args])]
      [] a.a = "restore_state" ->
             IF s.stack = <<>> THEN [s EXCEPT !.bad = TRUE]
             ELSE LET t == s.stack[Len(s.stack)] IN
                  [s EXCEPT !.cfa = t.cfa, !.rules = t.rules, !.args = t.args, !.stack = SubSeq(@, 1, Len(@) - 1)]
      [] OTHER (* args *) -> [s EXCEPT !.args = a.v]

RECURSIVE Fold(_, _, _)
Fold(s, acts, start) == IF acts = <<>> THEN s ELSE Fold(Act(s, Head(acts), start), Tail(acts), start)

(* CIE actions run at location 0, their rows are discarded, the resulting   *)
(* rules are the initial rules of the FDE; then the FDE's actions; the last *)
(* row ends at the end of the FDE's range.                                  *)
Rows(cieacts, fdeacts, start, len) ==
    LET c == Fold(S0, cieacts, start)
        f0 == [c EXCEPT !.loc = Z8, !.rows = <<>>, !.init = c.rules, !.stack = <<>>]
        f == Fold(f0, fdeacts, start)
    IN [rows |-> Append(f.rows, RowTo(f, len, start)), bad |-> c.bad \/ f.bad \/ c.stack # <<>>]

(*------------------------------------------------------------------------*)
(* reference meaning of the input                                          *)
(*------------------------------------------------------------------------*)
Rule(r, rule) == <<[a |-> "rule", r |-> r, rule |-> rule]>>
RefActs(i, c) ==
    CASE i.op = "advance"            -> <<[a |-> "adv", d |-> WMulCaf(i.d, c)]>>
      [] i.op = "set_loc"            -> <<[a |-> "setloc", to |-> i.a]>>
      [] i.op = "def_cfa"            -> <<[a |-> "cfa", r |-> i.r, off |-> i.v]>>
      [] i.op = "def_cfa_sf"         -> <<[a |-> "cfa", r |-> i.r, off |-> WMulDaf(i.v, c)]>>
      [] i.op = "def_cfa_register"   -> <<[a |-> "cfa_reg", r |-> i.r]>>
      [] i.op = "def_cfa_offset"     -> <<[a |-> "cfa_off", off |-> i.v]>>
      [] i.op = "def_cfa_offset_sf"  -> <<[a |-> "cfa_off", off |-> WMulDaf(i.v, c)]>>
      [] i.op = "def_cfa_expression" -> <<[a |-> "cfa_expr", ops |-> i.x.ops]>>
      [] i.op \in {"offset", "offset_extended", "offset_extended_sf"} ->
             Rule(i.r, [k |-> "offset", v |-> WMulDaf(i.v, c)])
      [] i.op \in {"val_offset", "val_offset_sf"} -> Rule(i.r, [k |-> "val_offset", v |-> WMulDaf(i.v, c)])
      [] i.op \in {"restore", "restore_extended"} -> <<[a |-> "restore", r |-> i.r]>>
      [] i.op = "undefined"          -> Rule(i.r, [k |-> "undefined"])
      [] i.op = "same_value"         -> Rule(i.r, [k |-> "same_value"])
      [] i.op = "register"           -> Rule(i.r, [k |-> "register", r |-> i.s])
      [] i.op = "expression"         -> Rule(i.r, [k |-> "expression", ops |-> i.x.ops])
      [] i.op = "val_expression"     -> Rule(i.r, [k |-> "val_expression", ops |-> i.x.ops])
      [] i.op = "remember_state"     -> <<[a |-> "remember"]>>
      [] i.op = "restore_state"      -> <<[a |-> "restore_state"]>>
      [] i.op = "args_size"          -> <<[a |-> "args", v |-> i.v]>>
      [] OTHER                       -> <<>>
RECURSIVE RefProg(_, _)
RefProg(p, c) == IF p = <<>> THEN <<>> ELSE RefActs(Head(p), c) \o RefProg(Tail(p), c)
RefRows(c, cie, fde) == Rows(RefProg(cie, c), RefProg(fde, c), c.start, c.len)
(* inputs the reader itself refuses or to which DWARF gives no meaning are  *)
(* not cases: restore in a CIE, restore_state without remember_state,       *)
(* def_cfa_register/offset while the CFA is an expression, set_loc going    *)
(* backwards                                                                *)
RECURSIVE NoBackwardSetLoc(_, _, _)
NoBackwardSetLoc(p, c, loc) ==
    IF p = <<>> THEN TRUE
    ELSE LET i == Head(p) IN
         IF i.op = "set_loc" THEN ~ULt64(i.a, Add64(c.start, loc)) /\ NoBackwardSetLoc(Tail(p), c, Sub64(i.a, c.start))
         ELSE IF i.op = "advance" THEN NoBackwardSetLoc(Tail(p), c, Add64(loc, WMulCaf(i.d, c)))
         ELSE NoBackwardSetLoc(Tail(p), c, loc)
WellFormed(c, cie, fde) ==
    /\ \A j \in DOMAIN cie : cie[j].op \notin {"restore", "restore_extended", "set_loc"}
    /\ ~RefRows(c, cie, fde).bad
    /\ NoBackwardSetLoc(fde, c, Z8)

(*------------------------------------------------------------------------*)
(* the conversion as coded                                                 *)
(*------------------------------------------------------------------------*)
(* write-side instructions: [w |-> variant of write::CallFrameInstruction] *)
(* with i32 / u32 operands kept sign/zero-extended to 64 bits              *)
CErr(off)    == [st |-> "err", w |-> <<>>, off |-> off]
COk(wi, off) == [st |-> "ok", w |-> <<wi>>, off |-> off]
Factored(f, c) == LET p == MulS(f, c) IN [ok |-> p.ok /\ FitsI32(p.v), v |-> p.v]
UFactored(f, c) == IF FitsI64U(f) THEN Factored(f, c) ELSE [ok |-> FALSE, v |-> Z8]

ConvIns(i, c, off) ==
    CASE i.op = "set_loc" -> CErr(off)
      [] i.op = "advance" ->
             LET m == MulU(i.d, c)
                 s == AddU(off, m.v) IN
             IF m.ok /\ s.ok /\ FitsU32(s.v) THEN [st |-> "ok", w |-> <<>>, off |-> s.v] ELSE CErr(off)
      [] i.op = "def_cfa" -> IF FitsI32U(i.v) THEN COk([w |-> "Cfa", r |-> i.r, off |-> i.v], off) ELSE CErr(off)
      [] i.op = "def_cfa_sf" ->
             LET f == Factored(i.v, c) IN IF f.ok THEN COk([w |-> "Cfa", r |-> i.r, off |-> f.v], off) ELSE CErr(off)
      [] i.op = "def_cfa_register" -> COk([w |-> "CfaRegister", r |-> i.r], off)
      [] i.op = "def_cfa_offset" -> IF FitsI32U(i.v) THEN COk([w |-> "CfaOffset", off |-> i.v], off) ELSE CErr(off)
      [] i.op = "def_cfa_offset_sf" ->
             LET f == Factored(i.v, c) IN IF f.ok THEN COk([w |-> "CfaOffset", off |-> f.v], off) ELSE CErr(off)
      [] i.op = "def_cfa_expression" -> COk([w |-> "CfaExpression", ops |-> i.x.ops], off)
      [] i.op \in {"offset", "offset_extended"} ->
             LET f == UFactored(i.v, c) IN IF f.ok THEN COk([w |-> "Offset", r |-> i.r, off |-> f.v], off) ELSE CErr(off)
      [] i.op = "offset_extended_sf" ->
             LET f == Factored(i.v, c) IN IF f.ok THEN COk([w |-> "Offset", r |-> i.r, off |-> f.v], off) ELSE CErr(off)
      [] i.op = "val_offset" ->
             LET f == UFactored(i.v, c) IN IF f.ok THEN COk([w |-> "ValOffset", r |-> i.r, off |-> f.v], off) ELSE CErr(off)
      [] i.op = "val_offset_sf" ->
             LET f == Factored(i.v, c) IN IF f.ok THEN COk([w |-> "ValOffset", r |-> i.r, off |-> f.v], off) ELSE CErr(off)
      [] i.op \in {"restore", "restore_extended"} -> COk([w |-> "Restore", r |-> i.r], off)
      [] i.op = "undefined"      -> COk([w |-> "Undefined", r |-> i.r], off)
      [] i.op = "same_value"     -> COk([w |-> "SameValue", r |-> i.r], off)
      [] i.op = "register"       -> COk([w |-> "Register", r |-> i.r, s |-> i.s], off)
      [] i.op = "expression"     -> COk([w |-> "Expression", r |-> i.r, ops |-> i.x.ops], off)
      [] i.op = "val_expression" -> COk([w |-> "ValExpression", r |-> i.r, ops |-> i.x.ops], off)
      [] i.op = "remember_state" -> COk([w |-> "RememberState"], off)
      [] i.op = "restore_state"  -> COk([w |-> "RestoreState"], off)
      [] i.op = "args_size" -> IF FitsU32(i.v) THEN COk([w |-> "ArgsSize", v |-> i.v], off) ELSE CErr(off)
      [] OTHER (* nop *) -> [st |-> "ok", w |-> <<>>, off |-> off]

(* fold over a program: [ok, ws: Seq([off, w])] *)
RECURSIVE ConvProg(_, _, _, _)
ConvProg(p, c, off, acc) ==
    IF p = <<>> THEN [ok |-> TRUE, ws |-> acc]
    ELSE LET r == ConvIns(Head(p), c, off) IN
         IF r.st = "err" THEN [ok |-> FALSE, ws |-> acc]
         ELSE ConvProg(Tail(p), c, r.off,
                       IF r.w = <<>> THEN acc ELSE Append(acc, [off |-> r.off, w |-> r.w[1]]))

ConvCieOk(c, cie) == FitsU8(c.caf) /\ FitsI8(c.daf) /\ ConvProg(cie, c, Z8, <<>>).ok
ConvFdeOk(c, fde) == FitsU32(c.len) /\ ConvProg(fde, c, Z8, <<>>).ok
ConvOk(c, cie, fde) == ConvCieOk(c, cie) /\ ConvFdeOk(c, fde)

(*------------------------------------------------------------------------*)
(* the writer's re-factoring                                               *)
(*------------------------------------------------------------------------*)
(* factored_data_offset: checked_div (zero factor, i32::MIN / -1) and      *)
(* exactness; factored_code_delta: checked_div and exactness               *)
FactorOk(off, c) ==
    LET k == AbsN(c.dafn) IN                     \* |daf| <= 128 once narrowed to i8
    /\ k # 0
    /\ ~(off = I32Min /\ c.dafn = -1)
    /\ ModSmall(Abs64(off), k) = 0
AdvOk(prev, off, c) ==
    off = prev \/ (c.cafn # 0 /\ ModSmall(Sub64(off, prev), c.cafn) = 0)
WriteInsOk(wi, c) ==
    CASE wi.w \in {"Cfa", "CfaOffset"}   -> Neg8(wi.off) => FactorOk(wi.off, c)
      [] wi.w \in {"Offset", "ValOffset"} -> FactorOk(wi.off, c)
      [] OTHER -> TRUE
RECURSIVE WriteProgOk(_, _, _, _)
WriteProgOk(ws, c, prev, infde) ==
    IF ws = <<>> THEN TRUE
    ELSE LET x == Head(ws) IN
         /\ (infde => AdvOk(prev, x.off, c))
         /\ WriteInsOk(x.w, c)
         /\ WriteProgOk(Tail(ws), c, x.off, infde)
(* .debug_frame accepts CIE versions 1, 3, 4 (version 1 stores the return  *)
(* address register in one byte); .eh_frame only version 1                 *)
WriteOk(c, cie, fde, eh) ==
    /\ IF eh THEN c.ver = 1 ELSE c.ver \in {1, 3, 4}
    /\ WriteProgOk(ConvProg(cie, c, Z8, <<>>).ws, c, Z8, FALSE)
    /\ WriteProgOk(ConvProg(fde, c, Z8, <<>>).ws, c, Z8, TRUE)

(*------------------------------------------------------------------------*)
(* meaning of the converted instructions (what reading the output gives)   *)
(*------------------------------------------------------------------------*)
WActs(x, infde) ==
    (IF infde THEN <<[a |-> "to", off |-> x.off]>> ELSE <<>>) \o
    (LET wi == x.w IN
     CASE wi.w = "Cfa"           -> <<[a |-> "cfa", r |-> wi.r, off |-> wi.off]>>
       [] wi.w = "CfaRegister"   -> <<[a |-> "cfa_reg", r |-> wi.r]>>
       [] wi.w = "CfaOffset"     -> <<[a |-> "cfa_off", off |-> wi.off]>>
       [] wi.w = "CfaExpression" -> <<[a |-> "cfa_expr", ops |-> wi.ops]>>
       [] wi.w = "Offset"        -> Rule(wi.r, [k |-> "offset", v |-> wi.off])
       [] wi.w = "ValOffset"     -> Rule(wi.r, [k |-> "val_offset", v |-> wi.off])
       [] wi.w = "Restore"       -> <<[a |-> "restore", r |-> wi.r]>>
       [] wi.w = "Undefined"     -> Rule(wi.r, [k |-> "undefined"])
       [] wi.w = "SameValue"     -> Rule(wi.r, [k |-> "same_value"])
       [] wi.w = "Register"      -> Rule(wi.r, [k |-> "register", r |-> wi.s])
       [] wi.w = "Expression"    -> Rule(wi.r, [k |-> "expression", ops |-> wi.ops])
       [] wi.w = "ValExpression" -> Rule(wi.r, [k |-> "val_expression", ops |-> wi.ops])
       [] wi.w = "RememberState" -> <<[a |-> "remember"]>>
       [] wi.w = "RestoreState"  -> <<[a |-> "restore_state"]>>
       [] OTHER (* ArgsSize *)   -> <<[a |-> "args", v |-> wi.v]>>)
RECURSIVE WProg(_, _)
WProg(ws, infde) == IF ws = <<>> THEN <<>> ELSE WActs(Head(ws), infde) \o WProg(Tail(ws), infde)
OutRows(c, cie, fde) ==
    Rows(WProg(ConvProg(cie, c, Z8, <<>>).ws, FALSE), WProg(ConvProg(fde, c, Z8, <<>>).ws, TRUE), c.start, c.len)

RefUnwind(c, cie, fde) == Unwind(RefRows(c, cie, fde).rows, c.start, c.len)
OutUnwind(c, cie, fde) == Unwind(OutRows(c, cie, fde).rows, c.start, c.len)

(* the property of the conversion as coded *)
MeaningPreserved(c, cie, fde) ==
    (ConvOk(c, cie, fde) /\ WriteOk(c, cie, fde, FALSE)) => OutUnwind(c, cie, fde) = RefUnwind(c, cie, fde)
=============================================================================
