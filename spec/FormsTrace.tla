----------------------------- MODULE FormsTrace -----------------------------
(***************************************************************************)
(* Trace validation for C03.                                               *)
(*  Norm: a (name, raw value, normalised value) triple observed from       *)
(*        Attribute::raw_value()/value(): the normalisation keeps the      *)
(*        numeric payload and moves the value only to the variant the      *)
(*        attribute *name* assigns (section of a section offset,           *)
(*        enumeration of a constant, expression for a block); the          *)
(*        udata/sdata/offset/u8/u16 conversions of the raw value are the   *)
(*        zero / sign extensions of the payload.                           *)
(*  Die:  one entry of a real unit: the forms of its abbreviation, what    *)
(*        each read consumed, the advertised sizes and where               *)
(*        skip_attributes landed.  Checked against the form table: fixed   *)
(*        forms consume their table size, the advertised size is the table *)
(*        size, the value class belongs to the form, skipping lands where  *)
(*        reading lands.                                                   *)
(***************************************************************************)
EXTENDS Forms, Json, IOUtils
VARIABLE l
Rec == ndJsonDeserialize(IOEnv.TRACE)
IsEv(e) == l <= Len(Rec) /\ Rec[l].ev = e /\ l' = l + 1

Norm == IsEv("Norm") /\ NormOk(Rec[l].name, Rec[l].raw, Rec[l].norm) /\ ConvOk(Rec[l].raw, Rec[l].conv)

RECURSIVE SumN(_, _)
SumN(as, i) == IF i > Len(as) THEN 0 ELSE as[i].n + SumN(as, i + 1)
KindsOf(a, enc) == LET f == FormOf(a.form) IN
                   IF f.nm \in {"data4", "data8"} THEN DataKinds(a.form, a.name, enc) ELSE {f.kind}
AttrOk(a, enc) ==
    /\ a.form \in FormCodes /\ FormOf(a.form).sz \notin {"unknown", "indirect"}
    /\ a.size = FixedSize(a.form, enc)
    /\ (FixedSize(a.form, enc) >= 0 => a.n = FixedSize(a.form, enc))
    /\ a.kind \in KindsOf(a, enc)
Die == IsEv("Die") /\ LET r == Rec[l] IN
       /\ \A i \in DOMAIN r.attrs : AttrOk(r.attrs[i], r.enc)
       /\ SumN(r.attrs, 1) = r.read_n
       /\ r.skip.ok /\ r.skip.n = r.read_n

Init == l = 1
Next == Norm \/ Die
Accepted == LET d == TLCGet("stats").diameter IN
            IF d - 1 = Len(Rec) THEN TRUE
            ELSE Print(<<"UNMATCHED", d, ToJson(Rec[d])>>, FALSE)
=============================================================================
