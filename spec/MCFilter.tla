------------------------------ MODULE MCFilter ------------------------------
(* Exhaustive exploration of small filter inputs (C19).                     *)
(* One final state per graph: every ordered forest with <= MaxN entries     *)
(* over 1..MaxUnits units (empty units included), every behaviour class of  *)
(* tag at every position where the class matters, every set of <= MaxEdges  *)
(* reference edges (targets: any entry incl. self, an invalid offset, a     *)
(* unit root).  For each final graph the invariant checks, for EVERY subset *)
(* of required entries, that the machine as coded computes the closure the  *)
(* property demands, and emits one replay case carrying the allowed bounds  *)
(* per subset.  Concrete tags and reference kinds are rotated over the      *)
(* tables of Filter.tla (Salt shifts the rotation).                         *)
EXTENDS Filter, TLC, Json
CONSTANTS MaxN, MaxUnits, MaxEdges, MaxEdgesBig, Salt, EmitMod, CheckSplit, KindN, FewSubsets, RootN
VARIABLE g

Classes == {"ns", "noback", "back"}

(* concrete tags per behaviour class *)
NoBackList == <<"DW_TAG_structure_type", "DW_TAG_array_type", "DW_TAG_atomic_type", "DW_TAG_class_type",
    "DW_TAG_const_type", "DW_TAG_dwarf_procedure", "DW_TAG_entry_point", "DW_TAG_subprogram",
    "DW_TAG_enumeration_type", "DW_TAG_pointer_type", "DW_TAG_ptr_to_member_type",
    "DW_TAG_reference_type", "DW_TAG_restrict_type", "DW_TAG_rvalue_reference_type",
    "DW_TAG_string_type", "DW_TAG_typedef", "DW_TAG_union_type",
    "DW_TAG_unspecified_type", "DW_TAG_volatile_type", "DW_TAG_coarray_type",
    "DW_TAG_common_block", "DW_TAG_dynamic_type", "DW_TAG_file_type",
    "DW_TAG_immutable_type", "DW_TAG_interface_type", "DW_TAG_set_type",
    "DW_TAG_shared_type", "DW_TAG_subroutine_type", "DW_TAG_packed_type",
    "DW_TAG_template_alias", "DW_TAG_namelist", "DW_TAG_imported_unit",
    "DW_TAG_imported_declaration", "DW_TAG_imported_module", "DW_TAG_module", "DW_TAG_base_type">>
BackList == <<"DW_TAG_variable", "DW_TAG_member", "DW_TAG_formal_parameter", "DW_TAG_lexical_block",
    "DW_TAG_subprogram", "DW_TAG_inlined_subroutine", "DW_TAG_enumerator", "DW_TAG_subrange_type",
    "DW_TAG_template_type_parameter", "DW_TAG_template_value_parameter", "DW_TAG_inheritance",
    "DW_TAG_unspecified_parameters", "DW_TAG_label", "DW_TAG_call_site", "DW_TAG_call_site_parameter",
    "DW_TAG_GNU_call_site", "DW_TAG_variant_part", "DW_TAG_variant", "DW_TAG_friend",
    "DW_TAG_constant", "DW_TAG_try_block", "DW_TAG_catch_block", "DW_TAG_with_stmt",
    "DW_TAG_access_declaration", "DW_TAG_thrown_type", "DW_TAG_generic_subrange", "DW_TAG_condition">>

(* the rotation never puts DW_TAG_base_type (last of NoBackList) directly   *)
(* under a root: the writer that builds the input moves such entries first, *)
(* which would change the traversal order assumed by the typed operations   *)
TagOf(class, e, toplevel, rot) ==
    CASE class = "ns" -> "DW_TAG_namespace"
      [] class = "noback" -> NoBackList[((rot + 5 * e) % (Len(NoBackList) - (IF toplevel THEN 1 ELSE 0))) + 1]
      [] OTHER -> BackList[((rot + 7 * e) % Len(BackList)) + 1]
(* DW_TAG_subprogram: a definition has no back edge, a declaration has one *)
DeclOf(class, tag) == tag = "DW_TAG_subprogram" /\ class = "back"

Empty == [phase |-> "forest", n |-> 0, nunits |-> 1, unit |-> <<>>, parent |-> <<>>, class |-> <<>>,
          edges |-> <<>>, last |-> -1, solo |-> FALSE]
Init == g = Empty

(* rightmost path of the last entry (candidates for the next entry's parent) *)
RECURSIVE Path(_, _)
Path(s, e) == IF e = 0 THEN {0} ELSE {e} \cup Path(s, s.parent[e])
HasChild(s, e) == \E c \in 1..s.n : s.parent[c] = e

AddEntryStep ==
    /\ g.phase = "forest" /\ g.n < MaxN
    /\ \E u \in (IF g.n = 0 THEN 1 ELSE g.unit[g.n])..g.nunits :
       \E p \in (IF g.n > 0 /\ g.unit[g.n] = u THEN Path(g, g.n) ELSE {0}) :
          g' = [g EXCEPT !.n = @ + 1, !.unit = Append(@, u), !.parent = Append(@, p)]
SetUnits == /\ g.phase = "forest" /\ g.n = 0 /\ g.nunits < MaxUnits
            /\ g' = [g EXCEPT !.nunits = @ + 1]
StartTags == /\ g.phase = "forest"
             /\ g' = [g EXCEPT !.phase = IF g.n = 0 THEN "edges" ELSE "tags"]
(* classes that can make a difference at the position of entry e *)
ClassChoices(s, e) ==
    IF s.parent[e] = 0
    THEN IF HasChild(s, e) THEN {"ns", "noback"}
         ELSE {<<"ns", "noback", "back">>[((Salt + e) % 3) + 1]}
    ELSE IF HasChild(s, e) THEN Classes ELSE {"noback", "back"}
TagStep == /\ g.phase = "tags"
           /\ LET e == Len(g.class) + 1 IN
              \E c \in ClassChoices(g, e) :
                g' = [g EXCEPT !.class = Append(@, c),
                               !.phase = IF e = g.n THEN "edges" ELSE "tags"]
(* kinds that can encode an edge f -> t (f < 0: held by the root of unit -f) *)
KindsFor(s, f, t) ==
    IF f < 0 THEN
        IF t = 0 THEN <<"attr_info">>
        ELSE LET tu == IF t < 0 THEN -t ELSE s.unit[t] IN
             IF tu # -f THEN <<"attr_info", "x_callref", "l_callref">>
             ELSE <<"attr_unit", "attr_info", "x_callref", "l_callref", "x_call">>
    ELSE IF t = 0 THEN <<"attr_unit">> \o InfoKinds
    ELSE LET tu == IF t < 0 THEN -t ELSE s.unit[t] IN
         IF tu # s.unit[f] THEN InfoKinds
         ELSE IF t < f THEN TypedKinds \o AllKinds  \* the target precedes the source: typed operations possible
         ELSE InfoKinds \o UnitKinds
(* edges are added in increasing index order, so each set is built once *)
NTargets(s) == s.n + s.nunits + 1
EdgeIndex(s, f, t) == (f + s.nunits) * NTargets(s) + (t + s.nunits)
EdgeBound(s) == IF s.n >= MaxN /\ MaxN > 3 THEN MaxEdgesBig ELSE MaxEdges
EdgeStep == /\ g.phase = "edges" /\ Len(g.edges) < EdgeBound(g) /\ ~g.solo
            /\ \E f \in ((-g.nunits)..(-1)) \cup (1..g.n) : \E t \in (-g.nunits)..g.n :
                 /\ EdgeIndex(g, f, t) > g.last
                 /\ (f < 0 => Len(g.edges) = 0 /\ g.n <= RootN /\ t >= 0)     \* at most one reference held by a root
                 /\ \/ g' = [g EXCEPT !.edges = Append(@, <<f, t, "", "", "">>), !.last = EdgeIndex(g, f, t)]
                    (* single-edge graphs over few entries: every kind that can encode the edge, *)
                    (* location-list references in every kind of location entry                  *)
                    \/ /\ Len(g.edges) = 0 /\ g.n <= KindN
                       /\ \E k \in Range(KindsFor(g, f, t)) :
                          \E loc \in (IF IsLoc(k) THEN Range(LocEntryKinds) ELSE {""}) :
                          (* every range shape for one location-list kind that fits any edge *)
                          \E shape \in (IF k = "l_callref" THEN Range(LocShapes) ELSE {""}) :
                            g' = [g EXCEPT !.edges = Append(@, <<f, t, k, loc, shape>>), !.last = EdgeIndex(g, f, t),
                                           !.solo = TRUE]
Finish == /\ g.phase = "edges"
          /\ g' = [g EXCEPT !.phase = "final"]
Next == AddEntryStep \/ SetUnits \/ StartTags \/ TagStep \/ EdgeStep \/ Finish

-----------------------------------------------------------------------------
Rot(s) == Salt + 3 * s.n + 11 * Len(s.edges) + (IF s.n > 0 THEN 2 * s.unit[s.n] ELSE 0)
KindOf(s, i) == LET f == s.edges[i][1]  t == s.edges[i][2]  ks == KindsFor(s, f, t)
                IN IF s.edges[i][3] # "" THEN s.edges[i][3]
                   ELSE ks[((Rot(s) + 13 * i + 5 * f + 3 * (t + s.nunits)) % Len(ks)) + 1]

LocOf(s, i) == IF ~IsLoc(KindOf(s, i)) THEN ""
               ELSE IF s.edges[i][4] # "" THEN s.edges[i][4]
               ELSE LocEntryKinds[((Rot(s) + 7 * i + 3 * s.edges[i][1] + s.edges[i][2] + 2 * s.nunits) % Len(LocEntryKinds)) + 1]

ShapeOf(s, i) == IF ~IsLoc(KindOf(s, i)) THEN ""
                 ELSE IF s.edges[i][5] # "" THEN s.edges[i][5]
                 ELSE LocShapes[((Rot(s) + 5 * i + s.edges[i][1] + 3 * s.edges[i][2] + s.nunits) % Len(LocShapes)) + 1]

Graph(s) ==
    LET tags == [e \in 1..s.n |-> TagOf(s.class[e], e, s.parent[e] = 0, Rot(s))] IN
    [n |-> s.n, nunits |-> s.nunits, unit |-> s.unit, parent |-> s.parent, tag |-> tags,
     decl |-> [e \in 1..s.n |-> DeclOf(s.class[e], tags[e])],
     refs |-> [i \in 1..Len(s.edges) |-> [from |-> s.edges[i][1], to |-> s.edges[i][2], kind |-> KindOf(s, i), loc |-> LocOf(s, i), shape |-> ShapeOf(s, i)]]]

(* all subsets of entries, in a fixed order *)
RECURSIVE Subsets(_)
Subsets(k) == IF k = 0 THEN <<{}>>
              ELSE LET r == Subsets(k - 1) IN r \o [i \in 1..Len(r) |-> r[i] \cup {k}]

(* reference edges that decide a result: without the edge the target is not  *)
(* in the closure of the source                                              *)
Without(G, i) == [G EXCEPT !.refs = SubSeq(G.refs, 1, i - 1) \o SubSeq(G.refs, i + 1, Len(G.refs))]
DecisiveRefs(G) == {j \in DOMAIN G.refs :
                   /\ G.refs[j].to \in 1..G.n
                   /\ G.refs[j].to \notin LfpF(NeedsFn(Without(G, j)),
                                               IF G.refs[j].from < 0 THEN RootTargets(Without(G, j)) ELSE {G.refs[j].from})}
Decisive(G) == {G.refs[i].kind : i \in DecisiveRefs(G)}
(* location entry kinds of the decisive location-list references *)
DecisiveLocs(G) == {G.refs[i].loc : i \in {j \in DecisiveRefs(G) : G.refs[j].loc # ""}}
DecisiveShapes(G) == {G.refs[i].shape : i \in {j \in DecisiveRefs(G) : G.refs[j].shape # ""}}
(* tags whose classification decides a result: a member-like child that is   *)
(* retained only as a member of its parent, or a stand-alone child that is    *)
(* not in the closure of its parent                                          *)
DecisiveTags(G, nd, must1) ==
    {G.tag[x] : x \in {y \in 1..G.n :
        LET p == G.parent[y] IN
        /\ p # 0 /\ ~IsNamespace(G.tag[p])
        /\ IF HasDieBackEdge(G.tag[y], G.decl[y])
           THEN y \notin LfpF([nd EXCEPT ![p] = (Needs(G, p) \ MemberChildren(G, p)) \cup (MemberChildren(G, p) \ {y})], {p})
           ELSE y \notin must1[p]}}

(* quick tier: graphs with MaxN >= 4 entries are replayed for the empty set, *)
(* the singletons and the full set only                                      *)
SubsetsFor(n) == IF FewSubsets /\ n >= 4 /\ n = MaxN
                 THEN <<{}>> \o [i \in 1..n |-> {i}] \o <<1..n>>
                 ELSE Subsets(n)

Emit(s) == (Rot(s) + 17 * Len(s.class) + (IF s.last < 0 THEN 0 ELSE s.last)) % EmitMod = 0

Case(G, subs, res, nd, must1, want5) ==
    [sys |-> "filter", nunits |-> G.nunits,
     entries |-> [e \in 1..G.n |-> [id |-> e, unit |-> G.unit[e], parent |-> G.parent[e],
                                   tag |-> G.tag[e], decl |-> G.decl[e]]],
     refs |-> G.refs,
     invalid |-> {e \in 1..G.n : HasInvalidRef(G, e)}, rootinvalid |-> RootInvalid(G),
     exp |-> [k \in DOMAIN subs |-> [req |-> subs[k], must |-> res[k].M, may |-> res[k].Y]],
     decisive |-> Decisive(G), dlocs |-> DecisiveLocs(G), dshapes |-> DecisiveShapes(G), dtags |-> DecisiveTags(G, nd, must1),
     want5 |-> want5]

(* The closure operators distribute over union, so the closures of all      *)
(* subsets are assembled from the closures of the singletons; CheckSplit     *)
(* re-checks this (and the traversal split) against the definitions.         *)
Inv == g.phase = "final" =>
       LET G == Graph(g)
           subs == SubsetsFor(g.n)
           nd == NeedsFn(G)
           lk == LinkedFn(G)
           must1 == [e \in 1..G.n |-> LfpF(nd, {e})]
           may1 == [e \in 1..G.n |-> LfpF(lk, {e})]
           m0 == TraverseAll(G)
           res == [k \in DOMAIN subs |-> [w |-> GRRun(GRInit(WithRequired(m0, G, subs[k]))),
                                          M |-> UNION {must1[e] : e \in subs[k] \cup RootTargets(G)},
                                          Y |-> UNION {may1[e] : e \in subs[k] \cup RootTargets(G)}]] IN
       /\ WellFormed(G)
       /\ \A k \in DOMAIN subs : /\ ResultOkWith(G, subs[k], res[k].w, res[k].M, res[k].Y, nd)
                                 /\ AllowedWith(nd, res[k].M, res[k].Y, Range(res[k].w.reachable))
                                 /\ (CheckSplit => /\ Traverse([MInit EXCEPT !.required = RootDeps(G)], G, subs[k], 1) = WithRequired(m0, G, subs[k])
                                                   /\ res[k].M = Must(G, subs[k])
                                                   /\ res[k].Y = May(G, subs[k]))
       /\ (Emit(g) => PrintT(<<"CASE", ToJson(Case(G, subs, res, nd, must1, \E i \in DOMAIN g.edges : g.edges[i][4] # ""))>>))
=============================================================================
