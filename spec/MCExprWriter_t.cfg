INIT Init
NEXT Next
INVARIANT Theorem
INVARIANT Emit
CHECK_DEADLOCK FALSE
CONSTANTS
  MaxLen = 2
  Slice = "core"
  Ctxs = {"attr"}
  Encs = {444, 885, 842}
