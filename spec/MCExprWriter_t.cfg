INIT Init
NEXT Next
INVARIANT Theorem
INVARIANT Emit
CHECK_DEADLOCK FALSE
CONSTANTS
  MaxLen = 3
  Slice = "far"
  Ctxs = {"attr"}
  Encs = {444}
