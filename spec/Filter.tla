------------------------------- MODULE Filter -------------------------------
(* C19 - the entry filter of a filtered conversion                          *)
(*   gimli  src/write/unit.rs :  FilterUnit::read_entry, add_attribute_refs, *)
(*   add_expression_refs, add_location_refs, has_die_back_edge,             *)
(*   FilterDependencies::{add_entry, add_edge, require_entry, get_reachable}*)
(*   ConvertUnitSection::new_with_filter (per-unit reservation) and         *)
(*   ConvertUnit::read_entry (parent of a retained entry).                  *)
(*                                                                          *)
(* A graph G describes one .debug_info section:                             *)
(*   n, nunits      entries 1..n in traversal order (units in order, each   *)
(*                  unit in preorder); the unit roots are not entries: the  *)
(*                  filter never presents them and they are always output   *)
(*   unit[e]        1..nunits            parent[e]  0 = child of the root   *)
(*   tag[e], decl[e]  DW_TAG name, DW_AT_declaration present                *)
(*   refs           sequence of [from, to, kind]; to > 0 an entry, to = 0   *)
(*                  an invalid offset, to = -u the root of unit u;          *)
(*                  from = -u: the reference is held by the root of unit u  *)
(* The first part is the property (declarative closure); the second part is *)
(* the machine in the shape of the code.                                    *)
EXTENDS Integers, Sequences, FiniteSets

-----------------------------------------------------------------------------
(* Tags, as FilterUnitEntry::has_die_back_edge distinguishes them.          *)
NoBackEdgeTags ==
  { "DW_TAG_array_type", "DW_TAG_atomic_type", "DW_TAG_base_type", "DW_TAG_class_type",
    "DW_TAG_const_type", "DW_TAG_dwarf_procedure", "DW_TAG_entry_point",
    "DW_TAG_enumeration_type", "DW_TAG_pointer_type", "DW_TAG_ptr_to_member_type",
    "DW_TAG_reference_type", "DW_TAG_restrict_type", "DW_TAG_rvalue_reference_type",
    "DW_TAG_string_type", "DW_TAG_structure_type", "DW_TAG_typedef", "DW_TAG_union_type",
    "DW_TAG_unspecified_type", "DW_TAG_volatile_type", "DW_TAG_coarray_type",
    "DW_TAG_common_block", "DW_TAG_dynamic_type", "DW_TAG_file_type",
    "DW_TAG_immutable_type", "DW_TAG_interface_type", "DW_TAG_set_type",
    "DW_TAG_shared_type", "DW_TAG_subroutine_type", "DW_TAG_packed_type",
    "DW_TAG_template_alias", "DW_TAG_namelist", "DW_TAG_namespace", "DW_TAG_imported_unit",
    "DW_TAG_imported_declaration", "DW_TAG_imported_module", "DW_TAG_module" }

(* Member-like ("extension of the parent"): everything that is not in the   *)
(* list of stand-alone / structural tags; a subprogram only as declaration. *)
HasDieBackEdge(tag, decl) ==
    IF tag \in NoBackEdgeTags THEN FALSE
    ELSE IF tag = "DW_TAG_subprogram" THEN decl
    ELSE TRUE

IsNamespace(tag) == tag = "DW_TAG_namespace"

-----------------------------------------------------------------------------
(* Reference kinds: how the reference is stored in the input.               *)
(*   attr_unit   DW_FORM_ref4/8 attribute            (unit offset)          *)
(*   attr_info   DW_FORM_ref_addr attribute          (.debug_info offset)   *)
(*   x_<op>      operation of a DW_FORM_exprloc attribute                   *)
(*   l_<op>      operation of an expression in a location list             *)
(* <op>: call (DW_OP_call4), callref (DW_OP_call_ref), implptr             *)
(* (DW_OP_implicit_pointer), varval (DW_OP_GNU_variable_value), paramref    *)
(* (DW_OP_GNU_parameter_ref), entryval (DW_OP_call_ref nested in            *)
(* DW_OP_entry_value), deref_type, regval_type, const_type, convert,        *)
(* reinterpret (base type operand).                                         *)
(* A location-list reference also says in which kind of raw location entry   *)
(* the expression sits (field loc): every entry kind that carries an         *)
(* expression counts (FilterUnit::add_location_refs), only the base address  *)
(* entries carry none.  In .debug_loc (DWARF <= 4) all of them are the one   *)
(* address-or-offset pair, optionally after a base address selection entry.  *)
LocEntryKinds == <<"offset_pair", "start_end", "start_length", "startx_endx", "startx_length", "default_location">>
(* ... and what address range the entry has (field shape).  The resolving    *)
(* iterator of the reader drops entries with an empty or reversed range, a   *)
(* tombstone begin address, or an offset pair after a tombstone base address,*)
(* but the conversion converts every raw entry, so their expressions count   *)
(* all the same: the dependency does not depend on the shape.                *)
LocShapes == <<"normal", "empty", "reversed", "tomb", "tombbase">>
UnitOps == <<"call", "paramref">>
TypedOps == <<"deref_type", "regval_type", "const_type", "convert", "reinterpret">>
InfoOps == <<"callref", "implptr", "varval", "entryval">>

RECURSIVE Pre(_, _)
Pre(p, s) == IF s = <<>> THEN <<>> ELSE <<p \o Head(s)>> \o Pre(p, Tail(s))

InfoKinds == <<"attr_info">> \o Pre("x_", InfoOps) \o Pre("l_", InfoOps)
UnitKinds == <<"attr_unit">> \o Pre("x_", UnitOps) \o Pre("l_", UnitOps)
TypedKinds == Pre("x_", TypedOps) \o Pre("l_", TypedOps)
AllKinds == InfoKinds \o UnitKinds \o TypedKinds
Range(s) == {s[i] : i \in DOMAIN s}

-----------------------------------------------------------------------------
(* Part 1: the property.                                                    *)
Entries(G) == 1..G.n
Children(G, p) == {c \in Entries(G) : G.parent[c] = p}
RefsOf(G, e) == {i \in DOMAIN G.refs : G.refs[i].from = e}
RefTargets(G, e) == {G.refs[i].to : i \in RefsOf(G, e)} \cap Entries(G)
(* entries that hold a reference to something that is not an entry or root *)
HasInvalidRef(G, e) == \E i \in RefsOf(G, e) : G.refs[i].to = 0

(* member-like children of a non-namespace entry *)
MemberChildren(G, p) ==
    IF IsNamespace(G.tag[p]) THEN {}
    ELSE {c \in Children(G, p) : HasDieBackEdge(G.tag[c], G.decl[c])}

(* what an entry in the output forces into the output *)
Needs(G, e) == (IF G.parent[e] = 0 THEN {} ELSE {G.parent[e]})
               \cup RefTargets(G, e) \cup MemberChildren(G, e)

NeedsFn(G) == [e \in Entries(G) |-> Needs(G, e)]
ClosedF(nd, S) == \A e \in S : nd[e] \subseteq S
Closed(G, S) == ClosedF(NeedsFn(G), S)

(* least fixpoint of S |-> S \cup UNION {f[e] : e \in S} *)
RECURSIVE LfpF(_, _)
LfpF(f, S) == LET T == S \cup UNION {f[e] : e \in S}
              IN IF T = S THEN S ELSE LfpF(f, T)
(* The unit roots are always part of the output (they are the ancestors of  *)
(* every entry), so what they reference is needed whatever is required.     *)
RootRefs(G) == {i \in DOMAIN G.refs : G.refs[i].from < 0}
RootTargets(G) == {G.refs[i].to : i \in RootRefs(G)} \cap Entries(G)
RootInvalid(G) == \E i \in RootRefs(G) : G.refs[i].to = 0
Seeds(G, Req) == (Req \cap Entries(G)) \cup RootTargets(G)
(* Must: the least set that contains Required and is closed. *)
Must(G, Req) == LfpF(NeedsFn(G), Seeds(G, Req))

(* May: connected to a required entry by parent, child and reference       *)
(* relations in either direction (the property's upper bound).              *)
Linked(G, e) == (IF G.parent[e] = 0 THEN {} ELSE {G.parent[e]}) \cup Children(G, e)
                \cup RefTargets(G, e) \cup ({G.refs[i].from : i \in {j \in DOMAIN G.refs : G.refs[j].to = e}} \cap Entries(G))
LinkedFn(G) == [e \in Entries(G) |-> Linked(G, e)]
May(G, Req) == LfpF(LinkedFn(G), Seeds(G, Req))

(* An observed retained set S is allowed by the property. *)
AllowedWith(nd, M, Y, S) == M \subseteq S /\ S \subseteq Y /\ ClosedF(nd, S)
Allowed(G, Req, S) == AllowedWith(NeedsFn(G), Must(G, Req), May(G, Req), S)

-----------------------------------------------------------------------------
(* Part 2: the machine as coded.                                            *)
(* Offsets are modelled by entry ids; 0 and negative ids are offsets for    *)
(* which add_entry is never called (invalid offsets, unit roots).           *)

(* FilterUnit::add_attribute_refs over the attributes in input order: the  *)
(* reference attributes, then the expression, then the location list.       *)
(* An out-of-bounds unit offset is dropped; an invalid .debug_info offset   *)
(* is kept as a dependency on an unknown offset.                            *)
IsAttr(k) == k \in {"attr_unit", "attr_info"}
IsExpr(k) == k \in Range(Pre("x_", UnitOps \o TypedOps \o InfoOps))
IsLoc(k) == k \in Range(Pre("l_", UnitOps \o TypedOps \o InfoOps))
UsesUnitOffset(k) == k \in Range(UnitKinds) \cup Range(TypedKinds)

(* the dependencies recorded for a sequence of references of one entry, for  *)
(* the attributes of class 1 (reference forms), 2 (expression), 3 (location  *)
(* list)                                                                    *)
RECURSIVE DepsOfRefs(_, _, _)
DepsOfRefs(rs, i, class) ==
    IF i > Len(rs) THEN <<>>
    ELSE LET r == rs[i]
             mine == CASE class = 1 -> IsAttr(r.kind)
                       [] class = 2 -> IsExpr(r.kind)
                       [] OTHER -> IsLoc(r.kind)
             dropped == UsesUnitOffset(r.kind) /\ r.to = 0
         IN (IF mine /\ ~dropped THEN <<r.to>> ELSE <<>>) \o DepsOfRefs(rs, i + 1, class)
AttrDepsOf(rs) == DepsOfRefs(rs, 1, 1) \o DepsOfRefs(rs, 1, 2) \o DepsOfRefs(rs, 1, 3)
RECURSIVE RefsFrom(_, _, _)
RefsFrom(G, e, i) == IF i > Len(G.refs) THEN <<>>
                     ELSE (IF G.refs[i].from = e THEN <<G.refs[i]>> ELSE <<>>) \o RefsFrom(G, e, i + 1)
AttrDeps(G, e) == AttrDepsOf(RefsFrom(G, e, 1))

RECURSIVE SortedSeq(_)
SortedSeq(S) == IF S = {} THEN <<>>
                ELSE LET x == CHOOSE y \in S : \A z \in S : y <= z
                     IN <<x>> \o SortedSeq(S \ {x})

(* FilterDependencies *)
MInit == [edges |-> <<>>, known |-> {}, required |-> <<>>]
AddEntry(m, e, deps) == [m EXCEPT !.edges = [x \in m.known \cup {e} |-> IF x = e THEN deps ELSE m.edges[x]],
                                  !.known = @ \cup {e}]
AddEdge(m, from, to) == [m EXCEPT !.edges[from] = Append(@, to)]
RequireEntry(m, e) == [m EXCEPT !.required = Append(@, e)]

(* FilterUnit::read_entry for entry e with parent p (0: child of the root;  *)
(* the parent was read before), ptag the parent's tag                       *)
ReadEntryCore(m, e, p, ptag, tag, decl, attrdeps) ==
    LET deps == attrdeps \o (IF p = 0 THEN <<>> ELSE <<p>>)
        m1 == IF p # 0 /\ ~IsNamespace(ptag) /\ HasDieBackEdge(tag, decl)
              THEN AddEdge(m, p, e) ELSE m
    IN AddEntry(m1, e, deps)
ReadEntry(m, G, e) ==
    LET p == G.parent[e] IN
    ReadEntryCore(m, e, p, IF p = 0 THEN "" ELSE G.tag[p], G.tag[e], G.decl[e], AttrDeps(G, e))

(* the user's loop: read every entry, require the chosen ones *)
RECURSIVE Traverse(_, _, _, _)
Traverse(m, G, Req, e) ==
    IF e > G.n THEN m
    ELSE LET m1 == ReadEntry(m, G, e)
             m2 == IF e \in Req THEN RequireEntry(m1, e) ELSE m1
         IN Traverse(m2, G, Req, e + 1)

(* require_entry only appends to `required`; the entries are required in   *)
(* traversal order, so the traversal can be evaluated once per graph.       *)
(* References held by a unit root: the root is always converted, so their    *)
(* targets are required when the unit is opened (FilterUnit::new; gimli      *)
(* before commit 77d97b6 skipped the root's attributes, see notes/C19).      *)
RECURSIVE RootRefSeq(_, _)
RootRefSeq(G, i) == IF i > Len(G.refs) THEN <<>>
                    ELSE (IF G.refs[i].from < 0 THEN <<G.refs[i]>> ELSE <<>>) \o RootRefSeq(G, i + 1)
RootDeps(G) == AttrDepsOf(RootRefSeq(G, 1))
TraverseAll(G) == Traverse([MInit EXCEPT !.required = RootDeps(G)], G, {}, 1)
WithRequired(m, G, Req) == [m EXCEPT !.required = RootDeps(G) \o SortedSeq(Req \cap Entries(G))]

(* get_reachable: state of the worklist loop *)
GRInit(m) == [edges |-> m.edges, live |-> m.known, queue |-> <<m.required>>, cur |-> <<>>,
              reachable |-> <<>>, steps |-> 0]
GRDone(w) == w.cur = <<>> /\ w.queue = <<>>
(* one iteration of `for entry in entries` or one `queue.pop()` *)
GRStep(w) ==
    IF w.cur # <<>> THEN
        LET entry == Head(w.cur) IN
        IF entry \in w.live                       \* edges.remove(&entry) is Some(deps)
        THEN [w EXCEPT !.cur = Tail(@), !.live = @ \ {entry},
                       !.reachable = Append(@, entry),
                       !.queue = Append(@, w.edges[entry]), !.steps = @ + 1]
        ELSE [w EXCEPT !.cur = Tail(@), !.steps = @ + 1]
    ELSE [w EXCEPT !.cur = w.queue[Len(w.queue)],
                   !.queue = SubSeq(@, 1, Len(@) - 1), !.steps = @ + 1]
RECURSIVE GRRun(_)
GRRun(w) == IF GRDone(w) THEN w ELSE GRRun(GRStep(w))

GetReachable(m) == Range(GRRun(GRInit(m)).reachable)
(* final worklist state for a graph and a required set *)
MachineRun(G, Req) == GRRun(GRInit(Traverse([MInit EXCEPT !.required = RootDeps(G)], G, Req, 1)))
Machine(G, Req) == Range(MachineRun(G, Req).reachable)

(* ConvertUnitSection::new_with_filter: the sorted offsets are split into   *)
(* one run per unit, in unit order.                                         *)
RECURSIVE TakeUnit(_, _, _, _)
TakeUnit(G, offs, end, u) ==
    IF end < Len(offs) /\ G.unit[offs[end + 1]] = u THEN TakeUnit(G, offs, end + 1, u) ELSE end
RECURSIVE SplitUnits(_, _, _, _)
SplitUnits(G, offs, start, u) ==
    IF u > G.nunits THEN <<>>
    ELSE LET end == TakeUnit(G, offs, start, u)
         IN <<[i \in 1..(end - start) |-> offs[start + i]]>> \o SplitUnits(G, offs, end, u + 1)
Reserved(G, R) == SplitUnits(G, SortedSeq(R), 0, 1)
ReservedAll(G, R) == UNION {Range(Reserved(G, R)[u]) : u \in 1..G.nunits}

(* ConvertUnit::read_entry: parent of a retained entry = innermost open     *)
(* retained entry, else the root.                                           *)
RECURSIVE OutParent(_, _, _)
OutParent(G, R, e) == LET p == G.parent[e] IN
    IF p = 0 THEN 0 ELSE IF p \in R THEN p ELSE OutParent(G, R, p)

-----------------------------------------------------------------------------
(* Design-level statements, checked by TLC on every explored graph.         *)
(* w = MachineRun(G, Req), M = Must(G, Req), Y = May(G, Req), nd = NeedsFn(G) *)
ResultOkWith(G, Req, w, M, Y, nd) ==
    LET R == Range(w.reachable) IN
    /\ R = M                                                  \* the worklist computes the closure
    /\ Len(w.reachable) = Cardinality(R)                      \* nothing is expanded twice
    /\ (Req \cap Entries(G)) \subseteq R                      \* required retained
    /\ ClosedF(nd, R)                                         \* complete
    /\ R \subseteq Y                                          \* minimal (property's upper bound)
    /\ \A e \in R : RefTargets(G, e) \subseteq R              \* no dangling reference
    /\ ReservedAll(G, R) = R                                  \* every retained entry reserved in its unit
    /\ \A e \in R : OutParent(G, R, e) = G.parent[e]          \* nesting intact
    /\ w.steps <= Cardinality(Req) + 2 * Len(G.refs) + 4 * G.n + 2  \* termination: bounded work
ResultOk(G, Req) == ResultOkWith(G, Req, MachineRun(G, Req), Must(G, Req), May(G, Req), NeedsFn(G))
MachineIsClosure(G, Req) == Machine(G, Req) = Must(G, Req)

(* Preorder well-formedness of a graph *)
RECURSIVE IsAncestorOrSelf(_, _, _)
IsAncestorOrSelf(G, a, e) == IF e = a THEN TRUE ELSE IF e = 0 THEN FALSE
                             ELSE IsAncestorOrSelf(G, a, G.parent[e])
WellFormed(G) ==
    /\ \A e \in Entries(G) : /\ G.parent[e] \in 0..(e - 1)
                             /\ G.parent[e] # 0 => G.unit[G.parent[e]] = G.unit[e]
                             /\ e > 1 => G.unit[e - 1] <= G.unit[e]
                             /\ (e > 1 /\ G.parent[e] # 0) => IsAncestorOrSelf(G, G.parent[e], e - 1)
    /\ \A i \in DOMAIN G.refs : /\ G.refs[i].from \in Entries(G) \cup ((-G.nunits)..(-1))
                                /\ G.refs[i].to \in (-G.nunits)..G.n
=============================================================================
