INIT Init
NEXT Next
INVARIANT Inv
CHECK_DEADLOCK FALSE
