INIT Init
NEXT Next
INVARIANT Inv
INVARIANT PkgInv
CHECK_DEADLOCK FALSE
