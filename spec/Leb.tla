------------------------------- MODULE Leb -------------------------------
(***************************************************************************)
(* LEB128, fixed-width integers, initial lengths, sized fields (C09).      *)
(*                                                                         *)
(* Two layers:                                                             *)
(*  - the mathematical meaning of a byte string (`Val*`, `Fits*`), written *)
(*    on 7-bit digit lists with BV arithmetic, and                         *)
(*  - the byte-at-a-time machines as coded in gimli's leb128.rs (`MU*`,    *)
(*    `MS*`, `M16*`: unpeeled first iteration, the shift = 63 guard, the   *)
(*    third-byte `> 3` guard of the u16 reader).                           *)
(* MCLeb checks that the machines compute the mathematical meaning on      *)
(* every explored string, and emits one replay case per string.            *)
(***************************************************************************)
EXTENDS BV, Sequences, Naturals, Integers

Cont(b) == b >= 128          \* continuation bit
Low(b)  == b % 128

(* index of the first byte without continuation bit, 0 if none *)
RECURSIVE FirstTermFrom(_, _)
FirstTermFrom(s, i) == IF i > Len(s) THEN 0
                       ELSE IF ~Cont(s[i]) THEN i ELSE FirstTermFrom(s, i + 1)
FirstTerm(s) == FirstTermFrom(s, 1)

(* The number encoded by the terminated LEB string d (Len(d) = k bytes,   *)
(* 7k bits) as an unsigned BV of width w bytes (w*8 >= 7k).               *)
LebBit(d, j) == LET g == ((j - 1) \div 7) + 1 IN
                IF g > Len(d) THEN 0 ELSE (Low(d[g]) \div Pow2((j - 1) % 7)) % 2
UVal(d, w) == FromBits([j \in 1..8*w |-> LebBit(d, j)], w)
(* signed: bit 7k-1 (the top payload bit of the last byte) is the sign *)
SVal(d, w) == LET k == Len(d)
                  s == (Low(d[k]) \div 64) % 2
              IN FromBits([j \in 1..8*w |-> IF j <= 7*k THEN LebBit(d, j) ELSE s], w)

Wide(k) == IF k + 1 < 9 THEN 9 ELSE k + 1       \* a width that holds 7k bits and a 9th byte

UFits(d, n) == LET v == UVal(d, Wide(Len(d))) IN \A i \in DOMAIN v : i > n => v[i] = 0
SFits(d, n) == LET v == SVal(d, Wide(Len(d))) IN v = SExt(Trunc(v, n), Len(v))

(*------------------------------------------------------------------------*)
(* Allowed outcomes of the readers on byte string s (followed by anything).*)
(* An outcome is [ok |-> TRUE, v |-> BV, n |-> consumed] or [ok |-> FALSE].*)
(* Over-long encodings whose value fits are allowed to be rejected only if *)
(* they are longer than the longest canonical encoding of the target.      *)
Err == [ok |-> FALSE]
Ok(v, n) == [ok |-> TRUE, v |-> v, n |-> n]

AllowedU(s, nbytes, maxlen) ==
    LET k == FirstTerm(s) IN
    IF k = 0 THEN {Err}
    ELSE LET d == SubSeq(s, 1, k) IN
         IF ~UFits(d, nbytes) THEN {Err}
         ELSE IF k <= maxlen THEN {Ok(Trunc(UVal(d, Wide(k)), nbytes), k)}
         ELSE {Ok(Trunc(UVal(d, Wide(k)), nbytes), k), Err}
AllowedS(s) ==
    LET k == FirstTerm(s) IN
    IF k = 0 THEN {Err}
    ELSE LET d == SubSeq(s, 1, k) IN
         IF ~SFits(d, 8) THEN {Err}
         ELSE IF k <= 10 THEN {Ok(Trunc(SVal(d, Wide(k)), 8), k)}
         ELSE {Ok(Trunc(SVal(d, Wide(k)), 8), k), Err}
AllowedSkip(s) == LET k == FirstTerm(s) IN IF k = 0 THEN {Err} ELSE {[ok |-> TRUE, n |-> k]}

(*------------------------------------------------------------------------*)
(* The machines as coded.  State: [st, res (BV8), shift, n].  st is        *)
(* "run", "ok", "bad" (BadLeb) or "eof".                                   *)
MInit == [st |-> "run", res |-> Zero(8), shift |-> 0, n |-> 0]

(* leb128::read::unsigned — first iteration unpeeled, guard at shift 63 *)
MUStep(m, b) ==
    IF m.st # "run" THEN m
    ELSE IF m.n = 0 THEN
        IF ~Cont(b) THEN [st |-> "ok", res |-> FromNat(b, 8), shift |-> 0, n |-> 1]
        ELSE [st |-> "run", res |-> FromNat(Low(b), 8), shift |-> 7, n |-> 1]
    ELSE IF m.shift = 63 /\ b # 0 /\ b # 1 THEN [m EXCEPT !.st = "bad", !.n = @ + 1]
    ELSE LET r == BOr(m.res, Shl(FromNat(Low(b), 8), m.shift)) IN
         IF ~Cont(b) THEN [st |-> "ok", res |-> r, shift |-> m.shift, n |-> m.n + 1]
         ELSE [st |-> "run", res |-> r, shift |-> m.shift + 7, n |-> m.n + 1]

(* leb128::read::signed *)
MSStep(m, b) ==
    IF m.st # "run" THEN m
    ELSE IF m.shift = 63 /\ b # 0 /\ b # 127 THEN [m EXCEPT !.st = "bad", !.n = @ + 1]
    ELSE LET r  == BOr(m.res, Shl(FromNat(Low(b), 8), m.shift))
             sh == m.shift + 7 IN
         IF Cont(b) THEN [st |-> "run", res |-> r, shift |-> sh, n |-> m.n + 1]
         ELSE LET r2 == IF sh < 64 /\ (b \div 64) % 2 = 1 THEN BOr(r, Shl(Ones(8), sh)) ELSE r
              IN [st |-> "ok", res |-> r2, shift |-> sh, n |-> m.n + 1]

(* leb128::read::u16 — three explicit bytes *)
M16Step(m, b) ==
    IF m.st # "run" THEN m
    ELSE IF m.n = 0 THEN
        IF ~Cont(b) THEN [st |-> "ok", res |-> FromNat(b, 8), shift |-> 0, n |-> 1]
        ELSE [st |-> "run", res |-> FromNat(Low(b), 8), shift |-> 7, n |-> 1]
    ELSE IF m.n = 1 THEN
        LET r == BOr(m.res, Shl(FromNat(Low(b), 8), 7)) IN
        IF ~Cont(b) THEN [st |-> "ok", res |-> r, shift |-> 7, n |-> 2]
        ELSE [st |-> "run", res |-> r, shift |-> 14, n |-> 2]
    ELSE IF b > 3 THEN [m EXCEPT !.st = "bad", !.n = 3]
    ELSE [st |-> "ok", res |-> Add(m.res, Shl(FromNat(b, 8), 14)), shift |-> 14, n |-> 3]

RECURSIVE RunU(_, _, _)
RunU(m, s, i) == IF i > Len(s) \/ m.st # "run" THEN m ELSE RunU(MUStep(m, s[i]), s, i + 1)
RECURSIVE RunS(_, _, _)
RunS(m, s, i) == IF i > Len(s) \/ m.st # "run" THEN m ELSE RunS(MSStep(m, s[i]), s, i + 1)
RECURSIVE Run16(_, _, _)
Run16(m, s, i) == IF i > Len(s) \/ m.st # "run" THEN m ELSE Run16(M16Step(m, s[i]), s, i + 1)
(* input exhausted while still running = UnexpectedEof *)
Fin(m) == IF m.st = "run" THEN [m EXCEPT !.st = "eof"] ELSE m

MOutcome(m, nbytes) == IF m.st = "ok" THEN Ok(Trunc(m.res, nbytes), m.n) ELSE Err

(*------------------------------------------------------------------------*)
(* Writers: canonical encodings as coded in leb128::write::Leb128.        *)
RECURSIVE EncU(_)
EncU(v) == LET lo == v[1] % 128
               r  == Shr(v, 7) IN
           IF IsZero(r) THEN <<lo>> ELSE <<lo + 128>> \o EncU(r)
RECURSIVE EncS(_)
EncS(v) == LET lo == v[1] % 128
               r  == Sar(v, 7)
               done == (IsZero(r) /\ lo < 64) \/ (r = Ones(Len(v)) /\ lo >= 64) IN
           IF done THEN <<lo>> ELSE <<lo + 128>> \o EncS(r)

(*------------------------------------------------------------------------*)
(* Fixed-width fields.  `le` = TRUE for little endian.                     *)
FieldVal(bytes, le) == IF le THEN bytes ELSE Reverse(bytes)
ReadUint(s, n, le) == IF Len(s) < n THEN Err ELSE Ok(ZExt(FieldVal(SubSeq(s, 1, n), le), 8), n)
SizedOk(size) == size \in {1, 2, 4, 8}
ReadSized(s, size, le) == IF ~SizedOk(size) THEN Err ELSE ReadUint(s, size, le)

(* initial length: [ok, v, n, fmt] *)
ReadInitialLength(s, le) ==
    IF Len(s) < 4 THEN Err
    ELSE LET v == FieldVal(SubSeq(s, 1, 4), le) IN
         IF ULt(v, <<240, 255, 255, 255>>) THEN [ok |-> TRUE, v |-> ZExt(v, 8), n |-> 4, fmt |-> 32]
         ELSE IF v = <<255, 255, 255, 255>> THEN
              IF Len(s) < 12 THEN Err
              ELSE [ok |-> TRUE, v |-> FieldVal(SubSeq(s, 5, 12), le), n |-> 12, fmt |-> 64]
         ELSE Err
=============================================================================
