------------------------------- MODULE MCDwarf -------------------------------
(***************************************************************************)
(* C10 at the level of `gimli::Dwarf`: "all reader kinds behave            *)
(* identically" includes the BORROWED Dwarf obtained by Dwarf::borrow,     *)
(* DwarfSections::borrow(_with_sup), LocationLists::borrow and             *)
(* RangeLists::borrow, and "offset identifiers map back to the position    *)
(* they came from" includes Dwarf::lookup_offset_id / Dwarf::format_error  *)
(* for an id taken inside EVERY section a Dwarf holds, in the main and in  *)
(* the supplementary file.                                                 *)
(*                                                                         *)
(* A Dwarf is a function from section name to buffer (`Content`, distinct  *)
(* bytes and lengths per section and per file).  Borrowing / re-borrowing  *)
(* is the identity per section: the borrowed section for name n is the     *)
(* zero-copy view [0, Len) of the owner's buffer for n.  An offset id      *)
(* taken at offset k of section n of file f resolves to <<f = sup, n, k>>  *)
(* (Reader.tla's id_lookup inside the only buffer that contains it), and   *)
(* format_error(UnexpectedEof(id)) ends in " at <n>[(sup)]+0x<hex k>".     *)
(*                                                                         *)
(* `Sections` is the model's list of the sections a Dwarf holds; the       *)
(* harness reports the list the loader was actually asked for, and the     *)
(* driver demands equality in both directions, so neither side can forget  *)
(* a section.  `direct` = the section reader is reachable through a public *)
(* field / accessor (LocationLists has none: .debug_loc / .debug_loclists  *)
(* are observed through offset ids only).                                  *)
(***************************************************************************)
EXTENDS Reader, TLC, Json
VARIABLE c

Sections == <<".debug_abbrev", ".debug_addr", ".debug_aranges", ".debug_info", ".debug_line",
              ".debug_line_str", ".debug_macinfo", ".debug_macro", ".debug_names", ".debug_str",
              ".debug_str_offsets", ".debug_types", ".debug_loc", ".debug_loclists",
              ".debug_ranges", ".debug_rnglists">>
NoAccessor == {".debug_loc", ".debug_loclists"}

(* how the Dwarf under test is obtained *)
Hows == {"Dwarf<Vec>::borrow", "Dwarf<Rc>::borrow", "Dwarf<Arc>::borrow", "DwarfSections::borrow_with_sup",
         "Dwarf<EndianRcSlice>::load", "Lists::borrow"}

Content(i, sup) == [j \in 1..(8 + i) |-> (17 * i + j + (IF sup THEN 128 ELSE 0)) % 256]

HexDigit == <<"0", "1", "2", "3", "4", "5", "6", "7", "8", "9", "a", "b", "c", "d", "e", "f">>
Hex(n) == IF n < 16 THEN HexDigit[n + 1] ELSE HexDigit[(n \div 16) + 1] \o HexDigit[(n % 16) + 1]

(* Reader.tla: an id taken at offset k of a buffer resolves, in the reader over the whole *)
(* buffer, to k *)
Resolve(b, k) == Step(b, TRUE, <<Mk(k, Len(b), FALSE)>>, O("id_lookup", 1, 0, 0, 0)).res

Probe(i, sup, k) ==
    LET b == Content(i, sup) IN
    [sup |-> sup, sec |-> Sections[i], k |-> k,
     res |-> IF Resolve(b, k) = OkN(k) THEN <<sup, Sections[i], k>> ELSE <<>>,
     fmt |-> " at " \o Sections[i] \o (IF sup THEN "(sup)" ELSE "") \o "+0x" \o Hex(k)]

Files(h) == IF h = "Lists::borrow" THEN {FALSE} ELSE {FALSE, TRUE}
Secs(h) == IF h = "Lists::borrow" THEN {13, 14, 15, 16} ELSE DOMAIN Sections

Case(h) ==
    [sys |-> "dwarf", how |-> h,
     main |-> [i \in DOMAIN Sections |-> <<Sections[i], Content(i, FALSE)>>],
     sup  |-> [i \in DOMAIN Sections |-> <<Sections[i], Content(i, TRUE)>>],
     (* borrowed section = zero-copy view of the whole owner buffer *)
     views |-> {[sup |-> f, sec |-> Sections[i], bytes |-> Content(i, f), ptr |-> 0, borrowed |-> TRUE] :
                  f \in Files(h), i \in {j \in Secs(h) : Sections[j] \notin NoAccessor}},
     probes |-> UNION {{Probe(i, f, 0), Probe(i, f, 3), Probe(i, f, 7 + i)} : f \in Files(h), i \in Secs(h)}]

Init == c = "none" /\ buf = <<>> /\ le = TRUE /\ hs = <<>> /\ res = OkUnit
Next == c = "none" /\ c' \in Hows /\ UNCHANGED rvars
Inv == c # "none" =>
         /\ \A i \in DOMAIN Sections : \A k \in 0..(8 + i) : Resolve(Content(i, FALSE), k) = OkN(k)
         /\ \A i, j \in DOMAIN Sections : i # j => Content(i, FALSE) # Content(j, FALSE)
         /\ PrintT(<<"CASE", ToJson(Case(c))>>)
=============================================================================
