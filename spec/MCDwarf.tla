------------------------------- MODULE MCDwarf -------------------------------
(***************************************************************************)
(* C10 at the level of `gimli::Dwarf`: "all reader kinds behave            *)
(* identically" includes the BORROWED Dwarf obtained by Dwarf::borrow,     *)
(* DwarfSections::borrow(_with_sup), LocationLists::borrow and             *)
(* RangeLists::borrow, and "offset identifiers map back to the position    *)
(* they came from" includes Dwarf::lookup_offset_id / Dwarf::format_error  *)
(* for an id taken inside EVERY section a Dwarf holds, in the main and in  *)
(* the supplementary file.                                                 *)
(*                                                                         *)
(* A Dwarf is a function from section name to buffer (`Content`, distinct  *)
(* bytes and lengths per section and per file).  Borrowing / re-borrowing  *)
(* is the identity per section: the borrowed section for name n is the     *)
(* zero-copy view [0, Len) of the owner's buffer for n.  An offset id      *)
(* taken at offset k of section n of file f resolves to <<f = sup, n, k>>  *)
(* (Reader.tla's id_lookup inside the only buffer that contains it), and   *)
(* format_error(UnexpectedEof(id)) ends in " at <n>[(sup)]+0x<hex k>".     *)
(*                                                                         *)
(* `Sections` is the model's list of the sections a Dwarf holds; the       *)
(* harness reports the list the loader was actually asked for, and the     *)
(* driver demands equality in both directions, so neither side can forget  *)
(* a section.  `direct` = the section reader is reachable through a public *)
(* field / accessor (LocationLists has none: .debug_loc / .debug_loclists  *)
(* are observed through offset ids only).                                  *)
(***************************************************************************)
EXTENDS Reader, TLC, Json
VARIABLE c

Sections == <<".debug_abbrev", ".debug_addr", ".debug_aranges", ".debug_info", ".debug_line",
              ".debug_line_str", ".debug_macinfo", ".debug_macro", ".debug_names", ".debug_str",
              ".debug_str_offsets", ".debug_types", ".debug_loc", ".debug_loclists",
              ".debug_ranges", ".debug_rnglists">>
NoAccessor == {".debug_loc", ".debug_loclists"}

(* how the Dwarf under test is obtained *)
Hows == {"Dwarf<Vec>::borrow", "Dwarf<Rc>::borrow", "Dwarf<Arc>::borrow", "DwarfSections::borrow_with_sup",
         "Dwarf<EndianRcSlice>::load", "Lists::borrow"}

Content(i, sup) == [j \in 1..(8 + i) |-> (17 * i + j + (IF sup THEN 128 ELSE 0)) % 256]

HexDigit == <<"0", "1", "2", "3", "4", "5", "6", "7", "8", "9", "a", "b", "c", "d", "e", "f">>
Hex(n) == IF n < 16 THEN HexDigit[n + 1] ELSE HexDigit[(n \div 16) + 1] \o HexDigit[(n % 16) + 1]

(* Reader.tla: an id taken at offset k of a buffer resolves, in the reader over the whole *)
(* buffer, to k *)
Resolve(b, k) == Step(b, TRUE, <<Mk(k, Len(b), FALSE)>>, O("id_lookup", 1, 0, 0, 0)).res

Probe(i, sup, k) ==
    LET b == Content(i, sup) IN
    [sup |-> sup, sec |-> Sections[i], k |-> k,
     res |-> IF Resolve(b, k) = OkN(k) THEN <<sup, Sections[i], k>> ELSE <<>>,
     fmt |-> " at " \o Sections[i] \o (IF sup THEN "(sup)" ELSE "") \o "+0x" \o Hex(k)]

Files(h) == IF h = "Lists::borrow" THEN {FALSE} ELSE {FALSE, TRUE}
Secs(h) == IF h = "Lists::borrow" THEN {13, 14, 15, 16} ELSE DOMAIN Sections

Case(h) ==
    [sys |-> "dwarf", how |-> h,
     main |-> [i \in DOMAIN Sections |-> <<Sections[i], Content(i, FALSE)>>],
     sup  |-> [i \in DOMAIN Sections |-> <<Sections[i], Content(i, TRUE)>>],
     (* borrowed section = zero-copy view of the whole owner buffer *)
     views |-> {[sup |-> f, sec |-> Sections[i], bytes |-> Content(i, f), ptr |-> 0, borrowed |-> TRUE] :
                  f \in Files(h), i \in {j \in Secs(h) : Sections[j] \notin NoAccessor}},
     probes |-> UNION {{Probe(i, f, 0), Probe(i, f, 3), Probe(i, f, 7 + i)} : f \in Files(h), i \in Secs(h)}]

(*------------------------- DWARF package (.dwp) ----------------------------*)
(* A package holds one buffer per section plus a unit index (encoded with    *)
(* Lookup.tla's EncIndex).  For the unit in row r, DwarfPackage::cu_sections *)
(* / find_cu / tu_sections / find_tu hand back a Dwarf whose section for     *)
(* every index column is the zero-copy view [off, off+size) of the package   *)
(* section (Section::dwp_range = skip(off); truncate(size) in Reader.tla),   *)
(* .debug_str is the whole package section, package sections without a       *)
(* column are the empty view at 0; a contribution reaching beyond its        *)
(* section is an error.  Offset ids inside a contribution resolve, in the    *)
(* unit's Dwarf, to the offset relative to the contribution.                 *)
LK == INSTANCE Lookup
PkgVers == {5, 2}
Cols(ver) == IF ver = 5 THEN <<1, 3, 4, 5, 6, 7, 8>> ELSE <<1, 2, 3, 4, 5, 6, 7, 8>>
ColName(ver, code) ==
    IF ver = 5 THEN CASE code = 1 -> ".debug_info" [] code = 3 -> ".debug_abbrev" [] code = 4 -> ".debug_line"
                      [] code = 5 -> ".debug_loclists" [] code = 6 -> ".debug_str_offsets"
                      [] code = 7 -> ".debug_macro" [] code = 8 -> ".debug_rnglists"
    ELSE CASE code = 1 -> ".debug_info" [] code = 2 -> ".debug_types" [] code = 3 -> ".debug_abbrev"
           [] code = 4 -> ".debug_line" [] code = 5 -> ".debug_loc" [] code = 6 -> ".debug_str_offsets"
           [] code = 7 -> ".debug_macinfo" [] code = 8 -> ".debug_macro"
PkgHeld == <<".debug_abbrev", ".debug_info", ".debug_line", ".debug_macinfo", ".debug_macro", ".debug_str",
             ".debug_str_offsets", ".debug_loc", ".debug_loclists", ".debug_rnglists", ".debug_types">>
NUnits == 3
CSize(r, ci) == 2 + r + (ci % 3)
RECURSIVE COff(_, _)
COff(r, ci) == IF r = 1 THEN 0 ELSE COff(r - 1, ci) + CSize(r - 1, ci)
ColLen(ci) == COff(NUnits + 1, ci) + 2                      \* two trailing bytes owned by nobody
ColBytes(ci) == [j \in 1..ColLen(ci) |-> (31 * ci + 7 * j) % 256]
(* row NUnits+1 reaches beyond every section *)
Row(ver, r) == [ci \in DOMAIN Cols(ver) |->
                  IF r <= NUnits THEN [off |-> FromNat(COff(r, ci), 4), size |-> FromNat(CSize(r, ci), 4)]
                  ELSE [off |-> FromNat(ColLen(ci) - 1, 4), size |-> FromNat(5, 4)]]
PkgIndex(ver) == [ver |-> ver, cols |-> Cols(ver),
                  slots |-> [i \in 1..8 |-> IF i >= 2 /\ i <= NUnits + 2
                                            THEN [id |-> FromNat(i - 1, 8), row |-> FromNat(i - 1, 4)]
                                            ELSE [id |-> Zero(8), row |-> Zero(4)]],
                  rows |-> [r \in 1..(NUnits + 1) |-> Row(ver, r)]]
ColOf(ver, name) == {ci \in DOMAIN Cols(ver) : ColName(ver, Cols(ver)[ci]) = name}
HeldBytes(ver, i) == LET cs == ColOf(ver, PkgHeld[i]) IN
                     IF cs # {} THEN ColBytes(CHOOSE ci \in cs : TRUE)
                     ELSE [j \in 1..(5 + i) |-> (200 + 11 * i + j) % 256]
(* Section::dwp_range as Reader steps on the whole-section window *)
DwpRange(b, off, size) ==
    LET t0 == <<Mk(0, Len(b), FALSE)>>
        x1 == Step(b, TRUE, t0, O("skip", 1, off, 0, 0))
        x2 == Step(b, TRUE, x1.hs, O("truncate", 1, size, 0, 0)) IN
    IF x1.res.k = "ok" /\ x2.res.k = "ok" THEN [ok |-> TRUE, w |-> x2.hs[1]] ELSE [ok |-> FALSE]
UnitExp(ver, r) ==
    LET rng == [i \in DOMAIN PkgHeld |->
                  LET b  == HeldBytes(ver, i)
                      cs == ColOf(ver, PkgHeld[i]) IN
                  IF cs # {} THEN LET ci == CHOOSE q \in cs : TRUE IN
                                  DwpRange(b, ToNat(Row(ver, r)[ci].off), ToNat(Row(ver, r)[ci].size))
                  ELSE IF PkgHeld[i] = ".debug_str" THEN [ok |-> TRUE, w |-> Mk(0, Len(b), FALSE)]
                  ELSE DwpRange(b, 0, 0)] IN
    IF \E i \in DOMAIN PkgHeld : ~rng[i].ok THEN [ok |-> FALSE]
    ELSE [ok |-> TRUE,
          views |-> {[sec |-> PkgHeld[i], bytes |-> Bytes(HeldBytes(ver, i), rng[i].w), ptr |-> rng[i].w.s,
                      borrowed |-> TRUE] : i \in {j \in DOMAIN PkgHeld : PkgHeld[j] \notin NoAccessor}},
          (* an id one byte into each contribution resolves to offset 1 of the unit's section *)
          probes |-> {[sec |-> PkgHeld[i], at |-> rng[i].w.s + 1, res |-> <<FALSE, PkgHeld[i], 1>>] :
                        i \in {j \in DOMAIN PkgHeld : ColOf(ver, PkgHeld[j]) # {}}}]
PkgCase(ver) ==
    [sys |-> "dwp", ver |-> ver, index |-> LK!EncIndex(PkgIndex(ver), TRUE),
     sections |-> [i \in DOMAIN PkgHeld |-> <<PkgHeld[i], HeldBytes(ver, i)>>],
     units |-> [r \in 1..(NUnits + 1) |-> [row |-> r, id |-> FromNat(r, 8), exp |-> UnitExp(ver, r)]]]
PkgOK(ver) == /\ LK!IndexParse(PkgIndex(ver)).ok
              /\ \A r \in 1..NUnits : UnitExp(ver, r).ok
              /\ ~UnitExp(ver, NUnits + 1).ok
              (* the view of a contribution is SubSeq of the package section *)
              /\ \A r \in 1..NUnits : \A v \in UnitExp(ver, r).views :
                    \A ci \in ColOf(ver, v.sec) :
                       v.bytes = SubSeq(ColBytes(ci), COff(r, ci) + 1, COff(r, ci) + CSize(r, ci))

Init == c = "none" /\ buf = <<>> /\ le = TRUE /\ hs = <<>> /\ res = OkUnit
Next == c = "none" /\ (c' \in Hows \/ c' \in {"dwp5", "dwp2"}) /\ UNCHANGED rvars
PkgInv == /\ c = "dwp5" => (PkgOK(5) /\ PrintT(<<"CASE", ToJson(PkgCase(5))>>))
          /\ c = "dwp2" => (PkgOK(2) /\ PrintT(<<"CASE", ToJson(PkgCase(2))>>))
Inv == c \in Hows =>
         /\ \A i \in DOMAIN Sections : \A k \in 0..(8 + i) : Resolve(Content(i, FALSE), k) = OkN(k)
         /\ \A i, j \in DOMAIN Sections : i # j => Content(i, FALSE) # Content(j, FALSE)
         /\ PrintT(<<"CASE", ToJson(Case(c))>>)
=============================================================================
