INIT InitHdr
NEXT NextHdr
INVARIANT InvHdr
CHECK_DEADLOCK FALSE
CONSTANTS
  FullLen = 2
  CoreLen = 3
  FmtLen = 2
  Tuples = {1, 2, 3, 4, 5, 6}
