---------------------------- MODULE MCCfiHistory ----------------------------
(***************************************************************************)
(* C20 (unwind contexts): histories of evaluations on ONE UnwindContext.   *)
(*                                                                         *)
(* A pool of CIE/FDE pairs (succeeding with 0 / 1 / many initial rules,    *)
(* failing inside the CIE, failing mid-FDE, overflowing rows / rules,      *)
(* leaving remembered rows / an expression CFA / an args size behind) is   *)
(* laid out in one .debug_frame section.  A history is a sequence of uses  *)
(*   <<i, "rows">>   fde_i.rows(ctx) driven with next_row to None / Err    *)
(*   <<i, "info">>   fde_i.unwind_info_for_address(ctx, start_i), which    *)
(*                   stops at the first matching row and leaves the rest   *)
(*                   of the program unevaluated                            *)
(* The model context of each storage carries its state from use to use     *)
(* exactly as the code does: nothing but `reset()` inside `initialize`     *)
(* touches what an earlier use left.  Invariant (checked by TLC in every   *)
(* state): the observation of the k-th use on the long-lived context       *)
(* equals the observation on a new context.  Every state prints the        *)
(* history as a replay case with the history-independent expectation.      *)
(***************************************************************************)
EXTENDS CfiExec, Json
CONSTANTS MaxHist
VARIABLES pool, sec, fresh, h, ctx, exp, seen

Storages == {"s22", "s31", "heap", "vec"}
Cap(s) == CASE s = "s22" -> [rows |-> 2, rules |-> 2]
            [] s = "s31" -> [rows |-> 3, rules |-> 1]
            [] s = "heap" -> [rows |-> 4, rules |-> 192]
            [] s = "vec" -> [rows |-> Unbounded, rules |-> Unbounded]
Fresh(s) == NewCtx(Cap(s).rows, Cap(s).rules)

Cfg == [asz |-> 1, caf |-> Nat8(2), daf |-> Int8(-8), ver |-> 4, le |-> TRUE, ra |-> 1,
        start |-> Nat8(251), range |-> Nat8(2)]
Probe == <<0, 1, 34>>
OpNop == 150
T(op) == [op |-> op]
Adv    == [op |-> "AdvanceLoc", d |-> Nat8(1)]
Off0   == [op |-> "Offset", r |-> 0, f |-> Nat8(1)]
Val1   == [op |-> "ValOffsetSf", r |-> 1, f |-> Int8(-1)]
Und0   == [op |-> "Undefined", r |-> 0]
Res0   == [op |-> "Restore", r |-> 0]
Res1   == [op |-> "Restore", r |-> 1]
CfaX   == [op |-> "DefCfaExpression", x |-> <<OpNop>>]
TCfaReg == [op |-> "DefCfaRegister", r |-> 1]
CfaDef == [op |-> "DefCfa", r |-> 1, o |-> Nat8(1)]
Args1  == [op |-> "ArgsSize", s |-> Nat8(1)]
Rem    == T("RememberState")
Pop    == T("RestoreState")
NegRa  == T("NegateRaState")

Pool == <<
  [cie |-> <<>>,            fde |-> <<Adv, Off0>>],                      \* 1 ok, no initial rules
  [cie |-> <<Off0>>,        fde |-> <<Und0, Adv, Res0>>],                \* 2 ok, one initial rule
  [cie |-> <<Off0, Val1>>,  fde |-> <<Und0, Adv, Res0, Res1>>],          \* 3 ok, initial rules kept in stack[0]
  [cie |-> <<Off0, Res0>>,  fde |-> <<Adv>>],                            \* 4 fails inside the CIE (one rule set)
  [cie |-> <<Rem, CfaX, TCfaReg>>, fde |-> <<Adv>>],                      \* 5 fails inside the CIE (2 rows, expression CFA)
  [cie |-> <<Off0, Val1>>,  fde |-> <<Rem, Adv, Und0, Pop, Pop>>],       \* 6 fails mid-FDE after a row
  [cie |-> <<Off0, Val1>>,  fde |-> <<Rem, Adv, Rem, Rem, Rem>>],        \* 7 overflows the row stack (also of StoreOnHeap)
  [cie |-> <<>>,            fde |-> <<Off0, Val1, Adv, NegRa>>],           \* 8 overflows small rule storages
  [cie |-> <<Rem, Args1>>,  fde |-> <<Rem, CfaX, Adv, CfaDef, Rem>>],    \* 9 ok, leaves 4 rows, args size, expression CFA behind
  [cie |-> <<Und0>>,        fde |-> <<Res0, Pop>>]                       \* 10 restore to the single initial rule, then empty pop
>>
N == Len(Pool)

(* layout: pair i at CieOffOf(i); its FDE follows its CIE *)
PairLen(i) == Len(EncCie(Cfg, Pool[i].cie)) + Len(EncFde(Cfg, 0, Pool[i].fde))
RECURSIVE CieOffOf(_)
CieOffOf(i) == IF i = 1 THEN 0 ELSE CieOffOf(i - 1) + PairLen(i - 1)
RECURSIVE SecUpTo(_)
SecUpTo(i) == IF i = 0 THEN <<>>
              ELSE SecUpTo(i - 1) \o EncCie(Cfg, Pool[i].cie) \o EncFde(Cfg, CieOffOf(i), Pool[i].fde)
Entry(i) == LET co == CieOffOf(i)
                fo == co + Len(EncCie(Cfg, Pool[i].cie)) IN
            [fdeoff |-> fo,
             cie |-> DecodedProg(Pool[i].cie, co + CieInsOff(Cfg), Cfg.asz, Cfg.le),
             fde |-> DecodedProg(Pool[i].fde, fo + 8 + 2 * Cfg.asz, Cfg.asz, Cfg.le)]

(* unwind_info_for_address: rows until one contains the address *)
Contains(row, a) == ULe(row.start, a) /\ ULt(a, row.end)
RECURSIVE InfoLoop(_, _)
InfoLoop(m, a) == LET n == NextRow(m) IN
                  IF n.st = "row" THEN (IF Contains(Top(n), a) THEN n ELSE InfoLoop(n, a)) ELSE n
(* one use of a context: [m |-> context afterwards, o |-> observation] *)
Get(row) == [j \in DOMAIN Probe |->
               IF \E p \in row.rules : p[1] = Probe[j] THEN (CHOOSE p \in row.rules : p[1] = Probe[j])[2]
               ELSE [k |-> "default"]]
RowOut(row) == [start |-> row.start, end |-> row.end, args |-> row.args, cfa |-> row.cfa,
                rules |-> SortPairs(row.rules), get |-> Get(row)]
Use(m, e, via) ==
    IF via = "rows" THEN
        LET f == RunOn(m, Cfg, e.cie, e.fde) IN
        [m |-> f, o |-> [rows |-> [j \in DOMAIN f.out |-> RowOut(f.out[j])], fin |-> IF f.st = "err" THEN f.err ELSE "end"]]
    ELSE
        LET t == TableNew(m, Cfg, e.cie, e.fde)
            f == IF t.st = "err" THEN t ELSE InfoLoop(t, Cfg.start) IN
        [m |-> f, o |-> IF f.st = "row" THEN [fin |-> "row", row |-> RowOut(ProjRow(Top(f)))]
                        ELSE IF f.st = "none" THEN [fin |-> "NoUnwindInfoForAddress"]
                        ELSE [fin |-> f.err]]

Init == /\ pool = [i \in 1..N |-> Entry(i)]
        /\ sec = SecUpTo(N)
        /\ fresh = [i \in 1..N |-> [via \in {"rows", "info"} |-> [s \in Storages |-> Use(Fresh(s), Entry(i), via).o]]]
        /\ h = <<>>
        /\ ctx = [s \in Storages |-> Fresh(s)]
        /\ exp = <<>>
        /\ seen = <<>>

Vias == {"rows", "info"}
(* `seen` records what the long-lived contexts observed, `exp` what new    *)
(* contexts observe for the same uses                                      *)
Next == /\ Len(h) < MaxHist
        /\ \E i \in 1..N, via \in Vias :
             LET u == [s \in Storages |-> Use(ctx[s], pool[i], via)] IN
             /\ h' = Append(h, [i |-> i, via |-> via])
             /\ ctx' = [s \in Storages |-> u[s].m]
             /\ seen' = Append(seen, [s \in Storages |-> u[s].o])
             /\ exp' = Append(exp, fresh[i][via])
        /\ UNCHANGED <<pool, sec, fresh>>

(* the reset at the start of initialize makes the context equivalent to a new one *)
Equivalent(m, s) == LET r == Reset(m) IN
                    r.stack = Fresh(s).stack /\ r.ir = Fresh(s).ir /\ r.init = Fresh(s).init

Inv ==  /\ seen = exp                                  \* every use, on every storage: reused = fresh
        /\ \A s \in Storages : Equivalent(ctx[s], s)
        /\ Len(h) > 0 =>
             PrintT(<<"CASE", ToJson(
               [sys |-> "cfihist", sec |-> sec, asz |-> Cfg.asz, le |-> Cfg.le, probe |-> Probe,
                history |-> [k \in DOMAIN h |-> pool[h[k].i].fdeoff],
                via |-> [k \in DOMAIN h |-> IF h[k].via = "rows" THEN "rows" ELSE "info:251"],
                pick |-> [k \in DOMAIN h |-> h[k].i],
                storages |-> <<"s22", "s31", "heap", "vec">>, exp |-> exp])>>)
=============================================================================
