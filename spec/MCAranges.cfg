INIT Init
NEXT Next
INVARIANT Inv
CHECK_DEADLOCK FALSE
CONSTANTS
  Mode = "all"
  MaxTuples = 2
