------------------------------- MODULE Macros -------------------------------
(***************************************************************************)
(* Extension beyond the listed properties: iteration of macro information  *)
(* (.debug_macinfo, DWARF <= 4, and .debug_macro, DWARF 5) as coded in     *)
(* src/read/macros.rs.                                                     *)
(*                                                                         *)
(* The machine's state is "remaining bytes" (a position), so both an       *)
(* encoder (`EncEntry`, `EncUnit`) and the decoder AS CODED (`Step`, one   *)
(* call of MacroIter::next; `Run`, repeated calls up to the first end or   *)
(* error) are written here.  MCMacros checks Run(EncUnit(es)) = Meaning(es)*)
(* on every explored entry list and emits replay cases.                    *)
(*                                                                         *)
(* entry kinds (k): "define" / "undef" with line (BV8) and a string        *)
(*   str = [t |-> "direct", s |-> bytes] | [t |-> "strp", off |-> Nat]     *)
(*       | [t |-> "sup", off |-> Nat] | [t |-> "strx", idx |-> BV8];       *)
(*   "start_file" line file; "end_file"; "import" off; "import_sup" off;   *)
(*   "vendor_ext" num s (macinfo only); "raw" op (an unknown opcode byte). *)
(* Deliberate gimli behaviours modelled as coded: DW_MACINFO_* and         *)
(* DW_MACRO_* share opcodes 1..4; opcodes 5..0xc exist only in .debug_macro;*)
(* 0xff is vendor_ext only in .debug_macinfo; a header with the opcode     *)
(* operands table flag is refused; the version is not checked.             *)
(***************************************************************************)
EXTENDS Leb, FiniteSets

Lay(v, le) == IF le THEN v ELSE Reverse(v)
WordSize(fmt) == IF fmt = 64 THEN 8 ELSE 4
Word(n, fmt, le) == Lay(FromNat(n, WordSize(fmt)), le)
RECURSIVE Flat(_)
Flat(ss) == IF ss = <<>> THEN <<>> ELSE Head(ss) \o Flat(Tail(ss))
E(k) == [err |-> k]

OpOf(e) == CASE e.k = "define" -> (CASE e.str.t = "direct" -> 1 [] e.str.t = "strp" -> 5 [] e.str.t = "sup" -> 8 [] e.str.t = "strx" -> 11)
             [] e.k = "undef" -> (CASE e.str.t = "direct" -> 2 [] e.str.t = "strp" -> 6 [] e.str.t = "sup" -> 9 [] e.str.t = "strx" -> 12)
             [] e.k = "start_file" -> 3 [] e.k = "end_file" -> 4 [] e.k = "import" -> 7 [] e.k = "import_sup" -> 10
             [] e.k = "vendor_ext" -> 255 [] e.k = "raw" -> e.op

EncStr(s, fmt, le) == CASE s.t = "direct" -> s.s \o <<0>>
                        [] s.t \in {"strp", "sup"} -> Word(s.off, fmt, le)
                        [] s.t = "strx" -> EncU(s.idx)
EncEntry(e, fmt, le) ==
    <<OpOf(e)>> \o
    (CASE e.k \in {"define", "undef"} -> EncU(e.line) \o EncStr(e.str, fmt, le)
       [] e.k = "start_file" -> EncU(e.line) \o EncU(e.file)
       [] e.k = "end_file" -> <<>>
       [] e.k \in {"import", "import_sup"} -> Word(e.off, fmt, le)
       [] e.k = "vendor_ext" -> EncU(e.num) \o e.s \o <<0>>
       [] e.k = "raw" -> <<>>)
(* .debug_macro unit header: version, flags (bit0 offset size, bit1 line offset present, bit2 opcode table) *)
FlagsOf(fmt, hasline, optable) == (IF fmt = 64 THEN 1 ELSE 0) + (IF hasline THEN 2 ELSE 0) + (IF optable THEN 4 ELSE 0)
EncHeader(u, le) == Lay(FromNat(u.ver, 2), le) \o <<FlagsOf(u.fmt, u.hasline, u.optable)>>
                    \o (IF u.hasline THEN Word(u.lineoff, u.fmt, le) ELSE <<>>)
(* u: [macro : BOOLEAN, fmt, ver, hasline, lineoff, optable, entries, term : BOOLEAN] *)
EncUnit(u, le) == (IF u.macro THEN EncHeader(u, le) ELSE <<>>)
                  \o Flat([i \in DOMAIN u.entries |-> EncEntry(u.entries[i], IF u.macro THEN u.fmt ELSE 32, le)])
                  \o (IF u.term THEN <<0>> ELSE <<>>)

(*------------------------- the reader primitives -------------------------*)
Rest(b, pos) == SubSeq(b, pos, Len(b))
RdU(b, pos) == LET m == Fin(RunU(MInit, Rest(b, pos), 1)) IN
               IF m.st = "ok" THEN [ok |-> TRUE, v |-> m.res, n |-> m.n] ELSE [ok |-> FALSE]
RECURSIVE NulAt(_, _)
NulAt(b, i) == IF i > Len(b) THEN 0 ELSE IF b[i] = 0 THEN i ELSE NulAt(b, i + 1)
RdStr(b, pos) == LET z == NulAt(b, pos) IN
                 IF z = 0 THEN [ok |-> FALSE] ELSE [ok |-> TRUE, s |-> SubSeq(b, pos, z - 1), n |-> z - pos + 1]
RdOff(b, pos, fmt, le) == LET w == WordSize(fmt) IN
                 IF pos + w - 1 > Len(b) THEN [ok |-> FALSE]
                 ELSE [ok |-> TRUE, v |-> ZExt(Lay(SubSeq(b, pos, pos + w - 1), le), 8), n |-> w]

(* One call of MacroIter::next at position pos.                            *)
(* Result: [end], [err], or [item |-> observation, pos |-> next position]. *)
LineStr(b, pos, kind) ==           \* define/undef with an inline string
    LET l == RdU(b, pos) IN IF ~l.ok THEN E("any") ELSE
    LET s == RdStr(b, pos + l.n) IN IF ~s.ok THEN E("any") ELSE
    [item |-> [k |-> kind, line |-> l.v, str |-> [t |-> "direct", s |-> s.s]], pos |-> pos + l.n + s.n]
LineOff(b, pos, kind, t, fmt, le) ==   \* define/undef with a string offset
    LET l == RdU(b, pos) IN IF ~l.ok THEN E("any") ELSE
    LET o == RdOff(b, pos + l.n, fmt, le) IN IF ~o.ok THEN E("any") ELSE
    [item |-> [k |-> kind, line |-> l.v, str |-> [t |-> t, off |-> o.v]], pos |-> pos + l.n + o.n]
LineIdx(b, pos, kind) ==
    LET l == RdU(b, pos) IN IF ~l.ok THEN E("any") ELSE
    LET x == RdU(b, pos + l.n) IN IF ~x.ok THEN E("any") ELSE
    [item |-> [k |-> kind, line |-> l.v, str |-> [t |-> "strx", idx |-> x.v]], pos |-> pos + l.n + x.n]
Step(b, pos, macro, fmt, le) ==
    \* gimli (since the fix "MacroIter stops after the end of the list and after an error"):
    \* an exhausted input is the end of the list, like a terminator
    IF pos > Len(b) THEN [end |-> TRUE]
    ELSE LET op == b[pos]
             p  == pos + 1 IN
    CASE op = 0 -> [end |-> TRUE]
      [] op = 1 -> LineStr(b, p, "define")
      [] op = 2 -> LineStr(b, p, "undef")
      [] op = 3 -> (LET l == RdU(b, p) IN IF ~l.ok THEN E("any") ELSE
                    LET f == RdU(b, p + l.n) IN IF ~f.ok THEN E("any") ELSE
                    [item |-> [k |-> "start_file", line |-> l.v, file |-> f.v], pos |-> p + l.n + f.n])
      [] op = 4 -> [item |-> [k |-> "end_file"], pos |-> p]
      [] op = 5 /\ macro -> LineOff(b, p, "define", "strp", fmt, le)
      [] op = 6 /\ macro -> LineOff(b, p, "undef", "strp", fmt, le)
      [] op = 7 /\ macro -> (LET o == RdOff(b, p, fmt, le) IN IF ~o.ok THEN E("any") ELSE
                             [item |-> [k |-> "import", off |-> o.v], pos |-> p + o.n])
      [] op = 8 /\ macro -> LineOff(b, p, "define", "sup", fmt, le)
      [] op = 9 /\ macro -> LineOff(b, p, "undef", "sup", fmt, le)
      [] op = 10 /\ macro -> (LET o == RdOff(b, p, fmt, le) IN IF ~o.ok THEN E("any") ELSE
                              [item |-> [k |-> "import_sup", off |-> o.v], pos |-> p + o.n])
      [] op = 11 /\ macro -> LineIdx(b, p, "define")
      [] op = 12 /\ macro -> LineIdx(b, p, "undef")
      [] OTHER -> IF macro THEN E("InvalidMacroType")
                  ELSE IF op = 255 THEN
                       (LET n == RdU(b, p) IN IF ~n.ok THEN E("any") ELSE
                        LET s == RdStr(b, p + n.n) IN IF ~s.ok THEN E("any") ELSE
                        [item |-> [k |-> "vendor_ext", num |-> n.v, s |-> s.s], pos |-> p + n.n + s.n])
                  ELSE E("InvalidMacinfoType")
(* repeated next() up to the first end or error: the list of observations *)
RECURSIVE Run(_, _, _, _, _, _)
Run(b, pos, macro, fmt, le, fuel) ==
    IF fuel = 0 THEN <<[fuel |-> TRUE]>> ELSE
    LET r == Step(b, pos, macro, fmt, le) IN
    IF "end" \in DOMAIN r THEN <<>>
    ELSE IF "err" \in DOMAIN r THEN <<r>>
    ELSE <<r.item>> \o Run(b, r.pos, macro, fmt, le, fuel - 1)
(* get_macros: header first *)
HeaderLen(u) == 3 + (IF u.hasline THEN WordSize(u.fmt) ELSE 0)
Iterate(u, b, le) ==
    IF ~u.macro THEN [items |-> Run(b, 1, FALSE, 32, le, 64)]
    ELSE IF Len(b) < HeaderLen(u) THEN E("any")
    ELSE IF u.optable THEN E("UnsupportedOpcodeOperandsTable")
    ELSE [items |-> Run(b, HeaderLen(u) + 1, TRUE, u.fmt, le, 64)]

(*------------------- the meaning of an abstract unit --------------------*)
(* what the entries mean, independently of the byte-level decoder *)
ObsOf(e) == CASE e.k \in {"define", "undef"} ->
                   [k |-> e.k, line |-> e.line,
                    str |-> IF e.str.t = "direct" THEN e.str
                            ELSE IF e.str.t = "strx" THEN e.str
                            ELSE [t |-> e.str.t, off |-> FromNat(e.str.off, 8)]]
              [] e.k \in {"import", "import_sup"} -> [k |-> e.k, off |-> FromNat(e.off, 8)]
              [] OTHER -> e
ValidIn(e, macro) == IF e.k = "raw" THEN FALSE
                     ELSE IF e.k = "vendor_ext" THEN ~macro
                     ELSE IF OpOf(e) >= 5 THEN macro ELSE TRUE
RECURSIVE MeaningFrom(_, _)
MeaningFrom(u, i) ==
    IF i > Len(u.entries) THEN <<>>      \* a list that ends with the section needs no terminator
    ELSE IF ~ValidIn(u.entries[i], u.macro) THEN <<E(IF u.macro THEN "InvalidMacroType" ELSE "InvalidMacinfoType")>>
    ELSE <<ObsOf(u.entries[i])>> \o MeaningFrom(u, i + 1)
Meaning(u) == IF u.macro /\ u.optable THEN E("UnsupportedOpcodeOperandsTable") ELSE [items |-> MeaningFrom(u, 1)]
=============================================================================
