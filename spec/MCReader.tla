------------------------------ MODULE MCReader ------------------------------
(***************************************************************************)
(* Exhaustive exploration of the Reader cursor model (C10).                *)
(*                                                                         *)
(* A configuration is (buffer, byte order, number of handle slots).  TLC   *)
(* explores every reachable handle table; the history that first reached a *)
(* state is kept in `hist`, hidden from the fingerprint by VIEW.  For each *)
(* distinct state the invariant                                            *)
(*   - checks the window / view / offset-id properties for EVERY operation *)
(*     applicable in that state (StepOK, i.e. every transition), and       *)
(*   - emits one replay case: the history reaching the state, the expected *)
(*     projection of every handle, and one probe per applicable operation  *)
(*     with the model's result and post-projection.  The harness re-runs   *)
(*     the history from a fresh buffer for every probe, so every           *)
(*     transition of the state graph is executed on the real readers.      *)
(* The inherent range/range_from/range_to constructors are probes only     *)
(* (RelocateReader has no such methods, so they cannot be part of a        *)
(* history that every kind must be able to replay).                        *)
(***************************************************************************)
EXTENDS Reader, TLC, Json
CONSTANT Tier
VARIABLE hist

Cfg(b, isLe, mh) == [buf |-> b, le |-> isLe, mh |-> mh]
(* 195,169 = U+00E9; 237,160,128 = an encoded surrogate (ill-formed)       *)
QuickCfgs ==
    { Cfg(<<>>, TRUE, 3), Cfg(<<0>>, TRUE, 3), Cfg(<<7>>, FALSE, 3),
      Cfg(<<0, 7>>, FALSE, 2), Cfg(<<7, 0>>, TRUE, 2), Cfg(<<195, 169>>, TRUE, 2),
      Cfg(<<1, 0, 2>>, TRUE, 2), Cfg(<<0, 237, 160>>, FALSE, 2),
      Cfg(<<1, 2, 0, 4>>, TRUE, 2) }
ThoroughCfgs ==
    { Cfg(b, e, 3) : b \in {<<>>, <<0>>, <<7>>}, e \in BOOLEAN }
    \cup { Cfg(<<0, 7>>, TRUE, 3), Cfg(<<0, 7>>, FALSE, 3), Cfg(<<7, 0>>, FALSE, 3), Cfg(<<195, 169>>, TRUE, 3) }
    \cup { Cfg(<<1, 0, 2>>, TRUE, 2), Cfg(<<0, 0, 255>>, FALSE, 2), Cfg(<<65, 195, 40>>, TRUE, 2),
           Cfg(<<0, 237, 160>>, FALSE, 2), Cfg(<<1, 2, 0, 4>>, TRUE, 2), Cfg(<<1, 2, 0, 4>>, FALSE, 2),
           Cfg(<<237, 160, 128, 0>>, FALSE, 2), Cfg(<<0, 240, 159, 0>>, TRUE, 2),
           Cfg(<<1, 2, 3, 4, 5, 6, 0, 8>>, TRUE, 2) }
Cfgs == IF Tier = "quick" THEN QuickCfgs ELSE ThoroughCfgs

Init == /\ \E c \in Cfgs : buf = c.buf /\ le = c.le /\ hs = InitHs(c.buf, c.mh)
        /\ res = OkUnit /\ hist = <<>>

Slot(t) == LET F == {d \in DOMAIN t : ~t[d].live} IN
           IF F = {} THEN 0 ELSE CHOOSE d \in F : \A d2 \in F : d <= d2
FindBytes(b) == {0, 9} \cup {b[i] : i \in DOMAIN b}

TraitOpsAt(b, t) ==
    LET L == LiveSet(t)
        d == Slot(t)
        A == 0..(Len(b) + 1)
        C == {O("read_u8", h, 0, 0, 0) : h \in L}
             \cup {O(op, h, n, 0, 0) : op \in {"read_slice", "skip", "truncate"}, h \in L, n \in A}
             \cup {O("split", h, n, 0, d) : h \in L, n \in A}
             \cup {O("read_uint", h, n, 0, 0) : h \in L, n \in {1, 2, 3, 4, 5, 8}}
             \cup {O("read_address", h, n, 0, 0) : h \in L, n \in {0, 1, 2, 3, 4, 8, 16}}
             \cup {O("read_sized_offset", h, n, 0, 0) : h \in L, n \in {0, 1, 2, 4, 5, 8}}
             \cup {O("read_offset", h, n, 0, 0) : h \in L, n \in {4, 8}}
             \cup {O(op, h, 0, 0, 0) : op \in {"empty", "drop", "to_slice", "to_string", "to_string_lossy"}, h \in L}
             \cup {O("find", h, x, 0, 0) : h \in L, x \in FindBytes(b)}
             \cup {O("read_cstr", h, 0, 0, d) : h \in L}
             \cup {O("clone", h, 0, 0, d) : h \in L \cup {0}}
             \cup {O(op, h, g, 0, 0) : op \in {"offset_from", "id_lookup"}, h \in L, g \in L \cup {0}}
    IN {o \in C : Enabled(b, t, o)}
RangeOpsAt(b, t) ==
    LET L == LiveSet(t)
        d == Slot(t)
        A == 0..(Len(b) + 1)
        C == {O("range", h, x, y, d) : h \in L, x \in A, y \in A}
             \cup {O(op, h, x, 0, d) : op \in {"range_from", "range_to"}, h \in L, x \in A}
    IN {o \in C : Enabled(b, t, o)}

Next == \E o \in TraitOpsAt(buf, hs) : Do(o) /\ hist' = Append(hist, o)

View == <<buf, le, hs>>

OpT(o) == <<o.op, o.h, o.a, o.b, o.d>>
(* post-state as a delta: the projections of the handles whose window changed *)
Delta(t1) == {<<h, Proj(buf, t1[h])>> : h \in {g \in DOMAIN hs : hs[g] # t1[g]}}
Probe(o) == LET x == Step(buf, le, hs, o) IN
            [o |-> OpT(o), r |-> x.res, d |-> Delta(x.hs), refs |-> Refs(x.hs)]
Case == [sys |-> "reader", buf |-> buf, le |-> le, mh |-> Len(hs),
         prefix |-> [i \in DOMAIN hist |-> OpT(hist[i])],
         pre |-> ProjAll(buf, hs), refs |-> Refs(hs),
         emp |-> [h \in DOMAIN hs |-> hs[h].live /\ hs[h].emp],
         probes |-> {Probe(o) : o \in TraitOpsAt(buf, hs) \cup RangeOpsAt(buf, hs)}]

Inv == /\ WindowInv /\ EmpInv
       /\ \A o \in TraitOpsAt(buf, hs) \cup RangeOpsAt(buf, hs) : StepOK(buf, le, hs, o)
       /\ PrintT(<<"CASE", ToJson(Case)>>)
=============================================================================
