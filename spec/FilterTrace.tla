---------------------------- MODULE FilterTrace ----------------------------
(* Trace validation for C19: the filter traversal of large random forests.  *)
(* Events (one action each), as recorded by `gvh-filter record`:            *)
(*   Reset   a new input section (n entries, nunits units)                  *)
(*   Entry   what FilterUnit::read_entry presented (index in traversal      *)
(*           order, parent and parent tag AS REPORTED BY GIMLI, tag,        *)
(*           declaration flag) plus the references the input generator put  *)
(*           on that entry and the parent it was constructed under          *)
(*   Require the harness called FilterUnit::require_entry for that entry    *)
(*   Result  outcome of convert_with_filter + write + read back: the set of *)
(*           retained entries and the dangling references found             *)
(* The model replays the machine of Filter.tla (add_entry / add_edge /      *)
(* require_entry as coded) and at Result demands that the retained set is   *)
(* allowed by the property (between the closure and the connected set,      *)
(* closed) - the closure being computed declaratively on the accumulated    *)
(* graph - and records whether it equals the worklist result.               *)
EXTENDS Filter, TLC, Json, IOUtils
VARIABLES l, G, m, req
Rec == ndJsonDeserialize(IOEnv.TRACE)
vars == <<l, G, m, req>>

IsEv(e) == l <= Len(Rec) /\ Rec[l].ev = e /\ l' = l + 1
EmptyG(nu) == [n |-> 0, nunits |-> nu, unit |-> <<>>, parent |-> <<>>, tag |-> <<>>, decl |-> <<>>, refs |-> <<>>]

Reset == IsEv("Reset") /\ G' = EmptyG(Rec[l].nunits) /\ m' = MInit /\ req' = {}

Entry == IsEv("Entry") /\ LET r == Rec[l]  e == G.n + 1 IN
    /\ r.idx = e
    /\ r.unit \in 1..G.nunits /\ (e > 1 => G.unit[e - 1] <= r.unit)
    /\ r.cparent \in 0..G.n
    (* the parent and parent tag gimli tracked are those of the tree *)
    /\ r.parent = r.cparent
    /\ r.parent_tag = (IF r.cparent = 0 THEN "" ELSE G.tag[r.cparent])
    /\ LET rs == [i \in 1..Len(r.refs) |-> [from |-> e, to |-> r.refs[i].to, kind |-> r.refs[i].kind]]
       IN /\ \A i \in DOMAIN rs : rs[i].kind \in Range(AllKinds)
          /\ G' = [G EXCEPT !.n = e, !.unit = Append(@, r.unit), !.parent = Append(@, r.cparent),
                            !.tag = Append(@, r.tag), !.decl = Append(@, r.decl), !.refs = @ \o rs]
          /\ m' = ReadEntryCore(m, e, r.cparent, r.parent_tag, r.tag, r.decl, AttrDepsOf(rs))
    /\ UNCHANGED req

Require == IsEv("Require") /\ LET r == Rec[l] IN
    /\ r.idx \in 1..G.n
    /\ m' = RequireEntry(m, r.idx) /\ req' = req \cup {r.idx}
    /\ UNCHANGED G

Result == IsEv("Result") /\ LET r == Rec[l] IN
    /\ IF r.ok
       THEN LET S == Range(r.retained)
                nd == NeedsFn(G)
                M == LfpF(nd, req)
                Y == LfpF(LinkedFn(G), req)
                R == GetReachable(m)
            IN /\ R = M                          \* design level: worklist = closure on this graph
               /\ AllowedWith(nd, M, Y, S)       \* the property
               /\ \A e \in S : ~HasInvalidRef(G, e)
               /\ r.dangling = <<>>
               /\ IF S = R THEN TRUE
                  ELSE PrintT(<<"DRIFT", "retained set differs from the worklist result", S, R>>)
       ELSE \E e \in Entries(G) : HasInvalidRef(G, e)
    /\ UNCHANGED <<G, m, req>>

Init == l = 1 /\ G = EmptyG(1) /\ m = MInit /\ req = {}
Next == Reset \/ Entry \/ Require \/ Result
Accepted == LET d == TLCGet("stats").diameter IN
            IF d - 1 = Len(Rec) THEN TRUE
            ELSE Print(<<"UNMATCHED", d, ToJson(Rec[d])>>, FALSE)
=============================================================================
