----------------------------- MODULE IterProto -----------------------------
(* The protocol of gimli's lazy iterators (C01).                            *)
(*                                                                         *)
(* Every `*Iter::next` in src/read is coded as                             *)
(*     if <variant is exhausted> { return Ok(None) }                       *)
(*     match <parse one item> {                                            *)
(*         Ok(item)  => Ok(Some(item)),     -- the variant strictly shrank *)
(*         Ok(end)   => { input.empty(); Ok(None) }                        *)
(*         Err(e)    => { input.empty(); Err(e) }   -- the "fused" family  *)
(*     }                                                                   *)
(* This module has                                                         *)
(*  - the ABSTRACT machine over a natural-number variant `v` and a budget  *)
(*    `f` of injected reader faults (AbsSucc); the properties Fused,       *)
(*    Bounded and termination are stated on it;                            *)
(*  - the CONCRETE families in the shape of the code (ConcSucc) with the   *)
(*    rank function that maps them to the abstract machine;                *)
(*  - Accept: the decision procedure used by trace validation             *)
(*    (RobustTrace.tla) for a run-length-encoded result sequence, and the  *)
(*    exact reachability semantics (Behaves) it is checked against.        *)
(* MCIterProto.tla model-checks all of it for small variants.              *)
EXTENDS Naturals, Sequences, FiniteSets
LOCAL INSTANCE SequencesExt   \* FoldLeft (evaluated iteratively by TLC)

Some == "some"
Err  == "err"
None == "none"
Results == {Some, Err, None}

Monus(a, b) == IF a >= b THEN a - b ELSE 0

-----------------------------------------------------------------------------
(* Abstract machine.  State [v, f]: v = rank of the variant (remaining     *)
(* bytes, remaining count, count - index), f = reader faults that may      *)
(* still be injected (0 for a plain slice reader; the interposed reader    *)
(* fails exactly one operation, so 1).  A successor is <<state', result>>. *)
(*  - exhausted variant: only None, forever;                               *)
(*  - an item or a terminator / skipped element strictly decreases v;      *)
(*  - a parse error: the fused family empties its input (v' = 0), the      *)
(*    unfused family has consumed the failing element (v' < v);            *)
(*  - an injected fault: same error path for the fused family; for the     *)
(*    unfused family it need not decrease v but uses up the fault.         *)
AbsState(v, f) == [v |-> v, f |-> f]

AbsSucc(fused, s) ==
    IF s.v = 0 THEN {<<s, None>>}
    ELSE {<<[s EXCEPT !.v = w], Some>> : w \in 0..(s.v - 1)}
         \cup {<<[s EXCEPT !.v = w], None>> : w \in 0..(s.v - 1)}
         \cup (IF fused THEN {<<[s EXCEPT !.v = 0], Err>>}
               ELSE {<<[s EXCEPT !.v = w], Err>> : w \in 0..(s.v - 1)})
         \cup (IF s.f = 0 THEN {}
               ELSE IF fused THEN {<<[v |-> 0, f |-> s.f - 1], Err>>}
               ELSE {<<[v |-> w, f |-> s.f - 1], Err>> : w \in 0..s.v})

-----------------------------------------------------------------------------
(* Concrete families, as coded.                                            *)
(*                                                                         *)
(* "bytes": remaining input bytes.  OperationIter, CallFrameInstructionIter,*)
(*   LineInstructions, RawRngListIter, RawLocListIter, EntriesCursor        *)
(*   (next_entry/next_dfs), LookupEntryIter (pubnames/pubtypes),           *)
(*   ArangeHeaderIter, ArangeEntryIter::next_raw, AddrHeaderIter,          *)
(*   AddrEntryIter, CfiEntriesIter, DebugInfo/DebugTypesUnitHeadersIter,   *)
(*   NameIndexHeaderIter, NameEntryIter: all with `input.empty()` on Err.  *)
(* "cooked": RngListIter / LocListIter / ArangeEntryIter::next /           *)
(*   LineRows::next_row: `raw.next()?` (a "bytes" iterator) followed by a  *)
(*   conversion / execution that may fail AFTER the element was consumed;  *)
(*   the error does not empty the input.                                   *)
(* "count": EhHdrTableIter: `if remain == 0 {None}; remain -= 1;` then     *)
(*   two encoded pointers are read from the table bytes; an error leaves   *)
(*   the count decremented and the bytes partially consumed.               *)
(* "chain": NameBucketIter: `if index >= name_count {None}`; a hash is     *)
(*   read (the table length was validated, so only an injected fault can   *)
(*   fail, without advancing); index += 1; a hash of a foreign bucket      *)
(*   yields None, otherwise Some.                                          *)
(* "noguard": MacroIter as coded on the pinned tree: no `is_empty` test    *)
(*   before `read_u8()?`; an error does not empty the input.  Kept as the  *)
(*   negative example: TLC refutes Bounded / termination for it.           *)
Families == {"bytes", "cooked", "count", "chain"}

FusedFamily(fam) == fam = "bytes"

ConcInit(fam, n, m, f) ==
    CASE fam = "bytes"   -> [rem |-> n, f |-> f]
      [] fam = "cooked"  -> [rem |-> n, f |-> f]
      [] fam = "count"   -> [cnt |-> n, bytes |-> m, f |-> f]
      [] fam = "chain"   -> [idx |-> m, count |-> m + n, f |-> f]
      [] fam = "noguard" -> [rem |-> n, f |-> f]

Rank(fam, c) ==
    CASE fam = "bytes"   -> c.rem
      [] fam = "cooked"  -> c.rem
      [] fam = "count"   -> c.cnt
      [] fam = "chain"   -> c.count - c.idx
      [] fam = "noguard" -> c.rem

AbsOf(fam, c) == AbsState(Rank(fam, c), c.f)

BytesSucc(c) ==
    IF c.rem = 0 THEN {<<c, None>>}
    ELSE \* Parse
         {<<[c EXCEPT !.rem = c.rem - n], Some>> : n \in 1..c.rem}     \* Ok(item), n bytes consumed
         \cup {<<[c EXCEPT !.rem = 0], None>>}                          \* terminator: input.empty()
         \cup {<<[c EXCEPT !.rem = 0], Err>>}                           \* Err(e): input.empty()
         \cup (IF c.f = 0 THEN {} ELSE {<<[rem |-> 0, f |-> c.f - 1], Err>>})

CookedSucc(c) ==
    IF c.rem = 0 THEN {<<c, None>>}
    ELSE \* raw.next()? : the raw iterator is a "bytes" iterator
         {<<[c EXCEPT !.rem = 0], None>>}
         \cup {<<[c EXCEPT !.rem = 0], Err>>}
         \cup (IF c.f = 0 THEN {} ELSE {<<[rem |-> 0, f |-> c.f - 1], Err>>})
         \* convert_raw(raw)? after n bytes were consumed
         \cup {<<[c EXCEPT !.rem = c.rem - n], Some>> : n \in 1..c.rem}
         \cup {<<[c EXCEPT !.rem = c.rem - n], Err>> : n \in 1..c.rem}
         \cup (IF c.f = 0 THEN {} ELSE {<<[rem |-> c.rem - n, f |-> c.f - 1], Err>> : n \in 1..c.rem})
         \* a skipped element (base address selection, tombstone) followed by the end of input
         \cup {<<[c EXCEPT !.rem = 0], None>>}

CountSucc(c) ==
    IF c.cnt = 0 THEN {<<c, None>>}
    ELSE {<<[c EXCEPT !.cnt = c.cnt - 1, !.bytes = c.bytes - n], Some>> : n \in 2..c.bytes}
         \cup {<<[c EXCEPT !.cnt = c.cnt - 1, !.bytes = b], Err>> : b \in 0..c.bytes}
         \cup (IF c.f = 0 THEN {} ELSE {<<[cnt |-> c.cnt - 1, bytes |-> b, f |-> c.f - 1], Err>> : b \in 0..c.bytes})

ChainSucc(c) ==
    IF c.idx >= c.count THEN {<<c, None>>}
    ELSE (IF c.f = 0 THEN {} ELSE {<<[c EXCEPT !.f = c.f - 1], Err>>})   \* read_u32()? failed: index not advanced
         \cup {<<[c EXCEPT !.idx = c.idx + 1], None>>}                    \* foreign bucket
         \cup {<<[c EXCEPT !.idx = c.idx + 1], Some>>}

NoGuardSucc(c) ==
    IF c.rem = 0 THEN {<<c, Err>>}                                        \* read_u8()? on empty input
    ELSE {<<[c EXCEPT !.rem = c.rem - n], Some>> : n \in 1..c.rem}
         \cup {<<[c EXCEPT !.rem = 0], None>>}                            \* DW_MACRO 0: input.empty()
         \cup {<<[c EXCEPT !.rem = b], Err>> : b \in 0..c.rem}            \* operand read failed: `?`

ConcSucc(fam, c) ==
    CASE fam = "bytes"   -> BytesSucc(c)
      [] fam = "cooked"  -> CookedSucc(c)
      [] fam = "count"   -> CountSucc(c)
      [] fam = "chain"   -> ChainSucc(c)
      [] fam = "noguard" -> NoGuardSucc(c)

-----------------------------------------------------------------------------
(* Acceptance of an observed result sequence.                               *)
(*                                                                         *)
(* Behaves: exact semantics - the set of abstract states reachable while   *)
(* producing the flat sequence `seq` is non-empty.                          *)
RECURSIVE ReachAfter(_, _, _)
ReachAfter(fused, S, seq) ==
    IF seq = <<>> THEN S
    ELSE ReachAfter(fused,
                    UNION {{p[1] : p \in {q \in AbsSucc(fused, s) : q[2] = Head(seq)}} : s \in S},
                    Tail(seq))

Behaves(fused, bound, slack, seq) ==
    ReachAfter(fused, {AbsState(bound, slack)}, seq) # {}

(* Accept: the same decision computed on the run-length encoding           *)
(* <<res, count>>, in closed form so that counts of 10^6 cost nothing.     *)
(* It tracks the best reachable state (faults are spent before progress).  *)
Reject == [v |-> 0, f |-> 0, rej |-> TRUE]
Live(v, f) == [v |-> v, f |-> f, rej |-> FALSE]

RunStep(fused, s, res, c) ==
    IF s.rej \/ c = 0 THEN s
    ELSE IF res = None THEN Live(Monus(s.v, c), s.f)
    ELSE IF res = Some THEN (IF c <= s.v THEN Live(s.v - c, s.f) ELSE Reject)
    ELSE IF res = Err THEN
         (IF s.v = 0 THEN Reject
          ELSE IF fused THEN (IF c = 1 THEN Live(0, s.f) ELSE Reject)
          ELSE IF c <= s.f + s.v THEN Live(s.v - Monus(c, s.f), Monus(s.f, c)) ELSE Reject)
    ELSE Reject

Fold(fused, s, runs) ==
    FoldLeft(LAMBDA acc, run : RunStep(fused, acc, run[1], run[2]), s, runs)

HasNone(runs) == \E i \in DOMAIN runs : runs[i][1] = None /\ runs[i][2] > 0

(* An observed pump of one iterator instance is accepted iff it is a       *)
(* behaviour of the machine from variant `bound` with `slack` faults, and  *)
(* a None was observed within the pump budget.                             *)
Accept(fused, bound, slack, runs) ==
    /\ ~Fold(fused, Live(bound, slack), runs).rej
    /\ HasNone(runs)

RECURSIVE Expand(_)
Expand(runs) ==
    IF runs = <<>> THEN <<>>
    ELSE [i \in 1..Head(runs)[2] |-> Head(runs)[1]] \o Expand(Tail(runs))
=============================================================================
