INIT InitX
NEXT NextX
INVARIANT InvX
CHECK_DEADLOCK FALSE
CONSTANTS
  Plan = "quick"
  MaxBytes = 2
  Quick = TRUE
