------------------------------- MODULE Lists -------------------------------
(***************************************************************************)
(* Range lists and location lists (C08, reused by C16).                    *)
(*                                                                         *)
(* Layers, all in the shape of gimli's src/read/{rnglists,loclists,addr,   *)
(* dwarf}.rs:                                                              *)
(*  1. raw entries: EncEntry (the wire format of every entry kind in the *)
(*     legacy pair format, DW_RLE_x, DW_LLE_x and the GNU split-DWARF v4   *)
(*     flavour of DW_LLE_x) and Dec (RawRngListEntry::parse /            *)
(*     RawLocListEntry::parse as coded, on "remaining bytes");             *)
(*  2. GetAddress (DebugAddr::get_address) and GetOffset               *)
(*     (RangeLists/LocationLists::get_offset);                             *)
(*  3. the iterator machines: RawNext (Raw*ListIter::next, fused by      *)
(*     emptying the input) and IterNext (RngListIter/LocListIter::next   *)
(*     = loop { raw.next; convert_raw }) with the running base address;    *)
(*  4. the standard's resolution Std*, written independently as a        *)
(*     declarative function over entry indices in integer arithmetic;      *)
(*  5. the attribute-level helpers of read::Dwarf / read::Unit: a minimal  *)
(*     unit + abbreviation + root-DIE encoder, attribute normalisation     *)
(*     (parse_attribute + Attribute::value for the attributes involved),   *)
(*     Unit::new, ranges_offset_from_raw, attr_ranges_offset, die_ranges,  *)
(*     unit_ranges, attr_locations_offset, locations.                      *)
(*                                                                         *)
(* Every 64-bit quantity (addresses, ULEB operands, offsets) is a BV of    *)
(* width 8, exactly gimli's u64; an address of size asz is zero-extended.  *)
(* Positions in a section are 1-based TLA+ sequence indices (offset + 1).  *)
(***************************************************************************)
EXTENDS Leb

Z8 == <<0, 0, 0, 0, 0, 0, 0, 0>>
N8(n) == IF n < 256 THEN <<n, 0, 0, 0, 0, 0, 0, 0>> ELSE FromNat(n, 8)
(* constant tables (TLC evaluates them once) *)
OnesTab == [a \in {1, 2, 4, 8} |-> ZExt(Ones(a), 8)]
TombTab == [a \in {1, 2, 4, 8} |-> Sub(ZExt(Ones(a), 8), One(8))]
OnesSized(asz) == OnesTab[asz]                       \* ReaderAddress::ones_sized
MinTomb(asz)   == TombTab[asz]                       \* ReaderAddress::min_tombstone = 2^W - 2
WrapAdd(a, l, asz) == ZExt(Trunc(Add(a, l), asz), 8) \* ReaderAddress::wrapping_add_sized
(* unsigned a < b on equal-width tuples (BV!ULt without the recursion) *)
Lt(a, b) == LET D == {i \in DOMAIN a : a[i] # b[i]} IN
            D # {} /\ LET m == CHOOSE i \in D : \A j \in D : j <= i IN a[m] < b[m]
Min2(a, b) == IF a < b THEN a ELSE b
SmallNat(v) == FitsNat(v)                            \* v < 2^31: usable as a TLC integer

(*--------------------------------------------------------------------------*)
(* Configuration: [fam, ver, asz, fmt, dwo, le]                             *)
(*   fam  "rng" | "loc"      ver 2..5      asz 1|2|4|8      fmt 32|64       *)
(*   dwo  TRUE: DwarfFileType::Dwo         le  TRUE: little endian          *)
(* List format selected by RangeLists::raw_ranges / LocationLists::         *)
(* raw_locations / raw_locations_dwo.                                       *)
ListFormat(cf) ==
    IF cf.fam = "rng" THEN (IF cf.ver <= 4 THEN "bare" ELSE "coded")
    ELSE IF cf.dwo THEN "coded"
    ELSE IF cf.ver <= 4 THEN "bare" ELSE "coded"

RleKinds == <<"basex", "sxex", "sxlen", "opair", "base", "se", "slen">>             \* DW_RLE_ 1..7
LleKinds == <<"basex", "sxex", "sxlen", "opair", "defloc", "base", "se", "slen">>   \* DW_LLE_ 1..8
CodedKinds(cf) == IF cf.fam = "rng" THEN RleKinds ELSE LleKinds
KindCode(k, cf) == CHOOSE i \in DOMAIN CodedKinds(cf) : CodedKinds(cf)[i] = k

(* Abstract raw entry, mirrors RawRngListEntry / RawLocListEntry:           *)
(*   k    "pair" (AddressOrOffsetPair) | "base" | "basex" | "sxex" |        *)
(*        "sxlen" | "opair" | "defloc" | "se" | "slen"                      *)
(*   a, b first and second operand as u64 (Z8 when absent)                  *)
(*   d    expression bytes (<<>> for range lists and base entries)          *)
Ent(k, a, b, d) == [k |-> k, a |-> a, b |-> b, d |-> d]

(* operand syntax: "a" address, "u" ULEB128, "w" fixed 4 bytes             *)
OpSpec(k, cf) ==
    CASE k = "pair"   -> <<"a", "a">>
      [] k = "basex"  -> <<"u">>
      [] k = "sxex"   -> <<"u", "u">>
      [] k = "sxlen"  -> IF cf.fam = "loc" /\ cf.ver < 5 THEN <<"u", "w">> ELSE <<"u", "u">>
      [] k = "opair"  -> <<"u", "u">>
      [] k = "defloc" -> <<>>
      [] k = "base"   -> <<"a">>
      [] k = "se"     -> <<"a", "a">>
      [] k = "slen"   -> <<"a", "u">>
HasData(k, cf) == cf.fam = "loc" /\ k \notin {"base", "basex"}
KindsOf(cf) == IF ListFormat(cf) = "bare" THEN {"pair", "base"}
               ELSE {CodedKinds(cf)[i] : i \in DOMAIN CodedKinds(cf)}

(*--------------------------------------------------------------------------*)
(* Encoders (the wire format).                                              *)
Fld(v, n, le) == IF le THEN Trunc(v, n) ELSE Reverse(Trunc(v, n))
(* canonical ULEB128 of a u64: Leb!EncU; small values by integer arithmetic  *)
(* (same function, MCLists asserts the agreement on its operand alphabet)    *)
RECURSIVE ULebNat(_)
ULebNat(n) == IF n < 128 THEN <<n>> ELSE <<(n % 128) + 128>> \o ULebNat(n \div 128)
ULeb(v) == IF SmallNat(v) THEN ULebNat(ToNat(v)) ELSE EncU(v)
EncOp(t, v, cf) == CASE t = "u" -> ULeb(v)
                     [] t = "a" -> Fld(v, cf.asz, cf.le)
                     [] t = "w" -> Fld(v, 4, cf.le)
(* counted expression: ULEB length in v5, fixed 2 bytes before (legacy     *)
(* pair format and the GNU split-DWARF extension)                           *)
EncData(d, cf) == (IF cf.ver >= 5 /\ ListFormat(cf) = "coded" THEN ULeb(N8(Len(d)))
                   ELSE Fld(N8(Len(d)), 2, cf.le)) \o d
EncOps(e, cf) == LET sp == OpSpec(e.k, cf) IN
                 (IF Len(sp) >= 1 THEN EncOp(sp[1], e.a, cf) ELSE <<>>) \o
                 (IF Len(sp) >= 2 THEN EncOp(sp[2], e.b, cf) ELSE <<>>)
EncEntry(e, cf) ==
    IF ListFormat(cf) = "bare" THEN
        IF e.k = "base" THEN Fld(OnesSized(cf.asz), cf.asz, cf.le) \o Fld(e.a, cf.asz, cf.le)
        ELSE EncOps(e, cf) \o (IF HasData(e.k, cf) THEN EncData(e.d, cf) ELSE <<>>)
    ELSE <<KindCode(e.k, cf)>> \o EncOps(e, cf) \o (IF HasData(e.k, cf) THEN EncData(e.d, cf) ELSE <<>>)
EncEnd(cf) == IF ListFormat(cf) = "bare" THEN Zero(2 * cf.asz) ELSE <<0>>
RECURSIVE EncEntries(_, _)
EncEntries(L, cf) == IF L = <<>> THEN <<>> ELSE EncEntry(Head(L), cf) \o EncEntries(Tail(L), cf)
EncList(L, cf) == EncEntries(L, cf) \o EncEnd(cf)

(* An entry survives a round trip through the wire format iff its operands  *)
(* fit their fields and it is not mistaken for a terminator / selector.     *)
FitsBytes(v, n) == \A i \in DOMAIN v : i > n => v[i] = 0
OpFits(t, v, cf) == CASE t = "u" -> TRUE [] t = "a" -> FitsBytes(v, cf.asz) [] t = "w" -> FitsBytes(v, 4)
Representable(e, cf) ==
    LET sp == OpSpec(e.k, cf) IN
    /\ e.k \in KindsOf(cf)
    /\ (Len(sp) >= 1 => OpFits(sp[1], e.a, cf)) /\ (Len(sp) < 1 => e.a = Z8)
    /\ (Len(sp) >= 2 => OpFits(sp[2], e.b, cf)) /\ (Len(sp) < 2 => e.b = Z8)
    /\ (HasData(e.k, cf) \/ e.d = <<>>)
    /\ (HasData(e.k, cf) /\ ~(cf.ver >= 5 /\ ListFormat(cf) = "coded") => Len(e.d) < 65536)
    /\ (ListFormat(cf) = "bare" /\ e.k = "pair" =>
            /\ e.a # OnesSized(cf.asz)                   \* would be a base selector
            /\ ~(IsZero(e.a) /\ IsZero(e.b)))            \* would be the terminator

(*--------------------------------------------------------------------------*)
(* Reader primitives on (section bytes s, position p).                      *)
REof == [ok |-> FALSE, err |-> "UnexpectedEof"]
RErr(e) == [ok |-> FALSE, err |-> e]
ROk(v, p) == [ok |-> TRUE, v |-> v, p |-> p]

RdFixed(s, p, n, le) == IF p + n - 1 > Len(s) THEN REof
                        ELSE IF n = 1 THEN ROk(N8(s[p]), p + 1)
                        ELSE ROk(ZExt(FieldVal(SubSeq(s, p, p + n - 1), le), 8), p + n)
RdAddr(s, p, asz, le) == IF asz \notin {1, 2, 4, 8} THEN RErr("UnsupportedAddressSize")
                         ELSE RdFixed(s, p, asz, le)
RdULeb(s, p) == IF p <= Len(s) /\ s[p] < 128 THEN ROk(N8(s[p]), p + 1) ELSE   \* one-byte fast path of the same machine
                LET m == Fin(RunU(MInit, SubSeq(s, p, Min2(Len(s), p + 10)), 1)) IN
                IF m.st = "ok" THEN ROk(m.res, p + m.n)
                ELSE IF m.st = "bad" THEN RErr("BadUnsignedLeb128") ELSE REof
(* Reader::split(len): the next len bytes *)
RdSplit(s, p, len) == IF SmallNat(len) /\ ToNat(len) <= Len(s) - p + 1
                      THEN ROk(SubSeq(s, p, p + ToNat(len) - 1), p + ToNat(len)) ELSE REof
RdOp(t, s, p, cf) == CASE t = "u" -> RdULeb(s, p)
                       [] t = "a" -> RdAddr(s, p, cf.asz, cf.le)
                       [] t = "w" -> RdFixed(s, p, 4, cf.le)
(* loclists.rs parse_data / the u16-counted block of the pair format *)
RdData(s, p, cf, uleb) == LET l == IF uleb THEN RdULeb(s, p) ELSE RdFixed(s, p, 2, cf.le) IN
                          IF ~l.ok THEN l ELSE RdSplit(s, l.p, l.v)

(*--------------------------------------------------------------------------*)
(* Raw entry decode as coded.  Result: [r |-> "entry", e, p] |              *)
(* [r |-> "end", p] | [r |-> "err", err].                                   *)
DEnt(e, p) == [r |-> "entry", e |-> e, p |-> p]
DEnd(p)    == [r |-> "end", p |-> p]
DErr(x)    == [r |-> "err", err |-> x]

(* operands (per OpSpec) followed by the optional counted expression *)
DecOperands(k, s, p, cf) ==
    LET sp == OpSpec(k, cf)
        r1 == IF Len(sp) >= 1 THEN RdOp(sp[1], s, p, cf) ELSE ROk(Z8, p) IN
    IF ~r1.ok THEN DErr(r1.err) ELSE
    LET r2 == IF Len(sp) >= 2 THEN RdOp(sp[2], s, r1.p, cf) ELSE ROk(Z8, r1.p) IN
    IF ~r2.ok THEN DErr(r2.err) ELSE
    IF ~HasData(k, cf) THEN DEnt(Ent(k, r1.v, r2.v, <<>>), r2.p) ELSE
    LET d == RdData(s, r2.p, cf, cf.ver >= 5) IN
    IF ~d.ok THEN DErr(d.err) ELSE DEnt(Ent(k, r1.v, r2.v, d.v), d.p)

DecBare(s, p, cf) ==
    LET b == RdAddr(s, p, cf.asz, cf.le) IN IF ~b.ok THEN DErr(b.err) ELSE
    LET e == RdAddr(s, b.p, cf.asz, cf.le) IN IF ~e.ok THEN DErr(e.err) ELSE
    IF IsZero(b.v) /\ IsZero(e.v) THEN DEnd(e.p)                               \* RawRange::is_end
    ELSE IF b.v = OnesSized(cf.asz) THEN DEnt(Ent("base", e.v, Z8, <<>>), e.p) \* is_base_address
    ELSE IF cf.fam = "rng" THEN DEnt(Ent("pair", b.v, e.v, <<>>), e.p)
    ELSE LET d == RdData(s, e.p, cf, FALSE) IN
         IF ~d.ok THEN DErr(d.err) ELSE DEnt(Ent("pair", b.v, e.v, d.v), d.p)

DecCoded(s, p, cf) ==
    IF p > Len(s) THEN DErr("UnexpectedEof") ELSE
    LET c == s[p] IN
    IF c = 0 THEN DEnd(p + 1)
    ELSE IF c > Len(CodedKinds(cf)) THEN
         DErr(IF cf.fam = "rng" THEN "UnknownRangeListsEntry" ELSE "UnknownLocListsEntry")
    ELSE DecOperands(CodedKinds(cf)[c], s, p + 1, cf)

Dec(s, p, cf) == IF ListFormat(cf) = "bare" THEN DecBare(s, p, cf) ELSE DecCoded(s, p, cf)

(*--------------------------------------------------------------------------*)
(* DebugAddr::get_address(address_size, base, index); A = [sec, base].      *)
(* index * address_size is a checked u64 multiplication (UnsupportedOffset  *)
(* when it leaves u64).                                                     *)
U64Mul(x, n) == IF SmallNat(x) /\ ToNat(x) < 16777216 THEN [ovf |-> FALSE, v |-> N8(ToNat(x) * n)]
                ELSE LET w == MulWide(x, N8(n)) IN
                     [ovf |-> ~IsZero(SubSeq(w, 9, 16)), v |-> Trunc(w, 8)]
(* skip(base) then skip(index * scale); yields the position or an error;    *)
(* ovfErr names what the code does when the product leaves u64              *)
SkipBaseIndex(sec, base, idx, scale, ovfErr) ==
    IF ~(SmallNat(base) /\ ToNat(base) <= Len(sec)) THEN REof ELSE
    LET m == U64Mul(idx, scale) IN
    IF m.ovf THEN RErr(ovfErr) ELSE
    IF ~(SmallNat(m.v) /\ ToNat(m.v) <= Len(sec) - ToNat(base)) THEN REof
    ELSE ROk(Z8, ToNat(base) + ToNat(m.v) + 1)
GetAddress(A, cf, idx) ==
    LET q == SkipBaseIndex(A.sec, A.base, idx, cf.asz, "UnsupportedOffset") IN
    IF ~q.ok THEN q ELSE RdAddr(A.sec, q.p, cf.asz, cf.le)

(* RangeLists::get_offset / LocationLists::get_offset on the v5 section:    *)
(* base + the index-th format-sized word after base.  index * word_size is  *)
(* a checked multiplication (UnsupportedOffset), base + x wraps (usize).    *)
GetOffset(sec, cf, base, idx) ==
    LET ws == IF cf.fmt = 64 THEN 8 ELSE 4
        q  == SkipBaseIndex(sec, base, idx, ws, "UnsupportedOffset") IN
    IF ~q.ok THEN q ELSE
    LET x == RdFixed(sec, q.p, ws, cf.le) IN
    IF ~x.ok THEN x
    ELSE ROk(Add(base, x.v), 0)

(*--------------------------------------------------------------------------*)
(* convert_raw: one raw entry, the running base address -> nothing / a      *)
(* range (with data) / an address-table error.                              *)
CNone(base)             == [t |-> "none", base |-> base]
CSome(base, bg, en, d)  == [t |-> "some", base |-> base, begin |-> bg, end |-> en, d |-> d]
CErr(base, x)           == [t |-> "err", base |-> base, err |-> x]

Convert(e, base, cf, A) ==
    LET asz  == cf.asz
        tomb == MinTomb(asz)
        Filt(bg, en) == IF ~Lt(bg, tomb) \/ ~Lt(bg, en) THEN CNone(base)
                        ELSE CSome(base, bg, en, e.d)
    IN
    CASE e.k = "base"  -> CNone(e.a)
      [] e.k = "basex" -> LET r == GetAddress(A, cf, e.a) IN
                          IF r.ok THEN CNone(r.v) ELSE CErr(base, r.err)
      [] e.k = "sxex"  -> LET r1 == GetAddress(A, cf, e.a) IN
                          IF ~r1.ok THEN CErr(base, r1.err) ELSE
                          LET r2 == GetAddress(A, cf, e.b) IN
                          IF ~r2.ok THEN CErr(base, r2.err) ELSE Filt(r1.v, r2.v)
      [] e.k = "sxlen" -> LET r1 == GetAddress(A, cf, e.a) IN
                          IF ~r1.ok THEN CErr(base, r1.err)
                          ELSE Filt(r1.v, WrapAdd(r1.v, e.b, asz))
      [] e.k = "defloc" -> Filt(Z8, Ones(8))                  \* Range { 0, u64::MAX }
      [] e.k \in {"pair", "opair"} ->
                          IF ~Lt(base, tomb) THEN CNone(base)  \* tombstone base address
                          ELSE Filt(WrapAdd(base, e.a, asz), WrapAdd(base, e.b, asz))
      [] e.k = "se"    -> Filt(e.a, e.b)
      [] e.k = "slen"  -> Filt(e.a, WrapAdd(e.a, e.b, asz))

(*--------------------------------------------------------------------------*)
(* Iterator machines.  State: [p, done, base].  Results:                    *)
(*   raw:  [t |-> "none"] | [t |-> "some", e] | [t |-> "err", err]          *)
(*   res:  [t |-> "none"] | [t |-> "some", begin, end, d] | [t |-> "err"]   *)
ItInit(off, base) == [p |-> off + 1, done |-> FALSE, base |-> base]
RNone == [t |-> "none"]
RawNext(s, st, cf) ==
    IF st.done \/ st.p > Len(s) THEN [res |-> RNone, st |-> st]        \* input.is_empty()
    ELSE LET d == Dec(s, st.p, cf) IN
         CASE d.r = "entry" -> [res |-> [t |-> "some", e |-> d.e], st |-> [st EXCEPT !.p = d.p]]
           [] d.r = "end"   -> [res |-> RNone, st |-> [st EXCEPT !.done = TRUE]]
           [] d.r = "err"   -> [res |-> [t |-> "err", err |-> d.err], st |-> [st EXCEPT !.done = TRUE]]

RECURSIVE IterNext(_, _, _, _)
IterNext(s, st, cf, A) ==
    LET rw == RawNext(s, st, cf) IN
    IF rw.res.t # "some" THEN rw
    ELSE LET c  == Convert(rw.res.e, rw.st.base, cf, A)
             s2 == [rw.st EXCEPT !.base = c.base] IN
         CASE c.t = "none" -> IterNext(s, s2, cf, A)
           [] c.t = "some" -> [res |-> [t |-> "some", begin |-> c.begin, end |-> c.end, d |-> c.d], st |-> s2]
           [] c.t = "err"  -> [res |-> [t |-> "err", err |-> c.err], st |-> s2]   \* not fused: raw continues

(* all results of calling next() until it returns None *)
RECURSIVE RawAll(_, _, _)
RawAll(s, st, cf) == LET r == RawNext(s, st, cf) IN
                     IF r.res.t = "none" THEN <<>> ELSE <<r.res>> \o RawAll(s, r.st, cf)
RECURSIVE IterAll(_, _, _, _)
IterAll(s, st, cf, A) == LET r == IterNext(s, st, cf, A) IN
                         IF r.res.t = "none" THEN <<>> ELSE <<r.res>> \o IterAll(s, r.st, cf, A)

(* RangeLists::raw_ranges etc.: input.skip(offset) may fail *)
OpenAt(s, off) == SmallNat(off) /\ ToNat(off) <= Len(s)
RawRun(s, off, cf) == IF ~OpenAt(s, off) THEN [open |-> FALSE, items |-> <<>>]
                      ELSE [open |-> TRUE, items |-> RawAll(s, ItInit(ToNat(off), Z8), cf)]
ResRun(s, off, base, cf, A) == IF ~OpenAt(s, off) THEN [open |-> FALSE, items |-> <<>>]
                               ELSE [open |-> TRUE, items |-> IterAll(s, ItInit(ToNat(off), base), cf, A)]

(* The clause that must hold for ANY input: every yielded range is          *)
(* non-empty and begins below the tombstone addresses.                      *)
YieldOk(r, cf) == r.t = "some" => ULt(r.begin, r.end) /\ ULt(r.begin, Sub(ZExt(Ones(cf.asz), 8), One(8)))
AllYieldsOk(items, cf) == \A i \in DOMAIN items : YieldOk(items[i], cf)

(*--------------------------------------------------------------------------*)
(* The standard's resolution (DWARF 5 2.17.3 / 2.6.2, DWARF 4 2.17.3 /      *)
(* 2.6.2), written independently: declarative over entry indices, integer   *)
(* arithmetic (valid for asz <= 2 where every address is a TLC integer).    *)
(* T: address table as a sequence of integers; ub: unit base address.       *)
IsBaseSel(e) == e.k \in {"base", "basex"}
StdBaseAt(L, i, ub, T) ==
    LET J == {j \in 1..(i - 1) : IsBaseSel(L[j])} IN
    IF J = {} THEN ub
    ELSE LET j == CHOOSE j \in J : \A k \in J : k <= j IN
         IF L[j].k = "base" THEN ToNat(L[j].a) ELSE T[ToNat(L[j].a) + 1]
StdBegin(L, i, ub, T) ==
    LET e == L[i] IN
    CASE e.k \in {"pair", "opair"} -> StdBaseAt(L, i, ub, T) + ToNat(e.a)
      [] e.k \in {"se", "slen"}    -> ToNat(e.a)
      [] e.k \in {"sxex", "sxlen"} -> T[ToNat(e.a) + 1]
      [] e.k = "defloc"            -> 0
StdEnd(L, i, ub, T) ==
    LET e == L[i] IN
    CASE e.k \in {"pair", "opair"} -> StdBaseAt(L, i, ub, T) + ToNat(e.b)
      [] e.k = "se"                -> ToNat(e.b)
      [] e.k = "slen"              -> ToNat(e.a) + ToNat(e.b)
      [] e.k = "sxex"              -> T[ToNat(e.b) + 1]
      [] e.k = "sxlen"             -> T[ToNat(e.a) + 1] + ToNat(e.b)
      [] e.k = "defloc"            -> 1
(* Well-formed: every quantity is an in-range integer, indices are inside   *)
(* the table, no sum leaves the address space, begin <= end, and nothing    *)
(* touches the two reserved tombstone addresses.                            *)
StdWF(L, ub, T, asz) ==
    LET top == 256 ^ asz - 2 IN      \* first tombstone address
    /\ asz <= 2
    /\ \A i \in DOMAIN L :
        LET e == L[i] IN
        /\ SmallNat(e.a) /\ SmallNat(e.b) /\ ToNat(e.a) < 65536 /\ ToNat(e.b) < 65536
        /\ (e.k \in {"basex", "sxex", "sxlen"} => ToNat(e.a) < Len(T))
        /\ (e.k = "sxex" => ToNat(e.b) < Len(T))
        /\ (~IsBaseSel(e) /\ e.k # "defloc" =>
               LET bg == StdBegin(L, i, ub, T)
                   en == StdEnd(L, i, ub, T) IN
               bg <= en /\ en <= top + 1 /\ (bg = en \/ bg < top))
(* the list's meaning: one (begin, end, expression) per entry that denotes  *)
(* a non-empty range, in list order; default location = "everything"        *)
RECURSIVE StdFrom(_, _, _, _)
StdFrom(L, i, ub, T) ==
    IF i > Len(L) THEN <<>>
    ELSE LET e == L[i]
             rest == StdFrom(L, i + 1, ub, T) IN
         IF IsBaseSel(e) THEN rest
         ELSE IF e.k = "defloc" THEN <<[t |-> "some", begin |-> Z8, end |-> Ones(8), d |-> e.d]>> \o rest
         ELSE IF StdBegin(L, i, ub, T) = StdEnd(L, i, ub, T) THEN rest
         ELSE <<[t |-> "some", begin |-> N8(StdBegin(L, i, ub, T)),
                 end |-> N8(StdEnd(L, i, ub, T)), d |-> e.d]>> \o rest
StdResolve(L, ub, T) == StdFrom(L, 1, ub, T)

(*--------------------------------------------------------------------------*)
(* v5 section layout: header, offset table, lists.                          *)
HeaderSize(cf) == IF cf.fmt = 64 THEN 20 ELSE 12       \* ListsHeader::size_for_encoding
OffWord(v, cf) == Fld(v, IF cf.fmt = 64 THEN 8 ELSE 4, cf.le)
EncInitLen(n, cf) == IF cf.fmt = 64 THEN <<255, 255, 255, 255>> \o Fld(N8(n), 8, cf.le)
                     ELSE Fld(N8(n), 4, cf.le)
RECURSIVE Concat(_)
Concat(ss) == IF ss = <<>> THEN <<>> ELSE Head(ss) \o Concat(Tail(ss))
RECURSIVE SumLen(_, _)
SumLen(ss, n) == IF n = 0 THEN 0 ELSE Len(ss[n]) + SumLen(ss, n - 1)
(* lists: sequence of encoded lists; the table has one offset per list,     *)
(* relative to the first byte after the header                              *)
EncListsSection(lists, cf) ==
    LET n    == Len(lists)
        ws   == IF cf.fmt = 64 THEN 8 ELSE 4
        tab  == Concat([i \in 1..n |-> OffWord(N8(n * ws + SumLen(lists, i - 1)), cf)])
        body == tab \o Concat(lists)
        rest == Fld(N8(5), 2, cf.le) \o <<cf.asz, 0>> \o Fld(N8(n), 4, cf.le) \o body
    IN EncInitLen(Len(rest), cf) \o rest

(*--------------------------------------------------------------------------*)
(* Attribute-level helpers.  Attributes are [at, form, v] with v a BV8 (or  *)
(* expression bytes for exprloc).                                           *)
AtCode == [location |-> 2, low_pc |-> 17, high_pc |-> 18, ranges |-> 85, addr_base |-> 115,
           rnglists_base |-> 116, loclists_base |-> 140, GNU_ranges_base |-> 8498,
           GNU_addr_base |-> 8499, name |-> 3]
FormCode == [addr |-> 1, data2 |-> 5, data4 |-> 6, data8 |-> 7, data1 |-> 11, sdata |-> 13,
             udata |-> 15, sec_offset |-> 23, exprloc |-> 24, addrx |-> 27, loclistx |-> 34,
             rnglistx |-> 35, GNU_addr_index |-> 7937, flag_present |-> 25]

EncFormVal(form, v, cf) ==
    CASE form = "addr"  -> Fld(v, cf.asz, cf.le)
      [] form = "data1" -> Fld(v, 1, cf.le)
      [] form = "data2" -> Fld(v, 2, cf.le)
      [] form = "data4" -> Fld(v, 4, cf.le)
      [] form = "data8" -> Fld(v, 8, cf.le)
      [] form = "udata" -> ULeb(v)
      [] form = "sdata" -> EncS(v)
      [] form = "sec_offset" -> OffWord(v, cf)
      [] form \in {"addrx", "rnglistx", "loclistx", "GNU_addr_index"} -> ULeb(v)
      [] form = "exprloc" -> ULeb(N8(Len(v))) \o v
      [] form = "flag_present" -> <<>>

(* .debug_abbrev with the single abbreviation 1 = DW_TAG_compile_unit, no   *)
(* children, and .debug_info with one unit whose root DIE carries attrs.  *)
EncAbbrev(attrs) ==
    <<1, 17, 0>> \o Concat([i \in 1..Len(attrs) |->
         ULeb(N8(AtCode[attrs[i].at])) \o ULeb(N8(FormCode[attrs[i].form]))]) \o <<0, 0, 0>>
(* ut: DWARF 5 unit type (1 compile, 4 skeleton, 5 split_compile; 4 and 5 carry a dwo id) *)
EncUnitT(attrs, cf, ut) ==
    LET die  == <<1>> \o Concat([i \in 1..Len(attrs) |-> EncFormVal(attrs[i].form, attrs[i].v, cf)])
        ow   == IF cf.fmt = 64 THEN 8 ELSE 4
        hdr  == IF cf.ver >= 5
                THEN Fld(N8(cf.ver), 2, cf.le) \o <<ut>>
                     \o <<cf.asz>> \o OffWord(Z8, cf)
                     \o (IF ut \in {4, 5} THEN <<1, 2, 3, 4, 5, 6, 7, 8>> ELSE <<>>)   \* dwo_id
                ELSE Fld(N8(cf.ver), 2, cf.le) \o OffWord(Z8, cf) \o <<cf.asz>>
    IN EncInitLen(Len(hdr) + Len(die), cf) \o hdr \o die
EncUnit(attrs, cf) == EncUnitT(attrs, cf, IF cf.dwo THEN 5 ELSE 1)   \* DW_UT_split_compile / DW_UT_compile

(* parse_attribute + Attribute::value(): the normalised value               *)
AllowSecOff(at) == at \in {"location", "ranges"}
AV(c, v) == [c |-> c, v |-> v]
AttrValue(a, cf) ==
    LET raw ==
        CASE a.form = "addr" -> AV("Addr", ZExt(Trunc(a.v, cf.asz), 8))
          [] a.form \in {"addrx", "GNU_addr_index"} -> AV("AddrIndex", a.v)
          [] a.form = "data1" -> AV("Data", ZExt(Trunc(a.v, 1), 8))
          [] a.form = "data2" -> AV("Data", ZExt(Trunc(a.v, 2), 8))
          [] a.form = "data4" -> IF cf.fmt = 32 /\ AllowSecOff(a.at) THEN AV("SecOffset", ZExt(Trunc(a.v, 4), 8))
                                 ELSE AV("Data", ZExt(Trunc(a.v, 4), 8))
          [] a.form = "data8" -> IF cf.fmt = 64 /\ AllowSecOff(a.at) THEN AV("SecOffset", a.v)
                                 ELSE AV("Data", a.v)
          [] a.form = "udata" -> AV("Data", a.v)
          [] a.form = "sdata" -> IF IsNeg(a.v) THEN AV("NegSdata", a.v) ELSE AV("Data", a.v)
          [] a.form = "sec_offset" -> AV("SecOffset", IF cf.fmt = 64 THEN a.v ELSE ZExt(Trunc(a.v, 4), 8))
          [] a.form = "rnglistx" -> AV("RngIndex", a.v)
          [] a.form = "loclistx" -> AV("LocIndex", a.v)
          [] a.form = "exprloc" -> AV("Exprloc", a.v)
          [] a.form = "flag_present" -> AV("Flag", Z8)
    IN
    CASE a.at = "high_pc" /\ raw.c = "Data" -> AV("Udata", raw.v)
      [] a.at = "ranges" /\ raw.c = "SecOffset" -> AV("RangeListsRef", raw.v)
      [] a.at = "location" /\ raw.c = "SecOffset" -> AV("LocationListsRef", raw.v)
      [] a.at \in {"addr_base", "GNU_addr_base"} /\ raw.c = "SecOffset" -> AV("DebugAddrBase", raw.v)
      [] a.at \in {"rnglists_base", "GNU_ranges_base"} /\ raw.c = "SecOffset" -> AV("DebugRngListsBase", raw.v)
      [] a.at = "loclists_base" /\ raw.c = "SecOffset" -> AV("DebugLocListsBase", raw.v)
      [] OTHER -> raw

(* File = the sections: [addr, ranges, rnglists, loc, loclists : bytes]     *)
(* Unit::new: fields of the unit taken from the root DIE.                   *)
LastIdx(S) == IF S = {} THEN 0 ELSE CHOOSE i \in S : \A j \in S : j <= i
UnitField(attrs, cf, ats, class, default) ==
    LET i == LastIdx({j \in 1..Len(attrs) : attrs[j].at \in ats /\ AttrValue(attrs[j], cf).c = class}) IN
    IF i = 0 THEN default ELSE AttrValue(attrs[i], cf).v
DefaultListsBase(cf) == IF cf.ver >= 5 /\ cf.dwo THEN N8(HeaderSize(cf)) ELSE Z8
(* result: [ok, u] with u = [low_pc, addr_base, rnglists_base, loclists_base] *)
UnitNew(attrs, cf, F) ==
    LET ab  == UnitField(attrs, cf, {"addr_base", "GNU_addr_base"}, "DebugAddrBase", Z8)
        rb  == UnitField(attrs, cf, {"rnglists_base", "GNU_ranges_base"}, "DebugRngListsBase", DefaultListsBase(cf))
        lb  == UnitField(attrs, cf, {"loclists_base"}, "DebugLocListsBase", DefaultListsBase(cf))
        il  == LastIdx({j \in 1..Len(attrs) : attrs[j].at = "low_pc"})
        u0  == [low_pc |-> Z8, addr_base |-> ab, rnglists_base |-> rb, loclists_base |-> lb] IN
    IF il = 0 THEN [ok |-> TRUE, u |-> u0] ELSE
    LET lv == AttrValue(attrs[il], cf) IN
    CASE lv.c = "Addr" -> [ok |-> TRUE, u |-> [u0 EXCEPT !.low_pc = lv.v]]
      [] lv.c = "AddrIndex" ->
            LET r == GetAddress([sec |-> F.addr, base |-> ab], cf, lv.v) IN
            IF r.ok THEN [ok |-> TRUE, u |-> [u0 EXCEPT !.low_pc = r.v]] ELSE [ok |-> FALSE, err |-> r.err]
      [] OTHER -> [ok |-> TRUE, u |-> u0]

(* Split DWARF plumbing.  Dwarf::make_dwo(parent): the .dwo file takes       *)
(* .debug_addr and .debug_ranges from the file of the skeleton unit.         *)
(* Unit::copy_relocated_attributes(skeleton): low_pc and addr_base always;   *)
(* the (GNU) ranges base only before DWARF 5 -- a DWARF 5 split unit keeps   *)
(* the default base just past the header of its own .debug_rnglists.dwo, and *)
(* loclists_base is never copied.                                            *)
MakeDwo(F, PF) == [F EXCEPT !.addr = PF.addr, !.ranges = PF.ranges]
CopyRelocated(u, sk, cf) ==
    [u EXCEPT !.low_pc = sk.low_pc, !.addr_base = sk.addr_base,
              !.rnglists_base = IF cf.ver < 5 THEN sk.rnglists_base ELSE @]

AddrTab(F, u) == [sec |-> F.addr, base |-> u.addr_base]
(* Dwarf::attr_address *)
AttrAddress(val, cf, F, u) ==
    CASE val.c = "Addr" -> [ok |-> TRUE, some |-> TRUE, v |-> val.v]
      [] val.c = "AddrIndex" -> LET r == GetAddress(AddrTab(F, u), cf, val.v) IN
                                IF r.ok THEN [ok |-> TRUE, some |-> TRUE, v |-> r.v] ELSE [ok |-> FALSE, err |-> r.err]
      [] OTHER -> [ok |-> TRUE, some |-> FALSE]
(* Dwarf::ranges_offset_from_raw *)
RangesOffsetFromRaw(off, cf, u) == IF cf.dwo /\ cf.ver < 5 THEN Add(off, u.rnglists_base) ELSE off
(* Dwarf::attr_ranges_offset: [ok, some, v] *)
AttrRangesOffset(val, cf, F, u) ==
    CASE val.c = "RangeListsRef" -> [ok |-> TRUE, some |-> TRUE, v |-> RangesOffsetFromRaw(val.v, cf, u)]
      [] val.c = "RngIndex" -> LET r == GetOffset(F.rnglists, cf, u.rnglists_base, val.v) IN
                               IF r.ok THEN [ok |-> TRUE, some |-> TRUE, v |-> r.v] ELSE [ok |-> FALSE, err |-> r.err]
      [] OTHER -> [ok |-> TRUE, some |-> FALSE]
AttrLocationsOffset(val, cf, F, u) ==
    CASE val.c = "LocationListsRef" -> [ok |-> TRUE, some |-> TRUE, v |-> val.v]
      [] val.c = "LocIndex" -> LET r == GetOffset(F.loclists, cf, u.loclists_base, val.v) IN
                               IF r.ok THEN [ok |-> TRUE, some |-> TRUE, v |-> r.v] ELSE [ok |-> FALSE, err |-> r.err]
      [] OTHER -> [ok |-> TRUE, some |-> FALSE]
RngCf(cf) == [cf EXCEPT !.fam = "rng"]
LocCf(cf) == [cf EXCEPT !.fam = "loc"]
RngSection(cf, F) == IF cf.ver <= 4 THEN F.ranges ELSE F.rnglists
LocSection(cf, F) == IF cf.ver <= 4 THEN F.loc ELSE F.loclists
(* Dwarf::ranges(unit, offset) / Dwarf::locations(unit, offset), iterated to the end *)
RangesAt(off, cf, F, u) == ResRun(RngSection(cf, F), off, u.low_pc, RngCf(cf), AddrTab(F, u))
LocationsAt(off, cf, F, u) == ResRun(LocSection(cf, F), off, u.low_pc, LocCf(cf), AddrTab(F, u))
(* Dwarf::raw_ranges(unit, offset) / Dwarf::raw_locations(unit, offset): the raw iterators  *)
(* at the Dwarf / UnitRef level; raw_locations dispatches on the file type like locations   *)
(* (a .dwo file reads .debug_loc with the DW_LLE codes: ListFormat(LocCf(cf)) with cf.dwo)  *)
RawRangesAt(off, cf, F) == RawRun(RngSection(cf, F), off, RngCf(cf))
RawLocationsAt(off, cf, F) == RawRun(LocSection(cf, F), off, LocCf(cf))

(* Dwarf::die_ranges as coded: attributes in order; DW_AT_ranges wins as    *)
(* soon as it is met; a constant high_pc is an offset from low_pc, added   *)
(* with address-size wrap-around (wrapping_add_sized).                     *)
(* state: [lo, hi, size] each [some, v]                                      *)
NoneV == [some |-> FALSE, v |-> Z8]
SomeV(v) == [some |-> TRUE, v |-> v]
DRErr(x) == [t |-> "err", err |-> x]
RECURSIVE DieRangesFrom(_, _, _, _, _, _)
DieRangesFrom(attrs, i, acc, cf, F, u) ==
    IF i > Len(attrs) THEN
        IF ~acc.lo.some THEN [t |-> "single", some |-> FALSE]
        ELSE IF acc.size.some THEN
             [t |-> "single", some |-> TRUE, begin |-> acc.lo.v, end |-> WrapAdd(acc.lo.v, acc.size.v, cf.asz)]
        ELSE IF acc.hi.some THEN [t |-> "single", some |-> TRUE, begin |-> acc.lo.v, end |-> acc.hi.v]
        ELSE [t |-> "single", some |-> FALSE]
    ELSE
    LET a == attrs[i]
        val == AttrValue(a, cf) IN
    CASE a.at = "low_pc" ->
            LET r == AttrAddress(val, cf, F, u) IN
            IF ~r.ok THEN DRErr(r.err)
            ELSE IF ~r.some THEN DRErr("UnsupportedAttributeForm")
            ELSE DieRangesFrom(attrs, i + 1, [acc EXCEPT !.lo = SomeV(r.v)], cf, F, u)
      [] a.at = "high_pc" ->
            IF val.c = "Udata" THEN DieRangesFrom(attrs, i + 1, [acc EXCEPT !.size = SomeV(val.v)], cf, F, u)
            ELSE LET r == AttrAddress(val, cf, F, u) IN
                 IF ~r.ok THEN DRErr(r.err)
                 ELSE IF ~r.some THEN DRErr("UnsupportedAttributeForm")
                 ELSE DieRangesFrom(attrs, i + 1, [acc EXCEPT !.hi = SomeV(r.v)], cf, F, u)
      [] a.at = "ranges" ->
            LET o == AttrRangesOffset(val, cf, F, u) IN
            IF ~o.ok THEN DRErr(o.err)
            ELSE IF ~o.some THEN DieRangesFrom(attrs, i + 1, acc, cf, F, u)
            ELSE LET rr == RangesAt(o.v, cf, F, u) IN
                 IF ~rr.open THEN DRErr("UnexpectedEof") ELSE [t |-> "list", items |-> rr.items]
      [] OTHER -> DieRangesFrom(attrs, i + 1, acc, cf, F, u)
DieRanges(attrs, cf, F, u) ==
    DieRangesFrom(attrs, 1, [lo |-> NoneV, hi |-> NoneV, size |-> NoneV], cf, F, u)
=============================================================================
