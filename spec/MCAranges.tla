----------------------------- MODULE MCAranges -----------------------------
(* Bounded models of the linear lookup tables (C17).                         *)
(* Mode "ar":   .debug_aranges sets at address size 1 with every tuple        *)
(*   sequence up to MaxTuples over boundary begins/lengths (zero tuples,      *)
(*   tombstones 0xfe/0xff, begin+length overflow), and at sizes 2/4/8 with    *)
(*   boundary tuples; header padding for every (format, address size).        *)
(* Mode "arhdr": header variations: versions 1..5, address sizes incl.        *)
(*   invalid ones, segment size, incomplete trailing tuple, several sets.     *)
(* Mode "pub":  pubnames/pubtypes sets (<= 2 sets x <= 2 entries), with and   *)
(*   without terminator, bad version, both formats.                           *)
(* Mode "idx":  str_offsets / addr tables indexed at and beyond the end.      *)
EXTENDS Lookup, TLC, Json
CONSTANTS Mode, MaxTuples
VARIABLE c

B1(n) == <<n>>
Begins1 == {0, 1, 253, 254, 255}
Lens1 == {0, 1, 2, 255}
Tuples1 == {[b |-> B1(x), l |-> B1(y)] : x \in Begins1, y \in Lens1}
MaxOf(w) == [i \in 1..w |-> 255]
BeginsW(w) == {Zero(w), One(w), MaxOf(w), [MaxOf(w) EXCEPT ![1] = 254], [MaxOf(w) EXCEPT ![1] = 253],
               [Zero(w) EXCEPT ![w] = 128]}
LensW(w) == {Zero(w), One(w), FromNat(3, w), [Zero(w) EXCEPT ![w] = 128]}
TuplesW(w) == {[b |-> x, l |-> y] : x \in BeginsW(w), y \in LensW(w)}

ArSet(fmt, ver, asz, seg, tuples, tail) == [fmt |-> fmt, ver |-> ver, info |-> 4660, asz |-> asz, seg |-> seg,
                                            tuples |-> tuples, tail |-> tail]
ArCase(sets, le, tag) == [sys |-> "aranges", mode |-> tag, le |-> le,
                          bytes |-> Flat([k \in DOMAIN sets |-> EncArSet(sets[k], le)]),
                          exp |-> ArSection(sets, 1, 0)]

ArInit == c \in {[m |-> "ar", asz |-> w, ts |-> <<>>] : w \in {1, 2, 4, 8}}
ArNext == /\ Len(c.ts) < (IF c.asz = 1 THEN MaxTuples ELSE 2)
          /\ \E t \in (IF c.asz = 1 THEN Tuples1 ELSE TuplesW(c.asz)) : c' = [c EXCEPT !.ts = Append(c.ts, t)]
(* design-level statements about the coded iteration *)
ArTheorem(a) ==
    /\ \A i \in DOMAIN ArRaw(a) : ~ZeroTuple(ArRaw(a)[i])
    /\ Len(ArRaw(a)) = Cardinality({i \in DOMAIN a.tuples : ~ZeroTuple(a.tuples[i])})
    /\ \A i \in DOMAIN ArCooked(a) : LET x == ArCooked(a)[i] IN
         "err" \notin DOMAIN x => (ULe(x.b, x.e) /\ Sub(x.e, x.b) = x.l)       \* no wrapped range is ever reported
ByteSum(ts) == SumSeq([i \in DOMAIN ts |-> ts[i].b[1] + ts[i].l[1]])
ArInv == c.m = "ar" =>
    LET v == (ByteSum(c.ts) + Len(c.ts)) % 4
        a == ArSet(IF v < 2 THEN 32 ELSE 64, 2, c.asz, 0, c.ts, <<>>) IN
    /\ ArTheorem(a)
    /\ PrintT(<<"CASE", ToJson(ArCase(<<a>>, v % 2 = 0, "ar"))>>)

T11 == [b |-> B1(16), l |-> B1(4)]
TW(w, x, y) == [b |-> FromNat(x, w), l |-> FromNat(y, w)]
HdrSets ==
    {<<ArSet(f, v, 1, 0, <<T11>>, <<>>)>> : f \in {32, 64}, v \in 1..5}
    \cup {<<ArSet(f, 2, z, 0, <<>>, <<>>)>> : f \in {32, 64}, z \in {0, 3, 5, 16, 128, 255}}
    \cup {<<ArSet(f, 2, z, s, <<TW(z, 16, 4)>>, <<>>)>> : f \in {32, 64}, z \in {1, 2, 4, 8}, s \in {0, 1, 4}}
    \cup {<<ArSet(f, 3, z, 0, <<TW(z, 16, 4), TW(z, 0, 0), TW(z, 32, 1)>>, [i \in 1..(IF n = 1 THEN 1 ELSE 2 * z - 1) |-> 1])>> :
              f \in {32, 64}, z \in {1, 2, 4, 8}, n \in {1, 2}}                      \* garbage shorter than a tuple after the tuples
    \cup {<<ArSet(32, 2, 4, 0, <<TW(4, 16, 4)>>, <<>>), ArSet(64, 2, 8, 0, <<TW(8, 1, 1), TW(8, 0, 0)>>, <<>>),
            ArSet(32, 2, 1, 0, <<>>, <<>>), ArSet(32, 2, 2, 0, <<TW(2, 5, 5)>>, <<>>)>>,
          <<ArSet(32, 2, 4, 0, <<TW(4, 16, 4)>>, <<>>), ArSet(32, 7, 4, 0, <<TW(4, 16, 4)>>, <<>>), ArSet(32, 2, 4, 0, <<TW(4, 16, 4)>>, <<>>)>>}
ArHdrInit == c = [m |-> "arhdr", stage |-> 0]
ArHdrNext == c.stage = 0 /\ \E d \in HdrSets : \E le \in BOOLEAN : c' = [m |-> "arhdr", stage |-> 1, d |-> d, le |-> le]
ArHdrInv == (c.m = "arhdr" /\ c.stage = 1) => PrintT(<<"CASE", ToJson(ArCase(c.d, c.le, "arhdr"))>>)

(*--------------------------------- pub ----------------------------------*)
PubEntries == {[die |-> 17, name |-> <<97>>], [die |-> 258, name |-> <<>>], [die |-> 1, name |-> <<98, 99, 255>>]}
PubSeqs == {<<>>} \cup {<<e>> : e \in PubEntries} \cup {<<e, f>> : e \in PubEntries, f \in PubEntries}
PubSetOf(fmt, ver, es, term, uoff) == [fmt |-> fmt, ver |-> ver, uoff |-> uoff, ulen |-> 99, entries |-> es, term |-> term,
                                       tail |-> IF term /\ Len(es) = 1 THEN <<5, 6, 7, 0, 9, 9, 9, 9, 9, 9, 9, 9, 9>> ELSE <<>>]
PubInit == c = [m |-> "pub", sets |-> <<>>]
PubNext == /\ Len(c.sets) < 2
           /\ \E es \in PubSeqs : \E f \in {32, 64} : \E term \in BOOLEAN : \E ver \in {2, 3} :
                /\ (ver = 3 => Len(es) = 1 /\ term /\ f = 32)
                /\ (Len(c.sets) = 1 => f = 32 /\ Len(es) <= 1)
                /\ c' = [c EXCEPT !.sets = Append(c.sets, PubSetOf(f, ver, es, term, 100 + Len(c.sets)))]
PubInv == (c.m = "pub") =>
    LET le == (Len(c.sets) + SumSeq([k \in DOMAIN c.sets |-> Len(c.sets[k].entries)])) % 2 = 0 IN
    PrintT(<<"CASE", ToJson([sys |-> "pub", le |-> le, bytes |-> Flat([k \in DOMAIN c.sets |-> EncPubSet(c.sets[k], le)]),
                             exp |-> PubItems(c.sets, 1)])>>)

(*--------------------------------- idx ----------------------------------*)
EntryOf(w, i) == [k \in 1..w |-> (16 * i + k) % 256]
IdxInit == c = [m |-> "idx", stage |-> 0]
IdxNext == /\ c.stage = 0
           /\ \E kind \in {"str_offsets", "addr"} : \E w \in (IF kind = "addr" THEN {1, 2, 4, 8} ELSE {4, 8}) :
              \E n \in 0..3 : \E pre \in {0, 8, 16, 5} : \E tl \in 0..(w - 1) : \E le \in BOOLEAN :
                /\ (tl > 0 => tl \in {1, w - 1} /\ pre = 8)
                /\ c' = [m |-> "idx", stage |-> 1, kind |-> kind, le |-> le,
                         t |-> [pre |-> [i \in 1..pre |-> 200 + i], w |-> w,
                                entries |-> [i \in 1..n |-> EntryOf(w, i)], tail |-> [i \in 1..tl |-> 255]]]
IdxProbes(n) == <<0, 1, 2, 3, 4, 5, 1000>>
(* 2^61, 2^62, 2^63, 2^61 + 1, 2^64 - 1, 2^32: index * entry size does not fit 64 bits for the first ones *)
BigIdx == << <<0, 0, 0, 0, 0, 0, 0, 32>>, <<0, 0, 0, 0, 0, 0, 0, 64>>, <<0, 0, 0, 0, 0, 0, 0, 128>>, <<1, 0, 0, 0, 0, 0, 0, 32>>,
             <<255, 255, 255, 255, 255, 255, 255, 255>>, <<0, 0, 0, 0, 1, 0, 0, 0>> >>
IdxInv == (c.m = "idx" /\ c.stage = 1) =>
    PrintT(<<"CASE", ToJson([sys |-> "idx", kind |-> c.kind, le |-> c.le, w |-> c.t.w, base |-> Len(c.t.pre),
                             bytes |-> EncTable(c.t, c.le), probes |-> IdxProbes(0),
                             exp |-> [k \in 1..7 |-> TableGet(c.t, IdxProbes(0)[k])],
                             big_probes |-> BigIdx, big_exp |-> [k \in DOMAIN BigIdx |-> TableGetBV(c.t, BigIdx[k])],
                             bad_base |-> ErrAny])>>)

Modes == IF Mode = "all" THEN {"ar", "arhdr", "pub", "idx"} ELSE {Mode}
Init == \/ "ar" \in Modes /\ ArInit
        \/ "arhdr" \in Modes /\ ArHdrInit
        \/ "pub" \in Modes /\ PubInit
        \/ "idx" \in Modes /\ IdxInit
Next == \/ c.m = "ar" /\ ArNext
        \/ c.m = "arhdr" /\ ArHdrNext
        \/ c.m = "pub" /\ PubNext
        \/ c.m = "idx" /\ IdxNext
Inv == ArInv /\ ArHdrInv /\ PubInv /\ IdxInv
=============================================================================
