------------------------------ MODULE MCDies ------------------------------
(***************************************************************************)
(* Bounded models for C02.  Three sub-models share the module; a cfg       *)
(* selects them with `Modes`:                                              *)
(*                                                                         *)
(*  "ab"  every insertion sequence of <= MaxA abbreviation codes from      *)
(*        ACodes: the store as coded refines the lookup function / first-  *)
(*        duplicate rejection (checked inside TLC) and one replay case per *)
(*        sequence (encoded table, expected get() results or rejection).   *)
(*  "hdr" every unit-header layout: version 2-5 x format x address size x  *)
(*        byte order x unit type x position in the section (alone; third   *)
(*        of four units after a 64-bit and a 32-bit unit in either order,  *)
(*        in .debug_info and .debug_types): every unit's section offset    *)
(*        and the unit/section offset conversions are compared.            *)
(*  "nav" every forest with <= MaxN entries (incl. DW_CHILDREN_yes with an *)
(*        empty child list) x every subset of entries carrying             *)
(*        DW_AT_sibling x trailing null padding x (header variant,         *)
(*        abbreviation code scheme) in Combos.  Every stream is emitted    *)
(*        once (bytes + expected header, raw reading, entry(offset),       *)
(*        abbreviation lookups; forests with >= RestrictN entries only     *)
(*        under the FullCombos, without padding).  For FullCombos the      *)
(*        *complete                                                        *)
(*        state graph* of EntriesCursor and EntriesTree is explored from   *)
(*        every start entry: every reachable state x every call, i.e. all  *)
(*        call scripts of any length up to state equivalence.  Each        *)
(*        transition checks machine-as-coded = forest semantics inside TLC *)
(*        and prints one replay case: a witness script reaching the source *)
(*        state (hidden from the fingerprint by VIEW) + the call, with the *)
(*        expected observation of that last call (the earlier calls of the *)
(*        script are the last calls of other cases).                       *)
(***************************************************************************)
EXTENDS Dies, TLC, Json
CONSTANTS Modes, MaxN, Pads, Combos, FullCombos, MaxA, RestrictN, Rotate
VARIABLES s, wit
vars == <<s, wit>>

(* ---------------- header variants and code schemes --------------------- *)
Hd(ver, fmt, asz, ut, le, types) == [ver |-> ver, fmt |-> fmt, asz |-> asz, ut |-> ut, le |-> le, types |-> types]
HV == <<
  [h |-> Hd(4, 32, 8, 1, TRUE,  FALSE), pre |-> <<>>, apre |-> 0, sf |-> "ref4",    sibfirst |-> TRUE],
  [h |-> Hd(5, 64, 4, 2, FALSE, FALSE), pre |-> <<64>>, apre |-> 1, sf |-> "ref8",    sibfirst |-> FALSE],
  [h |-> Hd(2, 32, 2, 1, TRUE,  FALSE), pre |-> <<32>>, apre |-> 0, sf |-> "refaddr", sibfirst |-> TRUE],
  [h |-> Hd(3, 64, 8, 1, FALSE, FALSE), pre |-> <<>>, apre |-> 1, sf |-> "ref2",    sibfirst |-> FALSE],
  [h |-> Hd(5, 32, 8, 4, TRUE,  FALSE), pre |-> <<64, 32>>, apre |-> 0, sf |-> "ref1",    sibfirst |-> TRUE],
  [h |-> Hd(5, 32, 1, 5, FALSE, FALSE), pre |-> <<>>, apre |-> 1, sf |-> "refu2",   sibfirst |-> FALSE],
  [h |-> Hd(4, 32, 4, 1, TRUE,  TRUE),  pre |-> <<64>>, apre |-> 1, sf |-> "ref4",    sibfirst |-> FALSE],
  [h |-> Hd(5, 64, 8, 6, TRUE,  FALSE), pre |-> <<>>, apre |-> 0, sf |-> "ref4",    sibfirst |-> TRUE],
  [h |-> Hd(5, 32, 4, 3, FALSE, FALSE), pre |-> <<32, 64>>, apre |-> 1, sf |-> "ref8",    sibfirst |-> TRUE],
  (* 10-13: section-relative and ill-classed DW_AT_sibling, in later units and in the first *)
  [h |-> Hd(4, 32, 8, 1, TRUE,  FALSE), pre |-> <<32>>, apre |-> 0, sf |-> "refaddr", sibfirst |-> TRUE],
  [h |-> Hd(5, 32, 4, 1, TRUE,  FALSE), pre |-> <<32>>, apre |-> 1, sf |-> "data4",   sibfirst |-> FALSE],
  [h |-> Hd(3, 32, 4, 1, FALSE, FALSE), pre |-> <<64>>, apre |-> 0, sf |-> "udata2",  sibfirst |-> TRUE],
  [h |-> Hd(5, 64, 8, 1, TRUE,  FALSE), pre |-> <<>>,   apre |-> 0, sf |-> "refaddr", sibfirst |-> FALSE] >>

Tags == <<17, 46, 16649, 36, 65535, 11>>          \* incl. 2- and 3-byte ULEB tags
CodesOf(scheme, n) ==
    CASE scheme = "seq"    -> [v \in 1..n |-> <<v>>]
      [] scheme = "perm"   -> [v \in 1..n |-> <<n + 1 - v>>]
      [] scheme = "sparse" -> [v \in 1..n |-> <<<<3>>, <<1>>, <<72, 1>>, <<0, 0, 1>>, <<7>>, <<0, 1>>>>[v]]
      [] scheme = "huge"   -> [v \in 1..n |-> <<C2p40, <<2>>, C2p63, <<1>>, CMax, C2p32>>[v]]
DecoyCode(scheme, n) ==
    CASE scheme = "seq" -> <<n + 1>> [] scheme = "perm" -> <<n + 1>> [] scheme = "sparse" -> <<2>>
      [] scheme = "huge" -> <<127, 127, 127, 127, 127, 127, 127, 127, 127>>      \* 2^63 - 1
Decoy(scheme, n) == [code |-> DecoyCode(scheme, n), tag |-> 1, hc |-> TRUE, attrs |-> <<[name |-> 3, form |-> 8]>>]
TableOf(scheme, e, F) ==
    LET n == Len(F)
        ds == [v \in 1..n |-> NodeDecl(e, F, v)] IN
    IF scheme = "seq" THEN ds \o <<Decoy(scheme, n)>> ELSE <<Decoy(scheme, n)>> \o ds

(* a unit in front of the unit under test, so that its section offset is not 0 *)
(* `pre` is the sequence of formats (32/64) of the units in front; a 32-bit unit always follows *)
(* a non-empty prefix's unit under test, so that a 64-bit unit is also *followed* by units.     *)
PrefixUnit(h, fmt) == EncUnitHeader(Hd(4, fmt, 4, 1, h.le, h.ver < 5 /\ h.types), 0, 2) \o <<1, 7>>
RECURSIVE PrefixUnits(_, _)
PrefixUnits(h, pre) == IF pre = <<>> THEN <<>> ELSE PrefixUnit(h, Head(pre)) \o PrefixUnits(h, Tail(pre))
RECURSIVE PrefixOffsets(_, _, _)
PrefixOffsets(h, pre, off) == IF pre = <<>> THEN <<>>
                              ELSE <<off>> \o PrefixOffsets(h, Tail(pre), off + Len(PrefixUnit(h, Head(pre))))
AbbrevPrefix == <<1, 17, 0, 0, 0, 0>>

DeclObs(d) == IF d = None THEN "none" ELSE [tag |-> d.tag, hc |-> d.hc, nattrs |-> Len(d.attrs)]
EntryToks(T) == {i \in DOMAIN T : T[i].k = "e"}

MkStream(F, pad, hv, scheme) ==
    LET prefix == PrefixUnits(hv.h, hv.pre)
        apfx == IF hv.apre = 1 THEN AbbrevPrefix ELSE <<>>
        e == [h |-> hv.h, uoff |-> Len(prefix), sf |-> hv.sf, sibfirst |-> hv.sibfirst,
              codes |-> CodesOf(scheme, Len(F)), tags |-> Tags]
        T == Tokens(e, F, pad)
        E == EndOff(e, F, pad)
        decls == TableOf(scheme, e, F)
        unit == EncUnit(e, F, T, E, Len(apfx))
        trailer == IF hv.pre = <<>> THEN <<>> ELSE PrefixUnit(hv.h, 32)
        universe == {decls[i].code : i \in DOMAIN decls} \cup {<<>>, <<Len(F) + 2>>, <<126>>, <<0, 0, 0, 0, 8>>, C2p63 }
    IN [T |-> T, E |-> E,
        info |-> prefix \o unit \o trailer,
        (* the section offset of every unit of the section, in order *)
        alloffs |-> PrefixOffsets(hv.h, hv.pre, 0) \o <<Len(prefix)>> \o (IF trailer = <<>> THEN <<>> ELSE <<Len(prefix) + Len(unit)>>),
        abbrev |-> apfx \o EncAbbrevTable(decls),
        uidx |-> Len(hv.pre), le |-> hv.h.le, types |-> hv.h.ver < 5 /\ hv.h.types,
        exph |-> ExpHeader(hv.h, Len(prefix), Len(apfx), E - HeaderSize(hv.h)),
        raw |-> [i \in DOMAIN T |-> RObsA(T, E, i, 0)],
        entries |-> SortUp(EntryToks(T)),
        gets |-> {[code |-> c, exp |-> DeclObs(Lookup(decls, c))] : c \in universe},
        storeok |-> StoreRefines(decls, universe)]

StreamCase(sid, st) ==
    [t |-> "stream", sid |-> sid, info |-> st.info, abbrev |-> st.abbrev, uidx |-> st.uidx, le |-> st.le,
     types |-> st.types, exph |-> st.exph, alloffs |-> st.alloffs, raw |-> st.raw,
     entries |-> [j \in DOMAIN st.entries |-> [off |-> st.T[st.entries[j]].off,
                                               exp |-> EntObsA(st.T, st.entries[j], st.T[st.entries[j]].d)]],
     gets |-> st.gets]

(* ---------------- "ab": abbreviation insertion sequences ---------------- *)
ACodes == {<<1>>, <<2>>, <<3>>, <<4>>, <<5>>, C2p40, C2p63, CMax}
ADecl(c, i) == [code |-> c, tag |-> 16 + i, hc |-> i % 2 = 1,
                attrs |-> [j \in 1..(i % 3) |-> [name |-> 2 + j, form |-> 11]]]
ADecls(cs) == [i \in DOMAIN cs |-> ADecl(cs[i], i)]
AbCase(cs) ==
    LET ds == ADecls(cs)
        k == FirstDup(ds) IN
    [t |-> "abbrev", table |-> EncAbbrevTable(ds), dup |-> k, codes |-> cs, probe |-> ACodes \cup {<<>>, <<6>>},
     exp |-> IF k # 0 THEN {"err"}
             ELSE {[ok |-> TRUE, gets |-> {[code |-> c, exp |-> DeclObs(Lookup(ds, c))] : c \in ACodes \cup {<<>>, <<6>>}}]}]

(* ---------------- init / next ------------------------------------------- *)
(* combos selectable from a cfg (cfg files cannot express tuples) *)
CombosQuick == {<<1, "seq">>, <<2, "huge">>, <<3, "perm">>, <<6, "sparse">>}
(* the full combos range over every DW_AT_sibling form and over first / later units *)
FullQuick   == <<<<1, "seq">>, <<2, "huge">>, <<10, "huge">>, <<4, "sparse">>, <<5, "seq">>, <<6, "sparse">>, <<11, "seq">>,
                 <<10, "seq">>, <<12, "perm">>, <<13, "seq">>, <<3, "perm">>>>
CombosThorough == {<<1, "seq">>, <<1, "huge">>, <<2, "huge">>, <<3, "perm">>, <<4, "sparse">>, <<4, "seq">>, <<5, "seq">>,
                   <<6, "sparse">>, <<7, "huge">>, <<7, "perm">>, <<8, "perm">>, <<9, "sparse">>}
FullThorough   == FullQuick \o <<<<7, "huge">>, <<8, "perm">>, <<9, "sparse">>, <<11, "huge">>, <<12, "sparse">>>>
CombosTiny == {<<1, "seq">>}
FullTiny == <<<<1, "seq">>>>
(* FullCombos is a sequence.  Rotate = TRUE: each forest gets the state-graph exploration  *)
(* under one of them (chosen by a checksum of the forest); FALSE: under all of them.      *)
RECURSIVE SumSeq(_)
SumSeq(q) == IF q = <<>> THEN 0 ELSE Head(q) + SumSeq(Tail(q))
(* the combo a forest is explored under when rotating: a positional checksum of the forest and its padding *)
RotCombo(F, pad) == FullCombos[((SumSeq([v \in DOMAIN F |-> v * (F[v].par + (IF F[v].hc THEN 2 ELSE 0) + (IF F[v].sib THEN 3 ELSE 0))]) + pad)
                                % Len(FullCombos)) + 1]
IsFull(F, pad, cb) == IF Rotate THEN cb = RotCombo(F, pad) ELSE \E i \in DOMAIN FullCombos : FullCombos[i] = cb
(* the combos a forest's stream is emitted under *)
StreamCombos(F, pad) == LET full == IF Rotate THEN {RotCombo(F, pad)} ELSE {FullCombos[i] : i \in DOMAIN FullCombos} IN
                        IF Len(F) >= RestrictN THEN full ELSE Combos \cup full
(* the token fields the machines need (attribute values stay out of the state) *)
Slim(T) == [i \in DOMAIN T |-> [k |-> T[i].k, node |-> T[i].node, cl |-> T[i].cl, d |-> T[i].d, off |-> T[i].off,
                                tag |-> T[i].tag, hc |-> T[i].hc, sib |-> T[i].sib, attrs |-> [j \in DOMAIN T[i].attrs |-> 0]]]

Init == /\ s \in {[ph |-> "build", F |-> <<>>], [ph |-> "ab", cs |-> <<>>], [ph |-> "h0"]}
        /\ s.ph \in {IF "nav" \in Modes THEN "build" ELSE "-", IF "ab" \in Modes THEN "ab" ELSE "-",
                     IF "hdr" \in Modes THEN "h0" ELSE "-"}
        /\ wit = <<>>

SubsetObs(aobs, mobs) == \A k \in DOMAIN aobs : k \in DOMAIN mobs /\ mobs[k] = aobs[k]
Refines(aobs, mobs, what) == Assert(SubsetObs(aobs, mobs), <<"machine as coded deviates from the forest semantics", what, aobs, mobs>>)
Emit(c) == PrintT(<<"CASE", ToJson(c)>>)

RightSpine(F) == IF F = <<>> THEN {} ELSE {Len(F)} \cup Ancestors(F, Len(F))
AddNode == /\ s.ph = "build" /\ Len(s.F) < MaxN
           /\ \E par \in {0} \cup {v \in RightSpine(s.F) : s.F[v].hc} : \E hc \in BOOLEAN :
                s' = [ph |-> "build", F |-> Append(s.F, [par |-> par, hc |-> hc, sib |-> FALSE])]
           /\ UNCHANGED wit
Finish == /\ s.ph = "build" /\ Len(s.F) >= 1
          (* DW_AT_sibling: every subset of the entries with DW_CHILDREN_yes (the only ones   *)
          (* whose attribute the readers consult); all the others carry it or not together.  *)
          (* Forests with >= RestrictN entries: no padding, g = FALSE.                       *)
          /\ \E sibs \in [{v \in DOMAIN s.F : s.F[v].hc} -> BOOLEAN] :
             \E g \in (IF Len(s.F) >= RestrictN THEN {FALSE} ELSE BOOLEAN) :
             \E pad \in (IF Len(s.F) >= RestrictN THEN {0} ELSE Pads) :
             LET F == [v \in DOMAIN s.F |-> [s.F[v] EXCEPT !.sib = IF s.F[v].hc THEN sibs[v] ELSE g]] IN
             \E cb \in StreamCombos(F, pad) :
               LET st == MkStream(F, pad, HV[cb[1]], cb[2])
                   sid == <<[v \in DOMAIN F |-> F[v].par], [v \in DOMAIN F |-> IF F[v].hc THEN 1 ELSE 0],
                            [v \in DOMAIN F |-> IF F[v].sib THEN 1 ELSE 0], pad, cb[1], cb[2]>> IN
               /\ Assert(WellFormedForest(F) /\ DepthsOk(st.T, 1, 0) /\ st.storeok, <<"generator", sid>>)
               /\ s' = [ph |-> "ready", sid |-> sid, F |-> F, T |-> Slim(st.T), E |-> st.E, full |-> IsFull(F, pad, cb)]
               /\ Emit(StreamCase(sid, st))
          /\ UNCHANGED wit
Start == /\ s.ph = "ready" /\ s.full
         /\ \E api \in {"raw", "cursor", "tree"} : \E st \in {0} \cup EntryToks(s.T) :
              LET p == IF st = 0 THEN 1 ELSE st IN
              /\ ~(api = "raw" /\ st = 0)                      \* covered by the stream case
              /\ ~(Len(s.F) >= RestrictN /\ api # "raw" /\ st = 1)   \* same machine state as st = 0
              /\ s' = [ph |-> "run", sid |-> s.sid, F |-> s.F, T |-> s.T, E |-> s.E, api |-> api, start |-> st,
                       b |-> s.T[p].d,
                       a |-> CASE api = "raw" -> p [] api = "cursor" -> AInit(p) [] api = "tree" -> ATInit(s.T[p].node),
                       m |-> CASE api = "raw" -> [p |-> p, depth |-> 0] [] api = "cursor" -> CInit(p)
                               [] api = "tree" -> TInit(p)]
         /\ wit' = <<>>

NavCase(script, exp) == [t |-> "nav", sid |-> s.sid, api |-> s.api,
                         start |-> IF s.start = 0 THEN -1 ELSE s.T[s.start].off, script |-> script, exp |-> exp]

StepRaw == /\ s.ph = "run" /\ s.api = "raw"
           /\ IF s.m.p <= Len(s.T)
              THEN LET x == RRead(s.T, s.m)
                       mo == ROBsEntryN(s.T, s.E, x)
                       ao == RObsN(s.T, s.E, s.a, s.b) IN
                   /\ Refines(ao, mo, <<s.sid, "raw", wit>>)
                   /\ s' = [s EXCEPT !.m = x.r, !.a = s.a + 1]
                   /\ wit' = Append(wit, "r")
                   /\ Emit(NavCase(wit', ao))
              ELSE /\ s' = [ph |-> "done"]
                   /\ wit' = <<>>
                   /\ Emit(NavCase(Append(wit, "r"), [ret |-> "err"]))

CursorOp(op) ==
    LET T == s.T
        mx == CASE op = "e" -> CNextEntry(T, s.m) [] op = "d" -> CNextDfs(T, s.m) [] op = "s" -> CNextSibling(T, s.E, s.m)
        ax == CASE op = "e" -> ANextEntry(T, s.a) [] op = "d" -> ANextDfs(T, s.a) [] op = "s" -> ANextSibling(T, s.F, s.a)
        rname(r) == IF op = "e" THEN (IF r THEN "true" ELSE "false") ELSE (IF r THEN "entry" ELSE "none")
        mo == CObsM(T, s.E, mx.c, rname(mx.ret), FALSE)
        ao == CObsA(T, s.E, ax.a, rname(ax.ret), s.b) IN
    /\ Refines(ao, mo, <<s.sid, s.start, wit, op>>)
    /\ s' = [s EXCEPT !.m = mx.c, !.a = ax.a]
    /\ wit' = Append(wit, op)
    /\ Emit(NavCase(wit', ao))
StepCursor == s.ph = "run" /\ s.api = "cursor" /\ \E op \in {"e", "d", "s"} : CursorOp(op)

TreeOp(op) ==
    LET T == s.T IN
    CASE op = "R" ->
           LET mx == TRoot(T, s.m)
               at == ATRoot(s.a)
               ao == TObsA(T, s.F, at)
               mo == TObsM(T, mx.t, mx.ok) IN
           /\ Refines(ao, mo, <<s.sid, s.start, wit, op>>)
           /\ s' = [s EXCEPT !.m = mx.t, !.a = at]
           /\ wit' = Append(wit, op)
           /\ Emit(NavCase(wit', ao))
      [] op = "N" ->
           /\ s.m.its # <<>>
           /\ LET mx == TNextChild(T, s.E, s.m)
                  at == ATNextChild(s.F, s.a)
                  ao == TObsA(T, s.F, at)
                  mo == TObsM(T, mx.t, mx.ret) IN
              /\ Refines(ao, mo, <<s.sid, s.start, wit, op>>)
              /\ s' = [s EXCEPT !.m = mx.t, !.a = at]
              /\ wit' = Append(wit, op)
              /\ Emit(NavCase(wit', ao))
      [] op = "D" ->
           /\ s.m.live
           /\ Assert(s.a.live # 0, "live")
           /\ s' = [s EXCEPT !.m = TDescend(s.m), !.a = ATDescend(s.a)]
           /\ wit' = Append(wit, op)
      [] op = "A" ->
           /\ s.m.its # <<>>
           /\ s' = [s EXCEPT !.m = TAscend(s.m), !.a = ATAscend(s.a)]
           /\ wit' = Append(wit, op)
StepTree == s.ph = "run" /\ s.api = "tree" /\ \E op \in {"R", "N", "D", "A"} : TreeOp(op)

(* ---- "ab" ---- *)
AbStep == /\ s.ph = "ab" /\ Len(s.cs) < MaxA
          /\ (Len(s.cs) = 0 \/ FirstDup(ADecls(s.cs)) = 0)        \* stop extending after a duplicate
          /\ \E c \in ACodes :
               LET cs == Append(s.cs, c) IN
               /\ Assert(StoreRefines(ADecls(cs), ACodes \cup {<<6>>}), <<"abbreviation store", cs>>)
               /\ s' = [ph |-> "ab", cs |-> cs]
               /\ Emit(AbCase(cs))
          /\ UNCHANGED wit

(* ---- "hdr" ---- *)
HdrForest == <<[par |-> 0, hc |-> TRUE, sib |-> TRUE], [par |-> 1, hc |-> FALSE, sib |-> FALSE]>>
HdrStep == /\ s.ph = "h0"
           /\ \E ver \in 2..5 : \E fmt \in {32, 64} : \E asz \in {1, 2, 4, 8} : \E le \in BOOLEAN :
              \E ut \in 1..6 : \E types \in BOOLEAN : \E pre \in {<<>>, <<64, 32>>, <<32, 64>>} :
                /\ (ver < 5 => ut = 1) /\ (ver = 5 => ~types)
                /\ LET hv == [h |-> Hd(ver, fmt, asz, ut, le, types), pre |-> pre, apre |-> IF pre = <<>> THEN 0 ELSE 1, sf |-> "ref4", sibfirst |-> le]
                       st == MkStream(HdrForest, 1, hv, "seq")
                       sid == <<"hdr", ver, fmt, asz, ut, IF le THEN 1 ELSE 0, IF types THEN 1 ELSE 0, pre>> IN
                   /\ s' = [ph |-> "hdr", sid |-> sid]
                   /\ Emit(StreamCase(sid, st))
           /\ UNCHANGED wit

Next == AddNode \/ Finish \/ Start \/ StepRaw \/ StepCursor \/ StepTree \/ AbStep \/ HdrStep
View == s
=============================================================================
