INIT Init
NEXT Next
INVARIANT Inv
CHECK_DEADLOCK FALSE
CONSTANTS
  Mode = "all"
  MaxNames = 3
  MaxEntries = 2
  DjbLen = 2
  PoolNames = 2
  RawLen = 2
  AbbrBig = FALSE
