------------------------------- MODULE BV -------------------------------
(***************************************************************************)
(* Fixed-width two's-complement values as little-endian byte tuples.       *)
(*                                                                         *)
(* TLC integers are 32-bit, DWARF values are up to 64 (sometimes 128) bit. *)
(* A value of width n bytes is <<b1,...,bn>>, bi \in 0..255, b1 least      *)
(* significant.  The representation is also the little-endian wire format, *)
(* so "decode a fixed-width field" is identity (LE) or Reverse (BE).       *)
(*                                                                         *)
(* MCBV.tla checks every operator against Integers arithmetic mod 2^8      *)
(* for all operand pairs at width 1 and on a boundary grid at width 2.     *)
(***************************************************************************)
EXTENDS Naturals, Integers, Sequences
LOCAL BW == INSTANCE Bitwise

Byte == 0..255

(* TLC evaluates [i \in S |-> e] lazily, element by element and without caching; a chain
   of such values (e.g. repeated shifts) re-evaluates exponentially.  SubSeq forces an
   explicit tuple, so every operator below returns a fully evaluated tuple. *)
Strict(f) == SubSeq(f, 1, Len(f))
IsBV(a, n) == a \in [1..n -> Byte]

Zero(n) == Strict([i \in 1..n |-> 0])
Ones(n) == Strict([i \in 1..n |-> 255])
One(n)  == Strict([i \in 1..n |-> IF i = 1 THEN 1 ELSE 0])

RECURSIVE FromNat(_, _)
FromNat(v, n) == IF n = 0 THEN <<>> ELSE <<v % 256>> \o FromNat(v \div 256, n - 1)

(* Only meaningful when the value is < 2^31. *)
RECURSIVE ToNat(_)
ToNat(a) == IF a = <<>> THEN 0 ELSE Head(a) + 256 * ToNat(Tail(a))

FitsNat(a) == /\ \A i \in DOMAIN a : i > 4 => a[i] = 0
              /\ (Len(a) >= 4 => a[4] < 128)

IsZero(a) == \A i \in DOMAIN a : a[i] = 0
IsNeg(a)  == Len(a) > 0 /\ a[Len(a)] >= 128

(* two's-complement integer -> BV, for |v| < 2^31 *)
FromInt(v, n) == IF v >= 0 THEN FromNat(v, n)
                 ELSE LET m == FromNat(-(v + 1), n)      \* -(v+1) = ~v
                      IN Strict([i \in 1..n |-> 255 - m[i]])

Trunc(a, n) == SubSeq(a, 1, n)
ZExt(a, n)  == IF Len(a) >= n THEN Trunc(a, n) ELSE a \o Zero(n - Len(a))
SExt(a, n)  == IF Len(a) >= n THEN Trunc(a, n)
               ELSE a \o (IF IsNeg(a) THEN Ones(n - Len(a)) ELSE Zero(n - Len(a)))

(* signed small integer value of a BV (|value| < 2^31) *)
ToInt(a) == IF IsNeg(a) THEN -(ToNat([i \in DOMAIN a |-> 255 - a[i]])) - 1 ELSE ToNat(a)

RECURSIVE AddC(_, _, _)
AddC(a, b, c) == IF a = <<>> THEN <<>>
                 ELSE LET s == Head(a) + Head(b) + c
                      IN <<s % 256>> \o AddC(Tail(a), Tail(b), s \div 256)

BNot(a)   == Strict([i \in DOMAIN a |-> 255 - a[i]])
Add(a, b) == AddC(a, b, 0)
Neg(a)    == AddC(BNot(a), Zero(Len(a)), 1)
Sub(a, b) == AddC(a, BNot(b), 1)

(* carry out of an unsigned addition: TRUE iff a + b >= 2^(8n) *)
AddOverflows(a, b) == LET n == Len(a) IN Add(a \o <<0>>, b \o <<0>>)[n + 1] # 0

BAnd(a, b) == Strict([i \in DOMAIN a |-> BW!&(a[i], b[i])])
BOr(a, b)  == Strict([i \in DOMAIN a |-> BW!|(a[i], b[i])])
BXor(a, b) == Strict([i \in DOMAIN a |-> BW!^^(a[i], b[i])])

RECURSIVE ULt(_, _)
ULt(a, b) == IF a = <<>> THEN FALSE
             ELSE LET n == Len(a) IN
                  IF a[n] # b[n] THEN a[n] < b[n]
                  ELSE ULt(SubSeq(a, 1, n - 1), SubSeq(b, 1, n - 1))
ULe(a, b) == a = b \/ ULt(a, b)
SLt(a, b) == IF IsNeg(a) # IsNeg(b) THEN IsNeg(a) ELSE ULt(a, b)
SLe(a, b) == a = b \/ SLt(a, b)

(* a * k + c for a byte k, truncated to Len(a) *)
RECURSIVE MulByte(_, _, _)
MulByte(a, k, c) == IF a = <<>> THEN <<>>
                    ELSE LET p == Head(a) * k + c
                         IN <<p % 256>> \o MulByte(Tail(a), k, p \div 256)

(* shift left by whole bytes, truncated *)
ShlBytes(a, k) == LET n == Len(a) IN Strict([i \in 1..n |-> IF i - k >= 1 THEN a[i - k] ELSE 0])

RECURSIVE MulAcc(_, _, _, _)
MulAcc(a, b, i, acc) == IF i > Len(b) THEN acc
                        ELSE MulAcc(a, b, i + 1,
                                    IF b[i] = 0 THEN acc
                                    ELSE Add(acc, ShlBytes(MulByte(a, b[i], 0), i - 1)))
Mul(a, b) == MulAcc(a, b, 1, Zero(Len(a)))

(* full-width product: 2n bytes *)
MulWide(a, b) == LET n == Len(a) IN Mul(a \o Zero(n), b \o Zero(n))

Pow2(k) == 2 ^ k      \* k <= 30

Bit(a, i) == (a[((i - 1) \div 8) + 1] \div Pow2((i - 1) % 8)) % 2   \* i in 1..8n, 1 = LSB
FromBits(f, n) == Strict([j \in 1..n |->
    f[8*(j-1)+1] + 2*f[8*(j-1)+2] + 4*f[8*(j-1)+3] + 8*f[8*(j-1)+4]
    + 16*f[8*(j-1)+5] + 32*f[8*(j-1)+6] + 64*f[8*(j-1)+7] + 128*f[8*(j-1)+8]])

(* shifts by a natural number k (any size that fits a TLC int) *)
Shl(a, k) == LET n == Len(a) IN
             IF k >= 8 * n THEN Zero(n)
             ELSE FromBits([i \in 1..8*n |-> IF i - k >= 1 THEN Bit(a, i - k) ELSE 0], n)
Shr(a, k) == LET n == Len(a) IN
             IF k >= 8 * n THEN Zero(n)
             ELSE FromBits([i \in 1..8*n |-> IF i + k <= 8*n THEN Bit(a, i + k) ELSE 0], n)
Sar(a, k) == LET n == Len(a)
                 s == IF IsNeg(a) THEN 1 ELSE 0 IN
             IF k >= 8 * n THEN (IF s = 1 THEN Ones(n) ELSE Zero(n))
             ELSE FromBits([i \in 1..8*n |-> IF i + k <= 8*n THEN Bit(a, i + k) ELSE s], n)

(* unsigned long division, restoring, one bit per step; b # 0 *)
RECURSIVE UDivStep(_, _, _, _, _)
UDivStep(a, b, i, q, r) ==
    IF i = 0 THEN <<q, r>>
    ELSE LET n  == Len(a)
             r1 == LET s == Shl(r, 1) IN [s EXCEPT ![1] = s[1] + Bit(a, i)]
             ge == ~ULt(r1, b \o <<0>>)
             r2 == IF ge THEN Sub(r1, b \o <<0>>) ELSE r1
             q2 == IF ge THEN [q EXCEPT ![((i-1) \div 8) + 1] = @ + Pow2((i-1) % 8)] ELSE q
         IN UDivStep(a, b, i - 1, q2, r2)
(* the remainder register is one byte wider so that the shift never loses a bit *)
UDivMod(a, b) == LET n == Len(a)
                     qr == UDivStep(a, b, 8 * n, Zero(n), Zero(n + 1))
                 IN <<qr[1], Trunc(qr[2], n)>>
UDiv(a, b) == UDivMod(a, b)[1]
UMod(a, b) == UDivMod(a, b)[2]

Abs(a) == IF IsNeg(a) THEN Neg(a) ELSE a
(* signed division truncating towards zero, wrapping (MIN / -1 = MIN); b # 0 *)
SDiv(a, b) == LET q == UDiv(Abs(a), Abs(b))
              IN IF IsNeg(a) # IsNeg(b) THEN Neg(q) ELSE q
(* signed remainder, sign of the dividend *)
SRem(a, b) == LET r == UMod(Abs(a), Abs(b))
              IN IF IsNeg(a) THEN Neg(r) ELSE r

Reverse(s) == Strict([i \in 1..Len(s) |-> s[Len(s) + 1 - i]])

(* low k bits of a, k a natural number: a mod 2^k *)
MaskBits(a, k) == LET n == Len(a) IN
                  IF k >= 8 * n THEN a
                  ELSE FromBits([i \in 1..8*n |-> IF i <= k THEN Bit(a, i) ELSE 0], n)
=============================================================================
