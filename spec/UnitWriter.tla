----------------------------- MODULE UnitWriter -----------------------------
(* C11 - builder machine for gimli::write::Unit / UnitTable / Dwarf           *)
(*   src/write/unit.rs: Unit::{new, reserve, add_reserved, add},              *)
(*   DebuggingInformationEntry::{set, delete, set_sibling, delete_child},     *)
(*   Unit::write (two-pass layout: calculate_offsets / size, then write),     *)
(*   reorder_base_types, unit_refs patching, UnitTable::write_debug_info_     *)
(*   fixups; AttributeValue::{form, size, write}; src/write/abbrev.rs         *)
(*   AbbreviationTable::add; src/write/str.rs StringTable::add/offset.        *)
(*                                                                            *)
(* Numbers that may exceed 31 bits are little-endian byte tuples (BV).        *)
(* An encoding is [version, word (4 | 8 = DWARF32 | DWARF64), asz].           *)
(* Entries of a unit are numbered 1.. in id order (1 = root = UnitEntryId 0). *)
EXTENDS Leb, FiniteSets
(* range / location lists: emission rules and meaning are those of C16's model *)
LW == INSTANCE ListWriter

-----------------------------------------------------------------------------
(* Part 1: the builder.                                                      *)
Placeholder == [tag |-> "", parent |-> 0, sibling |-> FALSE, attrs |-> <<>>, children |-> <<>>]
(* rt / lt: the unit's RangeListTable / LocationListTable - the distinct lists *)
(* in insertion order (entries never leave a table)                            *)
NewUnit(enc) == [enc |-> enc, reserved |-> 1, rt |-> <<>>, lt |-> <<>>,
                 ents |-> <<[Placeholder EXCEPT !.tag = "DW_TAG_compile_unit"]>>]

(* Unit::reserve: the new id is U.reserved + 1 (1-based)                     *)
Reserve(U) == [U EXCEPT !.reserved = @ + 1]
(* Unit::add_reserved: materialise the placeholders, link the child.         *)
(* API preconditions (panics otherwise): c reserved and not added yet, p an  *)
(* existing entry.                                                           *)
Materialise(U) == [U EXCEPT !.ents = @ \o [i \in 1..(U.reserved - Len(U.ents)) |-> Placeholder]]
CanAddReserved(U, c, p) == /\ c \in 2..U.reserved /\ p \in 1..U.reserved /\ p # c
                           /\ (c <= Len(U.ents) => U.ents[c].tag = "" /\ U.ents[c].parent = 0)
AddReserved(U, c, p, tag) ==
    LET V == Materialise(U) IN
    [V EXCEPT !.ents = [V.ents EXCEPT ![c] = [@ EXCEPT !.parent = p, !.tag = tag],
                                      ![p] = [@ EXCEPT !.children = Append(@, c)]]]
AddNew(U, p, tag) == AddReserved(Reserve(U), U.reserved + 1, p, tag)

RECURSIVE SetIn(_, _, _)
SetIn(attrs, name, val) ==
    IF attrs = <<>> THEN <<[name |-> name, val |-> val]>>
    ELSE IF Head(attrs).name = name THEN <<[name |-> name, val |-> val]>> \o Tail(attrs)
    ELSE <<Head(attrs)>> \o SetIn(Tail(attrs), name, val)
RECURSIVE Drop(_, _)
Drop(attrs, name) == IF attrs = <<>> THEN <<>>
                     ELSE (IF Head(attrs).name = name THEN <<>> ELSE <<Head(attrs)>>) \o Drop(Tail(attrs), name)
RECURSIVE Without(_, _)
Without(s, x) == IF s = <<>> THEN <<>> ELSE (IF Head(s) = x THEN <<>> ELSE <<Head(s)>>) \o Without(Tail(s), x)

(* get_mut(e) needs a materialised entry *)
Exists(U, e) == e \in 1..Len(U.ents)
SetAttr(U, e, name, val) == [U EXCEPT !.ents[e].attrs = SetIn(@, name, val)]
DeleteAttr(U, e, name) == [U EXCEPT !.ents[e].attrs = Drop(@, name)]
SetSibling(U, e, b) == [U EXCEPT !.ents[e].sibling = b]
DeleteChild(U, p, c) == [U EXCEPT !.ents[p].children = Without(@, c)]

(* StringTable::add: position of the string among the distinct strings *)
RECURSIVE Distinct(_, _)
Distinct(seq, acc) == IF seq = <<>> THEN acc
                      ELSE Distinct(Tail(seq), IF \E i \in DOMAIN acc : acc[i] = Head(seq) THEN acc ELSE Append(acc, Head(seq)))
RECURSIVE StrOffset(_, _, _)
StrOffset(tab, s, i) == IF tab[i] = s THEN 0 ELSE Len(tab[i]) + 1 + StrOffset(tab, s, i + 1)

-----------------------------------------------------------------------------
(* Part 2: attribute values: form, predicted size, emission, meaning.        *)
(* A field list is a sequence of [t, b]: t = "i" fixed-width integer (laid   *)
(* out in the section's byte order), "r" raw bytes, "h" bytes this model     *)
(* does not predict (offsets into sections it does not lay out).             *)
FInt(v, n) == <<[t |-> "i", b |-> Trunc(ZExt(v, 16), n)]>>
FRaw(b) == <<[t |-> "r", b |-> b]>>
FHole(n) == <<[t |-> "h", b |-> [i \in 1..n |-> -1]]>>
RECURSIVE FLen(_)
FLen(fs) == IF fs = <<>> THEN 0 ELSE Len(Head(fs).b) + FLen(Tail(fs))
RECURSIVE Flat(_, _)
Flat(fs, be) == IF fs = <<>> THEN <<>>
                ELSE (IF be /\ Head(fs).t = "i" THEN Reverse(Head(fs).b) ELSE Head(fs).b) \o Flat(Tail(fs), be)

Range(s) == {s[i] : i \in DOMAIN s}
Fits(v, n) == \A i \in DOMAIN v : i > n => v[i] = 0
Nat8(n) == FromNat(n, 8)
(* LEB128 of a 64-bit value, digit by digit (equal to Leb!EncU / EncS, which is *)
(* checked by MCUnitWriter on the probe values; this form has no nested         *)
(* recursion and evaluates quickly)                                             *)
BitAt(v, i) == IF i > 8 * Len(v) THEN 0 ELSE Bit(v, i)
UDig(v, j) == LET b == 7 * (j - 1) IN
    BitAt(v, b + 1) + 2 * BitAt(v, b + 2) + 4 * BitAt(v, b + 3) + 8 * BitAt(v, b + 4)
    + 16 * BitAt(v, b + 5) + 32 * BitAt(v, b + 6) + 64 * BitAt(v, b + 7)
ULebLen(v) == LET S == {j \in 1..10 : UDig(v, j) # 0} IN
              IF S = {} THEN 1 ELSE CHOOSE j \in S : \A k \in S : k <= j
ULeb(v) == LET n == ULebLen(v) IN [j \in 1..n |-> UDig(v, j) + (IF j < n THEN 128 ELSE 0)]
(* the same for a natural number below 2^31 (abbreviation codes, lengths) *)
RECURSIVE ULebNat(_)
ULebNat(n) == IF n < 128 THEN <<n>> ELSE <<(n % 128) + 128>> \o ULebNat(n \div 128)
SBitAt(v, i) == IF i > 8 * Len(v) THEN (IF IsNeg(v) THEN 1 ELSE 0) ELSE Bit(v, i)
SDig(v, j) == LET b == 7 * (j - 1) IN
    SBitAt(v, b + 1) + 2 * SBitAt(v, b + 2) + 4 * SBitAt(v, b + 3) + 8 * SBitAt(v, b + 4)
    + 16 * SBitAt(v, b + 5) + 32 * SBitAt(v, b + 6) + 64 * SBitAt(v, b + 7)
SLebLen(v) == LET fill == IF IsNeg(v) THEN 127 ELSE 0
                  ok(n) == /\ \A j \in (n + 1)..10 : SDig(v, j) = fill
                           /\ (SDig(v, n) >= 64) = IsNeg(v)
                  S == {n \in 1..10 : ok(n)}
              IN CHOOSE n \in S : \A k \in S : n <= k
SLeb(v) == LET n == SLebLen(v) IN [j \in 1..n |-> SDig(v, j) + (IF j < n THEN 128 ELSE 0)]
WordOk(n) == n \in {1, 2, 4, 8}
ErrF(e) == [err |-> e]
OkF(fs) == [err |-> "", fs |-> fs]
(* Writer::write_udata(val, size) *)
UData(v, size) == IF ~WordOk(size) THEN ErrF("UnsupportedWordSize")
                  ELSE IF ~Fits(v, size) THEN ErrF("ValueTooLarge") ELSE OkF(FInt(v, size))

ConstKinds == {"Encoding", "DecimalSign", "Endianity", "Accessibility", "Visibility", "Virtuality",
               "Language", "AddressClass", "IdentifierCase", "CallingConvention", "Inline", "Ordering"}
SecOffsetKinds == {"LineProgramRef", "LocationListRef", "DebugMacinfoRef", "DebugMacroRef", "RangeListRef"}

(* Expression operations (write::Expression / Operation::{size, write}); an  *)
(* Exprloc value is either raw bytecode [b] or a list of operations [ops]:    *)
(*   [op "constu", v]  [op "deref_type", size, e]  [op "convert", e]          *)
(*   [op "call", e] (DW_OP_call4)   [op "call_ref", u, e]                     *)
(* The typed operations take the unit offset of their base type as ULEB128,   *)
(* so it must be known when the holder's size is predicted: offs is the       *)
(* layout so far (entry -> unit offset, 0 = not laid out yet).                *)
IsSmall(v) == Fits(v, 1) /\ v[1] < 32
OffAt(offs, e) == IF e \in DOMAIN offs THEN offs[e] ELSE 0
OpSize(o, enc, offs) ==
    CASE o.op = "constu" -> [err |-> "", n |-> IF IsSmall(o.v) THEN 1 ELSE 1 + ULebLen(o.v)]
      [] o.op = "deref_type" -> IF OffAt(offs, o.e) = 0 THEN [err |-> "UnsupportedExpressionForwardReference", n |-> 0]
                                ELSE [err |-> "", n |-> 2 + Len(ULebNat(offs[o.e]))]
      [] o.op = "convert" -> IF OffAt(offs, o.e) = 0 THEN [err |-> "UnsupportedExpressionForwardReference", n |-> 0]
                             ELSE [err |-> "", n |-> 1 + Len(ULebNat(offs[o.e]))]
      [] o.op = "call" -> [err |-> "", n |-> 5]
      [] o.op = "call_ref" -> [err |-> "", n |-> 1 + enc.word]
RECURSIVE OpsSize(_, _, _)
OpsSize(os, enc, offs) ==
    IF os = <<>> THEN [err |-> "", n |-> 0]
    ELSE LET h == OpSize(Head(os), enc, offs) IN
         IF h.err # "" THEN h
         ELSE LET t == OpsSize(Tail(os), enc, offs) IN IF t.err # "" THEN t ELSE [err |-> "", n |-> h.n + t.n]
OpEmit(o, enc, cx) ==
    CASE o.op = "constu" -> IF IsSmall(o.v) THEN OkF(FRaw(<<48 + o.v[1]>>)) ELSE OkF(FRaw(<<16>> \o ULeb(o.v)))
      [] o.op = "deref_type" -> IF cx.unitoff[o.e] = <<>> THEN ErrF("UnsupportedExpressionForwardReference")
            ELSE OkF(FRaw(<<IF enc.version >= 5 THEN 166 ELSE 246, o.size>> \o ULeb(cx.unitoff[o.e])))
      [] o.op = "convert" -> IF cx.unitoff[o.e] = <<>> THEN ErrF("UnsupportedExpressionForwardReference")
            ELSE OkF(FRaw(<<IF enc.version >= 5 THEN 168 ELSE 247>> \o ULeb(cx.unitoff[o.e])))
      [] o.op = "call" -> IF cx.unitoff[o.e] = <<>> THEN ErrF("UnsupportedExpressionForwardReference")
            ELSE LET d == UData(cx.unitoff[o.e], 4) IN IF d.err # "" THEN d ELSE OkF(FRaw(<<153>>) \o d.fs)
      [] o.op = "call_ref" -> IF cx.defer THEN OkF(FRaw(<<154>>) \o FInt(Zero(8), enc.word))
            ELSE IF cx.infooff[o.u][o.e] = <<>> THEN ErrF("InvalidReference")
            ELSE LET d == UData(cx.infooff[o.u][o.e], enc.word) IN IF d.err # "" THEN d ELSE OkF(FRaw(<<154>>) \o d.fs)
RECURSIVE OpsEmit(_, _, _)
OpsEmit(os, enc, cx) ==
    IF os = <<>> THEN OkF(<<>>)
    ELSE LET h == OpEmit(Head(os), enc, cx) IN
         IF h.err # "" THEN h
         ELSE LET t == OpsEmit(Tail(os), enc, cx) IN IF t.err # "" THEN t ELSE OkF(h.fs \o t.fs)
HasOps(val) == val.k = "Exprloc" /\ "ops" \in DOMAIN val

(* A RangeListRef / LocationListRef value names its list: either [list] (a      *)
(* sequence of LW!Ent entries) or the short form [v] = one start/end entry.     *)
IsListRef(val) == val.k \in {"RangeListRef", "LocationListRef"}
ListOf(val) == IF "list" \in DOMAIN val THEN val.list
               ELSE IF val.k = "RangeListRef" THEN <<LW!Ent("se", Nat8(16), Nat8(32 + ToNat(val.v)), <<>>)>>
               ELSE <<LW!Ent("se", Nat8(16), Nat8(32 + ToNat(val.v)), <<80 + ToNat(val.v)>>)>>
(* A location list entry may carry ref = [u, e]: its expression is the bytes d  *)
(* followed by DW_OP_call_ref to that entry (a DebugInfoRef::Entry fix-up in    *)
(* .debug_loc / .debug_loclists, patched after all units are written).          *)
ExpandRefs(L, enc, cx, be) ==
    [i \in DOMAIN L |->
        IF "ref" \in DOMAIN L[i]
        THEN LW!Ent(L[i].k, L[i].a, L[i].b,
                    L[i].d \o <<154>> \o Flat(FInt(cx.infooff[L[i].ref.u][L[i].ref.e], enc.word), be))
        ELSE L[i]]
TabAddList(tab, L) == IF \E i \in DOMAIN tab : tab[i] = L THEN tab ELSE Append(tab, L)
LEnc(enc, be) == [ver |-> enc.version, asz |-> enc.asz, fmt |-> IF enc.word = 8 THEN 64 ELSE 32, le |-> ~be]
(* the root's DW_AT_low_pc as the list writer / reader see it *)
RECURSIVE LowPcOf(_)
LowPcOf(attrs) == IF attrs = <<>> THEN [some |-> FALSE, v |-> Zero(8)]
                  ELSE IF Head(attrs).name = "DW_AT_low_pc" /\ Head(attrs).val.k = "Address"
                       THEN [some |-> TRUE, v |-> Head(attrs).val.v] ELSE LowPcOf(Tail(attrs))
Lp(U) == LowPcOf(U.ents[1].attrs)
(* RangeListTable::write + LocationListTable::write of a unit (Unit::write calls *)
(* them between the layout and the write pass)                                  *)
ListsResult(U, be) == LW!WriteUnit(U.rt, U.lt, LEnc(U.enc, be), Lp(U))

(* Line programs.  An encoding may carry prog = the DWARF version of the unit's  *)
(* line program (0 / absent: LineProgram::none).  The program has the primary   *)
(* file and nfiles added files; a FileIndex value [f |-> n] names the n-th added *)
(* file ([v |-> <<>>] is FileIndex(None)).  File tables are 1-based up to        *)
(* version 4 (index 0 = the unit's own name) and 0-based with the primary file  *)
(* at 0 in version 5, so the n-th added file has index n in either.             *)
(* The index written is the one that resolves to the file in the program's own  *)
(* table (n); gimli before 44a7660 used FileId::raw(unit version), i.e. n - 1   *)
(* for a version 5 unit whatever the version of the program, which was wrong    *)
(* for a version 5 unit with a version 2-4 program (notes/C11).  Refusing that  *)
(* pair with an error is accepted as well (ProgMismatch).                       *)
Prog(enc) == IF "prog" \in DOMAIN enc THEN enc.prog ELSE 0
HasFile(val) == val.k = "FileIndex" /\ "f" \in DOMAIN val
(* the n-th added file is called "f<n>.c" *)
RECURSIVE Digits(_)
Digits(n) == IF n < 10 THEN <<48 + n>> ELSE Digits(n \div 10) \o <<48 + (n % 10)>>
FileName(n) == <<102>> \o Digits(n) \o <<46, 99>>
(* Unit::line_program_in_use: some entry (attached or not) holds FileIndex(Some) *)
ProgInUse(U) == Prog(U.enc) # 0 /\ \E e \in DOMAIN U.ents : \E i \in DOMAIN U.ents[e].attrs : HasFile(U.ents[e].attrs[i].val)
(* LineProgram::write refuses a version 5 program for an older unit *)
ProgErr(U) == ProgInUse(U) /\ U.enc.version < 5 /\ Prog(U.enc) >= 5
(* the pair for which the code and the model disagree: an error is acceptable too *)
ProgMismatch(U) == ProgInUse(U) /\ U.enc.version >= 5 /\ Prog(U.enc) < 5

(* AttributeValue::form *)
Form(val, enc) ==
    LET k == val.k IN
    CASE k = "Address" -> "DW_FORM_addr"
      [] k = "Block" -> "DW_FORM_block"
      [] k = "Data1" -> "DW_FORM_data1" [] k = "Data2" -> "DW_FORM_data2"
      [] k = "Data4" -> "DW_FORM_data4" [] k = "Data8" -> "DW_FORM_data8"
      [] k = "Data16" -> "DW_FORM_data16"
      [] k = "Exprloc" -> IF enc.version >= 4 THEN "DW_FORM_exprloc" ELSE "DW_FORM_block"
      [] k = "Flag" -> "DW_FORM_flag"
      [] k = "FlagPresent" -> IF enc.version >= 4 THEN "DW_FORM_flag_present" ELSE "DW_FORM_flag"
      [] k = "UnitRef" -> IF enc.word = 4 THEN "DW_FORM_ref4" ELSE "DW_FORM_ref8"
      [] k = "DebugInfoRef" -> "DW_FORM_ref_addr"
      [] k = "DebugInfoRefSup" -> IF enc.word = 4 THEN "DW_FORM_ref_sup4" ELSE "DW_FORM_ref_sup8"
      [] k \in SecOffsetKinds -> IF enc.version \in {2, 3}
                                 THEN (IF enc.word = 4 THEN "DW_FORM_data4" ELSE "DW_FORM_data8")
                                 ELSE "DW_FORM_sec_offset"
      [] k = "DebugTypesRef" -> "DW_FORM_ref_sig8"
      [] k = "StringRef" -> "DW_FORM_strp"
      [] k = "DebugStrRefSup" -> "DW_FORM_strp_sup"
      [] k = "LineStringRef" -> "DW_FORM_line_strp"
      [] k = "String" -> "DW_FORM_string"
      [] k \in ConstKinds \cup {"FileIndex", "Udata"} -> "DW_FORM_udata"
      [] k = "Sdata" -> "DW_FORM_sdata"
      [] k = "ImplicitConst" -> IF enc.version >= 5 THEN "DW_FORM_implicit_const" ELSE "DW_FORM_sdata"

(* AttributeValue::size - the prediction used by calculate_offsets.           *)
(* (Expressions are raw bytecode here; their operations are C15's machine.)   *)
Size(val, enc) ==
    LET k == val.k IN
    CASE k = "Address" -> enc.asz
      [] k = "Block" -> Len(ULebNat(Len(val.b))) + Len(val.b)
      [] k = "Data1" -> 1 [] k = "Data2" -> 2 [] k = "Data4" -> 4 [] k = "Data8" -> 8 [] k = "Data16" -> 16
      [] k = "Sdata" -> SLebLen(val.v)
      [] k = "ImplicitConst" -> IF enc.version >= 5 THEN 0 ELSE SLebLen(val.v)
      [] k \in ConstKinds \cup {"Udata"} -> ULebLen(val.v)
      [] k = "FileIndex" -> IF HasFile(val) THEN Len(ULebNat(val.f)) ELSE 1
      [] k = "Exprloc" -> Len(ULebNat(Len(val.b))) + Len(val.b)
      [] k = "Flag" -> 1
      [] k = "FlagPresent" -> IF enc.version >= 4 THEN 0 ELSE 1
      [] k = "UnitRef" -> enc.word
      [] k = "DebugInfoRef" -> IF enc.version = 2 THEN enc.asz ELSE enc.word
      [] k \in {"DebugInfoRefSup", "StringRef", "DebugStrRefSup", "LineStringRef"} \cup SecOffsetKinds -> enc.word
      [] k = "DebugTypesRef" -> 8
      [] k = "String" -> Len(val.s) + 1

(* AttributeValue::write.  cx: [unitoff(e), infooff(u, e) -> BV8 or <<>> when *)
(* the entry has no offset, stroff(s), lstroff(s), lineprog: BOOLEAN]         *)
Emit(val, enc, cx) ==
    LET k == val.k IN
    CASE k = "Address" -> UData(val.v, enc.asz)
      [] k = "Block" -> OkF(FRaw(ULebNat(Len(val.b))) \o FRaw(val.b))
      [] k = "Data1" -> OkF(FInt(val.v, 1)) [] k = "Data2" -> OkF(FInt(val.v, 2))
      [] k = "Data4" -> OkF(FInt(val.v, 4)) [] k = "Data8" -> OkF(FInt(val.v, 8))
      [] k = "Data16" -> OkF(FInt(val.v, 16))
      [] k = "Sdata" -> OkF(FRaw(SLeb(val.v)))
      [] k = "ImplicitConst" -> IF enc.version >= 5 THEN OkF(<<>>) ELSE OkF(FRaw(SLeb(val.v)))
      [] k \in ConstKinds \cup {"Udata"} -> OkF(FRaw(ULeb(val.v)))
      [] k = "FileIndex" -> OkF(FRaw(IF HasFile(val) THEN ULebNat(val.f) ELSE <<0>>))
      [] k = "Exprloc" -> IF HasOps(val)
                          THEN LET r == OpsEmit(val.ops, enc, cx) IN
                               IF r.err # "" THEN r ELSE OkF(FRaw(ULebNat(FLen(r.fs))) \o r.fs)
                          ELSE OkF(FRaw(ULebNat(Len(val.b))) \o FRaw(val.b))
      [] k = "Flag" -> OkF(FInt(Nat8(IF val.v THEN 1 ELSE 0), 1))
      [] k = "FlagPresent" -> IF enc.version >= 4 THEN OkF(<<>>) ELSE OkF(FInt(Nat8(1), 1))
      [] k = "UnitRef" ->          \* placeholder write_udata(0, word), patched after the unit
            LET o == cx.unitoff[val.e] IN
            IF o = <<>> THEN ErrF("InvalidReference") ELSE OkF(FInt(o, enc.word))
      [] k = "DebugInfoRef" ->     \* placeholder write_udata(0, size), patched after all units
            LET size == IF enc.version = 2 THEN enc.asz ELSE enc.word
                o == cx.infooff[val.u][val.e] IN
            IF ~WordOk(size) THEN ErrF("UnsupportedWordSize")
            ELSE IF cx.defer THEN OkF(FInt(Zero(8), size))     \* the placeholder; the fix-up comes after all units
            ELSE IF o = <<>> THEN ErrF("InvalidReference") ELSE UData(o, size)
      [] k \in {"DebugInfoRefSup", "DebugStrRefSup", "DebugMacinfoRef", "DebugMacroRef"} -> UData(val.v, enc.word)
      [] k = "LineProgramRef" -> IF cx.lineprog THEN OkF(FHole(enc.word)) ELSE ErrF("InvalidAttributeValue")
      [] k \in {"LocationListRef", "RangeListRef"} -> OkF(FHole(enc.word))
      [] k = "DebugTypesRef" -> OkF(FInt(val.v, 8))
      [] k = "StringRef" -> UData(Nat8(cx.stroff[val.s]), enc.word)
      [] k = "LineStringRef" -> UData(Nat8(cx.lstroff[val.s]), enc.word)
      [] k = "String" -> OkF(FRaw(val.s \o <<0>>))

(* what read::Dwarf reports for the attribute: the value to be read back.     *)
(* pos(u, e) is the (unit, preorder index) of a written entry.                *)
Meaning(val, enc, pos, u, cx, be) ==
    LET k == val.k IN
    CASE k = "Address" -> [addr |-> ZExt(Trunc(val.v, enc.asz), 8)]
      [] k = "Block" -> [block |-> val.b]
      [] k = "Data1" -> [data |-> 1, v |-> ZExt(Trunc(val.v, 1), 8)]
      [] k = "Data2" -> [data |-> 2, v |-> ZExt(Trunc(val.v, 2), 8)]
      [] k = "Data4" -> [data |-> 4, v |-> ZExt(Trunc(val.v, 4), 8)]
      [] k = "Data8" -> [data |-> 8, v |-> val.v]
      [] k = "Data16" -> [data |-> 16, v |-> val.v]
      [] k = "Sdata" -> [sdata |-> val.v]
      [] k = "ImplicitConst" -> IF enc.version >= 5 THEN [implicit |-> val.v] ELSE [sdata |-> val.v]
      [] k = "Udata" -> [udata |-> val.v]
      [] k \in ConstKinds -> [const |-> k, v |-> val.v]
      [] k = "FileIndex" -> IF HasFile(val) THEN [file |-> Nat8(val.f), path |-> FileName(val.f)] ELSE [file |-> Zero(8)]
      [] k = "Exprloc" -> IF HasOps(val) THEN [expr |-> Flat(OpsEmit(val.ops, enc, cx).fs, be)] ELSE [expr |-> val.b]
      [] k = "Flag" -> [flag |-> val.v]
      [] k = "FlagPresent" -> [flag |-> TRUE]
      [] k = "UnitRef" -> [ref |-> pos[u][val.e]]
      [] k = "DebugInfoRef" -> [ref |-> pos[val.u][val.e]]
      [] k = "DebugInfoRefSup" -> [refsup |-> val.v]
      [] k = "DebugStrRefSup" -> [strsup |-> val.v]
      [] k = "DebugMacinfoRef" -> [macinfo |-> val.v]
      [] k = "DebugMacroRef" -> [macro |-> val.v]
      [] k = "LineProgramRef" -> [line |-> "own"]
      [] k = "LocationListRef" -> LET m == LW!Meaning(ExpandRefs(ListOf(val), enc, cx, be), cx.lenc, cx.lp, "loc") IN
                                  [loclist |-> [i \in DOMAIN m |-> [b |-> m[i].begin, e |-> m[i].end, expr |-> m[i].d]]]
      [] k = "RangeListRef" -> LET m == LW!Meaning(ListOf(val), cx.lenc, cx.lp, "rng") IN
                               [ranges |-> [i \in DOMAIN m |-> [b |-> m[i].begin, e |-> m[i].end]]]
      [] k = "DebugTypesRef" -> [sig8 |-> val.v]
      [] k = "StringRef" -> [strp |-> val.s]
      [] k = "LineStringRef" -> [line_strp |-> val.s]
      [] k = "String" -> [string |-> val.s]

-----------------------------------------------------------------------------
(* Part 3: Unit::write.                                                       *)
HeaderLen(enc) == (IF enc.word = 8 THEN 12 ELSE 4) + 2 + enc.word + 1 + (IF enc.version = 5 THEN 1 ELSE 0)
VersionOk(enc) == enc.version \in 2..5

(* reorder_base_types: base types first among the root's children, stably *)
RECURSIVE Pick(_, _, _)
Pick(U, kids, base) ==
    IF kids = <<>> THEN <<>>
    ELSE (IF (U.ents[Head(kids)].tag = "DW_TAG_base_type") = base THEN <<Head(kids)>> ELSE <<>>) \o Pick(U, Tail(kids), base)
Reordered(U) == [U EXCEPT !.ents[1].children = Pick(U, @, TRUE) \o Pick(U, @, FALSE)]

HasSibling(ent) == ent.sibling /\ ent.children # <<>>
(* DebuggingInformationEntry::abbreviation *)
Abbrev(ent, enc) ==
    [tag |-> ent.tag, children |-> ent.children # <<>>,
     attrs |-> (IF HasSibling(ent) THEN <<[name |-> "DW_AT_sibling", form |-> (IF enc.word = 4 THEN "DW_FORM_ref4" ELSE "DW_FORM_ref8"),
                                           ic |-> <<>>]>> ELSE <<>>)
               \o [i \in 1..Len(ent.attrs) |->
                     [name |-> ent.attrs[i].name, form |-> Form(ent.attrs[i].val, enc),
                      ic |-> IF Form(ent.attrs[i].val, enc) = "DW_FORM_implicit_const" THEN ent.attrs[i].val.v ELSE <<>>]]]
(* AbbreviationTable::add: code = 1 + index of the first equal abbreviation *)
RECURSIVE IndexOf(_, _, _)
IndexOf(tab, a, i) == IF i > Len(tab) THEN 0 ELSE IF tab[i] = a THEN i ELSE IndexOf(tab, a, i + 1)

(* size with the layout context: [err, n] *)
SizeX(val, enc, offs) ==
    IF HasOps(val)
    THEN LET r == OpsSize(val.ops, enc, offs) IN
         IF r.err # "" THEN r ELSE [err |-> "", n |-> Len(ULebNat(r.n)) + r.n]
    ELSE [err |-> "", n |-> Size(val, enc)]
RECURSIVE SumSizes(_, _, _)
SumSizes(attrs, enc, offs) ==
    IF attrs = <<>> THEN [err |-> "", n |-> 0]
    ELSE LET h == SizeX(Head(attrs).val, enc, offs) IN
         IF h.err # "" THEN h
         ELSE LET t == SumSizes(Tail(attrs), enc, offs) IN IF t.err # "" THEN t ELSE [err |-> "", n |-> h.n + t.n]

(* calculate_offsets: st = [off, offs (entry -> unit offset, 0 = none), tab, codes, order (preorder), depth (entry -> depth)] *)
RECURSIVE LayEntry(_, _, _, _)
RECURSIVE LayKids(_, _, _, _)
LayEntry(U, e, d, st) ==
    LET ent == U.ents[e]
        a == Abbrev(ent, U.enc)
        found == IndexOf(st.tab, a, 1)
        tab1 == IF found = 0 THEN Append(st.tab, a) ELSE st.tab
        code == IF found = 0 THEN Len(tab1) ELSE found
        offs1 == [st.offs EXCEPT ![e] = st.off]       \* the entry's own offset is known to its attributes
        asz == SumSizes(ent.attrs, U.enc, offs1)
        size == Len(ULebNat(code)) + (IF HasSibling(ent) THEN U.enc.word ELSE 0) + asz.n
        st1 == [st EXCEPT !.offs = offs1, !.tab = tab1, !.codes[e] = code, !.off = @ + size,
                          !.order = Append(@, e), !.depth[e] = d,
                          !.err = IF @ = "" THEN asz.err ELSE @]
        st2 == LayKids(U, ent.children, d + 1, st1)
    IN IF ent.children = <<>> THEN st1 ELSE [st2 EXCEPT !.off = @ + 1, !.after[e] = st2.off + 1]
LayKids(U, kids, d, st) == IF kids = <<>> THEN st ELSE LayKids(U, Tail(kids), d, LayEntry(U, Head(kids), d, st))

Layout(U0) ==
    LET U == Reordered(U0)
        n == Len(U.ents)
        st0 == [off |-> HeaderLen(U.enc), offs |-> [e \in 1..n |-> 0], tab |-> <<>>, codes |-> [e \in 1..n |-> 0],
                order |-> <<>>, depth |-> [e \in 1..n |-> 0], after |-> [e \in 1..n |-> 0], err |-> ""]
    IN LayEntry(U, 1, 0, st0)
(* total length of the unit in .debug_info *)
UnitLen(U) == Layout(U).off

(* the write pass: fields of entry e and its subtree *)
RECURSIVE EmitAttrs(_, _, _)
EmitAttrs(attrs, enc, cx) ==
    IF attrs = <<>> THEN OkF(<<>>)
    ELSE LET h == Emit(Head(attrs).val, enc, cx) IN
         IF h.err # "" THEN h
         ELSE LET t == EmitAttrs(Tail(attrs), enc, cx) IN IF t.err # "" THEN t ELSE OkF(h.fs \o t.fs)
RECURSIVE EmitEntry(_, _, _, _)
RECURSIVE EmitKids(_, _, _, _)
EmitEntry(U, e, L, cx) ==
    LET ent == U.ents[e]
        hd == FRaw(ULebNat(L.codes[e])) \o (IF HasSibling(ent) THEN FInt(Nat8(L.after[e]), U.enc.word) ELSE <<>>)
        at == EmitAttrs(ent.attrs, U.enc, cx)
    IN IF at.err # "" THEN at
       ELSE IF ent.children = <<>> THEN OkF(hd \o at.fs)
       ELSE LET ks == EmitKids(U, ent.children, L, cx) IN
            IF ks.err # "" THEN ks ELSE OkF(hd \o at.fs \o ks.fs \o FRaw(<<0>>))
EmitKids(U, kids, L, cx) ==
    IF kids = <<>> THEN OkF(<<>>)
    ELSE LET h == EmitEntry(U, Head(kids), L, cx) IN
         IF h.err # "" THEN h
         ELSE LET t == EmitKids(U, Tail(kids), L, cx) IN IF t.err # "" THEN t ELSE OkF(h.fs \o t.fs)

(* unit header; the abbreviation table offset of the first unit is 0, later  *)
(* ones are not predicted                                                    *)
EmitHeader(U, first, len) ==
    LET enc == U.enc
        ilen == IF enc.word = 8 THEN FInt(Ones(4), 4) \o FInt(Nat8(len - 12), 8) ELSE FInt(Nat8(len - 4), 4)
        aboff == IF first THEN FInt(Zero(8), enc.word) ELSE FHole(enc.word)
    IN ilen \o FInt(Nat8(enc.version), 2) \o
       (IF enc.version = 5 THEN FInt(Nat8(1), 1) \o FInt(Nat8(enc.asz), 1) \o aboff
        ELSE aboff \o FInt(Nat8(enc.asz), 1))

-----------------------------------------------------------------------------
(* Part 4: Dwarf::write over all units (D = [units, strs, lstrs]).            *)
RECURSIVE UnitStarts(_, _, _)
UnitStarts(Ls, i, acc) == IF i > Len(Ls) THEN <<>>
                          ELSE <<acc>> \o UnitStarts(Ls, i + 1, acc + Ls[i].off)

(* references an entry can hold *)
RefOk(D, Ls, u, val) ==
    LET tu == IF val.k = "UnitRef" THEN u ELSE val.u IN
    val.e \in 1..Len(D.units[tu].ents) /\ Ls[tu].offs[val.e] # 0
(* a reference to an id that was reserved but never materialised: the unit  *)
(* has no slot for it (UnitOffsets.entries is as long as Unit.entries)       *)
RefBeyond(D, u, val) ==
    LET tu == IF val.k = "UnitRef" THEN u ELSE val.u IN val.e > Len(D.units[tu].ents)

(* expected read-back of one entry / one unit *)
ExpEntry(U, L, pos, u, e, cx, be) ==
    LET ent == U.ents[e]
        sibform == IF U.enc.word = 4 THEN "DW_FORM_ref4" ELSE "DW_FORM_ref8"
        sib == IF HasSibling(ent) THEN << <<"DW_AT_sibling", sibform, [sib |-> L.after[e]]>> >> ELSE <<>>
    IN [off |-> L.offs[e], depth |-> L.depth[e], tag |-> ent.tag, children |-> ent.children # <<>>,
        after |-> L.after[e],
        attrs |-> sib \o [j \in 1..Len(ent.attrs) |->
                            <<ent.attrs[j].name, Form(ent.attrs[j].val, U.enc),
                              Meaning(ent.attrs[j].val, U.enc, pos, u, cx, be)>>]]
ExpUnit(U, L, pos, u, start, cx, be) ==
    [off |-> start, version |-> U.enc.version, format |-> U.enc.word, asz |-> U.enc.asz, len |-> L.off,
     entries |-> [i \in 1..Len(L.order) |-> ExpEntry(U, L, pos, u, L.order[i], cx, be)]]
RECURSIVE AllBytes(_, _, _, _, _)
AllBytes(D, Ls, body, be, u) ==
    IF u > Len(D.units) THEN <<>>
    ELSE Flat(EmitHeader(D.units[u], u = 1, Ls[u].off) \o body[u].fs, be) \o AllBytes(D, Ls, body, be, u + 1)
RECURSIVE CatStrings(_, _)
CatStrings(tab, i) == IF i > Len(tab) THEN <<>> ELSE tab[i] \o <<0>> \o CatStrings(tab, i + 1)

WriteResultX(D, be, bytes) ==
    LET nu == Len(D.units)
        Ls == [u \in 1..nu |-> Layout(D.units[u])]
        starts == UnitStarts(Ls, 1, 0)
        strtab == Distinct(D.strs, <<>>)
        lstrtab == Distinct(D.lstrs, <<>>)
        pos == [u \in 1..nu |-> [e \in 1..Len(D.units[u].ents) |->
                   LET k == IndexOf(Ls[u].order, e, 1) IN <<u, k>>]]
        cxOf(u, defer) == [defer |-> defer, unitoff |-> [e \in 1..D.units[u].reserved |->
                                   IF e <= Len(D.units[u].ents) /\ Ls[u].offs[e] # 0 THEN Nat8(Ls[u].offs[e]) ELSE <<>>],
                    infooff |-> [v \in 1..nu |-> [e \in 1..D.units[v].reserved |->
                                   IF e <= Len(D.units[v].ents) /\ Ls[v].offs[e] # 0 THEN Nat8(starts[v] + Ls[v].offs[e]) ELSE <<>>]],
                    stroff |-> [s \in Range(strtab) |-> StrOffset(strtab, s, 1)],
                    lstroff |-> [s \in Range(lstrtab) |-> StrOffset(lstrtab, s, 1)],
                    lineprog |-> ProgInUse(D.units[u]), lenc |-> LEnc(D.units[u].enc, be), lp |-> Lp(D.units[u])]
        body == [u \in 1..nu |->
                   IF ProgErr(D.units[u]) THEN ErrF("IncompatibleLineProgramEncoding")    \* the program is written first
                   ELSE IF ~VersionOk(D.units[u].enc) THEN ErrF("UnsupportedVersion")
                   ELSE IF Ls[u].err # "" THEN ErrF(Ls[u].err)
                   ELSE IF ~ListsResult(D.units[u], be).ok THEN ErrF(ListsResult(D.units[u], be).err)
                   ELSE EmitEntry(Reordered(D.units[u]), 1, Ls[u], cxOf(u, FALSE))]
        (* errors raised while the units are written, before the cross-unit fix-ups *)
        early == [u \in 1..nu |->
                   IF ProgErr(D.units[u]) THEN ErrF("IncompatibleLineProgramEncoding")
                   ELSE IF ~VersionOk(D.units[u].enc) THEN ErrF("UnsupportedVersion")
                   ELSE IF Ls[u].err # "" THEN ErrF(Ls[u].err)
                   ELSE IF ~ListsResult(D.units[u], be).ok THEN ErrF(ListsResult(D.units[u], be).err)
                   ELSE EmitEntry(Reordered(D.units[u]), 1, Ls[u], cxOf(u, TRUE))]
        firstErr == IF \E u \in 1..nu : early[u].err # ""
                    THEN early[CHOOSE u \in 1..nu : early[u].err # "" /\ \A v \in 1..(u - 1) : early[v].err = ""].err
                    ELSE IF \E u \in 1..nu : body[u].err # ""
                    THEN body[CHOOSE u \in 1..nu : body[u].err # "" /\ \A v \in 1..(u - 1) : body[v].err = ""].err
                    ELSE ""
    IN IF firstErr # "" THEN [ok |-> FALSE, err |-> firstErr]
       ELSE [ok |-> TRUE,
             units |-> [u \in 1..nu |-> ExpUnit(Reordered(D.units[u]), Ls[u], pos, u, starts[u], cxOf(u, FALSE), be)],
             info |-> IF bytes THEN AllBytes(D, Ls, body, be, 1) ELSE <<>>,
             str |-> IF bytes THEN CatStrings(strtab, 1) ELSE <<>>]
WriteResult(D, be) == WriteResultX(D, be, TRUE)

-----------------------------------------------------------------------------
(* Part 5: scripts.                                                            *)
(* calls; a script is a sequence of call records; Apply replays it on D       *)
StrOf(val) == IF val.k = "StringRef" THEN <<val.s>> ELSE <<>>
LStrOf(val) == IF val.k = "LineStringRef" THEN <<val.s>> ELSE <<>>
ApplyCall(D, k) ==
    LET U == D.units[k.u] IN
    CASE k.op = "add" -> [D EXCEPT !.units[k.u] = AddNew(U, k.p, k.tag)]
      [] k.op = "reserve" -> [D EXCEPT !.units[k.u] = Reserve(U)]
      [] k.op = "add_reserved" -> [D EXCEPT !.units[k.u] = AddReserved(U, k.e, k.p, k.tag)]
      [] k.op = "set" -> [D EXCEPT !.units[k.u] =
                               LET V == SetAttr(U, k.e, k.name, k.val) IN
                               IF k.val.k = "RangeListRef" THEN [V EXCEPT !.rt = TabAddList(@, ListOf(k.val))]
                               ELSE IF k.val.k = "LocationListRef" THEN [V EXCEPT !.lt = TabAddList(@, ListOf(k.val))]
                               ELSE V,
                                   !.strs = @ \o StrOf(k.val), !.lstrs = @ \o LStrOf(k.val)]
      [] k.op = "delete" -> [D EXCEPT !.units[k.u] = DeleteAttr(U, k.e, k.name)]
      [] k.op = "sibling" -> [D EXCEPT !.units[k.u] = SetSibling(U, k.e, k.v)]
      [] k.op = "delete_child" -> [D EXCEPT !.units[k.u] = DeleteChild(U, k.p, k.e)]
RECURSIVE Apply(_, _, _)
Apply(D, calls, i) == IF i > Len(calls) THEN D ELSE Apply(ApplyCall(D, calls[i]), calls, i + 1)
Start(encs) == [units |-> [u \in 1..Len(encs) |-> NewUnit(encs[u])], strs |-> <<>>, lstrs |-> <<>>]

(* the writer sets DW_AT_stmt_list on the root when the line program is in   *)
(* use, removes it otherwise, and refuses LineProgramRef elsewhere          *)
Normalise(D) == [D EXCEPT !.units = [u \in DOMAIN D.units |->
                    IF ProgInUse(D.units[u]) THEN SetAttr(D.units[u], 1, "DW_AT_stmt_list", [k |-> "LineProgramRef"])
                    ELSE DeleteAttr(D.units[u], 1, "DW_AT_stmt_list")]]


(* the stem lemma of the two-pass layout: predicted size = emitted length *)
SizeIsEmitLen(val, enc, cx) ==
    LET em == Emit(val, enc, cx)
        offs == [e \in DOMAIN cx.unitoff |-> IF cx.unitoff[e] = <<>> THEN 0 ELSE ToNat(cx.unitoff[e])] IN
    em.err = "" => FLen(em.fs) = SizeX(val, enc, offs).n
=============================================================================
