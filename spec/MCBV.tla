------------------------------ MODULE MCBV ------------------------------
(* Ties the byte-tuple arithmetic of BV to Integers arithmetic:           *)
(* all operand pairs at width 1, a boundary grid at width 2 and 3.        *)
EXTENDS BV, TLC
LOCAL BW2 == INSTANCE Bitwise
VARIABLES w, x, y

Grid2 == {0, 1, 2, 127, 128, 129, 255, 256, 257, 32767, 32768, 32769, 65534, 65535, 4660, 43981}
Grid3 == {0, 1, 255, 256, 65535, 65536, 8388607, 8388608, 16777215, 1193046, 11259375}

(* y is drawn in Next so that TLC's workers share the evaluation *)
Init == /\ y = -1
        /\ \/ w = 1 /\ x \in 0..255
           \/ w = 2 /\ x \in Grid2
Next == /\ y = -1
        /\ y' \in (IF w = 1 THEN 0..255 ELSE Grid2)
        /\ UNCHANGED <<w, x>>

M == 2 ^ (8 * w)
S(v) == IF v >= M \div 2 THEN v - M ELSE v        \* signed reading
U(v) == ((v % M) + M) % M                          \* back to unsigned
a == FromNat(x, w)
b == FromNat(y, w)
(* truncating signed division / remainder on integers *)
TDiv(p, q) == LET ap == IF p < 0 THEN -p ELSE p
                  aq == IF q < 0 THEN -q ELSE q
                  d  == ap \div aq
              IN IF (p < 0) # (q < 0) THEN -d ELSE d
TRem(p, q) == p - q * TDiv(p, q)

Inv == y # -1 =>
  /\ IsBV(a, w) /\ ToNat(a) = x /\ FitsNat(a)
  /\ ToInt(a) = S(x)
  /\ FromInt(S(x), w) = a
  /\ ToNat(Add(a, b)) = (x + y) % M
  /\ ToNat(Sub(a, b)) = U(x - y)
  /\ ToNat(Neg(a)) = U(-x)
  /\ ToNat(BNot(a)) = M - 1 - x
  /\ AddOverflows(a, b) = (x + y >= M)
  /\ (w <= 1 => ToNat(Mul(a, b)) = (x * y) % M)
  /\ (w = 2 => ToNat(Mul(a, b)) = ((x % 256) * y + ((x \div 256) * (y % 256) % 256) * 256) % M)
  /\ (w <= 1 => ToNat(MulWide(a, b)) = x * y)
  /\ ToNat(BAnd(a, b)) = BW2!&(x, y)
  /\ ToNat(BOr(a, b)) = BW2!|(x, y)
  /\ ToNat(BXor(a, b)) = BW2!^^(x, y)
  /\ ULt(a, b) = (x < y) /\ ULe(a, b) = (x <= y)
  /\ SLt(a, b) = (S(x) < S(y)) /\ SLe(a, b) = (S(x) <= S(y))
  /\ IsNeg(a) = (S(x) < 0) /\ IsZero(a) = (x = 0)
  /\ \A k \in 0..(8*w + 2) :
        /\ ToNat(Shl(a, k)) = IF k >= 8*w THEN 0 ELSE (x % 2^(8*w - k)) * 2^k
        /\ ToNat(Shr(a, k)) = IF k >= 8*w THEN 0 ELSE x \div 2^k
        /\ ToInt(Sar(a, k)) = IF k >= 8*w THEN (IF S(x) < 0 THEN -1 ELSE 0)
                               ELSE (IF S(x) >= 0 THEN S(x) \div 2^k ELSE -(((-S(x)) + 2^k - 1) \div 2^k))
        /\ ToNat(MaskBits(a, k)) = IF k >= 8*w THEN x ELSE x % 2^k
  /\ (y # 0 => /\ ToNat(UDiv(a, b)) = x \div y
               /\ ToNat(UMod(a, b)) = x % y
               /\ ToNat(SDiv(a, b)) = U(TDiv(S(x), S(y)))
               /\ ToNat(SRem(a, b)) = U(TRem(S(x), S(y))))
  /\ ToNat(SExt(a, w + 1)) = (IF S(x) < 0 THEN x + 255 * M ELSE x) 
  /\ ZExt(a, w + 1) = a \o <<0>> /\ Trunc(ZExt(a, w + 2), w) = a
  /\ Reverse(Reverse(a)) = a
=============================================================================
