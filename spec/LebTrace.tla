----------------------------- MODULE LebTrace -----------------------------
(* Trace validation of the primitive writers (C09): every recorded write   *)
(* event must be explainable by the codec spec: the bytes decode (by the   *)
(* mathematical meaning in Leb) to the value written, the reported size is *)
(* the number of bytes produced, unrepresentable values are refused.       *)
EXTENDS Leb, TLC, Json, IOUtils
VARIABLE l
Rec == ndJsonDeserialize(IOEnv.TRACE)

IsEv(e) == l <= Len(Rec) /\ Rec[l].ev = e /\ l' = l + 1

WriteULeb == IsEv("WriteULeb") /\ LET r == Rec[l] IN
    /\ r.ok /\ Len(r.bytes) = r.size /\ r.sbytes = r.bytes
    /\ AllowedU(r.bytes, 8, 10) = {Ok(r.v, Len(r.bytes))}
    /\ r.bytes = EncU(r.v)
WriteSLeb == IsEv("WriteSLeb") /\ LET r == Rec[l] IN
    /\ r.ok /\ Len(r.bytes) = r.size /\ r.sbytes = r.bytes
    /\ AllowedS(r.bytes) = {Ok(r.v, Len(r.bytes))}
    /\ r.bytes = EncS(r.v)

Lay(v, le) == IF le THEN v ELSE Reverse(v)
UFitsW(v, n) == \A i \in DOMAIN v : i > n => v[i] = 0
SFitsW(v, n) == v = SExt(Trunc(v, n), 8)

WriteUData == IsEv("WriteUData") /\ LET r == Rec[l] IN
    IF SizedOk(r.size) /\ UFitsW(r.v, r.size)
    THEN r.ok /\ r.bytes = Lay(Trunc(r.v, r.size), r.le)
         /\ ReadUint(r.bytes, r.size, r.le) = Ok(r.v, r.size)
    ELSE ~r.ok /\ r.bytes = <<>>
WriteSData == IsEv("WriteSData") /\ LET r == Rec[l] IN
    IF SizedOk(r.size) /\ SFitsW(r.v, r.size)
    THEN r.ok /\ r.bytes = Lay(Trunc(r.v, r.size), r.le)
    ELSE ~r.ok /\ r.bytes = <<>>
Fill == [i \in 1..12 |-> 238]
WriteUDataAt == IsEv("WriteUDataAt") /\ LET r == Rec[l] IN
    IF SizedOk(r.size) /\ UFitsW(r.v, r.size)
    THEN r.ok /\ r.bytes = [i \in 1..12 |-> IF i > r.off /\ i <= r.off + r.size
                                             THEN Lay(Trunc(r.v, r.size), r.le)[i - r.off] ELSE 238]
    ELSE ~r.ok /\ r.bytes = Fill
(* A length is representable in the 32-bit format iff it is below the      *)
(* reserved range 0xfffffff0..0xffffffff.                                  *)
WriteInitialLength == IsEv("WriteInitialLength") /\ LET r == Rec[l] IN
    LET rep == IF r.fmt = 64 THEN TRUE
               ELSE UFitsW(r.v, 4) /\ ULt(Trunc(r.v, 4), <<240, 255, 255, 255>>) IN
    IF rep THEN /\ r.ok
                /\ r.back = [ok |-> TRUE, v |-> r.v, fmt |-> r.fmt, n |-> Len(r.bytes)]
                /\ ReadInitialLength(r.bytes, r.le) = [ok |-> TRUE, v |-> r.v, n |-> Len(r.bytes), fmt |-> r.fmt]
    ELSE ~r.ok

Init == l = 1
Next == WriteULeb \/ WriteSLeb \/ WriteUData \/ WriteSData \/ WriteUDataAt \/ WriteInitialLength
Accepted == LET d == TLCGet("stats").diameter IN
            IF d - 1 = Len(Rec) THEN TRUE
            ELSE Print(<<"UNMATCHED", d, ToJson(Rec[d])>>, FALSE)
=============================================================================
