------------------------------ MODULE MCIndex ------------------------------
(* Bounded models of the split-DWARF package index (C17).                   *)
(*                                                                          *)
(* Mode "probe": every hash table reachable by the standard's insertion     *)
(*   procedure with 1/2/4/8 slots at every load up to slot_count-1 over an  *)
(*   id universe with colliding ids (equal low bits, equal high bits, even  *)
(*   and zero secondary hashes, bits outside the mask).  THEOREM (checked   *)
(*   as invariant): find AS CODED = exhaustive scan for every id of the     *)
(*   universe and id 0, and the probe loop ends within slot_count probes.   *)
(* Mode "raw": arbitrary slot arrays (not built by insertion; full tables;  *)
(*   duplicate ids): the coded lookup still terminates and may only return  *)
(*   a row that is stored with that id.                                     *)
(* Mode "cols": versions 2 and 5 x every subset of the section-kind columns *)
(*   (plus unknown kinds and too many columns) x both byte orders: header   *)
(*   and row/column arithmetic of sections(row), and the package unit       *)
(*   assembly find_cu / find_tu / cu_sections.                              *)
(* One replay case per explored state.                                      *)
EXTENDS Lookup, TLC, Json
LOCAL SX == INSTANCE SequencesExt
CONSTANTS Mode, Big, RawBig, ColsFull
VARIABLE c

Id(lo, hi, t) == IF t = 0 THEN <<lo, 0, 0, 0, hi, 0, 0, 0>>
                 ELSE <<lo + 16, 0, 0, 255, hi + 64, 0, 0, 128>>
U1 == {Id(1, 0, 0), Id(0, 1, 0), Id(0, 0, 1)}
U2 == {Id(lo, hi, t) : lo \in 0..1, hi \in 0..1, t \in 0..1} \ {Zero(8)}
U4 == {Id(lo, hi, t) : lo \in 0..3, hi \in 0..3, t \in 0..1} \ {Zero(8)}
U4small == {Id(0, 1, 0), Id(0, 2, 0), Id(0, 3, 0), Id(1, 0, 0), Id(1, 2, 0), Id(2, 2, 0), Id(3, 0, 0), Id(3, 3, 0),
            Id(0, 0, 1), Id(1, 2, 1)}
U8small == {Id(0, 0, 1), Id(0, 2, 0), Id(0, 3, 0), Id(0, 4, 0), Id(1, 6, 0), Id(7, 7, 0), Id(4, 1, 0)}
U8big   == U8small \cup {Id(1, 0, 0), Id(7, 0, 1), Id(3, 2, 1)}
Universe(N) == CASE N = 1 -> U1 [] N = 2 -> U2 [] N = 4 -> (IF Big THEN U4 ELSE U4small) [] N = 8 -> IF Big THEN U8big ELSE U8small

Sizes == {1, 2, 4, 8}

RowRec(r, sc) == [cc \in 1..sc |-> [off |-> FromNat(16 * r + cc, 4), size |-> FromNat(r + 2 * cc, 4)]]

(* the abstract index of a probe/raw state: two columns, contribution values derived from r,c *)
IxOf(st, ver) == [ver |-> ver, cols |-> <<1, 3>>, slots |-> st.slots,
                  rows |-> [r \in 1..st.nunits |-> RowRec(r, 2)]]


(*--------------------------- mode probe ---------------------------------*)
(* The state is the slot layout only; row numbers are assigned at emission   *)
(* by the rank of the id among the ids present (a permutation of 1..n), so   *)
(* insertion orders that give the same layout are one state.                 *)
Key(id) == id[1] + 256 * id[5]                     \* injective on every universe above
Present(slots) == {slots[i].id : i \in DOMAIN slots} \ {Zero(8)}
Rank(N, P, id) == Cardinality({x \in P : Key(x) <= Key(id)})
WithRows(slots) == LET N == Len(slots)
                       P == Present(slots) IN
    [i \in 1..N |-> IF IsZero(slots[i].id) THEN slots[i]
                    ELSE [id |-> slots[i].id, row |-> FromNat(Rank(N, P, slots[i].id), 4)]]
ProbeState(slots) == [m |-> "probe", slots |-> slots, nunits |-> Load(slots)]
ProbeInit == c \in {ProbeState(EmptySlots(N)) : N \in Sizes}
ProbeNext ==
    LET N == Len(c.slots) IN
    /\ c.nunits < N - 1
    /\ \E id \in Universe(N) \ Present(c.slots) :
         /\ Load(Insert(c.slots, id, Zero(4))) = c.nunits + 1      \* insertion always finds a free slot
         /\ c' = ProbeState(Insert(c.slots, id, Zero(4)))

ProbeTheorem(st) ==
    LET N == Len(st.slots)
        sl == WithRows(st.slots)
        P == Present(st.slots) IN
    /\ \A id \in Universe(N) \cup {Zero(8)} :
         /\ FindCoded(sl, id) \in FindAllowed(sl, id)
         /\ ~IsZero(id) =>
              FindCoded(sl, id) = (IF id \in P THEN Hit(FromNat(Rank(N, P, id), 4)) ELSE NoRow)
         /\ LET mask == FromNat(N - 1, 8) IN
            ProbeCount(sl, id, ToNat(BAnd(id, mask)),
                       ToNat(BOr(BAnd(Shr32(id), mask), One(8))), N - 1, N + 5) <= N

Variant(st) == (st.nunits + LoBits(st.slots[1].id, 8) + HiBits(st.slots[Len(st.slots)].id, 8)) % 4

IndexCase(ix, le, probes, tag) ==
    LET pr == SX!SetToSeq(probes)
        p  == IndexParse(ix) IN
    [sys |-> "index", mode |-> tag, le |-> le, bytes |-> EncIndex(ix, le), parse |-> p,
     probes |-> pr,
     find  |-> [i \in DOMAIN pr |-> IF tag = "raw" THEN FindAllowedRaw(ix.slots, pr[i])
                                     ELSE FindAllowed(ix.slots, pr[i])],
     coded |-> [i \in DOMAIN pr |-> FindCoded(ix.slots, pr[i])],
     rows  |-> [i \in 1..(Len(ix.rows) + 2) |-> i - 1],
     sections |-> [i \in 1..(Len(ix.rows) + 2) |-> IndexSections(ix, i - 1)]]

ProbeInv == c.m = "probe" =>
    /\ ProbeTheorem(c)
    /\ LET v == Variant(c) IN
       PrintT(<<"CASE", ToJson(IndexCase(IxOf([c EXCEPT !.slots = WithRows(c.slots)], IF v < 2 THEN 2 ELSE 5), v % 2 = 0,
                                          Universe(Len(c.slots)) \cup {Zero(8)}, "probe"))>>)

(*---------------------------- mode raw ----------------------------------*)
(* ids: zero, two ids with the same probe path (lo 0, stride 3 for N=4/8),  *)
(* one with an even secondary hash, one elsewhere                           *)
RawIds(N) == IF N = 8 THEN {Zero(8), Id(0, 3, 0), Id(1, 2, 0)}
             ELSE {Zero(8), Id(0, 3, 0), Id(0, 2, 0), Id(1, 0, 1), Id(3, 1, 0)}
RawInit == c \in {[m |-> "raw", slots |-> EmptySlots(N), k |-> 1, nunits |-> N - 1] : N \in IF RawBig THEN {2, 4, 8} ELSE {2, 4}}
RawNext ==
    /\ c.k <= Len(c.slots)
    /\ \E id \in RawIds(Len(c.slots)) :
         c' = [c EXCEPT !.slots[c.k] = [id |-> id, row |-> FromNat((c.k * 3) % 5, 4)], !.k = c.k + 1]
RawInv == (c.m = "raw" /\ c.k = Len(c.slots) + 1) =>
    /\ \A id \in RawIds(Len(c.slots)) \cup {Id(2, 2, 1)} :
         FindCoded(c.slots, id) \in FindAllowedRaw(c.slots, id)
    /\ PrintT(<<"CASE", ToJson(IndexCase(IxOf(c, 5), TRUE, RawIds(Len(c.slots)) \cup {Id(2, 2, 1)}, "raw"))>>)

(*---------------------------- mode cols ---------------------------------*)
Codes(ver) == IF ver = 2 THEN 1..8 ELSE {1, 3, 4, 5, 6, 7, 8}
ColSeqs(ver) == {SX!SetToSeq(S) : S \in {T \in SUBSET Codes(ver) :
                                              ColsFull \/ Cardinality(T) <= 2 \/ Cardinality(T) >= Cardinality(Codes(ver)) - 1}}
                \cup {<<3, 1>>, <<1, 3, 1>>, <<8, 7, 6, 5, 4, 3, 1>>}            \* order, duplicate column
                \cup {<<1, 9>>, <<0>>, <<1, 2, 3>>, <<1, 3, 4, 5, 6, 7, 8, 1, 3>>} \* unknown kinds, 9 columns
CId1 == Id(1, 2, 0)
CId2 == Id(1, 1, 1)
TId1 == Id(2, 0, 1)
ColSlots == Insert(Insert(EmptySlots(4), CId1, FromNat(1, 4)), CId2, FromNat(2, 4))
(* contributions: small, mostly inside a 12-byte section; `oob` pushes one outside *)
ColRow(r, sc, oob) == [cc \in 1..sc |->
    [off |-> FromNat(IF oob /\ r = 2 /\ cc = sc THEN 10 ELSE (r + cc) % 5, 4),
     size |-> FromNat(IF oob /\ r = 2 /\ cc = sc THEN 5 ELSE (2 * r + cc) % 7, 4)]]
ColIx(ver, cols, oob) == [ver |-> ver, cols |-> cols, slots |-> ColSlots,
                          rows |-> [r \in 1..2 |-> ColRow(r, Len(cols), oob)]]
TuIx(ver) == [ver |-> ver, cols |-> IF ver = 2 THEN <<2, 3>> ELSE <<1, 3>>,
              slots |-> Insert(EmptySlots(2), TId1, FromNat(1, 4)),
              rows |-> << <<[off |-> FromNat(3, 4), size |-> FromNat(4, 4)], [off |-> FromNat(1, 4), size |-> FromNat(2, 4)]>> >>]

SecCode(k) == CASE k = "DebugAbbrev" -> 0 [] k = "DebugInfo" -> 1 [] k = "DebugLine" -> 2 [] k = "DebugLoc" -> 3
      [] k = "DebugLocLists" -> 4 [] k = "DebugMacinfo" -> 5 [] k = "DebugMacro" -> 6 [] k = "DebugStrOffsets" -> 7
      [] k = "DebugRngLists" -> 8 [] k = "DebugTypes" -> 9 [] k = "DebugStr" -> 10 [] k = "DebugAddr" -> 11
      [] k = "DebugRanges" -> 12 [] k = "DebugAranges" -> 13 [] k = "DebugLineStr" -> 14 [] k = "DebugNames" -> 15
Marker(k, base) == [p \in 1..12 |-> (base + SecCode(k) * 12 + p) % 256]
Pkg == [k \in PkgKinds \cup {"DebugStr"} |-> Marker(k, 0)]
Parent == [k \in DwarfFields |-> Marker(k, 5)]

ColsInit == c = [m |-> "cols", stage |-> 0]
ColsNext == /\ c.stage = 0
            /\ \E ver \in {2, 5} : \E cols \in ColSeqs(ver) : \E le \in BOOLEAN : \E oob \in BOOLEAN :
                 /\ (oob => Len(cols) \in 1..3)
                 /\ c' = [m |-> "cols", stage |-> 1, ver |-> ver, cols |-> cols, le |-> le, oob |-> oob]
DwpCase(cu, tu, le) ==
    LET okc == ~("err" \in DOMAIN IndexParse(cu)) IN
    [sys |-> "dwp", le |-> le, cu_index |-> EncIndex(cu, le), tu_index |-> EncIndex(tu, le),
     pkg |-> Pkg, parent |-> Parent, load |-> IF okc THEN [ok |-> TRUE] ELSE ErrAny,
     cu_probes |-> <<CId1, CId2, TId1, Zero(8)>>,
     cu |-> [i \in 1..4 |-> FindUnit(cu, <<CId1, CId2, TId1, Zero(8)>>[i], Pkg, Parent)],
     tu_probes |-> <<TId1, CId1>>,
     tu |-> [i \in 1..2 |-> FindUnit(tu, <<TId1, CId1>>[i], Pkg, Parent)],
     cu_rows |-> <<0, 1, 2, 3>>,
     cu_sections |-> [i \in 1..4 |-> UnitView(cu, i - 1, Pkg, Parent)]]
ColsInv == (c.m = "cols" /\ c.stage = 1) =>
    LET ix == ColIx(c.ver, c.cols, c.oob) IN
    /\ (~c.oob => PrintT(<<"CASE", ToJson(IndexCase(ix, c.le, {CId1, CId2, TId1}, "cols"))>>))
    /\ PrintT(<<"CASE", ToJson(DwpCase(ix, TuIx(c.ver), c.le))>>)

Modes == IF Mode = "all" THEN {"probe", "raw", "cols"} ELSE {Mode}
Init == \/ "probe" \in Modes /\ ProbeInit
        \/ "raw" \in Modes /\ RawInit
        \/ "cols" \in Modes /\ ColsInit
Next == \/ c.m = "probe" /\ ProbeNext
        \/ c.m = "raw" /\ RawNext
        \/ c.m = "cols" /\ ColsNext
Inv == ProbeInv /\ RawInv /\ ColsInv
=============================================================================
