------------------------------- MODULE Lookup -------------------------------
(***************************************************************************)
(* C17: accelerated lookups and section plumbing agree with exhaustive     *)
(* scans.                                                                  *)
(*                                                                         *)
(* One section per gimli sub-system:                                       *)
(*   1. UnitIndex  (.debug_cu_index / .debug_tu_index, src/read/index.rs)  *)
(*   2. Package    (DwarfPackage::find_cu/find_tu/sections, dwarf.rs)      *)
(*   3. NameIndex  (.debug_names, src/read/names.rs) + DJB hash            *)
(*   4. Aranges    (src/read/aranges.rs)                                   *)
(*   5. Pub tables (src/read/lookup.rs, pubnames.rs, pubtypes.rs)          *)
(*   6. StrOffsets / Addr indexing (src/read/str.rs, addr.rs)              *)
(*   7. Loader     (DwarfSections::load, Dwarf::load/load_sup, ...)        *)
(*                                                                         *)
(* Every sub-system has an ABSTRACT description (a table: a set/sequence   *)
(* of entries), an ENCODER `Enc*` that lays the description out as DWARF   *)
(* bytes, the LOOKUP AS CODED in gimli (`*Coded`), and the EXHAUSTIVE SCAN *)
(* of the abstract table (`*Scan`).  The MC modules check inside TLC that  *)
(* the coded lookup equals the scan on every explored well-formed table    *)
(* and emit replay cases; LookupTrace validates lookups recorded on large  *)
(* random tables.                                                          *)
(*                                                                         *)
(* Values: u64 ids and addresses are BV8 byte tuples, u32 fields are BV4;  *)
(* counts and indices that are small in every explored model are Nat.      *)
(***************************************************************************)
EXTENDS Leb, FiniteSets
LOCAL LBW == INSTANCE Bitwise

Lay(v, le) == IF le THEN v ELSE Reverse(v)
U16(n, le) == Lay(FromNat(n, 2), le)
U32(n, le) == Lay(FromNat(n, 4), le)

RECURSIVE Flat(_)
Flat(ss) == IF ss = <<>> THEN <<>> ELSE Head(ss) \o Flat(Tail(ss))
(* concatenation of Len(ss) pieces that all have width w (linear time) *)
(* Strict (BV.tla) turns a lazily evaluated function into an explicit tuple, so that the  *)
(* pieces are computed once and not once per byte                                         *)
FlatW(ss, w) == LET st == Strict(ss) IN
                Strict([i \in 1..(w * Len(st)) |-> st[((i - 1) \div w) + 1][((i - 1) % w) + 1]])

Range(f) == {f[x] : x \in DOMAIN f}
RECURSIVE NulFrom(_, _)
NulFrom(b, i) == IF i > Len(b) \/ b[i] = 0 THEN i ELSE NulFrom(b, i + 1)      \* first NUL at or after i
ErrAny == [err |-> "any"]
E(k) == [err |-> k]

(***************************************************************************)
(* 1. UnitIndex                                                            *)
(*                                                                         *)
(* Abstract index:                                                         *)
(*   ver    2 | 5                                                          *)
(*   cols   sequence of DW_SECT codes (the section-kind columns)           *)
(*   slots  sequence (length = slot_count) of [id : BV8, row : BV4];       *)
(*          id = 0 marks an unused slot                                    *)
(*   rows   rows[r][c] = [off : BV4, size : BV4], r in 1..unit_count       *)
(***************************************************************************)
KindV2(c) == CASE c = 1 -> "DebugInfo" [] c = 2 -> "DebugTypes" [] c = 3 -> "DebugAbbrev"
               [] c = 4 -> "DebugLine" [] c = 5 -> "DebugLoc" [] c = 6 -> "DebugStrOffsets"
               [] c = 7 -> "DebugMacinfo" [] c = 8 -> "DebugMacro" [] OTHER -> "bad"
KindV5(c) == CASE c = 1 -> "DebugInfo" [] c = 3 -> "DebugAbbrev" [] c = 4 -> "DebugLine"
               [] c = 5 -> "DebugLocLists" [] c = 6 -> "DebugStrOffsets" [] c = 7 -> "DebugMacro"
               [] c = 8 -> "DebugRngLists" [] OTHER -> "bad"
Kind(ver, c) == IF ver = 2 THEN KindV2(c) ELSE KindV5(c)

IsPow2(n) == n > 0 /\ LBW!&(n, n - 1) = 0

(* layout of the section (DWARF 5 section 7.3.5.3 / GNU DebugFission) *)
EncIndexHeader(ver, scount, ucount, ncount, le) ==
    (IF ver = 2 THEN U32(2, le) ELSE U16(ver, le) \o <<0, 0>>)
    \o U32(scount, le) \o U32(ucount, le) \o U32(ncount, le)
EncIndex(ix, le) ==
    LET N  == Len(ix.slots)
        sc == Len(ix.cols)
        uc == Len(ix.rows) IN
    EncIndexHeader(ix.ver, sc, uc, N, le)
    \o FlatW([i \in 1..N |-> Lay(ix.slots[i].id, le)], 8)
    \o FlatW([i \in 1..N |-> Lay(ix.slots[i].row, le)], 4)
    \o FlatW([c \in 1..sc |-> U32(ix.cols[c], le)], 4)
    \o FlatW([k \in 1..(uc * sc) |-> Lay(ix.rows[((k - 1) \div sc) + 1][((k - 1) % sc) + 1].off, le)], 4)
    \o FlatW([k \in 1..(uc * sc) |-> Lay(ix.rows[((k - 1) \div sc) + 1][((k - 1) % sc) + 1].size, le)], 4)

(* outcome of UnitIndex::parse on EncIndex(ix) (checks in the order of the code) *)
IndexParse(ix) ==
    LET N == Len(ix.slots) IN
    IF ix.ver # 2 /\ ix.ver # 5 THEN E("UnknownVersion")
    ELSE IF N # 0 /\ (~IsPow2(N) \/ N <= Len(ix.rows)) THEN E("InvalidIndexSlotCount")
    ELSE IF Len(ix.cols) > 8 THEN E("UnsupportedIndexSectionCount")
    ELSE IF \E c \in DOMAIN ix.cols : Kind(ix.ver, ix.cols[c]) = "bad"
         THEN E(IF ix.ver = 2 THEN "UnknownIndexSectionV2" ELSE "UnknownIndexSection")
    ELSE [ok |-> TRUE, ver |-> ix.ver, scount |-> Len(ix.cols), ucount |-> Len(ix.rows), ncount |-> N]

NoRow == [hit |-> FALSE]
Hit(r) == [hit |-> TRUE, row |-> r]

(* UnitIndex::find AS CODED: mask, secondary hash `| 1`, at most slot_count *)
(* probes, stop at id 0.                                                    *)
Shr32(id) == <<id[5], id[6], id[7], id[8], 0, 0, 0, 0>>     \* id >> 32 (= BV!Shr(id, 32), byte-wise)
RECURSIVE ProbeCoded(_, _, _, _, _, _)
ProbeCoded(slots, id, h1, h2, maskn, k) ==
    IF k = 0 THEN NoRow
    ELSE LET s == slots[h1 + 1] IN
         IF s.id = id THEN Hit(s.row)
         ELSE IF IsZero(s.id) THEN NoRow
         ELSE ProbeCoded(slots, id, LBW!&(h1 + h2, maskn), h2, maskn, k - 1)
FindCoded(slots, id) ==
    LET N == Len(slots) IN
    IF N = 0 THEN NoRow
    ELSE LET mask == FromNat(N - 1, 8)
             h1   == ToNat(BAnd(id, mask))
             h2   == ToNat(BOr(BAnd(Shr32(id), mask), One(8)))
         IN ProbeCoded(slots, id, h1, h2, N - 1, N)

(* number of probes the coded loop performs (termination witness) *)
RECURSIVE ProbeCount(_, _, _, _, _, _)
ProbeCount(slots, id, h1, h2, maskn, k) ==
    IF k = 0 THEN 0
    ELSE LET s == slots[h1 + 1] IN
         IF s.id = id \/ IsZero(s.id) THEN 1
         ELSE 1 + ProbeCount(slots, id, LBW!&(h1 + h2, maskn), h2, maskn, k - 1)

(* The exhaustive scan: rows stored with `id` anywhere in the table. *)
ScanRows(slots, id) == {slots[i].row : i \in {j \in DOMAIN slots : slots[j].id = id}}
(* what the property allows find(id) to return *)
FindAllowed(slots, id) ==
    LET rs == ScanRows(slots, id) IN
    IF rs = {} THEN {NoRow}
    ELSE IF IsZero(id) THEN {NoRow} \cup {Hit(r) : r \in rs}    \* id 0 is the unused-slot marker
    ELSE {Hit(r) : r \in rs}

(* tables that were not built by insertion: an entry may be unreachable, so  *)
(* a miss is tolerated; a hit must still name a row stored with that id      *)
FindAllowedRaw(slots, id) == FindAllowed(slots, id) \cup {NoRow}

(* The standard's construction of the table, written arithmetically and     *)
(* independently of FindCoded: slot (H + k*H') mod N, H = low bits of id,   *)
(* H' = (bits 32.. of id mod N) made odd.  N <= 65536.                      *)
LoBits(id, N) == (id[1] + 256 * id[2]) % N
HiBits(id, N) == (id[5] + 256 * id[6]) % N
Stride(id, N) == LET h == HiBits(id, N) IN IF h % 2 = 0 THEN h + 1 ELSE h
PathSlot(id, N, k) == ((LoBits(id, N) + k * Stride(id, N)) % N) + 1
RECURSIVE InsAt(_, _, _, _)
InsAt(slots, id, row, k) ==
    LET N == Len(slots)
        p == PathSlot(id, N, k) IN
    IF k >= N THEN slots                                   \* table full: not inserted
    ELSE IF IsZero(slots[p].id) THEN [slots EXCEPT ![p] = [id |-> id, row |-> row]]
    ELSE InsAt(slots, id, row, k + 1)
Insert(slots, id, row) == InsAt(slots, id, row, 0)
EmptySlots(N) == [i \in 1..N |-> [id |-> Zero(8), row |-> Zero(4)]]
Load(slots) == Cardinality({i \in DOMAIN slots : ~IsZero(slots[i].id)})

(* UnitIndex::sections(row): the contributions of one unit, in column order *)
IndexSections(ix, r) ==
    IF r = 0 \/ r > Len(ix.rows) THEN E("InvalidIndexRow")
    ELSE [c \in 1..Len(ix.cols) |->
            [kind |-> Kind(ix.ver, ix.cols[c]), off |-> ix.rows[r][c].off, size |-> ix.rows[r][c].size]]

(***************************************************************************)
(* 2. Package unit assembly: DwarfPackage::find_cu / find_tu / sections.   *)
(*                                                                         *)
(* A package is a function section name -> bytes.  The unit's view of a    *)
(* section with a contribution [off,size] is bytes[off+1 .. off+size]; a   *)
(* section kind without a column contributes [0,0).  .debug_str is shared, *)
(* .debug_addr and .debug_ranges come from the parent (skeleton) file,     *)
(* .debug_aranges/.debug_line_str/.debug_names are empty.  The standalone  *)
(* .dwo object of the same unit has exactly these section contents, so     *)
(* "unit fetched from the package = standalone unit" is equality of this   *)
(* function with the one the harness loads from the slices.                *)
(***************************************************************************)
PkgKinds == {"DebugAbbrev", "DebugInfo", "DebugLine", "DebugLoc", "DebugLocLists", "DebugMacinfo",
             "DebugMacro", "DebugStrOffsets", "DebugRngLists", "DebugTypes"}
DwarfFields == PkgKinds \cup {"DebugStr", "DebugAddr", "DebugRanges", "DebugAranges", "DebugLineStr", "DebugNames"}

Contribution(ix, r, kind) ==
    LET cs == {c \in DOMAIN ix.cols : Kind(ix.ver, ix.cols[c]) = kind} IN
    IF cs = {} THEN [off |-> 0, size |-> 0]
    ELSE LET c == CHOOSE c \in cs : \A d \in cs : d <= c IN        \* a later duplicate column wins
         [off |-> ToNat(ix.rows[r][c].off), size |-> ToNat(ix.rows[r][c].size)]
InRange(bytes, ct) == ct.off <= Len(bytes) /\ ct.size <= Len(bytes) - ct.off
Slice(bytes, ct) == SubSeq(bytes, ct.off + 1, ct.off + ct.size)

(* pkg, parent : section name -> bytes.  Result: the Dwarf of unit row r, or an error. *)
UnitView(ix, r, pkg, parent) ==
    IF r = 0 \/ r > Len(ix.rows) THEN E("InvalidIndexRow")
    ELSE IF \E k \in PkgKinds : ~InRange(pkg[k], Contribution(ix, r, k)) THEN ErrAny
    ELSE [f \in DwarfFields |->
            IF f \in PkgKinds THEN Slice(pkg[f], Contribution(ix, r, f))
            ELSE IF f = "DebugStr" THEN pkg[f]
            ELSE IF f \in {"DebugAddr", "DebugRanges"} THEN parent[f]
            ELSE <<>>]
(* find_cu(id): absent -> none; present -> the unit view of the row the scan finds *)
FindUnit(ix, id, pkg, parent) ==
    LET f == FindCoded(ix.slots, id) IN
    IF ~f.hit THEN [none |-> TRUE] ELSE
    IF ~FitsNat(f.row) THEN E("InvalidIndexRow") ELSE UnitView(ix, ToNat(f.row), pkg, parent)

(***************************************************************************)
(* 3. NameIndex (.debug_names)                                             *)
(*                                                                         *)
(* Abstract name index `nx`:                                               *)
(*   fmt 32|64, ver, aug (bytes), cus / ltus (offsets), ftus (BV8 sigs),   *)
(*   bcount, buckets (Seq Nat, 1-based name index or 0), hashes (Seq BV4), *)
(*   names: Seq [stroff, series], series = Seq entry, entry = [code, vals] *)
(*   (abbreviation codes are BV8: ULEB128 values up to 2^64-1);            *)
(*   vals[k] = [v : BV8 payload, to : <<i, j>>]; to = <<0,0>> for a plain  *)
(*   payload, otherwise the value is "the pool offset of the j-th entry of *)
(*   name i" (DW_IDX_parent references), resolved by Enc;                  *)
(*   abbrevs: Seq [code, tag, attrs : Seq [idx, form]];                    *)
(*   term: whether the last series / the abbreviation table carry their    *)
(*   terminating 0; eoffs: <<>> (derived) or explicit entry offsets.       *)
(***************************************************************************)
ULebN(n) == EncU(FromNat(n, 8))
WordSize(fmt) == IF fmt = 64 THEN 8 ELSE 4
Word(n, fmt, le) == Lay(FromNat(n, WordSize(fmt)), le)
InitLen(fmt, n, le) == IF fmt = 64 THEN <<255, 255, 255, 255>> \o Lay(FromNat(n, 8), le) ELSE U32(n, le)

(* r = h mod m for a BV h, m < 2^22, most significant byte first *)
RECURSIVE BVModFrom(_, _, _, _)
BVModFrom(h, m, i, r) == IF i = 0 THEN r ELSE BVModFrom(h, m, i - 1, (r * 256 + h[i]) % m)
BVMod(h, m) == BVModFrom(h, m, Len(h), 0)

F_data1 == 11  F_data2 == 5  F_data4 == 6  F_data8 == 7  F_udata == 15
F_ref1 == 17   F_ref2 == 18  F_ref4 == 19  F_ref8 == 20  F_ref_udata == 21
F_flag == 12   F_flag_present == 25
FixedFormSize(f) == CASE f \in {F_data1, F_ref1, F_flag} -> 1 [] f \in {F_data2, F_ref2} -> 2
                      [] f \in {F_data4, F_ref4} -> 4 [] f \in {F_data8, F_ref8} -> 8
                      [] f = F_flag_present -> 0 [] OTHER -> -1
KnownForm(f) == f \in {F_data1, F_data2, F_data4, F_data8, F_udata, F_ref1, F_ref2, F_ref4, F_ref8,
                       F_ref_udata, F_flag, F_flag_present}
FormKind(f) == IF f \in {F_data1, F_data2, F_data4, F_data8, F_udata} THEN "u"
               ELSE IF f \in {F_ref1, F_ref2, F_ref4, F_ref8, F_ref_udata} THEN "off" ELSE "flag"
IsSym(x) == x.to # <<0, 0>>

(* An entry is decoded with the abbreviation that CARRIES its code (the first one declared  *)
(* with that code), wherever it stands in the table; [code |-> 0] if none does.            *)
AbbrevOf(nx, code) == LET S == {a \in DOMAIN nx.abbrevs : nx.abbrevs[a].code = code} IN
                      IF S = {} THEN [code |-> Zero(8)] ELSE nx.abbrevs[CHOOSE a \in S : \A b \in S : a <= b]
EncVal(f, v, le) == IF ~KnownForm(f) THEN <<>>
                    ELSE IF f \in {F_udata, F_ref_udata} THEN EncU(v)
                    ELSE Lay(Trunc(v, FixedFormSize(f)), le)
ValSize(f, x) == IF ~KnownForm(f) THEN 0
                 ELSE IF f \in {F_udata, F_ref_udata} THEN Len(EncU(x.v)) ELSE FixedFormSize(f)
(* an entry whose abbreviation is unknown is laid out as its code only *)
EntryForms(nx, e) == LET a == AbbrevOf(nx, e.code) IN
                     IF IsZero(a.code) THEN <<>> ELSE [k \in DOMAIN a.attrs |-> a.attrs[k].form]
RECURSIVE SumSeq(_)
SumSeq(s) == IF s = <<>> THEN 0 ELSE Head(s) + SumSeq(Tail(s))
EntrySize(nx, e) == LET fs == EntryForms(nx, e) IN
    Len(EncU(e.code)) + SumSeq([k \in DOMAIN fs |-> IF k > Len(e.vals) THEN 0 ELSE ValSize(fs[k], e.vals[k])])
SeriesSize(nx, i) == LET sr == nx.names[i].series IN
    SumSeq([j \in DOMAIN sr |-> EntrySize(nx, sr[j])])
    + (IF i = Len(nx.names) /\ ~nx.term THEN 0 ELSE 1)
SeriesOff(nx, i) == SumSeq([k \in 1..(i - 1) |-> SeriesSize(nx, k)])
EntryOff(nx, i, j) == SeriesOff(nx, i) + SumSeq([m \in 1..(j - 1) |-> EntrySize(nx, nx.names[i].series[m])])
PoolSize(nx) == SeriesOff(nx, Len(nx.names) + 1)
ResolveVal(nx, x) == IF IsSym(x) THEN FromNat(EntryOff(nx, x.to[1], x.to[2]), 8) ELSE x.v
EncEntry(nx, e, le) == LET fs == EntryForms(nx, e) IN
    EncU(e.code) \o Flat([k \in DOMAIN fs |-> IF k > Len(e.vals) THEN <<>> ELSE EncVal(fs[k], ResolveVal(nx, e.vals[k]), le)])
EncSeries(nx, i, le) == LET sr == nx.names[i].series IN
    Flat([j \in DOMAIN sr |-> EncEntry(nx, sr[j], le)])
    \o (IF i = Len(nx.names) /\ ~nx.term THEN <<>> ELSE <<0>>)
EncPool(nx, le) == Flat([i \in DOMAIN nx.names |-> EncSeries(nx, i, le)])
EncAbbrev(a) == EncU(a.code) \o ULebN(a.tag)
                \o Flat([k \in DOMAIN a.attrs |-> ULebN(a.attrs[k].idx) \o ULebN(a.attrs[k].form)]) \o <<0, 0>>
EncAbbrevs(nx) == Flat([a \in DOMAIN nx.abbrevs |-> EncAbbrev(nx.abbrevs[a])]) \o (IF nx.term THEN <<0>> ELSE <<>>) \o nx.abbrev_pad
EntryOffsets(nx) == IF nx.eoffs = <<>> THEN [i \in DOMAIN nx.names |-> SeriesOff(nx, i)] ELSE nx.eoffs
AugPad(n) == LBW!&(4 - LBW!&(n, 3), 3)
EncNamesBody(nx, le) ==
    LET n == Len(nx.names)
        w == WordSize(nx.fmt)
        ab == EncAbbrevs(nx) IN
    U16(nx.ver, le) \o <<0, 0>> \o U32(Len(nx.cus), le) \o U32(Len(nx.ltus), le) \o U32(Len(nx.ftus), le)
    \o U32(nx.bcount, le) \o U32(n, le) \o U32(Len(ab), le) \o U32(Len(nx.aug), le)
    \o nx.aug \o [i \in 1..AugPad(Len(nx.aug)) |-> 0]
    \o FlatW([i \in DOMAIN nx.cus |-> Word(nx.cus[i], nx.fmt, le)], w)
    \o FlatW([i \in DOMAIN nx.ltus |-> Word(nx.ltus[i], nx.fmt, le)], w)
    \o FlatW([i \in DOMAIN nx.ftus |-> Lay(nx.ftus[i], le)], 8)
    \o FlatW([i \in DOMAIN nx.buckets |-> U32(nx.buckets[i], le)], 4)
    \o (IF nx.bcount = 0 THEN <<>> ELSE FlatW([i \in DOMAIN nx.hashes |-> Lay(nx.hashes[i], le)], 4))
    \o FlatW([i \in 1..n |-> Word(nx.names[i].stroff, nx.fmt, le)], w)
    \o FlatW([i \in 1..n |-> Word(EntryOffsets(nx)[i], nx.fmt, le)], w)
    \o ab \o EncPool(nx, le)
EncNames(nx, le) == LET b == EncNamesBody(nx, le) IN InitLen(nx.fmt, Len(b), le) \o b

(*---- well-formedness of the hash table ----*)
BucketOf(nx, i) == BVMod(nx.hashes[i], nx.bcount)                     \* 0-based bucket of name i (1-based)
SortedByBucket(hashes, B) == \A i, j \in DOMAIN hashes : i < j => BVMod(hashes[i], B) <= BVMod(hashes[j], B)
BuildBuckets(hashes, B) == [b \in 1..B |->
    LET S == {i \in DOMAIN hashes : BVMod(hashes[i], B) = b - 1} IN
    IF S = {} THEN 0 ELSE CHOOSE i \in S : \A j \in S : i <= j]

(*---- lookups AS CODED ----*)
(* NameBucketIter::new + next: [err] | [none] | [ok, items : Seq <<index0, hash>>] *)
(* the walk reads hashes from index i (0-based) while i < name_count and stops *)
(* after the first hash that belongs to another bucket                        *)
RECURSIVE ChainEnd(_, _, _)
ChainEnd(nx, b, i) ==
    IF i >= Len(nx.names) THEN i
    ELSE IF BVMod(nx.hashes[i + 1], nx.bcount) # b THEN i
    ELSE ChainEnd(nx, b, i + 1)
BucketCoded(nx, b) ==
    IF b >= nx.bcount THEN ErrAny                                     \* bucket_data too short
    ELSE LET start == nx.buckets[b + 1] IN
         IF start = 0 THEN [none |-> TRUE]
         ELSE IF start - 1 > Len(nx.names) THEN ErrAny                \* skip beyond the hash table
         ELSE LET e == ChainEnd(nx, b, start - 1) IN
              [items |-> [k \in 1..(e - (start - 1)) |-> [i |-> start - 2 + k, h |-> nx.hashes[start - 1 + k]]]]
(* NameHashIter: indices with the wanted hash in the bucket hash mod bucket_count *)
HashCoded(nx, h) ==
    IF nx.bcount = 0 THEN ErrAny
    ELSE LET r == BucketCoded(nx, BVMod(h, nx.bcount)) IN
         IF "err" \in DOMAIN r THEN r
         ELSE IF "none" \in DOMAIN r THEN [items |-> <<>>]
         ELSE [items |-> LET m == SelectSeq(r.items, LAMBDA x : x.h = h) IN [k \in DOMAIN m |-> m[k].i]]
(*---- exhaustive scans ----*)
SeqOfSet(S) == [k \in 1..Cardinality(S) |-> CHOOSE x \in S : Cardinality({y \in S : y <= x}) = k]
HashScan(nx, h) == SeqOfSet({i - 1 : i \in {j \in DOMAIN nx.hashes : nx.hashes[j] = h}})
BucketScan(nx, b) == SeqOfSet({i - 1 : i \in {j \in DOMAIN nx.hashes : BVMod(nx.hashes[j], nx.bcount) = b}})

(*---- CU / TU lists ----*)
ListGet(list, i) == IF i < Len(list) THEN [ok |-> list[i + 1]] ELSE ErrAny      \* i 0-based
TypeUnit(nx, i) == IF i >= Len(nx.ltus) THEN
                        (IF i - Len(nx.ltus) < Len(nx.ftus) THEN [foreign |-> nx.ftus[i - Len(nx.ltus) + 1]] ELSE ErrAny)
                   ELSE [local |-> nx.ltus[i + 1]]

(*---- entry pool ----*)
ValObs(f, v) == CASE FormKind(f) = "u" -> [u |-> IF f \in {F_udata, F_data8} THEN v ELSE ZExt(Trunc(v, FixedFormSize(f)), 8)]
                  [] FormKind(f) = "off" -> [off |-> IF f \in {F_ref_udata, F_ref8} THEN v ELSE ZExt(Trunc(v, FixedFormSize(f)), 8)]
                  [] OTHER -> [flag |-> IF f = F_flag_present THEN TRUE ELSE v[1] # 0]
FirstAttr(a, obs, idx) == LET S == {k \in DOMAIN a.attrs : a.attrs[k].idx = idx} IN
                          IF S = {} THEN 0 ELSE CHOOSE k \in S : \A m \in S : k <= m
U32Fits(v) == \A k \in 5..8 : v[k] = 0
(* index < 2^31 assumed where it is used as Nat *)
AccCU(nx, a, vals) == LET k == FirstAttr(a, vals, 1) IN
    IF k = 0 THEN [none |-> TRUE]
    ELSE IF "u" \notin DOMAIN vals[k] THEN E("UnsupportedAttributeForm")
    ELSE IF ~U32Fits(vals[k].u) THEN E("InvalidNameAttributeIndex")
    ELSE IF ~FitsNat(vals[k].u) THEN ErrAny ELSE ListGet(nx.cus, ToNat(vals[k].u))
AccTU(nx, a, vals) == LET k == FirstAttr(a, vals, 2) IN
    IF k = 0 THEN [none |-> TRUE]
    ELSE IF "u" \notin DOMAIN vals[k] THEN E("UnsupportedAttributeForm")
    ELSE IF ~U32Fits(vals[k].u) THEN E("InvalidNameAttributeIndex")
    ELSE IF ~FitsNat(vals[k].u) THEN ErrAny ELSE TypeUnit(nx, ToNat(vals[k].u))
AccDie(a, vals) == LET k == FirstAttr(a, vals, 3) IN
    IF k = 0 THEN [none |-> TRUE]
    ELSE IF "off" \notin DOMAIN vals[k] THEN E("UnsupportedAttributeForm") ELSE [ok |-> vals[k].off]
AccParent(a, vals) == LET k == FirstAttr(a, vals, 4) IN
    IF k = 0 THEN [none |-> TRUE]
    ELSE IF "off" \in DOMAIN vals[k] THEN [ok |-> vals[k].off]
    ELSE IF "flag" \in DOMAIN vals[k] /\ vals[k].flag THEN [noparent |-> TRUE]
    ELSE E("UnsupportedAttributeForm")
AccHash(a, vals) == LET k == FirstAttr(a, vals, 5) IN
    IF k = 0 THEN [none |-> TRUE]
    ELSE IF "u" \notin DOMAIN vals[k] THEN E("UnsupportedAttributeForm") ELSE [ok |-> vals[k].u]

(* what gimli reports for the well-laid-out entry e at pool offset off *)
EntryObs(nx, e, off) ==
    LET a == AbbrevOf(nx, e.code) IN
    IF IsZero(a.code) THEN E("InvalidAbbreviationCode")
    ELSE IF \E k \in DOMAIN a.attrs : ~KnownForm(a.attrs[k].form) THEN E("UnknownForm")
    ELSE LET vals == [k \in DOMAIN a.attrs |-> ValObs(a.attrs[k].form, ResolveVal(nx, e.vals[k]))] IN
         [off |-> off, code |-> e.code, tag |-> a.tag,
          attrs |-> [k \in DOMAIN a.attrs |-> [idx |-> a.attrs[k].idx, form |-> a.attrs[k].form, val |-> vals[k]]],
          cu |-> AccCU(nx, a, vals), tu |-> AccTU(nx, a, vals), die |-> AccDie(a, vals),
          parent |-> AccParent(a, vals), type_hash |-> AccHash(a, vals)]

(* entry (i, j) located by pool offset; <<0,0>> if the offset is not an entry start *)
EntryAt(nx, off) ==
    LET S == {p \in {<<i, j>> : i \in DOMAIN nx.names, j \in 1..4} :
                 p[2] <= Len(nx.names[p[1]].series) /\ EntryOff(nx, p[1], p[2]) = off} IN
    IF S = {} THEN <<0, 0>> ELSE CHOOSE p \in S : TRUE
(* follow DW_IDX_parent from entry (i,j): the pool offsets visited, at most `fuel` steps; *)
(* ends with "root" (no indexed parent / no attribute), or "err"                        *)
RECURSIVE ParentChain(_, _, _, _)
ParentChain(nx, p, fuel, acc) ==
    LET o == EntryObs(nx, nx.names[p[1]].series[p[2]], EntryOff(nx, p[1], p[2])) IN
    IF "err" \in DOMAIN o THEN [offs |-> acc, end |-> "err"]
    ELSE IF "ok" \notin DOMAIN o.parent THEN [offs |-> acc, end |-> IF "err" \in DOMAIN o.parent THEN "err" ELSE "root"]
    ELSE IF fuel = 0 THEN [offs |-> acc, end |-> "fuel"]
    ELSE IF ~FitsNat(o.parent.ok) THEN [offs |-> acc, end |-> "err"]
    ELSE LET q == EntryAt(nx, ToNat(o.parent.ok)) IN
         IF q = <<0, 0>> THEN [offs |-> Append(acc, o.parent.ok), end |-> "err"]
         ELSE ParentChain(nx, q, fuel - 1, Append(acc, o.parent.ok))

(* the series of name i (1-based) from its j-th entry: entries up to the first failing *)
(* one, each with the chain of its indexed parents                                     *)
WithChain(o, ch) == [k \in DOMAIN o \cup {"chain"} |-> IF k = "chain" THEN ch ELSE o[k]]
RECURSIVE SeriesFrom(_, _, _, _)
SeriesFrom(nx, i, j, acc) ==
    LET sr == nx.names[i].series IN
    IF j > Len(sr) THEN acc
    ELSE LET o == EntryObs(nx, sr[j], EntryOff(nx, i, j)) IN
         IF "err" \in DOMAIN o THEN Append(acc, o)
         ELSE SeriesFrom(nx, i, j + 1, Append(acc, WithChain(o, ParentChain(nx, <<i, j>>, 6, <<>>))))
SeriesObs(nx, i) == SeriesFrom(nx, i, 1, <<>>)

(* DWARF 5 section 7.33 hash over an ASCII string with section 6.1.1.4.5 case folding *)
FoldAscii(b) == IF b >= 65 /\ b <= 90 THEN b + 32 ELSE b
RECURSIVE DjbFrom(_, _, _)
DjbFrom(s, i, h) == IF i > Len(s) THEN h ELSE DjbFrom(s, i + 1, MulByte(h, 33, FoldAscii(s[i])))
Djb(s) == DjbFrom(s, 1, FromNat(5381, 4))

(* the series gimli yields for an entry offset `off` (name_entries) *)
SeriesObsAt(nx, off) ==
    IF off > PoolSize(nx) THEN ErrAny
    ELSE IF off = PoolSize(nx) THEN <<>>
    ELSE IF \E i \in DOMAIN nx.names : off = EntryOff(nx, i, Len(nx.names[i].series) + 1) THEN <<>>
    ELSE LET p == EntryAt(nx, off) IN SeriesFrom(nx, p[1], p[2], <<>>)

AbbrevBad(nx) == \E a \in DOMAIN nx.abbrevs :
    \/ nx.abbrevs[a].tag = 0
    \/ \E k \in DOMAIN nx.abbrevs[a].attrs : nx.abbrevs[a].attrs[k].idx = 0 \/ nx.abbrevs[a].attrs[k].form = 0

(* Everything gimli reports about one name index.  hp: hash probes (Seq BV4). *)
NamesExp(nx, hp) ==
    LET n == Len(nx.names)
        l == Len(nx.ltus)
        f == Len(nx.ftus) IN
    IF nx.ver # 5 THEN [hdr |-> E("UnknownVersion")]
    ELSE
    [hdr |-> [fmt |-> nx.fmt, ver |-> nx.ver, cu_count |-> Len(nx.cus), ltu_count |-> l, ftu_count |-> f,
              bucket_count |-> nx.bcount, name_count |-> n, abbrev_size |-> Len(EncAbbrevs(nx)), aug |-> nx.aug],
     index |-> IF AbbrevBad(nx) THEN ErrAny ELSE
       [cus  |-> [i \in 1..(Len(nx.cus) + 1) |-> ListGet(nx.cus, i - 1)],
        ltus |-> [i \in 1..(l + 1) |-> ListGet(nx.ltus, i - 1)],
        ftus |-> [i \in 1..(f + 1) |-> ListGet(nx.ftus, i - 1)],
        tus  |-> [i \in 1..(l + f + 1) |-> TypeUnit(nx, i - 1)],
        default_cu |-> IF Len(nx.cus) = 1 THEN [ok |-> nx.cus[1]] ELSE [none |-> TRUE],
        buckets |-> [b \in 1..(nx.bcount + 1) |-> BucketCoded(nx, b - 1)],
        by_hash |-> [k \in DOMAIN hp |-> HashCoded(nx, hp[k])],
        names_iter |-> [i \in 1..n |-> i - 1],
        names |-> [i \in 1..(n + 1) |->
                     IF i > n THEN [stroff |-> ErrAny, series |-> ErrAny]
                     ELSE [stroff |-> [ok |-> nx.names[i].stroff],
                           series |-> SeriesObsAt(nx, EntryOffsets(nx)[i])]]]]

(***************************************************************************)
(* 4. Aranges (.debug_aranges)                                             *)
(*                                                                         *)
(* Abstract set: [fmt, ver, info (Nat), asz, seg, tuples : Seq [b, l]      *)
(* (BV of width asz), tail : bytes (an incomplete trailing tuple)].        *)
(* The first tuple starts at a multiple of 2*asz from the set start.       *)
(***************************************************************************)
ArHeaderLen(fmt) == (IF fmt = 64 THEN 12 ELSE 4) + 2 + WordSize(fmt) + 1 + 1
ArPad(fmt, asz) == LET t == 2 * asz IN IF t = 0 THEN 0 ELSE (t - (ArHeaderLen(fmt) % t)) % t
EncArSet(a, le) ==
    LET w == IF a.asz \in {1, 2, 4, 8} THEN a.asz ELSE 1
        body == U16(a.ver, le) \o Word(a.info, a.fmt, le) \o <<a.asz, a.seg>>
                \o (IF "padbytes" \in DOMAIN a THEN a.padbytes ELSE [i \in 1..ArPad(a.fmt, w) |-> 170])
                \o FlatW([i \in 1..(2 * Len(a.tuples)) |->
                            Lay(IF i % 2 = 1 THEN a.tuples[(i + 1) \div 2].b ELSE a.tuples[i \div 2].l, le)], w)
                \o a.tail
    IN InitLen(a.fmt, Len(body), le) \o body
ArHeaderOk(a) == a.ver \in {2, 3} /\ a.asz \in {1, 2, 4, 8} /\ a.seg = 0
ArHeaderObs(a, off) ==
    IF ~ArHeaderOk(a) THEN ErrAny
    ELSE [offset |-> off, fmt |-> a.fmt, ver |-> a.ver, asz |-> a.asz, info |-> a.info,
          length |-> Len(EncArSet(a, TRUE)) - (IF a.fmt = 64 THEN 12 ELSE 4)]
IsTomb(b) == LET n == Len(b) IN (\A i \in 2..n : b[i] = 255) /\ b[1] >= 254     \* >= -2
ZeroTuple(t) == IsZero(t.b) /\ IsZero(t.l)
(* next_raw(): every tuple that is not (0,0); the (0,0) "terminator" is skipped, not honoured *)
ArRaw(a) == SelectSeq(a.tuples, LAMBDA t : ~ZeroTuple(t))
(* next(): tombstones (begin >= -2) dropped; begin + length overflowing the address size is *)
(* an error; AS CODED the iteration continues after such an error                           *)
ArItem(t) == IF AddOverflows(t.b, t.l) THEN E("AddressOverflow")
             ELSE [b |-> ZExt(t.b, 8), l |-> ZExt(t.l, 8), e |-> ZExt(Add(t.b, t.l), 8)]
ArCooked(a) == LET r == SelectSeq(ArRaw(a), LAMBDA t : ~IsTomb(t.b)) IN [i \in DOMAIN r |-> ArItem(r[i])]
RECURSIVE UpToFirstErr(_)
UpToFirstErr(sq) == IF sq = <<>> THEN <<>>
                    ELSE IF "err" \in DOMAIN Head(sq) THEN <<Head(sq)>> ELSE <<Head(sq)>> \o UpToFirstErr(Tail(sq))
RECURSIVE Before0(_)
Before0(ts) == IF ts = <<>> \/ ZeroTuple(Head(ts)) THEN <<>> ELSE <<Head(ts)>> \o Before0(Tail(ts))
(* the property also admits the standard's reading: the set ends at the first (0,0) tuple, *)
(* and an iterator that is fused after an error                                            *)
ArCookedOf(ts) == LET r == SelectSeq(ts, LAMBDA t : ~ZeroTuple(t) /\ ~IsTomb(t.b)) IN [i \in DOMAIN r |-> ArItem(r[i])]
ArAllowed(a) == LET full == ArCookedOf(a.tuples)
                    std  == ArCookedOf(Before0(a.tuples)) IN
                <<full, std, UpToFirstErr(full), UpToFirstErr(std)>>
RawObsOf(ts) == LET r == SelectSeq(ts, LAMBDA t : ~ZeroTuple(t)) IN [i \in DOMAIN r |-> [b |-> ZExt(r[i].b, 8), l |-> ZExt(r[i].l, 8)]]
ArRawObs(a) == RawObsOf(a.tuples)

(* a section of several sets: headers() stops at the first bad header *)
RECURSIVE ArSection(_, _, _)
ArSection(sets, k, off) ==
    IF k > Len(sets) THEN <<>>
    ELSE IF ~ArHeaderOk(sets[k]) THEN <<[hdr |-> ErrAny]>>
    ELSE <<[hdr |-> ArHeaderObs(sets[k], off), raw |-> ArRawObs(sets[k]), entries |-> ArCooked(sets[k]),
            raw_allowed |-> <<ArRawObs(sets[k]), RawObsOf(Before0(sets[k].tuples))>>,
            allowed |-> ArAllowed(sets[k])]>>
         \o ArSection(sets, k + 1, off + Len(EncArSet(sets[k], TRUE)))

(***************************************************************************)
(* 5. .debug_pubnames / .debug_pubtypes                                    *)
(* set: [fmt, ver, uoff, ulen, entries : Seq [die (Nat # 0), name (bytes)],*)
(*       term : BOOLEAN, tail : bytes after the terminator]                *)
(***************************************************************************)
EncPubSet(p, le) ==
    LET body == U16(p.ver, le) \o Word(p.uoff, p.fmt, le) \o Word(p.ulen, p.fmt, le)
                \o Flat([i \in DOMAIN p.entries |-> Word(p.entries[i].die, p.fmt, le) \o p.entries[i].name \o <<0>>])
                \o (IF p.term THEN Word(0, p.fmt, le) \o p.tail ELSE <<>>)
    IN InitLen(p.fmt, Len(body), le) \o body
(* the exhaustive scan: every entry of every set in order, until a set has a bad version *)
RECURSIVE PubItems(_, _)
PubItems(sets, k) ==
    IF k > Len(sets) THEN <<>>
    ELSE IF sets[k].ver # 2 THEN <<E("UnknownVersion")>>
    ELSE [i \in DOMAIN sets[k].entries |->
             [unit |-> sets[k].uoff, die |-> sets[k].entries[i].die, name |-> sets[k].entries[i].name]]
         \o PubItems(sets, k + 1)

(***************************************************************************)
(* 6. Indexed tables: DebugStrOffsets::get_str_offset, DebugAddr::get_address *)
(* table: [pre : bytes before the base, w : entry width, entries : Seq BV,   *)
(*         tail : incomplete trailing entry]                                 *)
(***************************************************************************)
EncTable(t, le) == t.pre \o FlatW([i \in DOMAIN t.entries |-> Lay(t.entries[i], le)], t.w) \o t.tail
(* lookup with base = Len(pre): the entry if index < number of entries, otherwise an error *)
TableGet(t, index) == IF index < Len(t.entries) THEN [ok |-> ZExt(t.entries[index + 1], 8)] ELSE ErrAny
(* the index is a full 64-bit value in the API (ULEB128 DW_FORM_strx / addrx); tables have < 2^31 entries *)
TableGetBV(t, ibv) == IF FitsNat(ibv) THEN TableGet(t, ToNat(ibv)) ELSE ErrAny

(***************************************************************************)
(* 7. The section loader as a function SectionId -> field.                 *)
(*                                                                         *)
(* A loader is a function id -> data (or a failure for one id).  Each API  *)
(* requests a fixed set of ids, each exactly once, and stores the data of  *)
(* id X in the field for X and nowhere else.  A failure of a requested id  *)
(* is returned; a failing id that is not requested is never seen.          *)
(***************************************************************************)
AllIds == <<"DebugAbbrev", "DebugAddr", "DebugAranges", "DebugCuIndex", "DebugFrame", "EhFrame", "EhFrameHdr",
            "DebugInfo", "DebugLine", "DebugLineStr", "DebugLoc", "DebugLocLists", "DebugMacinfo", "DebugMacro",
            "DebugNames", "DebugPubNames", "DebugPubTypes", "DebugRanges", "DebugRngLists", "DebugStr",
            "DebugStrOffsets", "DebugTuIndex", "DebugTypes">>
IdSet == Range(AllIds)
DwarfIds == {"DebugAbbrev", "DebugAddr", "DebugAranges", "DebugInfo", "DebugLine", "DebugLineStr", "DebugMacinfo",
             "DebugMacro", "DebugNames", "DebugStr", "DebugStrOffsets", "DebugTypes", "DebugLoc", "DebugLocLists",
             "DebugRanges", "DebugRngLists"}
PackageIds == {"DebugCuIndex", "DebugTuIndex", "DebugAbbrev", "DebugInfo", "DebugLine", "DebugMacinfo", "DebugMacro",
               "DebugStr", "DebugStrOffsets", "DebugLoc", "DebugLocLists", "DebugRngLists", "DebugTypes"}
LoaderApis == {"Dwarf::load", "DwarfSections::load", "DwarfSections::borrow", "Dwarf::borrow", "Dwarf::load_sup",
               "DwarfSections::borrow_with_sup", "Dwarf::make_dwo",
               "DwarfPackageSections::load", "DwarfPackageSections::borrow", "DwarfPackage::load"}
IsPackageApi(api) == api \in {"DwarfPackageSections::load", "DwarfPackageSections::borrow", "DwarfPackage::load"}
Requested(api) == IF IsPackageApi(api) THEN PackageIds ELSE DwarfIds
(* main, sup, parent : id -> bytes.  fail: the id whose load fails, or "none". *)
LoaderExp(api, main, sup, parent, fail) ==
    IF fail \in Requested(api) THEN [outcome |-> [failed |-> fail], requested_has |-> fail]
    ELSE [outcome |-> [ok |-> TRUE],
          requested |-> Requested(api),
          fields |-> [f \in Requested(api) |->
                        IF api = "Dwarf::make_dwo" /\ f \in {"DebugAddr", "DebugRanges"} THEN parent[f] ELSE main[f]],
          sup_fields |-> IF api \in {"Dwarf::load_sup", "DwarfSections::borrow_with_sup"} THEN [f \in DwarfIds |-> sup[f]]
                         ELSE IF api = "Dwarf::make_dwo" THEN [f \in DwarfIds |-> sup[f]]       \* the parent's sup
                         ELSE [none |-> TRUE],
          file_type |-> IF api = "Dwarf::make_dwo" THEN "Dwo" ELSE "Main"]

(***************************************************************************)
(* Uniform name indexes (used for large tables in trace validation): one   *)
(* abbreviation (code 1, DW_TAG_subprogram, DW_IDX_die_offset/ref4), one   *)
(* entry per name.  hint: [fmt, cus, bcount, buckets, hashes, stroffs,     *)
(* dies (BV4)].  EncNamesUniform is a linear-time layout; MCNames checks   *)
(* that it equals the general EncNames of UniformNx(hint).                 *)
(***************************************************************************)
UniformAbbrevs == << [code |-> One(8), tag |-> 46, attrs |-> <<[idx |-> 3, form |-> F_ref4]>>] >>
UniformNx(h) == [fmt |-> h.fmt, ver |-> 5, aug |-> <<>>, cus |-> h.cus, ltus |-> <<>>, ftus |-> <<>>,
                 bcount |-> h.bcount, buckets |-> h.buckets, hashes |-> h.hashes,
                 names |-> [i \in DOMAIN h.stroffs |->
                              [stroff |-> h.stroffs[i],
                               series |-> << [code |-> One(8), vals |-> <<[v |-> ZExt(h.dies[i], 8), to |-> <<0, 0>>]>>] >>]],
                 abbrevs |-> UniformAbbrevs, term |-> TRUE, abbrev_pad |-> <<>>, eoffs |-> <<>>]
EncNamesUniform(h, le) ==
    LET n == Len(h.stroffs)
        w == WordSize(h.fmt)
        body == U16(5, le) \o <<0, 0>> \o U32(Len(h.cus), le) \o U32(0, le) \o U32(0, le)
                \o U32(h.bcount, le) \o U32(n, le) \o U32(7, le) \o U32(0, le)
                \o FlatW([i \in DOMAIN h.cus |-> Word(h.cus[i], h.fmt, le)], w)
                \o FlatW([i \in DOMAIN h.buckets |-> U32(h.buckets[i], le)], 4)
                \o (IF h.bcount = 0 THEN <<>> ELSE FlatW([i \in 1..n |-> Lay(h.hashes[i], le)], 4))
                \o FlatW([i \in 1..n |-> Word(h.stroffs[i], h.fmt, le)], w)
                \o FlatW([i \in 1..n |-> Word(6 * (i - 1), h.fmt, le)], w)
                \o <<1, 46, 3, 19, 0, 0, 0>>
                \o FlatW([i \in 1..n |-> <<1>> \o Lay(h.dies[i], le) \o <<0>>], 6)
    IN InitLen(h.fmt, Len(body), le) \o body

(***************************************************************************)
(* 8. Decoders for fixed-layout tables of real (corpus) sections.          *)
(* For recorded real sections there is no construction hint; the abstract  *)
(* table is read off the bytes by these layout decoders (the inverse of    *)
(* the encoders above: LookupTrace checks Enc(Dec(bytes)) = bytes), and    *)
(* the lookups are then judged against the scan of that table.             *)
(* Counts and offsets of corpus tables are < 2^31.                         *)
(***************************************************************************)
RdBV(b, pos, w, le) == Lay(SubSeq(b, pos, pos + w - 1), le)
RdN(b, pos, w, le) == ToNat(RdBV(b, pos, w, le))
DecIndex(b, le) ==
    LET ver == IF RdN(b, 1, 4, le) = 2 THEN 2 ELSE RdN(b, 1, 2, le)
        sc  == RdN(b, 5, 4, le)
        uc  == RdN(b, 9, 4, le)
        N   == RdN(b, 13, 4, le)
        pi  == 17
        pr  == pi + 8 * N
        pc  == pr + 4 * N
        po  == pc + 4 * sc
        pz  == po + 4 * uc * sc IN
    [ver |-> ver,
     cols |-> Strict([c \in 1..sc |-> RdN(b, pc + 4 * (c - 1), 4, le)]),
     slots |-> Strict([i \in 1..N |-> [id |-> RdBV(b, pi + 8 * (i - 1), 8, le), row |-> RdBV(b, pr + 4 * (i - 1), 4, le)]]),
     rows |-> Strict([r \in 1..uc |-> Strict([c \in 1..sc |->
                 [off |-> RdBV(b, po + 4 * ((r - 1) * sc + c - 1), 4, le),
                  size |-> RdBV(b, pz + 4 * ((r - 1) * sc + c - 1), 4, le)]])])]

(* initial length at pos: [fmt, len, n (bytes of the length field)] *)
RdInitLen(b, pos, le) == IF SubSeq(b, pos, pos + 3) = <<255, 255, 255, 255>>
                         THEN [fmt |-> 64, len |-> RdN(b, pos + 4, 8, le), n |-> 12]
                         ELSE [fmt |-> 32, len |-> RdN(b, pos, 4, le), n |-> 4]
RECURSIVE DecArSets(_, _, _)
DecArSets(b, le, pos) ==
    IF pos > Len(b) THEN <<>>
    ELSE LET il  == RdInitLen(b, pos, le)
             w   == WordSize(il.fmt)
             p   == pos + il.n
             asz == b[p + 2 + w]
             fst == pos + ArHeaderLen(il.fmt) + ArPad(il.fmt, asz)       \* first tuple
             lst == pos + il.n + il.len - 1                               \* last byte of the set
             cnt == (lst - fst + 1) \div (2 * asz) IN
         <<[fmt |-> il.fmt, ver |-> RdN(b, p, 2, le), info |-> RdN(b, p + 2, w, le), asz |-> asz, seg |-> b[p + 3 + w],
            tuples |-> Strict([i \in 1..cnt |-> [b |-> RdBV(b, fst + 2 * asz * (i - 1), asz, le),
                                                 l |-> RdBV(b, fst + 2 * asz * (i - 1) + asz, asz, le)]]),
            tail |-> SubSeq(b, fst + 2 * asz * cnt, lst),
            padbytes |-> SubSeq(b, pos + ArHeaderLen(il.fmt), fst - 1)]>>
         \o DecArSets(b, le, lst + 1)

(* name index header and fixed-width arrays (the entry pool is not decoded) *)
DecNamesLite(b, le) ==
    LET il == RdInitLen(b, 1, le)
        w  == WordSize(il.fmt)
        p  == 1 + il.n
        cc == RdN(b, p + 4, 4, le)
        lc == RdN(b, p + 8, 4, le)
        fc == RdN(b, p + 12, 4, le)
        B  == RdN(b, p + 16, 4, le)
        n  == RdN(b, p + 20, 4, le)
        ab == RdN(b, p + 24, 4, le)
        au == RdN(b, p + 28, 4, le)
        pcu == p + 32 + au + AugPad(au)
        pbk == pcu + w * cc + w * lc + 8 * fc
        phs == pbk + 4 * B
        pso == phs + (IF B = 0 THEN 0 ELSE 4 * n)
        peo == pso + w * n IN
    [fmt |-> il.fmt, ver |-> RdN(b, p, 2, le), bcount |-> B,
     cus |-> Strict([i \in 1..cc |-> RdN(b, pcu + w * (i - 1), w, le)]),
     buckets |-> Strict([i \in 1..B |-> RdN(b, pbk + 4 * (i - 1), 4, le)]),
     hashes |-> Strict([i \in 1..n |-> RdBV(b, phs + 4 * (i - 1), 4, le)]),
     stroffs |-> Strict([i \in 1..n |-> RdN(b, pso + w * (i - 1), w, le)]),
     eoffs |-> Strict([i \in 1..n |-> RdN(b, peo + w * (i - 1), w, le)]),
     abbrev_size |-> ab, pool_at |-> peo + w * n + ab]

RECURSIVE DecPubEntries(_, _, _, _, _)
DecPubEntries(b, le, fmt, pos, lst) ==          \* [entries, term, rest (position after the terminator)]
    LET w == WordSize(fmt) IN
    IF pos + w - 1 > lst THEN [entries |-> <<>>, term |-> FALSE, rest |-> pos]
    ELSE LET d == RdN(b, pos, w, le) IN
         IF d = 0 THEN [entries |-> <<>>, term |-> TRUE, rest |-> pos + w]
         ELSE LET z == NulFrom(b, pos + w)
                  r == DecPubEntries(b, le, fmt, z + 1, lst) IN
              [entries |-> <<[die |-> d, name |-> SubSeq(b, pos + w, z - 1)]>> \o r.entries, term |-> r.term, rest |-> r.rest]
RECURSIVE DecPubSets(_, _, _)
DecPubSets(b, le, pos) ==
    IF pos > Len(b) THEN <<>>
    ELSE LET il  == RdInitLen(b, pos, le)
             w   == WordSize(il.fmt)
             p   == pos + il.n
             lst == pos + il.n + il.len - 1
             es  == DecPubEntries(b, le, il.fmt, p + 2 + 2 * w, lst) IN
         <<[fmt |-> il.fmt, ver |-> RdN(b, p, 2, le), uoff |-> RdN(b, p + 2, w, le), ulen |-> RdN(b, p + 2 + w, w, le),
            entries |-> es.entries, term |-> es.term, tail |-> IF es.term THEN SubSeq(b, es.rest, lst) ELSE <<>>]>>
         \o DecPubSets(b, le, lst + 1)

DecTable(b, base, w, le) ==
    LET n == (Len(b) - base) \div w IN
    [pre |-> SubSeq(b, 1, base), w |-> w,
     entries |-> Strict([i \in 1..n |-> RdBV(b, base + w * (i - 1) + 1, w, le)]),
     tail |-> SubSeq(b, base + w * n + 1, Len(b))]
=============================================================================
