--------------------------- MODULE LineWriterTrace ---------------------------
(* Trace validation for the line-program writer (C13, binding V): random   *)
(* multi-sequence call scripts with 64-bit addresses, lines, columns,      *)
(* discriminators and isa values are performed on gimli::write, written    *)
(* and read back with gimli::read.  The spec keeps the MEANING of the      *)
(* calls on byte tuples (the rows a reader must report, LineWriter!Meaning *)
(* at 64 bits): address = last set address + (offset - offset at that      *)
(* time), file index 1-based up to version 4; an end_sequence row is       *)
(* compared on address, op_index and the flag.  The `Back` event (what was *)
(* read back) must equal it.                                               *)
EXTENDS LineSM, Json, IOUtils
VARIABLES l, P, st
Rec == ndJsonDeserialize(IOEnv.TRACE)
IsEv(e) == l <= Len(Rec) /\ Rec[l].ev = e /\ l' = l + 1

StInit == [A |-> Z8, O |-> Z8, poff |-> Z8, popi |-> Z8, rows |-> <<>>]
New == IsEv("New") /\ P' = Rec[l].P /\ st' = StInit
Fl(r) == (IF r.stmt THEN 1 ELSE 0) + (IF r.bb THEN 2 ELSE 0) + (IF r.pe THEN 8 ELSE 0) + (IF r.eb THEN 16 ELSE 0)
Call == IsEv("Call") /\ P' = P /\ LET c == Rec[l].c IN
    CASE c[1] = "begin" -> st' = IF c[2] = <<>> THEN st ELSE [st EXCEPT !.A = c[2][1], !.O = st.poff]
      [] c[1] = "addr" -> st' = [st EXCEPT !.A = c[2], !.O = st.poff]
      [] c[1] = "row" ->
           LET r == c[2] IN
           st' = [st EXCEPT !.rows = Append(@, <<Trim(Add(st.A, Sub(r.off, st.O))), Trim(r.opi),
                                                  Trim(Nat8(IF P.ver <= 4 THEN r.file + 1 ELSE r.file)), Trim(r.line),
                                                  Trim(r.col), Fl(r), Trim(r.isa), Trim(r.disc)>>),
                            !.poff = r.off, !.popi = r.opi]
      [] c[1] = "end" ->
           st' = [StInit EXCEPT !.rows = Append(st.rows, <<Trim(Add(st.A, Sub(c[2], st.O))), Trim(st.popi), "end">>)]
SameRow(m, g) == IF Len(m) = 3 THEN RowEs(g) /\ g[1] = m[1] /\ g[2] = m[2] ELSE g = m
Back == IsEv("Back") /\ UNCHANGED <<P, st>> /\ LET r == Rec[l] IN
    /\ r.ok /\ r.rerr = ""
    /\ Len(r.rows) = Len(st.rows) /\ \A k \in 1..Len(st.rows) : SameRow(st.rows[k], r.rows[k])
Init == l = 1 /\ P = <<>> /\ st = <<>>
Next == New \/ Call \/ Back
Accepted == LET d == TLCGet("stats").diameter IN
            IF d - 1 = Len(Rec) THEN TRUE
            ELSE Print(<<"UNMATCHED", d, ToJson(Rec[d])>>, FALSE)
=============================================================================
