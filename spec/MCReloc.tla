------------------------------ MODULE MCReloc ------------------------------
(***************************************************************************)
(* Bounded model for C18.  One state per case.                             *)
(* Read side: structure (unit v2-5 / type unit, line v4, line v5 with      *)
(* line_strp or strp forms, .debug_ranges, .debug_rnglists, CIE+CIE+FDE)   *)
(* x address size x every non-empty set of <= MaxRel relocatable fields    *)
(* x addends {1, 0x1000, -1 mod 2^W}.  TLC checks Transparent inside the   *)
(* model and emits the section, the field map, the relocation map, the     *)
(* pre-applied section and the expected Relocate callbacks.                *)
(* Write side: scripts of <= MaxCalls writer calls over an alphabet of     *)
(* udata / address (constant, symbolic) / offset / offset_at / eh_pointer  *)
(* calls; TLC checks ApplyW(recorded) = direct and emits both expected     *)
(* outcomes.                                                               *)
(***************************************************************************)
EXTENDS Reloc, TLC, Json
CONSTANTS MaxRel, MaxCalls, FullScripts
VARIABLE c

Structs ==
    { [k |-> "unit", ver |-> v, tu |-> FALSE, asz |-> a, form |-> 0] : v \in {2, 3, 4, 5}, a \in {4, 8} }
    \cup { [k |-> "unit", ver |-> 5, tu |-> TRUE, asz |-> a, form |-> 0] : a \in {4, 8} }
    (* 64-bit DWARF format units; quick tier: address size 8, compile units *)
    \cup { [k |-> "unit64", ver |-> v, tu |-> FALSE, asz |-> a, form |-> 0] :
              v \in {2, 3, 4, 5}, a \in (IF FullScripts THEN {4, 8} ELSE {8}) }
    \cup { [k |-> "unit64", ver |-> 5, tu |-> TRUE, asz |-> a, form |-> 0] : a \in (IF FullScripts THEN {4, 8} ELSE {}) }
    (* expression operands; `form` carries the DWARF format (32/64) *)
    \cup { [k |-> "expr", ver |-> v, tu |-> FALSE, asz |-> a, form |-> f] :
              v \in {2, 3, 4, 5}, f \in {32, 64}, a \in (IF FullScripts THEN {4, 8} ELSE {8}) }
    (* encoded pointers: `form` = pointer format, `ver` = application nibble of the FDE encoding *)
    \cup { [k |-> "ehframe", ver |-> app, tu |-> FALSE, asz |-> a, form |-> f] :
              app \in {0, 16}, f \in EhFormats, a \in (IF FullScripts THEN {4, 8} ELSE {8}) }
    \cup { [k |-> "ehhdr", ver |-> 0, tu |-> FALSE, asz |-> a, form |-> f] :
              f \in EhFormats, a \in (IF FullScripts THEN {4, 8} ELSE {8}) }
    \cup { [k |-> "line4", ver |-> 4, tu |-> FALSE, asz |-> a, form |-> 0] : a \in {4, 8} }
    \cup { [k |-> "line5", ver |-> 5, tu |-> FALSE, asz |-> a, form |-> f] : a \in {4, 8}, f \in {31, 14} }
    \cup { [k |-> kk, ver |-> 4, tu |-> FALSE, asz |-> a, form |-> 0] : kk \in {"ranges", "frame"}, a \in {4, 8} }
    \cup { [k |-> "rnglists", ver |-> 5, tu |-> FALSE, asz |-> a, form |-> 0] : a \in {4, 8} }

Fields(s) == CASE s.k = "unit"     -> Unit(s.ver, s.asz, s.tu)
               [] s.k = "unit64"   -> Unit64(s.ver, s.asz, s.tu)
               [] s.k = "expr"     -> ExprUnit(s.ver, s.asz, s.form)
               [] s.k = "ehframe"  -> EhFrameSec(s.asz, s.form, s.ver)
               [] s.k = "ehhdr"    -> EhHdrSec(s.asz, s.form)
               [] s.k = "line4"    -> LineV4(s.asz)
               [] s.k = "line5"    -> LineV5(s.asz, s.form)
               [] s.k = "ranges"   -> Ranges(s.asz)
               [] s.k = "rnglists" -> RngLists(s.asz)
               [] s.k = "frame"    -> Frame(s.asz)
(* companion sections that carry no relocation *)
Aux(s) == CASE s.k = "unit"  -> [abbrev |-> AbbrevTable(s.ver)]
            [] s.k = "unit64" -> [abbrev |-> AbbrevTable64(s.ver)]
            [] s.k = "expr"   -> [abbrev |-> AbbrevExpr(s.ver)]
            [] s.k = "line5" -> [str |-> StrSection]
            [] OTHER -> [none |-> <<>>]

Addend(j, w) == IF j = 1 THEN FromNat(1, w) ELSE IF j = 2 THEN FromNat(4096, w) ELSE Ones(w)

(*------------------------------ write side -------------------------------*)
Sym == <<FromNat(4198400, 8), <<0, 0, 0, 128, 255, 255, 255, 255>>>>     \* 0x401000, 0xffffffff80000000
Call(cc, v, size, t, pe, at) == [c |-> cc, v |-> v, size |-> size, t |-> t, pe |-> pe, at |-> at]
Vals == {FromNat(0, 8), FromNat(48, 8), FromNat(305419896, 8), Ones(8), <<0, 0, 0, 0, 1, 0, 0, 0>>}
Adds == {FromNat(0, 8), FromNat(1, 8), FromNat(4096, 8), Ones(8)}
Pes  == {0, 3, 4, 11, 12, 27, 16, 48, 2}        \* absptr, udata4, udata8, sdata4, sdata8, pcrel|sdata4, pcrel, funcrel, udata2
Alphabet ==
    { Call("udata", v, sz, 0, -1, 0) : v \in {FromNat(305419896, 8), FromNat(7, 8)}, sz \in {4, 8, 3} }
    \cup { Call("addr_const", v, sz, 0, -1, 0) : v \in Vals, sz \in {4, 8} }
    \cup { Call("addr_sym", a, sz, t, -1, 0) : a \in Adds, sz \in {4, 8}, t \in {1, 2} }
    \cup { Call("offset", v, sz, t, -1, 0) : v \in {FromNat(0, 8), FromNat(48, 8)}, sz \in {4, 8}, t \in {1, 2} }
    \cup { Call("offset_at", FromNat(48, 8), sz, 1, -1, at) : sz \in {4, 8}, at \in {0, 2} }
    \cup { Call("eh_const", v, 8, 0, pe, 0) : v \in {FromNat(48, 8), FromNat(305419896, 8), Ones(8)}, pe \in Pes }
    \cup { Call("eh_sym", a, sz, t, pe, 0) : a \in {FromNat(0, 8), Ones(8)}, sz \in {4, 8}, t \in {1, 2}, pe \in Pes }
(* the direct script: symbols resolved by the model *)
Resolve(cl) == IF cl.c = "addr_sym" THEN [cl EXCEPT !.c = "addr_const", !.v = Add(Sym[cl.t], cl.v)]
               ELSE IF cl.c = "eh_sym" THEN [cl EXCEPT !.c = "eh_const", !.v = Add(Sym[cl.t], cl.v)]
               ELSE cl

(* Reader's variables are not used by this model (only its operators) *)
Init == /\ c = [stage |-> 0, side |-> "none", calls |-> <<>>]
        /\ buf = <<>> /\ le = TRUE /\ hs = <<>> /\ res = OkUnit
NextC ==
    (* pick the structure first (so that TLC's workers share the fan-out) *)
    \/ /\ c.stage = 0
       /\ \E s \in Structs : c' = [stage |-> 3, side |-> "pick", s |-> s, calls |-> <<>>]
    \/ /\ c.stage = 3
       /\ LET fs == Fields(c.s) IN
            \E I \in SUBSET RelIdx(fs) :
               /\ Cardinality(I) >= 1 /\ Cardinality(I) <= MaxRel
               /\ \E a \in [I -> 1..3] :
                    c' = [stage |-> 1, side |-> "read", s |-> c.s, rels |-> [i \in I |-> Addend(a[i], Len(fs[i].bytes))],
                          calls |-> <<>>]
    (* a structure without relocations: the baseline parse must succeed *)
    \/ /\ c.stage = 0
       /\ \E s \in Structs : c' = [stage |-> 1, side |-> "read", s |-> s, rels |-> <<>>, calls |-> <<>>]
    \/ /\ c.stage \in {0, 2} /\ Len(c.calls) < MaxCalls
       /\ \E cl \in Alphabet :
            (* quick tier: scripts of two or more calls start with plain placeholders *)
            /\ (~FullScripts /\ Len(c.calls) + 1 < MaxCalls) => cl.c = "udata"
            (* write_offset_at is a fix-up of a previously written plain placeholder *)
            /\ cl.c = "offset_at" => LET w == RunRec(W0, c.calls, 1) IN
                                      \A i \in DOMAIN w.rels :
                                         w.rels[i].off + w.rels[i].size <= cl.at \/ cl.at + cl.size <= w.rels[i].off
            /\ c' = [stage |-> 2, side |-> "write", calls |-> Append(c.calls, cl)]

Next == UNCHANGED rvars /\ NextC

ReadCase ==
    LET fs == Fields(c.s)
        ap == Apply(fs, c.rels) IN
    [sys |-> "reloc", side |-> "read", kind |-> c.s.k, ver |-> c.s.ver, asz |-> c.s.asz, tu |-> c.s.tu,
     form |-> c.s.form, main |-> Cat(fs), applied |-> Cat(ap), aux |-> Aux(c.s),
     fields |-> FieldMap(fs), relmap |-> RelMap(fs, c.rels), calls |-> ExpectCalls(fs, c.rels),
     nrel |-> Cardinality(DOMAIN c.rels)]
WProj(w) == [ok |-> w.ok, bytes |-> w.bytes, rels |-> w.rels]
WriteCase ==
    [sys |-> "reloc", side |-> "write", calls |-> c.calls,
     dcalls |-> [i \in DOMAIN c.calls |-> Resolve(c.calls[i])],
     rec |-> WProj(RunRec(W0, c.calls, 1)),
     dir |-> WProj(RunDir(W0, c.calls, Sym, 1))]

Inv == /\ c.stage = 1 => /\ Transparent(Fields(c.s), c.rels)
                         /\ PrintT(<<"CASE", ToJson(ReadCase)>>)
       /\ c.stage = 2 => /\ WriteTransparent(c.calls, Sym)
                         /\ PrintT(<<"CASE", ToJson(WriteCase)>>)
=============================================================================
