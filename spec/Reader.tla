------------------------------- MODULE Reader -------------------------------
(***************************************************************************)
(* The cursor model of gimli's `Reader` trait (C10, reused by C18).        *)
(*                                                                         *)
(* A reader is a window [s, e) into one immutable section buffer `buf`.    *)
(* All reader kinds (EndianSlice, EndianRcSlice, EndianArcSlice,           *)
(* EndianReader<custom buffer>, RelocateReader<identity>) are specified by *)
(* this one module: "results independent of the reader kind" is expressed  *)
(* by the absence of a kind parameter.                                     *)
(*                                                                         *)
(* Shape of the code:                                                      *)
(*  - every fallible operation checks `len < n` first and returns          *)
(*    UnexpectedEof(offset_id of the unchanged reader) leaving the window  *)
(*    untouched (EndianSlice::read_slice/skip/truncate/split,              *)
(*    EndianReader::{skip,truncate,split,read_slice} over SubRange,        *)
(*    RelocateReader::split = clone; truncate?; skip?);                    *)
(*  - read_address / read_sized_offset reject sizes other than 1,2,4,8     *)
(*    before touching the input;                                           *)
(*  - read_null_terminated_slice = find(0); split(idx); skip(1);           *)
(*  - offset ids are addresses: lookup_offset_id(id) succeeds iff          *)
(*    start(target) <= id <= end(target) (end inclusive, as coded);        *)
(*  - empty() = truncate(0): the window collapses at its *current start*   *)
(*    (EndianReader::empty).  The ghost flag `emp` records that a window   *)
(*    went through Empty; no result depends on it -- it exists only so     *)
(*    that the driver can attribute divergences (EndianSlice::empty        *)
(*    installs a static empty slice instead, see notes/C10.md).            *)
(*                                                                         *)
(* Deviation from DESIGN.md: `buf` is a variable that no action changes    *)
(* (not a CONSTANT) so that one TLC run covers several buffers and the     *)
(* trace spec can load the recorded buffer.                                *)
(*                                                                         *)
(* Handles: hs \in [1..MaxHandles -> window]; handle 0 denotes the         *)
(* pristine section reader (never modified; base of offset_from and        *)
(* target of lookup_offset_id).                                            *)
(***************************************************************************)
EXTENDS BV, FiniteSets

VARIABLES buf,   \* the section bytes, Seq(0..255)
          le,    \* TRUE = little endian
          hs,    \* handle table
          res    \* result of the last operation
rvars == <<buf, le, hs, res>>

Dead == [live |-> FALSE, s |-> 0, e |-> 0, emp |-> FALSE]
Mk(s, e, emp) == [live |-> TRUE, s |-> s, e |-> e, emp |-> emp]
RootW(b) == Mk(0, Len(b), FALSE)
WLen(w) == w.e - w.s
Bytes(b, w) == SubSeq(b, w.s + 1, w.e)
W(b, t, i) == IF i = 0 THEN RootW(b) ELSE t[i]
LiveSet(t) == {h \in DOMAIN t : t[h].live}
InitHs(b, mh) == [i \in 1..mh |-> IF i = 1 THEN RootW(b) ELSE Dead]

(*-------------------------------- results --------------------------------*)
OkUnit    == [k |-> "ok"]
OkV(v)    == [k |-> "ok", v |-> v]          \* integer value as BV of width 8
OkB(x)    == [k |-> "ok", bytes |-> x]      \* copied-out bytes / string bytes
OkN(n)    == [k |-> "ok", n |-> n]          \* index / offset
OkD(d)    == [k |-> "ok", dst |-> d]        \* a new reader was stored in slot d
OkLossy   == [k |-> "ok", lossy |-> TRUE]   \* owned string with replacement characters
NoneR     == [k |-> "none"]
Eof(w)    == [k |-> "err", e |-> "UnexpectedEof", at |-> w.s]
Err(name) == [k |-> "err", e |-> name]
Panic     == [k |-> "panic"]
R(t, r)   == [hs |-> t, res |-> r]

(*------------------------------- helpers ---------------------------------*)
Upd(t, h, w) == [t EXCEPT ![h] = w]
Adv(w, n) == [w EXCEPT !.s = @ + n]         \* SubRange::skip / &slice[n..]
Cut(w, n) == [w EXCEPT !.e = w.s + n]       \* SubRange::truncate / &slice[..n]
Field(x, isLe) == ZExt(IF isLe THEN x ELSE Reverse(x), 8)

(* index of the first occurrence of byte x in the window, -1 if none *)
FindIn(b, w, x) ==
    LET n == WLen(w) IN
    IF \E i \in 0..(n - 1) : b[w.s + 1 + i] = x
    THEN CHOOSE i \in 0..(n - 1) : b[w.s + 1 + i] = x /\ \A j \in 0..(i - 1) : b[w.s + 1 + j] # x
    ELSE -1

(* well-formed UTF-8 (Unicode table 3-7), as core::str::from_utf8.         *)
(* Non-recursive (a recursion over a 4096-byte window is quadratic in TLC): *)
(* CharLen(x, i) is the length of the well-formed sequence starting at i    *)
(* (0 if none); the string is well-formed iff every non-continuation byte   *)
(* starts one and every continuation byte lies inside one.                  *)
IsCont(c) == c >= 128 /\ c <= 191
CharLen(x, i) ==
    LET c == x[i]
        C(j, lo, hi) == j <= Len(x) /\ x[j] >= lo /\ x[j] <= hi
    IN IF c < 128 THEN 1
       ELSE IF c >= 194 /\ c <= 223 THEN (IF C(i+1, 128, 191) THEN 2 ELSE 0)
       ELSE IF c = 224 THEN (IF C(i+1, 160, 191) /\ C(i+2, 128, 191) THEN 3 ELSE 0)
       ELSE IF (c >= 225 /\ c <= 236) \/ c = 238 \/ c = 239
            THEN (IF C(i+1, 128, 191) /\ C(i+2, 128, 191) THEN 3 ELSE 0)
       ELSE IF c = 237 THEN (IF C(i+1, 128, 159) /\ C(i+2, 128, 191) THEN 3 ELSE 0)
       ELSE IF c = 240 THEN (IF C(i+1, 144, 191) /\ C(i+2, 128, 191) /\ C(i+3, 128, 191) THEN 4 ELSE 0)
       ELSE IF c >= 241 /\ c <= 243
            THEN (IF C(i+1, 128, 191) /\ C(i+2, 128, 191) /\ C(i+3, 128, 191) THEN 4 ELSE 0)
       ELSE IF c = 244 THEN (IF C(i+1, 128, 143) /\ C(i+2, 128, 191) /\ C(i+3, 128, 191) THEN 4 ELSE 0)
       ELSE 0
Utf8Ok(x) ==
    \A i \in DOMAIN x :
        IF IsCont(x[i])
        THEN \E k \in 1..3 : i - k >= 1 /\ ~IsCont(x[i - k]) /\ CharLen(x, i - k) > k
                             /\ \A m \in 1..(k - 1) : IsCont(x[i - m])
        ELSE CharLen(x, i) > 0

(* take n bytes from handle h: the common core of every read_* *)
Take(b, t, h, n) ==
    IF WLen(t[h]) < n THEN [ok |-> FALSE, hs |-> t, res |-> Eof(t[h])]
    ELSE [ok |-> TRUE, hs |-> Upd(t, h, Adv(t[h], n)), bytes |-> SubSeq(b, t[h].s + 1, t[h].s + n)]
ReadVal(b, isLe, t, h, n) ==
    LET x == Take(b, t, h, n) IN
    IF x.ok THEN R(x.hs, OkV(Field(x.bytes, isLe))) ELSE R(t, x.res)

Contained(w, g) == g.s <= w.s /\ w.e <= g.e

(*---------------------------- operations ---------------------------------*)
(* An operation is [op, h, a, b, d]: name, handle, argument(s), slot that  *)
(* receives a returned reader (0 if none).                                 *)
O(op, h, a, b, d) == [op |-> op, h |-> h, a |-> a, b |-> b, d |-> d]

TraitOps == {"read_u8", "read_slice", "read_uint", "read_address", "read_offset",
             "read_sized_offset", "skip", "truncate", "empty", "split", "find", "read_cstr",
             "clone", "drop", "offset_from", "id_lookup", "to_slice", "to_string",
             "to_string_lossy"}
(* inherent, kind-specific constructors of EndianSlice / EndianReader *)
RangeOps == {"range", "range_from", "range_to"}
Allocating == {"split", "read_cstr", "clone", "range", "range_from", "range_to"}

Enabled(b, t, o) ==
    /\ o.op \in TraitOps \cup RangeOps
    /\ IF o.op = "clone" THEN o.h = 0 \/ (o.h \in DOMAIN t /\ t[o.h].live)
       ELSE o.h \in DOMAIN t /\ t[o.h].live
    /\ o.op \in Allocating => (o.d \in DOMAIN t /\ ~t[o.d].live)
    /\ o.op = "read_uint" => o.a \in 1..8                 \* documented panic otherwise
    /\ o.op = "read_offset" => o.a \in {4, 8}
    /\ o.op \in {"offset_from", "id_lookup"} => (o.a = 0 \/ (o.a \in DOMAIN t /\ t[o.a].live))
    (* "may panic if not contained": only the contained case is specified *)
    /\ o.op = "offset_from" => Contained(t[o.h], W(b, t, o.a))
    /\ o.op = "range" => o.a <= o.b

Step(b, isLe, t, o) ==
    LET w == W(b, t, o.h) IN
    CASE o.op = "read_u8"    -> ReadVal(b, isLe, t, o.h, 1)
      [] o.op = "read_slice" -> LET x == Take(b, t, o.h, o.a) IN
                                IF x.ok THEN R(x.hs, OkB(x.bytes)) ELSE R(t, x.res)
      [] o.op = "read_uint"  -> ReadVal(b, isLe, t, o.h, o.a)
      [] o.op = "read_address" ->
            IF o.a \in {1, 2, 4, 8} THEN ReadVal(b, isLe, t, o.h, o.a)
            ELSE R(t, Err("UnsupportedAddressSize"))
      [] o.op = "read_offset" -> ReadVal(b, isLe, t, o.h, o.a)
      [] o.op = "read_sized_offset" ->
            IF o.a \in {1, 2, 4, 8} THEN ReadVal(b, isLe, t, o.h, o.a)
            ELSE R(t, Err("UnsupportedOffsetSize"))
      [] o.op = "skip" ->
            IF WLen(w) < o.a THEN R(t, Eof(w)) ELSE R(Upd(t, o.h, Adv(w, o.a)), OkUnit)
      [] o.op = "truncate" ->
            IF WLen(w) < o.a THEN R(t, Eof(w)) ELSE R(Upd(t, o.h, Cut(w, o.a)), OkUnit)
      [] o.op = "empty" -> R(Upd(t, o.h, [w EXCEPT !.e = w.s, !.emp = TRUE]), OkUnit)
      [] o.op = "split" ->
            IF WLen(w) < o.a THEN R(t, Eof(w))
            ELSE R([t EXCEPT ![o.h] = Adv(w, o.a), ![o.d] = Cut(w, o.a)], OkD(o.d))
      [] o.op = "find" ->
            LET i == FindIn(b, w, o.a) IN IF i < 0 THEN R(t, Eof(w)) ELSE R(t, OkN(i))
      [] o.op = "read_cstr" ->
            LET i == FindIn(b, w, 0) IN
            IF i < 0 THEN R(t, Eof(w))
            ELSE R([t EXCEPT ![o.h] = Adv(w, i + 1), ![o.d] = Cut(w, i)], OkD(o.d))
      [] o.op = "clone" -> R([t EXCEPT ![o.d] = w], OkD(o.d))
      [] o.op = "drop"  -> R(Upd(t, o.h, Dead), OkUnit)
      [] o.op = "offset_from" -> R(t, OkN(w.s - W(b, t, o.a).s))
      [] o.op = "id_lookup" ->
            LET g == W(b, t, o.a) IN
            R(t, IF g.s <= w.s /\ w.s <= g.e THEN OkN(w.s - g.s) ELSE NoneR)
      [] o.op = "to_slice" -> R(t, OkB(Bytes(b, w)))
      [] o.op = "to_string" ->
            R(t, IF Utf8Ok(Bytes(b, w)) THEN OkB(Bytes(b, w)) ELSE Err("BadUtf8"))
      [] o.op = "to_string_lossy" ->
            R(t, IF Utf8Ok(Bytes(b, w)) THEN OkB(Bytes(b, w)) ELSE OkLossy)
      (* EndianSlice::range* index the slice, EndianReader::range* go through  *)
      (* SubRange::skip/truncate whose asserts panic out of bounds             *)
      [] o.op = "range" ->
            IF o.b > WLen(w) THEN R(t, Panic)
            ELSE R([t EXCEPT ![o.d] = [w EXCEPT !.s = w.s + o.a, !.e = w.s + o.b]], OkD(o.d))
      [] o.op = "range_from" ->
            IF o.a > WLen(w) THEN R(t, Panic) ELSE R([t EXCEPT ![o.d] = Adv(w, o.a)], OkD(o.d))
      [] o.op = "range_to" ->
            IF o.a > WLen(w) THEN R(t, Panic) ELSE R([t EXCEPT ![o.d] = Cut(w, o.a)], OkD(o.d))

Do(o) == /\ Enabled(buf, hs, o)
         /\ LET x == Step(buf, le, hs, o) IN hs' = x.hs /\ res' = x.res
         /\ UNCHANGED <<buf, le>>

(*------------------- one action per Reader trait method -------------------*)
ReadU8(h)           == Do(O("read_u8", h, 0, 0, 0))
ReadSlice(h, n)     == Do(O("read_slice", h, n, 0, 0))
ReadUint(h, n)      == Do(O("read_uint", h, n, 0, 0))
ReadAddress(h, sz)  == Do(O("read_address", h, sz, 0, 0))
ReadOffset(h, wd)   == Do(O("read_offset", h, wd, 0, 0))
ReadSizedOffset(h, sz) == Do(O("read_sized_offset", h, sz, 0, 0))
Skip(h, n)          == Do(O("skip", h, n, 0, 0))
Truncate(h, n)      == Do(O("truncate", h, n, 0, 0))
Empty(h)            == Do(O("empty", h, 0, 0, 0))
Split(h, n, d)      == Do(O("split", h, n, 0, d))
Find(h, x)          == Do(O("find", h, x, 0, 0))
ReadNullTerminated(h, d) == Do(O("read_cstr", h, 0, 0, d))
Clone(h, d)         == Do(O("clone", h, 0, 0, d))
Drop(h)             == Do(O("drop", h, 0, 0, 0))
OffsetFrom(h, g)    == Do(O("offset_from", h, g, 0, 0))
OffsetIdLookup(h, g) == Do(O("id_lookup", h, g, 0, 0))
ToSlice(h)          == Do(O("to_slice", h, 0, 0, 0))
ToStr(h)            == Do(O("to_string", h, 0, 0, 0))
ToStrLossy(h)       == Do(O("to_string_lossy", h, 0, 0, 0))

(*------------------------------ projection -------------------------------*)
(* What an implementation must show for a live handle:                     *)
(*  off   = offset_from(section)          len = len()                      *)
(*  bytes = to_slice() (must be borrowed) ptr = address of that slice      *)
(*                                              relative to the buffer     *)
(*  idpos = section.lookup_offset_id(offset_id())                          *)
(* zero-copy: ptr = off;  offset ids map back: idpos = off.                *)
Proj(b, w) == IF ~w.live THEN <<>>
              ELSE <<w.s, WLen(w), Bytes(b, w), w.s, w.s>>
ProjAll(b, t) == [h \in DOMAIN t |-> Proj(b, t[h])]
(* number of references to the shared buffer: section reader + live handles *)
Refs(t) == 1 + Cardinality(LiveSet(t))

(*------------------------------ invariants -------------------------------*)
WindowOK(b, w) == w.live => (0 <= w.s /\ w.s <= w.e /\ w.e <= Len(b))
(* the SubRange ptr/len safety condition *)
WindowInv == \A h \in DOMAIN hs : WindowOK(buf, hs[h])
EmpInv == \A h \in DOMAIN hs : (hs[h].live /\ hs[h].emp) => hs[h].s = hs[h].e

(* action-level properties of one step t --o--> x (checked for every       *)
(* explored transition by MCReader)                                        *)
StepOK(b, isLe, t, o) ==
    LET x == Step(b, isLe, t, o)
        w == W(b, t, o.h) IN
    /\ \A h \in DOMAIN x.hs : WindowOK(b, x.hs[h])
    (* failure leaves every window unchanged *)
    /\ x.res.k \in {"err", "panic", "none"} => x.hs = t
    (* only the handle operated on and the destination slot may change *)
    /\ \A h \in DOMAIN t : (h # o.h /\ h # o.d) => x.hs[h] = t[h]
    (* a returned reader is a view inside the window it came from *)
    /\ (x.res.k = "ok" /\ o.op \in Allocating) => Contained(x.hs[o.d], w)
    (* the operated handle never grows *)
    /\ (o.h # 0 /\ x.hs[o.h].live) => Contained(x.hs[o.h], w)
    (* split / read_cstr partition the old window *)
    /\ (x.res.k = "ok" /\ o.op = "split") =>
          Bytes(b, x.hs[o.d]) \o Bytes(b, x.hs[o.h]) = Bytes(b, w)
    /\ (x.res.k = "ok" /\ o.op = "read_cstr") =>
          /\ Bytes(b, x.hs[o.d]) \o <<0>> \o Bytes(b, x.hs[o.h]) = Bytes(b, w)
          /\ \A i \in DOMAIN Bytes(b, x.hs[o.d]) : Bytes(b, x.hs[o.d])[i] # 0
    (* copied-out bytes are the consumed prefix of the window *)
    /\ (x.res.k = "ok" /\ o.op = "read_slice") =>
          x.res.bytes \o Bytes(b, x.hs[o.h]) = Bytes(b, w)
    (* offset ids of a handle resolve in the section to its start *)
    /\ \A h \in LiveSet(x.hs) :
          Step(b, isLe, x.hs, O("id_lookup", h, 0, 0, 0)).res = OkN(x.hs[h].s)
=============================================================================
