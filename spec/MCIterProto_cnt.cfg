SPECIFICATION Spec
INVARIANT InputBounded
CHECK_DEADLOCK FALSE
CONSTANTS
  Fams = {"count"}
  MaxN = 5
  MaxM = 2
  MaxF = 0
  LemmaRuns = 0
  LemmaV = 0
