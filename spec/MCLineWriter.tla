---------------------------- MODULE MCLineWriter ----------------------------
(* Bounded models for C13.                                                 *)
(*  grid   : for every parameter tuple and every line advance in           *)
(*           -MaxDL..MaxDL (one state each) the theorem SelectCorrect for  *)
(*           every operation advance 0..MaxDop, SelectRefines (LineSM's    *)
(*           DWARF machine on byte tuples) on the frontier band, and one   *)
(*           replay case: the two-row sequence (line L0 -> L0 + dline,     *)
(*           operation advance dop) per dop with the expected second row   *)
(*           and the instructions the model selects;                       *)
(*  files  : every directory / file script up to FilesLen (duplicate names, *)
(*           same name in another directory, info overwrite) x string form *)
(*           x optional-field flags, followed by two rows;                 *)
(*  mixed  : the program written on behalf of a unit whose encoding has     *)
(*           another version / format (LineProgram::write's `encoding`     *)
(*           argument): every unit version 2..5 x format 32/64 per tuple,  *)
(*           with rows that switch file back and forth (DW_LNS_set_file is *)
(*           1-based up to program version 4, whatever the unit's version);*)
(*           write must refuse only a version >= 5 program under a unit    *)
(*           of version < 5;                                               *)
(*  lines  : three consecutive rows with lines a, b, a for every ordered   *)
(*           pair of the 64-bit boundary set {0,1,2,2^31+-1,2^32+-1,2^63-1,*)
(*           2^63,2^63+1,2^64-2,2^64-1}: the advance_line(i64::MAX/MIN)    *)
(*           split; inside TLC: the reader's line register arrives exactly *)
(*           at the given line and LineSM's machine yields the rows;       *)
(*  script : every call script up to ScriptLen over a small alphabet of    *)
(*           builder calls (begin_sequence / set_address / row mutations + *)
(*           generate_row / end_sequence) through the builder machine:     *)
(*           expected rows (Meaning) and the expected instruction stream.  *)
EXTENDS LineWriter, Json
CONSTANTS MaxDL, MaxDop, ScriptLen, FilesLen, Tuples, Modes, BandOnly
VARIABLES m, t, s

(* parameter tuples: line_base -128..0, line_range 1..255, min_inst_len    *)
(* {1,2,4}, max_ops {1,2,4}; versions 2-5                                   *)
PP(ver, fmt, asz, mil, maxops, dis, lbase, lrange) ==
    [ver |-> ver, fmt |-> fmt, asz |-> asz, le |-> TRUE, mil |-> mil, maxops |-> maxops, dis |-> dis,
     lbase |-> lbase, lrange |-> lrange]
PT == << PP(4, 32, 8, 1, 1, TRUE, 0 - 5, 14),      \* the common encoding
         PP(5, 32, 8, 1, 1, TRUE, 0 - 3, 12),
         PP(4, 32, 4, 4, 4, FALSE, 0 - 128, 255),
         PP(5, 64, 8, 2, 2, TRUE, 0, 1),
         PP(2, 32, 4, 1, 1, TRUE, 0 - 1, 4),
         PP(3, 64, 8, 4, 1, FALSE, 0 - 10, 245),
         PP(4, 32, 8, 2, 4, TRUE, 0 - 128, 129),
         PP(5, 32, 2, 1, 2, FALSE, 0 - 64, 100),
         PP(4, 64, 8, 1, 4, TRUE, 0 - 1, 2),
         PP(5, 32, 8, 4, 2, TRUE, 0 - 7, 8),
         PP(3, 32, 8, 2, 1, TRUE, 0 - 100, 101),
         PP(4, 32, 8, 1, 1, FALSE, 0, 255) >>

L0 == 1000
BaseAddr == 4096
AbsI(x) == IF x < 0 THEN 0 - x ELSE x
(* operation advances at which the selection changes, +-3 *)
Band(P, dline) ==
    LET opRange == (255 - OBASE) \div P.lrange IN
    {d \in 0..MaxDop : \E f \in {0, opRange, 2 * opRange, (255 - OBASE + P.lbase) \div P.lrange,
                                  (255 - OBASE + P.lbase) \div P.lrange + opRange, MaxDop} : AbsI(d - f) <= 3}
LineBand(P) == {d \in (0 - MaxDL)..MaxDL :
                   \E f \in {0 - MaxDL, P.lbase, 0, P.lbase + P.lrange, MaxDL} : AbsI(d - f) <= 2}

(* expected second row of the two-row sequence and the selected opcodes *)
GridPoint(P, dline, dop) ==
    <<L0 + dline, BaseAddr + P.mil * (dop \div P.maxops), dop % P.maxops, Select(P, dline, dop)>>

(* the instructions the builder emits before the second row: begin_sequence *)
(* at BaseAddr and the first row (line L0)                                  *)
GridPre(P) == GenerateRow(P, SetRow(BeginSequence(P, BInit(P), <<BaseAddr>>), [RowInit(P) EXCEPT !.line = L0])).ins
InitGrid == t \in Tuples /\ s = <<>>
NextGrid == UNCHANGED <<m, t>> /\ s = <<>> /\
            \E dl \in (IF BandOnly THEN LineBand(PT[t]) ELSE (0 - MaxDL)..MaxDL) : s' = <<dl>>
InvGrid == s # <<>> =>
    \E P \in {PT[t]} : \E dl \in {s[1]} :
    \* replayed operation advances: the whole range for the line advances 0, +-1, line_base (quick) or the
    \* whole line band (thorough), the frontier band for the others; the theorem below covers the whole range
    \E dops \in {IF dl \in {0 - 1, 0, 1, P.lbase} \/ (~BandOnly /\ dl \in LineBand(P)) THEN 0..MaxDop ELSE Band(P, dl)} :
    /\ ParamsOk(P)
    /\ (\A dop \in 0..MaxDop : SelectCorrect(P, dl, dop))
    /\ (dl \in LineBand(P) =>
           \A dop \in Band(P, dl) : \A o \in {0, P.maxops - 1} : SelectRefines(P, dl, dop, o))
    /\ PrintT(<<"CASE", ToJson([sys |-> "grid", P |-> P, dline |-> dl, L0 |-> L0, base |-> BaseAddr,
                                pre |-> GridPre(P), post |-> << <<"E", 0>> >>,
                                dops |-> [d \in dops |-> GridPoint(P, dl, d)]])>>)

(*------------------------------------------------------------------------*)
(* scripts: s = [B |-> builder state, calls |-> the calls so far]          *)
Mut(P, B, v) ==        \* the row mutations of the alphabet
    LET r == B.row IN
    CASE v = 1 -> r
      [] v = 2 -> [r EXCEPT !.line = @ + 1, !.off = @ + P.mil]
      [] v = 3 -> [r EXCEPT !.line = IF @ > 5 THEN @ - 5 ELSE @ + 300, !.off = @ + 70 * P.mil, !.opi = 0]
      [] v = 4 -> [r EXCEPT !.disc = 7, !.bb = TRUE, !.pe = TRUE, !.eb = TRUE, !.col = 3, !.isa = 2,
                            !.stmt = ~@, !.file = 1 - @]
      [] v = 5 -> [r EXCEPT !.opi = (@ + 1) % P.maxops, !.off = IF @ + 1 >= P.maxops THEN B.row.off + P.mil ELSE B.row.off,
                            !.line = @ + 13]
      [] v = 6 -> [r EXCEPT !.off = @ + 1000 * P.mil, !.line = 0, !.col = 65535]
Calls(P, B) ==
    (IF B.inseq THEN {} ELSE {<<"begin", <<>>>>, <<"begin", <<BaseAddr>>>>})
    \* set_address: "the caller must ensure that this address is greater than or
    \* equal to the address of the previous row"
    \cup {<<"addr", B.base[1] + (B.prev.off - B.base[2]) + 2 * BaseAddr>>}
    \cup {<<"row", Mut(P, B, v)>> : v \in {v \in 1..6 : RowOk(P, B, Mut(P, B, v)) /\ (v = 5 => P.maxops > 1)}}
    \cup {<<"end", B.prev.off>>, <<"end", B.prev.off + 3 * P.mil>>}
ApplyCall(P, B, c) ==
    CASE c[1] = "begin" -> BeginSequence(P, B, c[2])
      [] c[1] = "addr" -> SetAddress(P, B, c[2])
      [] c[1] = "row" -> GenerateRow(P, SetRow(B, c[2]))
      [] c[1] = "end" -> EndSequence(P, B, c[2])

InitScript == t \in Tuples /\ s = [B |-> BInit(PT[t]), calls |-> <<>>]
NextScript == UNCHANGED <<m, t>> /\ Len(s.calls) < ScriptLen /\
              \E c \in Calls(PT[t], s.B) : s' = [B |-> ApplyCall(PT[t], s.B, c), calls |-> Append(s.calls, c)]
(* design-level: the emitted instructions, run on LineSM's DWARF machine,  *)
(* give exactly the meaning rows                                           *)
RowsOfMeaning(rows) ==
    [k \in 1..Len(rows) |->
       LET r == rows[k] IN
       <<Trim(Nat8(r.addr)), Trim(Nat8(r.opi)), Trim(Nat8(r.file)), Trim(Nat8(r.line)), Trim(Nat8(r.col)),
         (IF r.stmt THEN 1 ELSE 0) + (IF r.bb THEN 2 ELSE 0) + (IF r.es THEN 4 ELSE 0) + (IF r.pe THEN 8 ELSE 0)
         + (IF r.eb THEN 16 ELSE 0), Trim(Nat8(r.isa)), Trim(Nat8(r.disc))>>]
(* an end_sequence row is compared on address, op_index and the flag only *)
SameRows(a, b) == Len(a) = Len(b) /\ \A k \in 1..Len(a) :
                     IF RowEs(b[k]) THEN RowEs(a[k]) /\ a[k][1] = b[k][1] /\ a[k][2] = b[k][2] ELSE a[k] = b[k]
InvScript ==
    \E P \in {PT[t]} : \E B \in {s.B} :
    \E D \in {StdRun(HeaderOf(P), AsList(B.ins))} :
    \E modelok \in {D.wf /\ SameRows(D.rows, RowsOfMeaning(B.rows))} :
    /\ (modelok \/ PrintT(<<"MODELDIFF", ToJson(s.calls), D.rows, RowsOfMeaning(B.rows)>>))
    /\ PrintT(<<"CASE", ToJson([sys |-> "script", P |-> P, calls |-> s.calls,
                                exp |-> [rows |-> RowsOfMeaning(B.rows), ins |-> B.ins, modelok |-> modelok]])>>)

(*------------------------------------------------------------------------*)
(* files: s = [sf, fl, dirs, dids, files, calls].  The harness starts every *)
(* program with working directory "/w" and the files a.c, b.c in it.        *)
N_w == <<47, 119>>   N_a == <<97, 46, 99>>   N_b == <<98, 46, 99>>   N_c == <<99, 46, 99>>
N_inc == <<105, 110, 99>>   N_abs == <<47, 97, 98, 115>>
Info1 == [time |-> 5, size |-> 1000, md5 |-> [i \in 1..16 |-> i], src |-> <<>>]
Info2 == [time |-> 2147483647, size |-> 0, md5 |-> [i \in 1..16 |-> 255], src |-> <<<<120, 10>>>>]
Flags0 == [time |-> FALSE, size |-> FALSE, md5 |-> FALSE, src |-> FALSE]
FlagSets == {Flags0, [time |-> TRUE, size |-> TRUE, md5 |-> TRUE, src |-> TRUE],
             [time |-> TRUE, size |-> FALSE, md5 |-> FALSE, src |-> TRUE], [time |-> FALSE, size |-> TRUE, md5 |-> TRUE, src |-> FALSE]}
FilesStart(sf, fl) ==
    [sf |-> sf, fl |-> fl, dirs |-> <<N_w>>, dids |-> <<0>>,
     files |-> <<[name |-> N_a, dir |-> 0, info |-> NoInfo], [name |-> N_b, dir |-> 0, info |-> NoInfo]>>, calls |-> <<>>]
InitFiles == t \in Tuples /\ s = <<>>
FileCalls(S) ==
    {<<"dir", N_inc>>, <<"dir", N_abs>>, <<"dir", N_w>>}
    \cup {<<"file", N_a, 0, <<>>>>, <<"file", N_c, Len(S.dids) - 1, <<Info1>>>>, <<"file", N_b, 0, <<Info2>>>>,
          <<"file", N_a, Len(S.dids) - 1, <<>>>>, <<"file", N_c, 0, <<>>>>}
ApplyFileCall(S, c) ==
    IF c[1] = "dir" THEN LET r == AddDirectory(S.dirs, c[2]) IN
                         [S EXCEPT !.dirs = r[1], !.dids = Append(@, r[2]), !.calls = Append(@, c)]
    ELSE LET r == AddFile(S.files, c[2], S.dids[c[3] + 1], c[4]) IN
         [S EXCEPT !.files = r[1], !.calls = Append(@, <<"file", c[2], c[3], IF c[4] = <<>> THEN 0 ELSE c[4][1]>>)]
NextFiles ==
    /\ UNCHANGED <<m, t>>
    /\ \/ s = <<>> /\ \E sf \in (IF PT[t].ver >= 5 THEN {"string", "strp", "line_strp"} ELSE {"string"}) :
                      \E fl \in (IF PT[t].ver >= 5 THEN FlagSets ELSE {Flags0}) : s' = FilesStart(sf, fl)
       \/ s # <<>> /\ Len(s.calls) < FilesLen /\ \E c \in FileCalls(s) : s' = ApplyFileCall(s, c)
Zero16 == [i \in 1..16 |-> 0]
FilesMeaning(P, S) ==
    LET sf == S.sf
        srcform == IF \E k \in 1..Len(S.files) : S.files[k].info.src # <<>> THEN sf ELSE "string" IN
    [dirs |-> IF P.ver <= 4 THEN [k \in 1..Len(S.dirs) - 1 |-> <<"string", S.dirs[k + 1]>>]
              ELSE [k \in 1..Len(S.dirs) |-> <<sf, S.dirs[k]>>],
     files |-> [k \in 1..Len(S.files) |->
        LET f == S.files[k] IN
        <<<<IF P.ver <= 4 THEN "string" ELSE sf, f.name>>, f.dir,
          IF P.ver <= 4 \/ S.fl.time THEN Trim(Nat8(f.info.time)) ELSE <<>>,
          IF P.ver <= 4 \/ S.fl.size THEN Trim(Nat8(f.info.size)) ELSE <<>>,
          IF P.ver >= 5 /\ S.fl.md5 THEN f.info.md5 ELSE Zero16,
          IF P.ver >= 5 /\ S.fl.src THEN << <<srcform, IF f.info.src = <<>> THEN <<>> ELSE f.info.src[1]>> >> ELSE <<>> >>]]
(* two rows (file ids 0 and 1) and the end of the sequence *)
FilesRows(P) ==
    LET B0 == BInit(P)
        B1 == GenerateRow(P, SetRow(B0, [B0.row EXCEPT !.file = 0, !.line = 7]))
        B2 == GenerateRow(P, SetRow(B1, [B1.row EXCEPT !.file = 1, !.off = @ + 2 * P.mil]))
    IN EndSequence(P, B2, B2.prev.off)
RowCalls(P) ==
    LET B0 == BInit(P)
        r1 == [B0.row EXCEPT !.file = 0, !.line = 7]
        B1 == GenerateRow(P, SetRow(B0, r1))
        r2 == [B1.row EXCEPT !.file = 1, !.off = @ + 2 * P.mil] IN
    << <<"row", r1>>, <<"row", r2>>, <<"end", r2.off>> >>
InvFiles == s # <<>> =>
    \E P \in {PT[t]} : \E FM \in {FilesMeaning(PT[t], s)} :
    PrintT(<<"CASE", ToJson([sys |-> "files", P |-> P, strform |-> s.sf, flags |-> s.fl,
                             calls |-> s.calls \o RowCalls(P),
                             exp |-> [dirs |-> FM.dirs, files |-> FM.files, rows |-> RowsOfMeaning(FilesRows(P).rows)]])>>)

(*------------------------------------------------------------------------*)
(* mixed: s = <<>> | [uenc |-> [ver, fmt]]; a fixed script with two file    *)
(* switches.  The unit's encoding has no influence on the meaning.          *)
MixedCalls(P) ==
    LET B0 == BInit(P)
        r1 == Mut(P, B0, 4)                         \* other file, all flags, discriminator
        B1 == GenerateRow(P, SetRow(B0, r1))
        r2 == Mut(P, B1, 2)
        B2 == GenerateRow(P, SetRow(B1, r2))
        r3 == [Mut(P, B2, 4) EXCEPT !.off = @ + 3 * P.mil]   \* back to the first file
    IN << <<"begin", <<BaseAddr>>>>, <<"row", r1>>, <<"row", r2>>, <<"row", r3>>, <<"end", r3.off + P.mil>> >>
RECURSIVE ApplyCalls(_, _, _, _)
ApplyCalls(P, B, cs, k) == IF k > Len(cs) THEN B ELSE ApplyCalls(P, ApplyCall(P, B, cs[k]), cs, k + 1)
WriteAccepts(P, u) == ~(u.ver < 5 /\ P.ver >= 5)      \* LineProgram::write: IncompatibleLineProgramEncoding
InitMixed == t \in 1..Len(PT) /\ s = <<>>      \* all tuples in every tier (program versions 2, 3, 4, 5)
NextMixed == UNCHANGED <<m, t>> /\ s = <<>> /\ \E v \in 2..5 : \E f \in {32, 64} : s' = [uenc |-> [ver |-> v, fmt |-> f]]
InvMixed == s # <<>> =>
    \E P \in {PT[t]} : \E cs \in {MixedCalls(PT[t])} : \E B \in {ApplyCalls(PT[t], BInit(PT[t]), cs, 1)} :
    \E D \in {StdRun(HeaderOf(P), AsList(B.ins))} :
    /\ D.wf /\ SameRows(D.rows, RowsOfMeaning(B.rows))
    /\ PrintT(<<"CASE", ToJson([sys |-> "mixed", P |-> P, uenc |-> s.uenc, calls |-> cs,
                                exp |-> [rows |-> RowsOfMeaning(B.rows), ins |-> B.ins, modelok |-> TRUE,
                                         refuse |-> ~WriteAccepts(P, s.uenc)]])>>)

(*------------------------------------------------------------------------*)
(* lines: s = <<>> | <<a, b>> (byte tuples) *)
P2(k, d) == LET one == [i \in 1..8 |-> IF i = (k \div 8) + 1 THEN 2 ^ (k % 8) ELSE 0] IN
            IF d >= 0 THEN Add(one, Nat8(d)) ELSE Sub(one, Nat8(0 - d))       \* 2^k + d
LineVals == {Nat8(0), Nat8(1), Nat8(2), P2(31, 0 - 1), P2(31, 1), P2(32, 0 - 1), P2(32, 1),
             P2(63, 0 - 1), P2(63, 0), P2(63, 1), Sub(Z8, Nat8(2)), Sub(Z8, Nat8(1))}
InitLines == t \in Tuples /\ s = <<>>
NextLines == UNCHANGED <<m, t>> /\ s = <<>> /\ \E a \in LineVals : \E b \in LineVals : s' = <<a, b>>
LinesRow(P, k, line) == [RowInit(P) EXCEPT !.off = k * P.mil, !.line = line]
LinesMeaningRow(P, k, line, es) ==
    <<Trim(Nat8(BaseAddr + k * P.mil)), <<>>, Trim(Nat8(FileRaw(P, FileInit(P)))), Trim(line), <<>>,
      (IF P.dis THEN 1 ELSE 0) + (IF es THEN 4 ELSE 0), <<>>, <<>>>>
InvLines == s # <<>> =>
    \E P \in {PT[t]} : \E a \in {s[1]} : \E b \in {s[2]} :
    \E is \in {<< <<"A", BaseAddr>> >> \o RowIns64(P, One(8), a, 0) \o RowIns64(P, a, b, P.maxops)
                \o RowIns64(P, b, a, P.maxops) \o << <<"E", 0>> >>} :
    \E rows \in {<<LinesMeaningRow(P, 0, a, FALSE), LinesMeaningRow(P, 1, b, FALSE), LinesMeaningRow(P, 2, a, FALSE),
                    LinesMeaningRow(P, 2, a, TRUE)>>} :
    \E D \in {StdRun(HeaderOf(P), AsList64(is))} :
    /\ LineSplitCorrect(P, One(8), a, 0) /\ LineSplitCorrect(P, a, b, P.maxops) /\ LineSplitCorrect(P, b, a, P.maxops)
    /\ D.wf /\ SameRows(D.rows, rows)
    /\ PrintT(<<"CASE", ToJson([sys |-> "lines", P |-> P, wide |-> TRUE,
                                calls |-> << <<"begin", <<BaseAddr>>>>, <<"row", LinesRow(P, 0, a)>>, <<"row", LinesRow(P, 1, b)>>,
                                             <<"row", LinesRow(P, 2, a)>>, <<"end", 2 * P.mil>> >>,
                                exp |-> [rows |-> rows, ins |-> [k \in 1..Len(is) |-> WideIns(is[k])], modelok |-> TRUE]])>>)

Init == \E md \in Modes : m = md /\ CASE md = "grid" -> InitGrid [] md = "script" -> InitScript [] md = "files" -> InitFiles
                                          [] md = "mixed" -> InitMixed [] md = "lines" -> InitLines
Next == CASE m = "grid" -> NextGrid [] m = "script" -> NextScript [] m = "files" -> NextFiles [] m = "mixed" -> NextMixed
          [] m = "lines" -> NextLines
Inv == CASE m = "grid" -> InvGrid [] m = "script" -> InvScript [] m = "files" -> InvFiles [] m = "mixed" -> InvMixed
         [] m = "lines" -> InvLines
=============================================================================
