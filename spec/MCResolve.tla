------------------------------ MODULE MCResolve ------------------------------
(* Bounded model of unit setup and indexed attribute resolution (extension;  *)
(* not one of the listed properties).                                         *)
(*                                                                            *)
(* Configurations: DWARF versions 2..5 x 32/64-bit format x address size x    *)
(* file type Main/Dwo x byte order x unit type (DWARF 5: compile, skeleton,   *)
(* split compile) x supplementary file present/absent, over a fixed small set *)
(* of sections (string table with an unterminated tail, a .debug_str_offsets  *)
(* contribution of 6 entries, a .debug_addr contribution of 3 entries, with   *)
(* DWARF 5 headers from version 5 on, two line program headers).              *)
(* mode "single": every root DIE of up to MaxAttrs attributes over a menu of  *)
(*   ~60 attribute instances (all string / address forms, every DW_AT_*_base  *)
(*   with boundary values and non-offset forms, dwo ids, statement lists);    *)
(*   when Deep = FALSE the second attribute must be related to the first      *)
(*   (base x use in both orders, duplicates, line program inputs).  DIEs of   *)
(*   at most one (base) attribute also carry ~45 caller-made probes (indexes  *)
(*   at / beyond the end, 2^61+1, 2^62+1, 2^63+1, 2^64-1, ...).               *)
(* mode "split": skeleton menu x split-unit menu through make_dwo and         *)
(*   copy_relocated_attributes.                                               *)
(* THEOREMS checked on every state: the functions as coded = their meaning    *)
(* (modulo error kinds); in a well-formed configuration strx i is the i-th    *)
(* string of the contribution.  One CASE line per state with the expected     *)
(* observation (an error stands for any error).                               *)
EXTENDS Resolve, Json
CONSTANTS Deep, MaxAttrs
VARIABLE c

B8(n) == FromNat(n, 8)
X64 == <<1, 2, 3, 4, 5, 6, 7, 8>>
P61 == <<1, 0, 0, 0, 0, 0, 0, 32>>          \* 2^61 + 1: * 8 wraps to 8
P62 == <<1, 0, 0, 0, 0, 0, 0, 64>>          \* 2^62 + 1: * 4 wraps to 4
P63 == <<1, 0, 0, 0, 0, 0, 0, 128>>         \* 2^63 + 1: * 2 wraps to 2
M62 == <<255, 255, 255, 255, 255, 255, 255, 63>>   \* 2^62 - 1: * 4 does not overflow
AllOnes == <<255, 255, 255, 255, 255, 255, 255, 255>>
P32 == <<0, 0, 0, 0, 1, 0, 0, 0>>           \* 2^32

(* ------------------------------ sections ------------------------------- *)
StrSec == <<97, 0, 98, 99, 0, 0, 100, 101, 102, 0, 103>>      \* "a" "bc" "" "def" and an unterminated "g"
StrAtOff == [o \in {0, 2, 5, 6} |-> CASE o = 0 -> <<97>> [] o = 2 -> <<98, 99>> [] o = 5 -> <<>> [] o = 6 -> <<100, 101, 102>>]
LineStrSec == <<76, 0, 77, 78, 0>>
SupStrSec == <<83, 0, 84, 85, 0>>
DwoStrSec == <<80, 0, 81, 82, 0>>                              \* "P" "QR"
SOEntries == <<6, 0, 2, 5, 10, 200>>                           \* the last two do not name a string
DwoSOEntries == <<2, 0>>
AddrVals == <<<<0, 16, 0, 0, 0, 0, 0, 0>>, AllOnes, <<120, 86, 52, 18, 239, 205, 171, 137>>>>
SOTable(es, e) == (IF e.ver >= 5 THEN StrOffsetsHeader(Len(es), e.fmt, e.le) ELSE <<>>)
                  \o FlatS([i \in DOMAIN es |-> Fixed(es[i], Word(e.fmt), e.le)])
AddrTable(e) == (IF e.ver >= 5 THEN AddrHeader(3, e.asz, e.fmt, e.le) ELSE <<>>)
                \o FlatS([i \in 1..3 |-> Lay(Trunc(AddrVals[i], e.asz), e.le)])
SOH(e) == IF e.ver >= 5 THEN InitLenSize(e.fmt) + 4 ELSE 0     \* where the entries start
ADH(e) == IF e.ver >= 5 THEN InitLenSize(e.fmt) + 4 ELSE 0
LineSec(e) == [bytes |-> LineHeader(e.le) \o LineHeader(e.le), starts |-> {0, 18}]
Hdr(e) == [ver |-> e.ver, fmt |-> e.fmt, asz |-> e.asz, ut |-> e.ut, le |-> e.le]

MainFile(e, sup, ft) ==
    [str |-> StrSec, line_str |-> LineStrSec, str_offsets |-> SOTable(SOEntries, e), addr |-> AddrTable(e),
     line |-> LineSec(e), ranges |-> <<1, 2, 3>>, rnglists |-> <<>>, ft |-> ft,
     sup |-> IF sup THEN [str |-> SupStrSec] ELSE None]
DwoFile(e) ==
    [str |-> DwoStrSec, line_str |-> <<>>, str_offsets |-> SOTable(DwoSOEntries, e), addr |-> <<>>,
     line |-> [bytes |-> <<>>, starts |-> {}], ranges |-> <<9>>, rnglists |-> <<7, 7>>, ft |-> "Main", sup |-> None]

(* --------------------------- configurations ----------------------------- *)
UTs(ver, ft) == IF ver < 5 THEN {1} ELSE IF ft = "Main" THEN {1, 4} ELSE IF Deep THEN {1, 5} ELSE {5}
LeOf(v, a) == (v + a) % 3 # 0                                  \* byte order varies with the configuration
QuickEncs == {[ver |-> v, fmt |-> x[1], asz |-> x[2], ft |-> x[3], ut |-> u, le |-> LeOf(v, x[2])] :
                v \in 2..5, x \in {<<32, 4, "Main">>, <<64, 8, "Dwo">>, <<32, 8, "Dwo">>, <<64, 4, "Main">>}, u \in {1, 4, 5}}
AllEncs == {[ver |-> v, fmt |-> f, asz |-> a, ft |-> t, ut |-> u, le |-> LeOf(v, a)] :
                v \in 2..5, f \in {32, 64}, a \in {1, 2, 4, 8}, t \in {"Main", "Dwo"}, u \in {1, 4, 5}}
Encs == IF Deep THEN AllEncs ELSE QuickEncs
(* the configurations in which the thorough tier explores unrelated pairs and triples *)
WideEnc(e) == e \in QuickEncs \/ (e.asz \in {1, 2} /\ e.ver >= 4 /\ ((e.fmt = 32) = (e.ft = "Main")))
EncOk(e) == e.ut \in UTs(e.ver, e.ft)
SplitEncs == {e \in Encs : e.ft = "Dwo" /\ e.ut = (IF e.ver < 5 THEN 1 ELSE 5)}

(* ------------------------------- menus ---------------------------------- *)
A(n, f, v) == [name |-> n, form |-> f, v |-> v]
StrxForms == {FM.strx, FM.strx1, FM.strx2, FM.strx3, FM.strx4, FM.GNU_str_index}
AddrxForms == {FM.addrx, FM.addrx1, FM.addrx2, FM.addrx3, FM.addrx4, FM.GNU_addr_index}
SupForms == {FM.strp_sup, FM.GNU_strp_alt}
StrItems ==
    {A(AT.name, FM.string, <<120, 121>>), A(AT.name, FM.strp, B8(2)), A(AT.name, FM.strp, B8(10)), A(AT.name, FM.strp, AllOnes),
     A(AT.name, FM.strx, B8(1)), A(AT.name, FM.strx, B8(6)), A(AT.name, FM.strx, P62), A(AT.name, FM.strx, P61),
     A(AT.name, FM.strx1, B8(2)), A(AT.name, FM.strx2, B8(0)), A(AT.name, FM.strx3, B8(3)), A(AT.name, FM.strx4, B8(5)),
     A(AT.name, FM.strx4, AllOnes), A(AT.name, FM.GNU_str_index, B8(2)), A(AT.name, FM.line_strp, B8(2)),
     A(AT.name, FM.strp_sup, B8(2)), A(AT.name, FM.GNU_strp_alt, B8(0)), A(AT.name, FM.data1, B8(7)),
     A(AT.comp_dir, FM.string, <<100>>), A(AT.comp_dir, FM.strx, B8(0)), A(AT.comp_dir, FM.strp, B8(11)),
     A(AT.producer, FM.strx2, B8(4)),
     A(AT.dwo_name, FM.strx, B8(2)), A(AT.GNU_dwo_name, FM.strp, B8(0)), A(AT.dwo_name, FM.string, <<111>>),
     A(AT.GNU_dwo_name, FM.GNU_str_index, B8(1)), A(AT.dwo_name, FM.data1, B8(1))}
AddrItems ==
    {A(AT.low_pc, FM.addr, X64), A(AT.low_pc, FM.addrx, B8(0)), A(AT.low_pc, FM.addrx, B8(2)), A(AT.low_pc, FM.addrx, B8(3)),
     A(AT.low_pc, FM.addrx1, B8(1)), A(AT.low_pc, FM.addrx2, B8(2)), A(AT.low_pc, FM.addrx3, B8(0)),
     A(AT.low_pc, FM.addrx4, AllOnes), A(AT.low_pc, FM.GNU_addr_index, B8(1)), A(AT.low_pc, FM.data4, B8(5)),
     A(AT.low_pc, FM.addrx, P61), A(AT.low_pc, FM.addrx, P62)}
BaseItems(e) ==
    LET sl == Len(SOTable(SOEntries, e))
        al == Len(AddrTable(e)) IN
    {A(AT.str_offsets_base, FM.sec_offset, b) : b \in {B8(SOH(e)), B8(0), B8(8), B8(16), B8(sl - Word(e.fmt)), B8(sl), B8(sl + 1), AllOnes}}
    \cup {A(AT.str_offsets_base, FM.data4, B8(8)), A(AT.str_offsets_base, FM.udata, B8(8))}
    \cup {A(AT.addr_base, FM.sec_offset, b) : b \in {B8(ADH(e)), B8(0), B8(ADH(e) + e.asz), B8(al), B8(al + 1), AllOnes}}
    \cup {A(AT.GNU_addr_base, FM.sec_offset, B8(ADH(e))), A(AT.addr_base, FM.data4, B8(8)), A(AT.GNU_addr_base, FM.data8, B8(8))}
    \cup {A(AT.rnglists_base, FM.sec_offset, B8(12)), A(AT.rnglists_base, FM.sec_offset, AllOnes), A(AT.GNU_ranges_base, FM.sec_offset, B8(48)),
          A(AT.rnglists_base, FM.data4, B8(12)), A(AT.loclists_base, FM.sec_offset, B8(20)), A(AT.loclists_base, FM.data8, B8(20))}
OtherItems ==
    {A(AT.GNU_dwo_id, FM.data8, X64), A(AT.GNU_dwo_id, FM.udata, B8(5)), A(AT.GNU_dwo_id, FM.string, <<105>>),
     A(AT.stmt_list, FM.sec_offset, B8(0)), A(AT.stmt_list, FM.sec_offset, B8(18)), A(AT.stmt_list, FM.sec_offset, B8(36)),
     A(AT.stmt_list, FM.sec_offset, B8(37)), A(AT.stmt_list, FM.data4, B8(0)), A(AT.stmt_list, FM.data8, B8(18)),
     A(AT.stmt_list, FM.udata, B8(0))}
Menu(e) == StrItems \cup AddrItems \cup BaseItems(e) \cup OtherItems
BaseNames == {AT.str_offsets_base, AT.addr_base, AT.GNU_addr_base, AT.rnglists_base, AT.GNU_ranges_base, AT.loclists_base}
IsBase(a) == a.name \in BaseNames
UsesSup(a) == a.form \in SupForms
(* quick tier: the second attribute must interact with the first *)
SmallBase(a) == a.form # FM.sec_offset \/ a.v \in {B8(0), B8(8), B8(12), B8(16), B8(20), B8(48)}
LpInputs == {A(AT.name, FM.string, <<120, 121>>), A(AT.name, FM.strp, B8(2)), A(AT.name, FM.strx, B8(1)), A(AT.name, FM.strp, B8(10)),
             A(AT.comp_dir, FM.string, <<100>>), A(AT.comp_dir, FM.strx, B8(0)),
             A(AT.low_pc, FM.addr, X64), A(AT.low_pc, FM.addrx, B8(3))}
Related(x, y) ==
    \/ x.name = AT.str_offsets_base /\ y.form \in StrxForms
    \/ y.name = AT.str_offsets_base /\ x.form \in StrxForms
    \/ x.name \in {AT.addr_base, AT.GNU_addr_base} /\ y.form \in AddrxForms
    \/ y.name \in {AT.addr_base, AT.GNU_addr_base} /\ x.form \in AddrxForms
    \/ {x.name, y.name} \subseteq {AT.addr_base, AT.GNU_addr_base} /\ SmallBase(x) /\ SmallBase(y)
    \/ {x.name, y.name} \subseteq {AT.rnglists_base, AT.GNU_ranges_base, AT.loclists_base}
    \/ x.name = y.name /\ x.name = AT.str_offsets_base /\ SmallBase(x) /\ SmallBase(y)
    \/ x.name = y.name /\ x.name \in {AT.GNU_dwo_id, AT.dwo_name, AT.GNU_dwo_name, AT.comp_dir}
    \/ x.name = y.name /\ x.name = AT.stmt_list /\ (x.form # FM.sec_offset \/ y.form # FM.sec_offset \/ x.v = B8(0))
    \/ x.name = y.name /\ x.name \in {AT.name, AT.low_pc} /\ x.form # y.form /\ (x.form \in {FM.string, FM.addr} \/ y.form \in {FM.string, FM.addr})
    \/ x.name = AT.stmt_list /\ y \in LpInputs
    \/ y.name = AT.stmt_list /\ x \in LpInputs
(* realistic complete root DIEs *)
FullDies(e) ==
    IF e.ver >= 5
    THEN {<<A(AT.producer, FM.strx1, B8(2)), A(AT.name, FM.strx1, B8(1)), A(AT.str_offsets_base, FM.sec_offset, B8(SOH(e))),
            A(AT.stmt_list, FM.sec_offset, B8(18)), A(AT.comp_dir, FM.line_strp, B8(2)), A(AT.low_pc, FM.addrx, B8(2)),
            A(AT.addr_base, FM.sec_offset, B8(ADH(e))), A(AT.rnglists_base, FM.sec_offset, B8(12)), A(AT.loclists_base, FM.sec_offset, B8(20)),
            A(AT.dwo_name, FM.strx, B8(0))>>,
          <<A(AT.name, FM.strx, B8(1)), A(AT.comp_dir, FM.strx, B8(2)), A(AT.dwo_name, FM.strx, B8(0)), A(AT.low_pc, FM.addrx, B8(0)),
            A(AT.stmt_list, FM.sec_offset, B8(0))>>}
    ELSE {<<A(AT.producer, FM.strp, B8(6)), A(AT.name, FM.strp, B8(2)), A(AT.comp_dir, FM.strp, B8(0)), A(AT.low_pc, FM.addr, X64),
            A(AT.stmt_list, IF e.ver = 4 THEN FM.sec_offset ELSE IF e.fmt = 64 THEN FM.data8 ELSE FM.data4, B8(18))>>,
          <<A(AT.GNU_dwo_name, FM.strp, B8(2)), A(AT.comp_dir, FM.strp, B8(0)), A(AT.GNU_dwo_id, FM.data8, X64),
            A(AT.GNU_ranges_base, FM.sec_offset, B8(48)), A(AT.low_pc, FM.addr, X64), A(AT.GNU_addr_base, FM.sec_offset, B8(e.asz)),
            A(AT.stmt_list, FM.sec_offset, B8(0))>>,
          <<A(AT.name, FM.GNU_str_index, B8(1)), A(AT.GNU_dwo_name, FM.GNU_str_index, B8(2)), A(AT.comp_dir, FM.GNU_str_index, B8(0)),
            A(AT.GNU_dwo_id, FM.data8, X64), A(AT.low_pc, FM.GNU_addr_index, B8(1))>>}

P(k, v) == [k |-> k, v |-> v]
StrxProbes ==
    <<P("strx", B8(0)), P("strx", B8(1)), P("strx", B8(3)), P("strx", B8(4)), P("strx", B8(5)), P("strx", B8(6)), P("strx", B8(7)),
      P("strx", P32), P("strx", M62), P("strx", P62), P("strx", P61), P("strx", P63), P("strx", AllOnes),
      P("stroff", B8(0)), P("stroff", B8(5)), P("stroff", B8(6)), P("stroff", P62), P("stroff", P61)>>
AddrxProbes ==
    <<P("addrx", B8(0)), P("addrx", B8(1)), P("addrx", B8(2)), P("addrx", B8(3)), P("addrx", B8(4)), P("addrx", P61), P("addrx", P62),
      P("addrx", P63), P("addrx", AllOnes), P("address", B8(2)), P("address", B8(3)), P("address", P61)>>
RangeProbes == <<P("raw_range", B8(16)), P("raw_range", AllOnes)>>
FixedProbes ==
    <<P("strp", B8(0)), P("strp", B8(1)), P("strp", B8(3)), P("strp", B8(9)), P("strp", B8(10)), P("strp", B8(11)), P("strp", B8(12)), P("strp", AllOnes),
      P("sup", B8(0)), P("sup", B8(2)), P("sup", B8(5)), P("sup", B8(6)),
      P("line_strp", B8(0)), P("line_strp", B8(4)), P("line_strp", B8(5)), P("line_strp", B8(6)),
      P("addr", X64), P("udata", B8(5))>>
(* probes of a DIE: everything for the empty DIE, what the base can influence for a single base attribute *)
ProbesOf(die) ==
    IF Len(die) = 0 THEN StrxProbes \o AddrxProbes \o RangeProbes \o FixedProbes
    ELSE IF die[1].name = AT.str_offsets_base THEN StrxProbes
    ELSE IF die[1].name \in {AT.addr_base, AT.GNU_addr_base} THEN AddrxProbes
    ELSE RangeProbes \o <<P("strx", B8(1)), P("addrx", B8(1))>>
NoSupProbes == <<P("sup", B8(0)), P("sup", B8(6)), P("strx", B8(1)), P("strp", B8(2)), P("line_strp", B8(0)), P("addrx", B8(0))>>
SplitProbes == <<P("addrx", B8(0)), P("addrx", B8(1)), P("addrx", B8(2)), P("addrx", B8(3)), P("address", B8(1)),
                 P("strx", B8(0)), P("strx", B8(1)), P("strx", B8(2)), P("stroff", B8(1)), P("sup", B8(0)), P("strp", B8(2)),
                 P("raw_range", B8(16)), P("raw_range", AllOnes)>>
ParentProbes == <<P("addrx", B8(0)), P("strx", B8(1)), P("raw_range", B8(16))>>

(* skeleton and split units; forms and names of the GNU extension before DWARF 5 *)
Sx(e) == IF e.ver < 5 THEN FM.GNU_str_index ELSE FM.strx
Ax(e) == IF e.ver < 5 THEN FM.GNU_addr_index ELSE FM.addrx
DN(e) == IF e.ver < 5 THEN AT.GNU_dwo_name ELSE AT.dwo_name
ABn(e) == IF e.ver < 5 THEN AT.GNU_addr_base ELSE AT.addr_base
RBn(e) == IF e.ver < 5 THEN AT.GNU_ranges_base ELSE AT.rnglists_base
Skels(e) ==
    <<<<A(DN(e), FM.strp, B8(2)), A(AT.GNU_dwo_id, FM.data8, X64), A(ABn(e), FM.sec_offset, B8(ADH(e))), A(AT.low_pc, FM.addr, X64)>>,
      <<A(DN(e), Sx(e), B8(1)), A(AT.str_offsets_base, FM.sec_offset, B8(SOH(e))), A(ABn(e), FM.sec_offset, B8(ADH(e) + e.asz)),
        A(RBn(e), FM.sec_offset, B8(48)), A(AT.low_pc, Ax(e), B8(0))>>,
      <<A(DN(e), FM.line_strp, B8(0)), A(AT.low_pc, Ax(e), B8(2)), A(ABn(e), FM.sec_offset, B8(ADH(e))), A(RBn(e), FM.sec_offset, AllOnes)>>,
      <<A(DN(e), FM.string, <<111>>), A(AT.GNU_dwo_id, FM.udata, B8(5))>>,
      <<A(DN(e), FM.GNU_strp_alt, B8(0)), A(AT.GNU_addr_base, FM.sec_offset, B8(ADH(e))), A(AT.GNU_ranges_base, FM.sec_offset, B8(32)),
        A(AT.low_pc, Ax(e), B8(1))>>,
      <<A(AT.low_pc, Ax(e), B8(3)), A(ABn(e), FM.sec_offset, B8(ADH(e)))>>>>
Splits(e) ==
    <<<<A(AT.name, Sx(e), B8(0)), A(DN(e), Sx(e), B8(1)), A(AT.GNU_dwo_id, FM.data8, X64), A(AT.low_pc, Ax(e), B8(0))>>,
      <<A(AT.name, Sx(e), B8(1)), A(AT.low_pc, Ax(e), B8(2)), A(AT.rnglists_base, FM.sec_offset, B8(20))>>,
      <<A(AT.name, FM.string, <<110>>), A(AT.low_pc, Ax(e), B8(3))>>,
      <<A(AT.name, Sx(e), B8(2)), A(AT.comp_dir, FM.strx1, B8(0)), A(AT.GNU_ranges_base, FM.sec_offset, B8(8))>>,
      <<A(AT.low_pc, FM.addr, X64), A(AT.name, FM.strp_sup, B8(2)), A(AT.addr_base, FM.sec_offset, B8(4))>>,
      <<>>>>
SkelUnit(e, i) == [h |-> [Hdr(e) EXCEPT !.ut = IF e.ver < 5 THEN 1 ELSE 4], tag |-> IF e.ver < 5 THEN 17 ELSE 74, body |-> "die", attrs |-> Skels(e)[i]]
SplitUnit(e, j) == [h |-> Hdr(e), tag |-> 17, body |-> "die", attrs |-> Splits(e)[j]]

(* ------------------------------ behaviour ------------------------------- *)
Init == c = [st |-> "init"]
Next ==
    IF c.st = "init" THEN
        \/ \E e \in Encs, sup \in BOOLEAN : EncOk(e) /\ c' = [st |-> "single", e |-> e, sup |-> sup, body |-> "die", die |-> <<>>]
        \/ \E e \in SplitEncs : c' = [st |-> "split0", e |-> e]
    ELSE IF c.st = "split0" THEN
        \E i \in DOMAIN Skels(c.e), j \in DOMAIN Splits(c.e) : c' = [st |-> "split", e |-> c.e, sk |-> i, sp |-> j]
    ELSE IF c.st = "single" /\ c.body = "die" THEN
        \/ Len(c.die) = 0 /\ c.sup /\ \E b \in {"null", "empty"} : c' = [c EXCEPT !.body = b]
        \/ Len(c.die) = 0 /\ c.sup /\ \E d \in FullDies(c.e) : c' = [c EXCEPT !.die = d]
        \/ Len(c.die) < MaxAttrs /\ Len(c.die) < 3
           /\ \E a \in Menu(c.e) :
                /\ Len(c.die) = 1 /\ ~(Deep /\ WideEnc(c.e)) => Related(c.die[1], a)
                /\ Len(c.die) = 2 => (Deep /\ c.e \in QuickEncs /\ c.e.ver >= 4 /\ Related(c.die[2], a) /\ Related(c.die[1], c.die[2]))
                (* without a supplementary file only DIEs that use it (or carry probes) are explored *)
                /\ ~c.sup => UsesSup(a) \/ \E i \in DOMAIN c.die : UsesSup(c.die[i])
                /\ c' = [c EXCEPT !.die = Append(c.die, a)]
    ELSE FALSE

(* ------------------------------ theorems -------------------------------- *)
EqModErr(a, b) == AnyErr(a) = AnyErr(b)
HasProbes(die) == Len(die) = 0 \/ (Len(die) = 1 /\ IsBase(die[1]))
(* strx i, in a unit whose base is where the entries start, is the i-th string of the contribution *)
WellFormedStrx(D, U, e) ==
    U.sob = B8(SOH(e)) =>
        \A i \in 0..7 :
            LET r == AttrString(D, U, [k |-> "DebugStrOffsetsIndex", v |-> B8(i)]) IN
            IF i < Len(SOEntries) /\ SOEntries[i + 1] \in DOMAIN StrAtOff THEN r = [s |-> StrAtOff[SOEntries[i + 1]]]
            ELSE IsErr(r)
WellFormedAddrx(D, U, e) ==
    U.ab = B8(ADH(e)) =>
        \A i \in 0..4 :
            LET r == AttrAddress(D, U, [k |-> "DebugAddrIndex", v |-> B8(i)]) IN
            IF i < 3 THEN r = Some(ZExt(Trunc(AddrVals[i + 1], e.asz), 8)) ELSE IsErr(r)
(* a DWARF 5 .dwo unit without DW_AT_str_offsets_base sees the entries of its (only) contribution *)
DwoDefaultOk(D, U, u, e) ==
    (e.ver = 5 /\ D.ft = "Dwo" /\ ~\E i \in DOMAIN u.attrs : u.attrs[i].name = AT.str_offsets_base) => U.sob = B8(SOH(e))

SingleCase ==
    LET e == c.e
        u == [h |-> Hdr(e), tag |-> IF e.ver = 5 /\ e.ut = 4 THEN 74 ELSE 17, body |-> c.body, attrs |-> c.die]
        D == MainFile(e, c.sup, e.ft)
        U == UnitNew(D, u)
        M == MUnit(D, u)
        probes == IF HasProbes(c.die) /\ c.body = "die" THEN (IF c.sup THEN ProbesOf(c.die) ELSE NoSupProbes) ELSE <<>>
        names == {c.die[i].name : i \in DOMAIN c.die}
        obs == Observe(D, U, u, probes) IN
    /\ EqModErr(ObsUnit(U), ObsUnit(M))                                   \* Unit::new as coded = meaning
    /\ ~IsErr(U) =>
         /\ \A i \in DOMAIN c.die : LET v == Norm(c.die[i], u.h) IN AnyErrs(Resolve(D, U, v)) = AnyErrs(MResolve(D, M, v))
         /\ \A i \in DOMAIN probes : AnyErrs(obs.probes[i]) = AnyErrs(MObsProbe(D, M, probes[i]))
         /\ (HasProbes(c.die) => WellFormedStrx(D, U, e) /\ WellFormedAddrx(D, U, e) /\ DwoDefaultOk(D, U, u, e))
    /\ PrintT(<<"CASE", ToJson(
         [sys |-> "resolve", mode |-> "single", le |-> e.le, ft |-> e.ft,
          tag |-> [ver |-> e.ver, fmt |-> e.fmt, asz |-> e.asz, ut |-> e.ut, n |-> Len(c.die), body |-> c.body,
                   dup |-> Cardinality(names) < Len(c.die), full |-> Len(c.die) > 3],
          secs |-> [info |-> EncInfo(u), abbrev |-> EncAbbrev(u), str |-> D.str, line_str |-> D.line_str,
                    str_offsets |-> D.str_offsets, addr |-> D.addr, line |-> D.line.bytes],
          sup |-> D.sup, probes |-> probes,
          exp |-> obs])>>)

SplitCase ==
    LET e == c.e
        sk == SkelUnit(e, c.sk)
        sp == SplitUnit(e, c.sp)
        Pf == MainFile([e EXCEPT !.ft = "Main"], TRUE, "Main")
        Dd == DwoFile(e)
        Dm == MakeDwo(Dd, Pf)
        S  == UnitNew(Pf, sk)
        U0 == UnitNew(Dm, sp)
        U  == IF IsErr(U0) \/ IsErr(S) THEN U0 ELSE CopyRelocated(U0, S)
        F  == MSplitFile(Dd, Pf)
        MS == MUnit(Pf, sk)
        MU == MSplitUnit(Dd, Pf, MS, sp)
        base == Observe(Dm, U, sp, SplitProbes) IN
    /\ Dm = F                                                              \* make_dwo = the split file
    /\ EqModErr(ObsUnit(S), ObsUnit(MS))
    /\ EqModErr(ObsUnit(U), ObsUnit(MU))                                   \* copy_relocated_attributes = the split unit
    /\ ~IsErr(U) =>
         /\ \A i \in DOMAIN SplitProbes : AnyErrs(base.probes[i]) = AnyErrs(MObsProbe(F, MU, SplitProbes[i]))
         (* a split unit resolves address index i to entry i of the skeleton's table in the parent's .debug_addr *)
         /\ (~IsErr(S) /\ S.ab = B8(ADH(e))) => WellFormedAddrx(Dm, U, e)
         (* DWARF 5: strx i is the i-th entry of the .dwo contribution *)
         /\ (e.ver = 5 /\ ~\E i \in DOMAIN sp.attrs : sp.attrs[i].name = AT.str_offsets_base) =>
              /\ AttrString(Dm, U, [k |-> "DebugStrOffsetsIndex", v |-> B8(0)]) = [s |-> <<81, 82>>]
              /\ AttrString(Dm, U, [k |-> "DebugStrOffsetsIndex", v |-> B8(1)]) = [s |-> <<80>>]
              /\ IsErr(AttrString(Dm, U, [k |-> "DebugStrOffsetsIndex", v |-> B8(2)]))
    /\ PrintT(<<"CASE", ToJson(
         [sys |-> "resolve", mode |-> "split", le |-> e.le, ft |-> "Dwo",
          tag |-> [ver |-> e.ver, fmt |-> e.fmt, asz |-> e.asz, ut |-> e.ut, sk |-> c.sk, sp |-> c.sp],
          secs |-> [info |-> EncInfo(sp), abbrev |-> EncAbbrev(sp), str |-> Dd.str, line_str |-> Dd.line_str,
                    str_offsets |-> Dd.str_offsets, addr |-> Dd.addr, line |-> Dd.line.bytes, ranges |-> Dd.ranges, rnglists |-> Dd.rnglists],
          parent |-> [info |-> EncInfo(sk), abbrev |-> EncAbbrev(sk), str |-> Pf.str, line_str |-> Pf.line_str,
                      str_offsets |-> Pf.str_offsets, addr |-> Pf.addr, line |-> Pf.line.bytes, ranges |-> Pf.ranges, rnglists |-> Pf.rnglists],
          sup |-> Pf.sup, probes |-> SplitProbes, pprobes |-> ParentProbes,
          exp |-> (IF IsErr(U0) THEN base ELSE base @@ [before |-> ObsUnit(U0)])
                  @@ [parent |-> Observe(Pf, S, sk, ParentProbes),
                      dwo |-> [addr |-> Dm.addr, ranges |-> Dm.ranges, rnglists |-> Dm.rnglists, str |-> Dm.str,
                               str_offsets |-> Dm.str_offsets, has_sup |-> ~IsNone(Dm.sup)]]])>>)

Inv == CASE c.st = "single" -> SingleCase
         [] c.st = "split" -> SplitCase
         [] OTHER -> TRUE
=============================================================================
