---------------------------- MODULE RelocTrace ----------------------------
(***************************************************************************)
(* C18, write side of gimli's own writers (units, line programs, range and *)
(* location lists, frame tables).  Each generated input is written twice:  *)
(* through a recording write::RelocateWriter with symbolic addresses, and  *)
(* directly (EndianVec) with the symbols resolved.                         *)
(*  WSection: ApplyW(recorded bytes, recorded relocations, symbol values)  *)
(*            must be byte-identical to the directly written section       *)
(*            (sections based at 0).                                       *)
(*  WOutcome: both writes succeed or fail alike (a symbolic address must be *)
(*            accepted wherever the resolved constant is, e.g. a symbolic  *)
(*            root DW_AT_low_pc as the base of offset-pair lists).         *)
(*  RSchema : every field the writer relocated must be read through a      *)
(*            relocatable primitive (read_address / read_offset /          *)
(*            read_sized_offset, same offset and size) when the directly   *)
(*            written section is parsed back -- otherwise a RelocateReader *)
(*            could never apply that relocation.                           *)
(***************************************************************************)
EXTENDS Reloc, TLC, Json, IOUtils
VARIABLE l
Rec == ndJsonDeserialize(IOEnv.TRACE)
IsEv(e) == l <= Len(Rec) /\ Rec[l].ev = e /\ l' = l + 1

WSection == /\ IsEv("WSection")
            /\ LET r == Rec[l] IN
               /\ Len(r.rec) = Len(r.dir)
               /\ \A i \in DOMAIN r.rels : r.rels[i].off + r.rels[i].size <= Len(r.rec)
               /\ ApplyW(r.rec, r.rels, r.sym, 1) = r.dir
               (* each section relocation is against the section its offset points into *)
               /\ TargetsOK(r.sec, r.ver, r.rels, r.lens)
(* Converse ("every address and cross-section offset passes through the    *)
(* relocating writer"), with every address written symbolically: in the    *)
(* sections listed in StrictSecs each relocatable-primitive read must be a     *)
(* relocated field.  Not demanded for .debug_ranges/.debug_loc (base       *)
(* selectors, offset pairs and terminators are address-sized plain values  *)
(* that the reader can only read with read_address), .debug_frame (FDE     *)
(* address_range, class addrlen) and .debug_aranges.                       *)
StrictSecs == {".debug_info", ".debug_line", ".debug_rnglists", ".debug_loclists"}
(* writing through the recording writer succeeds exactly when the direct    *)
(* write of the same input with the symbols resolved does (same error)      *)
WOutcome == /\ IsEv("WOutcome")
            /\ Rec[l].rec = Rec[l].dir
RSchema == /\ IsEv("RSchema")
           /\ LET r == Rec[l] IN
              /\ \A i \in DOMAIN r.wrel : \E j \in DOMAIN r.rprims : r.rprims[j] = r.wrel[i]
              /\ r.sec \in StrictSecs => \A j \in DOMAIN r.rprims : \E i \in DOMAIN r.wrel : r.wrel[i] = r.rprims[j]

Init == l = 1 /\ buf = <<>> /\ le = TRUE /\ hs = <<>> /\ res = OkUnit
Next == (WSection \/ RSchema \/ WOutcome) /\ UNCHANGED rvars
Accepted == LET d == TLCGet("stats").diameter IN
            IF d - 1 = Len(Rec) THEN TRUE
            ELSE Print(<<"UNMATCHED", d, ToJson(Rec[d])>>, FALSE)
=============================================================================
