INIT Init
NEXT Next
INVARIANT Inv3
CHECK_DEADLOCK FALSE
CONSTANTS
  MaxN = 4
  MaxUnits = 2
  MaxEdges = 2
  MaxEdgesBig = 1
  Salt = 1
  EmitMod = 100000
  CheckSplit = FALSE
