---- MODULE MCF2 ----
EXTENDS MCFilter
Inv0 == g.phase = "final" => WellFormed(Graph(g))
Inv1 == g.phase = "final" => LET G == Graph(g) subs == Subsets(g.n) m0 == TraverseAll(G) IN \A k \in DOMAIN subs : Len(GRRun(GRInit(WithRequired(m0, G, subs[k]))).reachable) >= 0
Inv2 == g.phase = "final" => LET G == Graph(g) subs == Subsets(g.n) nd == NeedsFn(G) lk == LinkedFn(G) IN \A k \in DOMAIN subs : Cardinality(LfpF(nd, subs[k])) >= 0 /\ Cardinality(LfpF(lk, subs[k])) >= 0
Inv3 == g.phase = "final" =>
       LET G == Graph(g)
           subs == Subsets(g.n)
           nd == NeedsFn(G)
           lk == LinkedFn(G)
           m0 == TraverseAll(G)
           res == [k \in DOMAIN subs |-> [w |-> GRRun(GRInit(WithRequired(m0, G, subs[k]))),
                                          M |-> LfpF(nd, subs[k]), Y |-> LfpF(lk, subs[k])]] IN
       /\ \A k \in DOMAIN subs : /\ ResultOkWith(G, subs[k], res[k].w, res[k].M, res[k].Y, nd)
                                 /\ AllowedWith(nd, res[k].M, res[k].Y, Range(res[k].w.reachable))
====
