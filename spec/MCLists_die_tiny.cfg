INIT InitD
NEXT NextD
INVARIANT InvD
CHECK_DEADLOCK FALSE
CONSTANTS
  MaxLen = 1
  FlavLen = 1
  CoreFrom = 3
  Bases = {"0", "1"}
  DieLen = 1
  DieSlimLen = 1
  DieCoreFrom = 3
