----------------------------- MODULE LineWriter -----------------------------
(***************************************************************************)
(* The line-program builder of gimli::write (C13), composed with LineSM.   *)
(*                                                                         *)
(*  1. `Select`: the opcode selection of `LineProgram::generate_row` as     *)
(*     coded (special opcode / DW_LNS_const_add_pc / DW_LNS_advance_pc /    *)
(*     DW_LNS_advance_line / DW_LNS_copy), on integers.                    *)
(*  2. `Eff`: the effect of those instructions per DWARF 6.2.5.1, and the   *)
(*     theorem `SelectCorrect`: Exec(Select(dline, dop)) = (dline, dop)     *)
(*     with exactly one row, appended last.  `SelectRefines` states the    *)
(*     same against LineSM's DWARF machine on byte tuples: the selected    *)
(*     instructions produce the rows of the canonical program              *)
(*     <<advance_line dline, advance_pc dop, copy>>.                       *)
(*  3. The builder machine: state = what the user has built (prev_row,     *)
(*     row, emitted instructions, in_sequence, directory / file tables),   *)
(*     one action per public call, in the shape of write/line.rs;          *)
(*     `Meaning` = the rows that must be read back.                        *)
(*                                                                         *)
(* P (parameters): [ver, fmt, asz, le, mil, maxops, dis, lbase, lrange].    *)
(* The writer always emits opcode_base 13 with the standard lengths.       *)
(* Integers here are TLC integers: the bounded models keep every value     *)
(* below 2^31, except line numbers in the `lines` model (LineSplit /        *)
(* RowIns64 on byte tuples: the 64-bit boundary set); other 64-bit values   *)
(* are covered by trace validation (LineWriterTrace, on byte tuples).      *)
(***************************************************************************)
EXTENDS LineSM

OBASE == 13
HeaderOf(P) == [ver |-> P.ver, fmt |-> P.fmt, asz |-> P.asz, le |-> P.le, mil |-> P.mil, maxops |-> P.maxops,
                dis |-> P.dis, lbase |-> P.lbase, lrange |-> P.lrange, obase |-> OBASE, oplens |-> StdLens]
(* LineProgram::new asserts *)
ParamsOk(P) == P.lbase <= 0 /\ P.lbase + P.lrange > 0 /\ P.lrange <= 255 /\ P.lrange >= 1

(*------------------------------------------------------------------------*)
(* Instructions as <<kind, operand>>: "L" advance_line, "P" advance_pc,    *)
(* "K" const_add_pc, "S" special, "Y" copy (and for the builder: "A"       *)
(* set_address, "E" end_sequence, "D" set_discriminator, "B" basic_block,  *)
(* "G" prologue_end, "H" epilogue_begin, "N" negate_stmt, "F" set_file,    *)
(* "C" set_column, "I" set_isa).                                           *)
Select(P, dline, dop) ==
    LET specialDefault == OBASE - P.lbase            \* special_base.wrapping_sub(line_base)
        sl        == dline - P.lbase                 \* special_line (u64: negative = huge)
        useLine   == dline # 0 /\ sl >= 0 /\ sl < P.lrange /\ OBASE + sl <= 255     \* must fit a byte
        special0  == IF useLine THEN OBASE + sl ELSE specialDefault
        pre1      == IF dline # 0 /\ ~useLine THEN << <<"L", dline>> >> ELSE <<>>
        fits      == special0 + dop * P.lrange <= 255
        opRange   == (255 - OBASE) \div P.lrange
        sop       == IF fits THEN dop ELSE dop - opRange
        ok2       == sop >= 0 /\ special0 + sop * P.lrange <= 255       \* u64: negative = huge
        special1  == IF dop # 0 /\ ok2 THEN special0 + sop * P.lrange ELSE special0
        useSpec   == useLine \/ (dop # 0 /\ ok2)
        pre2      == IF dop = 0 THEN <<>>
                     ELSE IF ok2 THEN (IF ~fits THEN << <<"K", 0>> >> ELSE <<>>)
                     ELSE << <<"P", dop>> >>
        last      == IF useSpec /\ special1 # specialDefault THEN <<"S", special1>> ELSE <<"Y", 0>>
    IN pre1 \o pre2 \o <<last>>

(* History: before gimli 2f2b9d1 the `OBASE + sl <= 255` test was missing   *)
(* (finding select:special-opcode-overflow, possible for line_range > 243); *)
(* the products below are checked / saturating in the code, which is the    *)
(* integer meaning used here.                                               *)

(* effect of one instruction: [dl, do, row] (DWARF 6.2.5.1 / 6.2.5.2) *)
Eff(P, i) ==
    CASE i[1] = "L" -> [dl |-> i[2], do |-> 0, row |-> FALSE]
      [] i[1] = "P" -> [dl |-> 0, do |-> i[2], row |-> FALSE]
      [] i[1] = "K" -> [dl |-> 0, do |-> (255 - OBASE) \div P.lrange, row |-> FALSE]
      [] i[1] = "S" -> [dl |-> P.lbase + ((i[2] - OBASE) % P.lrange), do |-> (i[2] - OBASE) \div P.lrange, row |-> TRUE]
      [] i[1] = "Y" -> [dl |-> 0, do |-> 0, row |-> TRUE]
RECURSIVE SumEff(_, _, _)
SumEff(P, is, k) == IF k > Len(is) THEN <<0, 0>>
                    ELSE LET e == Eff(P, is[k]) r == SumEff(P, is, k + 1) IN <<e.dl + r[1], e.do + r[2]>>
SelectCorrect(P, dline, dop) ==
    LET is == Select(P, dline, dop) IN
    /\ SumEff(P, is, 1) = <<dline, dop>>
    /\ Eff(P, is[Len(is)]).row /\ \A k \in 1..Len(is) - 1 : ~Eff(P, is[k]).row
    /\ \A k \in 1..Len(is) : is[k][1] = "S" => is[k][2] >= OBASE /\ is[k][2] <= 255
    /\ Len(is) <= 3

(* the same instructions as LineSM abstract instructions *)
ToIns(i) ==
    CASE i[1] = "L" -> IV("advance_line", FromInt(i[2], 8))
      [] i[1] = "P" -> IV("advance_pc", Nat8(i[2]))
      [] i[1] = "K" -> I0("const_add_pc")
      [] i[1] = "S" -> ISpecial(i[2])
      [] i[1] = "Y" -> I0("copy")
      [] i[1] = "A" -> IV("set_address", Nat8(i[2]))
      [] i[1] = "E" -> I0("end_sequence")
      [] i[1] = "D" -> IV("set_discriminator", Nat8(i[2]))
      [] i[1] = "B" -> I0("set_basic_block")
      [] i[1] = "G" -> I0("set_prologue_end")
      [] i[1] = "H" -> I0("set_epilogue_begin")
      [] i[1] = "N" -> I0("negate_stmt")
      [] i[1] = "F" -> IV("set_file", Nat8(i[2]))
      [] i[1] = "C" -> IV("set_column", Nat8(i[2]))
      [] i[1] = "I" -> IV("set_isa", Nat8(i[2]))
AsList(is) == [list |-> [k \in 1..Len(is) |-> [ins |-> ToIns(is[k]), n |-> 1]], ok |-> TRUE]
(* composition with LineSM: from line 1000 + 1 and operation index opi0 the *)
(* selected instructions yield the row of the canonical program            *)
SelectRefines(P, dline, dop, opi0) ==
    LET H   == HeaderOf(P)
        pre == << <<"L", 1000>>, <<"P", opi0>> >>
        a   == StdRun(H, AsList(pre \o Select(P, dline, dop)))
        b   == StdRun(H, AsList(pre \o << <<"L", dline>>, <<"P", dop>>, <<"Y", 0>> >>))
    IN a.wf /\ b.wf /\ a.rows = b.rows /\ Len(a.rows) = 1

(*------------------------------------------------------------------------*)
(* Line advances that do not fit an i64 (line numbers of 2^63 or more):    *)
(* generate_row first emits DW_LNS_advance_line(i64::MAX) / (i64::MIN)     *)
(* until the rest fits, as coded (gimli 19caef6).  On byte tuples.         *)
(* LineSplit(prev, cur) = <<extras, residual>>: extras a sequence of       *)
(* <<"L64", operand>>, residual the signed rest (BV8).                     *)
I64MaxBV == <<255, 255, 255, 255, 255, 255, 255, 127>>
I64MinBV == <<0, 0, 0, 0, 0, 0, 0, 128>>
RECURSIVE LineSplitFrom(_, _, _)
LineSplitFrom(prev, cur, acc) ==
    IF ULe(prev, cur) THEN
        LET d == Sub(cur, prev) IN
        IF ~IsNeg(d) THEN <<acc, d>>                                   \* fits i64
        ELSE LineSplitFrom(TLCEval(Add(prev, I64MaxBV)), cur, TLCEval(Append(acc, <<"L64", I64MaxBV>>)))
    ELSE
        LET dec == Sub(prev, cur) IN
        IF ULe(dec, I64MaxBV) THEN <<acc, Neg(dec)>>
        ELSE LineSplitFrom(TLCEval(Sub(prev, I64MinBV)), cur, TLCEval(Append(acc, <<"L64", I64MinBV>>)))
LineSplit(prev, cur) == LineSplitFrom(prev, cur, <<>>)
SmallInt(v) == v = SExt(Trunc(v, 4), 8) /\ (IF IsNeg(v) THEN ToInt(v) > 0 - 1073741824 ELSE ToInt(v) < 1073741824)
(* the instructions of one row whose line goes prev -> cur (64-bit) with   *)
(* operation advance dop: a residual that is not small cannot be a special *)
(* opcode, so it is an advance_line and the rest is Select with dline = 0  *)
RowIns64(P, prev, cur, dop) ==
    LET sp == LineSplit(prev, cur) IN
    sp[1] \o (IF SmallInt(sp[2]) THEN Select(P, ToInt(sp[2]), dop)
              ELSE << <<"L64", sp[2]>> >> \o Select(P, 0, dop))
(* the reader's line register after these advances (LineSM!LineAdvance, as  *)
(* coded): must be cur exactly                                             *)
RECURSIVE ApplyLineIns(_, _, _, _)
ApplyLineIns(P, line, is, k) ==
    IF k > Len(is) THEN line
    ELSE LET i == is[k]
             inc == IF i[1] = "L64" THEN i[2] ELSE FromInt(Eff(P, i).dl, 8)
         IN ApplyLineIns(P, TLCEval(LineAdvance(line, inc)), is, k + 1)
LineSplitCorrect(P, prev, cur, dop) == ApplyLineIns(P, prev, RowIns64(P, prev, cur, dop), 1) = cur
ToIns64(i) == IF i[1] = "L64" THEN IV("advance_line", i[2]) ELSE ToIns(i)
AsList64(is) == [list |-> [k \in 1..Len(is) |-> [ins |-> ToIns64(is[k]), n |-> 1]], ok |-> TRUE]
(* the form in which the harness reports instructions with 64-bit operands *)
WideIns(i) == CASE i[1] \in {"P", "F", "C", "I", "A", "D"} -> <<i[1], Nat8(i[2])>>
                [] i[1] = "L" -> <<"L", FromInt(i[2], 8)>>
                [] i[1] = "L64" -> <<"L", i[2]>>
                [] OTHER -> i

(*------------------------------------------------------------------------*)
(* Builder machine.  Row fields: off (address_offset), opi, file (0-based  *)
(* FileId), line, col, disc, stmt, bb, pe, eb, isa.                        *)
FileInit(P) == IF P.ver = 5 THEN 1 ELSE 0
RowInit(P) == [off |-> 0, opi |-> 0, file |-> FileInit(P), line |-> 1, col |-> 0, disc |-> 0,
               stmt |-> P.dis, bb |-> FALSE, pe |-> FALSE, eb |-> FALSE, isa |-> 0]
FileRaw(P, f) == IF P.ver <= 4 THEN f + 1 ELSE f

(* B: builder state.  ins: emitted instructions.  For the meaning:         *)
(* base = <<address, offset>> of the last address setting in the sequence  *)
(* (<<0, 0>> at its start), rows: the rows generated so far as the reader  *)
(* must report them.                                                       *)
BInit(P) == [prev |-> RowInit(P), row |-> RowInit(P), ins |-> <<>>, inseq |-> FALSE,
             base |-> <<0, 0>>, rows |-> <<>>]

OpAdvanceW(P, B) ==           \* LineProgram::op_advance
    ((B.row.off - B.prev.off) \div P.mil) * P.maxops + B.row.opi - B.prev.opi

BeginSequence(P, B, addr) ==  \* addr: <<>> or <<a>>; requires ~B.inseq
    [B EXCEPT !.inseq = TRUE,
              !.ins = IF addr = <<>> THEN @ ELSE Append(@, <<"A", addr[1]>>),
              !.base = IF addr = <<>> THEN @ ELSE <<addr[1], B.prev.off>>]
(* DW_LNE_set_address resets a reader's op_index to 0, so set_address also  *)
(* resets prev_row.op_index (gimli 235ab7d; before: finding                 *)
(* vliw:set_address-keeps-stale-op_index).                                 *)
SetAddress(P, B, a) ==
    [B EXCEPT !.inseq = TRUE, !.ins = Append(@, <<"A", a>>), !.base = <<a, B.prev.off>>, !.prev.opi = 0]
SetRow(B, r) == [B EXCEPT !.row = r]

(* the row a reader must report for builder row r *)
MeaningRow(P, B, r, es) ==
    [addr |-> B.base[1] + (r.off - B.base[2]), opi |-> r.opi, file |-> FileRaw(P, r.file), line |-> r.line,
     col |-> r.col, stmt |-> r.stmt, bb |-> r.bb, es |-> es, pe |-> r.pe, eb |-> r.eb, isa |-> r.isa, disc |-> r.disc]

GenerateRow(P, B) ==
    LET r    == B.row
        p    == B.prev
        i1   == (IF r.disc # 0 THEN << <<"D", r.disc>> >> ELSE <<>>)
                \o (IF r.bb THEN << <<"B", 0>> >> ELSE <<>>)
                \o (IF r.pe THEN << <<"G", 0>> >> ELSE <<>>)
                \o (IF r.eb THEN << <<"H", 0>> >> ELSE <<>>)
                \o (IF r.stmt # p.stmt THEN << <<"N", 0>> >> ELSE <<>>)
                \o (IF r.file # p.file THEN << <<"F", FileRaw(P, r.file)>> >> ELSE <<>>)
                \o (IF r.col # p.col THEN << <<"C", r.col>> >> ELSE <<>>)
                \o (IF r.isa # p.isa THEN << <<"I", r.isa>> >> ELSE <<>>)
        r2   == [r EXCEPT !.disc = 0, !.bb = FALSE, !.pe = FALSE, !.eb = FALSE]
    IN [B EXCEPT !.inseq = TRUE,
                 !.ins = @ \o i1 \o Select(P, r.line - p.line, OpAdvanceW(P, B)),
                 !.rows = Append(@, MeaningRow(P, B, r, FALSE)),
                 !.row = r2, !.prev = r2]

EndSequence(P, B, off) ==
    LET B1 == [B EXCEPT !.row.off = off]
        oa == OpAdvanceW(P, B1)
        \* the end row: only address and op_index are meaningful; the other
        \* registers are whatever the reader has (those of the previous row)
        er == [B.prev EXCEPT !.off = off, !.opi = B.row.opi, !.disc = 0, !.bb = FALSE, !.pe = FALSE, !.eb = FALSE]
    IN [B EXCEPT !.inseq = FALSE,
                 !.ins = @ \o (IF oa # 0 THEN << <<"P", oa>> >> ELSE <<>>) \o << <<"E", 0>> >>,
                 !.rows = Append(@, MeaningRow(P, B, er, TRUE)),
                 !.prev = RowInit(P), !.row = RowInit(P), !.base = <<0, 0>>]

(* preconditions the API documents / debug-asserts: offsets never decrease, *)
(* are multiples of min_inst_len, op_index < maxops and the operation       *)
(* pointer does not move backwards                                          *)
RowOk(P, B, r) == /\ r.off >= B.prev.off /\ r.off % P.mil = 0 /\ r.opi < P.maxops
                  /\ (r.off = B.prev.off => r.opi >= B.prev.opi)

(*------------------------------------------------------------------------*)
(* Directory / file tables: IndexSet / IndexMap identity.                  *)
(* dirs: Seq(name); files: Seq([name, dir, info]) keyed by <<name, dir>>.   *)
RECURSIVE IndexOf(_, _, _)
IndexOf(s, x, k) == IF k > Len(s) THEN 0 ELSE IF s[k] = x THEN k ELSE IndexOf(s, x, k + 1)
AddDirectory(dirs, d) ==      \* <<dirs', id>> (0-based id)
    LET k == IndexOf(dirs, d, 1) IN IF k > 0 THEN <<dirs, k - 1>> ELSE <<Append(dirs, d), Len(dirs)>>
NoInfo == [time |-> 0, size |-> 0, md5 |-> [i \in 1..16 |-> 0], src |-> <<>>]
AddFile(files, name, dir, info) ==    \* info: <<>> (None) or <<info>>; <<files', id>>
    LET keys == [k \in 1..Len(files) |-> <<files[k].name, files[k].dir>>]
        k    == IndexOf(keys, <<name, dir>>, 1) IN
    IF k > 0 THEN <<IF info = <<>> THEN files ELSE [files EXCEPT ![k].info = info[1]], k - 1>>
    ELSE <<Append(files, [name |-> name, dir |-> dir, info |-> IF info = <<>> THEN NoInfo ELSE info[1]]), Len(files)>>
=============================================================================
