---------------------------- MODULE ListWriter ----------------------------
(***************************************************************************)
(* Builder machine for gimli::write::RangeListTable / LocationListTable    *)
(* (C16), composed with the reader model Lists.                            *)
(*                                                                         *)
(* State: the two tables (sequences of distinct lists in insertion order,  *)
(* as the IndexSet keeps them).  Action TabAdd(list): the id is the index of  *)
(* an equal list if there is one, else a new index.  Write(unit encoding,  *)
(* DW_AT_low_pc of the root): emission as coded in src/write/range.rs and  *)
(* src/write/loc.rs                                                        *)
(*   v2-4  pair format: all-ones marker + address for BaseAddress,         *)
(*         offsets / addresses as address-size words, (0,0) terminator;    *)
(*         InvalidRange (empty range, first word equal to the all-ones     *)
(*         marker, begin + length leaving u64, default location) /         *)
(*         MissingBaseAddress / UnexpectedBaseAddress / ValueTooLarge as   *)
(*         coded, have_base_address from the root DIE                      *)
(*   v5    header + DW_RLE_x / DW_LLE_x entries, no validity checks.       *)
(*                                                                         *)
(* Meaning of a built list = Lists!Convert folded over its entries with    *)
(* the unit base address (no bytes involved): Meaning.  What the property  *)
(* allows for a unit: every list must be read back as its Meaning, unless  *)
(* some list cannot be represented unambiguously in the encoding, in which *)
(* case the write must fail (Allowed).  What the code as written does:     *)
(* Pred.  MCListWriter reports where Pred leaves Allowed.                  *)
(*                                                                         *)
(* Writer entries reuse Lists!Ent: "base"(a), "opair"(a = begin, b = end), *)
(* "se"(a, b), "slen"(a = begin, b = length), "defloc"; d = expression.    *)
(* Addresses are Address::Constant.                                        *)
(***************************************************************************)
EXTENDS Lists

(* enc: [ver, asz, fmt, le];  lp: [some, v] the root's DW_AT_low_pc *)
RCf(enc, fam) == [fam |-> fam, ver |-> enc.ver, asz |-> enc.asz, fmt |-> enc.fmt, dwo |-> FALSE, le |-> enc.le]
HaveBase(lp) == lp.some /\ ~IsZero(lp.v)          \* write/unit.rs: low_pc present and not Address::Constant(0)
UnitBase(lp) == IF lp.some THEN lp.v ELSE Z8       \* read side: Unit::low_pc defaults to 0

(*------------------------------------------------------------------------*)
(* Location expressions with entry references.  A writer entry may carry a *)
(* field r = [op, tgt]: after the raw bytes d the expression ends with     *)
(* DW_OP_call4 <unit offset of the target DIE> (Expression::op_call) or    *)
(* DW_OP_call_ref <.debug_info offset> (op_call_ref); tgt = 0 is the root  *)
(* DIE, tgt = i the i-th child.  Location lists are written after the DIE  *)
(* offsets are known, so forward references are legal there.  Expand       *)
(* replaces the reference by its bytes, given the DIE offsets offs         *)
(* (offs[i + 1] = offset of DIE i; the unit is at .debug_info offset 0).   *)
(* ModelOffs = the layout of the unit gvh-listw builds: header, root DIE   *)
(* (abbreviation code, optional DW_AT_low_pc as DW_FORM_addr, children),   *)
(* one child per list (code + one section offset).                         *)
HasRef(e) == "r" \in DOMAIN e
WordSize(enc) == IF enc.fmt = 64 THEN 8 ELSE 4
UnitHeaderSize(enc) == (IF enc.fmt = 64 THEN 12 ELSE 4) + 2 + (IF enc.ver >= 5 THEN 2 ELSE 1) + WordSize(enc)
ModelOffs(enc, lp, n) ==
    [j \in 1..(n + 1) |-> IF j = 1 THEN UnitHeaderSize(enc)
                          ELSE UnitHeaderSize(enc) + 1 + (IF lp.some THEN enc.asz ELSE 0) + (j - 2) * (1 + WordSize(enc))]
RefBytes(r, enc, offs) ==
    IF r.op = "call4" THEN <<153>> \o Fld(N8(offs[r.tgt + 1]), 4, enc.le)
    ELSE <<154>> \o Fld(N8(offs[r.tgt + 1]), WordSize(enc), enc.le)
Expand(L, enc, offs) ==
    [i \in DOMAIN L |-> IF HasRef(L[i]) THEN Ent(L[i].k, L[i].a, L[i].b, L[i].d \o RefBytes(L[i].r, enc, offs)) ELSE L[i]]

(*------------------------------------------------------------------------*)
(* Tables.                                                                 *)
IndexOf(tab, x) == LET S == {i \in DOMAIN tab : tab[i] = x} IN
                   IF S = {} THEN 0 ELSE CHOOSE i \in S : TRUE
TabAdd(tab, x) == IF IndexOf(tab, x) # 0 THEN [tab |-> tab, id |-> IndexOf(tab, x)]
               ELSE [tab |-> Append(tab, x), id |-> Len(tab) + 1]

(*------------------------------------------------------------------------*)
(* Emission as coded.  W* return [ok |-> TRUE, b |-> bytes] or             *)
(* [ok |-> FALSE, err |-> kind].                                           *)
WOk(b) == [ok |-> TRUE, b |-> b]
WErr(x) == [ok |-> FALSE, err |-> x]
(* Writer::write_udata(val, size) *)
WUdata(v, n, le) == IF FitsBytes(v, n) THEN WOk(Fld(v, n, le)) ELSE WErr("ValueTooLarge")
(* write_expression: size as 2 bytes before v5, ULEB in v5; then the bytes *)
WExpr(d, enc) == IF enc.ver <= 4
                 THEN (IF Len(d) < 65536 THEN WOk(Fld(N8(Len(d)), 2, enc.le) \o d) ELSE WErr("ValueTooLarge"))
                 ELSE WOk(ULeb(N8(Len(d))) \o d)
(* sequencing: concatenate while ok *)
RECURSIVE WCat(_)
WCat(ws) == IF ws = <<>> THEN WOk(<<>>)
            ELSE IF ~Head(ws).ok THEN Head(ws)
            ELSE LET r == WCat(Tail(ws)) IN IF ~r.ok THEN r ELSE WOk(Head(ws).b \o r.b)

(* one entry of the pair format; hb = have_base_address so far.            *)
(* result: [ok, b, hb] / [ok |-> FALSE, err]                               *)
WEntryOld(e, hb, enc, isLoc) ==
    LET n == enc.asz
        le == enc.le
        withData(w) == IF isLoc THEN WCat(<<w, WExpr(e.d, enc)>>) ELSE w
        out(w, h) == IF w.ok THEN [ok |-> TRUE, b |-> w.b, hb |-> h] ELSE w
    IN
    CASE e.k = "base" ->
            out(WCat(<<WUdata(OnesSized(n), n, le), WUdata(e.a, n, le)>>), TRUE)
      [] e.k = "opair" ->
            IF e.a = e.b \/ e.a = OnesSized(n) THEN WErr("InvalidRange")      \* empty, or would be a base selector
            ELSE IF ~hb THEN WErr("MissingBaseAddress")
            ELSE out(withData(WCat(<<WUdata(e.a, n, le), WUdata(e.b, n, le)>>)), hb)
      [] e.k = "se" ->
            IF e.a = e.b \/ e.a = OnesSized(n) THEN WErr("InvalidRange")
            ELSE IF hb THEN WErr("UnexpectedBaseAddress")
            ELSE out(withData(WCat(<<WUdata(e.a, n, le), WUdata(e.b, n, le)>>)), hb)
      [] e.k = "slen" ->
            \* begin.checked_add(length): overflow is InvalidRange
            IF AddOverflows(e.a, e.b) THEN WErr("InvalidRange")
            ELSE LET en == Add(e.a, e.b) IN
                 IF e.a = en \/ e.a = OnesSized(n) THEN WErr("InvalidRange")
                 ELSE IF hb THEN WErr("UnexpectedBaseAddress")
                 ELSE out(withData(WCat(<<WUdata(e.a, n, le), WUdata(en, n, le)>>)), hb)
      [] e.k = "defloc" -> WErr("InvalidRange")
RECURSIVE WListOld(_, _, _, _, _)
WListOld(L, i, hb, enc, isLoc) ==
    IF i > Len(L) THEN WOk(Zero(2 * enc.asz))
    ELSE LET w == WEntryOld(L[i], hb, enc, isLoc) IN
         IF ~w.ok THEN w
         ELSE LET r == WListOld(L, i + 1, w.hb, enc, isLoc) IN
              IF ~r.ok THEN r ELSE WOk(w.b \o r.b)

WEntryNew(e, enc, isLoc) ==
    LET n == enc.asz
        le == enc.le
        cf == RCf(enc, IF isLoc THEN "loc" ELSE "rng")
        code == <<KindCode(e.k, cf)>>
        withData(w) == IF isLoc THEN WCat(<<w, WExpr(e.d, enc)>>) ELSE w
    IN
    CASE e.k = "base"   -> WCat(<<WOk(code), WUdata(e.a, n, le)>>)
      [] e.k = "opair"  -> withData(WOk(code \o ULeb(e.a) \o ULeb(e.b)))
      [] e.k = "se"     -> withData(WCat(<<WOk(code), WUdata(e.a, n, le), WUdata(e.b, n, le)>>))
      [] e.k = "slen"   -> withData(WCat(<<WOk(code), WUdata(e.a, n, le), WOk(ULeb(e.b))>>))
      [] e.k = "defloc" -> withData(WOk(code))
RECURSIVE WListNew(_, _, _, _)
WListNew(L, i, enc, isLoc) ==
    IF i > Len(L) THEN WOk(<<0>>)
    ELSE LET w == WEntryNew(L[i], enc, isLoc) IN
         IF ~w.ok THEN w
         ELSE LET r == WListNew(L, i + 1, enc, isLoc) IN
              IF ~r.ok THEN r ELSE WOk(w.b \o r.b)

(* the table: [ok, sec, offs] — offs[i] = section offset of list i *)
RECURSIVE WLists(_, _, _, _, _, _)
WLists(tab, i, hb, enc, isLoc, pos) ==
    IF i > Len(tab) THEN [ok |-> TRUE, b |-> <<>>, offs |-> <<>>]
    ELSE LET w == IF enc.ver <= 4 THEN WListOld(tab[i], 1, hb, enc, isLoc) ELSE WListNew(tab[i], 1, enc, isLoc) IN
         IF ~w.ok THEN w
         ELSE LET r == WLists(tab, i + 1, hb, enc, isLoc, pos + Len(w.b)) IN
              IF ~r.ok THEN r ELSE [ok |-> TRUE, b |-> w.b \o r.b, offs |-> <<pos>> \o r.offs]
WTable(tab, hb, enc, isLoc) ==
    IF tab = <<>> THEN [ok |-> TRUE, sec |-> <<>>, offs |-> <<>>]
    ELSE IF enc.ver <= 4 THEN
        LET r == WLists(tab, 1, hb, enc, isLoc, 0) IN
        IF ~r.ok THEN r ELSE [ok |-> TRUE, sec |-> r.b, offs |-> r.offs]
    ELSE
        LET hs == HeaderSize(RCf(enc, "rng"))
            r  == WLists(tab, 1, hb, enc, isLoc, hs) IN
        IF ~r.ok THEN r
        ELSE LET rest == Fld(N8(5), 2, enc.le) \o <<enc.asz, 0>> \o Fld(Z8, 4, enc.le) \o r.b IN
             [ok |-> TRUE, sec |-> EncInitLen(Len(rest), RCf(enc, "rng")) \o rest, offs |-> r.offs]

(* Unit::write: ranges first, then locations *)
WriteUnit(rt, lt, enc, lp) ==
    LET hb == HaveBase(lp)
        r  == WTable(rt, hb, enc, FALSE) IN
    IF ~r.ok THEN r ELSE
    LET l == WTable(lt, hb, enc, TRUE) IN
    IF ~l.ok THEN l ELSE [ok |-> TRUE, rsec |-> r.sec, roffs |-> r.offs, lsec |-> l.sec, loffs |-> l.offs]

(*------------------------------------------------------------------------*)
(* Meaning of a built list: the ranges / (range, expression) pairs it      *)
(* denotes relative to the unit base address, by Lists!Convert.            *)
NoAddr == [sec |-> <<>>, base |-> Z8]
RECURSIVE MeaningFrom(_, _, _, _)
MeaningFrom(L, i, base, cf) ==
    IF i > Len(L) THEN <<>>
    ELSE LET c == Convert(L[i], base, cf, NoAddr) IN
         IF c.t = "some" THEN <<[t |-> "some", begin |-> c.begin, end |-> c.end, d |-> c.d]>> \o MeaningFrom(L, i + 1, c.base, cf)
         ELSE MeaningFrom(L, i + 1, c.base, cf)
Meaning(L, enc, lp, fam) == MeaningFrom(L, 1, UnitBase(lp), RCf(enc, fam))

(* what the reader model makes of the emitted section at the list's offset *)
ReadBack(sec, off, enc, lp, fam) == ResRun(sec, N8(off), UnitBase(lp), RCf(enc, fam), NoAddr)

(*------------------------------------------------------------------------*)
(* What the property demands.                                              *)
(* (1) the categories it names, for the pair format                        *)
RECURSIVE NamedReject(_, _, _, _)
NamedReject(L, i, hb, enc) ==
    IF enc.ver >= 5 \/ i > Len(L) THEN FALSE
    ELSE LET e == L[i] IN
         \/ e.k = "defloc"                                          \* default location before v5
         \/ (e.k \in {"opair", "se"} /\ e.a = e.b)                  \* empty range
         \/ (e.k = "slen" /\ IsZero(e.b))
         \/ (e.k = "opair" /\ ~hb)                                  \* needs a base address
         \/ (e.k \in {"se", "slen"} /\ hb)                          \* conflicts with a base address
         \/ NamedReject(L, i + 1, hb \/ e.k = "base", enc)
(* (2) anything else the encoding cannot carry unambiguously: values that  *)
(* do not fit their field, a sum that leaves the address space, and, in    *)
(* the pair format, a first word equal to the all-ones selector            *)
CanCarry(e, enc) ==
    LET n == enc.asz IN
    CASE e.k = "base"   -> FitsBytes(e.a, n)
      [] e.k = "opair"  -> enc.ver >= 5 \/ (FitsBytes(e.a, n) /\ FitsBytes(e.b, n) /\ e.a # OnesSized(n))
      [] e.k = "se"     -> FitsBytes(e.a, n) /\ FitsBytes(e.b, n) /\ (enc.ver >= 5 \/ e.a # OnesSized(n))
      [] e.k = "slen"   -> /\ FitsBytes(e.a, n)
                           /\ (enc.ver >= 5 \/ (~AddOverflows(e.a, e.b) /\ FitsBytes(Add(e.a, e.b), n) /\ e.a # OnesSized(n)))
      [] e.k = "defloc" -> enc.ver >= 5
MustReject(L, enc, lp) ==
    \/ NamedReject(L, 1, HaveBase(lp), enc)
    \/ \E i \in DOMAIN L : ~CanCarry(L[i], enc)
    \/ (enc.ver <= 4 /\ \E i \in DOMAIN L : Len(L[i].d) >= 65536)
=============================================================================
