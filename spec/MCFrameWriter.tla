---------------------------- MODULE MCFrameWriter ----------------------------
(***************************************************************************)
(* Bounded models for C14 (constant Fam):                                  *)
(*  "adv" one CIE x one FDE with two instructions whose code offsets sweep *)
(*        every advance_loc form boundary (0x3f/0x40, 0xff/0x100,          *)
(*        0xffff/0x10000) per code alignment factor, on and off alignment, *)
(*        equal and decreasing;                                            *)
(*  "ins" every write::CallFrameInstruction variant x register / offset    *)
(*        boundaries x data alignment factors (incl. 0, negative, inexact) *)
(*        followed by a second instruction (restore / restore_state / a    *)
(*        CFA update);                                                     *)
(*  "tab" builder sequences: 1..MaxCies add_cie calls over a pool of CIE   *)
(*        variants (versions, formats, augmentation / pointer encodings,   *)
(*        exact duplicates, same parameters with different instructions)   *)
(*        x 1..MaxFdes FDEs naming any of the returned ids.                *)
(* Every state prints one replay case: the builder script and, for both    *)
(* output sections, the emission as coded (bytes, layout) and the meaning  *)
(* to be read back, or the error.                                          *)
(***************************************************************************)
EXTENDS FrameWriter, Json, FiniteSets
CONSTANTS Fam, MaxCies, MaxFdes, Slim
VARIABLE c

I0 == [op |-> "", r |-> 0, r2 |-> 0, o |-> 0, n |-> 0, e |-> <<>>]
Ins(op)          == [I0 EXCEPT !.op = op]
InsR(op, r)      == [I0 EXCEPT !.op = op, !.r = r]
InsRO(op, r, o)  == [I0 EXCEPT !.op = op, !.r = r, !.o = o]
InsO(op, o)      == [I0 EXCEPT !.op = op, !.o = o]
InsRR(op, r, r2) == [I0 EXCEPT !.op = op, !.r = r, !.r2 = r2]
InsE(op, r, e)   == [I0 EXCEPT !.op = op, !.r = r, !.e = e]
InsN(op, n)      == [I0 EXCEPT !.op = op, !.n = n]

NoPers == [some |-> FALSE, enc |-> 0, addr |-> Zero(8)]
NoLsda == [some |-> FALSE, addr |-> Zero(8)]
MkBCie(fmt, ver, asz, caf, daf, ra) ==
    [fmt |-> fmt, ver |-> ver, asz |-> asz, caf |-> caf, daf |-> daf, ra |-> ra, pers |-> NoPers,
     lenc |-> -1, fenc |-> 0, sig |-> FALSE, ins |-> <<>>]
MkBFde(cie, addr, len, ins) == [cie |-> cie, addr |-> addr, len |-> len, lsda |-> NoLsda, ins |-> ins]

(*---------------------------- expectations --------------------------------*)
PtrExp(enc, addr, asz) == [k |-> IF PeIndirect(enc) THEN "indirect" ELSE "direct", v |-> MaskA(addr, asz)]
CieExp(bc) ==
    [t |-> "cie", fmt |-> bc.fmt, ver |-> bc.ver, asz |-> bc.asz, caf |-> N8(bc.caf), daf |-> FromInt(bc.daf, 8),
     ra |-> bc.ra,
     aug |-> IF ~HasAug(bc) THEN [some |-> FALSE]
             ELSE [some |-> TRUE, lsda |-> bc.lenc,
                   pers |-> IF bc.pers.some THEN [some |-> TRUE, enc |-> bc.pers.enc] @@ PtrExp(bc.pers.enc, bc.pers.addr, bc.asz)
                            ELSE [some |-> FALSE],
                   fenc |-> IF bc.fenc # 0 THEN bc.fenc ELSE -1, sig |-> bc.sig]]
(* probe offsets of an FDE: around every instruction offset, the start and the last byte *)
ProbeOffs(bf) ==
    {x \in UNION {{bf.ins[k][1] - 1, bf.ins[k][1]} : k \in DOMAIN bf.ins} \cup {0, bf.len - 1} : x >= 0 /\ x < bf.len}
FdeExp(bf, bc, probes) ==
    LET init == RunCie(bc.ins, 1, St0) IN
    [t |-> "fde", start |-> MaskA(bf.addr, bc.asz), rng |-> N8(bf.len),
     lsda |-> IF bf.lsda.some /\ bc.lenc >= 0 THEN [some |-> TRUE] @@ PtrExp(bc.lenc, bf.lsda.addr, bc.asz) ELSE [some |-> FALSE],
     states |-> [j \in 1..Len(probes) |-> [x |-> probes[j], st |-> Project(StateAt(bf.ins, 1, init, init, probes[j]))]]]

LOCAL SE == INSTANCE SequencesExt
SortedSeq(S) == SE!SetToSeq(S)       \* order is irrelevant; the harness echoes the probe offset

WellFormed(set, fdes) ==
    /\ \A j \in DOMAIN set : CieOk(set[j].ins, 1, St0)
    /\ \A k \in DOMAIN fdes : LET init == RunCie(set[fdes[k].cie].ins, 1, St0) IN FdeOk(fdes[k].ins, 1, init, init)

(* pc = [some |-> FALSE] or [some |-> TRUE, c |-> builder CIE]: a plain, UNPADDED CIE   *)
(* (13 bytes) that is already in the section before the table is written                 *)
NoPre == [some |-> FALSE]
PreBytes(kind, pc, le) ==
    IF ~pc.some THEN <<>> ELSE EncCie(kind, CodecCie(kind, pc.c, Zero(8)), pc.c.asz, le)
WriteExp(kind, set, fdes, le, probes, pc) ==
    LET pre == PreBytes(kind, pc, le)
        w   == WriteP(kind, set, fdes, le, pre) IN
    IF ~w.ok THEN [ok |-> FALSE, err |-> w.err]
    ELSE [ok |-> TRUE, bytes |-> w.b,
          ents |-> (IF pc.some THEN <<[off |-> 0, len |-> Len(pre) - LenSize(pc.c.fmt), padok |-> TRUE, pre |-> TRUE] @@ CieExp(pc.c)>>
                    ELSE <<>>)
                \o [j \in DOMAIN w.ents |->
                      LET e == w.ents[j] IN
                      IF e.t = "cie"
                      THEN [off |-> e.off, len |-> e.len, padok |-> PadOk(set[e.id].fmt, e.len, set[e.id].asz)]
                           @@ CieExp(set[e.id])
                      ELSE [off |-> e.off, len |-> e.len, cie_off |-> e.cie_off,
                            padok |-> PadOk(set[fdes[e.k].cie].fmt, e.len, set[fdes[e.k].cie].asz), k |-> e.k]
                           @@ FdeExp(fdes[e.k], set[fdes[e.k].cie], probes[e.k])]]

(* adds: CIEs passed to add_cie in call order; fdes name the CALL index, the *)
(* builder maps it to the id returned by that call                           *)
CaseP(fam, adds, fdes0, le, vendor, pc) ==
    LET bld   == Builder(adds)
        fdes  == [k \in DOMAIN fdes0 |-> [fdes0[k] EXCEPT !.cie = bld.ids[fdes0[k].cie]]]
        probes == [k \in DOMAIN fdes |-> SortedSeq(ProbeOffs(fdes[k]))]
    IN [fam |-> fam, asz |-> adds[1].asz, le |-> le, vendor |-> vendor, adds |-> adds, fdes |-> fdes0, probes |-> probes,
        ids |-> bld.ids, ncies |-> Len(bld.set),
        wf |-> WellFormed(bld.set, fdes)
               /\ \A k \in DOMAIN fdes :           \* ranges that wrap around the address space have no meaning
                     LET a == MaskA(fdes[k].addr, bld.set[fdes[k].cie].asz) IN
                     ~ULt8(MaskA(Add8(a, N8(fdes[k].len)), bld.set[fdes[k].cie].asz), a),
        pre |-> [debug |-> PreBytes("debug", pc, le), eh |-> PreBytes("eh", pc, le)],
        exp |-> [debug |-> WriteExp("debug", bld.set, fdes, le, probes, pc),
                 eh    |-> WriteExp("eh", bld.set, fdes, le, probes, pc)]]
Case(fam, adds, fdes0, le, vendor) == CaseP(fam, adds, fdes0, le, vendor, NoPre)
Emit(x) == PrintT(<<"CASE", ToJson(x)>>)

(*=============================== "adv" ====================================*)
Cafs == {1, 2, 4, 255}
Deltas == {1, 62, 63, 64, 65, 254, 255, 256, 257, 65534, 65535, 65536, 65537}
AdvInit == c = [stage |-> 0]
AdvNext ==
    \/ /\ c.stage = 0 /\ \E caf \in (IF Slim THEN {1, 4, 255} ELSE Cafs \cup {0, 3}) : c' = [stage |-> 1, caf |-> caf]
    \/ /\ c.stage = 1
       /\ \E d \in Deltas \cup {0, -1} : \E skew \in {0, 1} : \E o1 \in {0, 1} : \E fa \in {<<32, 4>>, <<32, 8>>, <<64, 4>>, <<64, 8>>} :
            /\ (skew = 1 => c.caf > 1 /\ d \in {63, 64, 256})
            /\ (Slim => (fa = <<32, 8>> \/ (fa = <<64, 8>> /\ d \in {64, 65536}) \/ (fa = <<32, 4>> /\ d \in {63, 255}) \/ (fa = <<64, 4>> /\ d = 1)))
            /\ c' = [stage |-> 2, caf |-> c.caf, d |-> d, skew |-> skew, o1 |-> o1 * (IF c.caf = 0 THEN 1 ELSE c.caf), fmt |-> fa[1], asz |-> fa[2]]
AdvInv == c.stage = 2 =>
    LET unit == IF c.caf = 0 THEN 1 ELSE c.caf
        o2   == c.o1 + c.d * unit + c.skew
        cie  == [MkBCie(c.fmt, IF c.fmt = 64 THEN 3 ELSE 1, c.asz, c.caf, -8, 16) EXCEPT !.ins = <<InsRO("cfa", 7, 8), InsRO("offset", 16, -8)>>]
        fde  == MkBFde(1, N8(65536), 20000000,
                       << <<c.o1, InsO("cfa_offset", 16)>>, <<IF o2 < 0 THEN 0 ELSE o2, InsO("cfa_offset", 24)>> >>)
    IN (o2 >= 0 \/ c.o1 > 0) => Emit(Case("adv", <<cie>>, <<fde>>, (c.d + c.caf) % 3 # 0, "default"))

(*=============================== "ins" ====================================*)
Dafs == {-128, -8, -1, 0, 1, 8, 127}
Regs == {0, 63, 64, 300}
Offs == {0, 8, -8, 1, -1, 1016, -1024, 2147483647, -2147483647}
Expr1 == <<156>>               \* DW_OP_call_frame_cfa
Expr2 == <<145, 120, 6>>       \* DW_OP_fbreg -8; DW_OP_deref
InsSet ==
    {InsRO("cfa", r, o) : r \in {7, 300}, o \in Offs}
    \cup {InsR("cfa_register", r) : r \in Regs} \cup {InsO("cfa_offset", o) : o \in Offs}
    \cup {InsE("cfa_expr", 0, e) : e \in {Expr1, Expr2}}
    \cup {InsR("restore", r) : r \in Regs \cup {3, 16}} \cup {InsR("undefined", r) : r \in Regs \cup {16}}
    \cup {InsR("same_value", r) : r \in Regs}
    \cup {InsRO("offset", r, o) : r \in Regs, o \in Offs} \cup {InsRO("val_offset", r, o) : r \in {3, 300}, o \in Offs}
    \cup {InsRR("register", r, r2) : r \in {3, 64}, r2 \in {4, 300}}
    \cup {InsE("expr", r, e) : r \in {3, 64}, e \in {Expr1, Expr2}} \cup {InsE("val_expr", r, e) : r \in {3}, e \in {Expr2}}
    \cup {Ins("remember")} \cup {InsN("args_size", n) : n \in {0, 127, 128, 2147483647}} \cup {Ins("negate_ra")}
InsInit == c = [stage |-> 0]
InsNext ==
    \/ /\ c.stage = 0 /\ \E daf \in (IF Slim THEN {-8, 0, 1, 127} ELSE Dafs) : c' = [stage |-> 1, daf |-> daf]
    \/ /\ c.stage = 1 /\ \E x \in InsSet : \E y \in 1..3 : c' = [stage |-> 2, daf |-> c.daf, x |-> x, y |-> y]
InsInv == c.stage = 2 =>
    LET cie == [MkBCie(32, 1, 8, 1, c.daf, 16) EXCEPT !.ins = <<InsRO("cfa", 7, 8), InsRR("register", 3, 5), InsR("same_value", 16)>>]
        y   == CASE c.y = 1 -> InsO("cfa_offset", 32)
                 [] c.y = 2 -> InsR("restore", c.x.r)
                 [] c.y = 3 -> IF c.x.op = "remember" THEN Ins("restore_state") ELSE InsR("cfa_register", 6)
        mid == IF c.x.op = "remember" THEN << <<6, InsR("undefined", 16)>>, <<6, InsRO("cfa", 1, 2)>> >> ELSE <<>>
        fde == MkBFde(1, N8(4096), 64, << <<4, c.x>> >> \o mid \o << <<8, y>> >>)
        cs  == Case("ins", <<cie>>, <<fde>>, TRUE, IF c.x.op = "negate_ra" THEN "aarch64" ELSE "default")
    IN cs.wf => Emit(cs)

(*=============================== "tab" ====================================*)
BigAddr == <<0, 0, 0, 0, 1, 0, 0, 0>>      \* 2^32
Pool(asz) == <<
    MkBCie(32, 1, asz, 1, -8, 16),
    [MkBCie(32, 1, asz, 1, -8, 16) EXCEPT !.ins = <<InsRO("cfa", 7, 8)>>],             \* same parameters, other instructions
    [MkBCie(64, 3, asz, 4, -4, 300) EXCEPT !.ins = <<InsRO("cfa", 31, 0), InsRO("offset", 300, -4)>>],
    [MkBCie(32, 4, asz, 2, 8, 128) EXCEPT !.sig = TRUE],
    [MkBCie(32, 1, asz, 1, -8, 127) EXCEPT !.pers = [some |-> TRUE, enc |-> 155, addr |-> N8(74565)], !.lenc = 27, !.fenc = 27],
    [MkBCie(32, 1, asz, 1, -8, 16) EXCEPT !.pers = [some |-> TRUE, enc |-> 0, addr |-> N8(74565)], !.lenc = 3],
    [MkBCie(64, 1, asz, 1, -8, 16) EXCEPT !.fenc = 12, !.lenc = 1],
    [MkBCie(32, 1, asz, 1, -8, 16) EXCEPT !.fenc = 9, !.pers = [some |-> TRUE, enc |-> 4, addr |-> BigAddr]],
    [MkBCie(32, 1, asz, 1, -8, 16) EXCEPT !.fenc = 48],                              \* datarel: unsupported by the writer
    [MkBCie(32, 1, asz, 1, -8, 16) EXCEPT !.fenc = 2],                               \* udata2: addresses do not fit
    [MkBCie(32, 3, asz, 1, -8, 16) EXCEPT !.lenc = 155],
    MkBCie(32, 1, asz, 1, -8, 200) >>                                                \* version 1, register >= 128
FdeFor(k, cieCall, bc) ==
    [MkBFde(cieCall, N8(4096 * k + 512), 256, << <<0, InsO("cfa_offset", 16 * k)>>, <<8, InsRO("offset", 3, -8 * k)>> >>)
        EXCEPT !.lsda = IF bc.lenc >= 0 THEN [some |-> TRUE, addr |-> N8(200000 + k)] ELSE NoLsda]
(* "mix" states (explored in the same run): entries that do not start at a multiple of   *)
(* their own address size — tables mixing CIEs of address size 4 and 8 (version 4, so    *)
(* that .debug_frame reads back; .eh_frame refuses version 4), and tables written into a *)
(* section that already holds an unpadded 13-byte CIE.  kc / kf extra two-byte / one-byte *)
(* instructions sweep the entry sizes through every residue.                             *)
Sames(k) == [j \in 1..k |-> InsR("same_value", 20 + j)]
Restores(k) == [j \in 1..k |-> <<0, InsR("restore", 16)>>]
MixCie(fmt, ver, asz, kc) == [MkBCie(fmt, ver, asz, 1, -4, 16) EXCEPT !.ins = <<InsRO("cfa", 7, 8)>> \o Sames(kc)]
MixFde(k, call, kf) == MkBFde(call, N8(4096 * k), 64, Restores(kf) \o << <<4, InsO("cfa_offset", 16 * k)>> >>)
(* "eptr" states (same run): the .eh_frame pointer-format dimension.  Every format that  *)
(* write_eh_pointer accepts x application {absptr, pcrel} x slot {personality, FDE         *)
(* address, LSDA} x address size x values at the format's signed and unsigned boundaries   *)
(* (negative ones through pcrel targets below the pointer's position, or as wrapped        *)
(* absolute addresses).  Representable => written and read back equal; otherwise          *)
(* ValueTooLarge, never a different value (PtrRoundTrip is checked by TLC as well).        *)
EpFormats == {0, 1, 2, 3, 4, 9, 10, 11, 12}
Pw(k) == Conc8(Shl(One(8), k))
Neg8(v) == Sub8(Zero(8), v)
Around(b) == {Sub8(Pw(b - 1), N8(1)), Pw(b - 1), Neg8(Pw(b - 1))}
             \cup (IF b < 64 THEN {Sub8(Pw(b), N8(1)), Pw(b), Sub8(Neg8(Pw(b - 1)), N8(1))} ELSE {})
EpAll == UNION {Around(b) : b \in {8, 16, 32, 64}} \cup {Zero(8), N8(1), Neg8(N8(1)), Neg8(N8(64)), Neg8(N8(65))}
EpVals(f, asz) ==
    IF ~Slim THEN EpAll
    ELSE {N8(1), Neg8(N8(1))}
         \cup (CASE f = 0 -> Around(8 * asz) [] f \in {2, 10} -> Around(16) [] f \in {3, 11} -> Around(32)
                  [] f \in {4, 12} -> Around(64) [] OTHER -> Around(8) \cup Around(64))
EpCase(x) ==
    LET enc  == x.f + x.app + (IF x.ind THEN 128 ELSE 0)
        bc0  == MkBCie(32, 1, x.asz, 1, -8, 16)
        bc1  == CASE x.slot = "P" -> [bc0 EXCEPT !.pers = [some |-> TRUE, enc |-> enc, addr |-> Zero(8)]]
                  [] x.slot = "F" -> [bc0 EXCEPT !.fenc = enc]
                  [] x.slot = "L" -> [bc0 EXCEPT !.lenc = enc]
        clen == IF x.slot = "P" THEN 0 ELSE Len(EmitCie("eh", bc1, 0, TRUE).b)
        pos  == CASE x.slot = "P" -> PersPos("eh", bc1, 0)
                  [] x.slot = "F" -> FdeAddrPos("eh", bc1, clen)
                  [] x.slot = "L" -> FdeLsdaPosPlain("eh", bc1, clen)
        T    == IF x.app = 0 THEN x.d ELSE Add8(N8(pos), x.d)
        bc   == IF x.slot = "P" THEN [bc1 EXCEPT !.pers.addr = T] ELSE bc1
        fde  == [MkBFde(1, IF x.slot = "F" THEN T ELSE N8(4096), 64, << <<0, InsO("cfa_offset", 16)>> >>)
                    EXCEPT !.lsda = IF x.slot = "L" THEN [some |-> TRUE, addr |-> T] ELSE NoLsda]
    IN [cs |-> Case("eptr", <<bc>>, <<fde>>, x.le, "default") @@ [enc |-> enc, slot |-> x.slot],
        lemma |-> PtrRoundTrip(enc, T, pos, x.asz)]

TabInit == c = [stage |-> 0]
TabNext ==
    \/ /\ c.stage = 0 /\ \E a \in {4, 8} : \E v \in DOMAIN Pool(4) : c' = [stage |-> 1, asz |-> a, adds |-> <<v>>, refs |-> <<>>]
    \/ /\ c.stage = 1 /\ Len(c.adds) < MaxCies /\ c.refs = <<>>
       /\ \E v \in DOMAIN Pool(4) : (~Slim \/ v <= 6 \/ c.adds[1] <= 2) /\ c' = [c EXCEPT !.adds = Append(@, v)]
    \/ /\ c.stage = 1 /\ Len(c.refs) < MaxFdes
       /\ \E r \in DOMAIN c.adds : c' = [c EXCEPT !.refs = Append(@, r)]
    \/ /\ c.stage = 0 /\ \E kc \in 0..3 : \E pre \in BOOLEAN : c' = [stage |-> 4, kc |-> kc, pre |-> pre]   \* fan out
    \/ /\ c.stage = 0 /\ \E slot \in {"P", "F", "L"} : \E f \in EpFormats : c' = [stage |-> 6, slot |-> slot, f |-> f]   \* fan out
    \/ /\ c.stage = 6
       /\ \E app \in {0, PePcrel} : \E asz \in {4, 8} : \E d \in EpVals(c.f, asz) : \E ind \in BOOLEAN :
            /\ (ind => d = N8(1))
            /\ c' = [stage |-> 7, slot |-> c.slot, f |-> c.f, app |-> app, asz |-> asz, d |-> d, ind |-> ind,
                     le |-> (d[1] + c.f + asz) % 4 # 0]
    \/ /\ c.stage = 4
       /\ \E kf \in 0..3 : \E shape \in {"48", "84", "4", "8"} : \E f64 \in BOOLEAN :
            /\ (shape \in {"4", "8"} => c.pre)                  \* one address size is only interesting behind a prefix
            /\ (Slim => (f64 = (kf % 2 = 1)))
            /\ c' = [stage |-> 5, kc |-> c.kc, pre |-> c.pre, kf |-> kf, shape |-> shape, f64 |-> f64]
TabInv ==
    /\ (c.stage = 1 /\ c.refs # <<>>) =>
          LET pool == Pool(c.asz)
              adds == [j \in DOMAIN c.adds |-> pool[c.adds[j]]]
              fdes == [k \in DOMAIN c.refs |-> FdeFor(k, c.refs[k], adds[c.refs[k]])]
          IN Emit(Case("tab", adds, fdes, (Len(c.adds) + Len(c.refs) + c.asz) % 3 # 0, "default"))
    /\ c.stage = 7 => LET e == EpCase(c) IN e.lemma /\ Emit(e.cs)
    /\ c.stage = 5 =>
          LET fmt  == IF c.f64 THEN 64 ELSE 32
              a4   == MixCie(32, IF c.shape = "4" THEN 1 ELSE 4, 4, c.kc)
              a8   == MixCie(fmt, IF c.shape = "8" THEN 1 ELSE 4, 8, (c.kc + 1) % 4)
              adds == CASE c.shape = "48" -> <<a4, a8>> [] c.shape = "84" -> <<a8, a4>>
                        [] c.shape = "4" -> <<a4>> [] c.shape = "8" -> <<a8>>
              fdes == IF Len(adds) = 2 THEN <<MixFde(1, 1, c.kf), MixFde(2, 2, (c.kf + 1) % 4), MixFde(3, 1, (c.kf + 2) % 4)>>
                      ELSE <<MixFde(1, 1, c.kf), MixFde(2, 1, (c.kf + 1) % 4)>>
              pc   == IF c.pre THEN [some |-> TRUE, c |-> MkBCie(32, 1, adds[1].asz, 1, -8, 16)] ELSE NoPre
          IN Emit(CaseP("mix", adds, fdes, (c.kc + c.kf) % 3 # 0, "default", pc))

(*==========================================================================*)
Init == CASE Fam = "adv" -> AdvInit [] Fam = "ins" -> InsInit [] Fam = "tab" -> TabInit
Next == CASE Fam = "adv" -> AdvNext [] Fam = "ins" -> InsNext [] Fam = "tab" -> TabNext
Inv  == CASE Fam = "adv" -> AdvInv [] Fam = "ins" -> InsInv [] Fam = "tab" -> TabInv
=============================================================================
