INIT Init
NEXT Next
INVARIANT Inv
CHECK_DEADLOCK FALSE
CONSTANTS
  FullLen = 2
  CoreLen = 3
  OpcLen = 1
  FmtLen = 2
  WideLen = 2
  Tuples = {1, 2, 3, 4, 5, 6}
  Modes = {"prog", "opc", "hdr", "wide", "seq"}
