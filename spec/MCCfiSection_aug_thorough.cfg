INIT Init
NEXT Next
INVARIANT Inv
CHECK_DEADLOCK FALSE
CONSTANTS
  Fam = "aug"
  MaxTab = 6
  FullTab = 3
  AgreeTab = 6
  MaxLen = 3
  Dups = FALSE
  Slim = FALSE
