INIT Init
NEXT Next
INVARIANT Inv
CHECK_DEADLOCK FALSE
CONSTANTS
  MaxTbl = 4
  MaxVec = 3
  MaxDies = 3
  TwoFull = FALSE
