-------------------------- MODULE FrameWriterTrace --------------------------
(***************************************************************************)
(* Trace validation for C14: every entry that gimli::read reports for a    *)
(* section written by write::FrameTable (format, length, address size as   *)
(* decoded by the reader) must satisfy the padding rule of the property:   *)
(* the size of the length field plus the length is a multiple of the       *)
(* address size (FrameWriter!PadOk).  The check keeps going after a bad    *)
(* entry: it prints <<"PADBAD", ...>> (turned into a violation by the      *)
(* driver) so that one run judges all entries.                              *)
(***************************************************************************)
EXTENDS FrameWriter, Json, IOUtils
VARIABLE l
Rec == ndJsonDeserialize(IOEnv.TRACE)
Entry == /\ l <= Len(Rec) /\ Rec[l].ev = "Entry" /\ l' = l + 1
         /\ LET r == Rec[l] IN
            /\ r.fmt \in {32, 64} /\ r.asz \in {1, 2, 4, 8} /\ r.len >= 0
            /\ (PadOk(r.fmt, r.len, r.asz) \/ PrintT(<<"PADBAD", r.fmt, r.len, r.asz, r.kind, r.t>>))
Init == l = 1
Next == Entry
Accepted == LET d == TLCGet("stats").diameter IN
            IF d - 1 = Len(Rec) THEN TRUE
            ELSE Print(<<"UNMATCHED", d, ToJson(Rec[d])>>, FALSE)
=============================================================================
