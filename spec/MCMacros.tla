------------------------------ MODULE MCMacros ------------------------------
(* Bounded model of macro information iteration (extension; not one of the   *)
(* listed properties).  Every entry list up to MaxEntries over a menu that   *)
(* covers all DW_MACINFO / DW_MACRO opcodes, x unit kinds (macinfo; macro    *)
(* with 32/64-bit offsets, with/without line offset, with the refused opcode *)
(* operands table).  THEOREM: the decoder as coded, run on the encoded unit, *)
(* yields exactly the entries' meaning (round trip), an error at the first   *)
(* opcode that is invalid for the section kind, and UnexpectedEof when the   *)
(* terminator is missing.  Truncations of single-entry units are emitted     *)
(* with the decoder's own outcome as expectation.                            *)
EXTENDS Macros, TLC, Json
CONSTANTS MaxEntries
VARIABLE c

N8(n) == FromNat(n, 8)
D(s) == [t |-> "direct", s |-> s]
Menu == {
  [k |-> "define", line |-> N8(1), str |-> D(<<65, 32, 49>>)],
  [k |-> "define", line |-> N8(300), str |-> D(<<>>)],
  [k |-> "undef", line |-> N8(0), str |-> D(<<97, 98>>)],
  [k |-> "start_file", line |-> N8(2), file |-> N8(5)],
  [k |-> "start_file", line |-> N8(128), file |-> N8(16384)],
  [k |-> "end_file"],
  [k |-> "define", line |-> N8(7), str |-> [t |-> "strp", off |-> 4660]],
  [k |-> "undef", line |-> N8(8), str |-> [t |-> "strp", off |-> 0]],
  [k |-> "import", off |-> 64],
  [k |-> "define", line |-> N8(9), str |-> [t |-> "sup", off |-> 77]],
  [k |-> "undef", line |-> N8(129), str |-> [t |-> "sup", off |-> 258]],
  [k |-> "import_sup", off |-> 8],
  [k |-> "define", line |-> N8(3), str |-> [t |-> "strx", idx |-> N8(200)]],
  [k |-> "undef", line |-> N8(1), str |-> [t |-> "strx", idx |-> N8(0)]],
  [k |-> "vendor_ext", num |-> N8(77), s |-> <<120>>],
  [k |-> "raw", op |-> 13],
  [k |-> "raw", op |-> 254] }

Kinds == <<[macro |-> FALSE, fmt |-> 32, hasline |-> FALSE, optable |-> FALSE],
           [macro |-> TRUE, fmt |-> 32, hasline |-> FALSE, optable |-> FALSE],
           [macro |-> TRUE, fmt |-> 64, hasline |-> FALSE, optable |-> FALSE],
           [macro |-> TRUE, fmt |-> 32, hasline |-> TRUE, optable |-> FALSE],
           [macro |-> TRUE, fmt |-> 64, hasline |-> TRUE, optable |-> TRUE],
           [macro |-> TRUE, fmt |-> 32, hasline |-> FALSE, optable |-> TRUE]>>
Unit(kd, es, term) == [macro |-> kd.macro, fmt |-> kd.fmt, ver |-> IF kd.fmt = 64 THEN 4 ELSE 5, hasline |-> kd.hasline,
                       lineoff |-> 291, optable |-> kd.optable, entries |-> es, term |-> term]

Init == c = <<>>
Next == Len(c) < MaxEntries /\ \E e \in Menu : c' = Append(c, e)

CaseOf(u, b, le, tag) == [sys |-> "macros", tag |-> tag, macro |-> u.macro, le |-> le, bytes |-> b, exp |-> Iterate(u, b, le)]
Inv ==
    \A kx \in DOMAIN Kinds : \A term \in BOOLEAN :
      LET le == (kx + Len(c) + (IF term THEN 1 ELSE 0)) % 2 = 0
          u  == Unit(Kinds[kx], c, term)
          b  == EncUnit(u, le) IN
      /\ Iterate(u, b, le) = Meaning(u)                                   \* decoder as coded = meaning
      /\ Iterate(u, EncUnit(u, ~le), ~le) = Meaning(u)
      /\ PrintT(<<"CASE", ToJson(CaseOf(u, b, le, "full"))>>)
      /\ (Len(c) = 1 /\ term /\ kx <= 4 =>
            \A n \in 0..(Len(b) - 1) : PrintT(<<"CASE", ToJson(CaseOf(u, SubSeq(b, 1, n), le, "cut"))>>))
=============================================================================
