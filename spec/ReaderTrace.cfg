INIT Init
NEXT Next
INVARIANT Inv
POSTCONDITION Accepted
CHECK_DEADLOCK FALSE
