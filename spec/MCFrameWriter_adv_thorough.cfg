INIT Init
NEXT Next
INVARIANT Inv
CHECK_DEADLOCK FALSE
CONSTANTS
  Fam = "adv"
  MaxCies = 3
  MaxFdes = 3
  Slim = FALSE
