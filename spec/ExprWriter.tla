----------------------------- MODULE ExprWriter -----------------------------
(***************************************************************************)
(* The expression builder gimli::write::Expression (C15).                  *)
(*                                                                         *)
(* State of the builder = the sequence of calls made (`op_*`); branch      *)
(* targets are operation indices (`set_target`).  `Mean` is the operation  *)
(* the standard says each call denotes, in the vocabulary of OpCodec (the  *)
(* reader-side decoding spec); `Emit` is the byte emission as coded in     *)
(* write/op.rs (short forms lit/reg/breg/dup/over, GNU opcodes before      *)
(* DWARF 5, branch displacement relative to the end of the branch).        *)
(* The property: decoding the emitted bytes gives `Mean` of every call,    *)
(* every branch lands on the intended operation, the predicted size is the *)
(* emitted length.  MCExprWriter checks it for `Emit` inside TLC and       *)
(* produces replay cases; ExprWriterTrace checks it for bytes recorded     *)
(* from the real writer.                                                   *)
(*                                                                         *)
(* References to entries are symbolic names; `res.unit[name]` gives the offset  *)
(* the reference must carry (unit offset or .debug_info offset, BV8).      *)
(***************************************************************************)
EXTENDS OpCodec, Sequences, Naturals, Integers

Strip(d) == [f \in (DOMAIN d) \ {"len"} |-> d[f]]

(* ---- meaning of one call ------------------------------------------------*)
Mean(c, enc, res) ==
  CASE c.c = "op"        -> Strip(DecodeAt(<<c.code>>, 0, enc))
    [] c.c = "addr"      -> [k |-> "addr", v |-> c.v]
    [] c.c = "constu"    -> [k |-> "const", v |-> c.v]
    [] c.c = "consts"    -> [k |-> "const", v |-> c.v]
    [] c.c = "const_type" -> [k |-> "typed_literal", base |-> res.unit[c.base], data |-> c.data]
    [] c.c = "fbreg"     -> [k |-> "fbreg", off |-> c.off]
    [] c.c = "breg"      -> [k |-> "breg", reg |-> c.reg, off |-> c.off, base |-> Zero(8)]
    [] c.c = "regval_type" -> [k |-> "breg", reg |-> c.reg, off |-> Zero(8), base |-> res.unit[c.base]]
    [] c.c = "pick"      -> [k |-> "pick", index |-> c.index]
    [] c.c = "deref"     -> [k |-> "deref", size |-> enc.asz, space |-> c.space, base |-> Zero(8)]
    [] c.c = "deref_size" -> [k |-> "deref", size |-> c.size, space |-> c.space, base |-> Zero(8)]
    [] c.c = "deref_type" -> [k |-> "deref", size |-> c.size, space |-> c.space, base |-> res.unit[c.base]]
    [] c.c = "plus_uconst" -> [k |-> "plus_uconst", v |-> c.v]
    [] c.c = "skip"      -> [k |-> "skip", target |-> c.target]
    [] c.c = "bra"       -> [k |-> "bra", target |-> c.target]
    [] c.c = "call"      -> [k |-> "call", ref |-> "unit", off |-> res.unit[c.ent]]
    [] c.c = "call_ref"  -> [k |-> "call", ref |-> "info", off |-> res.info[c.ent]]
    [] c.c = "variable_value" -> [k |-> "variable_value", off |-> res.info[c.ent]]
    [] c.c = "convert"   -> [k |-> "convert", base |-> IF c.base = "none" THEN Zero(8) ELSE res.unit[c.base]]
    [] c.c = "reinterpret" -> [k |-> "reinterpret", base |-> IF c.base = "none" THEN Zero(8) ELSE res.unit[c.base]]
    [] c.c = "reg"       -> [k |-> "reg", reg |-> c.reg]
    [] c.c = "implicit_value" -> [k |-> "implicit_value", data |-> c.data]
    [] c.c = "implicit_pointer" -> [k |-> "implicit_pointer", value |-> res.info[c.ent], byte_offset |-> c.off]
    [] c.c = "piece"     -> [k |-> "piece", bits |-> Shl(c.n, 3), hasoff |-> FALSE, bitoff |-> Zero(8)]
    [] c.c = "bit_piece" -> [k |-> "piece", bits |-> c.bits, hasoff |-> TRUE, bitoff |-> c.bitoff]
    [] c.c = "parameter_ref" -> [k |-> "param_ref", off |-> res.unit[c.ent]]
    [] c.c = "wasm"      -> [k |-> "wasm", which |-> c.which, index |-> c.index]
    [] OTHER             -> [k |-> "entry_value_nested"]    \* entry_value: compared through MeanSeq of c.sub

(* ---- emission as coded ----------------------------------------------------*)
ULeb(v)  == EncU(v)                 \* v : BV8
SLeb(v)  == EncS(v)
Fix(v, n, le) == IF le THEN Trunc(v, n) ELSE Reverse(Trunc(v, n))
Small(v) == \A i \in 2..8 : v[i] = 0       \* fits one byte
RegBV(r) == FromNat(r, 8)

RECURSIVE EmitSeq(_, _, _, _)
(* bytes of one call; `offs` = start offsets of all operations of the enclosing      *)
(* expression plus the end offset (for branches); `at` = offset of this operation    *)
EmitOne(c, enc, res, offs, at) ==
  LET v5 == enc.ver >= 5 IN
  CASE c.c = "op"        -> <<c.code>>
    [] c.c = "addr"      -> <<3>> \o Fix(c.v, enc.asz, enc.le)
    [] c.c = "constu"    -> IF Small(c.v) /\ c.v[1] < 32 THEN <<48 + c.v[1]>> ELSE <<16>> \o ULeb(c.v)
    [] c.c = "consts"    -> <<17>> \o SLeb(c.v)
    [] c.c = "const_type" -> <<IF v5 THEN 164 ELSE 244>> \o ULeb(res.unit[c.base]) \o <<Len(c.data)>> \o c.data
    [] c.c = "fbreg"     -> <<145>> \o SLeb(c.off)
    [] c.c = "breg"      -> IF c.reg < 32 THEN <<112 + c.reg>> \o SLeb(c.off)
                            ELSE <<146>> \o ULeb(RegBV(c.reg)) \o SLeb(c.off)
    [] c.c = "regval_type" -> <<IF v5 THEN 165 ELSE 245>> \o ULeb(RegBV(c.reg)) \o ULeb(res.unit[c.base])
    [] c.c = "pick"      -> IF c.index = 0 THEN <<18>> ELSE IF c.index = 1 THEN <<20>> ELSE <<21, c.index>>
    [] c.c = "deref"     -> <<IF c.space THEN 24 ELSE 6>>
    [] c.c = "deref_size" -> <<IF c.space THEN 149 ELSE 148, c.size>>
    [] c.c = "deref_type" -> <<IF c.space THEN 167 ELSE (IF v5 THEN 166 ELSE 246), c.size>> \o ULeb(res.unit[c.base])
    [] c.c = "plus_uconst" -> <<35>> \o ULeb(c.v)
    [] c.c \in {"skip", "bra"} ->
         <<IF c.c = "skip" THEN 47 ELSE 40>> \o Fix(FromInt(offs[c.target + 1] - (at + 3), 8), 2, enc.le)
    [] c.c = "call"      -> <<153>> \o Fix(res.unit[c.ent], 4, enc.le)
    [] c.c = "call_ref"  -> <<154>> \o Fix(res.info[c.ent], enc.fmt, enc.le)
    [] c.c = "variable_value" -> <<253>> \o Fix(res.info[c.ent], enc.fmt, enc.le)
    [] c.c = "convert"   -> <<IF v5 THEN 168 ELSE 247>> \o (IF c.base = "none" THEN <<0>> ELSE ULeb(res.unit[c.base]))
    [] c.c = "reinterpret" -> <<IF v5 THEN 169 ELSE 249>> \o (IF c.base = "none" THEN <<0>> ELSE ULeb(res.unit[c.base]))
    [] c.c = "reg"       -> IF c.reg < 32 THEN <<80 + c.reg>> ELSE <<144>> \o ULeb(RegBV(c.reg))
    [] c.c = "implicit_value" -> <<158>> \o ULeb(FromNat(Len(c.data), 8)) \o c.data
    [] c.c = "implicit_pointer" ->
         <<IF v5 THEN 160 ELSE 242>> \o Fix(res.info[c.ent], IF enc.ver = 2 THEN enc.asz ELSE enc.fmt, enc.le) \o SLeb(c.off)
    [] c.c = "piece"     -> <<147>> \o ULeb(c.n)
    [] c.c = "bit_piece" -> <<157>> \o ULeb(c.bits) \o ULeb(c.bitoff)
    [] c.c = "parameter_ref" -> <<250>> \o Fix(res.unit[c.ent], 4, enc.le)
    [] c.c = "wasm"      -> <<237, CASE c.which = "local" -> 0 [] c.which = "global" -> 1 [] OTHER -> 2>> \o ULeb(ZExt(c.index, 8))
    [] OTHER             -> \* entry_value
         LET body == EmitSeq(c.sub, enc, res, 0) IN
         <<IF v5 THEN 163 ELSE 243>> \o ULeb(FromNat(Len(body), 8)) \o body

(* size of one call does not depend on branch displacements (always 2 bytes) *)
SizeOne(c, enc, res) == Len(EmitOne(IF c.c \in {"skip", "bra"} THEN [c EXCEPT !.target = 0] ELSE c,
                                        enc, res, <<0>>, 0))
RECURSIVE Offsets(_, _, _, _)
Offsets(cs, enc, res, at) == IF cs = <<>> THEN <<at>>
                                ELSE <<at>> \o Offsets(Tail(cs), enc, res, at + SizeOne(Head(cs), enc, res))
RECURSIVE EmitFrom(_, _, _, _, _)
EmitFrom(cs, enc, res, offs, i) ==
    IF i > Len(cs) THEN <<>>
    ELSE EmitOne(cs[i], enc, res, offs, offs[i]) \o EmitFrom(cs, enc, res, offs, i + 1)
EmitSeq(cs, enc, res, base) == EmitFrom(cs, enc, res, Offsets(cs, enc, res, base), 1)
PredictedSize(cs, enc, res) == LET o == Offsets(cs, enc, res, 0) IN o[Len(o)]

(* ---- decoding a whole byte string with OpCodec ------------------------------*)
RECURSIVE DecodeAllFrom(_, _, _)
DecodeAllFrom(b, p, enc) ==
    IF p >= Len(b) THEN <<>>
    ELSE LET d == DecodeAt(b, p, enc) IN
         IF IsDE(d) THEN <<[op |-> d, off |-> p, len |-> 0]>>
         ELSE <<[op |-> Strip(d), off |-> p, len |-> d.len]>> \o DecodeAllFrom(b, p + d.len, enc)
DecodeAll(b, enc) == DecodeAllFrom(b, 0, enc)
DecodeOk(ds) == \A i \in DOMAIN ds : ~IsDE(ds[i].op)

(* index of the operation starting at byte offset o (Len+1-th index = end), or -1 *)
IndexAt(ds, o, total) ==
    IF o = total THEN Len(ds)
    ELSE IF \E i \in DOMAIN ds : ds[i].off = o THEN (CHOOSE i \in DOMAIN ds : ds[i].off = o) - 1 ELSE -1
(* decoded operations with branch displacements turned into operation indices *)
Resolved(ds, total) ==
    [i \in DOMAIN ds |->
        IF ds[i].op.k \in {"skip", "bra"}
        THEN [ds[i].op EXCEPT !.target = IndexAt(ds, ds[i].off + ds[i].len + ds[i].op.target, total)]
        ELSE ds[i].op]

(* the decoded form a call sequence must have; entry_value bodies are compared recursively *)
RECURSIVE Matches(_, _, _, _)
Matches(cs, b, enc, res) ==
    LET ds == DecodeAll(b, enc) IN
    /\ DecodeOk(ds)
    /\ Len(ds) = Len(cs)
    /\ LET rs == Resolved(ds, Len(b)) IN
       \A i \in DOMAIN cs :
          IF cs[i].c = "entry_value"
          THEN rs[i].k = "entry_value" /\ Matches(cs[i].sub, rs[i].data, enc, res)
          ELSE rs[i] = Mean(cs[i], enc, res)

(* ---- which call sequences can be encoded -------------------------------------*)
RECURSIVE HasRef(_)
HasRef(s) == \E i \in DOMAIN s :
    \/ s[i].c \in {"const_type", "regval_type", "deref_type", "call", "call_ref", "variable_value", "implicit_pointer", "parameter_ref"}
    \/ s[i].c \in {"convert", "reinterpret"} /\ s[i].base # "none"
    \/ s[i].c = "entry_value" /\ HasRef(s[i].sub)
(* no encoding exists: a typed constant longer than 255 bytes, an address wider than the address size *)
RECURSIVE TooLong(_, _)
TooLong(s, enc) == \E i \in DOMAIN s :
    \/ s[i].c = "const_type" /\ Len(s[i].data) > 255
    \/ s[i].c = "addr" /\ (\E j \in DOMAIN s[i].v : j > enc.asz /\ s[i].v[j] # 0)
    \/ s[i].c = "entry_value" /\ TooLong(s[i].sub, enc)
(* unit-relative references to an entry that is emitted after the referring one may be refused *)
(* a branch whose displacement does not fit the signed 16-bit operand has no encoding *)
BranchTooFar(s, enc, res) ==
    LET o == Offsets(s, enc, res, 0) IN
    \E i \in DOMAIN s : /\ s[i].c \in {"skip", "bra"}
                        /\ s[i].target <= Len(s)
                        /\ LET d == o[s[i].target + 1] - (o[i] + 3) IN d > 32767 \/ d < -32768
(* in a pre-v5 location list the expression length is a 2-byte field *)
TooBigForLocList(s, enc, res, ctx) == ctx = "loclist" /\ enc.ver < 5 /\ PredictedSize(s, enc, res) > 65535
RECURSIVE Forward(_)
Forward(s) == \E i \in DOMAIN s : \/ s[i].c \in {"call", "parameter_ref"} /\ s[i].ent = "T2"
                                  \/ s[i].c = "entry_value" /\ Forward(s[i].sub)
=============================================================================
