------------------------------ MODULE MCReuse ------------------------------
(***************************************************************************)
(* Bounded models for Reuse.tla (C20, DIE side).                           *)
(*  mode "cache": every sequence of <= MaxUnits units, each naming one of  *)
(*     seven abbreviation offsets (two valid tables, a table with a        *)
(*     duplicate code, one with a bad children byte, the middle of a       *)
(*     table, the end of the section, beyond the end), under each cache    *)
(*     strategy; TLC checks cache get = direct parse for every offset.     *)
(*  mode "repop": one cache taken through [set;] populate(section X);      *)
(*     populate(section Y # X, same layout, different tables); TLC checks  *)
(*     get = direct parse of the current section Y.                        *)
(*  mode "die": every DIE byte stream of <= MaxTok tokens (entries with    *)
(*     0..3 attributes, null, an unknown code, a truncated entry); TLC     *)
(*     checks that a reused buffer holds what a fresh one holds after each *)
(*     successful read and that re-rooting a tree after any partial        *)
(*     traversal gives the traversal of a new tree.                        *)
(* Every state prints one replay case.                                     *)
(***************************************************************************)
EXTENDS Reuse, Json
CONSTANTS MaxUnits, MaxTok
VARIABLE c

(*---------------------------- cache ------------------------------------*)
T1 == << Decl(1, 17, TRUE, << <<3, FD1>>, <<16, FU>> >>), Decl(2, 46, FALSE, << <<3, FD1>> >>) >>
T2 == << Decl(1, 52, FALSE, <<>>), Decl(5, 11, TRUE, << <<63, FFP>> >>) >>
TDup == << Decl(3, 36, FALSE, <<>>), Decl(3, 19, FALSE, <<>>) >>
TBadBytes == <<4, 17, 2, 0, 0, 0>>
(* the section as literal bytes (RECURSIVE encoders are not constant-folded by TLC); *)
(* `LiteralsOk` ties them to the encoders                                           *)
ASec == <<1,17,1,3,11,16,15,0,0, 2,46,0,3,11,0,0, 0,
          1,52,0,0,0, 5,11,1,63,25,0,0, 0,
          3,36,0,0,0, 3,19,0,0,0, 0,
          4,17,2,0,0,0>>
O2 == 17
O3 == 30
O4 == 41
OffPool == {0, O2, O3, O4, 1, Len(ASec), Len(ASec) + 3}
ProbeCodes == <<0, 1, 2, 3, 4, 5, 17>>
Strats == {"none", "dup", "all"}
RECURSIVE InfoOf(_)
InfoOf(offs) == IF offs = <<>> THEN <<>> ELSE UnitBytes(Head(offs), <<0>>) \o InfoOf(Tail(offs))

(*------------------- one cache, two .debug_abbrev sections ---------------*)
(* BSec has the layout of ASec (tables at 0, 17, 30, 41) with different      *)
(* content: 0 valid -> valid but different, 17 valid -> duplicate code,      *)
(* 30 duplicate code -> valid, 41 bad children byte -> valid.                *)
BSec == <<1,46,0,3,11,16,15,0,0, 2,17,1,3,11,0,0, 0,
          1,52,0,0,0, 1,11,1,63,25,0,0, 0,
          3,36,0,0,0, 6,19,0,0,0, 0,
          4,17,1,0,0,0>>
SecOf(n) == IF n = "A" THEN ASec ELSE BSec
Other(n) == IF n = "A" THEN "B" ELSE "A"
Pool4 == {0, O2, O3, O4}
RProbe == <<0, O2, O3, O4, 1, Len(ASec), Len(ASec) + 3>>
AllTwice == <<0, 0, O2, O2, O3, O3, O4, O4>>
(* what is done to the cache before the last populate *)
Pres == IF MaxTok <= 3 THEN {"none", "set0"} ELSE {"none", "set0", "set30"}
Firsts == IF MaxTok <= 3 THEN {AllTwice} ELSE {AllTwice, <<0, O2>>, <<O3, O3, O4>>}
(* the model cache after: [set]; populate(s1, first section, offs1); populate(s2, other section, offs2) *)
RCache(r) ==
    LET x  == SecOf(r.first)
        y  == SecOf(Other(r.first))
        c0 == CASE r.pre = "none"  -> EmptyCache
                [] r.pre = "set0"  -> CacheSet(EmptyCache, 0, AbbrevsAt(x, O2).decls)     \* a table that belongs elsewhere
                [] r.pre = "set30" -> CacheSet(EmptyCache, O3, AbbrevsAt(ASec, 0).decls)
        c1 == PopulateOn(c0, r.s1, x, r.offs1) IN
    PopulateOn(c1, r.s2, y, r.offs2)

(*----------------------------- die -------------------------------------*)
TD == << Decl(1, 17, TRUE, << <<3, FD1>>, <<16, FU>> >>), Decl(2, 46, FALSE, << <<3, FD1>> >>),
         Decl(3, 52, FALSE, <<>>), Decl(4, 11, TRUE, << <<63, FFP>>, <<11, FD2>>, <<3, FD1>> >>) >>
TDBytes == <<1,17,1,3,11,16,15,0,0, 2,46,0,3,11,0,0, 3,52,0,0,0, 4,11,1,63,25,11,5,3,11,0,0, 0>>
LiteralsOk == /\ ASec = EncTable(T1) \o EncTable(T2) \o EncTable(TDup) \o TBadBytes
              /\ O2 = Len(EncTable(T1)) /\ O3 = O2 + Len(EncTable(T2)) /\ O4 = O3 + Len(EncTable(TDup))
              /\ TDBytes = EncTable(TD) /\ Len(BSec) = Len(ASec)
              /\ AbbrevsAt(BSec, 0).ok /\ ~AbbrevsAt(BSec, O2).ok /\ AbbrevsAt(BSec, O3).ok /\ AbbrevsAt(BSec, O4).ok
              /\ AbbrevsAt(ASec, 0).ok /\ AbbrevsAt(ASec, O2).ok /\ ~AbbrevsAt(ASec, O3).ok /\ ~AbbrevsAt(ASec, O4).ok
              /\ AbbrevsAt(ASec, 0) # AbbrevsAt(BSec, 0)
              /\ ParseTable(TDBytes, 1, <<>>) = [ok |-> TRUE, decls |-> TD]
Toks == { <<1, 7, 133, 1>>, <<2, 9>>, <<3>>, <<4, 52, 18, 5>>, <<0>>, <<9>>, <<2>> }
RECURSIVE Flat(_)
Flat(ts) == IF ts = <<>> THEN <<>> ELSE Head(ts) \o Flat(Tail(ts))
Fuel == 14

Init == \/ \E s \in Strats : c = [mode |-> "cache", strat |-> s, offs |-> <<>>]
        \/ c = [mode |-> "die", toks |-> <<>>]
        \/ \E pre \in Pres, f \in {"A", "B"}, s1 \in {"dup", "all"}, s2 \in {"dup", "all"}, o1 \in Firsts :
             c = [mode |-> "repop", pre |-> pre, first |-> f, s1 |-> s1, s2 |-> s2, offs1 |-> o1, offs2 |-> <<>>]
Next == IF c.mode = "cache"
        THEN Len(c.offs) < MaxUnits /\ \E o \in OffPool : c' = [c EXCEPT !.offs = Append(@, o)]
        ELSE IF c.mode = "repop"
        THEN Len(c.offs2) < (IF MaxTok <= 3 THEN 2 ELSE 3) /\ \E o \in Pool4 : c' = [c EXCEPT !.offs2 = Append(@, o)]
        ELSE Len(c.toks) < MaxTok /\ \E t \in Toks : c' = [c EXCEPT !.toks = Append(@, t)]

PoolSeq == <<0, O2, O3, O4, 1, Len(ASec), Len(ASec) + 3>>
InvCache ==
    LET cache == Populate(c.strat, ASec, c.offs) IN
    /\ \A o \in OffPool : CacheGet(cache, ASec, o) = AbbrevsAt(ASec, o)
    /\ PrintT(<<"CASE", ToJson(
         [sys |-> "cache", abbrev |-> ASec, info |-> InfoOf(c.offs), strat |-> c.strat, codes |-> ProbeCodes,
          probe |-> PoolSeq,
          units |-> [j \in DOMAIN c.offs |-> TableObs(CacheGet(cache, ASec, c.offs[j]), ProbeCodes)],
          gets |-> [j \in DOMAIN PoolSeq |-> TableObs(CacheGet(cache, ASec, PoolSeq[j]), ProbeCodes)],
          ncached |-> Cardinality(DOMAIN cache)])>>)

InvDie ==
    LET b  == Flat(c.toks)
        d  == TD
        raw == RawAll(b, d, [pos |-> 1, depth |-> 0], NullEntry, Fuel)
        full == Traverse(b, d, NewTree, 100)
        n  == Len(c.toks) + 1 IN
    /\ (c.toks = <<>> => LiteralsOk)
    /\ BufferOk(raw)
    (* re-rooting after any partial traversal = traversal of a new tree *)
    /\ \A j \in 0..n : LET part == Traverse(b, d, NewTree, j)
                           again == Traverse(b, d, part.t, 100) IN
                       again.out = full.out /\ again.st = full.st
    /\ Len(c.toks) > 0 => PrintT(<<"CASE", ToJson(      \* (a unit without any DIE is C02's business)
         [sys |-> "die", abbrev |-> TDBytes, info |-> UnitBytes(0, b), ntok |-> Len(c.toks), fuel |-> Fuel,
          raw |-> [j \in DOMAIN raw |-> [res |-> raw[j].res, e |-> raw[j].fresh]],
          entries |-> Drive(b, d, NewCursor, "entry", Fuel),
          dfs |-> Drive(b, d, NewCursor, "dfs", Fuel),
          clones |-> [k \in 1..(n + 1) |-> Drive(b, d, Advance(b, d, NewCursor, k - 1), "dfs", Fuel)],
          sib |-> Drive(b, d, Advance(b, d, NewCursor, 2), "sib", Fuel),
          tree |-> [out |-> full.out, st |-> full.st],
          partial |-> [k \in 1..(n + 1) |-> LET part == Traverse(b, d, NewTree, k - 1) IN [out |-> part.out, st |-> part.st]]])>>)

(* a cache that was used for another section before: get = direct parse of the CURRENT section *)
InvRepop ==
    LET cache == RCache(c)
        y == SecOf(Other(c.first)) IN
    /\ \A j \in DOMAIN RProbe : CacheGet(cache, y, RProbe[j]) = AbbrevsAt(y, RProbe[j])
    /\ Len(c.offs2) > 0 => PrintT(<<"CASE", ToJson(
         [sys |-> "repop", secs |-> [A |-> ASec, B |-> BSec], codes |-> ProbeCodes, probe |-> RProbe,
          steps |-> (CASE c.pre = "none"  -> <<>>
                       [] c.pre = "set0"  -> << [op |-> "set", at |-> 0, from |-> c.first, off |-> O2] >>
                       [] c.pre = "set30" -> << [op |-> "set", at |-> O3, from |-> "A", off |-> 0] >>)
                   \o << [op |-> "populate", strat |-> c.s1, sec |-> c.first, info |-> InfoOf(c.offs1)],
                         [op |-> "populate", strat |-> c.s2, sec |-> Other(c.first), info |-> InfoOf(c.offs2)] >>,
          cur |-> Other(c.first),
          units |-> [j \in DOMAIN c.offs2 |-> TableObs(AbbrevsAt(y, c.offs2[j]), ProbeCodes)],
          gets |-> [j \in DOMAIN RProbe |-> TableObs(AbbrevsAt(y, RProbe[j]), ProbeCodes)],
          ncached |-> Cardinality(DOMAIN cache)])>>)

Inv == IF c.mode = "cache" THEN InvCache ELSE IF c.mode = "repop" THEN InvRepop ELSE InvDie
=============================================================================
