INIT Init
NEXT Next
INVARIANT Inv
CHECK_DEADLOCK FALSE
CONSTANTS
  MaxDL = 300
  MaxDop = 600
  ScriptLen = 3
  FilesLen = 2
  Tuples = {1, 3, 4}
  Modes = {"grid", "script", "files", "mixed", "lines"}
  BandOnly = TRUE
