------------------------------ MODULE Value ------------------------------
(***************************************************************************)
(* DWARF expression values and their arithmetic (C07).                     *)
(*                                                                         *)
(* A value is [t |-> type, v |-> BV].  The generic type has the width of   *)
(* an address (asz bytes) and wraps at that width: this is the DWARF stack *)
(* machine.  gimli keeps generic values unmasked in a u64; the projection  *)
(* (harness) reduces them mod 2^(8*asz) before comparing.                  *)
(* Typed integers wrap at their own width.  Floats carry their bit pattern *)
(* (exact through typed literals and reinterpret) but float *arithmetic*,  *)
(* comparison and numeric conversion cannot be expressed here: they yield  *)
(* OPAQUE, which ends the deterministic part of a run.                     *)
(*                                                                         *)
(* Every operator returns either a value or [err |-> kind].  Error kinds   *)
(* and their precedence follow read/value.rs (the property only demands    *)
(* "an error"; kinds are compared as drift).                               *)
(***************************************************************************)
EXTENDS BV, Sequences, Naturals, Integers

IntTypes   == {"i8", "u8", "i16", "u16", "i32", "u32", "i64", "u64"}
FloatTypes == {"f32", "f64"}
Signed     == {"i8", "i16", "i32", "i64"}
Unsigned   == {"u8", "u16", "u32", "u64"}
AllTypes   == {"generic"} \cup IntTypes \cup FloatTypes

TW(t, asz) == CASE t = "generic" -> asz
                [] t \in {"i8", "u8"} -> 1
                [] t \in {"i16", "u16"} -> 2
                [] t \in {"i32", "u32", "f32"} -> 4
                [] OTHER -> 8

V(t, v)  == [t |-> t, v |-> v]
E(k)     == [err |-> k]
IsErr(x) == "err" \in DOMAIN x
OPAQUE   == [opaque |-> TRUE]
IsOpaque(x) == "opaque" \in DOMAIN x
Gen(v)   == V("generic", v)
Bool(b, asz) == Gen(IF b THEN One(asz) ELSE Zero(asz))

IsFloat(x) == x.t \in FloatTypes
IsSignedT(t) == t \in Signed \cup {"generic"}    \* generic arithmetic is signed where it matters

(* to_u64: the 64-bit reading used for addresses, branches, conversions *)
(* returns [u |-> BV8] or an error record *)
ToU64(x) == IF IsFloat(x) THEN E("IntegralTypeRequired")
            ELSE [u |-> IF x.t \in Signed THEN SExt(x.v, 8) ELSE ZExt(x.v, 8)]
(* from_u64 into an integer or generic type: truncation *)
FromU64(t, u, asz) == IF t \in FloatTypes THEN OPAQUE ELSE V(t, Trunc(u, TW(t, asz)))

Same(a, b) == a.t = b.t

Arith2(a, b, f(_, _)) ==
    IF ~Same(a, b) THEN E("TypeMismatch")
    ELSE IF IsFloat(a) THEN OPAQUE
    ELSE V(a.t, f(a.v, b.v))

VAdd(a, b) == Arith2(a, b, Add)
VSub(a, b) == Arith2(a, b, Sub)
VMul(a, b) == Arith2(a, b, Mul)

VAbs(a) == IF IsFloat(a) THEN OPAQUE
           ELSE IF a.t \in Unsigned THEN a
           ELSE V(a.t, Abs(a.v))
VNeg(a) == IF IsFloat(a) THEN OPAQUE
           ELSE IF a.t \in Unsigned THEN E("UnsupportedTypeOperation")
           ELSE V(a.t, Neg(a.v))

(* zero test of the divisor comes before the type check, and only for integers/generic *)
RhsZero(b) == ~IsFloat(b) /\ IsZero(b.v)
VDiv(a, b) == IF RhsZero(b) THEN E("DivisionByZero")
              ELSE IF ~Same(a, b) THEN E("TypeMismatch")
              ELSE IF IsFloat(a) THEN OPAQUE
              ELSE IF a.t \in Unsigned THEN V(a.t, UDiv(a.v, b.v))
              ELSE V(a.t, SDiv(a.v, b.v))
VMod(a, b) == IF RhsZero(b) THEN E("DivisionByZero")
              ELSE IF ~Same(a, b) THEN E("TypeMismatch")
              ELSE IF IsFloat(a) THEN E("IntegralTypeRequired")
              ELSE IF a.t \in Signed THEN V(a.t, SRem(a.v, b.v))
              ELSE V(a.t, UMod(a.v, b.v))            \* generic: unsigned modulus

VNot(a) == IF IsFloat(a) THEN E("IntegralTypeRequired") ELSE V(a.t, BNot(a.v))
Bit2(a, b, f(_, _)) ==
    IF ~Same(a, b) THEN E("TypeMismatch")
    ELSE IF IsFloat(a) THEN E("IntegralTypeRequired")
    ELSE V(a.t, f(a.v, b.v))
VAnd(a, b) == Bit2(a, b, BAnd)
VOr(a, b)  == Bit2(a, b, BOr)
VXor(a, b) == Bit2(a, b, BXor)

(* shift count: any integer or generic value >= 0; its own width, zero-extended *)
ShiftLen(b) == IF IsFloat(b) THEN E("InvalidShiftExpression")
               ELSE IF b.t \in Signed /\ IsNeg(b.v) THEN E("InvalidShiftExpression")
               ELSE [u |-> ZExt(b.v, 8)]
(* count as a natural number if below `bits`, else -1 (meaning >= bits) *)
SmallCount(c, bits) == IF ULt(c, FromNat(bits, 8)) THEN ToNat(c) ELSE -1

VShl(a, b) == LET c == ShiftLen(b) IN
    IF IsErr(c) THEN c
    ELSE IF IsFloat(a) THEN E("IntegralTypeRequired")
    ELSE LET k == SmallCount(c.u, 8 * Len(a.v)) IN
         V(a.t, IF k < 0 THEN Zero(Len(a.v)) ELSE Shl(a.v, k))
VShr(a, b) == LET c == ShiftLen(b) IN
    IF IsErr(c) THEN c
    ELSE IF IsFloat(a) THEN E("IntegralTypeRequired")
    ELSE IF a.t \in Signed THEN E("UnsupportedTypeOperation")
    ELSE LET k == SmallCount(c.u, 8 * Len(a.v)) IN
         V(a.t, IF k < 0 THEN Zero(Len(a.v)) ELSE Shr(a.v, k))
VShra(a, b) == LET c == ShiftLen(b) IN
    IF IsErr(c) THEN c
    ELSE IF IsFloat(a) THEN E("IntegralTypeRequired")
    ELSE IF a.t \in Unsigned THEN E("UnsupportedTypeOperation")
    ELSE LET k == SmallCount(c.u, 8 * Len(a.v)) IN
         V(a.t, IF k < 0 THEN (IF IsNeg(a.v) THEN Ones(Len(a.v)) ELSE Zero(Len(a.v))) ELSE Sar(a.v, k))

Cmp(a, b, asz, lt(_, _), ult(_, _)) ==
    IF ~Same(a, b) THEN E("TypeMismatch")
    ELSE IF IsFloat(a) THEN OPAQUE
    ELSE Bool(IF a.t \in Unsigned THEN ult(a.v, b.v) ELSE lt(a.v, b.v), asz)
EqF(x, y) == x = y
NeF(x, y) == x # y
GeS(x, y) == SLe(y, x)
GeU(x, y) == ULe(y, x)
GtS(x, y) == SLt(y, x)
GtU(x, y) == ULt(y, x)
VEq(a, b, asz) == Cmp(a, b, asz, EqF, EqF)
VNe(a, b, asz) == Cmp(a, b, asz, NeF, NeF)
VLt(a, b, asz) == Cmp(a, b, asz, SLt, ULt)
VLe(a, b, asz) == Cmp(a, b, asz, SLe, ULe)
VGt(a, b, asz) == Cmp(a, b, asz, GtS, GtU)
VGe(a, b, asz) == Cmp(a, b, asz, GeS, GeU)

(* DW_OP_convert *)
VConvert(a, t, asz) == IF IsFloat(a) THEN OPAQUE ELSE FromU64(t, ToU64(a).u, asz)
(* DW_OP_reinterpret: same bit size, bit pattern preserved (floats included) *)
VReinterpret(a, t, asz) == IF Len(a.v) # TW(t, asz) THEN E("TypeMismatch") ELSE V(t, a.v)

(* typed literal: the first TW(t) bytes of `data` in the unit's byte order *)
VParse(t, data, le, asz) ==
    IF t = "generic" THEN E("UnsupportedTypeOperation")
    ELSE IF Len(data) < TW(t, asz) THEN E("UnexpectedEof")
    ELSE V(t, IF le THEN SubSeq(data, 1, TW(t, asz)) ELSE Reverse(SubSeq(data, 1, TW(t, asz))))

(* an externally supplied value (resume answer): generic answers are reduced to the address size *)
Norm(x, asz) == IF x.t = "generic" THEN Gen(Trunc(ZExt(x.v, 8), asz)) ELSE x
=============================================================================
