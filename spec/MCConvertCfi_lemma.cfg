INIT Init
NEXT Next
INVARIANT Lemma
CHECK_DEADLOCK FALSE
CONSTANTS
  MaxLen = 0
  Slice = "data"
  Cafs = {1}
  Dafs = {992}
  Vers = {1}
  Lens = {"u32max"}
