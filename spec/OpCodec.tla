----------------------------- MODULE OpCodec -----------------------------
(***************************************************************************)
(* Decoding of one DWARF expression operation at an arbitrary offset of a  *)
(* byte string (C07: "each operation decodes to the operands the standard  *)
(* defines").  Opcode numbers and operand layouts are transcribed from     *)
(* DWARF 5 section 7.7.1 plus the GNU / WASM extensions gimli accepts.     *)
(*                                                                         *)
(* enc == [asz, fmt (4 or 8), ver, le].  Offsets are 0-based.  64-bit      *)
(* operands are BV8; signed operands are sign-extended to BV8.             *)
(* Result: a record with field `k` (operation class) and `len`, or         *)
(* [err |-> kind].                                                         *)
(***************************************************************************)
EXTENDS Leb, Sequences, Naturals, Integers

DE(k) == [err |-> k]
IsDE(x) == "err" \in DOMAIN x
Rest(c, p) == SubSeq(c, p + 1, Len(c))

(* fixed-width field of n bytes at offset p, value as BV n *)
FixAt(c, p, n, le) == IF p + n > Len(c) THEN DE("UnexpectedEof")
                      ELSE [v |-> FieldVal(SubSeq(c, p + 1, p + n), le), n |-> n]
ULebAt(c, p) == LET m == Fin(RunU(MInit, Rest(c, p), 1)) IN
                IF m.st = "ok" THEN [v |-> m.res, n |-> m.n]
                ELSE IF m.st = "bad" THEN DE("BadUnsignedLeb128") ELSE DE("UnexpectedEof")
SLebAt(c, p) == LET m == Fin(RunS(MInit, Rest(c, p), 1)) IN
                IF m.st = "ok" THEN [v |-> m.res, n |-> m.n]
                ELSE IF m.st = "bad" THEN DE("BadSignedLeb128") ELSE DE("UnexpectedEof")

FitsU16(v) == \A i \in DOMAIN v : i > 2 => v[i] = 0
FitsU32(v) == \A i \in DOMAIN v : i > 4 => v[i] = 0

UnNames == [x \in {25, 31, 32} |-> CASE x = 25 -> "abs" [] x = 31 -> "neg" [] OTHER -> "not"]
BinName(o) == CASE o = 26 -> "and" [] o = 27 -> "div" [] o = 28 -> "minus" [] o = 29 -> "mod"
                [] o = 30 -> "mul" [] o = 33 -> "or" [] o = 34 -> "plus" [] o = 36 -> "shl"
                [] o = 37 -> "shr" [] o = 38 -> "shra" [] o = 39 -> "xor" [] o = 41 -> "eq"
                [] o = 42 -> "ge" [] o = 43 -> "gt" [] o = 44 -> "le" [] o = 45 -> "lt" [] OTHER -> "ne"
BinOps == {26, 27, 28, 29, 30, 33, 34, 36, 37, 38, 39, 41, 42, 43, 44, 45, 46}

(* helpers building results after reading operands; q = offset after the opcode byte *)
With1(r, f(_)) == IF IsDE(r) THEN r ELSE f(r)

DecodeAt(c, p, enc) ==
  IF p >= Len(c) THEN DE("UnexpectedEof") ELSE
  LET o == c[p + 1]
      q == p + 1
      le == enc.le
      Const(n, signed) == LET r == FixAt(c, q, n, le) IN
          IF IsDE(r) THEN r
          ELSE [k |-> "const", v |-> IF signed THEN SExt(r.v, 8) ELSE ZExt(r.v, 8), len |-> 1 + n]
      I16(kind) == LET r == FixAt(c, q, 2, le) IN
          IF IsDE(r) THEN r ELSE [k |-> kind, target |-> ToInt(r.v), len |-> 3]
      Typed(kind) == LET r == ULebAt(c, q) IN
          IF IsDE(r) THEN r ELSE [k |-> kind, base |-> r.v, len |-> 1 + r.n]
      Index(kind) == LET r == ULebAt(c, q) IN
          IF IsDE(r) THEN r ELSE [k |-> kind, index |-> r.v, len |-> 1 + r.n]
      Block(kind) == LET r == ULebAt(c, q) IN
          IF IsDE(r) THEN r
          ELSE IF ~FitsNat(r.v) \/ q + r.n + ToNat(r.v) > Len(c) THEN DE("UnexpectedEof")
          ELSE [k |-> kind, data |-> SubSeq(c, q + r.n + 1, q + r.n + ToNat(r.v)), len |-> 1 + r.n + ToNat(r.v)]
      ImplPtr == LET r == IF enc.ver = 2 THEN (IF enc.asz \in {1, 2, 4, 8} THEN FixAt(c, q, enc.asz, le) ELSE DE("UnsupportedAddressSize"))
                          ELSE FixAt(c, q, enc.fmt, le) IN
          IF IsDE(r) THEN r
          ELSE LET s == SLebAt(c, q + r.n) IN
               IF IsDE(s) THEN s
               ELSE [k |-> "implicit_pointer", value |-> ZExt(r.v, 8), byte_offset |-> s.v, len |-> 1 + r.n + s.n]
  IN
  CASE o = 3 -> (IF enc.asz \notin {1, 2, 4, 8} THEN DE("UnsupportedAddressSize")
                 ELSE LET r == FixAt(c, q, enc.asz, le) IN
                      IF IsDE(r) THEN r ELSE [k |-> "addr", v |-> ZExt(r.v, 8), len |-> 1 + enc.asz])
    [] o = 6 -> [k |-> "deref", size |-> enc.asz, space |-> FALSE, base |-> Zero(8), len |-> 1]
    [] o = 8 -> Const(1, FALSE) [] o = 9 -> Const(1, TRUE)
    [] o = 10 -> Const(2, FALSE) [] o = 11 -> Const(2, TRUE)
    [] o = 12 -> Const(4, FALSE) [] o = 13 -> Const(4, TRUE)
    [] o = 14 -> Const(8, FALSE) [] o = 15 -> Const(8, TRUE)
    [] o = 16 -> (LET r == ULebAt(c, q) IN IF IsDE(r) THEN r ELSE [k |-> "const", v |-> r.v, len |-> 1 + r.n])
    [] o = 17 -> (LET r == SLebAt(c, q) IN IF IsDE(r) THEN r ELSE [k |-> "const", v |-> r.v, len |-> 1 + r.n])
    [] o = 18 -> [k |-> "pick", index |-> 0, len |-> 1]
    [] o = 19 -> [k |-> "drop", len |-> 1]
    [] o = 20 -> [k |-> "pick", index |-> 1, len |-> 1]
    [] o = 21 -> (IF q >= Len(c) THEN DE("UnexpectedEof") ELSE [k |-> "pick", index |-> c[q + 1], len |-> 2])
    [] o = 22 -> [k |-> "swap", len |-> 1]
    [] o = 23 -> [k |-> "rot", len |-> 1]
    [] o = 24 -> [k |-> "deref", size |-> enc.asz, space |-> TRUE, base |-> Zero(8), len |-> 1]
    [] o \in {25, 31, 32} -> [k |-> "un", name |-> UnNames[o], len |-> 1]
    [] o \in BinOps -> [k |-> "bin", name |-> BinName(o), len |-> 1]
    [] o = 35 -> (LET r == ULebAt(c, q) IN IF IsDE(r) THEN r ELSE [k |-> "plus_uconst", v |-> r.v, len |-> 1 + r.n])
    [] o = 40 -> I16("bra")
    [] o = 47 -> I16("skip")
    [] o \in 48..79 -> [k |-> "const", v |-> FromNat(o - 48, 8), len |-> 1]
    [] o \in 80..111 -> [k |-> "reg", reg |-> o - 80, len |-> 1]
    [] o \in 112..143 -> (LET r == SLebAt(c, q) IN
                         IF IsDE(r) THEN r ELSE [k |-> "breg", reg |-> o - 112, off |-> r.v, base |-> Zero(8), len |-> 1 + r.n])
    [] o = 144 -> (LET r == ULebAt(c, q) IN
                  IF IsDE(r) THEN r ELSE IF ~FitsU16(r.v) THEN DE("UnsupportedRegister")
                  ELSE [k |-> "reg", reg |-> ToNat(r.v), len |-> 1 + r.n])
    [] o = 145 -> (LET r == SLebAt(c, q) IN IF IsDE(r) THEN r ELSE [k |-> "fbreg", off |-> r.v, len |-> 1 + r.n])
    [] o = 146 -> (LET r == ULebAt(c, q) IN
                  IF IsDE(r) THEN r ELSE IF ~FitsU16(r.v) THEN DE("UnsupportedRegister")
                  ELSE LET s == SLebAt(c, q + r.n) IN
                       IF IsDE(s) THEN s
                       ELSE [k |-> "breg", reg |-> ToNat(r.v), off |-> s.v, base |-> Zero(8), len |-> 1 + r.n + s.n])
    [] o = 147 -> (LET r == ULebAt(c, q) IN
                  IF IsDE(r) THEN r
                  \* size in bytes times 8 must be representable
                  ELSE IF r.v[8] >= 32 THEN DE("PieceSizeOverflow")
                  ELSE [k |-> "piece", bits |-> Shl(r.v, 3), hasoff |-> FALSE, bitoff |-> Zero(8), len |-> 1 + r.n])
    [] o = 148 -> (IF q >= Len(c) THEN DE("UnexpectedEof") ELSE [k |-> "deref", size |-> c[q + 1], space |-> FALSE, base |-> Zero(8), len |-> 2])
    [] o = 149 -> (IF q >= Len(c) THEN DE("UnexpectedEof") ELSE [k |-> "deref", size |-> c[q + 1], space |-> TRUE, base |-> Zero(8), len |-> 2])
    [] o = 150 -> [k |-> "nop", len |-> 1]
    [] o = 151 -> [k |-> "push_obj", len |-> 1]
    [] o = 152 -> (LET r == FixAt(c, q, 2, le) IN IF IsDE(r) THEN r ELSE [k |-> "call", ref |-> "unit", off |-> ZExt(r.v, 8), len |-> 3])
    [] o = 153 -> (LET r == FixAt(c, q, 4, le) IN IF IsDE(r) THEN r ELSE [k |-> "call", ref |-> "unit", off |-> ZExt(r.v, 8), len |-> 5])
    [] o = 154 -> (LET r == FixAt(c, q, enc.fmt, le) IN IF IsDE(r) THEN r ELSE [k |-> "call", ref |-> "info", off |-> ZExt(r.v, 8), len |-> 1 + enc.fmt])
    [] o \in {155, 224} -> [k |-> "tls", len |-> 1]
    [] o = 156 -> [k |-> "cfa", len |-> 1]
    [] o = 157 -> (LET r == ULebAt(c, q) IN
                  IF IsDE(r) THEN r
                  ELSE LET s == ULebAt(c, q + r.n) IN
                       IF IsDE(s) THEN s
                       ELSE [k |-> "piece", bits |-> r.v, hasoff |-> TRUE, bitoff |-> s.v, len |-> 1 + r.n + s.n])
    [] o = 158 -> Block("implicit_value")
    [] o = 159 -> [k |-> "stack_value", len |-> 1]
    [] o \in {160, 242} -> ImplPtr
    [] o \in {161, 251} -> Index("addrx")
    [] o \in {162, 252} -> Index("constx")
    [] o \in {163, 243} -> Block("entry_value")
    [] o \in {164, 244} -> (LET r == ULebAt(c, q) IN
                  IF IsDE(r) THEN r
                  ELSE IF q + r.n >= Len(c) THEN DE("UnexpectedEof")
                  ELSE LET n == c[q + r.n + 1] IN
                       IF q + r.n + 1 + n > Len(c) THEN DE("UnexpectedEof")
                       ELSE [k |-> "typed_literal", base |-> r.v, data |-> SubSeq(c, q + r.n + 2, q + r.n + 1 + n), len |-> 2 + r.n + n])
    [] o \in {165, 245} -> (LET r == ULebAt(c, q) IN
                  IF IsDE(r) THEN r ELSE IF ~FitsU16(r.v) THEN DE("UnsupportedRegister")
                  ELSE LET s == ULebAt(c, q + r.n) IN
                       IF IsDE(s) THEN s
                       ELSE [k |-> "breg", reg |-> ToNat(r.v), off |-> Zero(8), base |-> s.v, len |-> 1 + r.n + s.n])
    [] o \in {166, 246, 167} -> (IF q >= Len(c) THEN DE("UnexpectedEof")
                  ELSE LET r == ULebAt(c, q + 1) IN
                       IF IsDE(r) THEN r
                       ELSE [k |-> "deref", size |-> c[q + 1], space |-> (o = 167), base |-> r.v, len |-> 2 + r.n])
    [] o \in {168, 247} -> Typed("convert")
    [] o \in {169, 249} -> Typed("reinterpret")
    [] o = 240 -> [k |-> "unsupported", len |-> 1]
    [] o = 250 -> (LET r == FixAt(c, q, 4, le) IN IF IsDE(r) THEN r ELSE [k |-> "param_ref", off |-> ZExt(r.v, 8), len |-> 5])
    [] o = 253 -> (LET r == FixAt(c, q, enc.fmt, le) IN IF IsDE(r) THEN r ELSE [k |-> "variable_value", off |-> ZExt(r.v, 8), len |-> 1 + enc.fmt])
    [] o = 237 -> (IF q >= Len(c) THEN DE("UnexpectedEof")
                  ELSE LET s == c[q + 1] IN
                       IF s \in {0, 1, 2} THEN
                           LET r == ULebAt(c, q + 1) IN
                           IF IsDE(r) THEN r ELSE IF ~FitsU32(r.v) THEN DE("BadUnsignedLeb128")
                           ELSE [k |-> "wasm", which |-> (CASE s = 0 -> "local" [] s = 1 -> "global" [] OTHER -> "stack"),
                                 index |-> Trunc(r.v, 4), len |-> 2 + r.n]
                       ELSE IF s = 3 THEN
                           LET r == FixAt(c, q + 1, 4, le) IN
                           IF IsDE(r) THEN r ELSE [k |-> "wasm", which |-> "global", index |-> r.v, len |-> 6]
                       ELSE DE("InvalidExpression"))
    [] OTHER -> DE("InvalidExpression")
=============================================================================
