---------------------------- MODULE ListsTrace ----------------------------
(***************************************************************************)
(* Trace validation for C08: executions of gimli's raw and resolving list  *)
(* iterators recorded by `gvh-lists record` on seeded random sections      *)
(* (syntax-directed lists of up to 40 entries and arbitrary bytes, address *)
(* sizes 1/2/4/8, both byte orders, every version / format / dwo setting). *)
(*                                                                         *)
(* One group of events per section:                                        *)
(*   Reset (configuration, section bytes, offset, unit base, .debug_addr)  *)
(*   Open  (did raw_ranges / ranges etc. accept the offset)                *)
(*   Raw*  (every item of the raw iterator, then none) RawFused            *)
(*   Rewind                                                                *)
(*   Next* (every item of the resolving iterator, then none) NextFused     *)
(* Each event must be the step the Lists machines take from the current    *)
(* state: the raw entries are decoded by Lists!Dec from the section bytes  *)
(* (so the logged entries are checked, not trusted), the resolved ranges   *)
(* by Lists!IterNext with exact 64-bit BV arithmetic.  Every logged range  *)
(* must also satisfy the any-input clause (non-empty, below the tombstone) *)
(* on its own.                                                             *)
(***************************************************************************)
EXTENDS Lists, TLC, Json, IOUtils
VARIABLES l, g, st, ph
Rec == ndJsonDeserialize(IOEnv.TRACE)

IsEv(e) == l <= Len(Rec) /\ Rec[l].ev = e /\ l' = l + 1
Cfg == Rec[g].cf
Sec == Rec[g].sec
Adr == [sec |-> Rec[g].addr.sec, base |-> Rec[g].addr.base]
Opened == OpenAt(Sec, N8(Rec[g].off))

SameRaw(o, x) == /\ o.t = x.t
                 /\ (x.t = "some" => o.e.k = x.e.k /\ o.e.a = x.e.a /\ o.e.b = x.e.b /\ o.e.d = x.e.d)
SameRes(o, x) == /\ o.t = x.t
                 /\ (x.t = "some" => o.begin = x.begin /\ o.end = x.end /\ o.d = x.d)
(* the clause for any input, on the logged value itself *)
LoggedOk(o) == o.t = "some" => ULt(o.begin, o.end) /\ ULt(o.begin, Sub(ZExt(Ones(Cfg.asz), 8), One(8)))

Reset == /\ IsEv("Reset") /\ ph \in {"idle", "done"}
         /\ g' = l /\ ph' = "open"
         /\ st' = ItInit(Rec[l].off, Rec[l].ub)
Open == /\ IsEv("Open") /\ ph = "open"
        /\ Rec[l].raw = Opened /\ Rec[l].res = Opened /\ Rec[l].manual_same
        /\ ph' = IF Opened THEN "raw" ELSE "rewind"
        /\ UNCHANGED <<g, st>>
Raw == /\ IsEv("Raw") /\ ph = "raw"
       /\ LET x == RawNext(Sec, st, Cfg) IN
          /\ SameRaw(Rec[l].r, x.res)
          /\ st' = x.st
          /\ ph' = IF x.res.t = "none" THEN "rawfused" ELSE "raw"
       /\ UNCHANGED g
RawFused == /\ IsEv("RawFused") /\ ph = "rawfused" /\ Rec[l].fused
            /\ ph' = "rewind" /\ UNCHANGED <<g, st>>
Rewind == /\ IsEv("Rewind") /\ ph = "rewind"
          /\ st' = ItInit(Rec[g].off, Rec[g].ub)
          /\ ph' = IF Opened THEN "res" ELSE "done"
          /\ UNCHANGED g
Next1 == /\ IsEv("Next") /\ ph = "res"
         /\ LET x == IterNext(Sec, st, Cfg, Adr) IN
            /\ SameRes(Rec[l].r, x.res)
            /\ LoggedOk(Rec[l].r)
            /\ st' = x.st
            /\ ph' = IF x.res.t = "none" THEN "resfused" ELSE "res"
         /\ UNCHANGED g
NextFused == /\ IsEv("NextFused") /\ ph = "resfused" /\ Rec[l].fused
             /\ ph' = "done" /\ UNCHANGED <<g, st>>

Init == l = 1 /\ g = 0 /\ ph = "idle" /\ st = ItInit(0, Z8)
Next == Reset \/ Open \/ Raw \/ RawFused \/ Rewind \/ Next1 \/ NextFused
Accepted == LET d == TLCGet("stats").diameter IN
            IF d - 1 = Len(Rec) THEN TRUE
            ELSE Print(<<"UNMATCHED", d, ToJson(Rec[d])>>, FALSE)
=============================================================================
