INIT Init
NEXT Next
INVARIANT Inv
CHECK_DEADLOCK FALSE
CONSTANTS
  Mode = "builder"
  MaxS = 3
  MaxM = 1
  MaxUnits = 2
  Salt = 0
  EmitMod = 1
  AllPlacements = FALSE
