-------------------------- MODULE ExprWriterTrace --------------------------
(* Trace validation for the expression writer (C15): each event is one       *)
(* expression built with random calls, written inside a unit and read back:  *)
(* the bytes found in the output must decode (OpCodec) to the meaning of the *)
(* calls with every branch on the intended operation and every reference on  *)
(* the offset of the intended entry (hints = offsets of the named entries in *)
(* the output); a refusal must be one the specification allows.              *)
EXTENDS ExprWriter, TLC, Json, IOUtils
VARIABLE l
Rec == ndJsonDeserialize(IOEnv.TRACE)
IsEv(e) == l <= Len(Rec) /\ Rec[l].ev = e /\ l' = l + 1

Names == {"B1", "T1", "T2", "X1", "X2"}
(* sizes when nothing was written: the base type is the first entry of its unit (one-byte ULEB offset) *)
SizeRes == [unit |-> [n \in Names |-> FromNat(11, 8)], info |-> [n \in Names |-> FromNat(11, 8)]]
ResOf(h) == [unit |-> [n \in Names |-> h[n].unit], info |-> [n \in Names |-> h[n].info]]

Written == IsEv("Written") /\ LET r == Rec[l]
                                  enc == [asz |-> r.asz, fmt |-> r.fmt, ver |-> r.ver, le |-> TRUE] IN
    /\ ~r.abnormal
    /\ IF r.ok THEN /\ ~TooLong(r.calls, enc)
                    /\ ~BranchTooFar(r.calls, enc, ResOf(r.hints))
                    /\ Matches(r.calls, r.bytes, enc, ResOf(r.hints))
       ELSE TooLong(r.calls, enc) \/ Forward(r.calls) \/ BranchTooFar(r.calls, enc, SizeRes)

Init == l = 1
Next == Written
Accepted == LET d == TLCGet("stats").diameter IN
            IF d - 1 = Len(Rec) THEN TRUE
            ELSE Print(<<"UNMATCHED", d, ToJson(Rec[d])>>, FALSE)
=============================================================================
