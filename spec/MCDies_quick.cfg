INIT Init
NEXT Next
VIEW View
CHECK_DEADLOCK FALSE
CONSTANTS
  Modes = {"nav", "ab", "hdr"}
  MaxN = 4
  RestrictN = 4
  Pads = {0, 2}
  Combos <- CombosQuick
  FullCombos <- FullQuick
  Rotate = TRUE
  MaxA = 4
