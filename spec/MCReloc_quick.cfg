INIT Init
NEXT Next
INVARIANT Inv
CHECK_DEADLOCK FALSE
CONSTANTS
  MaxRel = 2
  MaxCalls = 2
  FullScripts = FALSE
