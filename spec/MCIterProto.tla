---------------------------- MODULE MCIterProto ----------------------------
(* Bounded model of the iterator protocol (C01).  One TLC run explores     *)
(* every concrete family of IterProto.tla, as coded, from every initial    *)
(* variant up to MaxN (and auxiliary size up to MaxM, faults up to MaxF),  *)
(* and checks                                                              *)
(*   Fused / FusedAct : after Err a fused iterator only returns None;      *)
(*   Bounded          : #(Some|Err results) <= initial variant + faults;   *)
(*   Refines          : every concrete step is a step of the abstract      *)
(*                      variant machine under the rank function;           *)
(*   Terminates       : <>[](res = None) under weak fairness of Next, with *)
(*                      no state constraint;                               *)
(*   FoldLemma (ASSUME): the closed-form run-length decision `Accept` used *)
(*                      by RobustTrace equals exact reachability in the    *)
(*                      abstract machine, for all small sequences.         *)
EXTENDS IterProto, TLC
CONSTANTS Fams, MaxN, MaxM, MaxF, LemmaRuns, LemmaV
VARIABLES fam, c, res, steps, i0, errSeen
vars == <<fam, c, res, steps, i0, errSeen>>

Init == /\ fam \in Fams
        /\ \E n \in 0..MaxN, m \in 0..MaxM, f \in 0..MaxF :
              /\ c = ConcInit(fam, n, m, f)
              /\ i0 = [n |-> n, m |-> m, f |-> f]
        /\ res = "start"
        /\ steps = 0
        /\ errSeen = FALSE

Next == \E p \in ConcSucc(fam, c) :
          /\ c' = p[1]
          /\ res' = p[2]
          /\ steps' = IF p[2] = None THEN steps ELSE steps + 1
          /\ errSeen' = (errSeen \/ p[2] = Err)
          /\ UNCHANGED <<fam, i0>>

Spec == Init /\ [][Next]_vars /\ WF_vars(Next)

TypeOK == /\ res \in Results \cup {"start"}
          /\ steps \in Nat
          /\ Rank(fam, c) \in Nat

Fused == (FusedFamily(fam) /\ errSeen) => Rank(fam, c) = 0
FusedAct == [][(FusedFamily(fam) /\ errSeen) => res' = None]_vars

Bounded == steps + Rank(fam, c) + c.f <= i0.n + i0.f

(* Only for the "count" family: is the number of results bounded by the    *)
(* number of table BYTES (the input size)?  Not unless the header's count  *)
(* is validated against the table length - see MCIterProto_cnt.cfg.        *)
InputBounded == fam = "count" => steps <= i0.m + i0.f + 2

StepOK == (<<AbsOf(fam, c'), res'>> \in AbsSucc(FusedFamily(fam), AbsOf(fam, c)))
Refines == [][StepOK]_vars

Terminates == <>[](res = None)

-----------------------------------------------------------------------------
(* Fold = reachability, on every run-length sequence of up to LemmaRuns    *)
(* (<= 3) runs with counts 0..3, variants 0..LemmaV, faults 0..1, both     *)
(* families.  LemmaRuns = 0 skips the lemma (expected-failure configs).    *)
RunSet == {<<r, k>> : r \in Results, k \in 0..3}
SmallRuns == {<<>>} \cup {<<a>> : a \in RunSet}
             \cup (IF LemmaRuns >= 2 THEN {<<a, b>> : a, b \in RunSet} ELSE {})
             \cup (IF LemmaRuns >= 3 THEN {<<a, b, d>> : a, b, d \in RunSet} ELSE {})

FoldLemma ==
    \A fused \in BOOLEAN, v \in 0..LemmaV, f \in 0..1, runs \in SmallRuns :
        (~Fold(fused, Live(v, f), runs).rej) = Behaves(fused, v, f, Expand(runs))

(* Accept is monotone in the bound: a sequence accepted for a variant v is  *)
(* accepted for every larger variant (the driver validates, per distinct   *)
(* result sequence, the instance with the smallest bound first).           *)
MonoLemma ==
    \A fused \in BOOLEAN, v \in 0..LemmaV, w \in 0..LemmaV, f \in 0..1, runs \in SmallRuns :
        (v <= w /\ Accept(fused, v, f, runs)) => Accept(fused, w, f, runs)

ASSUME LemmaRuns = 0 \/ FoldLemma
ASSUME LemmaRuns = 0 \/ MonoLemma
=============================================================================
