INIT Init
NEXT Next
INVARIANT Inv
CHECK_DEADLOCK FALSE
CONSTANTS
  Fam = "hdr"
  MaxTab = 6
  FullTab = 3
  AgreeTab = 4
  MaxLen = 3
  Dups = FALSE
  Slim = TRUE
