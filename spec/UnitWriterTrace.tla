-------------------------- MODULE UnitWriterTrace --------------------------
(* Trace validation for C11: random larger unit tables.                      *)
(* `gvh-unitw record` performs a random script of builder calls on gimli     *)
(* (1-4 units, 50-200 entries, random attribute kinds with boundary          *)
(* payloads, references within and across units, reserved ids added late or  *)
(* never, sibling flags, occasional delete / delete_child), writes, reads    *)
(* back and logs:                                                            *)
(*   Units   the encodings of the units that were created                    *)
(*   Call    one builder call (same record format as the replay cases)       *)
(*   Result  outcome of Dwarf::write + the forest read back by read::Dwarf   *)
(* The model replays every call on the builder machine of UnitWriter.tla     *)
(* (API preconditions are checked) and at Result demands the read-back to be *)
(* the meaning WriteResultX computes (meaning only; forms / offsets are not  *)
(* compared here), or an error where the model says the request cannot be    *)
(* encoded.                                                                  *)
EXTENDS UnitWriter, TLC, Json, IOUtils
VARIABLES l, D
Rec == ndJsonDeserialize(IOEnv.TRACE)

IsEv(e) == l <= Len(Rec) /\ Rec[l].ev = e /\ l' = l + 1
Added(U, e) == e \in 1..Len(U.ents) /\ U.ents[e].tag # ""

Units == IsEv("Units") /\ LET r == Rec[l] IN
    D' = Start([u \in 1..Len(r.units) |-> [version |-> r.units[u].version, word |-> r.units[u].format, asz |-> r.units[u].asz,
                                              prog |-> IF "lineprog" \in DOMAIN r.units[u] THEN r.units[u].lineprog ELSE 0]])

CallOk(k) ==
    /\ k.u \in 1..Len(D.units)
    /\ LET U == D.units[k.u] IN
       CASE k.op = "add" -> Added(U, k.p)
         [] k.op = "reserve" -> TRUE
         [] k.op = "add_reserved" -> CanAddReserved(U, k.e, k.p) /\ Added(U, k.p)
         [] k.op \in {"set", "delete", "sibling"} -> Exists(U, k.e)
         [] k.op = "delete_child" -> Exists(U, k.p)
         [] OTHER -> FALSE
Call == IsEv("Call") /\ LET k == Rec[l].c IN CallOk(k) /\ D' = ApplyCall(D, k)

SameAttr(x, y, ent) ==
    /\ x[1] = y[1]
    /\ IF "sib" \in DOMAIN x[3]
       THEN "sib" \in DOMAIN y[3] /\ "after" \in DOMAIN ent /\ y[3].sib = ent.after
       ELSE x[3] = y[3]
SameEntry(x, y) ==
    /\ x.depth = y.depth /\ x.tag = y.tag /\ x.children = y.children
    /\ Len(x.attrs) = Len(y.attrs)
    /\ \A j \in DOMAIN x.attrs : SameAttr(x.attrs[j], y.attrs[j], y)
SameForest(exp, obs) ==
    /\ Len(exp) = Len(obs)
    /\ \A u \in DOMAIN exp :
         /\ exp[u].version = obs[u].version /\ exp[u].format = obs[u].format /\ exp[u].asz = obs[u].asz
         /\ Len(exp[u].entries) = Len(obs[u].entries)
         /\ \A i \in DOMAIN exp[u].entries : SameEntry(exp[u].entries[i], obs[u].entries[i])

(* diagnostics printed when a forest is rejected: the first differing entries *)
Diffs(exp, obs) ==
    IF Len(exp) # Len(obs) THEN {<<"units", Len(exp), Len(obs)>>}
    ELSE UNION {IF Len(exp[u].entries) # Len(obs[u].entries) THEN {<<"entries", u, Len(exp[u].entries), Len(obs[u].entries)>>}
                ELSE {<<u, i, exp[u].entries[i], obs[u].entries[i]>> : i \in
                        {k \in DOMAIN exp[u].entries : ~SameEntry(exp[u].entries[k], obs[u].entries[k]) /\
                            \A k2 \in 1..(k - 1) : SameEntry(exp[u].entries[k2], obs[u].entries[k2])}}
               : u \in DOMAIN exp}

Result == IsEv("Result") /\ LET r == Rec[l]  res == WriteResultX(Normalise(D), r.be, FALSE) IN
    /\ IF res.ok
       THEN /\ r.obs.ok
            /\ IF SameForest(res.units, r.obs.units) THEN TRUE
               ELSE PrintT(<<"DIFF", Diffs(res.units, r.obs.units)>>) /\ FALSE
       ELSE ~r.obs.ok /\ r.obs.stage = "write"
    /\ UNCHANGED D

Init == l = 1 /\ D = Start(<<>>)
Next == Units \/ Call \/ Result
Accepted == LET d == TLCGet("stats").diameter IN
            IF d - 1 = Len(Rec) THEN TRUE
            ELSE Print(<<"UNMATCHED", d, ToJson(Rec[d])>>, FALSE)
=============================================================================
