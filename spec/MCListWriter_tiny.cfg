INIT Init
NEXT Next
INVARIANT Inv
CHECK_DEADLOCK FALSE
CONSTANTS
  MaxLen = 1
  FullLen = 1
  MidLen = 1
  MaxLists = 2
