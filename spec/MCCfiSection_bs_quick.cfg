INIT Init
NEXT Next
INVARIANT Inv
CHECK_DEADLOCK FALSE
CONSTANTS
  Fam = "bs"
  MaxTab = 5
  FullTab = 3
  AgreeTab = 3
  MaxLen = 3
  Dups = FALSE
  Slim = TRUE
