------------------------------ MODULE LineSM ------------------------------
(***************************************************************************)
(* The DWARF line-number program (C04, reused by C12/C13).                 *)
(*                                                                         *)
(* Layers, all on byte tuples (BV) so that 64-bit operands are exact:      *)
(*  1. Instruction codec: `Enc` (abstract instruction -> bytes) and `Dec`   *)
(*     (bytes at a position -> instruction + length | error) written in    *)
(*     the shape of gimli's `LineInstruction::parse`: extended opcodes     *)
(*     are length-delimited (trailing bytes skipped, zero length is an     *)
(*     error), opcodes >= opcode_base are special, opcodes 1..12 below     *)
(*     opcode_base have their DWARF meaning, other opcodes below           *)
(*     opcode_base are skipped by `standard_opcode_lengths`.               *)
(*  2. The register machine AS CODED (`Exec`, `ResetRegs`, `Step`):        *)
(*     gimli's `LineRow::execute` + `LineRows::next_row`, including the    *)
(*     tombstone mode (incl. the end_sequence row that is still returned   *)
(*     when the sequence had returned rows), the `max_ops = 1` fast path,  *)
(*     u64-wrapping                                                        *)
(*     intermediate arithmetic, saturation of `line` at 0, checked         *)
(*     address addition, partial reset after a row vs. full reset after    *)
(*     end_sequence, and the one-pass `sequences()` slicing.               *)
(*  3. The DWARF 6.2 machine (`StdExec`, `StdStep`): exact (unbounded)     *)
(*     arithmetic, no tombstone mode.  It is partial: `wf` turns FALSE     *)
(*     when the program is not well formed (address leaves the address     *)
(*     space, address moves backwards inside a sequence, line leaves       *)
(*     0..2^64-1, undecodable instruction).                                *)
(*  4. `EncLineHeader`: header encoder for versions 2-5 (v5 entry formats).*)
(*                                                                         *)
(* MCLineSM checks (inside TLC) Dec(Enc(i)) = i, "as coded = DWARF machine *)
(* on well-formed programs", monotone/in-range addresses for ALL programs, *)
(* and sequence/resume consistency; LineSMTrace replays recorded           *)
(* executions of gimli against `Dec`/`Exec`.                               *)
(*                                                                         *)
(* Header record H: [ver, fmt (32|64), asz, le, mil, maxops, dis, lbase    *)
(* (integer -128..127), lrange, obase, oplens (Seq of obase-1 bytes)].     *)
(***************************************************************************)
EXTENDS Leb, TLC, FiniteSets

(*------------------------------------------------------------------------*)
(* Small helpers                                                           *)
W8 == 8
Z8 == Zero(8)
Nat8(n) == FromNat(n, 8)
Lay(v, le) == IF le THEN v ELSE Reverse(v)
Field(n, size, le) == Lay(FromNat(n, size), le)
RECURSIVE Flatten(_)
Flatten(ss) == IF ss = <<>> THEN <<>> ELSE Head(ss) \o Flatten(Tail(ss))
(* drop trailing zero bytes: the compact external form of a value *)
RECURSIVE Trim(_)
Trim(a) == IF a = <<>> THEN <<>>
           ELSE IF a[Len(a)] = 0 THEN Trim(SubSeq(a, 1, Len(a) - 1)) ELSE a
HighZero(a, n) == \A i \in DOMAIN a : i > n => a[i] = 0      \* a < 2^(8n)

(* TLC note: operator arguments are passed lazily and a lazily passed       *)
(* sequence that is walked by a recursive operator is re-evaluated at      *)
(* every level (measured: factor 4 per LEB128 byte).  Computed sequences   *)
(* and run states are therefore forced with TLCEval before they are handed *)
(* to a recursive operator; callers should pass evaluated byte strings     *)
(* (a state variable or a quantifier-bound value).                         *)
(* LEB128 readers as coded (Leb.tla machines), started at position i of b *)
ULebAt(b, i) == Fin(RunU(MInit, b, i))
SLebAt(b, i) == Fin(RunS(MInit, b, i))

(* division of a BV by a byte k > 0, most significant byte first:          *)
(* <<quotient, remainder>>.  (BV!UDiv is bit-serial; this one is 8 steps.) *)
RECURSIVE DivByteAcc(_, _, _, _, _)
DivByteAcc(a, k, i, rem, q) ==
    IF i = 0 THEN <<q, rem>>
    ELSE LET cur == rem * 256 + a[i]
         IN DivByteAcc(a, k, i - 1, cur % k, [q EXCEPT ![i] = cur \div k])
DivModByte(a, k) == DivByteAcc(a, k, Len(a), 0, Zero(Len(a)))

(* position of the first NUL at or after i, 0 if none *)
RECURSIVE FindNul(_, _)
FindNul(b, i) == IF i > Len(b) THEN 0 ELSE IF b[i] = 0 THEN i ELSE FindNul(b, i + 1)

(*------------------------------------------------------------------------*)
(* Abstract instructions: uniform records so that they compare and         *)
(* serialise uniformly.  v: BV8 operand (two's complement for              *)
(* advance_line); opc: opcode byte (special / unknown); raw: uninterpreted *)
(* operand bytes; x: <<dir, mtime, size>> of define_file.                  *)
NoIns == [op |-> "none", opc |-> 0, v |-> Z8, raw |-> <<>>, x |-> <<>>]
I0(op) == [NoIns EXCEPT !.op = op]
IV(op, v) == [NoIns EXCEPT !.op = op, !.v = v]
ISpecial(opc) == [NoIns EXCEPT !.op = "special", !.opc = opc]
IUnkStd0(opc) == [NoIns EXCEPT !.op = "unknown_std0", !.opc = opc]
IUnkStd1(opc, v) == [NoIns EXCEPT !.op = "unknown_std1", !.opc = opc, !.v = v]
IUnkStdN(opc, raw) == [NoIns EXCEPT !.op = "unknown_stdn", !.opc = opc, !.raw = raw]
IUnkExt(opc, raw) == [NoIns EXCEPT !.op = "unknown_ext", !.opc = opc, !.raw = raw]
IDefFile(name, d, t, s) == [NoIns EXCEPT !.op = "define_file", !.raw = name, !.x = <<d, t, s>>]

(* standard opcode numbers *)
StdName == <<"copy", "advance_pc", "advance_line", "set_file", "set_column", "negate_stmt",
             "set_basic_block", "const_add_pc", "fixed_advance_pc", "set_prologue_end",
             "set_epilogue_begin", "set_isa">>
StdOpc(name) == CHOOSE i \in 1..12 : StdName[i] = name
StdLens == <<0, 1, 1, 1, 1, 0, 0, 0, 1, 0, 0, 1>>      \* the lengths DWARF assigns to opcodes 1..12
UlebStd == {"advance_pc", "set_file", "set_column", "set_isa"}

(*------------------------------------------------------------------------*)
(* Decoder, as LineInstruction::parse.  Result [ok, ins, n]: n = bytes     *)
(* consumed from position i.                                               *)
DecBad == [ok |-> FALSE, ins |-> NoIns, n |-> 0]
DecOk(ins, n) == [ok |-> TRUE, ins |-> ins, n |-> n]

(* body of an extended instruction: rest = the `length` bytes after the    *)
(* length field (non-empty), tot = total instruction size.                 *)
DecExtBody(H, rest, tot) ==
    LET opc == rest[1] IN
    CASE opc = 1 -> DecOk(I0("end_sequence"), tot)
      [] opc = 2 -> IF Len(rest) - 1 < H.asz THEN DecBad
                    ELSE DecOk(IV("set_address", ZExt(FieldVal(SubSeq(rest, 2, 1 + H.asz), H.le), 8)), tot)
      [] opc = 3 -> IF H.ver >= 5 THEN DecOk(IUnkExt(3, SubSeq(rest, 2, Len(rest))), tot)
                    ELSE LET z == FindNul(rest, 2) IN
                         IF z = 0 THEN DecBad
                         ELSE LET d == ULebAt(rest, z + 1) IN
                              IF d.st # "ok" THEN DecBad
                              ELSE LET t == ULebAt(rest, z + 1 + d.n) IN
                                   IF t.st # "ok" THEN DecBad
                                   ELSE LET s == ULebAt(rest, z + 1 + d.n + t.n) IN
                                        IF s.st # "ok" THEN DecBad
                                        ELSE DecOk(IDefFile(SubSeq(rest, 2, z - 1), d.res, t.res, s.res), tot)
      [] opc = 4 -> LET d == ULebAt(rest, 2) IN
                    IF d.st # "ok" THEN DecBad ELSE DecOk(IV("set_discriminator", d.res), tot)
      [] OTHER   -> DecOk(IUnkExt(opc, SubSeq(rest, 2, Len(rest))), tot)

DecExt(H, b, i) ==          \* i = position of the byte after the 0 opcode
    LET l == ULebAt(b, i) IN
    IF l.st # "ok" THEN DecBad
    ELSE LET j == i + l.n IN                      \* first byte of the body
         IF ~FitsNat(l.res) THEN DecBad           \* longer than any input here
         ELSE LET len == ToNat(l.res) IN
              IF len > Len(b) - j + 1 THEN DecBad           \* split fails: UnexpectedEof
              ELSE IF len = 0 THEN DecBad                   \* read_u8 on an empty body
              ELSE DecExtBody(H, TLCEval(SubSeq(b, j, j + len - 1)), 1 + l.n + len)

(* n ULEB128 operands starting at i: total length or 0 on error *)
RECURSIVE SkipULebs(_, _, _, _)
SkipULebs(b, i, n, acc) ==
    IF n = 0 THEN acc
    ELSE LET d == ULebAt(b, i) IN
         IF d.st # "ok" THEN 0 - 1 ELSE SkipULebs(b, i + d.n, n - 1, acc + d.n)

Dec(H, b, i) ==
    LET opc == b[i] IN
    IF opc = 0 THEN DecExt(H, b, i + 1)
    ELSE IF opc >= H.obase THEN DecOk(ISpecial(opc), 1)
    ELSE IF opc <= 12 THEN
        LET name == StdName[opc] IN
        IF name \in UlebStd THEN
            LET d == ULebAt(b, i + 1) IN
            IF d.st # "ok" THEN DecBad ELSE DecOk(IV(name, d.res), 1 + d.n)
        ELSE IF name = "advance_line" THEN
            LET d == SLebAt(b, i + 1) IN
            IF d.st # "ok" THEN DecBad ELSE DecOk(IV(name, d.res), 1 + d.n)
        ELSE IF name = "fixed_advance_pc" THEN
            IF Len(b) - i < 2 THEN DecBad
            ELSE DecOk(IV(name, ZExt(FieldVal(SubSeq(b, i + 1, i + 2), H.le), 8)), 3)
        ELSE DecOk(I0(name), 1)
    ELSE LET na == H.oplens[opc] IN
         IF na = 0 THEN DecOk(IUnkStd0(opc), 1)
         ELSE IF na = 1 THEN
             LET d == ULebAt(b, i + 1) IN
             IF d.st # "ok" THEN DecBad ELSE DecOk(IUnkStd1(opc, d.res), 1 + d.n)
         ELSE LET k == SkipULebs(b, i + 1, na, 0) IN
              IF k < 0 THEN DecBad ELSE DecOk(IUnkStdN(opc, SubSeq(b, i + 1, i + k)), 1 + k)

(*------------------------------------------------------------------------*)
(* Encoder.  `pad` = extra bytes inside the length of an extended          *)
(* instruction (skipped by a conforming reader).                           *)
EncExt(opc, payload, pad) ==
    <<0>> \o EncU(Nat8(1 + Len(payload) + Len(pad))) \o <<opc>> \o payload \o pad

Encodable(H, ins) ==
    CASE ins.op = "special" -> ins.opc >= H.obase /\ ins.opc >= 1
      [] ins.op \in {StdName[k] : k \in 1..12} -> StdOpc(ins.op) < H.obase
      [] ins.op = "unknown_std0" -> ins.opc > 12 /\ ins.opc < H.obase /\ H.oplens[ins.opc] = 0
      [] ins.op = "unknown_std1" -> ins.opc > 12 /\ ins.opc < H.obase /\ H.oplens[ins.opc] = 1
      [] ins.op = "unknown_stdn" -> /\ ins.opc > 12 /\ ins.opc < H.obase /\ H.oplens[ins.opc] >= 2
                                    /\ SkipULebs(ins.raw, 1, H.oplens[ins.opc], 0) = Len(ins.raw)
      [] ins.op = "define_file" -> H.ver <= 4
      [] ins.op = "unknown_ext" -> ins.opc \notin {1, 2, 4} /\ (ins.opc = 3 => H.ver >= 5)
      [] OTHER -> TRUE

Enc(H, ins, pad) ==
    CASE ins.op = "special" -> <<ins.opc>>
      [] ins.op \in UlebStd -> <<StdOpc(ins.op)>> \o EncU(ins.v)
      [] ins.op = "advance_line" -> <<3>> \o EncS(ins.v)
      [] ins.op = "fixed_advance_pc" -> <<9>> \o Lay(Trunc(ins.v, 2), H.le)
      [] ins.op \in {"copy", "negate_stmt", "set_basic_block", "const_add_pc",
                     "set_prologue_end", "set_epilogue_begin"} -> <<StdOpc(ins.op)>>
      [] ins.op = "unknown_std0" -> <<ins.opc>>
      [] ins.op = "unknown_std1" -> <<ins.opc>> \o EncU(ins.v)
      [] ins.op = "unknown_stdn" -> <<ins.opc>> \o ins.raw
      [] ins.op = "end_sequence" -> EncExt(1, <<>>, pad)
      [] ins.op = "set_address" -> EncExt(2, Lay(Trunc(ins.v, H.asz), H.le), pad)
      [] ins.op = "define_file" -> EncExt(3, ins.raw \o <<0>> \o EncU(ins.x[1]) \o EncU(ins.x[2]) \o EncU(ins.x[3]), pad)
      [] ins.op = "set_discriminator" -> EncExt(4, EncU(ins.v), pad)
      [] ins.op = "unknown_ext" -> EncExt(ins.opc, ins.raw, <<>>)

(*------------------------------------------------------------------------*)
(* Registers.  addr is kept as a 64-bit value exactly as gimli does (u64); *)
(* "within the address size" = bytes above asz are zero.                   *)
InitRegs(H) == [tomb |-> FALSE, addr |-> Z8, opi |-> Z8, file |-> One(8), line |-> One(8),
                col |-> Z8, stmt |-> H.dis, bb |-> FALSE, es |-> FALSE, pe |-> FALSE,
                eb |-> FALSE, isa |-> Z8, disc |-> Z8]

(* LineRow::reset *)
ResetRegs(H, r) == IF r.es THEN InitRegs(H)
                   ELSE [r EXCEPT !.disc = Z8, !.bb = FALSE, !.pe = FALSE, !.eb = FALSE]

(* what a row shows (everything except the private tombstone flag) *)
Flags(r) == (IF r.stmt THEN 1 ELSE 0) + (IF r.bb THEN 2 ELSE 0) + (IF r.es THEN 4 ELSE 0)
            + (IF r.pe THEN 8 ELSE 0) + (IF r.eb THEN 16 ELSE 0)
RowOf(r) == <<Trim(r.addr), Trim(r.opi), Trim(r.file), Trim(r.line), Trim(r.col), Flags(r),
              Trim(r.isa), Trim(r.disc)>>

(* u64::min_tombstone(asz) = 2^(8 asz) - 2 *)
MinTomb(asz) == ZExt(<<254>> \o Ones(asz - 1), 8)

(* ReaderAddress::add_sized: <<ok, sum>> *)
AddSized(a, len, asz) ==
    IF AddOverflows(a, len) THEN <<FALSE, a>>
    ELSE LET s == Add(a, len) IN IF HighZero(s, asz) THEN <<TRUE, s>> ELSE <<FALSE, a>>

(* apply_line_advance (release-build meaning of `-x as u64`) *)
LineAdvance(line, inc) ==
    IF IsNeg(inc) THEN LET dec == Neg(inc) IN
                       IF ULe(dec, line) THEN Sub(line, dec) ELSE Z8
    ELSE Add(line, inc)

(* apply_operation_advance: [ok, r] *)
OpAdvance(H, r, oa) ==
    IF r.tomb THEN [ok |-> TRUE, r |-> r]
    ELSE IF H.maxops = 1 THEN
        LET s == AddSized(r.addr, MulByte(oa, H.mil, 0), H.asz) IN
        [ok |-> s[1], r |-> [r EXCEPT !.opi = Z8, !.addr = s[2]]]
    ELSE LET sum == Add(r.opi, oa)                       \* wrapping u64
             qr  == DivModByte(sum, H.maxops)
             s   == AddSized(r.addr, MulByte(qr[1], H.mil, 0), H.asz) IN
         [ok |-> s[1], r |-> [r EXCEPT !.opi = Nat8(qr[2]), !.addr = s[2]]]

ExecRes(ok, r, emit) == [ok |-> ok, r |-> r, emit |-> emit]

(* register updates that involve no arithmetic; shared by both machines *)
SimpleOps == {"copy", "set_file", "set_column", "negate_stmt", "set_basic_block", "set_prologue_end",
              "set_epilogue_begin", "set_isa", "end_sequence", "define_file", "set_discriminator",
              "unknown_std0", "unknown_std1", "unknown_stdn", "unknown_ext"}
ExecSimple(r, ins) ==
    CASE ins.op = "copy" -> ExecRes(TRUE, r, TRUE)
      [] ins.op = "set_file" -> ExecRes(TRUE, [r EXCEPT !.file = ins.v], FALSE)
      [] ins.op = "set_column" -> ExecRes(TRUE, [r EXCEPT !.col = ins.v], FALSE)
      [] ins.op = "negate_stmt" -> ExecRes(TRUE, [r EXCEPT !.stmt = ~r.stmt], FALSE)
      [] ins.op = "set_basic_block" -> ExecRes(TRUE, [r EXCEPT !.bb = TRUE], FALSE)
      [] ins.op = "set_prologue_end" -> ExecRes(TRUE, [r EXCEPT !.pe = TRUE], FALSE)
      [] ins.op = "set_epilogue_begin" -> ExecRes(TRUE, [r EXCEPT !.eb = TRUE], FALSE)
      [] ins.op = "set_isa" -> ExecRes(TRUE, [r EXCEPT !.isa = ins.v], FALSE)
      [] ins.op = "set_discriminator" -> ExecRes(TRUE, [r EXCEPT !.disc = ins.v], FALSE)
      [] ins.op = "end_sequence" -> ExecRes(TRUE, [r EXCEPT !.es = TRUE], TRUE)
      [] OTHER -> ExecRes(TRUE, r, FALSE)          \* define_file (table only), unknown opcodes

(* LineRow::execute as coded.  ok = FALSE is Error::AddressOverflow. *)
Exec(H, r, ins) ==
    CASE ins.op = "special" ->
            LET adj == ins.opc - H.obase
                r1  == [r EXCEPT !.line = LineAdvance(r.line, FromInt(H.lbase + (adj % H.lrange), 8))]
                a   == OpAdvance(H, r1, Nat8(adj \div H.lrange)) IN
            ExecRes(a.ok, a.r, TRUE)
      [] ins.op = "advance_pc" -> LET a == OpAdvance(H, r, ins.v) IN ExecRes(a.ok, a.r, FALSE)
      [] ins.op = "advance_line" -> ExecRes(TRUE, [r EXCEPT !.line = LineAdvance(r.line, ins.v)], FALSE)
      [] ins.op = "const_add_pc" ->
            LET a == OpAdvance(H, r, Nat8((255 - H.obase) \div H.lrange)) IN ExecRes(a.ok, a.r, FALSE)
      [] ins.op = "fixed_advance_pc" ->
            IF r.tomb THEN ExecRes(TRUE, r, FALSE)
            ELSE LET s == AddSized(r.addr, ins.v, H.asz) IN
                 ExecRes(s[1], [r EXCEPT !.addr = s[2], !.opi = Z8], FALSE)
      [] ins.op = "set_address" ->
            LET t == ULt(ins.v, r.addr) \/ ~ULt(ins.v, MinTomb(H.asz)) IN
            IF t THEN ExecRes(TRUE, [r EXCEPT !.tomb = TRUE], FALSE)
            ELSE ExecRes(TRUE, [r EXCEPT !.tomb = FALSE, !.addr = ins.v, !.opi = Z8], FALSE)
      [] OTHER -> ExecSimple(r, ins)

(*------------------------------------------------------------------------*)
(* One pass over the program bytes b as LineRows::next_row /               *)
(* IncompleteLineProgram::sequences do it.  S.end: "run" | "done" | "err". *)
(* seqs: [start, end, from, to] (from..to = byte range of the sequence's   *)
(* instructions); sfrom / sstart: the pending sequence.                    *)
InitRun(H) == [pos |-> 1, k |-> 1, r |-> InitRegs(H), rows |-> <<>>, files |-> <<>>, end |-> "run",
               seqs |-> <<>>, sfrom |-> 1, kfrom |-> 1, sstart |-> <<>>, inseq |-> FALSE]

FileOf(ins) == <<ins.raw, Trim(ins.x[1]), Trim(ins.x[2]), Trim(ins.x[3])>>

(* the effect of one decoded instruction (n bytes long) on the run state;  *)
(* pos / k count bytes / instructions, from..to and kfrom..kto delimit a   *)
(* sequence's instructions in both units                                   *)
Apply(H, S, ins, n) ==
    LET e == Exec(H, S.r, ins) IN
    IF ~e.ok THEN [S EXCEPT !.end = "err"]
    ELSE LET np   == S.pos + n
             \* tombstone rows are swallowed, except the end_sequence row of a sequence
             \* that has already returned a row (LineRows.in_sequence): it is returned
             \* with the registers as they are (address = last valid address)
             vis  == e.emit /\ (~e.r.tomb \/ (e.r.es /\ S.inseq))
             fin  == vis /\ e.r.es                    \* a sequence is completed
         IN [pos |-> np, k |-> S.k + 1,
             r |-> IF e.emit THEN ResetRegs(H, e.r) ELSE e.r,
             rows |-> IF vis THEN Append(S.rows, RowOf(e.r)) ELSE S.rows,
             files |-> IF ins.op = "define_file" THEN Append(S.files, FileOf(ins)) ELSE S.files,
             end |-> "run",
             seqs |-> IF fin THEN Append(S.seqs, [start |-> IF S.sstart = <<>> THEN <<>> ELSE S.sstart[1],
                                                  end |-> Trim(e.r.addr), from |-> S.sfrom, to |-> np - 1,
                                                  kfrom |-> S.kfrom, kto |-> S.k])
                      ELSE S.seqs,
             sfrom |-> IF fin THEN np ELSE S.sfrom,
             kfrom |-> IF fin THEN S.k + 1 ELSE S.kfrom,
             sstart |-> IF fin THEN <<>> ELSE IF vis /\ S.sstart = <<>> THEN <<Trim(e.r.addr)>> ELSE S.sstart,
             inseq |-> IF vis THEN ~e.r.es ELSE S.inseq]

(* byte-level step: decode at S.pos and apply (used by trace validation)   *)
Step(H, b, S) ==
    IF S.pos > Len(b) THEN [S EXCEPT !.end = "done"]
    ELSE LET d == Dec(H, b, S.pos) IN
         IF ~d.ok THEN [S EXCEPT !.end = "err"] ELSE Apply(H, S, d.ins, d.n)

(* The whole program decoded once: [list |-> Seq([ins, n]), ok]; ok = FALSE *)
(* if an instruction after the listed ones does not decode.                *)
RECURSIVE DecodeFrom(_, _, _, _)
DecodeFrom(H, b, pos, acc) ==
    IF pos > Len(b) THEN [list |-> acc, ok |-> TRUE]
    ELSE LET d == Dec(H, b, pos) IN
         IF ~d.ok THEN [list |-> acc, ok |-> FALSE]
         ELSE DecodeFrom(H, b, pos + d.n, TLCEval(Append(acc, [ins |-> d.ins, n |-> d.n])))
DecodeAll(H, b) == DecodeFrom(H, b, 1, <<>>)

(* run over a decoded program L (same result as iterating Step) *)
StepL(H, L, S) ==
    IF S.k > Len(L.list) THEN [S EXCEPT !.end = IF L.ok THEN "done" ELSE "err"]
    ELSE Apply(H, S, L.list[S.k].ins, L.list[S.k].n)
RECURSIVE RunFrom(_, _, _)
RunFrom(H, L, S) == IF S.end # "run" THEN S ELSE RunFrom(H, L, TLCEval(StepL(H, L, S)))
Run(H, L) == RunFrom(H, L, TLCEval(InitRun(H)))

(* CompleteLineProgram::resume_from: a fresh machine over the sequence's   *)
(* instructions.                                                           *)
Resume(H, L, seq) == Run(H, TLCEval([list |-> SubSeq(L.list, seq.kfrom, seq.kto), ok |-> TRUE]))

(*------------------------------------------------------------------------*)
(* Properties of a run                                                     *)
RowAddr(row) == ZExt(row[1], 8)
RowEs(row) == (row[6] \div 4) % 2 = 1
(* addresses never decrease within a sequence and fit the address size.    *)
(* (Before gimli 47b1cb1 an end_sequence row was swallowed in tombstone     *)
(* mode even after rows of the sequence had been returned, which broke     *)
(* this for "merged" runs; finding monotone:tombstone-swallows-end_sequence, *)
(* fixed.)                                                                 *)
Monotone(rows) == \A k \in 1..Len(rows) - 1 :
                     RowEs(rows[k]) \/ ULe(RowAddr(rows[k]), RowAddr(rows[k + 1]))
InRange(rows, asz) == \A k \in 1..Len(rows) : Len(rows[k][1]) <= asz

(* rows of a complete run that belong to some sequence: up to the last     *)
(* end_sequence row                                                        *)
RECURSIVE LastEs(_, _)
LastEs(rows, k) == IF k = 0 THEN 0 ELSE IF RowEs(rows[k]) THEN k ELSE LastEs(rows, k - 1)
(* the resumed run of every sequence of a complete run (<<>> if the run     *)
(* failed: sequences() then returns the error)                             *)
ResumedRuns(H, L, S) == IF S.end # "done" THEN <<>>
                        ELSE [k \in 1..Len(S.seqs) |-> Resume(H, L, S.seqs[k])]
RECURSIVE ConcatRows(_, _)
ConcatRows(RR, k) == IF k > Len(RR) THEN <<>> ELSE RR[k].rows \o ConcatRows(RR, k + 1)

(* S = Run(H, L), RR = ResumedRuns(H, L, S): resuming the sequences one     *)
(* after the other yields exactly the rows of the straight run (up to its  *)
(* last end_sequence row); every sequence ends with its only end_sequence  *)
(* row, whose address is the reported end; the reported start is the       *)
(* address of its first row (0 if the end_sequence row is the only one).   *)
SequencesConsistent(S, RR) ==
    S.end = "done" =>
      /\ ConcatRows(RR, 1) = SubSeq(S.rows, 1, LastEs(S.rows, Len(S.rows)))
      /\ \A k \in 1..Len(S.seqs) :
           LET rr == RR[k] IN
           /\ rr.end = "done" /\ Len(rr.rows) >= 1
           /\ RowEs(rr.rows[Len(rr.rows)]) /\ rr.rows[Len(rr.rows)][1] = S.seqs[k].end
           /\ \A m \in 1..Len(rr.rows) - 1 : ~RowEs(rr.rows[m])
           /\ (Len(rr.rows) >= 2 => S.seqs[k].start = rr.rows[1][1])
           /\ (Len(rr.rows) = 1 => S.seqs[k].start = <<>>)

(*------------------------------------------------------------------------*)
(* The DWARF 6.2 machine: exact arithmetic at 10 bytes (80 bits is enough  *)
(* for (2^64 + 2^64) * 2^8 + 2^64), no tombstone mode.  Result             *)
(* [wf, r, emit]; wf = FALSE: the program is not well formed here.         *)
(* Named assumptions about well-formedness (they are what gimli's          *)
(* tombstone heuristic relies on):                                         *)
(*   A1  DW_LNE_set_address never moves the address backwards inside a     *)
(*       sequence (DWARF 6.2.5: addresses in a sequence only increase);    *)
(*   A2  addresses 2^W-2 and 2^W-1 are reserved (tombstones) and never the *)
(*       operand of DW_LNE_set_address.                                    *)
WX == 10
StdRes(wf, r, emit) == [wf |-> wf, r |-> r, emit |-> emit]
StdOpAdvance(H, r, oa) ==
    LET sum == Add(ZExt(r.opi, WX), ZExt(oa, WX))
        qr  == DivModByte(sum, H.maxops)
        na  == Add(ZExt(r.addr, WX), MulByte(qr[1], H.mil, 0)) IN
    [wf |-> HighZero(na, H.asz), r |-> [r EXCEPT !.opi = Nat8(qr[2]), !.addr = Trunc(na, 8)]]
StdLineAdvance(line, inc) ==        \* <<wf, line'>>
    LET s == Add(ZExt(line, WX), SExt(inc, WX)) IN <<HighZero(s, 8), Trunc(s, 8)>>
MinI64 == <<0, 0, 0, 0, 0, 0, 0, 128>>

StdExec(H, r, ins) ==
    CASE ins.op = "special" ->
            LET adj == ins.opc - H.obase
                l   == StdLineAdvance(r.line, FromInt(H.lbase + (adj % H.lrange), 8))
                a   == StdOpAdvance(H, [r EXCEPT !.line = l[2]], Nat8(adj \div H.lrange)) IN
            StdRes(l[1] /\ a.wf, a.r, TRUE)
      [] ins.op = "advance_pc" -> LET a == StdOpAdvance(H, r, ins.v) IN StdRes(a.wf, a.r, FALSE)
      [] ins.op = "advance_line" ->
            LET l == StdLineAdvance(r.line, ins.v) IN
            StdRes(l[1], [r EXCEPT !.line = l[2]], FALSE)
      [] ins.op = "const_add_pc" ->
            LET a == StdOpAdvance(H, r, Nat8((255 - H.obase) \div H.lrange)) IN StdRes(a.wf, a.r, FALSE)
      [] ins.op = "fixed_advance_pc" ->
            LET na == Add(ZExt(r.addr, WX), ZExt(ins.v, WX)) IN
            StdRes(HighZero(na, H.asz), [r EXCEPT !.addr = Trunc(na, 8), !.opi = Z8], FALSE)
      [] ins.op = "set_address" ->
            StdRes(ULe(r.addr, ins.v) /\ ULt(ins.v, MinTomb(H.asz)),
                   [r EXCEPT !.addr = ins.v, !.opi = Z8], FALSE)
      [] OTHER -> LET e == ExecSimple(r, ins) IN StdRes(TRUE, e.r, e.emit)

(* DWARF 6.2.2 / 6.2.5.1 / 6.2.5.3: what happens to the registers after a  *)
(* row is appended                                                         *)
StdAfterRow(H, r) == IF r.es THEN InitRegs(H)
                     ELSE [r EXCEPT !.disc = Z8, !.bb = FALSE, !.pe = FALSE, !.eb = FALSE]

StdInit(H) == [k |-> 1, r |-> InitRegs(H), rows |-> <<>>, files |-> <<>>, wf |-> TRUE, end |-> "run"]
StdStepL(H, L, S) ==
    IF S.k > Len(L.list) THEN [S EXCEPT !.end = "done", !.wf = L.ok]     \* undecodable tail: not well formed
    ELSE LET ins == L.list[S.k].ins
             e   == StdExec(H, S.r, ins) IN
         IF ~e.wf THEN [S EXCEPT !.end = "done", !.wf = FALSE]
         ELSE [k |-> S.k + 1,
               r |-> IF e.emit THEN StdAfterRow(H, e.r) ELSE e.r,
               rows |-> IF e.emit THEN Append(S.rows, RowOf(e.r)) ELSE S.rows,
               files |-> IF ins.op = "define_file" THEN Append(S.files, FileOf(ins)) ELSE S.files,
               wf |-> TRUE, end |-> "run"]
RECURSIVE StdRunFrom(_, _, _)
StdRunFrom(H, L, S) == IF S.end # "run" THEN S ELSE StdRunFrom(H, L, TLCEval(StdStepL(H, L, S)))
StdRun(H, L) == StdRunFrom(H, L, TLCEval(StdInit(H)))

(* The lemma binding the two machines: on a well-formed program gimli's    *)
(* machine never enters tombstone mode, never fails, and produces exactly  *)
(* the DWARF machine's rows and file entries.                              *)
(* g = Run(H, L), s = StdRun(H, L) for the decoded program L *)
AsCodedEqualsStd(g, s) ==
    s.wf => g.end = "done" /\ g.rows = s.rows /\ g.files = s.files /\ ~g.r.tomb

(*------------------------------------------------------------------------*)
(* Header encoder, versions 2-5.                                           *)
(* T (tables):                                                             *)
(*   v2-4: [dirs |-> Seq(name), files |-> Seq(<<name, dir, mtime, size>>)] *)
(*         (numbers as BV8)                                                *)
(*   v5  : [dfmt, dirs, ffmt, files]: formats are Seq(<<content type,      *)
(*         form>>) (BV8 / Nat), entries are Seq(Seq(value)) aligned with   *)
(*         the format; a value is bytes (string / block forms) or BV8.     *)
F_block2 == 3   F_block4 == 4   F_data2 == 5   F_data4 == 6   F_data8 == 7   F_string == 8
F_block == 9    F_block1 == 10  F_data1 == 11  F_flag == 12   F_sdata == 13  F_strp == 14
F_udata == 15   F_sec_offset == 23  F_strx == 26  F_strp_sup == 29  F_data16 == 30  F_line_strp == 31
F_strx1 == 37   F_strx2 == 38   F_strx3 == 39  F_strx4 == 40
OffsetForms == {F_sec_offset, F_strp, F_strp_sup, F_line_strp}
KnownForms == {F_block2, F_block4, F_data2, F_data4, F_data8, F_string, F_block, F_block1, F_data1,
               F_flag, F_sdata, F_strp, F_udata, F_sec_offset, F_strx, F_strp_sup, F_data16,
               F_line_strp, F_strx1, F_strx2, F_strx3, F_strx4}

EncForm(H, form, val) ==
    LET osz == IF H.fmt = 64 THEN 8 ELSE 4 IN
    CASE form = F_string -> val \o <<0>>
      [] form \in OffsetForms -> Lay(Trunc(val, osz), H.le)
      [] form = F_udata \/ form = F_strx -> EncU(val)
      [] form = F_sdata -> EncS(val)
      [] form = F_data1 \/ form = F_flag \/ form = F_strx1 -> <<val[1]>>
      [] form = F_data2 \/ form = F_strx2 -> Lay(Trunc(val, 2), H.le)
      [] form = F_strx3 -> Lay(Trunc(val, 3), H.le)
      [] form = F_data4 \/ form = F_strx4 -> Lay(Trunc(val, 4), H.le)
      [] form = F_data8 -> Lay(val, H.le)
      [] form = F_data16 -> val
      [] form = F_block -> EncU(Nat8(Len(val))) \o val
      [] form = F_block1 -> <<Len(val)>> \o val
      [] form = F_block2 -> Field(Len(val), 2, H.le) \o val
      [] form = F_block4 -> Field(Len(val), 4, H.le) \o val

(* a numeric value restricted to what the form can carry *)
FormWidth(H, form) ==
    CASE form \in OffsetForms -> IF H.fmt = 64 THEN 8 ELSE 4
      [] form \in {F_data1, F_flag, F_strx1} -> 1
      [] form \in {F_data2, F_strx2} -> 2
      [] form = F_strx3 -> 3
      [] form \in {F_data4, F_strx4} -> 4
      [] OTHER -> 8
Dom(H, form, val) == ZExt(Trunc(val, FormWidth(H, form)), 8)

(* the attribute value a reader reports for a form: <<kind, payload>> *)
AttrOf(H, form, val) ==
    CASE form = F_string -> <<"string", val>>
      [] form = F_line_strp -> <<"line_strp", Trim(Dom(H, form, val))>>
      [] form = F_strp -> <<"strp", Trim(Dom(H, form, val))>>
      [] form = F_strp_sup -> <<"strp_sup", Trim(Dom(H, form, val))>>
      [] form = F_sec_offset -> <<"sec_offset", Trim(Dom(H, form, val))>>
      [] form \in {F_strx, F_strx1, F_strx2, F_strx3, F_strx4} -> <<"strx", Trim(Dom(H, form, val))>>
      [] form = F_udata -> <<"udata", Trim(val)>>
      [] form = F_sdata -> <<"sdata", Trim(val)>>
      [] form = F_data1 -> <<"data1", Trim(Dom(H, form, val))>>
      [] form = F_data2 -> <<"data2", Trim(Dom(H, form, val))>>
      [] form = F_data4 -> <<"data4", Trim(Dom(H, form, val))>>
      [] form = F_data8 -> <<"data8", Trim(val)>>
      [] form = F_flag -> <<"flag", IF val[1] = 0 THEN <<>> ELSE <<1>>>>
      [] form \in {F_block, F_block1, F_block2, F_block4, F_data16} -> <<"block", val>>

(* value of a numeric attribute as an unsigned number, if it has one       *)
(* (DWARF: directory index, timestamp and size are unsigned constants)     *)
UdataOf(H, form, val) ==
    IF form \in {F_udata, F_data1, F_data2, F_data4, F_data8} THEN <<Trim(Dom(H, form, val))>>
    ELSE IF form = F_sdata /\ ~IsNeg(val) THEN <<Trim(val)>>
    ELSE <<>>

LNCT_path == 1  LNCT_dir == 2  LNCT_time == 3  LNCT_size == 4  LNCT_md5 == 5  LNCT_source == 8193

RECURSIVE EncFormats(_)
EncFormats(fmt) == IF fmt = <<>> THEN <<>>
                   ELSE EncU(Head(fmt)[1]) \o EncU(Nat8(Head(fmt)[2])) \o EncFormats(Tail(fmt))
RECURSIVE EncEntry(_, _, _)
EncEntry(H, fmt, vals) == IF fmt = <<>> THEN <<>>
                          ELSE EncForm(H, Head(fmt)[2], Head(vals)) \o EncEntry(H, Tail(fmt), Tail(vals))
EncTableV5(H, fmt, entries) ==
    <<Len(fmt)>> \o EncFormats(fmt) \o EncU(Nat8(Len(entries)))
    \o Flatten([k \in 1..Len(entries) |-> EncEntry(H, fmt, entries[k])])

EncTablesV4(T) ==
    Flatten([k \in 1..Len(T.dirs) |-> T.dirs[k] \o <<0>>]) \o <<0>>
    \o Flatten([k \in 1..Len(T.files) |->
                  T.files[k][1] \o <<0>> \o EncU(T.files[k][2]) \o EncU(T.files[k][3]) \o EncU(T.files[k][4])])
    \o <<0>>

(* meaning of the tables: what the directory / file accessors must report. *)
(* dir: attribute; file: <<path attr, dir index, time, size, md5, source>>  *)
(* with absent optional fields as <<>> (reported as 0 / zero md5 / none).   *)
RECURSIVE LastOf(_, _, _, _)
LastOf(fmt, vals, ct, k) ==      \* index of the last format entry with content type ct, 0 if none
    IF k = 0 THEN 0 ELSE IF fmt[k][1] = Nat8(ct) THEN k ELSE LastOf(fmt, vals, ct, k - 1)
(* numeric field: the last entry of that content type that has an unsigned *)
(* value (parse_file_v5 keeps the previous value when udata_value is None) *)
RECURSIVE NumFieldFrom(_, _, _, _, _)
NumFieldFrom(H, fmt, vals, ct, k) ==
    IF k = 0 THEN <<>>
    ELSE LET u == IF fmt[k][1] = Nat8(ct) THEN UdataOf(H, fmt[k][2], vals[k]) ELSE <<>> IN
         IF u # <<>> THEN u[1] ELSE NumFieldFrom(H, fmt, vals, ct, k - 1)
NumField(H, fmt, vals, ct) == NumFieldFrom(H, fmt, vals, ct, Len(fmt))
DirMeaningV5(H, fmt, vals) == LET k == LastOf(fmt, vals, LNCT_path, Len(fmt)) IN AttrOf(H, fmt[k][2], vals[k])
(* md5: every DW_LNCT_MD5 entry that is a 16-byte block overwrites *)
RECURSIVE Md5Of(_, _, _, _)
Md5Of(H, fmt, vals, k) ==
    IF k = 0 THEN <<>>
    ELSE IF fmt[k][1] = Nat8(LNCT_md5) /\ AttrOf(H, fmt[k][2], vals[k])[1] = "block" /\ Len(vals[k]) = 16
         THEN vals[k] ELSE Md5Of(H, fmt, vals, k - 1)
FileMeaningV5(H, fmt, vals) ==
    LET p == LastOf(fmt, vals, LNCT_path, Len(fmt))
        s == LastOf(fmt, vals, LNCT_source, Len(fmt)) IN
    <<AttrOf(H, fmt[p][2], vals[p]), NumField(H, fmt, vals, LNCT_dir), NumField(H, fmt, vals, LNCT_time),
      NumField(H, fmt, vals, LNCT_size), Md5Of(H, fmt, vals, Len(fmt)),
      IF s = 0 THEN <<>> ELSE AttrOf(H, fmt[s][2], vals[s])>>
FileMeaningV4(f) == <<<<"string", f[1]>>, Trim(f[2]), Trim(f[3]), Trim(f[4]), <<>>, <<>>>>
(* a define_file entry (FileOf) in the same shape *)
FileMeaningDef(f) == <<<<"string", f[1]>>, f[2], f[3], f[4], <<>>, <<>>>>

DirMeanings(H, T) == IF H.ver <= 4 THEN [k \in 1..Len(T.dirs) |-> <<"string", T.dirs[k]>>]
                     ELSE [k \in 1..Len(T.dirs) |-> DirMeaningV5(H, T.dfmt, T.dirs[k])]
FileMeanings(H, T) == IF H.ver <= 4 THEN [k \in 1..Len(T.files) |-> FileMeaningV4(T.files[k])]
                      ELSE [k \in 1..Len(T.files) |-> FileMeaningV5(H, T.ffmt, T.files[k])]

(* a format is acceptable to the reader iff it has exactly one path entry  *)
(* and only known forms (DWARF 6.2.4.1 requires the path; unknown forms    *)
(* cannot be skipped)                                                      *)
FormatOk(fmt) == /\ Cardinality({k \in 1..Len(fmt) : fmt[k][1] = Nat8(LNCT_path)}) = 1
                 /\ \A k \in 1..Len(fmt) : fmt[k][2] \in KnownForms

(* everything between the unit length and the program: constant per (H, T) *)
EncHeaderBody(H, T) ==
    LET osz  == IF H.fmt = 64 THEN 8 ELSE 4
        body == <<H.mil>> \o (IF H.ver >= 4 THEN <<H.maxops>> ELSE <<>>)
                \o <<IF H.dis THEN 1 ELSE 0, (H.lbase + 256) % 256, H.lrange, H.obase>>
                \o H.oplens
                \o (IF H.ver <= 4 THEN EncTablesV4(T)
                    ELSE EncTableV5(H, T.dfmt, T.dirs) \o EncTableV5(H, T.ffmt, T.files))
    IN Field(H.ver, 2, H.le) \o (IF H.ver >= 5 THEN <<H.asz, 0>> ELSE <<>>)
       \o Field(Len(body), osz, H.le) \o body
EncUnit(H, hdr, prog) ==
    LET n == Len(hdr) + Len(prog)
    IN (IF H.fmt = 64 THEN <<255, 255, 255, 255>> \o Field(n, 8, H.le) ELSE Field(n, 4, H.le))
       \o hdr \o prog
EncLineHeader(H, T, prog) == EncUnit(H, EncHeaderBody(H, T), prog)
=============================================================================
