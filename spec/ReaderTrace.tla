---------------------------- MODULE ReaderTrace ----------------------------
(***************************************************************************)
(* Trace validation for C10: recorded histories of Reader operations (one  *)
(* history per reader kind, 8 handle slots, buffers of 0..4096 bytes) must *)
(* be behaviours of Reader.tla.  Every event carries the operation, the    *)
(* result, and the projection of the handle operated on and of the slot    *)
(* that received a returned reader:                                        *)
(*   <<offset_from(section), len, bytes, ptr of to_slice relative to the   *)
(*     buffer, section.lookup_offset_id(offset_id()), borrowed>>           *)
(* Byte strings longer than 48 bytes are abbreviated <<len, first 16,      *)
(* last 16>> by the recorder; the spec abbreviates its own bytes the same  *)
(* way (CB).  -1 encodes None / outside the buffer, -2 a panic.            *)
(*                                                                         *)
(* Whole-section parses: `Section` loads a section, `View` events claim    *)
(* that a reader handed back by a parser (attribute block, expression,     *)
(* string, line-program file name, CFI instruction block ...) is the view  *)
(* [off, off+len) of that section; `Parse` events carry the structural     *)
(* dump produced under one reader kind, which must be identical for all    *)
(* kinds (the first kind's dump is remembered in `dump`).                  *)
(***************************************************************************)
EXTENDS Reader, TLC, Json, IOUtils
VARIABLES l, kind, dump
Rec == ndJsonDeserialize(IOEnv.TRACE)

Refcounted == {"EndianRcSlice", "EndianArcSlice", "EndianReaderCustom", "RelocateRc"}

CB(x) == IF Len(x) <= 48 THEN <<Len(x), x, <<>>>>
         ELSE <<Len(x), SubSeq(x, 1, 16), SubSeq(x, Len(x) - 15, Len(x))>>
CProj(b, w) == IF ~w.live THEN <<>> ELSE <<w.s, WLen(w), CB(Bytes(b, w)), w.s, w.s, TRUE>>
CRes(r) == IF "bytes" \in DOMAIN r THEN [r EXCEPT !.bytes = CB(@)] ELSE r

IsEv(e) == l <= Len(Rec) /\ Rec[l].ev = e /\ l' = l + 1

Reset == /\ IsEv("Reset")
         /\ LET r == Rec[l] IN
            /\ buf' = r.buf /\ le' = r.le /\ hs' = InitHs(r.buf, r.mh) /\ res' = OkUnit
            /\ kind' = r.kind
            /\ r.p = CProj(r.buf, RootW(r.buf))
            /\ (r.kind \in Refcounted => r.refs = 2)
         /\ UNCHANGED dump

TraceOp(name) ==
    /\ IsEv(name)
    /\ LET r == Rec[l]
           o == O(r.o[1], r.o[2], r.o[3], r.o[4], r.o[5]) IN
       /\ o.op = name
       /\ Do(o)
       /\ r.r = CRes(res')
       /\ r.ph = (IF o.h = 0 THEN <<>> ELSE CProj(buf, hs'[o.h]))
       /\ r.pd = (IF o.d = 0 THEN <<>> ELSE CProj(buf, hs'[o.d]))
       /\ (kind \in Refcounted => r.refs = Refs(hs'))
    /\ UNCHANGED <<kind, dump>>

(* all readers dropped: no reference left, buffer freed exactly once *)
Teardown == /\ IsEv("Teardown")
            /\ (kind \in Refcounted => Rec[l].td = <<0, 1>>)
            /\ UNCHANGED <<rvars, kind, dump>>

(*------------------------- whole-section parses --------------------------*)
Section == /\ IsEv("Section")
           /\ buf' = Rec[l].buf /\ kind' = Rec[l].kind
           /\ UNCHANGED <<le, hs, res, dump>>
(* a reader handed back by a parser is a zero-copy view of the section *)
View == /\ IsEv("View")
        /\ LET r == Rec[l] IN
           /\ 0 <= r.off /\ r.off + r.len <= Len(buf)
           /\ r.bytes = CB(SubSeq(buf, r.off + 1, r.off + r.len))
           /\ r.ptr = r.off /\ r.borrowed /\ r.idpos = r.off
        /\ UNCHANGED <<rvars, kind, dump>>
(* the dump of input `id` is the same under every reader kind *)
Parse == /\ IsEv("Parse")
         /\ LET r == Rec[l] IN
            IF r.first THEN dump' = r.dump ELSE (r.dump = dump /\ dump' = dump)
         /\ UNCHANGED <<rvars, kind>>

Init == /\ l = 1 /\ kind = "" /\ dump = <<>>
        /\ buf = <<>> /\ le = TRUE /\ hs = InitHs(<<>>, 1) /\ res = OkUnit
Next == \/ Reset \/ Teardown \/ Section \/ View \/ Parse
        \/ \E name \in TraitOps \cup RangeOps : TraceOp(name)

Inv == WindowInv /\ EmpInv

Accepted == LET d == TLCGet("stats").diameter IN
            IF d - 1 = Len(Rec) THEN TRUE
            ELSE Print(<<"UNMATCHED", d, ToJson(Rec[d])>>, FALSE)
=============================================================================
