---------------------------- MODULE ReaderTrace ----------------------------
(***************************************************************************)
(* Trace validation for C10: recorded histories of Reader operations (one  *)
(* history per reader kind, 8 handle slots, buffers of 0..4096 bytes) must *)
(* be behaviours of Reader.tla.  Every event carries the operation, the    *)
(* result, and the projection of the handle operated on and of the slot    *)
(* that received a returned reader:                                        *)
(*   <<offset_from(section), len, bytes, ptr of to_slice relative to the   *)
(*     buffer, section.lookup_offset_id(offset_id()), borrowed>>           *)
(* Byte strings longer than 48 bytes are abbreviated <<len, first 16,      *)
(* last 16>> by the recorder; the spec abbreviates its own bytes the same  *)
(* way (CB).  -1 encodes None / outside the buffer, -2 a panic.            *)
(*                                                                         *)
(* Whole-section parses: `Section` loads a section, `View` events claim    *)
(* that a reader handed back by a parser (attribute block, expression,     *)
(* string, line-program file name, CFI instruction block ...) is the view  *)
(* [off, off+len) of that section; `Parse` events carry the structural     *)
(* dump produced under one reader kind, which must be identical for all    *)
(* kinds (the first kind's dump is remembered in `dump`).                  *)
(***************************************************************************)
EXTENDS Reader, TLC, Json, IOUtils
(* The recorded buffer and the parse dump are NOT kept in the state: TLC   *)
(* handles a 4096-element tuple in every state very slowly (measured:      *)
(* 45 ms/state).  The state holds the index of the event that defined them *)
(* instead (ri, di); Reader's variable `buf` stays <<>> and the thin        *)
(* wrapper `Do` of Reader.tla is restated as TDo over TBuf -- Enabled and   *)
(* Step, i.e. the whole semantics, are Reader's.                            *)
VARIABLES l,     \* next event
          ri,    \* index of the Reset / Section event that loaded the current buffer
          di,    \* index of the first Parse event of the current input
          kind
Rec == ndJsonDeserialize(IOEnv.TRACE)
TBuf == IF ri = 0 THEN <<>> ELSE Rec[ri].buf
TDo(o) == /\ Enabled(TBuf, hs, o)
          /\ LET x == Step(TBuf, le, hs, o) IN hs' = x.hs /\ res' = x.res
          /\ UNCHANGED <<buf, le>>

Refcounted == {"EndianRcSlice", "EndianArcSlice", "EndianReaderCustom", "RelocateRc"}

CB(x) == IF Len(x) <= 48 THEN <<Len(x), x, <<>>>>
         ELSE <<Len(x), SubSeq(x, 1, 16), SubSeq(x, Len(x) - 15, Len(x))>>
CProj(b, w) == IF ~w.live THEN <<>> ELSE <<w.s, WLen(w), CB(Bytes(b, w)), w.s, w.s, TRUE>>
CRes(r) == IF "bytes" \in DOMAIN r THEN [r EXCEPT !.bytes = CB(@)] ELSE r

IsEv(e) == l <= Len(Rec) /\ Rec[l].ev = e /\ l' = l + 1

Reset == /\ IsEv("Reset")
         /\ LET r == Rec[l] IN
            /\ ri' = l /\ le' = r.le /\ buf' = buf /\ hs' = InitHs(r.buf, r.mh) /\ res' = OkUnit
            /\ kind' = r.kind
            /\ r.p = CProj(r.buf, RootW(r.buf))
            /\ (r.kind \in Refcounted => r.refs = 2)
         /\ UNCHANGED di

TraceOp(name) ==
    /\ IsEv(name)
    /\ UNCHANGED <<ri, di, kind>>
    /\ LET r == Rec[l]
           o == O(r.o[1], r.o[2], r.o[3], r.o[4], r.o[5]) IN
       /\ o.op = name
       /\ TDo(o)
       /\ r.r = CRes(res')
       /\ r.ph = (IF o.h = 0 THEN <<>> ELSE CProj(TBuf, hs'[o.h]))
       /\ r.pd = (IF o.d = 0 THEN <<>> ELSE CProj(TBuf, hs'[o.d]))
       /\ (kind \in Refcounted => r.refs = Refs(hs'))

(* all readers dropped: no reference left, buffer freed exactly once *)
Teardown == /\ IsEv("Teardown")
            /\ (kind \in Refcounted => Rec[l].td = <<0, 1>>)
            /\ UNCHANGED <<ri, di, kind, rvars>>

(*------------------------- whole-section parses --------------------------*)
Section == /\ IsEv("Section")
           /\ ri' = l /\ kind' = Rec[l].kind
           /\ hs' = InitHs(Rec[l].buf, 1) /\ res' = OkUnit
           /\ UNCHANGED <<buf, le, di>>
(* a reader handed back by a parser is a zero-copy view of the section *)
View == /\ IsEv("View")
        /\ LET r == Rec[l] IN
           /\ 0 <= r.off /\ r.off + r.len <= Len(TBuf)
           /\ r.bytes = CB(SubSeq(TBuf, r.off + 1, r.off + r.len))
           /\ r.ptr = r.off /\ r.borrowed /\ r.idpos = r.off
        /\ UNCHANGED <<ri, di, kind, rvars>>
(* the dump of one input is the same under every reader kind *)
Parse == /\ IsEv("Parse")
         /\ LET r == Rec[l] IN
            IF r.first THEN di' = l ELSE (di > 0 /\ r.dump = Rec[di].dump /\ di' = di)
         /\ UNCHANGED <<ri, kind, rvars>>

Init == /\ l = 1 /\ ri = 0 /\ di = 0 /\ kind = ""
        /\ buf = <<>> /\ le = TRUE /\ hs = InitHs(<<>>, 1) /\ res = OkUnit
Next == \/ Reset \/ Teardown \/ Section \/ View \/ Parse
        \/ \E name \in TraitOps \cup RangeOps : TraceOp(name)

Inv == (\A h \in DOMAIN hs : WindowOK(TBuf, hs[h])) /\ EmpInv

Accepted == LET d == TLCGet("stats").diameter IN
            IF d - 1 = Len(Rec) THEN TRUE
            ELSE Print(<<"UNMATCHED", d, ToJson(Rec[d])>>, FALSE)
=============================================================================
