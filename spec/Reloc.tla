------------------------------- MODULE Reloc -------------------------------
(***************************************************************************)
(* C18: relocation is transparent on the reading and the writing side.     *)
(*                                                                         *)
(* READ SIDE.  A section is a sequence of FIELDS, each tagged with a class *)
(*   addr       an address (DW_FORM_addr, DW_LNE_set_address, list         *)
(*              entries, FDE initial_location, DW_OP_addr ...)             *)
(*   secoffset  an offset into another (or the same) section               *)
(*   unitoffset a format-sized unit-relative offset (type-unit type_offset)*)
(*   addrlen    an address-sized length paired with an address (FDE        *)
(*              address_range, .debug_aranges length)                      *)
(*   plain      lengths, counts, versions, constants, LEB128, strings      *)
(* and the flag `rel`: whether a relocatable object may carry a relocation *)
(* on it (addr/secoffset fields except the list terminator / base-selector *)
(* markers).  RelocateReader semantics on top of Reader.tla: only          *)
(* read_address, read_offset, read_sized_offset consult the relocation map,*)
(* keyed by the section offset of the reader *before* the read;            *)
(* every other primitive returns the section bytes.                        *)
(*   Apply(fields, rels) = the section with the relocated fields rewritten *)
(*   Transparent: for every field, reading it with its class's primitive   *)
(*   through RelocRead(S, rels) = reading it plainly from Apply(S, rels).  *)
(* Schema rule (checked on the interposition log of the real parsers):     *)
(*   offsets read through relocatable primitives  =  offsets of the        *)
(*   addr/secoffset fields that were read; unitoffset/addrlen fields may   *)
(*   go either way (deliberate limit, see notes/C18.md).                   *)
(*                                                                         *)
(* WRITE SIDE.  write::RelocateWriter as coded in src/write/relocate.rs:   *)
(* write_address(Symbol), write_offset, write_offset_at and                *)
(* write_eh_pointer(Symbol) record a relocation and write zeros;           *)
(* constants and all other primitives write through.                       *)
(*   ApplyW(recorded bytes, relocations, symbol values) = direct bytes.    *)
(* All encoders are little endian.                                         *)
(***************************************************************************)
EXTENDS Reader

Classes == {"addr", "secoffset", "unitoffset", "addrlen", "plain"}
F(n, c, b, r) == [name |-> n, cls |-> c, bytes |-> b, rel |-> r]
P(n, b) == F(n, "plain", b, FALSE)
U(v, w) == FromNat(v, w)

RECURSIVE Cat(_)
Cat(fs) == IF fs = <<>> THEN <<>> ELSE Head(fs).bytes \o Cat(Tail(fs))
RECURSIVE OffAt(_, _)
OffAt(fs, i) == IF i = 1 THEN 0 ELSE OffAt(fs, i - 1) + Len(fs[i - 1].bytes)
(* the field map: one entry per field, zero-length fields dropped *)
FieldMap(fs) == [i \in DOMAIN fs |-> [off |-> OffAt(fs, i), len |-> Len(fs[i].bytes),
                                      cls |-> fs[i].cls, name |-> fs[i].name, rel |-> fs[i].rel]]
RelIdx(fs) == {i \in DOMAIN fs : fs[i].rel}

(*--------------------------- relocation semantics ------------------------*)
(* A relocation set: function from field index to an addend (BV of the     *)
(* field's width).  The linker's arithmetic: (value + addend) mod 2^(8w).  *)
RelocVal(v, add) == Add(v, add)
Apply(fs, rels) == [i \in DOMAIN fs |->
                      IF i \in DOMAIN rels THEN [fs[i] EXCEPT !.bytes = RelocVal(@, rels[i])] ELSE fs[i]]
(* the map handed to the Relocate implementation, keyed by section offset *)
RelMap(fs, rels) == {[off |-> OffAt(fs, i), w |-> Len(fs[i].bytes), add |-> ZExt(rels[i], 8)] : i \in DOMAIN rels}

(* the primitive that gimli's parsers are expected to use for a field *)
PrimOf(f) == IF f.cls = "addr" \/ f.cls = "addrlen" THEN "read_address"
             ELSE IF f.cls \in {"secoffset", "unitoffset"} THEN "read_offset"
             ELSE "read_uint"
RelocPrims == {"read_address", "read_offset", "read_sized_offset"}

(* RelocateReader::read_* : inner read, then relocate(offset before the read, value) *)
RelocRead(b, relmap, t, o) ==
    LET x == Step(b, TRUE, t, o)
        hit == {r \in relmap : r.off = t[o.h].s} IN
    IF o.op \in RelocPrims /\ x.res.k = "ok" /\ hit # {}
    THEN LET r == CHOOSE r \in hit : TRUE IN
         [x EXCEPT !.res = OkV(ZExt(Add(Trunc(x.res.v, r.w), Trunc(r.add, r.w)), 8))]
    ELSE x

(* Parse(RelocReader(S, rels)) = Parse(Apply(S, rels)), primitive by primitive *)
Transparent(fs, rels) ==
    LET S  == Cat(fs)
        S2 == Cat(Apply(fs, rels))
        rm == RelMap(fs, rels) IN
    /\ Len(S) = Len(S2)
    /\ \A i \in DOMAIN fs :
         Len(fs[i].bytes) \in {1, 2, 4, 8} =>
           LET t == <<Mk(OffAt(fs, i), Len(S), FALSE)>>
               o == O(PrimOf(fs[i]), 1, Len(fs[i].bytes), 0, 0) IN
           /\ RelocRead(S, rm, t, o) = Step(S2, TRUE, t, o)
           (* plain primitives never see a relocation *)
           /\ RelocRead(S, rm, t, O("read_uint", 1, Len(fs[i].bytes), 0, 0))
                = Step(S, TRUE, t, O("read_uint", 1, Len(fs[i].bytes), 0, 0))

(* what the Relocate callbacks must be asked and answer for the relocated fields *)
ExpectCalls(fs, rels) == {[off |-> OffAt(fs, i), vin |-> ZExt(fs[i].bytes, 8),
                           vout |-> ZExt(RelocVal(fs[i].bytes, rels[i]), 8)] : i \in DOMAIN rels}

(*================================ encoders ================================*)
(* -- .debug_abbrev for the unit below (no relocatable field) -- *)
AbbrevTable(ver) ==
    LET secoff == IF ver >= 4 THEN 23 ELSE 6          \* DW_FORM_sec_offset / legacy DW_FORM_data4
        loc    == IF ver >= 4 THEN 24 ELSE 10 IN      \* DW_FORM_exprloc / DW_FORM_block1
    <<1, 17, 1,   17, 1,   16, secoff,   3, 14,   19, 5,   85, secoff,   0, 0,
      2, 52, 0,   73, 16,   28, 6,   59, 15,   2, loc,   0, 0,
      0>>

(* -- a unit: header + CU DIE (addr, sec_offset, strp, data2, ranges) + a   *)
(*    variable DIE (ref_addr, data4, udata, location expression DW_OP_addr) *)
(* ver 2..4: length version abbrev_offset address_size                      *)
(* ver 5:    length version unit_type address_size abbrev_offset            *)
(*           [DW_UT_type: type_signature type_offset]                       *)
Unit(ver, asz, tu) ==
    LET refw == IF ver = 2 THEN asz ELSE 4
        hdr  == IF ver <= 4
                THEN <<P("version", U(ver, 2)), F("debug_abbrev_offset", "secoffset", U(0, 4), TRUE),
                       P("address_size", <<asz>>)>>
                ELSE <<P("version", U(5, 2)), P("unit_type", <<IF tu THEN 2 ELSE 1>>), P("address_size", <<asz>>),
                       F("debug_abbrev_offset", "secoffset", U(0, 4), TRUE)>>
                     \o (IF tu THEN <<P("type_signature", <<1, 2, 3, 4, 5, 6, 7, 8>>),
                                      F("type_offset", "unitoffset", U(29, 4), FALSE)>> ELSE <<>>)
        dies == <<P("abbrev1", <<1>>),
                  F("low_pc", "addr", U(4096, asz), TRUE),
                  F("stmt_list", "secoffset", U(0, 4), TRUE),
                  F("name_strp", "secoffset", U(5, 4), TRUE),
                  P("language", U(12, 2)),
                  F("ranges", "secoffset", U(16, 4), TRUE),
                  P("abbrev2", <<2>>),
                  F("type_ref_addr", "secoffset", U(11, refw), TRUE),
                  P("const_value_data4", U(305419896, 4)),
                  P("decl_line_udata", <<77>>),
                  P("loc_len", <<1 + asz>>), P("DW_OP_addr", <<3>>),
                  F("loc_addr", "addr", U(8192, asz), TRUE),
                  P("null", <<0>>)>>
        body == hdr \o dies
    IN <<P("unit_length", U(Len(Cat(body)), 4))>> \o body

(* -- the same unit in the 64-BIT DWARF FORMAT: initial length 0xffffffff +  *)
(*    8-byte length, every section offset 8 bytes wide.                      *)
(*    ver 2/3: legacy DW_FORM_data8 (7) section offsets on DW_AT_stmt_list,  *)
(*    DW_AT_ranges, DW_AT_macro_info and DW_AT_location (location list       *)
(*    reference); ver 4/5: DW_FORM_sec_offset; DW_FORM_strp, DW_FORM_ref_addr*)
(*    (address-sized in ver 2) and debug_abbrev_offset are 8-byte offsets;   *)
(*    ver 5 adds DW_AT_comp_dir as DW_FORM_line_strp and uses DW_AT_macros.  *)
(*    DW_AT_const_value as DW_FORM_data8 is a plain 8-byte constant.         *)
AbbrevTable64(ver) ==
    LET secoff == IF ver >= 4 THEN 23 ELSE 7
        loc    == IF ver >= 4 THEN 24 ELSE 10
        macro  == IF ver >= 5 THEN <<121, 23>> ELSE <<67, secoff>>
        cdir   == IF ver >= 5 THEN <<27, 31>> ELSE <<>> IN
    <<1, 17, 1,   17, 1,   16, secoff,   3, 14,   19, 5,   85, secoff>> \o macro \o cdir \o <<0, 0,
      2, 52, 0,   73, 16,   28, 7,   59, 15,   2, loc,   0, 0,
      3, 52, 0,   2, secoff,   59, 15,   0, 0,
      0>>
Unit64(ver, asz, tu) ==
    LET refw == IF ver = 2 THEN asz ELSE 8
        hdr  == IF ver <= 4
                THEN <<P("version", U(ver, 2)), F("debug_abbrev_offset", "secoffset", U(0, 8), TRUE),
                       P("address_size", <<asz>>)>>
                ELSE <<P("version", U(5, 2)), P("unit_type", <<IF tu THEN 2 ELSE 1>>), P("address_size", <<asz>>),
                       F("debug_abbrev_offset", "secoffset", U(0, 8), TRUE)>>
                     \o (IF tu THEN <<P("type_signature", <<1, 2, 3, 4, 5, 6, 7, 8>>),
                                      F("type_offset", "unitoffset", U(41, 8), FALSE)>> ELSE <<>>)
        dies == <<P("abbrev1", <<1>>),
                  F("low_pc", "addr", U(4096, asz), TRUE),
                  F("stmt_list", "secoffset", U(0, 8), TRUE),
                  F("name_strp", "secoffset", U(5, 8), TRUE),
                  P("language", U(12, 2)),
                  F("ranges", "secoffset", U(16, 8), TRUE),
                  F(IF ver >= 5 THEN "macros" ELSE "macro_info", "secoffset", U(32, 8), TRUE)>>
                \o (IF ver >= 5 THEN <<F("comp_dir_line_strp", "secoffset", U(3, 8), TRUE)>> ELSE <<>>)
                \o <<P("abbrev2", <<2>>),
                  F("type_ref_addr", "secoffset", U(23, refw), TRUE),
                  P("const_value_data8", <<239, 205, 171, 137, 103, 69, 35, 1>>),
                  P("decl_line_udata", <<77>>),
                  P("loc_len", <<1 + asz>>), P("DW_OP_addr", <<3>>),
                  F("loc_addr", "addr", U(8192, asz), TRUE),
                  P("abbrev3", <<3>>),
                  F("location_list", "secoffset", U(64, 8), TRUE),
                  P("decl_line_udata", <<78>>),
                  P("null", <<0>>)>>
        body == hdr \o dies
    IN <<P("escape_0xffffffff", Ones(4)), P("unit_length", U(Len(Cat(body)), 8))>> \o body

(* -- EXPRESSION OPERANDS.  A minimal unit (32- or 64-bit format) whose only  *)
(*    DIE carries DW_AT_location (exprloc, or block1 before version 4) with   *)
(*    one operation per operand class:                                        *)
(*      DW_OP_addr                 addr                                       *)
(*      DW_OP_call_ref             secoffset (.debug_info), format-sized      *)
(*      DW_OP_implicit_pointer     secoffset, format-sized (address-sized in  *)
(*      DW_OP_GNU_implicit_pointer   version 2, read with read_address) + SLEB*)
(*      DW_OP_GNU_variable_value   secoffset, format-sized                    *)
(*      DW_OP_addrx                plain (ULEB index into .debug_addr)        *)
(*      DW_OP_const_type           plain (ULEB unit offset, size, value)      *)
(*      DW_OP_call4 / DW_OP_call2  plain (unit-relative offsets)              *)
AbbrevExpr(ver) == <<1, 52, 0,   2, IF ver >= 4 THEN 24 ELSE 10,   0, 0,   0>>
ExprUnit(ver, asz, fmt) ==
    LET w    == IF fmt = 64 THEN 8 ELSE 4
        ipw  == IF ver = 2 THEN asz ELSE w
        hdr  == IF ver <= 4
                THEN <<P("version", U(ver, 2)), F("debug_abbrev_offset", "secoffset", U(0, w), TRUE),
                       P("address_size", <<asz>>)>>
                ELSE <<P("version", U(5, 2)), P("unit_type", <<1>>), P("address_size", <<asz>>),
                       F("debug_abbrev_offset", "secoffset", U(0, w), TRUE)>>
        ops  == <<P("DW_OP_addr", <<3>>), F("op_addr", "addr", U(8192, asz), TRUE),
                  P("DW_OP_call_ref", <<154>>), F("op_call_ref", "secoffset", U(11, w), TRUE),
                  P("DW_OP_implicit_pointer", <<160>>), F("op_implicit_pointer", "secoffset", U(12, ipw), TRUE),
                  P("implicit_pointer_byte_offset", <<2>>),
                  P("DW_OP_GNU_implicit_pointer", <<242>>), F("op_GNU_implicit_pointer", "secoffset", U(13, ipw), TRUE),
                  P("GNU_implicit_pointer_byte_offset", <<126>>),
                  P("DW_OP_GNU_variable_value", <<253>>), F("op_GNU_variable_value", "secoffset", U(14, w), TRUE),
                  P("DW_OP_addrx", <<161>>), P("op_addrx_index", <<5>>),
                  P("DW_OP_const_type", <<164>>), P("op_const_type_operands", <<9, 1, 200>>),
                  P("DW_OP_call4", <<153>>), P("op_call4", U(17, 4)),
                  P("DW_OP_call2", <<152>>), P("op_call2", U(18, 2))>>
        dies == <<P("abbrev1", <<1>>), P("loc_len", <<Len(Cat(ops))>>)>> \o ops
        body == hdr \o dies
    IN (IF fmt = 64 THEN <<P("escape_0xffffffff", Ones(4)), P("unit_length", U(Len(Cat(body)), 8))>>
        ELSE <<P("unit_length", U(Len(Cat(body)), 4))>>) \o body

(* -- .debug_line, version 4: NUL-terminated tables, DW_LNE_set_address -- *)
LineProgram(asz) ==
    <<P("set_address_op", <<0, 1 + asz, 2>>), F("set_address", "addr", U(4096, asz), TRUE),
      P("special", <<20>>), P("advance_pc", <<2, 3>>), P("special", <<33>>),
      P("set_address_op", <<0, 1 + asz, 2>>), F("set_address2", "addr", U(4352, asz), TRUE),
      P("copy", <<1>>), P("advance_pc", <<2, 4>>), P("end_sequence", <<0, 1, 1>>)>>
LineV4(asz) ==
    LET tables == <<P("std_opcode_lengths", <<0, 1, 1, 1, 1, 0, 0, 0, 1, 0, 0, 1>>),
                    P("include_dirs", <<100, 0, 0>>), P("file_names", <<97, 46, 99, 0, 1, 0, 0, 0>>)>>
        pre    == <<P("min_inst_len", <<1>>), P("max_ops", <<1>>), P("default_is_stmt", <<1>>),
                    P("line_base", <<251>>), P("line_range", <<14>>), P("opcode_base", <<13>>)>>
        hbody  == pre \o tables
        body   == <<P("version", U(4, 2)), P("header_length", U(Len(Cat(hbody)), 4))>> \o hbody \o LineProgram(asz)
    IN <<P("unit_length", U(Len(Cat(body)), 4))>> \o body
(* -- version 5: entry formats; directory / file paths as DW_FORM_line_strp  *)
(*    (0x1f) or DW_FORM_strp (0x0e) section offsets                          *)
LineV5(asz, strform) ==
    LET pre    == <<P("min_inst_len", <<1>>), P("max_ops", <<1>>), P("default_is_stmt", <<1>>),
                    P("line_base", <<251>>), P("line_range", <<14>>), P("opcode_base", <<13>>),
                    P("std_opcode_lengths", <<0, 1, 1, 1, 1, 0, 0, 0, 1, 0, 0, 1>>)>>
        dirs   == <<P("dir_format_count", <<1>>), P("dir_format", <<1, strform>>), P("dir_count", <<2>>),
                    F("dir0_path", "secoffset", U(0, 4), TRUE), F("dir1_path", "secoffset", U(4, 4), TRUE)>>
        files  == <<P("file_format_count", <<2>>), P("file_format", <<1, strform, 2, 15>>), P("file_count", <<2>>),
                    F("file0_path", "secoffset", U(8, 4), TRUE), P("file0_dir", <<0>>),
                    F("file1_path", "secoffset", U(12, 4), TRUE), P("file1_dir", <<1>>)>>
        hbody  == pre \o dirs \o files
        body   == <<P("version", U(5, 2)), P("address_size", <<asz>>), P("seg_sel_size", <<0>>),
                    P("header_length", U(Len(Cat(hbody)), 4))>> \o hbody \o LineProgram(asz)
    IN <<P("unit_length", U(Len(Cat(body)), 4))>> \o body
StrSection == <<100, 48, 48, 0, 100, 49, 49, 0, 102, 48, 48, 0, 102, 49, 49, 0, 0, 0, 0, 0>>

(* -- .debug_ranges (DWARF <= 4): address pairs, base selector, terminator -- *)
Ranges(asz) ==
    <<F("r0_begin", "addr", U(16, asz), TRUE), F("r0_end", "addr", U(32, asz), TRUE),
      F("base_selector", "addr", Ones(asz), FALSE), F("base", "addr", U(4096, asz), TRUE),
      F("r1_begin", "addr", U(64, asz), TRUE), F("r1_end", "addr", U(80, asz), TRUE),
      F("end_begin", "addr", Zero(asz), FALSE), F("end_end", "addr", Zero(asz), FALSE)>>
(* -- .debug_rnglists (DWARF 5) -- *)
RngLists(asz) ==
    LET body == <<P("version", U(5, 2)), P("address_size", <<asz>>), P("seg_sel_size", <<0>>),
                  P("offset_entry_count", U(0, 4)),
                  P("DW_RLE_base_address", <<5>>), F("base", "addr", U(4096, asz), TRUE),
                  P("DW_RLE_offset_pair", <<4, 16, 32>>),
                  P("DW_RLE_start_end", <<6>>), F("se_begin", "addr", U(8192, asz), TRUE),
                  F("se_end", "addr", U(8448, asz), TRUE),
                  P("DW_RLE_start_length", <<7>>), F("sl_begin", "addr", U(12288, asz), TRUE), P("sl_len", <<64>>),
                  P("DW_RLE_end_of_list", <<0>>)>>
    IN <<P("unit_length", U(Len(Cat(body)), 4))>> \o body

(* -- .debug_frame: two CIEs (version 1) and an FDE pointing at the second -- *)
Cie(ra) ==
    LET body == <<P("cie_id", Ones(4)), P("version", <<1>>), P("augmentation", <<0>>),
                  P("code_align", <<1>>), P("data_align", <<120>>), P("return_address_register", <<ra>>),
                  P("instructions", <<12, 7, 8, 0, 0, 0>>)>>
    IN <<P("length", U(Len(Cat(body)), 4))>> \o body
Frame(asz) ==
    LET c1 == Cie(16)
        c2 == Cie(17)
        fb == <<F("cie_pointer", "secoffset", U(Len(Cat(c1)), 4), TRUE),
                F("initial_location", "addr", U(4096, asz), TRUE),
                F("address_range", "addrlen", U(256, asz), FALSE),
                P("instructions", IF asz = 4 THEN <<66, 14, 16, 0>> ELSE <<66, 14, 16, 0, 0, 0, 0, 0>>)>>
    IN c1 \o c2 \o <<P("length", U(Len(Cat(fb)), 4))>> \o fb

(* -- .eh_frame / .eh_frame_hdr: ENCODED POINTERS.  Every encoded-pointer     *)
(*    slot is written in pointer format f (low nibble of a DW_EH_PE value):   *)
(*      0 absptr (address-sized)                       -> class addr          *)
(*      1 uleb128, 2/3/4 udata2/4/8, 9 sleb128, 10/11/12 sdata2/4/8 -> plain  *)
(*    (gimli decodes an absptr-format value with read_address and every other *)
(*    format with a plain integer / LEB primitive; relocations are therefore  *)
(*    placed on absptr slots only -- deliberate limit, see notes/C18.md).     *)
(*    The FDE address_range is an encoded *value* of the same format: class   *)
(*    addrlen when absptr.  `app` is the application nibble of the FDE        *)
(*    pointer encoding ('R'): 0 absptr or 16 pcrel.  All values are < 64 so   *)
(*    that they fit every format including one-byte LEB128.                   *)
EhEnc(v, f, asz) == IF f = 0 THEN U(v, asz)
                    ELSE IF f \in {1, 9} THEN <<v>>
                    ELSE IF f \in {2, 10} THEN U(v, 2)
                    ELSE IF f \in {3, 11} THEN U(v, 4) ELSE U(v, 8)
EhCls(f) == IF f = 0 THEN "addr" ELSE "plain"
EhPtr(n, v, f, asz) == F(n, EhCls(f), EhEnc(v, f, asz), f = 0)
(* CIE "zPLR" (personality, LSDA encoding, FDE encoding) + FDE with LSDA and  *)
(* DW_CFA_set_loc + terminator                                                *)
EhFrameSec(asz, f, app) ==
    LET augd  == <<P("personality_enc", <<f>>), EhPtr("personality", 33, f, asz),
                   P("lsda_enc", <<f>>), P("fde_enc", <<app + f>>)>>
        cbody == <<P("cie_id", U(0, 4)), P("version", <<1>>), P("augmentation_zPLR", <<122, 80, 76, 82, 0>>),
                   P("code_align", <<1>>), P("data_align", <<120>>), P("return_address_register", <<16>>),
                   P("aug_len", <<Len(Cat(augd))>>)>> \o augd \o <<P("instructions", <<12, 7, 8>>)>>
        cie   == <<P("length", U(Len(Cat(cbody)), 4))>> \o cbody
        lsda  == EhPtr("lsda", 49, f, asz)
        fbody == <<P("cie_pointer_self_relative", U(Len(Cat(cie)) + 4, 4)),
                   EhPtr("initial_location", 17, f, asz),
                   F("address_range", IF f = 0 THEN "addrlen" ELSE "plain", EhEnc(8, f, asz), FALSE),
                   P("aug_len", <<Len(lsda.bytes)>>), lsda,
                   P("DW_CFA_set_loc", <<1>>), EhPtr("set_loc", 18, f, asz), P("nop", <<0>>)>>
        fde   == <<P("length", U(Len(Cat(fbody)), 4))>> \o fbody
    IN cie \o fde \o <<P("terminator", U(0, 4))>>
(* .eh_frame_hdr: eh_frame_ptr and the binary-search table entries *)
EhHdrSec(asz, f) ==
    <<P("version", <<1>>), P("eh_frame_ptr_enc", <<f>>), P("fde_count_enc", <<3>>), P("table_enc", <<f>>),
      EhPtr("eh_frame_ptr", 40, f, asz), P("fde_count", U(2, 4)),
      EhPtr("table0_location", 16, f, asz), EhPtr("table0_fde", 20, f, asz),
      EhPtr("table1_location", 32, f, asz), EhPtr("table1_fde", 36, f, asz)>>
EhFormats == {0, 1, 2, 3, 4, 9, 10, 11, 12}

(*============================== WRITE SIDE ================================*)
(* Writer state: [bytes, rels]; a relocation is [off, size, tk ("sym" |     *)
(* "sec"), t (symbol index / section number), add (BV8), pe (eh_pe or -1)]. *)
W0 == [bytes |-> <<>>, rels |-> <<>>, ok |-> TRUE]
Put(w, b) == [w EXCEPT !.bytes = @ \o b]
Rel(w, off, size, tk, t, add, pe) ==
    [w EXCEPT !.rels = Append(@, [off |-> off, size |-> size, tk |-> tk, t |-> t, add |-> add, pe |-> pe])]
SizedOkW(size) == size \in {1, 2, 4, 8}
UFits(v, size) == \A i \in DOMAIN v : i > size => v[i] = 0
Fail(w) == [w EXCEPT !.ok = FALSE]
(* Writer::write_udata: the value must fit the size *)
WUdata(w, v, size) == IF ~w.ok THEN w
                      ELSE IF SizedOkW(size) /\ UFits(v, size) THEN Put(w, Trunc(v, size)) ELSE Fail(w)
PeFormatSize(pe, size) == LET f == pe % 16 IN
    IF f = 0 THEN size ELSE IF f \in {2, 10} THEN 2 ELSE IF f \in {3, 11} THEN 4 ELSE IF f \in {4, 12} THEN 8 ELSE 0
PeApp(pe) == (pe \div 16) % 8        \* 0 absptr, 1 pcrel
SFits(v, size) == v = SExt(Trunc(v, size), 8)

(* Writer::write_eh_pointer(Constant) of the plain writer (src/write/writer.rs) *)
DirectEh(w, v, pe, size) ==
    IF ~w.ok THEN w
    ELSE LET app == PeApp(pe)
             f   == pe % 16
             val == IF app = 0 THEN v ELSE Sub(v, FromNat(Len(w.bytes), 8)) IN
         IF app \notin {0, 1} THEN Fail(w)
         ELSE IF f = 0 THEN WUdata(w, val, size)
         ELSE IF f \in {2, 3, 4} THEN WUdata(w, val, PeFormatSize(pe, size))
         ELSE IF f \in {10, 11, 12} THEN
              (IF SFits(val, PeFormatSize(pe, size)) THEN Put(w, Trunc(val, PeFormatSize(pe, size))) ELSE Fail(w))
         ELSE Fail(w)

(* one writer call through the RelocateWriter blanket impl; a call is       *)
(* [c, v (BV8), size, t (symbol / section), pe, at]                         *)
RecStep(w, c) ==
    IF ~w.ok THEN w
    ELSE CASE c.c = "udata"   -> WUdata(w, c.v, c.size)
           [] c.c = "addr_const" -> WUdata(w, c.v, c.size)
           [] c.c = "addr_sym"   -> WUdata(Rel(w, Len(w.bytes), c.size, "sym", c.t, c.v, -1), Zero(8), c.size)
           [] c.c = "offset"     -> WUdata(Rel(w, Len(w.bytes), c.size, "sec", c.t, c.v, -1), Zero(8), c.size)
           (* write_udata(placeholder) earlier, then write_offset_at over it *)
           [] c.c = "offset_at"  ->
                IF SizedOkW(c.size) /\ c.at + c.size <= Len(w.bytes)
                THEN [Rel(w, c.at, c.size, "sec", c.t, c.v, -1) EXCEPT
                        !.bytes = [i \in DOMAIN @ |-> IF i > c.at /\ i <= c.at + c.size THEN 0 ELSE @[i]]]
                ELSE Fail(Rel(w, c.at, c.size, "sec", c.t, c.v, -1))
           [] c.c = "eh_const"   -> DirectEh(w, c.v, c.pe, c.size)
           [] c.c = "eh_sym"     ->
                LET sz == PeFormatSize(c.pe, c.size) IN
                IF sz = 0 THEN Fail(w)
                ELSE WUdata(Rel(w, Len(w.bytes), sz, "sym", c.t, c.v, c.pe), Zero(8), sz)
(* the same call on the plain writer with every symbol resolved: symbol s   *)
(* has value sym[s]; sections are based at 0                                *)
DirStep(w, c, sym) ==
    IF ~w.ok THEN w
    ELSE CASE c.c \in {"udata", "addr_const"} -> WUdata(w, c.v, c.size)
           [] c.c = "addr_sym"   -> WUdata(w, Add(sym[c.t], c.v), c.size)
           [] c.c = "offset"     -> WUdata(w, c.v, c.size)
           [] c.c = "offset_at"  ->
                IF SizedOkW(c.size) /\ UFits(c.v, c.size) /\ c.at + c.size <= Len(w.bytes)
                THEN [w EXCEPT !.bytes = [i \in DOMAIN @ |-> IF i > c.at /\ i <= c.at + c.size
                                                              THEN c.v[i - c.at] ELSE @[i]]]
                ELSE Fail(w)
           [] c.c = "eh_const"   -> DirectEh(w, c.v, c.pe, c.size)
           [] c.c = "eh_sym"     -> DirectEh(w, Add(sym[c.t], c.v), c.pe, c.size)

RECURSIVE RunRec(_, _, _)
RunRec(w, cs, i) == IF i > Len(cs) THEN w ELSE RunRec(RecStep(w, cs[i]), cs, i + 1)
RECURSIVE RunDir(_, _, _, _)
RunDir(w, cs, sym, i) == IF i > Len(cs) THEN w ELSE RunDir(DirStep(w, cs[i], sym), cs, sym, i + 1)

(* the linker: field at off += S + A (- P for pc-relative), mod 2^(8 size) *)
ApplyOne(bytes, r, sym) ==
    LET s   == IF r.tk = "sym" THEN sym[r.t] ELSE Zero(8)
        pc  == IF r.pe >= 0 /\ PeApp(r.pe) = 1 THEN FromNat(r.off, 8) ELSE Zero(8)
        cur == ZExt(SubSeq(bytes, r.off + 1, r.off + r.size), 8)
        val == Trunc(Sub(Add(Add(cur, s), r.add), pc), r.size)
    IN [i \in DOMAIN bytes |-> IF i > r.off /\ i <= r.off + r.size THEN val[i - r.off] ELSE bytes[i]]
RECURSIVE ApplyW(_, _, _, _)
ApplyW(bytes, rels, sym, i) == IF i > Len(rels) THEN bytes ELSE ApplyW(ApplyOne(bytes, rels[i], sym), rels, sym, i + 1)

(* TARGET SECTIONS.  A relocation against a section must name the section    *)
(* the field's offset is an offset INTO.  Per source section and DWARF       *)
(* version of the unit, the cross-section offsets that exist are:            *)
(*   .debug_info  debug_abbrev_offset -> .debug_abbrev; strp -> .debug_str;  *)
(*                stmt_list -> .debug_line; ref_addr -> .debug_info;         *)
(*                ranges    -> .debug_ranges  (v <= 4) | .debug_rnglists (5) *)
(*                locations -> .debug_loc     (v <= 4) | .debug_loclists (5) *)
(*                macros    -> .debug_macinfo (v <= 4) | .debug_macro        *)
(*                line_strp -> .debug_line_str, str_offsets/addr bases (5)   *)
(*   .debug_line  (5) line_strp -> .debug_line_str, strp -> .debug_str       *)
(*   .debug_frame CIE pointer -> .debug_frame                                *)
(*   list / aranges / expression operands -> .debug_info                     *)
(* and the recorded addend (the offset) must lie inside the target section   *)
(* as written.  (A writer that picks .debug_rnglists for a version 4         *)
(* DW_AT_ranges produces the same bytes and is invisible when all sections   *)
(* are based at 0; it is not invisible to this rule.)                        *)
TargetSections(src, ver) ==
    IF src = ".debug_info" \/ src = ".debug_types" THEN
        {".debug_abbrev", ".debug_str", ".debug_line", ".debug_info"}
        \cup (IF ver <= 4 THEN {".debug_ranges", ".debug_loc", ".debug_macinfo", ".debug_macro"}
              ELSE {".debug_rnglists", ".debug_loclists", ".debug_macro", ".debug_line_str",
                    ".debug_str_offsets", ".debug_addr"})
    ELSE IF src = ".debug_line" THEN (IF ver >= 5 THEN {".debug_line_str", ".debug_str"} ELSE {})
    ELSE IF src = ".debug_frame" THEN {".debug_frame"}
    ELSE IF src \in {".debug_loc", ".debug_loclists", ".debug_ranges", ".debug_rnglists", ".debug_aranges"}
         THEN {".debug_info"}
    ELSE {}
SecLen(lens, name) == LET I == {i \in DOMAIN lens : lens[i][1] = name} IN
                      IF I = {} THEN 0 ELSE lens[CHOOSE i \in I : TRUE][2]
TargetsOK(src, ver, rels, lens) ==
    \A i \in DOMAIN rels :
        rels[i].tk = "sec" =>
            /\ rels[i].ts \in TargetSections(src, ver)
            /\ FitsNat(rels[i].add) /\ ToNat(rels[i].add) <= SecLen(lens, rels[i].ts)

(* Apply(recorded) = direct, whenever the direct write succeeds *)
WriteTransparent(cs, sym) ==
    LET r == RunRec(W0, cs, 1)
        d == RunDir(W0, cs, sym, 1) IN
    (r.ok /\ d.ok) => ApplyW(r.bytes, r.rels, sym, 1) = d.bytes
=============================================================================
