--------------------------- MODULE WStringsTrace ---------------------------
(* Trace validation for the write-side string tables and the byte sink      *)
(* (extension X_WSTRINGS).  gvh-wstrings `record` drives random call        *)
(* scripts on StringTable / LineStringTable / EndianVec and logs one event  *)
(* per call; every event must be explainable by the operators of WStrings   *)
(* applied to the state reached by the preceding events:                    *)
(*   Reset                      a new, empty table (and sections)           *)
(*   Add b res                  res = {id, rank} or {panic}                 *)
(*   Get id s off               get(id) and offset(id)                      *)
(*   Count n                                                                *)
(*   Write len cum sec          sec = a fresh section after write, len its  *)
(*                              length, cum = length of the section that    *)
(*                              receives every write of the script          *)
(*   ReadBack id off r          read::Debug(Line)Str::get_str(offset(id))   *)
(*                              on the last written section                 *)
(*   ReadAt off r               get_str at an arbitrary offset              *)
(*   VReset / VWrite b ok len / VWriteAt off b res len / VSlice v / VTake v *)
(* Ids in events are ranks (position among the distinct ids returned);      *)
(* res.id is the index scraped from Debug (-1: not observable).  Error      *)
(* kinds are not compared, only error / no error.                           *)
EXTENDS WStrings, Integers, TLC, Json, IOUtils
VARIABLES l, t, sec, cum, v
Rec == ndJsonDeserialize(IOEnv.TRACE)

IsEv(e) == l <= Len(Rec) /\ Rec[l].ev = e /\ l' = l + 1
Has(r, f) == f \in DOMAIN r

Reset == IsEv("Reset") /\ t' = Empty /\ sec' = <<>> /\ cum' = 0 /\ UNCHANGED v
TAdd == IsEv("Add") /\ LET r == Rec[l]
                           a == Add(t, r.b) IN
    /\ IF a.res = Panic THEN Has(r.res, "panic")
       ELSE /\ Has(r.res, "rank") /\ r.res.rank = a.res.id          \* dedup / fresh id, dense
            /\ r.res.id \in {a.res.id, -1}
    /\ t' = a.t /\ UNCHANGED <<sec, cum, v>>
TGet == IsEv("Get") /\ LET r == Rec[l] IN
    /\ r.id < Count(t)
    /\ Get(t, r.id) = [s |-> r.s]
    /\ Offset(t, r.id) = [off |-> r.off]
    /\ UNCHANGED <<t, sec, cum, v>>
TCount == IsEv("Count") /\ Rec[l].n = Count(t) /\ UNCHANGED <<t, sec, cum, v>>
TWrite == IsEv("Write") /\ LET r == Rec[l] IN
    /\ r.sec = Emit(t)
    /\ r.len = Len(r.sec) /\ r.len = t.len
    /\ r.cum = cum + t.len
    /\ \A i \in DOMAIN t.strs : GetStr(r.sec, t.offs[i]) = [s |-> t.strs[i]]   \* read-back = added, for every id
    /\ sec' = r.sec /\ cum' = r.cum /\ UNCHANGED <<t, v>>
SameRead(got, want) == IF Has(want, "err") THEN Has(got, "err") ELSE got = want
ReadBack == IsEv("ReadBack") /\ LET r == Rec[l] IN
    /\ r.id < Count(t) /\ Offset(t, r.id) = [off |-> r.off]
    /\ SameRead(r.r, GetStr(sec, r.off))
    /\ UNCHANGED <<t, sec, cum, v>>
ReadAt == IsEv("ReadAt") /\ LET r == Rec[l] IN
    /\ SameRead(r.r, GetStr(sec, r.off))
    /\ UNCHANGED <<t, sec, cum, v>>

VReset == IsEv("VReset") /\ v' = <<>> /\ UNCHANGED <<t, sec, cum>>
TVWrite == IsEv("VWrite") /\ LET r == Rec[l]
                                 a == VWrite(v, r.b) IN
    /\ r.ok /\ r.len = Len(a.v)
    /\ v' = a.v /\ UNCHANGED <<t, sec, cum>>
TVWriteAt == IsEv("VWriteAt") /\ LET r == Rec[l]
                                     a == VWriteAt(v, r.off, r.b) IN
    /\ (r.res = "ok") = (a.res = Done)
    /\ r.len = Len(a.v)
    /\ v' = a.v /\ UNCHANGED <<t, sec, cum>>
TVSlice == IsEv("VSlice") /\ Rec[l].v = v /\ UNCHANGED <<t, sec, cum, v>>
TVTake == IsEv("VTake") /\ LET r == Rec[l]
                               a == VTake(v) IN
    /\ a.res = [taken |-> r.v] /\ r.len = 0
    /\ v' = a.v /\ UNCHANGED <<t, sec, cum>>

Init == l = 1 /\ t = Empty /\ sec = <<>> /\ cum = 0 /\ v = <<>>
Next == Reset \/ TAdd \/ TGet \/ TCount \/ TWrite \/ ReadBack \/ ReadAt
        \/ VReset \/ TVWrite \/ TVWriteAt \/ TVSlice \/ TVTake
Accepted == LET d == TLCGet("stats").diameter IN
            IF d - 1 = Len(Rec) THEN TRUE
            ELSE Print(<<"UNMATCHED", d, ToJson(Rec[d])>>, FALSE)
=============================================================================
