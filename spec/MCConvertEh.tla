----------------------------- MODULE MCConvertEh -----------------------------
(***************************************************************************)
(* Conversion of `.eh_frame` augmentations (C12): one CIE with the          *)
(* augmentation "z" + subset of L, P, R, S and one FDE, over the pointer-   *)
(* encoding dimension of the personality (P), LSDA (L) and FDE address (R)  *)
(* encodings: every format nibble x every application (absolute, pc-, text-,*)
(* data-, function-relative, aligned) x the indirect bit, the omit byte and *)
(* an invalid format.                                                       *)
(*                                                                          *)
(* What the pointers MEAN is not restated here: the section bytes are       *)
(* decoded with CfiExec!EncodedPointer / EncodedValue (C06's model of       *)
(* parse_encoded_pointer), with the `.eh_frame` base 0 and no text / data   *)
(* base, as `write::FrameTable::from` reads them.  The specification of the *)
(* conversion (`CommonInformationEntry::from`, `FrameDescriptionEntry::from`*)
(* in src/write/cfi.rs): the personality pointer and the LSDA pointer are   *)
(* carried over with their value AND their direct/indirect kind (the        *)
(* encoding byte is kept, so an indirect pointer stays indirect), the LSDA  *)
(* and FDE encodings and the signal flag are kept, address range and unwind *)
(* function are those of ConvertCfi; or the conversion fails (the writer    *)
(* supports only absolute and pc-relative applications).                    *)
(*                                                                          *)
(* Each case: the encoded section, whether gimli's reader must reject it,   *)
(* whether writing must fail as coded, and the expected FDE meaning.        *)
(***************************************************************************)
EXTENDS ConvertCfi, Json
CE == INSTANCE CfiExec
CONSTANTS Modes
VARIABLES c, done

Formats == {0, 1, 2, 3, 4, 9, 10, 11, 12}
Apps == {0, 16, 32, 48, 64, 80}
AllEnc == {f + a + i : f \in Formats, a \in Apps, i \in {0, 128}} \cup {255, 5, 133}
Few == {0, 27, 155, 128, 3, 12}          \* absptr, pcrel|sdata4, indirect|pcrel|sdata4, indirect|absptr, udata4, sdata8

DefP == 155
DefL == 27
DefR == 27
Mk(hp, hl, hr, sg, ep, el, er, neg) ==
    [hasP |-> hp, hasL |-> hl, hasR |-> hr, sig |-> sg, encP |-> ep, encL |-> el, encR |-> er, neg |-> neg]

SweepL == {Mk(TRUE, TRUE, TRUE, FALSE, DefP, e, DefR, n) : e \in AllEnc, n \in BOOLEAN}
SweepPR == {Mk(TRUE, TRUE, TRUE, FALSE, e, DefL, DefR, FALSE) : e \in AllEnc}
           \cup {Mk(TRUE, TRUE, TRUE, FALSE, DefP, DefL, e, FALSE) : e \in AllEnc}
(* a reduced sweep of P and R for the quick tier: every application and the indirect bit on two formats *)
SweepPRq == {x \in SweepPR : CE!EhFormat(x.encP) \in {0, 11, 15} /\ CE!EhFormat(x.encR) \in {0, 11, 15}}
Present == {Mk(hp, hl, hr, sg, DefP, 155, DefR, FALSE) : hp, hl, hr, sg \in BOOLEAN}
Combo == {Mk(TRUE, TRUE, TRUE, sg, p, l, r, FALSE) : p, l, r \in Few, sg \in {FALSE}}

Cases == (IF "lsda" \in Modes THEN SweepL \cup Present ELSE {})
         \cup (IF "prq" \in Modes THEN SweepPRq ELSE {})
         \cup (IF "pr" \in Modes THEN SweepPR ELSE {})
         \cup (IF "combo" \in Modes THEN Combo ELSE {})

(*------------------------------------------------------------------------*)
(* the section                                                             *)
(*------------------------------------------------------------------------*)
Usable(enc) == CE!EhValid(enc) /\ enc # 255
(* raw field for a value under an encoding; an unusable encoding gets 4 bytes *)
Raw(enc, v) == IF Usable(enc) THEN CE!EncRaw(CE!EhFormat(enc), v, 8, TRUE) ELSE <<1, 0, 0, 0>>
Signed(enc) == CE!EhFormat(enc) \in {9, 10, 11, 12}

RawP == B(64)
RawL(x) == IF x.neg /\ Signed(x.encL) THEN I(-16) ELSE B(48)
RawInit == B(256)
RawRange == B(32)
EncRUsed(x) == IF x.hasR THEN x.encR ELSE 0

AugStr(x) == <<122>> \o (IF x.hasL THEN <<76>> ELSE <<>>) \o (IF x.hasP THEN <<80>> ELSE <<>>)
             \o (IF x.hasR THEN <<82>> ELSE <<>>) \o (IF x.sig THEN <<83>> ELSE <<>>) \o <<0>>
AugData(x) == (IF x.hasL THEN <<x.encL>> ELSE <<>>) \o (IF x.hasP THEN <<x.encP>> \o Raw(x.encP, RawP) ELSE <<>>)
              \o (IF x.hasR THEN <<x.encR>> ELSE <<>>)
FdeIns == <<[op |-> "advance", w |-> 0, d |-> B(4)], [op |-> "def_cfa_offset", v |-> B(16)]>>
CieInsEh == <<[op |-> "def_cfa", r |-> 7, v |-> B(8)], [op |-> "offset", r |-> 16, v |-> B(1)]>>

CieHead(x) == <<0, 0, 0, 0, 1>> \o AugStr(x) \o <<1, 120, 16>> \o <<Len(AugData(x))>>     \* id, version, string, caf 1, daf -8, ra 16
CieBody(x) == CieHead(x) \o AugData(x) \o EncProg(CieInsEh)
U32L(n) == <<n % 256, n \div 256, 0, 0>>
FdeOff(x) == 4 + Len(CieBody(x))                                   \* section offset of the FDE's length field
LsdaField(x) == IF x.hasL THEN Raw(x.encL, RawL(x)) ELSE <<>>
FdeBody(x) == U32L(FdeOff(x) + 4) \o Raw(EncRUsed(x), RawInit)
              \o (IF Usable(EncRUsed(x)) THEN CE!EncRaw(CE!EhFormat(EncRUsed(x)), RawRange, 8, TRUE) ELSE <<1, 0, 0, 0>>)
              \o <<Len(LsdaField(x))>> \o LsdaField(x) \o EncProg(FdeIns)
Section(x) == U32L(Len(CieBody(x))) \o CieBody(x) \o U32L(Len(FdeBody(x))) \o FdeBody(x)

(*------------------------------------------------------------------------*)
(* what gimli's reader makes of it (CfiExec's model)                       *)
(*------------------------------------------------------------------------*)
PE(enc) == [on |-> TRUE, enc |-> enc, section |-> CE!SomeBase(Z8), text |-> CE!NoBase, data |-> CE!NoBase]
(* 1-based index of the personality pointer: length, CIE head, L byte, P byte *)
IdxP(x) == 4 + Len(CieHead(x)) + (IF x.hasL THEN 1 ELSE 0) + 1 + 1
Pers(x) == CE!EncodedPointer(PE(x.encP), Section(x), IdxP(x), 0, 8, TRUE, CE!NoBase)
IdxInit(x) == FdeOff(x) + 8 + 1
Init_(x) == CE!EncodedPointer(PE(EncRUsed(x)), Section(x), IdxInit(x), 0, 8, TRUE, CE!NoBase)
Range_(x) == CE!EncodedValue(CE!EhFormat(EncRUsed(x)), Section(x), Init_(x).p, 8, TRUE)
Lsda(x) == CE!EncodedPointer(PE(x.encL), Section(x), Range_(x).p + 1, 0, 8, TRUE, CE!SomeBase(Init_(x).v))

ReaderOk(x) ==
    /\ (x.hasL => CE!EhValid(x.encL))
    /\ (x.hasR => CE!EhValid(x.encR))
    /\ (x.hasP => Pers(x).ok)
    /\ Init_(x).ok /\ Range_(x).ok
    /\ (x.hasL => Lsda(x).ok)

(* the writer supports the absolute and pc-relative applications only *)
Writable(enc) == CE!EhApp(enc) \in {0, 1}
WriteFails(x) == \/ (x.hasP /\ ~Writable(x.encP)) \/ (x.hasL /\ ~Writable(x.encL)) \/ (x.hasR /\ ~Writable(x.encR))

NoPtr == [has |-> FALSE, ind |-> FALSE, v |-> Z8]
Ptr(p) == [has |-> TRUE, ind |-> p.indirect, v |-> p.v]
Cfg8(x) == [caf |-> B(1), cafn |-> 1, daf |-> I(-8), dafn |-> -8, ver |-> 1, ra |-> 16, start |-> Init_(x).v, len |-> Range_(x).v]

Expect(x) ==
    IF ~ReaderOk(x) THEN [reject |-> TRUE]
    ELSE [reject |-> FALSE, write_fails |-> WriteFails(x),
          start |-> Init_(x).v, len |-> Range_(x).v,
          pers |-> IF x.hasP THEN Ptr(Pers(x)) ELSE NoPtr, pers_enc |-> IF x.hasP THEN x.encP ELSE -1,
          lsda_enc |-> IF x.hasL THEN x.encL ELSE -1,
          lsda |-> IF x.hasL THEN Ptr(Lsda(x)) ELSE NoPtr,
          signal |-> x.sig,
          unwind |-> RefUnwind(Cfg8(x), CieInsEh, FdeIns)]

(* design-level: the conversion as coded keeps the unwind function (ConvertCfi) *)
Theorem == done => (ReaderOk(c) => MeaningPreserved(Cfg8(c), CieInsEh, FdeIns))

Init == c \in Cases /\ done = FALSE
Next == ~done /\ done' = TRUE /\ UNCHANGED c

Emit == done =>
    PrintT(<<"CASE", ToJson([sys |-> "convert", what |-> "frame", base |-> "raw", section |-> "eh_frame", asz |-> 8, le |-> TRUE,
                             sections |-> [eh_frame |-> Section(c)],
                             desc |-> c, exp |-> Expect(c)])>>)
=============================================================================
