------------------------------- MODULE Dies -------------------------------
(***************************************************************************)
(* Units and their debugging-information-entry forests (C02, C20).         *)
(*                                                                         *)
(*  1. Encoders: unit header (DWARF 2-5, every DW_UT_*, 32/64-bit, type    *)
(*     signature/offset, dwo id), forest -> token stream (entry, null,     *)
(*     optional DW_AT_sibling, trailing null padding) with unit offsets,   *)
(*     token stream -> bytes.                                              *)
(*  2. The navigation machines of src/read/unit.rs *as coded*, over the    *)
(*     token table: EntriesRaw (depth from nulls and has_children,         *)
(*     seek_forward), EntriesCursor (next_entry, next_dfs, next_sibling    *)
(*     with the DW_AT_sibling fast path), EntriesTree (root, next(depth)   *)
(*     driven by children()/next()).                                       *)
(*  3. What the property demands, stated on the forest (parent pointers,   *)
(*     not the token stream): preorder, next sibling, children lists.      *)
(*                                                                         *)
(* A forest is a sequence of nodes in preorder, F[v] = [par, hc, sib]:     *)
(* parent index (0 = top level), DW_CHILDREN flag (TRUE is allowed for a   *)
(* node without children: empty child list), DW_AT_sibling present.        *)
(* A token is [k, node, cl, d, off, tag, hc, sib, attrs]:                  *)
(*   k = "e" entry / "n" null;  node = forest node of an entry;            *)
(*   cl = node whose child list a null closes (0 = padding);               *)
(*   d = depth from the tree structure (nulls: depth of the list closed);  *)
(*   sib = target of a DW_AT_sibling of class unit reference, else 0.      *)
(***************************************************************************)
EXTENDS Abbrev, TLC

Lay(v, le) == IF le THEN v ELSE Reverse(v)
Fixed(v, size, le) == Lay(FromNat(v, size), le)
SetMin(S) == CHOOSE x \in S : \A y \in S : x <= y
SetMax(S) == CHOOSE x \in S : \A y \in S : x >= y

(* ===================== unit header ====================================== *)
(* h = [ver, fmt, asz, ut, le, types]; DW_UT_*: compile 1, type 2, partial *)
(* 3, skeleton 4, split_compile 5, split_type 6.  `types` = the unit lives *)
(* in .debug_types (versions < 5 only).                                    *)
WordSize(h) == IF h.fmt = 64 THEN 8 ELSE 4
SigV  == <<17, 34, 51, 68, 85, 102, 119, 136>>          \* type signature / dwo id value
DwoV  == <<241, 226, 211, 196, 181, 166, 151, 136>>
TypeOffV(h) == SubSeq(<<33, 67, 101, 7, 9, 11, 13, 15>>, 1, WordSize(h))

HasTypeFields(h) == IF h.ver = 5 THEN h.ut \in {2, 6} ELSE h.types
HasDwoId(h)      == h.ver = 5 /\ h.ut \in {4, 5}
TypeSpecific(h) == IF HasTypeFields(h) THEN Lay(SigV, h.le) \o Lay(TypeOffV(h), h.le)
                   ELSE IF HasDwoId(h) THEN Lay(DwoV, h.le) ELSE <<>>
HeaderRest(h, aoff) ==
    Fixed(h.ver, 2, h.le) \o
    (IF h.ver = 5 THEN <<h.ut, h.asz>> \o Fixed(aoff, WordSize(h), h.le)
                  ELSE Fixed(aoff, WordSize(h), h.le) \o <<h.asz>>) \o
    TypeSpecific(h)
InitialLength(h, n) == IF h.fmt = 64 THEN <<255, 255, 255, 255>> \o Fixed(n, 8, h.le)
                       ELSE Fixed(n, 4, h.le)
EncUnitHeader(h, aoff, bodyLen) ==
    LET rest == HeaderRest(h, aoff) IN InitialLength(h, Len(rest) + bodyLen) \o rest
HeaderSize(h) == Len(EncUnitHeader(h, 0, 0))

UnitKind(h) == IF h.ver < 5 THEN (IF h.types THEN "Type" ELSE "Compilation")
               ELSE <<"Compilation", "Type", "Partial", "Skeleton", "SplitCompilation", "SplitType">>[h.ut]
(* what UnitHeader must report *)
ExpHeader(h, uoff, aoff, bodyLen) ==
    LET hs == HeaderSize(h)
        il == IF h.fmt = 64 THEN 12 ELSE 4 IN
    [version |-> h.ver, format |-> h.fmt, address_size |-> h.asz,
     unit_length |-> hs - il + bodyLen, length_including_self |-> hs + bodyLen,
     offset |-> uoff, abbrev_offset |-> aoff, section |-> IF h.ver < 5 /\ h.types THEN "types" ELSE "info",
     kind |-> UnitKind(h),
     sig |-> IF HasTypeFields(h) THEN SigV ELSE <<>>,
     type_offset |-> IF HasTypeFields(h) THEN ZExt(TypeOffV(h), 8) ELSE <<>>,
     dwo_id |-> IF HasDwoId(h) THEN DwoV ELSE <<>>,
     size_of_header |-> hs, header_size |-> hs, root_offset |-> hs,
     (* conversions of the root entry's unit offset (-1 = None) *)
     unit_info_offset |-> IF h.ver < 5 /\ h.types THEN -1 ELSE uoff,
     unit_types_offset |-> IF h.ver < 5 /\ h.types THEN uoff ELSE -1,
     root_section_offset |-> uoff + hs,
     root_info_offset |-> IF h.ver < 5 /\ h.types THEN -1 ELSE uoff + hs,
     root_types_offset |-> IF h.ver < 5 /\ h.types THEN uoff + hs ELSE -1,
     root_back |-> hs]

(* ===================== forest ========================================== *)
RECURSIVE NDepth(_, _)
NDepth(F, v) == IF F[v].par = 0 THEN 0 ELSE 1 + NDepth(F, F[v].par)
KidSet(F, v) == {w \in DOMAIN F : F[w].par = v}
RECURSIVE SortUp(_)
SortUp(S) == IF S = {} THEN <<>> ELSE LET x == SetMin(S) IN <<x>> \o SortUp(S \ {x})
Kids(F, v) == SortUp(KidSet(F, v))
NextSib(F, v) == LET S == {w \in DOMAIN F : w > v /\ F[w].par = F[v].par}
                 IN IF S = {} THEN 0 ELSE SetMin(S)
RECURSIVE Ancestors(_, _)
Ancestors(F, v) == IF v = 0 \/ F[v].par = 0 THEN {} ELSE {F[v].par} \cup Ancestors(F, F[v].par)
(* a preorder parent array is a forest iff each parent is on the right spine of its prefix *)
WellFormedForest(F) ==
    \A v \in DOMAIN F : /\ F[v].par < v
                        /\ (F[v].par # 0 => F[F[v].par].hc)
                        /\ (v > 1 /\ F[v].par # 0 => F[v].par \in Ancestors(F, v - 1) \cup {v - 1})

(* structural tokens: entry / closing null, depth from the recursion *)
RECURSIVE SerList(_, _, _)
SerList(F, list, d) ==
    IF list = <<>> THEN <<>>
    ELSE LET v == Head(list) IN
         <<[k |-> "e", node |-> v, cl |-> 0, d |-> d]>> \o
         (IF F[v].hc THEN SerList(F, Kids(F, v), d + 1) \o <<[k |-> "n", node |-> 0, cl |-> v, d |-> d + 1]>>
          ELSE <<>>) \o
         SerList(F, Tail(list), d)
Padding(n) == [j \in 1..n |-> [k |-> "n", node |-> 0, cl |-> 0, d |-> 1 - j]]
StructTokens(F, pad) == SerList(F, Kids(F, 0), 0) \o Padding(pad)

(* ===================== entries: sizes, offsets, bytes =================== *)
(* e = [h, uoff, sf, sibfirst, codes, tags]: header, unit offset in its    *)
(* section, form of DW_AT_sibling, attribute order, per-node code and tag. *)
(* DW_AT_sibling forms: ref1/ref2/ref4/ref8/padded ref_udata (unit         *)
(* relative), ref_addr (section relative, correct target) and - ill-       *)
(* classed, to be ignored - data4 / udata carrying the target as a number. *)
(* Every entry carries DW_AT_decl_line/DW_FORM_data1 = its node index.     *)
UnitRefSibForms == {"ref1", "ref2", "ref4", "ref8", "refu2"}
SibFormCode(sf) == CASE sf = "ref1" -> 17 [] sf = "ref2" -> 18 [] sf = "ref4" -> 19 [] sf = "ref8" -> 20
                     [] sf = "refu2" -> 21 [] sf = "refaddr" -> 16
                     [] sf = "data4" -> 6 [] sf = "udata2" -> 15       \* wrong class: a number, not a reference
SibSize(e) == CASE e.sf = "ref1" -> 1 [] e.sf = "ref2" -> 2 [] e.sf = "ref4" -> 4 [] e.sf = "ref8" -> 8
                [] e.sf = "refu2" -> 2 [] e.sf = "udata2" -> 2 [] e.sf = "data4" -> 4
                [] e.sf = "refaddr" -> IF e.h.ver = 2 THEN e.h.asz ELSE WordSize(e.h)
EncSib(e, target) ==
    CASE e.sf \in {"refu2", "udata2"} -> <<(target % 128) + 128, target \div 128>>      \* padded ULEB128
      [] e.sf = "refaddr" -> Fixed(e.uoff + target, SibSize(e), e.h.le)
      [] OTHER            -> Fixed(target, SibSize(e), e.h.le)
AttrSpecs(e, sib) ==
    LET d == [name |-> 59, form |-> 11]
        s == [name |-> 1, form |-> SibFormCode(e.sf)] IN
    IF ~sib THEN <<d>> ELSE IF e.sibfirst THEN <<s, d>> ELSE <<d, s>>
TokSize(e, F, t) == IF t.k = "n" THEN 1
                    ELSE Len(e.codes[t.node]) + 1 + (IF F[t.node].sib THEN SibSize(e) ELSE 0)
RECURSIVE OffsetsFrom(_, _, _, _, _)
OffsetsFrom(e, F, st, i, off) == IF i > Len(st) THEN <<off>>
                                 ELSE <<off>> \o OffsetsFrom(e, F, st, i + 1, off + TokSize(e, F, st[i]))
(* index after the subtree of entry token i *)
AfterSub(st, i) == IF st[i].k = "e" /\ \E j \in DOMAIN st : st[j].cl = st[i].node /\ st[j].k = "n"
                   THEN (CHOOSE j \in DOMAIN st : st[j].k = "n" /\ st[j].cl = st[i].node) + 1
                   ELSE i + 1
ExpAttrs(e, F, v, target) ==
    LET d == [name |-> 59, form |-> 11, kind |-> "Data1", v |-> FromNat(v, 8)]
        s == IF e.sf = "refaddr"
             THEN [name |-> 1, form |-> 16, kind |-> "DebugInfoRef", v |-> FromNat(e.uoff + target, 8)]
             ELSE IF e.sf = "data4" THEN [name |-> 1, form |-> 6, kind |-> "Data4", v |-> FromNat(target, 8)]
             ELSE IF e.sf = "udata2" THEN [name |-> 1, form |-> 15, kind |-> "Udata", v |-> FromNat(target, 8)]
             ELSE [name |-> 1, form |-> SibFormCode(e.sf), kind |-> "UnitRef", v |-> FromNat(target, 8)] IN
    IF ~F[v].sib THEN <<d>> ELSE IF e.sibfirst THEN <<s, d>> ELSE <<d, s>>
(* the full token table and the end offset *)
Tokens(e, F, pad) ==
    LET st  == StructTokens(F, pad)
        ofs == OffsetsFrom(e, F, st, 1, HeaderSize(e.h)) IN
    [i \in DOMAIN st |->
        LET t == st[i]
            target == ofs[AfterSub(st, i)] IN
        IF t.k = "n" THEN [k |-> "n", node |-> 0, cl |-> t.cl, d |-> t.d, off |-> ofs[i], tag |-> 0, hc |-> FALSE,
                           sib |-> 0, attrs |-> <<>>]
        ELSE [k |-> "e", node |-> t.node, cl |-> 0, d |-> t.d, off |-> ofs[i], tag |-> e.tags[t.node],
              hc |-> F[t.node].hc,
              (* only a unit reference can be used as it stands: DW_FORM_ref_addr is relative to the section *)
              (* (the reader may ignore it or convert it correctly), a constant is not a reference at all   *)
              sib |-> IF F[t.node].sib /\ e.sf \in UnitRefSibForms THEN target ELSE 0,
              attrs |-> ExpAttrs(e, F, t.node, target)]]
EndOff(e, F, pad) == LET st == StructTokens(F, pad) IN OffsetsFrom(e, F, st, 1, HeaderSize(e.h))[Len(st) + 1]

EncEntry(e, F, t, target) ==
    LET d == <<t.node>>
        s == EncSib(e, target) IN
    UlebOfDigits(e.codes[t.node]) \o
    (IF ~F[t.node].sib THEN d ELSE IF e.sibfirst THEN s \o d ELSE d \o s)
RECURSIVE EncTokensFrom(_, _, _, _, _)
EncTokensFrom(e, F, T, E, i) ==
    IF i > Len(T) THEN <<>>
    ELSE (IF T[i].k = "n" THEN <<0>>
          ELSE EncEntry(e, F, T[i], IF AfterSub(T, i) > Len(T) THEN E ELSE T[AfterSub(T, i)].off))
         \o EncTokensFrom(e, F, T, E, i + 1)
EncUnit(e, F, T, E, aoff) ==
    LET body == EncTokensFrom(e, F, T, E, 1) IN EncUnitHeader(e.h, aoff, Len(body)) \o body
(* one abbreviation per node, in table order `order` (a sequence of nodes) *)
NodeDecl(e, F, v) == [code |-> e.codes[v], tag |-> e.tags[v], hc |-> F[v].hc, attrs |-> AttrSpecs(e, F[v].sib)]

(* ===================== machines as coded ================================ *)
(* T = token table, E = end offset (UnitOffset at the end of entries_buf). *)
TokAt(T, E, off) == IF off = E THEN Len(T) + 1 ELSE CHOOSE i \in DOMAIN T : T[i].off = off

(* ---- EntriesRaw: [p, depth] ------------------------------------------- *)
RNextOff(T, E, r) == IF r.p <= Len(T) THEN T[r.p].off ELSE E
NullEnt(off, depth) == [null |-> TRUE, off |-> off, depth |-> depth, i |-> 0]
(* read_entry; precondition r.p <= Len(T) (otherwise read_uleb128 fails with UnexpectedEof) *)
RRead(T, r) ==
    LET t == T[r.p] IN
    IF t.k = "n" THEN [r |-> [p |-> r.p + 1, depth |-> r.depth - 1], ent |-> NullEnt(t.off, r.depth)]
    ELSE [r |-> [p |-> r.p + 1, depth |-> IF t.hc THEN r.depth + 1 ELSE r.depth],
          ent |-> [null |-> FALSE, off |-> t.off, depth |-> r.depth, i |-> r.p]]
(* seek_forward: only forward, only inside the buffer, sets the given depth *)
RSeek(T, E, r, off, depth) ==
    IF off >= RNextOff(T, E, r) /\ off <= E THEN [p |-> TokAt(T, E, off), depth |-> depth] ELSE r
EntHc(T, ent) == ~ent.null /\ T[ent.i].hc
(* DebuggingInformationEntry::sibling: a unit reference strictly after the entry, 0 = None *)
EntSibling(T, ent) == IF ~ent.null /\ T[ent.i].sib > ent.off THEN T[ent.i].sib ELSE 0

(* ---- EntriesCursor: [r, cur] ------------------------------------------- *)
CInit(start) == [r |-> [p |-> start, depth |-> 0], cur |-> NullEnt(0, 0)]
CNextEntry(T, c) ==
    IF c.r.p > Len(T) THEN [c |-> [c EXCEPT !.cur.null = TRUE, !.cur.i = 0], ret |-> FALSE]
    ELSE LET x == RRead(T, c.r) IN [c |-> [r |-> x.r, cur |-> x.ent], ret |-> TRUE]
RECURSIVE CNextDfs(_, _)
CNextDfs(T, c) == LET x == CNextEntry(T, c) IN
                  IF ~x.ret THEN x ELSE IF ~x.c.cur.null THEN x ELSE CNextDfs(T, x.c)
RECURSIVE CSibLoop(_, _, _, _)
CSibLoop(T, E, c, d) ==
    LET c1 == IF EntHc(T, c.cur) /\ EntSibling(T, c.cur) # 0
              THEN [c EXCEPT !.r = RSeek(T, E, c.r, EntSibling(T, c.cur), c.cur.depth)] ELSE c
        x == CNextEntry(T, c1) IN
    IF ~x.ret THEN x
    ELSE IF x.c.cur.depth = d THEN [c |-> x.c, ret |-> ~x.c.cur.null]
    ELSE CSibLoop(T, E, x.c, d)
CNextSibling(T, E, c) == IF c.cur.null THEN [c |-> c, ret |-> FALSE] ELSE CSibLoop(T, E, c, c.cur.depth)

(* ---- EntriesTree: [start, r, ent, its, live, nd] ------------------------ *)
(* its = stack of EntriesTreeIter [d, empty]; live = an EntriesTreeNode is  *)
(* held whose children() would iterate at depth nd.                         *)
TInit(start) == [start |-> start, r |-> [p |-> start, depth |-> 0], ent |-> NullEnt(0, 0),
                 its |-> <<>>, live |-> FALSE, nd |-> 0]
(* EntriesTree::root : [t, ok] *)
TRoot(T, t) ==
    LET x == RRead(T, [p |-> t.start, depth |-> 0]) IN
    IF x.ent.null THEN [t |-> [t EXCEPT !.r = x.r, !.ent = x.ent, !.its = <<>>, !.live = FALSE], ok |-> FALSE]
    ELSE [t |-> [t EXCEPT !.r = x.r, !.ent = x.ent, !.its = <<>>, !.live = TRUE, !.nd = 1], ok |-> TRUE]
RECURSIVE TLoop(_, _, _, _, _)
TLoop(T, E, r, ent, depth) ==
    LET r1 == IF EntHc(T, ent) /\ EntSibling(T, ent) # 0 THEN RSeek(T, E, r, EntSibling(T, ent), ent.depth) ELSE r IN
    IF r1.p > Len(T) THEN [r |-> r1, ent |-> [ent EXCEPT !.null = TRUE, !.i = 0], ret |-> FALSE]
    ELSE LET x == RRead(T, r1) IN
         IF x.ent.depth = depth THEN [r |-> x.r, ent |-> x.ent, ret |-> ~x.ent.null]
         ELSE TLoop(T, E, x.r, x.ent, depth)
(* EntriesTree::next(depth) *)
TNext(T, E, r, ent, depth) ==
    IF ent.depth < depth THEN
        IF ~EntHc(T, ent) THEN [r |-> r, ent |-> ent, ret |-> FALSE]
        ELSE IF r.p > Len(T) THEN [r |-> r, ent |-> [ent EXCEPT !.null = TRUE, !.i = 0], ret |-> FALSE]
        ELSE LET x == RRead(T, r) IN [r |-> x.r, ent |-> x.ent, ret |-> ~x.ent.null]
    ELSE TLoop(T, E, r, ent, depth)
TDescend(t) == [t EXCEPT !.its = Append(@, [d |-> t.nd, empty |-> FALSE]), !.live = FALSE]
TAscend(t)  == [t EXCEPT !.its = SubSeq(@, 1, Len(@) - 1), !.live = FALSE]
(* EntriesTreeIter::next on the innermost iterator: [t, ret] *)
TNextChild(T, E, t) ==
    LET n == Len(t.its)
        top == t.its[n] IN
    IF top.empty THEN [t |-> [t EXCEPT !.live = FALSE], ret |-> FALSE]
    ELSE LET x == TNext(T, E, t.r, t.ent, top.d) IN
         IF x.ret THEN [t |-> [t EXCEPT !.r = x.r, !.ent = x.ent, !.live = TRUE, !.nd = top.d + 1], ret |-> TRUE]
         ELSE [t |-> [t EXCEPT !.r = x.r, !.ent = x.ent, !.live = FALSE, !.its[n].empty = TRUE], ret |-> FALSE]

(* ---- observations of the machines -------------------------------------- *)
EntObsM(T, ent) == [off |-> ent.off, depth |-> ent.depth, tag |-> T[ent.i].tag, hc |-> T[ent.i].hc,
                    attrs |-> T[ent.i].attrs]
EntObsMN(T, ent) == [off |-> ent.off, depth |-> ent.depth, tag |-> T[ent.i].tag, hc |-> T[ent.i].hc,
                     nattrs |-> Len(T[ent.i].attrs)]
(* after a cursor call; `ended` = next_entry found the input empty (offset()/depth() are then stale) *)
CObsM(T, E, c, ret, ended) ==
    LET base == [ret |-> ret, cur |-> IF c.cur.null THEN "null" ELSE EntObsMN(T, c.cur),
                 noff |-> RNextOff(T, E, c.r), ndepth |-> c.r.depth] IN
    IF ended THEN base ELSE base @@ [off |-> c.cur.off, depth |-> c.cur.depth]
ROBsEntry(T, E, x) == [ret |-> IF x.ent.null THEN "null" ELSE "entry", off |-> x.ent.off, depth |-> x.ent.depth,
                       ent |-> IF x.ent.null THEN "null" ELSE EntObsM(T, x.ent),
                       noff |-> RNextOff(T, E, x.r), ndepth |-> x.r.depth]

ROBsEntryN(T, E, x) == [ret |-> IF x.ent.null THEN "null" ELSE "entry", off |-> x.ent.off, depth |-> x.ent.depth,
                        ent |-> IF x.ent.null THEN "null" ELSE EntObsMN(T, x.ent),
                        noff |-> RNextOff(T, E, x.r), ndepth |-> x.r.depth]

(* ===================== the property, on the forest ====================== *)
(* Abstract cursor position: [c, z]; c = index of the token the cursor is  *)
(* at (0 = nothing read yet), z = the end of the unit was reported.        *)
TokOf(T, v) == CHOOSE i \in DOMAIN T : T[i].k = "e" /\ T[i].node = v
DAfter(T, i) == T[i].d + (IF T[i].k = "n" THEN -1 ELSE IF T[i].hc THEN 1 ELSE 0)
AInit(start) == [c |-> start - 1, z |-> FALSE, first |-> TRUE]
AEnd == [c |-> 0, z |-> TRUE, first |-> FALSE]
ANextP(T, a) == IF a.z THEN Len(T) + 1 ELSE a.c + 1
ANextEntry(T, a) == IF ANextP(T, a) > Len(T) THEN [a |-> AEnd, ret |-> FALSE]
                    ELSE [a |-> [c |-> a.c + 1, z |-> FALSE, first |-> FALSE], ret |-> TRUE]
ANextDfs(T, a) == LET S == {j \in ANextP(T, a)..Len(T) : T[j].k = "e"} IN
                  IF S = {} THEN [a |-> AEnd, ret |-> FALSE]
                  ELSE [a |-> [c |-> SetMin(S), z |-> FALSE, first |-> FALSE], ret |-> TRUE]
ANextSibling(T, F, a) ==
    IF a.z \/ a.first \/ T[a.c].k = "n" THEN [a |-> a, ret |-> FALSE]
    ELSE LET v == T[a.c].node
             w == NextSib(F, v) IN
         IF w # 0 THEN [a |-> [c |-> TokOf(T, w), z |-> FALSE, first |-> FALSE], ret |-> TRUE]
         ELSE LET j == AfterSub(T, a.c) IN
              IF j <= Len(T) THEN [a |-> [c |-> j, z |-> FALSE, first |-> FALSE], ret |-> FALSE]
              ELSE [a |-> AEnd, ret |-> FALSE]
EntObsA(T, i, b) == [off |-> T[i].off, depth |-> T[i].d - b, tag |-> T[i].tag, hc |-> T[i].hc, attrs |-> T[i].attrs]
(* navigation observations carry the attribute count only (attribute values are compared in *)
(* the raw-reading and entry(offset) cases of the same stream)                               *)
EntObsN(T, i, b) == [off |-> T[i].off, depth |-> T[i].d - b, tag |-> T[i].tag, hc |-> T[i].hc, nattrs |-> Len(T[i].attrs)]
(* b = structural depth of the entry where reading started *)
CObsA(T, E, a, ret, b) ==
    LET p == ANextP(T, a)
        atEnt == ~a.z /\ ~a.first /\ T[a.c].k = "e"
        base == [ret |-> ret, cur |-> IF atEnt THEN EntObsN(T, a.c, b) ELSE "null",
                 noff |-> IF p <= Len(T) THEN T[p].off ELSE E,
                 ndepth |-> IF p <= Len(T) THEN T[p].d - b ELSE DAfter(T, Len(T)) - b] IN
    IF a.z THEN base
    ELSE IF a.first THEN base @@ [off |-> 0, depth |-> 0]
    ELSE base @@ [off |-> T[a.c].off, depth |-> T[a.c].d - b]
(* raw reading: the i-th read reports token i *)
RObsA(T, E, i, b) ==
    [ret |-> IF T[i].k = "n" THEN "null" ELSE "entry", off |-> T[i].off, depth |-> T[i].d - b,
     ent |-> IF T[i].k = "n" THEN "null" ELSE EntObsA(T, i, b),
     noff |-> IF i + 1 <= Len(T) THEN T[i + 1].off ELSE E,
     ndepth |-> DAfter(T, i) - b]

RObsN(T, E, i, b) == [RObsA(T, E, i, b) EXCEPT !.ent = IF T[i].k = "n" THEN "null" ELSE EntObsN(T, i, b)]

(* Abstract tree position: stack of [v, k, done] (node whose children are  *)
(* iterated, how many were returned, exhausted), live = node held or 0.     *)
ATInit(v0) == [root |-> v0, stk |-> <<>>, live |-> 0]
ATRoot(at) == [at EXCEPT !.stk = <<>>, !.live = at.root]
ATDescend(at) == [at EXCEPT !.stk = Append(@, [v |-> at.live, k |-> 0, done |-> FALSE]), !.live = 0]
ATAscend(at) == [at EXCEPT !.stk = SubSeq(@, 1, Len(@) - 1), !.live = 0]
ATNextChild(F, at) ==
    LET n == Len(at.stk)
        top == at.stk[n]
        kids == Kids(F, top.v) IN
    IF top.done \/ top.k >= Len(kids) THEN [at EXCEPT !.stk[n].done = TRUE, !.live = 0]
    ELSE [at EXCEPT !.stk[n].k = top.k + 1, !.live = kids[top.k + 1]]
TObsA(T, F, at) == IF at.live = 0 THEN [ret |-> "none"]
                   ELSE [ret |-> "entry", ent |-> EntObsN(T, TokOf(T, at.live), NDepth(F, at.root))]
TObsM(T, t, ret) == IF ~ret THEN [ret |-> "none"] ELSE [ret |-> "entry", ent |-> EntObsMN(T, t.ent)]

(* ===================== consistency of a token table ===================== *)
(* Used by trace validation on token streams reported by the implementation: *)
(* depths follow from nulls / has_children, offsets increase, sibling       *)
(* references point just past the subtree.                                   *)
RECURSIVE DepthsOk(_, _, _)
DepthsOk(T, i, d) == IF i > Len(T) THEN TRUE
                     ELSE T[i].d = d /\ DepthsOk(T, i + 1, IF T[i].k = "n" THEN d - 1 ELSE IF T[i].hc THEN d + 1 ELSE d)
=============================================================================
