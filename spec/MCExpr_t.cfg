INIT Init
NEXT Next
INVARIANT MachineInv
INVARIANT Emit
CONSTRAINT Horizon
CHECK_DEADLOCK FALSE
CONSTANTS
  Alpha = {"abs", "and", "div", "minus", "mod", "mul", "neg", "not", "or", "plus", "shl", "shr", "shra", "xor", "eq", "ge", "gt", "le", "lt", "ne", "dup", "drop", "over", "pick2", "swap", "rot", "lit0", "lit1", "lit2", "lit7", "lit8", "c80", "cff", "c7f", "c181", "cm2", "nop", "bra1", "skip1", "skipb", "brab", "skipbad", "skipend", "reg0", "regx", "stackv", "piece1", "bitpiece", "implv", "implp", "deref", "derefsz", "derefbig", "xderef", "dereft", "breg0", "bregx", "regvalt", "fbreg", "cfa", "tls", "addr", "addrx", "constx", "call2", "callref", "entryv", "paramref", "consttype", "convert", "convert0", "reinterp", "pushobj", "plusu", "wasm", "uninit", "bad", "trunc"}
  MaxLen = 2
  MaxIters = {3}
  Stores = {"heap", "small"}
  Inits = {"none", "some"}
