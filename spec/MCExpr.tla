------------------------------ MODULE MCExpr ------------------------------
(***************************************************************************)
(* Bounded exploration of the expression evaluator on an 8-bit target      *)
(* (address size 1 is a configuration gimli accepts; every generic value   *)
(* is enumerable).  TLC builds every program of at most MaxLen symbols     *)
(* over the alphabet `Alpha`, runs it step by step with every choice of    *)
(* resume answer, checks the machine invariants in every state, and emits  *)
(* one replay case per terminated behaviour.                               *)
(***************************************************************************)
EXTENDS Expr, TLC, Json
CONSTANTS Alpha,        \* set of symbol names (subset of DOMAIN Sym)
          MaxLen,       \* maximum number of symbols in a program
          MaxIters,     \* set of iteration limits to explore (999 = no limit)
          Stores,       \* subset of {"heap", "small"}
          Inits         \* subset of {"none", "some"}: initial value pushed by evaluate()
VARIABLES phase, prog, st, script, events, cf

(* symbol -> bytes, for asz = 1, little endian, DWARF32, version 4 *)
Sym == [
  abs |-> <<25>>, and |-> <<26>>, div |-> <<27>>, minus |-> <<28>>, mod |-> <<29>>, mul |-> <<30>>,
  neg |-> <<31>>, not |-> <<32>>, or |-> <<33>>, plus |-> <<34>>, shl |-> <<36>>, shr |-> <<37>>,
  shra |-> <<38>>, xor |-> <<39>>, eq |-> <<41>>, ge |-> <<42>>, gt |-> <<43>>, le |-> <<44>>,
  lt |-> <<45>>, ne |-> <<46>>,
  dup |-> <<18>>, drop |-> <<19>>, over |-> <<20>>, pick2 |-> <<21, 2>>, swap |-> <<22>>, rot |-> <<23>>,
  lit0 |-> <<48>>, lit1 |-> <<49>>, lit2 |-> <<50>>, lit7 |-> <<55>>, lit8 |-> <<56>>,
  c80 |-> <<8, 128>>, cff |-> <<8, 255>>, c7f |-> <<8, 127>>, c181 |-> <<10, 129, 1>>, c102 |-> <<10, 2, 1>>, c100 |-> <<10, 0, 1>>, cm2 |-> <<17, 126>>,
  nop |-> <<150>>, bra1 |-> <<40, 1, 0>>, skip1 |-> <<47, 1, 0>>, skipb |-> <<47, 253, 255>>,
  brab |-> <<40, 251, 255>>, skipbad |-> <<47, 100, 0>>, skipend |-> <<47, 0, 0>>,
  reg0 |-> <<80>>, regx |-> <<144, 200, 1>>, stackv |-> <<159>>, piece1 |-> <<147, 1>>, bitpiece |-> <<157, 8, 3>>,
  implv |-> <<158, 1, 170>>, implp |-> <<160, 5, 0, 0, 0, 127>>,
  deref |-> <<6>>, derefsz |-> <<148, 1>>, derefbig |-> <<148, 2>>, xderef |-> <<24>>,
  dereft |-> <<166, 1, 9>>, breg0 |-> <<112, 1>>, bregx |-> <<146, 3, 127>>, regvalt |-> <<165, 2, 9>>,
  fbreg |-> <<145, 127>>, cfa |-> <<156>>, tls |-> <<155>>, addr |-> <<3, 128>>, addrx |-> <<161, 2>>, constx |-> <<162, 3>>,
  call2 |-> <<152, 7, 0>>, callref |-> <<154, 9, 0, 0, 0>>, entryv |-> <<163, 1, 49>>, paramref |-> <<250, 4, 0, 0, 0>>,
  consttype |-> <<164, 9, 2, 255, 1>>, convert |-> <<168, 9>>, convert0 |-> <<168, 0>>, reinterp |-> <<169, 9>>,
  pushobj |-> <<151>>, plusu |-> <<35, 129, 1>>, wasm |-> <<237, 0, 5>>, uninit |-> <<240>>, bad |-> <<2>>, trunc |-> <<10, 1>>
]

ValueAnswers == { V("generic", <<128, 1, 0, 0, 0, 0, 0, 0>>),   \* 0x180: must be reduced to 0x80
                  V("generic", <<2, 0, 0, 0, 0, 0, 0, 0>>),
                  V("u8", <<255>>), V("i8", <<128>>), V("u16", <<0, 1>>), V("f32", <<0, 0, 128, 63>>) }
U64Answers   == { <<0, 0, 0, 0, 0, 0, 0, 0>>, <<127, 1, 0, 0, 0, 0, 0, 0>>, <<255, 255, 255, 255, 255, 255, 255, 255>> }
ByteAnswers  == { <<>>, <<49>>, <<50, 159>>, <<47, 0, 0>> }
TypeAnswers  == { "generic", "u8", "i8", "u16", "f32" }

Cfg(mi, store, init) ==
    [asz |-> 1, fmt |-> 4, ver |-> 4, le |-> TRUE, maxiter |-> IF mi = 999 THEN -1 ELSE mi,
     obj |-> <<5, 1, 0, 0, 0, 0, 0, 0>>,
     cap |-> IF store = "small" THEN 2 ELSE 0, ecap |-> IF store = "small" THEN 1 ELSE 0,
     pcap |-> IF store = "small" THEN 2 ELSE 0, store |-> store,
     init |-> IF init = "some" THEN <<3, 1, 0, 0, 0, 0, 0, 0>> ELSE <<>>]

RECURSIVE Flatten(_)
Flatten(p) == IF p = <<>> THEN <<>> ELSE Sym[Head(p)] \o Flatten(Tail(p))

vars == <<phase, prog, st, script, events, cf>>

Init == /\ phase = "build" /\ prog = <<>> /\ st = "none" /\ script = <<>> /\ events = <<>>
        /\ cf \in {Cfg(mi, s, i) : mi \in MaxIters, s \in Stores, i \in Inits}

Build == /\ phase = "build" /\ Len(prog) < MaxLen
         /\ \E s \in Alpha : prog' = Append(prog, s)
         /\ UNCHANGED <<phase, st, script, events, cf>>
Launch == /\ phase = "build"
          /\ phase' = "run"
          /\ st' = Start(cf, Flatten(prog), cf.init)
          /\ UNCHANGED <<prog, script, events, cf>>
StepA == /\ phase = "run" /\ st.mode = "ready"
         /\ st' = Step(st, cf)
         /\ events' = IF st'.mode = "wait" THEN Append(events, st'.req) ELSE events
         /\ UNCHANGED <<phase, prog, script, cf>>
ResumeA == /\ phase = "run" /\ st.mode = "wait"
           /\ \E ans \in (CASE AnsKind(st.wk) = "value" -> {[a |-> "value", v |-> x] : x \in ValueAnswers}
                            [] AnsKind(st.wk) = "u64" -> {[a |-> "u64", v |-> x] : x \in U64Answers}
                            [] AnsKind(st.wk) = "bytes" -> {[a |-> "bytes", code |-> x] : x \in ByteAnswers}
                            [] OTHER -> {[a |-> "type", t |-> x] : x \in TypeAnswers}) :
                /\ st' = Resume(st, cf, ans)
                /\ script' = Append(script, ans)
           /\ UNCHANGED <<phase, prog, events, cf>>
Next == Build \/ Launch \/ StepA \/ ResumeA

Running == phase = "run"
Terminal == Running /\ st.mode \in {"complete", "error", "opaque"}

(* design-level invariants of the machine *)
MachineInv == Running =>
    /\ IterBound(st, cf) /\ PcBound(st) /\ CapBound(st, cf) /\ GenericWidth(st, cf)
    /\ (st.mode = "error" /\ st.err = "TooManyIterations" => cf.maxiter >= 0 /\ st.iter = cf.maxiter + 1)
    /\ (st.mode = "complete" => st.pieces # <<>>)

Emit == Terminal =>
    PrintT(<<"CASE", ToJson([sys |-> "expr", asz |-> cf.asz, fmt |-> cf.fmt, ver |-> cf.ver, le |-> cf.le,
                             code |-> Flatten(prog), prog |-> prog, maxiter |-> cf.maxiter, obj |-> cf.obj, init |-> cf.init,
                             store |-> cf.store, script |-> script,
                             exp |-> [events |-> events, final |-> Outcome(st), iter |-> st.iter]])>>)

(* runs that never terminate within the iteration horizon are cut (only possible without a limit) *)
Horizon == phase = "build" \/ st.iter <= 12
=============================================================================
