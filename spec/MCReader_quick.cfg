INIT Init
NEXT Next
INVARIANT Inv
VIEW View
CHECK_DEADLOCK FALSE
CONSTANTS
  Tier = "quick"
