INIT Init
NEXT Next
INVARIANT Inv
CHECK_DEADLOCK FALSE
CONSTANTS
  MaxEntries = 2
