---------------------------- MODULE MCUnitWriter ----------------------------
(* Bounded exploration of builder call scripts for C11.                      *)
(*                                                                            *)
(* Mode "kinds": a fixed two-unit skeleton in which forward, backward and     *)
(* cross-unit references jump over one probe attribute; the probe ranges over *)
(* every write::AttributeValue kind with boundary payloads, the encodings     *)
(* over versions x formats x address sizes.  If the size the writer predicts  *)
(* for the probe differed from what it emits, every later offset would shift  *)
(* and the references would resolve elsewhere.                                *)
(*                                                                            *)
(* Mode "builder": call sequences - add / reserve / add_reserved in any       *)
(* interleaving (reserved ids added out of order, or never), base types at    *)
(* any child position of the root, then modifier calls: references to any id  *)
(* (added, reserved only, deleted), cross-unit references in both directions, *)
(* sibling flags, delete_child, set replacing an attribute, delete.           *)
(*                                                                            *)
(* Mode "wide": a directed family of wide units - a root with 21, 24 or 40    *)
(* children that carry identity names, DW_TAG_base_type children at the       *)
(* front / middle / last / several non-adjacent positions, references between *)
(* them and from a second unit.  Expected order after reorder_base_types:     *)
(* the base types in their original relative order, then all other children   *)
(* in their original order (an unstable or partial reordering only shows      *)
(* beyond ~20 children).                                                      *)
(*                                                                            *)
(* Mode "lists": units whose entries reference two or three distinct range   *)
(* lists and location lists in insertion order, drawn from a pool (a list     *)
(* with a base address entry + offset pair, start/end, start/length, offset   *)
(* pair only, an empty range, a default location), root without / with zero / *)
(* with non-zero DW_AT_low_pc, DWARF 2-5.  The per-list state of the writers  *)
(* (have_base_address) must not leak between lists; expected outcome and list *)
(* meanings come from ListWriter.tla (C16's model).                           *)
(*                                                                            *)
(* Mode "twins": sibling entries of the same shape (tag, attribute names and  *)
(* forms) that differ only in the VALUE of one attribute, for every attribute *)
(* kind and every pair of its probe payloads, plus a third entry repeating    *)
(* the first value, and reference twins.  The abbreviation table must merge   *)
(* exactly the entries whose abbreviations are equal INCLUDING the            *)
(* implicit-const value (key = tag, has_children, list of name, form, constant),  *)
(* and every entry must read back with its own values.                        *)
(*                                                                            *)
(* Mode "files": unit version x line program version as independent           *)
(* dimensions (all 16 pairs), FileIndex attributes naming the added files on   *)
(* attached entries (and, in a variant, only on a detached one): the write is  *)
(* refused with IncompatibleLineProgramEncoding, or every file attribute       *)
(* resolves to the file that was added, DW_AT_stmt_list to the unit's program. *)
(*                                                                            *)
(* Every final state: the spec's size table is checked against its emit table *)
(* (Size = Len(Emit)), the layout is checked for self-consistency, and one    *)
(* replay case is emitted with the expected read-back or the expected error.  *)
EXTENDS UnitWriter, TLC, Json
CONSTANTS Mode, MaxS, MaxM, MaxUnits, Salt, EmitMod, AllPlacements
VARIABLE c

Rep(b, n) == [i \in 1..n |-> b]
N(n) == Nat8(n)
P32 == <<0, 0, 0, 0, 1, 0, 0, 0>>             \* 2^32
M32 == <<255, 255, 255, 255, 0, 0, 0, 0>>     \* 2^32 - 1
M64 == Ones(8)
MinI == <<0, 0, 0, 0, 0, 0, 0, 128>>
MaxI == <<255, 255, 255, 255, 255, 255, 255, 127>>
Pat16 == [i \in 1..16 |-> 15 * i + 1]
Neg8(n) == Neg(N(n))

(* the digit-wise LEB encoders of UnitWriter agree with Leb.tla: equal to the   *)
(* recursive encoders on short values, and decode (mathematical meaning) to the *)
(* value on the long boundary values                                            *)
LebSmall == {N(0), N(1), N(63), N(64), N(127), N(128), N(255), N(16383), N(16384), N(65535)}
LebBig == {P32, M64, MinI, MaxI}
ASSUME \A x \in LebSmall : ULeb(x) = EncU(x) /\ SLeb(x) = EncS(x)
ASSUME \A x \in {Neg8(1), Neg8(64), Neg8(65), Neg8(8192), Neg8(8193)} : SLeb(x) = EncS(x)
ASSUME \A x \in LebSmall \cup LebBig : /\ AllowedU(ULeb(x), 8, 10) = {Ok(x, Len(ULeb(x)))}
                                       /\ AllowedS(SLeb(x)) = {Ok(x, Len(SLeb(x)))}
ASSUME \A n \in {0, 1, 127, 128, 129, 16383, 16384, 65535} : ULebNat(n) = ULeb(N(n))
ASSUME Len(ULeb(M64)) = 10 /\ Len(SLeb(MinI)) = 10 /\ Len(SLeb(MaxI)) = 10 /\ Len(ULeb(P32)) = 5

V(k, v) == [k |-> k, v |-> v]
Probes ==
    {V("Address", x) : x \in {N(0), N(1), N(255), N(256), N(65535), N(65536), M32, P32, M64}}
    \cup {[k |-> "Block", b |-> Rep(7, n)] : n \in {0, 1, 127, 128}}
    \cup {V("Data1", x) : x \in {N(0), N(255)}} \cup {V("Data2", x) : x \in {N(1), N(65535)}}
    \cup {V("Data4", x) : x \in {N(2), M32}} \cup {V("Data8", x) : x \in {N(3), M64}}
    \cup {V("Data16", Pat16), V("Data16", Rep(255, 16))}
    \cup {V("Sdata", x) : x \in {N(0), N(63), N(64), Neg8(64), Neg8(65), Neg8(1), MinI, MaxI}}
    \cup {V("Udata", x) : x \in {N(0), N(127), N(128), N(16383), N(16384), M64}}
    \cup {V("ImplicitConst", x) : x \in {N(0), Neg8(1), N(64)}}
    \cup {[k |-> "Exprloc", b |-> Rep(150, n)] : n \in {0, 1, 127, 128}}     \* DW_OP_nop bytes
    \cup {[k |-> "Exprloc", ops |-> o] : o \in
            {<<[op |-> "constu", v |-> x]>> : x \in {N(0), N(31), N(32), P32}}
            \cup {<<[op |-> "deref_type", size |-> 4, e |-> 6]>>, <<[op |-> "convert", e |-> 6]>>,      \* the base type, moved first
                  <<[op |-> "deref_type", size |-> 8, e |-> 4]>>, <<[op |-> "convert", e |-> 2]>>,      \* forward / backward by placement
                  <<[op |-> "call", e |-> 5]>>, <<[op |-> "call_ref", u |-> 2, e |-> 2]>>, <<[op |-> "call_ref", u |-> 1, e |-> 4]>>,
                  <<[op |-> "constu", v |-> N(5)], [op |-> "deref_type", size |-> 1, e |-> 6], [op |-> "call", e |-> 4]>>}}
    \cup {V("Flag", TRUE), V("Flag", FALSE), [k |-> "FlagPresent"]}
    \cup {V("DebugInfoRefSup", x) : x \in {N(0), M32, P32}}
    \cup {V("DebugStrRefSup", x) : x \in {N(5), P32}}
    \cup {V("DebugMacinfoRef", x) : x \in {N(0), P32}} \cup {V("DebugMacroRef", x) : x \in {N(9), M32}}
    \cup {V("DebugTypesRef", x) : x \in {<<1, 2, 3, 4, 5, 6, 7, 8>>, M64}}
    \cup {[k |-> "StringRef", s |-> x] : x \in {<<>>, <<97>>, <<110, 48>>}}   \* "n0" duplicates a skeleton string
    \cup {[k |-> "LineStringRef", s |-> x] : x \in {<<>>, <<108, 115>>}}
    \cup {[k |-> "String", s |-> x] : x \in {<<>>, <<97, 98>>, Rep(120, 130)}}
    \cup {V(k, x) : k \in ConstKinds \ {"Language", "AddressClass"}, x \in {N(0), N(127), N(128), N(255)}}
    \cup {V("Language", x) : x \in {N(1), N(128), N(65535)}}
    \cup {V("AddressClass", x) : x \in {N(0), M64}}
    \cup {[k |-> "FileIndex", v |-> <<>>]}
    \cup {[k |-> "LineProgramRef"]}
    \cup {V("LocationListRef", N(1)), V("RangeListRef", N(2))}

(* the attribute name under which a kind is set, so that the reader classifies it *)
NameOf(val) ==
    LET k == val.k IN
    CASE k = "Address" -> "DW_AT_low_pc"
      [] k = "Block" -> "DW_AT_const_value"
      [] k \in {"Data1", "Data2", "Data4", "Data8", "Data16", "Sdata", "Udata", "ImplicitConst"} -> "DW_AT_const_value"
      [] k = "Exprloc" -> "DW_AT_location"
      [] k \in {"Flag", "FlagPresent"} -> "DW_AT_external"
      [] k \in {"UnitRef", "DebugInfoRef"} -> "DW_AT_type"
      [] k = "DebugInfoRefSup" -> "DW_AT_abstract_origin"
      [] k = "DebugStrRefSup" -> "DW_AT_producer"
      [] k = "DebugMacinfoRef" -> "DW_AT_macro_info"
      [] k = "DebugMacroRef" -> "DW_AT_macros"
      [] k = "DebugTypesRef" -> "DW_AT_signature"
      [] k \in {"StringRef", "LineStringRef", "String"} -> "DW_AT_linkage_name"
      [] k = "Encoding" -> "DW_AT_encoding" [] k = "DecimalSign" -> "DW_AT_decimal_sign"
      [] k = "Endianity" -> "DW_AT_endianity" [] k = "Accessibility" -> "DW_AT_accessibility"
      [] k = "Visibility" -> "DW_AT_visibility" [] k = "Virtuality" -> "DW_AT_virtuality"
      [] k = "Language" -> "DW_AT_language" [] k = "AddressClass" -> "DW_AT_address_class"
      [] k = "IdentifierCase" -> "DW_AT_identifier_case" [] k = "CallingConvention" -> "DW_AT_calling_convention"
      [] k = "Inline" -> "DW_AT_inline" [] k = "Ordering" -> "DW_AT_ordering"
      [] k = "FileIndex" -> "DW_AT_decl_file"
      [] k = "LineProgramRef" -> "DW_AT_stmt_list"
      [] k = "LocationListRef" -> "DW_AT_frame_base"
      [] k = "RangeListRef" -> "DW_AT_ranges"

-----------------------------------------------------------------------------
(* calls / scripts: ApplyCall, Apply, Start are defined in UnitWriter.tla      *)
Enc(v, w, a) == [version |-> v, word |-> w, asz |-> a]
SetCall(u, e, name, val) == [op |-> "set", u |-> u, e |-> e, name |-> name, val |-> val]
AddCall(u, p, tag) == [op |-> "add", u |-> u, p |-> p, tag |-> tag]

-----------------------------------------------------------------------------
(* Mode "kinds" *)
(* unit 1: 2 = A subprogram, 3 = B variable, 4 = C structure_type, 5 = member of C, 6 = base type (moves first) *)
(* unit 2: 2 = variable                                                                                      *)
Skeleton(probe, where, sib) ==
    <<AddCall(1, 1, "DW_TAG_subprogram"), AddCall(1, 1, "DW_TAG_variable"), AddCall(1, 1, "DW_TAG_structure_type"),
      AddCall(1, 4, "DW_TAG_member"), AddCall(1, 1, "DW_TAG_base_type"), AddCall(2, 1, "DW_TAG_variable"),
      SetCall(1, 4, "DW_AT_name", [k |-> "StringRef", s |-> <<110, 48>>]),
      SetCall(1, 6, "DW_AT_name", [k |-> "StringRef", s |-> <<110, 48>>])>>
    \o (IF where = "A" THEN <<SetCall(1, 2, NameOf(probe), probe)>> ELSE <<>>)
    \o <<SetCall(1, 2, "DW_AT_specification", [k |-> "UnitRef", e |-> 4]),                  \* forward, over B
         SetCall(1, 2, "DW_AT_import", [k |-> "DebugInfoRef", u |-> 2, e |-> 2]),           \* forward, cross-unit
         SetCall(1, 2, "DW_AT_object_pointer", [k |-> "DebugInfoRef", u |-> 1, e |-> 5]),   \* forward, same unit
         SetCall(1, 5, "DW_AT_containing_type", [k |-> "UnitRef", e |-> 2]),                \* backward
         SetCall(1, 5, "DW_AT_friend", [k |-> "UnitRef", e |-> 6]),                         \* to the reordered base type
         SetCall(2, 2, "DW_AT_abstract_origin", [k |-> "DebugInfoRef", u |-> 1, e |-> 4])>> \* backward, cross-unit
    \o (IF where = "B" THEN <<SetCall(1, 3, NameOf(probe), probe)>> ELSE <<>>)
    \o (IF where = "root" THEN <<SetCall(1, 1, NameOf(probe), probe)>> ELSE <<>>)
    \o (IF where = "C" THEN <<SetCall(1, 4, NameOf(probe), probe)>> ELSE <<>>)
    \o (IF sib THEN <<[op |-> "sibling", u |-> 1, e |-> 4, v |-> TRUE], [op |-> "sibling", u |-> 1, e |-> 1, v |-> TRUE]>> ELSE <<>>)

Places == <<"B", "root", "A", "C">>
KindsFan == /\ c.stage = -1
            /\ \E k \in {p.k : p \in Probes} : \E v \in {2, 3, 4, 5} : c' = [stage |-> 0, pk |-> k, v |-> v]
KindsNext ==
    /\ c.stage = 0
    /\ \E probe \in {p \in Probes : p.k = c.pk} : \E v \in {c.v} : \E w \in {4, 8} :
       \E a \in (IF AllPlacements \/ probe.k = "Address" THEN {1, 2, 4, 8} ELSE {<<1, 2, 4, 8>>[((Salt + v + w + Len(NameOf(probe))) % 4) + 1]}) :
       \E pl \in (IF AllPlacements THEN 1..4 ELSE {((Salt + v + a + Len(NameOf(probe))) % 4) + 1}) :
       \E sib \in (IF AllPlacements THEN BOOLEAN ELSE {(Salt + v + w + a) % 3 = 0}) :
         LET v2 == <<2, 3, 4, 5>>[((v + a + Salt) % 4) + 1]
             w2 == IF (v + Salt) % 2 = 0 THEN w ELSE 12 - w
         IN c' = [stage |-> 1, encs |-> <<Enc(v, w, a), Enc(v2, w2, a)>>,
                  calls |-> Skeleton(probe, Places[pl], sib), be |-> (v + w + a + Salt) % 5 = 0,
                  probe |-> probe.k]
(* unencodable configurations: bad versions, an address size without a fixed-width writer *)
BadNext ==
    /\ c.stage = -1
    /\ \E v \in {0, 1, 6} : \E w \in {4, 8} :
         c' = [stage |-> 1, encs |-> <<Enc(v, w, 4), Enc(4, w, 4)>>,
               calls |-> Skeleton(V("Data1", N(1)), "B", FALSE), be |-> FALSE, probe |-> "badversion"]
Bad3Next ==
    /\ c.stage = -1
    /\ \E v \in {2, 4, 5} : \E probe \in {V("Address", N(1)), V("Address", N(0))} :
         c' = [stage |-> 1, encs |-> <<Enc(v, 4, 3), Enc(v, 4, 3)>>,
               calls |-> Skeleton(probe, "B", FALSE), be |-> FALSE, probe |-> "asz3"]

-----------------------------------------------------------------------------
(* Mode "wide" *)
ChildName(i) == <<99, 48 + (i \div 10), 48 + (i % 10)>>          \* "c07"
WidePatterns(n) == { {1}, {n \div 2}, {n}, {3, n - 2}, {2, n \div 2, n}, {1, 2, n - 1}, {n - 1, n}, {5, 6, 13, 20} }
RECURSIVE WideAdds(_, _, _)
WideAdds(n, bases, i) ==
    IF i > n THEN <<>>
    ELSE <<AddCall(1, 1, IF i \in bases THEN "DW_TAG_base_type"
                        ELSE IF i % 3 = 0 THEN "DW_TAG_structure_type" ELSE "DW_TAG_variable"),
           SetCall(1, i + 1, "DW_AT_name", [k |-> "String", s |-> ChildName(i)])>> \o WideAdds(n, bases, i + 1)
(* child i is entry i + 1 of unit 1 *)
WideScript(n, bases) ==
    LET b1 == CHOOSE x \in bases : \A y \in bases : x <= y
        bl == CHOOSE x \in bases : \A y \in bases : y <= x
        nb == CHOOSE x \in 1..n : x \notin bases IN
    WideAdds(n, bases, 1)
    \o <<AddCall(1, nb + 1, "DW_TAG_member"),                                        \* a grandchild keeps its parent
         SetCall(1, nb + 1, "DW_AT_type", [k |-> "UnitRef", e |-> bl + 1]),          \* to the last base type
         SetCall(1, n + 1, "DW_AT_type", [k |-> "UnitRef", e |-> 2]),                \* last child -> first child
         SetCall(1, b1 + 1, "DW_AT_byte_size", [k |-> "Udata", v |-> N(b1)]),
         SetCall(1, n + 2, "DW_AT_type", [k |-> "UnitRef", e |-> b1 + 1]),           \* the grandchild -> first base type
         AddCall(2, 1, "DW_TAG_variable"),
         SetCall(2, 2, "DW_AT_type", [k |-> "DebugInfoRef", u |-> 1, e |-> bl + 1]),
         SetCall(1, 2, "DW_AT_import", [k |-> "DebugInfoRef", u |-> 2, e |-> 2])>>
WideFan == /\ c.stage = 0 /\ "n" \notin DOMAIN c
           /\ \E n \in {21, 24, 40} : \E bases \in WidePatterns(n) : c' = [stage |-> 0, n |-> n, bases |-> bases]
WideNext ==
    /\ c.stage = 0 /\ "n" \in DOMAIN c
    /\ LET n == c.n  bases == c.bases
           v == <<4, 5, 2, 3>>[((n + Cardinality(bases) + Salt) % 4) + 1]
           w == IF (n + Salt + Cardinality(bases)) % 2 = 0 THEN 4 ELSE 8 IN
       c' = [stage |-> 1, encs |-> <<Enc(v, w, 8), Enc(5, 12 - w, 4)>>, calls |-> WideScript(n, bases),
             be |-> (n + Cardinality(bases) + Salt) % 3 = 0, probe |-> "wide"]

-----------------------------------------------------------------------------
(* Mode "lists" *)
RPool == [A |-> <<LW!Ent("base", N(8192), Zero(8), <<>>), LW!Ent("opair", N(16), N(32), <<>>)>>,
          B |-> <<LW!Ent("se", N(256), N(512), <<>>)>>,
          C |-> <<LW!Ent("slen", N(768), N(64), <<>>)>>,
          D |-> <<LW!Ent("opair", N(16), N(32), <<>>)>>,
          E |-> <<LW!Ent("se", N(256), N(256), <<>>)>>,
          F |-> <<LW!Ent("se", N(4096), N(4100), <<>>), LW!Ent("slen", N(5000), N(7), <<>>)>>]
WithExpr(L, x) == [i \in DOMAIN L |-> IF L[i].k = "base" THEN L[i] ELSE [L[i] EXCEPT !.d = <<80 + x + i>>]]
LPool == [A |-> WithExpr(RPool.A, 0), B |-> WithExpr(RPool.B, 2), C |-> WithExpr(RPool.C, 4), D |-> WithExpr(RPool.D, 6),
          E |-> WithExpr(RPool.E, 8), F2 |-> WithExpr(RPool.F, 10), F |-> <<LW!Ent("defloc", Zero(8), Zero(8), <<95>>), LW!Ent("se", N(256), N(512), <<94>>)>>]
ListSeqs == {<<x, y>> : x \in {"A", "B", "C", "D", "E", "F"}, y \in {"A", "B", "C", "D", "E", "F"}}
            \cup {<<x, y, z>> : x \in {"A", "B"}, y \in {"A", "B", "C", "D"}, z \in {"B", "C", "D"}}
LowPcs == <<<<>>, <<N(0)>>, <<N(4096)>>>>
RECURSIVE ListCalls(_, _, _)
(* child i + 1 of unit 1 references range list rs[i] and location list ls[i] *)
ListCalls(rs, ls, i) ==
    IF i > Len(rs) THEN <<>>
    ELSE <<AddCall(1, 1, "DW_TAG_subprogram"),
           SetCall(1, i + 1, "DW_AT_ranges", [k |-> "RangeListRef", list |-> RPool[rs[i]]]),
           SetCall(1, i + 1, "DW_AT_frame_base", [k |-> "LocationListRef", list |-> LPool[ls[i]]])>> \o ListCalls(rs, ls, i + 1)
ListsFan == /\ c.stage = 0 /\ "v" \notin DOMAIN c
            /\ \E v \in {2, 3, 4, 5} : \E lp \in 1..3 : c' = [stage |-> 0, v |-> v, lp |-> lp]
ListsNext ==
    /\ c.stage = 0 /\ "v" \in DOMAIN c
    /\ \E rs \in ListSeqs :
         (* the location lists follow the same pattern, rotated so that the two tables differ *)
         LET ls == IF (Len(rs) + c.v + Salt) % 2 = 0 THEN rs ELSE [i \in DOMAIN rs |-> rs[Len(rs) + 1 - i]]
             w == IF (c.v + c.lp + Salt) % 2 = 0 THEN 4 ELSE 8
             a == IF (c.v + Len(rs) + Salt) % 3 = 0 THEN 4 ELSE 8 IN
         c' = [stage |-> 1, encs |-> <<Enc(c.v, w, a), Enc(c.v, w, a)>>,
               calls |-> (IF LowPcs[c.lp] = <<>> THEN <<>>
                          ELSE <<SetCall(1, 1, "DW_AT_low_pc", V("Address", LowPcs[c.lp][1]))>>)
                         \o ListCalls(rs, ls, 1)
                         \o <<AddCall(2, 1, "DW_TAG_subprogram"),
                              SetCall(2, 2, "DW_AT_ranges", [k |-> "RangeListRef", list |-> RPool.B]),
                              SetCall(2, 2, "DW_AT_frame_base", [k |-> "LocationListRef", list |-> LPool.C])>>,
               be |-> (c.v + c.lp + Len(rs) + Salt) % 4 = 0, probe |-> "lists"]
ListRef(L, u, e) == [i \in DOMAIN L |-> IF L[i].k = "base" THEN L[i] ELSE L[i] @@ [ref |-> [u |-> u, e |-> e]]]
(* location-list expressions with entry references (same unit backward / forward, *)
(* cross-unit both ways) in a Dwarf that mixes a version 5 unit with an older one, *)
(* both with location lists                                                       *)
ListRefsNext ==
    /\ c.stage = 0 /\ "v" \in DOMAIN c /\ c.lp <= 2
    /\ \E w \in {4, 8} : \E swap \in BOOLEAN :
         LET v2 == IF c.v = 5 THEN 4 ELSE 5
             va == IF swap THEN v2 ELSE c.v
             vb == IF swap THEN c.v ELSE v2 IN
         c' = [stage |-> 1, encs |-> <<Enc(va, w, 8), Enc(vb, 12 - w, 8)>>,
               calls |-> (IF LowPcs[c.lp] = <<>> THEN <<>>
                          ELSE <<SetCall(1, 1, "DW_AT_low_pc", V("Address", LowPcs[c.lp][1]))>>)
                         \o <<AddCall(1, 1, "DW_TAG_subprogram"), AddCall(1, 1, "DW_TAG_variable"), AddCall(1, 1, "DW_TAG_variable"),
                              AddCall(2, 1, "DW_TAG_variable"), AddCall(2, 1, "DW_TAG_variable"),
                              SetCall(1, 3, "DW_AT_frame_base", [k |-> "LocationListRef", list |-> ListRef(LPool.B, 1, 2)]),   \* backward
                              SetCall(1, 2, "DW_AT_frame_base", [k |-> "LocationListRef", list |-> ListRef(LPool.C, 1, 4)]),   \* forward
                              SetCall(1, 4, "DW_AT_frame_base", [k |-> "LocationListRef", list |-> ListRef(LPool.F2, 2, 3)]),  \* cross-unit forward
                              SetCall(2, 2, "DW_AT_frame_base", [k |-> "LocationListRef", list |-> ListRef(LPool.B, 1, 3)]),   \* cross-unit backward
                              SetCall(2, 3, "DW_AT_frame_base", [k |-> "LocationListRef", list |-> ListRef(LPool.C, 2, 2)]),
                              SetCall(2, 3, "DW_AT_ranges", [k |-> "RangeListRef", list |-> RPool.B])>>,
               be |-> (c.v + c.lp + w + Salt) % 3 = 0, probe |-> "lists"]

-----------------------------------------------------------------------------
(* Mode "twins" *)
TwinKinds == {p.k : p \in Probes} \cup {"UnitRef", "DebugInfoRef"}
PairsOf(k) == {S \in SUBSET {p \in Probes : p.k = k /\ "ops" \notin DOMAIN p} : Cardinality(S) = 2}   \* operation lists name skeleton entries
TwinScript(p1, p2) ==
    LET name == NameOf(p1) IN
    <<AddCall(1, 1, "DW_TAG_variable"), AddCall(1, 1, "DW_TAG_variable"), AddCall(1, 1, "DW_TAG_variable"),
      AddCall(1, 1, "DW_TAG_variable"),
      SetCall(1, 2, "DW_AT_decl_line", V("Udata", N(5))), SetCall(1, 2, name, p1),
      SetCall(1, 3, "DW_AT_decl_line", V("Udata", N(5))), SetCall(1, 3, name, p2),
      SetCall(1, 4, "DW_AT_decl_line", V("Udata", N(5))), SetCall(1, 4, name, p1),
      SetCall(1, 5, "DW_AT_decl_line", V("Udata", N(6))), SetCall(1, 5, name, p2),
      AddCall(2, 1, "DW_TAG_variable"), AddCall(2, 1, "DW_TAG_variable"),
      SetCall(2, 2, name, p2), SetCall(2, 3, name, p1)>>
RefTwinScript(k) ==
    LET r(u, e) == IF k = "UnitRef" THEN [k |-> "UnitRef", e |-> e] ELSE [k |-> "DebugInfoRef", u |-> u, e |-> e] IN
    <<AddCall(1, 1, "DW_TAG_variable"), AddCall(1, 1, "DW_TAG_variable"), AddCall(1, 1, "DW_TAG_variable"),
      AddCall(2, 1, "DW_TAG_variable"), AddCall(2, 1, "DW_TAG_variable"),
      SetCall(1, 2, "DW_AT_type", r(1, 3)), SetCall(1, 3, "DW_AT_type", r(1, 4)), SetCall(1, 4, "DW_AT_type", r(1, 2)),
      SetCall(2, 2, "DW_AT_type", r(IF k = "UnitRef" THEN 2 ELSE 1, IF k = "UnitRef" THEN 3 ELSE 4)),
      SetCall(2, 3, "DW_AT_type", r(2, 2))>>
TwinsFan == /\ c.stage = 0 /\ "k" \notin DOMAIN c
            /\ \E k \in TwinKinds : \E v \in (IF AllPlacements THEN {2, 3, 4, 5} ELSE {5, 2 + (Salt % 3)}) :
                 c' = [stage |-> 0, k |-> k, v |-> v]
TwinsNext ==
    /\ c.stage = 0 /\ "k" \in DOMAIN c
    /\ LET w == IF (c.v + Len(c.k) + Salt) % 2 = 0 THEN 4 ELSE 8
           encs == <<Enc(c.v, w, 8), Enc(<<5, 4, 3, 2>>[((c.v + Salt) % 4) + 1], 12 - w, 8)>>
           be == (c.v + Len(c.k) + Salt) % 3 = 0 IN
       IF c.k \in {"UnitRef", "DebugInfoRef"}
       THEN c' = [stage |-> 1, encs |-> encs, calls |-> RefTwinScript(c.k), be |-> be, probe |-> "twins"]
       ELSE \E S \in PairsOf(c.k) :
              LET p1 == CHOOSE x \in S : TRUE
                  p2 == CHOOSE x \in S : x # p1 IN
              c' = [stage |-> 1, encs |-> encs, calls |-> TwinScript(p1, p2), be |-> be, probe |-> "twins"]

(* the abbreviation table merges two entries iff their abbreviations are equal, *)
(* the implicit-const values included                                          *)
AbbrevLemma(D) ==
    \A u \in DOMAIN D.units :
        LET U == Reordered(D.units[u])  L == Layout(D.units[u]) IN
        \A e1 \in Range(L.order) : \A e2 \in Range(L.order) :
            (L.codes[e1] = L.codes[e2]) <=> (Abbrev(U.ents[e1], U.enc) = Abbrev(U.ents[e2], U.enc))

-----------------------------------------------------------------------------
(* Mode "files" *)
EncP(v, w, a, pv) == [version |-> v, word |-> w, asz |-> a, prog |-> pv, nfiles |-> 2]
(* file tables large enough for indices around the ULEB128 length boundaries *)
BigFiles == IF AllPlacements THEN {126, 127, 128, 129, 16382, 16383, 16384, 16385} ELSE {126, 127, 128, 129}
FileVal(n) == [k |-> "FileIndex", f |-> n]
FilesFan == /\ c.stage = 0 /\ "uv" \notin DOMAIN c
            /\ \E uv \in {2, 3, 4, 5} : \E pv \in {2, 3, 4, 5} : c' = [stage |-> 0, uv |-> uv, pv |-> pv]
FilesNext ==
    /\ c.stage = 0 /\ "uv" \in DOMAIN c
    /\ \/ \E w \in {4, 8} : \E variant \in {"attached", "detached", "unused"} :
         c' = [stage |-> 1, encs |-> <<EncP(c.uv, w, 8, c.pv), Enc(c.pv, 12 - w, 8)>>,
               calls |-> <<AddCall(1, 1, "DW_TAG_subprogram"), AddCall(1, 1, "DW_TAG_variable"), AddCall(1, 2, "DW_TAG_variable"),
                           AddCall(2, 1, "DW_TAG_variable"),
                           SetCall(1, 3, "DW_AT_type", [k |-> "UnitRef", e |-> 2])>>
                         \o (IF variant = "unused" THEN <<SetCall(1, 2, "DW_AT_decl_line", V("Udata", N(7)))>>
                             ELSE <<SetCall(1, 2, "DW_AT_decl_file", FileVal(1)), SetCall(1, 3, "DW_AT_decl_file", FileVal(2)),
                                    SetCall(1, 4, "DW_AT_decl_file", FileVal(1)), SetCall(1, 4, "DW_AT_call_file", FileVal(2))>>)
                         \o (IF variant = "detached"
                             THEN <<[op |-> "delete_child", u |-> 1, p |-> 1, e |-> 2],
                                    [op |-> "delete", u |-> 1, e |-> 3, name |-> "DW_AT_decl_file"],
                                    [op |-> "delete", u |-> 1, e |-> 3, name |-> "DW_AT_type"]>> ELSE <<>>),
               be |-> (c.uv + c.pv + w + Salt) % 3 = 0, probe |-> "files"]
       (* a large file table: the index crosses a ULEB128 length boundary, later entries and *)
       (* references (in-unit forward / backward, cross-unit) sit behind the file attribute  *)
       \/ \E n \in BigFiles :
         LET w == IF (c.uv + c.pv + n + Salt) % 2 = 0 THEN 4 ELSE 8 IN
         c' = [stage |-> 1, encs |-> <<[EncP(c.uv, w, 8, c.pv) EXCEPT !.nfiles = n + 1], Enc(c.pv, 12 - w, 8)>>,
               calls |-> <<AddCall(1, 1, "DW_TAG_subprogram"), AddCall(1, 1, "DW_TAG_variable"), AddCall(1, 1, "DW_TAG_base_type"),
                           AddCall(2, 1, "DW_TAG_variable"),
                           SetCall(1, 2, "DW_AT_type", [k |-> "UnitRef", e |-> 3]),
                           SetCall(1, 2, "DW_AT_decl_file", FileVal(n)),
                           SetCall(1, 2, "DW_AT_call_file", FileVal(n + 1)),
                           SetCall(1, 3, "DW_AT_decl_file", FileVal(n - 1)),
                           SetCall(1, 3, "DW_AT_type", [k |-> "UnitRef", e |-> 4]),
                           SetCall(1, 4, "DW_AT_friend", [k |-> "UnitRef", e |-> 2]),
                           SetCall(2, 2, "DW_AT_abstract_origin", [k |-> "DebugInfoRef", u |-> 1, e |-> 3])>>,
               be |-> (c.uv + c.pv + n + Salt) % 3 = 0, probe |-> "files"]

-----------------------------------------------------------------------------
(* Mode "builder": c = [stage, encs, calls, ns (structure calls), nm (modifier calls), last] *)
BEncs == LET v == <<4, 5, 2, 3>>[(Salt % 4) + 1]  w == IF Salt % 2 = 0 THEN 4 ELSE 8 IN
         <<Enc(v, w, 8), Enc(<<5, 3, 4, 2>>[(Salt % 4) + 1], 12 - w, 4)>>
Cur(s) == Apply(Start(SubSeq(BEncs, 1, s.nu)), s.calls, 1)
LastUnit(s) == IF s.calls = <<>> THEN 1 ELSE s.calls[Len(s.calls)].u
Added(U, e) == e <= Len(U.ents) /\ U.ents[e].tag # ""
Unadded(U) == {e \in 2..U.reserved : ~Added(U, e)}

StructNext ==
    /\ c.stage = 0 /\ c.phase = "S" /\ c.ns < MaxS
    /\ LET D == Cur(c) IN
       \E u \in LastUnit(c)..c.nu :
         LET U == D.units[u] IN
         \/ \E p \in {e \in 1..Len(U.ents) : Added(U, e)} :
              \E tag \in (IF p = 1 THEN {"DW_TAG_variable", "DW_TAG_base_type"} ELSE {"DW_TAG_member"}) :
                c' = [c EXCEPT !.calls = Append(@, AddCall(u, p, tag)), !.ns = @ + 1]
         \/ c' = [c EXCEPT !.calls = Append(@, [op |-> "reserve", u |-> u]), !.ns = @ + 1]
         \/ \E e \in Unadded(U) : \E p \in {x \in 1..Len(U.ents) : Added(U, x)} :
              c' = [c EXCEPT !.calls = Append(@, [op |-> "add_reserved", u |-> u, e |-> e, p |-> p,
                                                 tag |-> IF p = 1 THEN "DW_TAG_base_type" ELSE "DW_TAG_member"]),
                             !.ns = @ + 1]
ToMods == /\ c.stage = 0 /\ c.phase = "S" /\ c.ns > 0
          /\ c' = [c EXCEPT !.phase = "M"]
(* modifier calls, in non-decreasing order of an index so that sets are not permuted *)
Mods(D, nu) ==
    UNION {LET U == D.units[u] IN
      {SetCall(u, e, "DW_AT_type", [k |-> "UnitRef", e |-> t]) : e \in 2..Len(U.ents), t \in 1..U.reserved}
      \cup {SetCall(u, e, "DW_AT_import", [k |-> "DebugInfoRef", u |-> v, e |-> t]) :
              e \in 2..Len(U.ents), v \in 1..nu, t \in 2..3}
      \cup {[op |-> "sibling", u |-> u, e |-> e, v |-> TRUE] : e \in {x \in 1..Len(U.ents) : U.ents[x].children # <<>>}}
      \cup {[op |-> "delete_child", u |-> u, p |-> p, e |-> e] : p \in 1..Len(U.ents), e \in 2..Len(U.ents)}
      \cup {SetCall(u, e, "DW_AT_const_value", V("Udata", N(200))) : e \in 1..Len(U.ents)}
      \cup {SetCall(u, e, "DW_AT_location", [k |-> "Exprloc", ops |-> <<[op |-> "deref_type", size |-> 4, e |-> t]>>]) :
              e \in 2..Len(U.ents), t \in 2..U.reserved}
      \cup {SetCall(u, e, "DW_AT_type", V("Data1", N(7))) : e \in 2..Len(U.ents)}
      \cup {[op |-> "delete", u |-> u, e |-> e, name |-> "DW_AT_type"] : e \in 2..Len(U.ents)}
      : u \in 1..nu}
ModOk(D, k) ==
    CASE k.op = "set" /\ k.val.k = "DebugInfoRef" -> k.val.e \in 1..D.units[k.val.u].reserved
      [] k.op = "delete_child" -> k.e # k.p /\ \E i \in DOMAIN D.units[k.u].ents[k.p].children : D.units[k.u].ents[k.p].children[i] = k.e
      [] OTHER -> TRUE
ModNext ==
    /\ c.stage = 0 /\ c.phase = "M" /\ c.nm < MaxM
    /\ LET D == Cur(c) IN
       \E k \in Mods(D, c.nu) : ModOk(D, k) /\ c' = [c EXCEPT !.calls = Append(@, k), !.nm = @ + 1]
BuilderFinish ==
    /\ c.stage = 0 /\ c.phase = "M"
    /\ c' = [stage |-> 1, encs |-> SubSeq(BEncs, 1, c.nu), calls |-> c.calls, be |-> (Len(c.calls) + Salt) % 4 = 0,
             probe |-> "builder"]
SetUnits == /\ c.stage = 0 /\ c.phase = "S" /\ c.ns = 0 /\ c.nu < MaxUnits
            /\ c' = [c EXCEPT !.nu = @ + 1]

Init == c = IF Mode = "kinds" THEN [stage |-> -1]
            ELSE IF Mode \in {"wide", "lists", "twins", "files"} THEN [stage |-> 0]
            ELSE [stage |-> 0, phase |-> "S", calls |-> <<>>, ns |-> 0, nm |-> 0, nu |-> 1]
Next == IF Mode = "kinds" THEN KindsFan \/ KindsNext \/ BadNext \/ Bad3Next
        ELSE IF Mode = "wide" THEN WideFan \/ WideNext
        ELSE IF Mode = "lists" THEN ListsFan \/ ListsNext \/ ListRefsNext
        ELSE IF Mode = "twins" THEN TwinsFan \/ TwinsNext
        ELSE IF Mode = "files" THEN FilesFan \/ FilesNext
        ELSE StructNext \/ ToMods \/ ModNext \/ BuilderFinish \/ SetUnits

-----------------------------------------------------------------------------
(* design-level checks on the final model state *)
AllAttrs(D) == UNION {UNION {Range(D.units[u].ents[e].attrs) : e \in 1..Len(D.units[u].ents)} : u \in 1..Len(D.units)}
DummyCx(D) == [defer |-> FALSE, unitoff |-> [e \in 1..64 |-> N(77)], infooff |-> [v \in 1..2 |-> [e \in 1..64 |-> N(300)]],
               stroff |-> [s \in Range(D.strs) |-> 3], lstroff |-> [s \in Range(D.lstrs) |-> 4], lineprog |-> TRUE]
SizeLemma(D) == \A u \in 1..Len(D.units) : \A e \in 1..Len(D.units[u].ents) :
                  \A a \in Range(D.units[u].ents[e].attrs) : SizeIsEmitLen(a.val, D.units[u].enc, DummyCx(D))
(* the emitted bytes of a unit are as long as its layout says; offsets ascend in preorder *)
LayoutLemma(D, res) ==
    res.ok => /\ Len(res.info) = res.units[Len(res.units)].off + res.units[Len(res.units)].len
              /\ \A u \in DOMAIN res.units : \A i \in 2..Len(res.units[u].entries) :
                    res.units[u].entries[i - 1].off < res.units[u].entries[i].off

(* a reference to an id that has no slot in the unit: expected to be an error *)
Beyond(D) == \E u \in 1..Len(D.units) : \E e \in 1..Len(D.units[u].ents) : \E a \in Range(D.units[u].ents[e].attrs) :
                a.val.k \in {"UnitRef", "DebugInfoRef"} /\ RefBeyond(D, u, a.val)

(* deterministic sampling of final builder states (thorough tier, deep configurations) *)
CallCode(k) == Len(k.op) + 7 * k.u + (IF "e" \in DOMAIN k THEN 11 * k.e ELSE 0) + (IF "p" \in DOMAIN k THEN 13 * k.p ELSE 0)
               + (IF k.op = "set" THEN Len(k.name) + 17 * Len(k.val.k) + (IF "e" \in DOMAIN k.val THEN 19 * k.val.e ELSE 0)
                                       + (IF "u" \in DOMAIN k.val THEN 23 * k.val.u ELSE 0)
                  ELSE 0)
RECURSIVE HashCalls(_, _, _)
HashCalls(calls, i, h) == IF i > Len(calls) THEN h ELSE HashCalls(calls, i + 1, (h * 31 + CallCode(calls[i])) % 9973)
Emit1(s) == HashCalls(s.calls, 1, Salt) % EmitMod = 0

(* a list the property says cannot be encoded makes the modelled write fail *)
ListsLemma(D, res, be) ==
    \A u \in DOMAIN D.units :
        LET U == D.units[u]  lenc == LEnc(U.enc, be) IN
        (\E i \in DOMAIN U.rt : LW!MustReject(U.rt[i], lenc, Lp(U))) \/ (\E i \in DOMAIN U.lt : LW!MustReject(U.lt[i], lenc, Lp(U)))
        => ~res.ok
Inv == (c.stage = 1 /\ (Mode \in {"kinds", "wide", "lists", "twins", "files"} \/ Emit1(c))) =>
       LET D == Normalise(Apply(Start(c.encs), c.calls, 1))
           res == WriteResult(D, c.be) IN
       /\ SizeLemma(D)
       /\ LayoutLemma(D, res)
       /\ ListsLemma(D, res, c.be)
       /\ AbbrevLemma(D)
       /\ PrintT(<<"CASE", ToJson([sys |-> "unitw", be |-> c.be, probe |-> c.probe,
                                   units |-> [u \in DOMAIN c.encs |->
                                                IF Prog(c.encs[u]) = 0
                                                THEN [version |-> c.encs[u].version, format |-> c.encs[u].word, asz |-> c.encs[u].asz]
                                                ELSE [version |-> c.encs[u].version, format |-> c.encs[u].word, asz |-> c.encs[u].asz,
                                                      lineprog |-> c.encs[u].prog, nfiles |-> c.encs[u].nfiles]],
                                   alt_err |-> \E u \in DOMAIN D.units : ProgMismatch(D.units[u]),
                                   calls |-> c.calls, beyond |-> Beyond(D), exp |-> res])>>)
=============================================================================
