INIT Init
NEXT Next
INVARIANT Inv
CHECK_DEADLOCK FALSE
CONSTANTS
  Fam = "tab"
  MaxCies = 2
  MaxFdes = 2
  Slim = TRUE
